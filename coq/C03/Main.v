Require Import PG.Base.Bytes PG.Base.GoSlice PG.Base.Value PG.C02.Model PG.C02.Spec PG.C02.Pure PG.C02.Refine PG.C02.SpecProofs.
Require Import PG.C03.Model PG.C03.Pure PG.C03.Lib PG.C03.Spec PG.C03.Refine PG.C03.SpecProofs PG.C03.Bitmap.

Section Main.
Variable DecodeType : gslice -> Z -> res gval.
Variable decode : bytes -> Z -> gval.
Hypothesis DT_ok : forall s oid, DecodeType s oid = Ok (decode (vis s) oid).

Definition bitmap_for (ds : list datum) : option bytes := if has_nulls ds then Some (bitmap_of ds) else None.

Lemma p_row_fill cols ds :
  fits_prefix cols ds -> nums_ok cols 0 ->
  p_row decode (bitmap_for ds) (fill 0 cols ds) cols = expected_row decode cols ds.
Proof.
  intros HF HN. unfold p_row.
  pose proof (layout_fill decode (bitmap_for ds) cols ds [] 0 HF HN) as H. cbn [app blen length Z.of_nat] in H.
  change (blen []) with 0 in H. apply H.
  intros k d Hk. unfold bitmap_for. destruct (has_nulls ds) eqn:E.
  - apply isnull_bitmap. exact Hk.
  - cbn [p_isnull]. symmetry. eapply no_nulls; eauto.
Qed.

(* any HeapTuple whose visible data bytes / bitmap bytes are the ones heap_fill_tuple writes *)
Theorem decode_tuple_ok t cols ds :
  fits_prefix cols ds -> nums_ok cols 0 -> cols <> [] ->
  vis (t_data t) = fill 0 cols ds -> option_map vis (t_bitmap t) = bitmap_for ds ->
  DecodeTuple DecodeType (Some t) cols = Ok (Some (expected_row decode cols ds)).
Proof.
  intros HF HN Hne Hd Hb. rewrite (DecodeTuple_refines DecodeType decode DT_ok).
  unfold p_decode. rewrite Hd, Hb.
  replace (Z.of_nat (length cols) =? 0) with false by (destruct cols; [contradiction|cbn [length]; lia]).
  rewrite andb_false_r. rewrite p_row_fill by assumption. reflexivity.
Qed.

(* the same through the page scan: a stored tuple as PostgreSQL forms it (C02's writer) *)
Definition maxalign (n : Z) : Z := align n 8.
Definition stored_tuple (head : bytes) (flags2 mask_hi : Z) (extra_hoff : Z) (cols : list Column) (ds : list datum) : tup :=
  let bm := if has_nulls ds then bitmap_of ds else [] in
  let hoff := maxalign (23 + blen bm) + 8 * extra_hoff in
  {| tp_head := head; tp_natts := Z.of_nat (length ds); tp_flags2 := flags2;
     tp_infomask := (if has_nulls ds then 1 else 0) + 2 * mask_hi;
     tp_hoff := hoff; tp_mid := bm ++ zeros (hoff - 23 - blen bm); tp_data := fill 0 cols ds |}.

Lemma bitmap_of_bits_len : forall fuel bits, (length bits <= fuel)%nat ->
  blen (bitmap_of_bits fuel bits) = (Z.of_nat (length bits) + 7) / 8.
Proof.
  induction fuel as [|f IH]; intros bits H.
  - destruct bits; [reflexivity|cbn [length] in H; lia].
  - destruct bits as [|b bits]; [reflexivity|]. rewrite bitmap_cons by discriminate. bl.
    rewrite IH by (rewrite skipn_length; cbn [length] in *; lia).
    rewrite skipn_length. cbn [length]. lia.
Qed.
Lemma bitmap_of_len ds : blen (bitmap_of ds) = (Z.of_nat (length ds) + 7) / 8.
Proof. unfold bitmap_of. rewrite bitmap_of_bits_len by (rewrite map_length; lia). rewrite map_length. reflexivity. Qed.

Theorem decode_stored_tuple head flags2 mask_hi extra cols ds tl :
  fits_prefix cols ds -> nums_ok cols 0 -> cols <> [] ->
  blen head = 18 -> 0 <= flags2 < 32 -> 0 <= mask_hi < 32768 -> 0 <= extra ->
  Z.of_nat (length ds) < 2048 -> maxalign (23 + (Z.of_nat (length ds) + 7) / 8) + 8 * extra <= 255 ->
  let t := stored_tuple head flags2 mask_hi extra cols ds in
  exists ht, ParseHeapTuple {| vis := enc_tuple t; tail := tl |} = Ok (Some ht) /\
             DecodeTuple DecodeType (Some ht) cols = Ok (Some (expected_row decode cols ds)).
Proof.
  intros HF HN Hne Hh Hf Hm He Hn Hho t.
  assert (W : wf_tup t).
  { unfold wf_tup, t, stored_tuple, hasnull, bitmap_len, maxalign. cbn [tp_head tp_natts tp_flags2 tp_infomask tp_hoff tp_mid tp_data].
    pose proof (bitmap_of_len ds) as BL. unfold maxalign in Hho.
    destruct (has_nulls ds) eqn:EN.
    - rewrite BL in *. unfold align in *. cbn [Z.leb Z.compare Pos.compare Pos.compare_cont] in *. bl.
      repeat split; try lia; try (rewrite zeros_len by lia; lia).
    - change (blen []) with 0 in *. unfold align in *. cbn [Z.leb Z.compare Pos.compare Pos.compare_cont] in *. bl.
      repeat split; try lia; try (rewrite zeros_len by lia; lia).
      intros O. exfalso. rewrite Z.add_0_l, Z.odd_mul in O. discriminate. }
  destruct (ParseHeapTuple_refines {| vis := enc_tuple t; tail := tl |}) as (o & H1 & H2).
  cbn [vis] in H2. specialize (H2 0). rewrite p_tuple_enc in H2 by exact W.
  destruct o as [ht|]; [|discriminate]. exists ht. split; [exact H1|].
  cbn [option_map] in H2. assert (E : obs_tuple ht 0 = expected_tuple t 0) by congruence.
  pose proof (f_equal o_bitmap E) as Hbm. pose proof (f_equal o_data E) as Hdat.
  cbn [o_bitmap o_data obs_tuple expected_tuple] in Hbm, Hdat.
  apply decode_tuple_ok; auto; try (rewrite Hdat; reflexivity).
  rewrite Hbm. unfold bitmap_for, hasnull, bitmap_len, t, stored_tuple. cbn [tp_infomask tp_natts tp_mid].
  destruct (has_nulls ds) eqn:EN.
    + replace (Z.odd (1 + 2 * mask_hi)) with true by (rewrite Z.odd_add, Z.odd_mul; reflexivity).
      f_equal. rewrite <- bitmap_of_len. rewrite firstn_app.
      replace (Z.to_nat (blen (bitmap_of ds)) - length (bitmap_of ds))%nat with 0%nat by (unfold blen; lia).
      cbn [firstn]. rewrite app_nil_r. apply firstn_all2. unfold blen. lia.
    + replace (Z.odd (0 + 2 * mask_hi)) with false by (rewrite Z.add_0_l, Z.odd_mul; reflexivity). reflexivity.
Qed.

End Main.
