(* Instantiation used by the driver: DecodeType is another property's decoder, so it is replaced by a
   placeholder recording WHICH bytes and type id were handed over; the harness substitutes the real
   DecodeType result for the placeholder (guide §10). *)
Require Import PG.Base.Bytes PG.Base.GoSlice PG.Base.Value PG.C02.Model PG.C03.Model PG.C03.Pure PG.C03.Spec.

Definition ph_decode (bs : bytes) (oid : Z) : gval := VList [VStr [x64; x74]; VInt oid; VBytes bs].   (* "dt" *)
Definition ph_DecodeType (s : gslice) (oid : Z) : res gval := Ok (ph_decode (vis s) oid).
Lemma ph_ok : forall s oid, ph_DecodeType s oid = Ok (ph_decode (vis s) oid).
Proof. reflexivity. Qed.

Definition DecodeTuple_i := DecodeTuple ph_DecodeType.
Definition readValue_i := readValue ph_DecodeType.
Definition expected_row_i := expected_row ph_decode.
Definition mk_tuple (natts : Z) (bm : option gslice) (data : gslice) : HeapTuple :=
  {| t_hoff := 24; t_natts := natts; t_infomask := 0; t_hasnull := match bm with Some _ => true | None => false end;
     t_xminc := false; t_xmaxinv := false; t_xmaxc := false; t_bitmap := bm; t_data := data |}.
