Require Import PG.Base.Bytes PG.Base.GoSlice.

Lemma nth_skipn' {A} (l : list A) n k d : nth k (skipn n l) d = nth (n + k) l d.
Proof. revert l; induction n as [|n IH]; intros l; [reflexivity|]. destruct l as [|x l]; [destruct k; reflexivity|]. cbn [skipn Nat.add nth]. apply IH. Qed.
Lemma nth_firstn' {A} (l : list A) n k d : (k < n)%nat -> nth k (firstn n l) d = nth k l d.
Proof.
  revert l k; induction n as [|n IH]; intros l k H; [lia|]. destruct l as [|x l]; [reflexivity|].
  destruct k as [|k]; [reflexivity|]. cbn [firstn nth]. apply IH. lia.
Qed.
Lemma byte_at_sub_shift d lo hi k : 0 <= lo -> 0 <= k -> lo + k < hi -> byte_at (sub d lo hi) k = byte_at d (lo + k).
Proof.
  intros. unfold byte_at, sub. rewrite nth_firstn' by lia. rewrite nth_skipn'. do 2 f_equal. lia.
Qed.

Lemma byte_at_sub_head d off hi x r : 0 <= off -> off < hi -> sub d off hi = x :: r -> byte_at d off = b2z x.
Proof.
  intros H0 H1 H2. replace off with (off + 0) at 1 by lia.
  rewrite <- (byte_at_sub_shift d off hi 0) by lia. rewrite H2. reflexivity.
Qed.

Lemma slice_from_vis s lo r : slice_from s lo = Ok r -> vis r = sub (vis s) lo (len s) /\ len r = len s - lo.
Proof.
  intros H. split; [|eapply slice_from_len; eauto].
  unfold slice_from in H. destruct (_ && _); [|discriminate]. injection H as <-. reflexivity.
Qed.
Lemma slice_from_ok s lo : 0 <= lo <= len s -> exists r, slice_from s lo = Ok r.
Proof. intros. unfold slice_from. destruct (_ && _) eqn:E; [eauto|lia]. Qed.

(* a slice of a slice_from, staying inside len *)
Lemma slice_of_from s off rem lo hi :
  slice_from s off = Ok rem -> 0 <= off -> 0 <= lo -> lo <= hi -> hi <= len rem ->
  exists p, slice rem lo hi = Ok p /\ vis p = sub (vis s) (off + lo) (off + hi) /\ len p = hi - lo.
Proof.
  intros Hr Hoff Hlo Hle Hhi. destruct (slice_from_vis _ _ _ Hr) as [Hv Hl].
  pose proof (len_le_cap rem).
  destruct (slice_ok rem lo hi) as [p Hp]; try lia. exists p. split; [exact Hp|]. split.
  - rewrite (slice_vis_within _ _ _ _ Hp) by lia. rewrite Hv. apply sub_sub; lia.
  - eapply slice_len; eauto.
Qed.
