(* Model of DecodeTuple / alignFromChar / typeAlign / readValue / emptyVarlenaValue / ReadRows (pgdump/heap.go)
   and ReadVarlena (pgdump/types.go), as repaired by the five "fix:" commits e0f51cf..328f063.
   DecodeType (C04/C05/C06/C07) is a Section variable: C03 is about WHICH bytes are handed to it.
   The package variable Debug is taken to be false (its branches only print). *)
Require Import PG.Base.Bytes PG.Base.GoSlice PG.Base.Value PG.C02.Model.

Record Column := { c_name : bytes; c_typid : Z; c_len : Z; c_num : Z; c_align : Z (* byte *) }.

(* heap.go alignFromChar: 'c' 99, 's' 115, 'i' 105, 'd' 100 *)
Definition alignFromChar (c : Z) : Z :=
  if c =? 99 then 1 else if c =? 115 then 2 else if c =? 105 then 4 else if c =? 100 then 8 else 0.

Definition memZ (x : Z) (l : list Z) : bool := existsb (Z.eqb x) l.
(* heap.go typeAlign *)
Definition typeAlign (typID length : Z) : Z :=
  if memZ typID [20; 701; 1114; 1184; 1083; 790; 3220; 600; 601; 603; 628; 718; 1186; 1266] then 8
  else if memZ typID [23; 26; 700; 1082; 28; 29;
                      25; 1043; 1042; 17; 114; 3802; 142;
                      1700; 869; 650; 602; 604;
                      1560; 1562; 3614; 3615; 4072;
                      3904; 3926; 3906; 3912; 3908; 3910] then 4
  else if memZ typID [21; 27] then 2
  else if memZ typID [829; 774] then 4
  else if memZ typID [16; 18; 19; 2950] then 1
  else if length =? -1 then 4
  else if length >=? 8 then 8 else if length >=? 4 then 4 else if length >=? 2 then 2 else 1.

(* heap.go emptyVarlenaValue: "" for text/varchar/bpchar, "\x" for bytea *)
Definition emptyVarlenaValue (typID : Z) : gval :=
  if memZ typID [25; 1043; 1042] then VStr [] else if typID =? 17 then VStr [x5c; x78] else VNil.

(* types.go ReadVarlena: (payload or nil, consumed) *)
Definition ReadVarlena (s : gslice) : res (option gslice * Z) :=
  if len s =? 0 then Ok (None, 0) else
  first <- idx s 0 ;;
  if (first mod 2 =? 1) && negb (first =? 1) then
    let totalLen := first / 2 in
    if (totalLen <? 1) || (len s <? totalLen) then Ok (None, 1) else
    p <- slice s 1 totalLen ;; Ok (Some p, totalLen)
  else if first =? 1 then
    if len s >=? 18 then (tag <- idx s 1 ;; if tag =? 18 then Ok (None, 18) else Ok (None, 1)) else Ok (None, 1)
  else
    if len s <? 4 then Ok (None, 0) else
    header <- u32 s 0 ;;
    let totalLen := header / 4 in
    if (totalLen <? 4) || (len s <? totalLen) then Ok (None, 4) else
    p <- slice s 4 totalLen ;; Ok (Some p, totalLen).

Section WithDecodeType.
Variable DecodeType : gslice -> Z -> res gval.

(* for i, b := range remaining { if b == 0 { return string(remaining[:i]), i+1 } } return string(remaining), len *)
Fixpoint cstr_scan (bs : bytes) (i : Z) : Z * Z :=     (* (string length, consumed) *)
  match bs with
  | [] => (i, i)
  | b :: r => if b2z b =? 0 then (i, i + 1) else cstr_scan r (i + 1)
  end.

(* heap.go readValue *)
Definition readValue (data : gslice) (offset typID length : Z) : res (gval * Z) :=
  if offset >=? len data then Ok (VNil, 0) else
  remaining <- slice_from data offset ;;
  if length >? 0 then
    if len remaining <? length then Ok (VNil, 0) else
    p <- slice_to remaining length ;; v <- DecodeType p typID ;; Ok (v, length)
  else if length =? -1 then
    '(val, consumed) <- ReadVarlena remaining ;;
    match val with
    | None => Ok (VNil, Z.max consumed 1)
    | Some p => if len p =? 0 then Ok (emptyVarlenaValue typID, consumed)
                else v <- DecodeType p typID ;; Ok (v, consumed)
    end
  else
    let '(n, consumed) := cstr_scan (vis remaining) 0 in
    p <- slice_to remaining n ;; Ok (VStr (vis p), consumed).

(* heap.go DecodeTuple loop body *)
Fixpoint DecodeTuple_loop (t : HeapTuple) (cols : list Column) (i : Z) (offset : Z) (acc : row) : res row :=
  match cols with
  | [] => Ok acc
  | col :: rest =>
    let num := if c_num col =? 0 then i + 1 else c_num col in
    isnull <- IsNull t num ;;
    if isnull then DecodeTuple_loop t rest (i + 1) offset (acc ++ [(c_name col, VNil)]) else
    let a0 := alignFromChar (c_align col) in
    let a1 := if a0 =? 0 then typeAlign (c_typid col) (c_len col) else a0 in
    a2 <- (if (c_len col =? -1) && (offset <? len (t_data t))
           then b <- idx (t_data t) offset ;; Ok (if negb (b =? 0) then 1 else a1)
           else Ok a1) ;;
    let offset' := go_align offset a2 in
    '(v, consumed) <- readValue (t_data t) offset' (c_typid col) (c_len col) ;;
    DecodeTuple_loop t rest (i + 1) (offset' + consumed) (acc ++ [(c_name col, v)])
  end.

(* nil map <-> None *)
Definition DecodeTuple (t : option HeapTuple) (cols : list Column) : res (option row) :=
  match t with
  | None => Ok None
  | Some t => if (len (t_data t) =? 0) && (Z.of_nat (length cols) =? 0) then Ok None
              else r <- DecodeTuple_loop t cols 0 0 [] ;; Ok (Some r)
  end.

(* heap.go ReadRows *)
Fixpoint decode_entries (es : list TupleEntry) (cols : list Column) : res (list row) :=
  match es with
  | [] => Ok []
  | e :: r => o <- DecodeTuple (Some (e_tuple e)) cols ;; rs <- decode_entries r cols ;;
              Ok (match o with Some row => row :: rs | None => rs end)
  end.
Definition ReadRows (data : gslice) (cols : list Column) (visibleOnly : bool) : res (list row) :=
  es <- ReadTuples data visibleOnly ;; decode_entries es cols.

End WithDecodeType.
