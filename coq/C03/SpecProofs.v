(* The layout function inverts heap_fill_tuple: induction over the columns with the invariant
   "offset = number of data bytes emitted so far"; key step = the pad-byte argument (att_align_pointer). *)
Require Import PG.Base.Bytes PG.Base.GoSlice PG.Base.Value PG.C02.Model PG.C02.Pure.
Require Import PG.C03.Model PG.C03.Pure PG.C03.Lib PG.C03.Spec.

(* ---------- alignment tables ---------- *)
Lemma typeAlign_fallback : forall oid, In oid fallback_ok_oids -> forall len, typeAlign oid len = pg_typalign oid.
Proof.
  intros oid H len. unfold fallback_ok_oids in H. cbn [In] in H.
  repeat (destruct H as [<-|H]; [reflexivity|]). contradiction.
Qed.

Lemma col_align_spec c : align_known c -> col_align c = att_align c.
Proof.
  unfold align_known, col_align, att_align, alignFromChar. intros [H|H].
  - cbn [In] in H. destruct H as [<-|[<-|[<-|[<-|[]]]]]; reflexivity.
  - destruct (c_align c =? 99); [reflexivity|]. destruct (c_align c =? 115); [reflexivity|].
    destruct (c_align c =? 105); [reflexivity|]. destruct (c_align c =? 100); [reflexivity|].
    cbn [Z.eqb]. apply typeAlign_fallback. exact H.
Qed.

Lemma typeAlign_pow2 oid len : wf_align (typeAlign oid len).
Proof.
  unfold typeAlign, wf_align.
  repeat match goal with |- context [if ?c then _ else _] => destruct c end; lia.
Qed.
Lemma col_align_pow2 c : wf_align (col_align c).
Proof.
  unfold col_align, alignFromChar.
  destruct (c_align c =? 99); [left; reflexivity|]. destruct (c_align c =? 115); [right; left; reflexivity|].
  destruct (c_align c =? 105); [right; right; left; reflexivity|]. destruct (c_align c =? 100); [right; right; right; reflexivity|].
  cbn [Z.eqb]. apply typeAlign_pow2.
Qed.

Lemma go_align_wf off a : wf_align a -> 0 <= off -> go_align off a = align off a.
Proof.
  intros [->|[->|[->| ->]]] H; [reflexivity|apply go_align_2|apply go_align_4|apply go_align_8]; lia.
Qed.
Lemma align_wf off a : wf_align a -> 0 <= off -> off <= align off a < off + a /\ align off a mod a = 0.
Proof. unfold wf_align, align. intros [->|[->|[->| ->]]] H; cbn [Z.leb Z.compare Pos.compare Pos.compare_cont]; lia. Qed.
Lemma align_1 off : align off 1 = off. Proof. reflexivity. Qed.

Lemma blen_0_nil (bs : bytes) : blen bs = 0 -> bs = [].
Proof. destruct bs; [reflexivity|]. bl. pose proof (blen_nonneg bs). lia. Qed.
Lemma blen_pos_cons (bs : bytes) : blen bs <> 0 -> exists b r, bs = b :: r.
Proof. destruct bs; [bl; lia|eauto]. Qed.

Lemma byte_at_app_r0 pre x i : i = blen pre -> byte_at (pre ++ x) i = byte_at x 0.
Proof. intros ->. rewrite byte_at_app_r by lia. f_equal. lia. Qed.
Lemma byte_at_zeros p r : 0 < p -> byte_at (zeros p ++ r) 0 = 0.
Proof. intros. unfold byte_at, zeros. destruct (Z.to_nat p) eqn:E; [lia|]. reflexivity. Qed.

Lemma cstr_scan_nul_free : forall bs r i, nul_free bs -> cstr_scan (bs ++ x00 :: r) i = (i + blen bs, i + blen bs + 1).
Proof.
  induction bs as [|b bs IH]; intros r i H; cbn [app cstr_scan].
  - change (b2z x00 =? 0) with true. cbn. f_equal; lia.
  - inversion H as [|? ? Hb H']; subst. replace (b2z b =? 0) with false by lia.
    rewrite IH by exact H'. bl. f_equal; lia.
Qed.

(* ---------- phase 2: columns beyond the stored attributes ---------- *)
Section Decode.
Variable decode : bytes -> Z -> gval.

Lemma layout_beyond bm d : forall cols i offset,
  blen d <= offset ->
  map (fun x => (fst x, eval_req decode d (snd x))) (p_layout bm d cols i offset) = expected_row decode cols [].
Proof.
  induction cols as [|c cs IH]; intros i offset Hoff; cbn [p_layout expected_row map]; [reflexivity|].
  destruct (p_isnull bm _).
  - cbn [map fst snd eval_req]. f_equal. apply IH. exact Hoff.
  - replace ((c_len c =? -1) && (offset <? blen d)) with false by lia.
    pose proof (col_align_pow2 c) as Hw. pose proof (blen_nonneg d).
    rewrite go_align_wf by (auto; lia).
    pose proof (align_wf offset (col_align c) Hw ltac:(lia)) as [Ha _].
    unfold p_readValue. replace (align offset (col_align c) >=? blen d) with true by lia.
    cbn [map fst snd eval_req]. f_equal. apply IH. lia.
Qed.

(* ---------- phase 1: stored attributes ---------- *)
Inductive fits_prefix : list Column -> list datum -> Prop :=
| fp_nil cols : fits_prefix cols []
| fp_cons c cs d ds : fits c d -> fits_prefix cs ds -> fits_prefix (c :: cs) (d :: ds).

Lemma fill_nil_r off cols : fill off cols [] = [].
Proof. destruct cols; reflexivity. Qed.

Theorem layout_fill bm : forall cols ds pre i,
  fits_prefix cols ds -> nums_ok cols i ->
  (forall k d, nth_error ds k = Some d -> p_isnull bm (i + 1 + Z.of_nat k) = is_null d) ->
  let dat := pre ++ fill (blen pre) cols ds in
  map (fun x => (fst x, eval_req decode dat (snd x))) (p_layout bm dat cols i (blen pre)) = expected_row decode cols ds.
Proof.
  induction cols as [|c cs IH]; intros ds pre i HF HN HB dat.
  { inversion HF; subst. reflexivity. }
  destruct ds as [|d ds'].
  { subst dat. rewrite fill_nil_r, app_nil_r. apply layout_beyond. lia. }
  inversion HF as [|? ? ? ? Hfit HF']; subst. destruct HN as [Hnum HN'].
  destruct Hfit as (Ha & Hk & Hd).
  assert (Hnull : p_isnull bm (if c_num c =? 0 then i + 1 else c_num c) = is_null d).
  { specialize (HB 0%nat d eq_refl). replace (i + 1 + Z.of_nat 0) with (i + 1) in HB by lia.
    destruct Hnum as [-> | ->]; [exact HB|]. destruct (i + 1 =? 0); exact HB. }
  assert (HB' : forall k d0, nth_error ds' k = Some d0 -> p_isnull bm (i + 1 + 1 + Z.of_nat k) = is_null d0).
  { intros k d0 Hk0. specialize (HB (S k) d0 Hk0). rewrite <- HB. f_equal. lia. }
  assert (Hpre : 0 <= blen pre) by apply blen_nonneg.
  cbn [p_layout expected_row]. rewrite Hnull. rewrite (col_align_spec c Hk).
  destruct d as [|bs|bs|bs|bs|body|bs]; cbn [is_null expected_value].
  - (* NULL: nothing emitted, no padding *)
    cbn [map fst snd eval_req]. f_equal. subst dat. cbn [fill]. apply (IH ds' pre (i + 1)); auto.
  - (* fixed width *)
    destruct Hd as [Hl Hb].
    replace (c_len c =? -1) with false by lia. cbn [andb].
    set (p := pad (blen pre) (att_align c)).
    pose proof (align_wf (blen pre) (att_align c) Ha Hpre) as [Hal _].
    assert (Hp : 0 <= p) by (unfold p, pad; lia).
    rewrite go_align_wf by auto.
    subst dat. cbn [fill]. fold p.
    set (F := fill (blen pre + p + blen bs) cs ds').
    pose proof (blen_nonneg F) as HF0.
    unfold p_readValue. bl.
    replace (align (blen pre) (att_align c) >=? blen pre + (p + (blen bs + blen F))) with false by (unfold p, pad in *; lia).
    replace (c_len c >? 0) with true by lia.
    replace (blen pre + (p + (blen bs + blen F)) - align (blen pre) (att_align c) <? c_len c) with false by (unfold p, pad in *; lia).
    cbn [map fst snd eval_req]. f_equal.
    + f_equal. f_equal. replace (pre ++ zeros p ++ bs ++ F) with ((pre ++ zeros p) ++ bs ++ F) by (rewrite <- app_assoc; reflexivity).
      apply sub_mid; bl; unfold p, pad in *; lia.
    + specialize (IH ds' (pre ++ zeros p ++ bs) (i + 1) HF' HN' HB').
      cbn zeta in IH. revert IH. bl. rewrite <- !app_assoc.
      replace (blen pre + (p + blen bs)) with (blen pre + p + blen bs) by lia. fold F.
      replace (align (blen pre) (att_align c) + c_len c) with (blen pre + p + blen bs) by (unfold p, pad; lia).
      intros IH; exact IH.
  - (* short varlena: 1-byte header, never aligned *)
    destruct Hd as [Hl Hb]. rewrite Hl, Z.eqb_refl. cbn [andb].
    subst dat. cbn [fill].
    set (F := fill (blen pre + 1 + blen bs) cs ds').
    set (dat := pre ++ [hdr1 (blen bs + 1)] ++ bs ++ F).
    pose proof (blen_nonneg bs) as Hbs. pose proof (blen_nonneg F) as HF0.
    assert (Hd0 : byte_at dat (blen pre) = (blen bs + 1) * 2 + 1).
    { unfold dat. rewrite byte_at_app_r0 by reflexivity. cbn [app]. rewrite byte_at_cons0.
      unfold hdr1. rewrite b2z_z2b. lia. }
    assert (Hlen : blen dat = blen pre + 1 + blen bs + blen F) by (unfold dat; bl; lia).
    replace (blen pre <? blen dat) with true by lia.
    rewrite Hd0. replace (negb ((blen bs + 1) * 2 + 1 =? 0)) with true by lia.
    rewrite go_align_1.
    unfold p_readValue. replace (blen pre >=? blen dat) with false by lia.
    replace (-1 >? 0) with false by reflexivity. rewrite Z.eqb_refl.
    unfold p_readVarlena. rewrite Hd0.
    replace (blen dat - blen pre =? 0) with false by lia.
    replace ((((blen bs + 1) * 2 + 1) mod 2 =? 1) && negb ((blen bs + 1) * 2 + 1 =? 1)) with true by lia.
    replace (((blen bs + 1) * 2 + 1) / 2) with (blen bs + 1) by lia.
    replace ((blen bs + 1 <? 1) || (blen dat - blen pre <? blen bs + 1)) with false by lia.
    replace (blen pre + (blen bs + 1) - (blen pre + 1) =? 0) with (blen bs =? 0) by (f_equal; lia).
    assert (Hsub : sub dat (blen pre + 1) (blen pre + (blen bs + 1)) = bs) by (unfold dat; ssub).
    assert (Hrest : map (fun x => (fst x, eval_req decode dat (snd x)))
                        (p_layout bm dat cs (i + 1) (blen pre + (blen bs + 1))) = expected_row decode cs ds').
    { specialize (IH ds' (pre ++ [hdr1 (blen bs + 1)] ++ bs) (i + 1) HF' HN' HB').
      cbn zeta in IH. revert IH. bl. rewrite <- !app_assoc.
      replace (blen pre + (1 + 0 + blen bs)) with (blen pre + 1 + blen bs) by lia. fold F. fold dat.
      replace (blen pre + (blen bs + 1)) with (blen pre + 1 + blen bs) by lia. intros IH; exact IH. }
    destruct (blen bs =? 0) eqn:E0.
    + assert (bs = []) by (apply blen_0_nil; lia). subst bs.
      cbn [map fst snd eval_req]. f_equal. exact Hrest.
    + cbn [map fst snd eval_req]. rewrite Hsub. f_equal; [|exact Hrest].
      destruct (blen_pos_cons bs ltac:(lia)) as (b0 & r0 & ->). reflexivity.
  - (* long varlena, 4-byte header, aligned; the pad-byte peek *)
    destruct Hd as [Hl Hb]. rewrite Hl, Z.eqb_refl. cbn [andb].
    set (p := pad (blen pre) (att_align c)).
    pose proof (align_wf (blen pre) (att_align c) Ha Hpre) as [Hal Hmod].
    assert (Hp : 0 <= p) by (unfold p, pad; lia).
    subst dat. cbn [fill]. fold p.
    set (F := fill (blen pre + p + 4 + blen bs) cs ds').
    set (dat := pre ++ zeros p ++ hdr4 (blen bs + 4) 0 ++ bs ++ F).
    pose proof (blen_nonneg bs) as Hbs. pose proof (blen_nonneg F) as HF0.
    assert (Hlen : blen dat = blen pre + p + 4 + blen bs + blen F) by (unfold dat, hdr4; bl; lia).
    replace (blen pre <? blen dat) with true by lia.
    (* whichever way the peek goes, the aligned offset is blen pre + p *)
    assert (Hoff : go_align (blen pre) (if negb (byte_at dat (blen pre) =? 0) then 1 else att_align c) = blen pre + p).
    { destruct (byte_at dat (blen pre) =? 0) eqn:E; cbn [negb].
      - rewrite go_align_wf by auto. unfold p, pad; lia.
      - rewrite go_align_1. destruct (Z.eq_dec p 0) as [->|Hne]; [lia|]. exfalso.
        unfold dat in E. rewrite byte_at_app_r0 in E by reflexivity.
        rewrite byte_at_zeros in E by lia. lia. }
    rewrite Hoff.
    unfold p_readValue. replace (blen pre + p >=? blen dat) with false by lia.
    replace (-1 >? 0) with false by reflexivity. rewrite Z.eqb_refl.
    unfold p_readVarlena.
    replace (blen dat - (blen pre + p) =? 0) with false by lia.
    assert (Hh : sub dat (blen pre + p) (blen pre + p + 4) = hdr4 (blen bs + 4) 0) by (unfold dat, hdr4; ssub).
    assert (Hpu : pu 4 dat (blen pre + p) = (blen bs + 4) * 4 + 0).
    { unfold pu. rewrite Hh. unfold hdr4. apply le_dec_enc. change (2 ^ (8 * Z.of_nat 4)) with (4 * 2 ^ 30). lia. }
    assert (Hb0 : byte_at dat (blen pre + p) = ((blen bs + 4) * 4 + 0) mod 256).
    { rewrite (byte_at_sub_head dat (blen pre + p) (blen pre + p + 4) (z2b ((blen bs + 4) * 4 + 0))
                 (le_enc 3 (((blen bs + 4) * 4 + 0) / 256))); [apply b2z_z2b|lia|lia|exact Hh]. }
    rewrite Hb0, Hpu.
    replace (((((blen bs + 4) * 4 + 0) mod 256) mod 2 =? 1) && negb (((blen bs + 4) * 4 + 0) mod 256 =? 1)) with false by lia.
    replace (((blen bs + 4) * 4 + 0) mod 256 =? 1) with false by lia.
    replace (blen dat - (blen pre + p) <? 4) with false by lia.
    replace (((blen bs + 4) * 4 + 0) / 4) with (blen bs + 4) by lia.
    replace ((blen bs + 4 <? 4) || (blen dat - (blen pre + p) <? blen bs + 4)) with false by lia.
    replace (blen pre + p + (blen bs + 4) - (blen pre + p + 4) =? 0) with (blen bs =? 0) by (f_equal; lia).
    assert (Hsub : sub dat (blen pre + p + 4) (blen pre + p + (blen bs + 4)) = bs) by (unfold dat, hdr4; ssub).
    assert (Hrest : map (fun x => (fst x, eval_req decode dat (snd x)))
                        (p_layout bm dat cs (i + 1) (blen pre + p + (blen bs + 4))) = expected_row decode cs ds').
    { specialize (IH ds' (pre ++ zeros p ++ hdr4 (blen bs + 4) 0 ++ bs) (i + 1) HF' HN' HB').
      cbn zeta in IH. revert IH. unfold hdr4. bl. rewrite <- !app_assoc.
      replace (blen pre + (p + (Z.of_nat 4 + blen bs))) with (blen pre + p + 4 + blen bs) by lia. fold F.
      fold (hdr4 (blen bs + 4) 0). fold dat.
      replace (blen pre + p + (blen bs + 4)) with (blen pre + p + 4 + blen bs) by lia. intros IH; exact IH. }
    destruct (blen bs =? 0) eqn:E0.
    + assert (bs = []) by (apply blen_0_nil; lia). subst bs.
      cbn [map fst snd eval_req]. f_equal. exact Hrest.
    + cbn [map fst snd eval_req]. rewrite Hsub. f_equal; [|exact Hrest].
      destruct (blen_pos_cons bs ltac:(lia)) as (b0 & r0 & ->). reflexivity.
  - (* inline-compressed varlena: same layout, flag bits 10 *)
    destruct Hd as (Hl & Hb1 & Hb). rewrite Hl, Z.eqb_refl. cbn [andb].
    set (p := pad (blen pre) (att_align c)).
    pose proof (align_wf (blen pre) (att_align c) Ha Hpre) as [Hal Hmod].
    assert (Hp : 0 <= p) by (unfold p, pad; lia).
    subst dat. cbn [fill]. fold p.
    set (F := fill (blen pre + p + 4 + blen bs) cs ds').
    set (dat := pre ++ zeros p ++ hdr4 (blen bs + 4) 2 ++ bs ++ F).
    pose proof (blen_nonneg bs) as Hbs. pose proof (blen_nonneg F) as HF0.
    assert (Hlen : blen dat = blen pre + p + 4 + blen bs + blen F) by (unfold dat, hdr4; bl; lia).
    replace (blen pre <? blen dat) with true by lia.
    (* whichever way the peek goes, the aligned offset is blen pre + p *)
    assert (Hoff : go_align (blen pre) (if negb (byte_at dat (blen pre) =? 0) then 1 else att_align c) = blen pre + p).
    { destruct (byte_at dat (blen pre) =? 0) eqn:E; cbn [negb].
      - rewrite go_align_wf by auto. unfold p, pad; lia.
      - rewrite go_align_1. destruct (Z.eq_dec p 0) as [->|Hne]; [lia|]. exfalso.
        unfold dat in E. rewrite byte_at_app_r0 in E by reflexivity.
        rewrite byte_at_zeros in E by lia. lia. }
    rewrite Hoff.
    unfold p_readValue. replace (blen pre + p >=? blen dat) with false by lia.
    replace (-1 >? 0) with false by reflexivity. rewrite Z.eqb_refl.
    unfold p_readVarlena.
    replace (blen dat - (blen pre + p) =? 0) with false by lia.
    assert (Hh : sub dat (blen pre + p) (blen pre + p + 4) = hdr4 (blen bs + 4) 2) by (unfold dat, hdr4; ssub).
    assert (Hpu : pu 4 dat (blen pre + p) = (blen bs + 4) * 4 + 2).
    { unfold pu. rewrite Hh. unfold hdr4. apply le_dec_enc. change (2 ^ (8 * Z.of_nat 4)) with (4 * 2 ^ 30). lia. }
    assert (Hb0 : byte_at dat (blen pre + p) = ((blen bs + 4) * 4 + 2) mod 256).
    { rewrite (byte_at_sub_head dat (blen pre + p) (blen pre + p + 4) (z2b ((blen bs + 4) * 4 + 2))
                 (le_enc 3 (((blen bs + 4) * 4 + 2) / 256))); [apply b2z_z2b|lia|lia|exact Hh]. }
    rewrite Hb0, Hpu.
    replace (((((blen bs + 4) * 4 + 2) mod 256) mod 2 =? 1) && negb (((blen bs + 4) * 4 + 2) mod 256 =? 1)) with false by lia.
    replace (((blen bs + 4) * 4 + 2) mod 256 =? 1) with false by lia.
    replace (blen dat - (blen pre + p) <? 4) with false by lia.
    replace (((blen bs + 4) * 4 + 2) / 4) with (blen bs + 4) by lia.
    replace ((blen bs + 4 <? 4) || (blen dat - (blen pre + p) <? blen bs + 4)) with false by lia.
    replace (blen pre + p + (blen bs + 4) - (blen pre + p + 4) =? 0) with (blen bs =? 0) by (f_equal; lia).
    assert (Hsub : sub dat (blen pre + p + 4) (blen pre + p + (blen bs + 4)) = bs) by (unfold dat, hdr4; ssub).
    assert (Hrest : map (fun x => (fst x, eval_req decode dat (snd x)))
                        (p_layout bm dat cs (i + 1) (blen pre + p + (blen bs + 4))) = expected_row decode cs ds').
    { specialize (IH ds' (pre ++ zeros p ++ hdr4 (blen bs + 4) 2 ++ bs) (i + 1) HF' HN' HB').
      cbn zeta in IH. revert IH. unfold hdr4. bl. rewrite <- !app_assoc.
      replace (blen pre + (p + (Z.of_nat 4 + blen bs))) with (blen pre + p + 4 + blen bs) by lia. fold F.
      fold (hdr4 (blen bs + 4) 2). fold dat.
      replace (blen pre + p + (blen bs + 4)) with (blen pre + p + 4 + blen bs) by lia. intros IH; exact IH. }
    destruct (blen bs =? 0) eqn:E0.
    + assert (bs = []) by (apply blen_0_nil; lia). subst bs.
      cbn [map fst snd eval_req]. f_equal. exact Hrest.
    + cbn [map fst snd eval_req]. rewrite Hsub. f_equal; [|exact Hrest].
      destruct (blen_pos_cons bs ltac:(lia)) as (b0 & r0 & ->). reflexivity.
  - (* external TOAST pointer: 18 bytes, unaligned, decodes to nil *)
    destruct Hd as [Hl Hb]. rewrite Hl, Z.eqb_refl. cbn [andb].
    subst dat. cbn [fill].
    set (F := fill (blen pre + 18) cs ds').
    set (dat := pre ++ [x01; x12] ++ body ++ F).
    pose proof (blen_nonneg F) as HF0.
    assert (Hlen : blen dat = blen pre + 18 + blen F) by (unfold dat; bl; lia).
    assert (Hd0 : byte_at dat (blen pre) = 1).
    { unfold dat. rewrite byte_at_app_r0 by reflexivity. reflexivity. }
    assert (Hd1 : byte_at dat (blen pre + 1) = 18).
    { unfold dat. rewrite byte_at_app_r by lia. replace (blen pre + 1 - blen pre) with 1 by lia. reflexivity. }
    replace (blen pre <? blen dat) with true by lia.
    rewrite Hd0. cbn [Z.eqb negb]. rewrite go_align_1.
    unfold p_readValue. replace (blen pre >=? blen dat) with false by lia.
    replace (-1 >? 0) with false by reflexivity. rewrite Z.eqb_refl.
    unfold p_readVarlena. rewrite Hd0, Hd1.
    replace (blen dat - blen pre =? 0) with false by lia.
    change (1 mod 2 =? 1) with true. change (1 =? 1) with true. change (18 =? 18) with true. cbn [andb negb].
    replace (blen dat - blen pre >=? 18) with true by lia.
    change (Z.max 18 1) with 18.
    cbn [map fst snd eval_req]. f_equal.
    specialize (IH ds' (pre ++ [x01; x12] ++ body) (i + 1) HF' HN' HB').
    cbn zeta in IH. revert IH. bl. rewrite <- !app_assoc.
    replace (blen pre + (1 + (1 + 0) + blen body)) with (blen pre + 18) by lia. fold F.
    cbn [app]. intros IH; exact IH.
  - (* C string: bytes then NUL, no alignment *)
    destruct Hd as (Hl & Ha1 & Hb). rewrite Hl.
    replace (-2 =? -1) with false by reflexivity. cbn [andb].
    rewrite Ha1, go_align_1.
    subst dat. cbn [fill].
    set (F := fill (blen pre + blen bs + 1) cs ds').
    set (dat := pre ++ bs ++ [x00] ++ F).
    pose proof (blen_nonneg bs) as Hbs. pose proof (blen_nonneg F) as HF0.
    assert (Hlen : blen dat = blen pre + blen bs + 1 + blen F) by (unfold dat; bl; lia).
    unfold p_readValue. replace (blen pre >=? blen dat) with false by lia.
    replace (-2 >? 0) with false by reflexivity. replace (-2 =? -1) with false by reflexivity.
    assert (Hs : sub dat (blen pre) (blen dat) = bs ++ x00 :: F).
    { unfold dat. rewrite sub_app_r by lia. replace (blen pre - blen pre) with 0 by lia. apply sub_exact; [reflexivity|bl; lia]. }
    rewrite Hs, cstr_scan_nul_free by exact Hb.
    cbn [map fst snd eval_req]. f_equal.
    + f_equal. f_equal. unfold dat. replace (blen pre + (0 + blen bs)) with (blen pre + blen bs) by lia. ssub.
    + specialize (IH ds' (pre ++ bs ++ [x00]) (i + 1) HF' HN' HB').
      cbn zeta in IH. revert IH. bl. rewrite <- !app_assoc.
      replace (blen pre + (blen bs + (1 + 0))) with (blen pre + blen bs + 1) by lia. fold F. fold dat.
      replace (blen pre + (0 + blen bs + 1)) with (blen pre + blen bs + 1) by lia. intros IH; exact IH.
Qed.

End Decode.
