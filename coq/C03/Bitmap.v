(* The null bitmap written by heap_fill_tuple is read back by IsNull. *)
Require Import PG.Base.Bytes PG.Base.GoSlice PG.Base.Value PG.C02.Model PG.C03.Model PG.C03.Pure PG.C03.Lib PG.C03.Spec.

Lemma bits_val_range l : 0 <= bits_val l < 2 ^ Z.of_nat (length l).
Proof.
  induction l as [|b l IH]; cbn [bits_val length]; [cbn; lia|].
  rewrite Nat2Z.inj_succ, Z.pow_succ_r by lia. destruct b; lia.
Qed.

Lemma bits_val_bit : forall l k, (k < length l)%nat ->
  (bits_val l / 2 ^ Z.of_nat k) mod 2 = if nth k l false then 1 else 0.
Proof.
  induction l as [|b l IH]; intros k Hk; cbn [length] in Hk; [lia|].
  destruct k as [|k].
  - cbn [nth bits_val]. change (2 ^ Z.of_nat 0) with 1. rewrite Z.div_1_r. destruct b; lia.
  - cbn [nth bits_val]. rewrite Nat2Z.inj_succ, Z.pow_succ_r by lia.
    rewrite <- (IH k) by lia.
    pose proof (bits_val_range l).
    assert (P : 0 < 2 ^ Z.of_nat k) by (apply Z.pow_pos_nonneg; lia).
    replace (((if b then 1 else 0) + 2 * bits_val l) / (2 * 2 ^ Z.of_nat k)) with (bits_val l / 2 ^ Z.of_nat k); [reflexivity|].
    rewrite <- Z.div_div by lia. f_equal. destruct b; lia.
Qed.

Lemma bitmap_cons f bits : bits <> [] ->
  bitmap_of_bits (S f) bits = z2b (bits_val (firstn 8 bits)) :: bitmap_of_bits f (skipn 8 bits).
Proof. destruct bits; [contradiction|reflexivity]. Qed.

Lemma bitmap_bit : forall fuel bits k, (length bits <= fuel)%nat -> (k < length bits)%nat ->
  let bm := bitmap_of_bits fuel bits in
  Z.of_nat k / 8 < blen bm /\
  (byte_at bm (Z.of_nat k / 8) / 2 ^ (Z.of_nat k mod 8)) mod 2 = if nth k bits false then 1 else 0.
Proof.
  induction fuel as [|f IH]; intros bits k Hf Hk; [lia|].
  assert (Hne : bits <> []) by (destruct bits; [cbn [length] in Hk; lia|discriminate]).
  rewrite (bitmap_cons f bits Hne).
  destruct (Nat.lt_ge_cases k 8) as [H8|H8].
  - cbn zeta. replace (Z.of_nat k / 8) with 0 by lia. replace (Z.of_nat k mod 8) with (Z.of_nat k) by lia.
    split; [bl; pose proof (blen_nonneg (bitmap_of_bits f (skipn 8 bits))); lia|].
    rewrite byte_at_cons0, b2z_z2b.
    pose proof (bits_val_range (firstn 8 bits)) as R. rewrite firstn_length in R.
    assert (2 ^ Z.of_nat (Nat.min 8 (length bits)) <= 256).
    { change 256 with (2 ^ 8). apply Z.pow_le_mono_r; lia. }
    set (P := 2 ^ Z.of_nat (Nat.min 8 (length bits))) in *.
    rewrite (Z.mod_small (bits_val (firstn 8 bits)) 256) by lia.
    rewrite bits_val_bit by (rewrite firstn_length; lia).
    rewrite nth_firstn' by lia. reflexivity.
  - cbn zeta.
    assert (Hl : (length (skipn 8 bits) <= f)%nat) by (rewrite skipn_length; lia).
    assert (Hk' : (k - 8 < length (skipn 8 bits))%nat) by (rewrite skipn_length; lia).
    destruct (IH (skipn 8 bits) (k - 8)%nat Hl Hk') as [A B].
    replace (Z.of_nat (k - 8) / 8) with (Z.of_nat k / 8 - 1) in * by lia.
    replace (Z.of_nat (k - 8) mod 8) with (Z.of_nat k mod 8) in * by lia.
    split; [bl; lia|].
    change (z2b (bits_val (firstn 8 bits)) :: bitmap_of_bits f (skipn 8 bits)) with ([z2b (bits_val (firstn 8 bits))] ++ bitmap_of_bits f (skipn 8 bits)).
    rewrite (byte_at_app_r [z2b (bits_val (firstn 8 bits))]) by (bl; lia). bl.
    replace (Z.of_nat k / 8 - (1 + 0)) with (Z.of_nat k / 8 - 1) by lia.
    rewrite B. rewrite nth_skipn'. replace (8 + (k - 8))%nat with k by lia. reflexivity.
Qed.

Lemma isnull_bitmap ds k d : nth_error ds k = Some d ->
  p_isnull (Some (bitmap_of ds)) (0 + 1 + Z.of_nat k) = is_null d.
Proof.
  intros H. assert (Hk : (k < length ds)%nat) by (apply nth_error_Some; congruence).
  unfold p_isnull, bitmap_of.
  destruct (0 + 1 + Z.of_nat k <=? 0) eqn:E; [lia|].
  replace (0 + 1 + Z.of_nat k - 1) with (Z.of_nat k) by lia.
  pose proof (bitmap_bit (length ds) (map (fun d => negb (is_null d)) ds) k) as B.
  rewrite map_length in B. destruct (B ltac:(lia) Hk) as [B1 B2].
  destruct (_ >=? _) eqn:E2; [lia|]. rewrite B2.
  rewrite (nth_indep _ false ((fun d => negb (is_null d)) DNull)) by (rewrite map_length; lia).
  rewrite (map_nth (fun d => negb (is_null d)) ds DNull k). rewrite (nth_error_nth _ _ _ H). destruct (is_null d); reflexivity.
Qed.

Lemma no_nulls ds k d : has_nulls ds = false -> nth_error ds k = Some d -> is_null d = false.
Proof.
  unfold has_nulls. intros H Hn. apply nth_error_In in Hn.
  destruct (is_null d) eqn:E; [|reflexivity].
  assert (existsb is_null ds = true) by (apply existsb_exists; eauto). congruence.
Qed.
