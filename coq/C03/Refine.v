(* The Go-faithful DecodeTuple never panics (given a total DecodeType) and equals the pure layout evaluated
   with the decoder applied to exactly the selected byte ranges. *)
Require Import PG.Base.Bytes PG.Base.GoSlice PG.Base.Value PG.C02.Model PG.C02.Pure PG.C03.Model PG.C03.Pure PG.C03.Lib.

Section Refine.
Variable DecodeType : gslice -> Z -> res gval.
Variable decode : bytes -> Z -> gval.
(* DecodeType is total and sees only the visible bytes of the slice it is given (discharged by C04..C07) *)
Hypothesis DT_ok : forall s oid, DecodeType s oid = Ok (decode (vis s) oid).

Lemma ReadVarlena_at data off rem :
  0 <= off -> off < len data -> slice_from data off = Ok rem ->
  exists o, ReadVarlena rem = Ok (o, snd (p_readVarlena (vis data) off)) /\
    match fst (p_readVarlena (vis data) off), o with
    | None, None => True
    | Some (lo, hi), Some p => vis p = sub (vis data) lo hi /\ len p = hi - lo
    | _, _ => False
    end.
Proof.
  intros Hoff Hlt Hr. destruct (slice_from_vis _ _ _ Hr) as [Hv Hl].
  unfold ReadVarlena, p_readVarlena. fold (len data). rewrite Hl.
  destruct (len data - off =? 0) eqn:E0; [lia|]. clear E0.
  rewrite idx_ok by lia. cbn [bind].
  assert (B0 : byte_at (vis rem) 0 = byte_at (vis data) off).
  { rewrite Hv. rewrite byte_at_sub_shift by lia. f_equal. lia. }
  rewrite B0. set (first := byte_at (vis data) off).
  assert (Hf : 0 <= first < 256) by apply byte_at_range.
  destruct ((first mod 2 =? 1) && negb (first =? 1)) eqn:E1.
  - destruct ((first / 2 <? 1) || (len data - off <? first / 2)) eqn:E2.
    + exists None. split; reflexivity.
    + destruct (slice_of_from data off rem 1 (first / 2) Hr) as (p & Hp & Hpv & Hpl); try lia.
      rewrite Hp. cbn [bind]. exists (Some p). split; [reflexivity|]. cbn [fst]. split; [exact Hpv|lia].
  - destruct (first =? 1) eqn:E3.
    + destruct (len data - off >=? 18) eqn:E4; [|exists None; split; reflexivity].
      rewrite idx_ok by lia. cbn [bind].
      assert (B1 : byte_at (vis rem) 1 = byte_at (vis data) (off + 1)).
      { rewrite Hv. rewrite byte_at_sub_shift by lia. reflexivity. }
      rewrite B1. destruct (byte_at (vis data) (off + 1) =? 18); exists None; split; reflexivity.
    + destruct (len data - off <? 4) eqn:E4; [exists None; split; reflexivity|].
      unfold u32. rewrite (uN_val 4 rem 0) by lia. cbn [bind].
      assert (U : le_dec (sub (vis rem) 0 (0 + Z.of_nat 4)) = pu 4 (vis data) off).
      { unfold pu. rewrite Hv. rewrite sub_sub by lia. do 2 f_equal; lia. }
      rewrite U. set (tl := pu 4 (vis data) off / 4).
      destruct ((tl <? 4) || (len data - off <? tl)) eqn:E5; [exists None; split; reflexivity|].
      destruct (slice_of_from data off rem 4 tl Hr) as (p & Hp & Hpv & Hpl); try lia.
      rewrite Hp. cbn [bind]. exists (Some p). split; [reflexivity|]. cbn [fst]. split; [exact Hpv|lia].
Qed.

Lemma cstr_scan_bounds : forall bs i, let '(n, c) := cstr_scan bs i in i <= n <= i + blen bs /\ n <= c <= i + blen bs.
Proof.
  induction bs as [|b r IH]; intros i; cbn [cstr_scan].
  - bl. lia.
  - destruct (b2z b =? 0); [bl; pose proof (blen_nonneg r); lia|].
    specialize (IH (i + 1)). destruct (cstr_scan r (i + 1)) as [n c]. bl. lia.
Qed.

Lemma readValue_refines data off typ length :
  0 <= off ->
  exists v, readValue DecodeType data off typ length = Ok (v, snd (p_readValue (vis data) off typ length)) /\
            v = eval_req decode (vis data) (fst (p_readValue (vis data) off typ length)).
Proof.
  intros Hoff. unfold readValue, p_readValue. fold (len data).
  destruct (off >=? len data) eqn:E0; [exists VNil; split; reflexivity|].
  destruct (slice_from_ok data off) as [rem Hr]; [lia|]. rewrite Hr. cbn [bind].
  destruct (slice_from_vis _ _ _ Hr) as [Hv Hl]. rewrite Hl.
  destruct (length >? 0) eqn:E1.
  - destruct (len data - off <? length) eqn:E2; [exists VNil; split; reflexivity|].
    unfold slice_to.
    destruct (slice_of_from data off rem 0 length Hr) as (p & Hp & Hpv & Hpl); try lia.
    rewrite Hp. cbn [bind]. rewrite DT_ok. cbn [bind]. eexists; split; [reflexivity|].
    cbn [fst eval_req]. rewrite Hpv. do 2 f_equal; lia.
  - destruct (length =? -1) eqn:E2.
    + destruct (ReadVarlena_at data off rem Hoff ltac:(lia) Hr) as (o & Ho & Hm). rewrite Ho. cbn [bind].
      destruct (p_readVarlena (vis data) off) as [[[lo hi]|] c]; cbn [fst snd] in *.
      * destruct o as [p|]; [|contradiction]. destruct Hm as [Hpv Hpl]. rewrite Hpl.
        destruct (hi - lo =? 0) eqn:E3; [eexists; split; reflexivity|].
        rewrite DT_ok. cbn [bind]. eexists; split; [reflexivity|]. cbn [fst eval_req]. rewrite Hpv. reflexivity.
      * destruct o; [contradiction|]. eexists; split; reflexivity.
    + rewrite Hv. pose proof (cstr_scan_bounds (sub (vis data) off (len data)) 0) as Hb.
      destruct (cstr_scan (sub (vis data) off (len data)) 0) as [n c].
      assert (L : blen (sub (vis data) off (len data)) = len data - off) by (apply sub_length; unfold len in *; lia).
      rewrite L in Hb. unfold slice_to.
      destruct (slice_of_from data off rem 0 n Hr) as (p & Hp & Hpv & Hpl); try lia.
      rewrite Hp. cbn [bind]. eexists; split; [reflexivity|]. cbn [fst eval_req]. rewrite Hpv. do 2 f_equal; lia.
Qed.

Lemma IsNull_refines t num : IsNull t num = Ok (p_isnull (option_map vis (t_bitmap t)) num).
Proof.
  unfold IsNull, p_isnull. destruct (t_bitmap t) as [bm|]; cbn [option_map]; [|reflexivity].
  destruct (num <=? 0) eqn:E; [reflexivity|]. fold (len bm).
  destruct ((num - 1) / 8 >=? len bm) eqn:E2; [reflexivity|].
  rewrite idx_ok by lia. reflexivity.
Qed.

Lemma go_align_nonneg off a : 0 <= off -> 0 <= go_align off a.
Proof.
  intros. unfold go_align. destruct (a <=? 1) eqn:E; [lia|].
  apply Z.ldiff_nonneg. lia.
Qed.

Lemma p_readValue_consumed_nonneg d off typ length : 0 <= off -> 0 <= snd (p_readValue d off typ length).
Proof.
  intros Hoff. unfold p_readValue. destruct (_ >=? _) eqn:E0; [cbn; lia|].
  destruct (length >? 0) eqn:E1.
  - destruct (_ <? _); cbn; lia.
  - destruct (length =? -1).
    + unfold p_readVarlena. pose proof (byte_at_range d off).
      repeat match goal with |- context [if ?c then _ else _] => destruct c eqn:? end; cbn [snd fst]; try lia.
      all: try (destruct (_ =? 0); cbn [snd]; lia).
    + pose proof (cstr_scan_bounds (sub d off (blen d)) 0) as Hb.
      destruct (cstr_scan _ 0) as [n c]. cbn [snd]. lia.
Qed.

Lemma DecodeTuple_loop_refines t : forall cols i offset acc, 0 <= offset ->
  DecodeTuple_loop DecodeType t cols i offset acc =
  Ok (acc ++ map (fun x => (fst x, eval_req decode (vis (t_data t)) (snd x)))
                 (p_layout (option_map vis (t_bitmap t)) (vis (t_data t)) cols i offset)).
Proof.
  induction cols as [|col rest IH]; intros i offset acc Hoff; cbn [DecodeTuple_loop p_layout map].
  - rewrite app_nil_r. reflexivity.
  - rewrite IsNull_refines. cbn [bind].
    destruct (p_isnull _ _) eqn:EN.
    + rewrite IH by lia. cbn [map fst snd eval_req]. rewrite <- app_assoc. reflexivity.
    + fold (col_align col). fold (len (t_data t)).
      set (a2 := if (c_len col =? -1) && (offset <? len (t_data t))
                 then if negb (byte_at (vis (t_data t)) offset =? 0) then 1 else col_align col else col_align col).
      assert (HA : (if (c_len col =? -1) && (offset <? len (t_data t))
                    then b <- idx (t_data t) offset;; Ok (if negb (b =? 0) then 1 else col_align col)
                    else Ok (col_align col)) = Ok a2).
      { unfold a2. destruct ((c_len col =? -1) && (offset <? len (t_data t))) eqn:E; [|reflexivity].
        rewrite idx_ok by lia. reflexivity. }
      rewrite HA. cbn [bind].
      pose proof (go_align_nonneg offset a2 Hoff) as Hg.
      destruct (readValue_refines (t_data t) (go_align offset a2) (c_typid col) (c_len col) Hg) as (v & Hv1 & Hv2).
      rewrite Hv1. cbn [bind].
      pose proof (p_readValue_consumed_nonneg (vis (t_data t)) (go_align offset a2) (c_typid col) (c_len col) Hg).
      destruct (p_readValue (vis (t_data t)) (go_align offset a2) (c_typid col) (c_len col)) as [rq consumed].
      cbn [fst snd] in *. rewrite IH by lia. cbn [map fst snd]. rewrite <- app_assoc. subst v. reflexivity.
Qed.

Theorem DecodeTuple_refines t cols :
  DecodeTuple DecodeType (Some t) cols = Ok (p_decode decode (option_map vis (t_bitmap t)) (vis (t_data t)) cols).
Proof.
  unfold DecodeTuple, p_decode. fold (len (t_data t)).
  destruct ((len (t_data t) =? 0) && (Z.of_nat (length cols) =? 0)); [reflexivity|].
  rewrite DecodeTuple_loop_refines by lia. reflexivity.
Qed.

Corollary DecodeTuple_no_panic ot cols : DecodeTuple DecodeType ot cols <> Panic.
Proof. destruct ot as [t|]; [rewrite DecodeTuple_refines|cbn]; discriminate. Qed.

End Refine.
