(* The executable forms used by the driver (Fast.v, group8/pglz_stream) agree with Spec.v;
   every value has a pglz stream and an LZ4 block (non-vacuity of the denotations). *)
Require Import PG.Base.Bytes PG.C08.Spec PG.C08.Fast PG.C08.CopyProofs PG.C08.PglzProofs PG.C08.Lz4Proofs.

Lemma rcopy_spec : forall n off acc, 1 <= off <= blen acc ->
  rev (rcopy n (Z.to_nat (off - 1)) acc) = copy_back n off (rev acc).
Proof.
  induction n as [|n IH]; intros off acc H; [reflexivity|].
  cbn [rcopy copy_back]. rewrite IH by (bl; lia). cbn [rev]. do 3 f_equal.
  unfold blen in *. rewrite rev_length. rewrite rev_nth by lia. f_equal. lia.
Qed.

Lemma rapply_pitem_spec acc it : pitem_ok (blen acc) it -> rev (rapply_pitem acc it) = apply_pitem (rev acc) it.
Proof.
  destruct it as [b|off len]; cbn [rapply_pitem apply_pitem pitem_ok]; [reflexivity|].
  intros (H1 & H2 & H3). apply rcopy_spec. lia.
Qed.
Lemma rrun_pitems_spec : forall its acc, pitems_ok its (rev acc) -> rev (rrun_pitems its acc) = run_pitems its (rev acc).
Proof.
  induction its as [|it its IH]; intros acc H; [reflexivity|]. destruct H as [H1 H2].
  rewrite blen_rev in H1. cbn [rrun_pitems run_pitems]. rewrite <- (rapply_pitem_spec _ _ H1) in *. apply IH, H2.
Qed.
Theorem pglz_out_spec its : pitems_ok its [] -> pglz_out its = run_pitems its [].
Proof. intros H. unfold pglz_out. rewrite rev_append_rev, app_nil_r. apply (rrun_pitems_spec its []), H. Qed.

Lemma pitems_okb_spec : forall its out, pitems_okb its (blen out) = true -> pitems_ok its out.
Proof.
  induction its as [|it its IH]; intros out H; [exact I|]. cbn [pitems_okb] in H.
  apply andb_prop in H. destruct H as [H1 H2].
  assert (OK : pitem_ok (blen out) it) by (destruct it; cbn in *; lia).
  split; [exact OK|]. apply IH. rewrite (apply_pitem_len _ _ OK). exact H2.
Qed.

Lemma rapply_lz4seq_spec acc s : lz4seq_ok (blen acc) s -> rev (rapply_lz4seq acc s) = apply_lz4seq (rev acc) s.
Proof.
  intros (H1 & H2 & H3). unfold rapply_lz4seq, apply_lz4seq.
  rewrite rcopy_spec by (rewrite rev_append_rev; bl; lia).
  rewrite rev_append_rev, rev_app_distr, rev_involutive. reflexivity.
Qed.
Lemma rrun_lz4seqs_spec : forall seqs acc, lz4seqs_ok seqs (rev acc) -> rev (rrun_lz4seqs seqs acc) = run_lz4seqs seqs (rev acc).
Proof.
  induction seqs as [|s seqs IH]; intros acc H; [reflexivity|]. destruct H as [H1 H2].
  rewrite blen_rev in H1. cbn [rrun_lz4seqs run_lz4seqs]. rewrite <- (rapply_lz4seq_spec _ _ H1) in *. apply IH, H2.
Qed.
Theorem lz4_out_spec seqs last : lz4seqs_ok seqs [] -> lz4_out seqs last = run_lz4seqs seqs [] ++ last.
Proof.
  intros H. unfold lz4_out. rewrite !rev_append_rev, app_nil_r, rev_app_distr, rev_involutive.
  f_equal. apply (rrun_lz4seqs_spec seqs []), H.
Qed.
Lemma lz4seqs_okb_spec : forall seqs out, lz4seqs_okb seqs (blen out) = true -> lz4seqs_ok seqs out.
Proof.
  induction seqs as [|s seqs IH]; intros out H; [exact I|]. cbn [lz4seqs_okb] in H.
  apply andb_prop in H. destruct H as [H1 H2].
  assert (OK : lz4seq_ok (blen out) s) by (unfold lz4seq_okb, lz4seq_ok in *; lia).
  split; [exact OK|]. apply IH. rewrite (apply_lz4seq_len _ _ OK). exact H2.
Qed.

(* ---------- grouping by 8 ---------- *)
Lemma group8_concat : forall fuel its, (length its <= fuel)%nat -> concat (group8 fuel its) = its.
Proof.
  induction fuel as [|f IH]; intros its H.
  - destruct its; [reflexivity|cbn [length] in H; lia].
  - destruct its as [|a its]; [reflexivity|]. cbn [group8 concat].
    rewrite IH; [apply firstn_skipn|]. rewrite skipn_length. cbn [length] in *. lia.
Qed.
Lemma group8_ok : forall fuel its, (length its <= fuel)%nat -> pgroups_ok (group8 fuel its).
Proof.
  induction fuel as [|f IH]; intros its H; [exact I|].
  destruct its as [|a its]; [exact I|]. cbn [group8].
  assert (Hs : (length (skipn 8 (a :: its)) <= f)%nat) by (rewrite skipn_length; cbn [length] in *; lia).
  specialize (IH _ Hs).
  destruct (group8 f (skipn 8 (a :: its))) as [|g gs] eqn:E.
  - cbn [pgroups_ok]. rewrite firstn_length. cbn [length]. lia.
  - cbn [pgroups_ok]. split; [|exact IH].
    assert (skipn 8 (a :: its) <> []).
    { intros E0. rewrite E0 in E. destruct f; discriminate. }
    rewrite firstn_length. assert (8 < length (a :: its))%nat; [|lia].
    destruct (Nat.le_gt_cases (length (a :: its)) 8) as [L|L]; [|exact L].
    rewrite skipn_all2 in H0 by exact L. congruence.
Qed.

Theorem pglz_stream_denotes its : pitems_ok its [] -> pglz_denotes (pglz_stream its) (run_pitems its []).
Proof.
  intros H. exists (group8 (length its) its).
  rewrite group8_concat by lia. repeat split; auto. apply group8_ok. lia.
Qed.

(* non-vacuity: every value is the output of some pglz stream (the all-literals one) and some LZ4 block *)
Lemma run_lits : forall v out, run_pitems (map PLit v) out = out ++ v.
Proof. induction v as [|b v IH]; intros; cbn [map run_pitems apply_pitem]; [rewrite app_nil_r; reflexivity|]. rewrite IH, <- app_assoc. reflexivity. Qed.
Lemma lits_ok : forall v out, pitems_ok (map PLit v) out.
Proof. induction v as [|b v IH]; intros; cbn [map pitems_ok pitem_ok]; auto. Qed.
Theorem pglz_every_value v : pglz_denotes (pglz_stream (map PLit v)) v.
Proof. pose proof (pglz_stream_denotes (map PLit v) (lits_ok v [])) as H. rewrite run_lits in H. exact H. Qed.
Theorem lz4_every_value v : lz4_denotes (enc_lz4block [] v) v.
Proof. exists [], v. repeat split. Qed.

(* a concrete stream with a self-overlapping match (off 2 < len 7) and an extended-length tag (len 20, off 1) *)
Definition ex_items : list pitem := [PLit "a"%byte; PLit "b"%byte; PMatch 2 7; PLit "c"%byte; PMatch 1 20].
Example ex_items_ok : pitems_ok ex_items [].
Proof. apply (pitems_okb_spec ex_items []). vm_compute. reflexivity. Qed.
Example ex_items_out : run_pitems ex_items [] =
  ["a";"b";"a";"b";"a";"b";"a";"b";"a";"c";"c";"c";"c";"c";"c";"c";"c";"c";"c";"c";"c";"c";"c";"c";"c";"c";"c";"c";"c";"c"]%byte.
Proof. vm_compute. reflexivity. Qed.
Example ex_items_stream : pglz_stream ex_items = [x14; "a"; "b"; x04; x02; "c"; x0f; x01; x02]%byte.
Proof. vm_compute. reflexivity. Qed.
Definition ex_seqs : list lz4seq := [{| ls_lits := ["x";"y";"z"]%byte; ls_off := 2; ls_mlen := 21 |}].
Example ex_seqs_ok : lz4seqs_ok ex_seqs [].
Proof. apply (lz4seqs_okb_spec ex_seqs []). vm_compute. reflexivity. Qed.
Example ex_lz4_denotes : lz4_denotes (enc_lz4block ex_seqs ["!"]%byte) (run_lz4seqs ex_seqs [] ++ ["!"]%byte).
Proof. exists ex_seqs, ["!"]%byte. split; [exact ex_seqs_ok|]. split; reflexivity. Qed.
