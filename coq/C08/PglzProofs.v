(* decompressPGLZ on every stream of the pglz format (Spec.v §3) returns the denoted bytes. *)
Require Import PG.Base.Bytes PG.Base.GoSlice PG.C08.Model PG.C08.Spec PG.C08.Fast PG.C08.CopyProofs.

Lemma b2z_z2b_small z : 0 <= z < 256 -> b2z (z2b z) = z.
Proof. intros. rewrite b2z_z2b. apply Z.mod_small. lia. Qed.

Lemma apply_pitem_len out it : pitem_ok (blen out) it -> blen (apply_pitem out it) = blen out + pitem_len it.
Proof. destruct it as [b|off len]; cbn [apply_pitem pitem_len pitem_ok]; intros; bl; lia. Qed.
Lemma pitem_len_pos out it : pitem_ok out it -> 1 <= pitem_len it.
Proof. destruct it; cbn; lia. Qed.
Lemma run_pitems_len_ge : forall its out, pitems_ok its out -> blen out <= blen (run_pitems its out).
Proof.
  induction its as [|it its IH]; intros out H; cbn [run_pitems]; [lia|].
  destruct H as [H1 H2]. specialize (IH _ H2). rewrite apply_pitem_len in IH by exact H1.
  pose proof (pitem_len_pos _ _ H1). lia.
Qed.
Lemma run_pitems_app : forall a b out, run_pitems (a ++ b) out = run_pitems b (run_pitems a out).
Proof. induction a as [|x a IH]; intros; cbn [app run_pitems]; auto. Qed.
Lemma pitems_ok_app : forall a b out, pitems_ok (a ++ b) out <-> pitems_ok a out /\ pitems_ok b (run_pitems a out).
Proof.
  induction a as [|x a IH]; intros b out; cbn [app pitems_ok run_pitems]; [tauto|].
  rewrite IH. tauto.
Qed.

Lemma ctrl_val_range : forall g, 0 <= ctrl_val g < 2 ^ Z.of_nat (length g).
Proof.
  induction g as [|it g IH]; cbn [ctrl_val length]; [cbn; lia|].
  rewrite Nat2Z.inj_succ, Z.pow_succ_r by lia.
  assert (0 <= ctrl_bit it <= 1) by (destruct it; cbn; lia). lia.
Qed.

Definition enc_pitems (g : list pitem) : bytes := concat (map enc_pitem g).
Lemma enc_pitems_cons it g : enc_pitems (it :: g) = enc_pitem it ++ enc_pitems g.
Proof. reflexivity. Qed.

Lemma div_pow2_succ c bit : 0 <= bit -> c / 2 ^ (bit + 1) = c / 2 ^ bit / 2.
Proof. intros. rewrite Z.pow_add_r by lia. change (2 ^ 1) with 2. rewrite Z.div_div; lia. Qed.

(* one control byte worth of items *)
Lemma pglz_bits_ok : forall g nb bit ctrl pos more r rawSize dlen,
  rb_wf r -> pitems_ok g (fwd r) -> (length g <= nb)%nat ->
  0 <= bit -> ctrl / 2 ^ bit = ctrl_val g ->
  pos + blen (enc_pitems g ++ more) = dlen ->
  blen (run_pitems g (fwd r)) <= rawSize ->
  (length g = nb \/ more = []) ->
  exists r', pglz_bits nb bit dlen rawSize ctrl pos (enc_pitems g ++ more) r
             = Ok (pos + blen (enc_pitems g), more, r') /\ rb_wf r' /\ fwd r' = run_pitems g (fwd r).
Proof.
  induction g as [|it g IH]; intros nb bit ctrl pos more r rawSize dlen W OK Hnb Hbit Hctrl Hpos Hraw Hend.
  - cbn [enc_pitems map concat app blen length] in *. change (blen []) with 0 in *. rewrite Z.add_0_r in *.
    exists r. split; [|split; auto].
    destruct nb as [|k]; [reflexivity|]. cbn [pglz_bits].
    destruct Hend as [Hend|Hend]; [discriminate|]. subst more. change (blen []) with 0 in Hpos.
    destruct (pos <? dlen) eqn:E; [lia|]. reflexivity.
  - destruct nb as [|k]; [cbn [length] in Hnb; lia|].
    destruct OK as [OK1 OK2]. cbn [run_pitems] in Hraw.
    pose proof (run_pitems_len_ge _ _ OK2) as Hge.
    rewrite (apply_pitem_len _ _ OK1) in Hge.
    pose proof (pitem_len_pos _ _ OK1) as Hl1.
    pose proof (fwd_len r W) as Lr.
    rewrite enc_pitems_cons in *. rewrite <- app_assoc in *.
    assert (Hctrl' : ctrl / 2 ^ (bit + 1) = ctrl_val g).
    { rewrite div_pow2_succ by lia. rewrite Hctrl. cbn [ctrl_val].
      assert (0 <= ctrl_bit it <= 1) by (destruct it; cbn; lia). lia. }
    assert (Hodd : Z.odd (ctrl / 2 ^ bit) = (ctrl_bit it =? 1)).
    { rewrite Hctrl. cbn [ctrl_val]. rewrite Z.odd_add_mul_2. destruct it; reflexivity. }
    assert (Hend' : length g = k \/ more = []) by (cbn [length] in Hend; destruct Hend; [left; lia|right; auto]).
    cbn [length] in Hnb.
    cbn [pglz_bits]. rewrite Hodd.
    destruct it as [b|off len].
    + (* literal *)
      cbn [enc_pitem app] in *. rewrite blen_cons in Hpos.
      pose proof (blen_nonneg (enc_pitems g ++ more)).
      destruct ((pos <? dlen) && (bn r <? rawSize)) eqn:E; [|cbn [pitem_len] in *; lia]. clear E.
      cbn [ctrl_bit Z.eqb rd nth_error bind skipn].
      destruct (IH k (bit + 1) ctrl (pos + 1) more (rb_push r b) rawSize dlen
                  (rb_push_wf _ _ W) OK2 ltac:(lia) ltac:(lia) Hctrl' ltac:(lia) Hraw Hend') as (r' & H1 & H2 & H3).
      exists r'. rewrite H1. split; [|split; [exact H2|]].
      * f_equal. f_equal. f_equal. bl. lia.
      * rewrite H3, rb_push_fwd. reflexivity.
    + (* match *)
      cbn [pitem_ok] in OK1. destruct OK1 as (Ho1 & Ho2 & Hlen). rewrite Lr in Ho2.
      cbn [pitem_len] in *. cbn [apply_pitem] in *.
      cbn [enc_pitem] in *.
      remember (off / 256 * 16 + Z.min (len - 3) 15) as B1 eqn:EB1.
      assert (HB1 : 0 <= B1 < 256) by lia.
      assert (HB2 : 0 <= off mod 256 < 256) by lia.
      assert (Hoff : B1 / 16 * 256 + off mod 256 = off) by lia.
      assert (Hl : B1 mod 16 = Z.min (len - 3) 15) by lia.
      destruct (copy_loop_match len off rawSize r W ltac:(lia) ltac:(lia) ltac:(lia)) as (rc & C1 & C2 & C3 & C4).
      destruct (len >=? 18) eqn:E18.
      * (* extended length *)
        cbn [app] in *. rewrite !blen_cons in Hpos.
        pose proof (blen_nonneg (enc_pitems g ++ more)).
        destruct ((pos <? dlen) && (bn r <? rawSize)) eqn:E; [|lia]. clear E.
        cbn [ctrl_bit Z.eqb Pos.eqb].
        destruct (pos + 1 >=? dlen) eqn:E; [lia|]. clear E.
        cbn [rdz rd nth_error bind skipn]. rewrite !b2z_z2b_small by lia.
        rewrite Hoff, Hl. replace (Z.min (len - 3) 15 + 3) with 18 by lia.
        cbn [Z.eqb Pos.eqb].
        destruct (pos + 2 >=? dlen) eqn:E; [lia|]. clear E.
        replace (18 + (len - 18)) with len by lia.
        destruct ((off =? 0) || (off >? bn r)) eqn:E; [lia|]. clear E.
        rewrite C1. cbn [bind].
        rewrite <- C3 in OK2, Hraw.
        destruct (IH k (bit + 1) ctrl (pos + 2 + 1) more rc rawSize dlen C2 OK2 ltac:(lia) ltac:(lia) Hctrl' ltac:(lia) Hraw Hend') as (r' & H1 & H2 & H3).
        exists r'. rewrite H1. split; [|split; [exact H2|]].
        -- f_equal. f_equal. f_equal. bl. lia.
        -- rewrite H3, C3. reflexivity.
      * cbn [app] in *. rewrite !blen_cons in Hpos.
        pose proof (blen_nonneg (enc_pitems g ++ more)).
        destruct ((pos <? dlen) && (bn r <? rawSize)) eqn:E; [|lia]. clear E.
        cbn [ctrl_bit Z.eqb Pos.eqb].
        destruct (pos + 1 >=? dlen) eqn:E; [lia|]. clear E.
        cbn [rdz rd nth_error bind skipn]. rewrite !b2z_z2b_small by lia.
        rewrite Hoff, Hl. replace (Z.min (len - 3) 15 + 3) with len by lia.
        destruct (len =? 18) eqn:E; [lia|]. clear E.
        destruct ((off =? 0) || (off >? bn r)) eqn:E; [lia|]. clear E.
        rewrite C1. cbn [bind].
        rewrite <- C3 in OK2, Hraw.
        destruct (IH k (bit + 1) ctrl (pos + 2) more rc rawSize dlen C2 OK2 ltac:(lia) ltac:(lia) Hctrl' ltac:(lia) Hraw Hend') as (r' & H1 & H2 & H3).
        exists r'. rewrite H1. split; [|split; [exact H2|]].
        -- f_equal. f_equal. f_equal. bl. lia.
        -- rewrite H3, C3. reflexivity.
Qed.

Lemma run_pitems_len_gt its out : pitems_ok its out -> its <> [] -> blen out < blen (run_pitems its out).
Proof.
  destruct its as [|it its]; [congruence|]. intros [H1 H2] _. cbn [run_pitems].
  pose proof (run_pitems_len_ge _ _ H2) as G. rewrite (apply_pitem_len _ _ H1) in G.
  pose proof (pitem_len_pos _ _ H1). lia.
Qed.

Lemma pgroups_ok_cons g rest : pgroups_ok (g :: rest) ->
  (1 <= length g <= 8)%nat /\ (length g = 8%nat \/ rest = []) /\ pgroups_ok rest.
Proof.
  destruct rest as [|g' rest']; cbn [pgroups_ok].
  - intros H. repeat split; try lia. right; reflexivity.
  - intros [H1 H2]. repeat split; try lia; auto.
Qed.

Lemma enc_pgroups_cons g rest : enc_pgroups (g :: rest) = z2b (ctrl_val g) :: enc_pitems g ++ enc_pgroups rest.
Proof. reflexivity. Qed.

Lemma enc_pgroups_length gs : (length gs <= length (enc_pgroups gs))%nat.
Proof.
  induction gs as [|g gs IH]; [cbn; lia|]. rewrite enc_pgroups_cons. cbn [length]. rewrite app_length. lia.
Qed.

Lemma decompressCap_nonneg raw n : 0 <= n -> 0 <= decompressCap raw n.
Proof.
  intros. unfold decompressCap, maxDecompressRatio. destruct (raw <? 0) eqn:E; [lia|].
  destruct (raw >? n * 256) eqn:E2; lia.
Qed.

Lemma pglz_loop_ok : forall gs fuel pos r rawSize dlen,
  rb_wf r -> pgroups_ok gs -> pitems_ok (concat gs) (fwd r) ->
  (length gs < fuel)%nat ->
  pos + blen (enc_pgroups gs) = dlen ->
  blen (run_pitems (concat gs) (fwd r)) = rawSize ->
  exists r', pglz_loop fuel dlen rawSize pos (enc_pgroups gs) r = Ok (Some r') /\
             fwd r' = run_pitems (concat gs) (fwd r).
Proof.
  induction gs as [|g rest IH]; intros fuel pos r rawSize dlen W G OK Hf Hpos Hraw.
  - destruct fuel as [|f]; [cbn [length] in Hf; lia|].
    cbn [concat run_pitems enc_pgroups map] in *. change (blen []) with 0 in Hpos.
    exists r. split; [|reflexivity]. cbn [pglz_loop].
    destruct (pos <? dlen) eqn:E; [lia|]. reflexivity.
  - destruct fuel as [|f]; [cbn [length] in Hf; lia|]. cbn [length] in Hf.
    destruct (pgroups_ok_cons _ _ G) as (Hg & Hend & Grest).
    cbn [concat] in *. apply pitems_ok_app in OK. destruct OK as [OKg OKrest].
    rewrite run_pitems_app in *.
    pose proof (run_pitems_len_ge _ _ OKrest) as Ge.
    assert (Hne : g <> []) by (destruct g; cbn [length] in Hg; [lia|congruence]).
    pose proof (run_pitems_len_gt _ _ OKg Hne) as Gt.
    pose proof (fwd_len r W) as Lr.
    rewrite enc_pgroups_cons in *. rewrite blen_cons in Hpos.
    pose proof (blen_nonneg (enc_pitems g ++ enc_pgroups rest)).
    cbn [pglz_loop].
    destruct ((pos <? dlen) && (bn r <? rawSize)) eqn:E; [|lia]. clear E.
    cbn [rdz rd nth_error bind skipn].
    pose proof (ctrl_val_range g) as CR.
    assert (2 ^ Z.of_nat (length g) <= 2 ^ 8) by (apply Z.pow_le_mono_r; lia).
    rewrite b2z_z2b_small by lia.
    assert (Hc0 : ctrl_val g / 2 ^ 0 = ctrl_val g) by (change (2 ^ 0) with 1; apply Z.div_1_r).
    assert (Hend2 : length g = 8%nat \/ enc_pgroups rest = []).
    { destruct Hend as [Hend|Hend]; [left; exact Hend|right; subst rest; reflexivity]. }
    destruct (pglz_bits_ok g 8 0 (ctrl_val g) (pos + 1) (enc_pgroups rest) r rawSize dlen W OKg ltac:(lia) ltac:(lia)
                Hc0 ltac:(lia) ltac:(lia) Hend2) as (r1 & B1 & B2 & B3).
    rewrite B1. cbn [bind fst snd].
    rewrite <- B3 in OKrest, Hraw.
    assert (Hp2 : pos + 1 + blen (enc_pitems g) + blen (enc_pgroups rest) = dlen) by (bl; lia).
    destruct (IH f (pos + 1 + blen (enc_pitems g)) r1 rawSize dlen B2 Grest OKrest ltac:(lia) Hp2 Hraw) as (r' & L1 & L2).
    exists r'. split; [exact L1|]. rewrite L2, B3. reflexivity.
Qed.

Theorem decompressPGLZ_denotes s out t :
  pglz_denotes s out -> out <> [] -> decompressPGLZ {| vis := s; tail := t |} (blen out) = Ok (DOk out).
Proof.
  intros (gs & G & OK & -> & ->) Hne.
  assert (Hgs : gs <> []) by (intros ->; apply Hne; reflexivity).
  pose proof (enc_pgroups_length gs) as Lg.
  assert (L1 : (1 <= length gs)%nat) by (destruct gs; [congruence|cbn; lia]).
  unfold decompressPGLZ, len. cbn [vis].
  assert (Lb : 1 <= blen (enc_pgroups gs)) by (unfold blen; lia).
  destruct (blen (enc_pgroups gs) <? 1) eqn:E; [lia|]. clear E.
  unfold go_make0. pose proof (decompressCap_nonneg (blen (run_pitems (concat gs) [])) (blen (enc_pgroups gs)) ltac:(lia)).
  destruct (decompressCap _ _ <? 0) eqn:E; [lia|]. clear E. cbn [bind].
  destruct (pglz_loop_ok gs (S (length (enc_pgroups gs))) 0 rb_empty (blen (run_pitems (concat gs) [])) (blen (enc_pgroups gs))
              rb_empty_wf G OK ltac:(lia) ltac:(lia) eq_refl) as (r' & H1 & H2).
  rewrite H1. cbn [bind]. rewrite rb_bytes_fwd, H2. reflexivity.
Qed.
