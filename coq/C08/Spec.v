(* Specification for C08, written from PostgreSQL's formats (postgres.h / varatt.h,
   toast_internals.h, toast_helper / toast_save_datum, pg_lzcompress.c, lz4 block format),
   independently of the Go code.  Little-endian x86-64, PostgreSQL 12-16. *)
Require Import PG.Base.Bytes.
From Coq Require Import Permutation.

(* ================= 1. TOAST pointer (varattrib_1b_e + varatt_external) =================
     uint8 va_header = 0x01            VARATT_IS_1B_E
     uint8 va_tag    = 18              VARTAG_ONDISK
     int32  va_rawsize                 original data size INCLUDING the 4-byte varlena header
     uint32 va_extinfo                 external saved size (low 30 bits) | compression method << 30
     Oid    va_valueid                 chunk_id in the TOAST relation
     Oid    va_toastrelid
   (PostgreSQL 12/13 call the second word va_extsize; its top two bits are zero = pglz.) *)
Record toast_ptr := { tp_rawsize : Z; tp_extsize : Z; tp_method : Z; tp_valueid : Z; tp_toastrelid : Z }.
Definition wf_ptr (p : toast_ptr) : Prop :=
  0 <= tp_rawsize p < 2 ^ 31 /\ 0 <= tp_extsize p < 2 ^ 30 /\ 0 <= tp_method p < 4 /\
  0 <= tp_valueid p < 2 ^ 32 /\ 0 <= tp_toastrelid p < 2 ^ 32.
Definition enc_ptr (p : toast_ptr) : bytes :=
  [x01; x12] ++ le_enc 4 (tp_rawsize p) ++ le_enc 4 (tp_extsize p + tp_method p * 2 ^ 30) ++
  le_enc 4 (tp_valueid p) ++ le_enc 4 (tp_toastrelid p).
(* VARATT_EXTERNAL_IS_COMPRESSED *)
Definition ptr_is_compressed (p : toast_ptr) : bool := tp_extsize p <? tp_rawsize p - 4.

(* a datum is an external pointer iff its first byte is 0x01 (VARATT_IS_1B_E); every other first
   byte is an inline datum (odd: 1-byte header; low bits 00 / 10: 4-byte header plain / compressed) *)
Definition datum_is_external (d : bytes) : bool :=
  match d with b :: _ => b2z b =? 1 | [] => false end.
(* known finding C08-istoast-0x02 (pinned by TestIsTOASTPointer): first byte 0x02 = an inline
   compressed datum whose total length is a multiple of 64 *)
Definition kf_istoast (d : bytes) : bool :=
  match d with b :: _ :: _ => b2z b =? 2 | _ => false end.

(* ================= 2. LZ77 back-reference, byte by byte (overlap is meaningful) ================= *)
Fixpoint copy_back (n : nat) (off : Z) (out : bytes) : bytes :=
  match n with
  | O => out
  | S k => copy_back k off (out ++ [nth (Z.to_nat (blen out - off)) out x00])
  end.

(* ================= 3. pglz (pg_lzcompress.c) =================
   A stream is a sequence of groups; each group is one control byte followed by up to 8 items, bit i
   (LSB first) of the control byte telling whether item i is a literal (0) or a tag (1); all groups
   but the last have exactly 8 items, unused control bits are 0.  A tag is 2 or 3 bytes:
     byte1 = (off >> 8) << 4 | min(len-3, 15),  byte2 = off & 0xFF,  [byte3 = len - 18 if len >= 18]
   with 1 <= off <= 4095, 3 <= len <= 273, and off not reaching before the start of the output. *)
Inductive pitem := PLit (b : byte) | PMatch (off len : Z).
Definition pitem_ok (produced : Z) (it : pitem) : Prop :=
  match it with
  | PLit _ => True
  | PMatch off len => 1 <= off <= 4095 /\ off <= produced /\ 3 <= len <= 273
  end.
Definition apply_pitem (out : bytes) (it : pitem) : bytes :=
  match it with PLit b => out ++ [b] | PMatch off len => copy_back (Z.to_nat len) off out end.
Fixpoint run_pitems (its : list pitem) (out : bytes) : bytes :=
  match its with [] => out | it :: r => run_pitems r (apply_pitem out it) end.
Fixpoint pitems_ok (its : list pitem) (out : bytes) : Prop :=
  match its with [] => True | it :: r => pitem_ok (blen out) it /\ pitems_ok r (apply_pitem out it) end.

Definition enc_pitem (it : pitem) : bytes :=
  match it with
  | PLit b => [b]
  | PMatch off len =>
    [z2b ((off / 256) * 16 + Z.min (len - 3) 15); z2b (off mod 256)] ++
    (if len >=? 18 then [z2b (len - 18)] else [])
  end.
Definition ctrl_bit (it : pitem) : Z := match it with PLit _ => 0 | PMatch _ _ => 1 end.
Fixpoint ctrl_val (g : list pitem) : Z :=
  match g with [] => 0 | it :: r => ctrl_bit it + 2 * ctrl_val r end.
Definition enc_pgroup (g : list pitem) : bytes := z2b (ctrl_val g) :: concat (map enc_pitem g).
Definition enc_pgroups (gs : list (list pitem)) : bytes := concat (map enc_pgroup gs).
Fixpoint pgroups_ok (gs : list (list pitem)) : Prop :=
  match gs with
  | [] => True
  | [g] => (1 <= length g <= 8)%nat
  | g :: rest => length g = 8%nat /\ pgroups_ok rest
  end.
Definition pglz_denotes (s out : bytes) : Prop :=
  exists gs, pgroups_ok gs /\ pitems_ok (concat gs) [] /\ s = enc_pgroups gs /\ out = run_pitems (concat gs) [].

(* grouping a flat item list the way the compressor does: 8 items per control byte *)
Fixpoint group8 (fuel : nat) (its : list pitem) : list (list pitem) :=
  match fuel with
  | O => []
  | S f => match its with [] => [] | _ => firstn 8 its :: group8 f (skipn 8 its) end
  end.
Definition pglz_stream (its : list pitem) : bytes := enc_pgroups (group8 (length its) its).

(* ================= 4. LZ4 block format =================
   sequence = token, [literal-length extension], literals, offset (LE16), [match-length extension];
   token = min(litlen,15) << 4 | min(matchlen-4,15); a nibble of 15 is extended by bytes that are
   added up, continuing while the byte is 255.  1 <= offset <= 65535, matchlen >= 4.
   The last sequence stops after its literals. *)
Record lz4seq := { ls_lits : bytes; ls_off : Z; ls_mlen : Z }.
Definition lz4_ext (n : Z) : bytes := repeat xff (Z.to_nat (n / 255)) ++ [z2b (n mod 255)].
Definition lz4_lenbytes (n : Z) : bytes := if n >=? 15 then lz4_ext (n - 15) else [].
Definition enc_lz4seq (s : lz4seq) : bytes :=
  [z2b (Z.min (blen (ls_lits s)) 15 * 16 + Z.min (ls_mlen s - 4) 15)] ++
  lz4_lenbytes (blen (ls_lits s)) ++ ls_lits s ++
  [z2b (ls_off s mod 256); z2b (ls_off s / 256)] ++ lz4_lenbytes (ls_mlen s - 4).
Definition enc_lz4last (l : bytes) : bytes :=
  [z2b (Z.min (blen l) 15 * 16)] ++ lz4_lenbytes (blen l) ++ l.
Definition enc_lz4block (seqs : list lz4seq) (last : bytes) : bytes :=
  concat (map enc_lz4seq seqs) ++ enc_lz4last last.
Definition apply_lz4seq (out : bytes) (s : lz4seq) : bytes :=
  copy_back (Z.to_nat (ls_mlen s)) (ls_off s) (out ++ ls_lits s).
Fixpoint run_lz4seqs (seqs : list lz4seq) (out : bytes) : bytes :=
  match seqs with [] => out | s :: r => run_lz4seqs r (apply_lz4seq out s) end.
Definition lz4seq_ok (produced : Z) (s : lz4seq) : Prop :=
  1 <= ls_off s <= 65535 /\ ls_off s <= produced + blen (ls_lits s) /\ 4 <= ls_mlen s.
Fixpoint lz4seqs_ok (seqs : list lz4seq) (out : bytes) : Prop :=
  match seqs with [] => True | s :: r => lz4seq_ok (blen out) s /\ lz4seqs_ok r (apply_lz4seq out s) end.
Definition lz4_denotes (s out : bytes) : Prop :=
  exists seqs last, lz4seqs_ok seqs [] /\ s = enc_lz4block seqs last /\ out = run_lz4seqs seqs [] ++ last.

(* ================= 5. External storage of a value (toast_save_datum) =================
   The stored payload is cut into chunks (value id, seq 0,1,2,..., bytes) of at most
   TOAST_MAX_CHUNK_SIZE bytes (1996 by default; any positive size here). *)
Record chunk := { ck_id : Z; ck_seq : Z; ck_data : bytes }.
Fixpoint chunks_from (fuel : nat) (id : Z) (size : nat) (seq : Z) (payload : bytes) : list chunk :=
  match fuel with
  | O => []
  | S f => match payload with
           | [] => []
           | _ => {| ck_id := id; ck_seq := seq; ck_data := firstn size payload |}
                  :: chunks_from f id size (seq + 1) (skipn size payload)
           end
  end.
Definition chunks_of (id : Z) (size : nat) (payload : bytes) : list chunk :=
  chunks_from (length payload) id size 0 payload.

(* payload of a compressed value: va_tcinfo = rawsize | method << 30 (rawsize WITHOUT header), then the stream *)
Definition compressed_payload (rawlen method : Z) (stream : bytes) : bytes :=
  le_enc 4 (rawlen + method * 2 ^ 30) ++ stream.

(* what a TOAST relation may hold besides the chunks of the value asked for: chunks of other values
   (any number, any content, duplicates allowed) in any physical interleaving *)
Definition stored_as (rel : list chunk) (id : Z) (size : nat) (payload : bytes) : Prop :=
  exists foreign, Forall (fun c => ck_id c <> id) foreign /\ Permutation rel (chunks_of id size payload ++ foreign).

(* ================= 6. chunk tuple data (toast relation row: oid, int4, bytea) ================= *)
Inductive vl_form := VShort | VLong.
Definition enc_varlena (f : vl_form) (d : bytes) : bytes :=
  match f with
  | VShort => z2b ((blen d + 1) * 2 + 1) :: d                 (* 1-byte header: (len << 1) | 1 *)
  | VLong => le_enc 4 ((blen d + 4) * 4) ++ d                  (* 4-byte header: len << 2 *)
  end.
Definition vl_form_ok (f : vl_form) (d : bytes) : Prop :=
  match f with VShort => blen d <= 126 | VLong => blen d + 4 < 2 ^ 30 end.
Definition enc_chunk_tuple (f : vl_form) (c : chunk) : bytes :=
  le_enc 4 (ck_id c) ++ le_enc 4 (wrap 32 (ck_seq c)) ++ enc_varlena f (ck_data c).
Definition wf_chunk (c : chunk) : Prop :=
  0 <= ck_id c < 2 ^ 32 /\ - 2 ^ 31 <= ck_seq c < 2 ^ 31 /\ ck_data c <> [].

(* ================= 7. statistics: tallies of the stored chunks ================= *)
Definition ids_of (cs : list chunk) : list Z := nodup Z.eq_dec (map ck_id cs).
Definition chunks_with (cs : list chunk) (id : Z) : list chunk := filter (fun c => ck_id c =? id) cs.
Definition total_bytes (cs : list chunk) : Z := fold_right (fun c a => blen (ck_data c) + a) 0 cs.
Definition count_of (cs : list chunk) (id : Z) : Z := Z.of_nat (length (chunks_with cs id)).
Definition max_count (cs : list chunk) : Z := fold_right Z.max 0 (map (count_of cs) (ids_of cs)).
(* how many values consist of exactly k chunks *)
Definition values_with_count (cs : list chunk) (k : Z) : Z :=
  Z.of_nat (length (filter (fun id => count_of cs id =? k) (ids_of cs))).
