(* The behaviour before the fix: commits, kept as small models with machine-checked refutations
   (D26 pointer layout, D27 pglz tag nibbles). *)
Require Import PG.Base.Bytes PG.Base.GoSlice PG.C08.Model PG.C08.Spec PG.C08.PointerProofs.

(* toast.go before "fix: TOAST pointer layout": fields read from byte 1, "compressed" taken from the
   first byte (0x02 / 0x12), method from the top bits of the first word *)
Definition ParseTOASTPointer_old (s : gslice) : res (option TOASTPointer) :=
  if len s <? 18 then Ok None else
  tag <- idx s 0 ;;
  if negb ((tag =? 1) || (tag =? 2) || (tag =? 18)) then Ok None else
  rawf <- u32_at s 1 ;; ext <- u32_at s 5 ;; vid <- u32_at s 9 ;; rel <- u32_at s 13 ;;
  Ok (Some {| RawSize := rawf mod 2 ^ 30; ExtSize := ext; ValueID := vid; ToastRelID := rel;
              IsCompressed := (tag =? 2) || (tag =? 18); CompressionMethod := rawf / 2 ^ 30 |}).

Definition ex_ptr : toast_ptr :=
  {| tp_rawsize := 10004; tp_extsize := 1503; tp_method := 1; tp_valueid := 16500; tp_toastrelid := 16390 |}.

Theorem pointer_old_refuted :
  wf_ptr ex_ptr /\
  ParseTOASTPointer_old (exact (enc_ptr ex_ptr)) <> Ok (Some (expected_ptr ex_ptr)) /\
  ParseTOASTPointer (exact (enc_ptr ex_ptr)) = Ok (Some (expected_ptr ex_ptr)).
Proof.
  split; [unfold wf_ptr; cbn; lia|]. split; [vm_compute; intros H; discriminate H|vm_compute; reflexivity].
Qed.

(* decompressPGLZ before "fix: pglz tag decoding":  offset := b1 | (b2&0xF0)<<4 ; length := (b2&0x0F)+3 *)
Definition pglz_tag_old (b1 b2 : Z) : Z * Z := (b1 + (b2 / 16) * 256, b2 mod 16 + 3).
Theorem pglz_tag_old_refuted :
  exists off len, pitem_ok 3 (PMatch off len) /\
    match enc_pitem (PMatch off len) with
    | b1 :: b2 :: _ => pglz_tag_old (b2z b1) (b2z b2) <> (off, len)
    | _ => False
    end.
Proof. exists 3, 3. split; [cbn; lia|]. vm_compute. intros H; discriminate H. Qed.
