(* Executable (linear-time) forms of the specification functions of Spec.v, used by the driver to
   compute expectations for large values; FastProofs.v proves them equal to the Spec.v definitions. *)
Require Import PG.Base.Bytes PG.C08.Spec.

(* output held newest-first: the byte [off] back is at index off-1 *)
Fixpoint rcopy (n : nat) (k : nat) (acc : bytes) : bytes :=
  match n with O => acc | S m => rcopy m k (nth k acc x00 :: acc) end.
Definition rapply_pitem (acc : bytes) (it : pitem) : bytes :=
  match it with PLit b => b :: acc | PMatch off len => rcopy (Z.to_nat len) (Z.to_nat (off - 1)) acc end.
Fixpoint rrun_pitems (its : list pitem) (acc : bytes) : bytes :=
  match its with [] => acc | it :: r => rrun_pitems r (rapply_pitem acc it) end.
Definition pglz_out (its : list pitem) : bytes := rev_append (rrun_pitems its []) [].

Definition rapply_lz4seq (acc : bytes) (s : lz4seq) : bytes :=
  rcopy (Z.to_nat (ls_mlen s)) (Z.to_nat (ls_off s - 1)) (rev_append (ls_lits s) acc).
Fixpoint rrun_lz4seqs (seqs : list lz4seq) (acc : bytes) : bytes :=
  match seqs with [] => acc | s :: r => rrun_lz4seqs r (rapply_lz4seq acc s) end.
Definition lz4_out (seqs : list lz4seq) (last : bytes) : bytes :=
  rev_append (rev_append last (rrun_lz4seqs seqs [])) [].

(* decidable forms of pitems_ok / lz4seqs_ok (the output length is all they depend on) *)
Definition pitem_len (it : pitem) : Z := match it with PLit _ => 1 | PMatch _ len => len end.
Definition pitem_okb (produced : Z) (it : pitem) : bool :=
  match it with
  | PLit _ => true
  | PMatch off len => (1 <=? off) && (off <=? 4095) && (off <=? produced) && (3 <=? len) && (len <=? 273)
  end.
Fixpoint pitems_okb (its : list pitem) (produced : Z) : bool :=
  match its with [] => true | it :: r => pitem_okb produced it && pitems_okb r (produced + pitem_len it) end.
Definition lz4seq_okb (produced : Z) (s : lz4seq) : bool :=
  (1 <=? ls_off s) && (ls_off s <=? 65535) && (ls_off s <=? produced + blen (ls_lits s)) && (4 <=? ls_mlen s).
Fixpoint lz4seqs_okb (seqs : list lz4seq) (produced : Z) : bool :=
  match seqs with
  | [] => true
  | s :: r => lz4seq_okb produced s && lz4seqs_okb r (produced + blen (ls_lits s) + ls_mlen s)
  end.
