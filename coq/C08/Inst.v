(* Instantiation of the model's Section variables for extraction (guide §3/§10).
   zlib (compress/zlib) is not modelled: the placeholder says "not a zlib stream".  The generator
   never produces a complete valid zlib stream (it would need a matching Adler-32), so on generated
   inputs this is what the real library answers. *)
Require Import PG.Base.Bytes PG.Base.GoSlice PG.C08.Model.
Definition zlib_none : bytes -> option bytes := fun _ => None.
Definition ReassembleTOAST_m := ReassembleTOAST zlib_none.
Definition ReadValue_m := ReadValue zlib_none.
