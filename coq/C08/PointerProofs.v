Require Import PG.Base.Bytes PG.Base.GoSlice PG.C08.Model PG.C08.Spec.

Lemma u32_at_val s off : 0 <= off -> off + 4 <= len s ->
  u32_at s off = Ok (le_dec (sub (vis s) off (off + 4))).
Proof.
  intros H0 H1. unfold u32_at, slice. pose proof (len_le_cap s).
  destruct ((0 <=? off) && (off <=? off + 4) && (off + 4 <=? cap s)) eqn:E; [|lia]. cbn [bind].
  assert (V : sub (mem s) off (off + 4) = sub (vis s) off (off + 4)).
  { unfold mem. apply sub_app_l; unfold len in *; lia. }
  assert (L : blen (sub (vis s) off (off + 4)) = 4) by (rewrite sub_length; unfold len in *; lia).
  unfold u32. rewrite uN_val; cbn [vis]; unfold len; cbn [vis]; rewrite ?V; try lia.
  rewrite sub_exact; [reflexivity|lia|]. change (Z.of_nat 4) with 4. lia.
Qed.

Lemma u32_at_enc s off v : 0 <= off -> off + 4 <= len s -> 0 <= v < 2 ^ 32 ->
  sub (vis s) off (off + 4) = le_enc 4 v -> u32_at s off = Ok v.
Proof.
  intros. rewrite u32_at_val by lia. rewrite H2. rewrite le_dec_enc; [reflexivity|]. exact H1.
Qed.

Definition expected_ptr (p : toast_ptr) : TOASTPointer :=
  {| RawSize := tp_rawsize p; ExtSize := tp_extsize p; ValueID := tp_valueid p; ToastRelID := tp_toastrelid p;
     IsCompressed := ptr_is_compressed p; CompressionMethod := tp_method p |}.

Lemma enc_ptr_len p : blen (enc_ptr p) = 18.
Proof. unfold enc_ptr. bl. reflexivity. Qed.
#[export] Hint Rewrite enc_ptr_len : blen.

Lemma parse_pointer_roundtrip p rest t :
  wf_ptr p -> ParseTOASTPointer {| vis := enc_ptr p ++ rest; tail := t |} = Ok (Some (expected_ptr p)).
Proof.
  intros (Hr & He & Hm & Hv & Hl).
  set (s := {| vis := enc_ptr p ++ rest; tail := t |}).
  assert (L : len s = 18 + blen rest) by (unfold len, s; cbn [vis]; bl; lia).
  pose proof (blen_nonneg rest).
  unfold ParseTOASTPointer. destruct (len s <? 18) eqn:E; [lia|]. clear E.
  rewrite idx_ok by lia. cbn [bind].
  assert (B0 : byte_at (vis s) 0 = 1).
  { unfold s; cbn [vis]. unfold enc_ptr. reflexivity. }
  rewrite B0. cbn [Z.eqb negb Pos.eqb].
  assert (E30 : 0 <= tp_extsize p + tp_method p * 2 ^ 30 < 2 ^ 32) by lia.
  rewrite (u32_at_enc s 2 (tp_rawsize p)); try lia.
  2:{ unfold s; cbn [vis]; unfold enc_ptr. ssub. }
  cbn [bind].
  rewrite (u32_at_enc s 6 (tp_extsize p + tp_method p * 2 ^ 30)); try lia.
  2:{ unfold s; cbn [vis]; unfold enc_ptr. ssub. }
  cbn [bind].
  rewrite (u32_at_enc s 10 (tp_valueid p)); try lia.
  2:{ unfold s; cbn [vis]; unfold enc_ptr. ssub. }
  cbn [bind].
  rewrite (u32_at_enc s 14 (tp_toastrelid p)); try lia.
  2:{ unfold s; cbn [vis]; unfold enc_ptr. ssub. }
  cbn [bind].
  replace ((tp_extsize p + tp_method p * 2 ^ 30) mod 2 ^ 30) with (tp_extsize p).
  2:{ rewrite Z.mod_add by lia. rewrite Z.mod_small; lia. }
  replace ((tp_extsize p + tp_method p * 2 ^ 30) / 2 ^ 30) with (tp_method p).
  2:{ rewrite Z.div_add by lia. rewrite Z.div_small; lia. }
  unfold expected_ptr, ptr_is_compressed. do 3 f_equal.
  destruct (tp_extsize p + 4 <? tp_rawsize p) eqn:E1, (tp_extsize p <? tp_rawsize p - 4) eqn:E2; try reflexivity; lia.
Qed.
