(* GetTOASTVerboseInfo's statistics are the tallies of the chunk list, whatever order Go's map iteration takes. *)
Require Import PG.Base.Bytes PG.Base.GoSlice PG.C08.Model PG.C08.Spec PG.C08.ReassembleProofs.
From Coq Require Import Permutation.

Definition step_group (m : list (Z * list TOASTChunk)) (c : TOASTChunk) := map_append m (ChunkID c) c.
Definition keys (m : list (Z * list TOASTChunk)) : list Z := map fst m.

Lemma map_get_append : forall m k c id,
  map_get (map_append m k c) id = if k =? id then map_get m id ++ [c] else map_get m id.
Proof.
  induction m as [|[k' l] m IH]; intros k c id; cbn [map_append map_get].
  - destruct (k =? id); reflexivity.
  - destruct (k' =? k) eqn:E1; cbn [map_get].
    + apply Z.eqb_eq in E1. subst k'. destruct (k =? id) eqn:E2; reflexivity.
    + destruct (k' =? id) eqn:E2.
      * destruct (k =? id) eqn:E3; [lia|reflexivity].
      * apply IH.
Qed.

Lemma keys_append : forall m k c, keys (map_append m k c) = if in_dec Z.eq_dec k (keys m) then keys m else keys m ++ [k].
Proof.
  induction m as [|[k' l] m IH]; intros k c; cbn [map_append keys map fst].
  - reflexivity.
  - destruct (k' =? k) eqn:E.
    + apply Z.eqb_eq in E. subst k'. destruct (in_dec Z.eq_dec k (k :: map fst m)) as [_|N]; [reflexivity|].
      exfalso. apply N. left. reflexivity.
    + cbn [map fst]. fold (keys (map_append m k c)). rewrite IH. fold (keys m).
      destruct (in_dec Z.eq_dec k (keys m)) as [I|N]; destruct (in_dec Z.eq_dec k (k' :: keys m)) as [I2|N2];
        try reflexivity.
      * exfalso. apply N2. right. exact I.
      * destruct I2 as [E2|I2]; [lia|contradiction].
Qed.

Lemma group_get : forall l m id,
  map_get (fold_left step_group l m) id = map_get m id ++ filter (fun c => ChunkID c =? id) l.
Proof.
  induction l as [|c l IH]; intros m id; cbn [fold_left filter]; [rewrite app_nil_r; reflexivity|].
  rewrite IH. unfold step_group. rewrite map_get_append.
  destruct (ChunkID c =? id); [rewrite <- app_assoc; reflexivity|reflexivity].
Qed.

Lemma NoDup_snoc {A} (l : list A) k : NoDup l -> ~ In k l -> NoDup (l ++ [k]).
Proof.
  induction 1 as [|x l Hx ND IH]; intros N; cbn [app]; [constructor; [intros []|constructor]|].
  constructor.
  - rewrite in_app_iff. cbn [In]. intros [H|[H|[]]]; [contradiction|]. subst. apply N. left. reflexivity.
  - apply IH. intros H. apply N. right. exact H.
Qed.

Lemma group_keys : forall l m, NoDup (keys m) ->
  NoDup (keys (fold_left step_group l m)) /\
  forall id, In id (keys (fold_left step_group l m)) <-> In id (keys m) \/ In id (map ChunkID l).
Proof.
  induction l as [|c l IH]; intros m ND; cbn [fold_left map].
  - split; [exact ND|]. intros; cbn [In]; tauto.
  - assert (ND' : NoDup (keys (step_group m c))).
    { unfold step_group. rewrite keys_append. destruct (in_dec Z.eq_dec (ChunkID c) (keys m)); [exact ND|].
      apply NoDup_snoc; auto. }
    destruct (IH _ ND') as [H1 H2]. split; [exact H1|].
    intros id. rewrite H2. unfold step_group. rewrite keys_append.
    destruct (in_dec Z.eq_dec (ChunkID c) (keys m)) as [I|N].
    + split; [intros [H|H]; auto; right; right; exact H|].
      intros [H|[H|H]]; auto. subst id. left. exact I.
    + rewrite in_app_iff. cbn [In]. tauto.
Qed.

Lemma sum_sizes_acc : forall (l : list chunk) a,
  fold_left (fun a c => a + blen (Data c)) (map mchunk l) a = a + total_bytes l.
Proof.
  induction l as [|c l IH]; intros a; cbn [map fold_left total_bytes fold_right]; [lia|].
  rewrite IH. cbn [mchunk Data]. unfold total_bytes. lia.
Qed.
Lemma sum_sizes_spec (l : list chunk) : sum_sizes (map mchunk l) = total_bytes l.
Proof. unfold sum_sizes. rewrite sum_sizes_acc. lia. Qed.

Lemma filter_mchunk (cs : list chunk) id :
  filter (fun c => ChunkID c =? id) (map mchunk cs) = map mchunk (chunks_with cs id).
Proof.
  unfold chunks_with. induction cs as [|c cs IH]; [reflexivity|]. cbn [map filter mchunk ChunkID].
  destruct (ck_id c =? id); [cbn [map]; f_equal|]; exact IH.
Qed.

Lemma dist_get_incr : forall m n k, dist_get (map_incr m n) k = dist_get m k + (if n =? k then 1 else 0).
Proof.
  induction m as [|[k' v] m IH]; intros n k; cbn [map_incr dist_get].
  - destruct (n =? k); lia.
  - destruct (k' =? n) eqn:E1; cbn [dist_get].
    + apply Z.eqb_eq in E1. subst k'. destruct (n =? k); lia.
    + destruct (k' =? k) eqn:E2; [destruct (n =? k) eqn:E3; lia|apply IH].
Qed.

(* the loop over the map, for an arbitrary per-key function *)
Definition vstep (vc : list (Z * list TOASTChunk)) (st : Z * list (Z * Z) * list TOASTValueInfo) (id : Z) :=
  let '(mx, dist, vals) := st in
  let cs := map_get vc id in
  let n := Z.of_nat (length cs) in
  (if n >? mx then n else mx, map_incr dist n, vals ++ [{| vi_id := id; vi_num := n; vi_size := sum_sizes cs |}]).

Definition cntf (vc : list (Z * list TOASTChunk)) (id : Z) : Z := Z.of_nat (length (map_get vc id)).
Definition vinfo (vc : list (Z * list TOASTChunk)) (id : Z) : TOASTValueInfo :=
  {| vi_id := id; vi_num := cntf vc id; vi_size := sum_sizes (map_get vc id) |}.

Lemma vloop : forall order vc mx dist vals, 0 <= mx ->
  fst (fst (fold_left (vstep vc) order (mx, dist, vals))) = Z.max mx (fold_right Z.max 0 (map (cntf vc) order)) /\
  (forall k, dist_get (snd (fst (fold_left (vstep vc) order (mx, dist, vals)))) k =
             dist_get dist k + Z.of_nat (length (filter (fun id => cntf vc id =? k) order))) /\
  snd (fold_left (vstep vc) order (mx, dist, vals)) = vals ++ map (vinfo vc) order.
Proof.
  induction order as [|id order IH]; intros vc mx dist vals Hmx.
  - cbn [fold_left map fold_right filter length fst snd]. split; [lia|]. split; [intros; lia|]. rewrite app_nil_r. reflexivity.
  - cbn [fold_left].
    change (vstep vc (mx, dist, vals) id) with
      (if cntf vc id >? mx then cntf vc id else mx, map_incr dist (cntf vc id), vals ++ [vinfo vc id]).
    assert (H0 : 0 <= cntf vc id) by (unfold cntf; lia).
    destruct (IH vc (if cntf vc id >? mx then cntf vc id else mx) (map_incr dist (cntf vc id)) (vals ++ [vinfo vc id]))
      as (H1 & H2 & H3).
    { destruct (cntf vc id >? mx); lia. }
    split; [|split].
    + rewrite H1. cbn [map fold_right]. destruct (cntf vc id >? mx) eqn:E; lia.
    + intros k. rewrite H2, dist_get_incr. cbn [filter]. destruct (cntf vc id =? k); cbn [length]; lia.
    + rewrite H3. cbn [map]. rewrite <- app_assoc. reflexivity.
Qed.

Lemma max_perm (f : Z -> Z) l l' : Permutation l l' -> fold_right Z.max 0 (map f l) = fold_right Z.max 0 (map f l').
Proof. induction 1; cbn [map fold_right]; try lia. Qed.

Definition expected_value (cs : list chunk) (id : Z) : TOASTValueInfo :=
  {| vi_id := id; vi_num := count_of cs id; vi_size := total_bytes (chunks_with cs id) |}.

Theorem stats_spec relid (cs : list chunk) (order : list Z) :
  cs <> [] -> Permutation order (ids_of cs) ->
  exists info, verbose_info_of_chunks relid (map mchunk cs) order = Some info /\
    ti_relid info = relid /\
    ti_total_chunks info = Z.of_nat (length cs) /\
    ti_unique info = Z.of_nat (length (ids_of cs)) /\
    ti_total_size info = total_bytes cs /\
    ti_max info = max_count cs /\
    (forall k, dist_get (ti_dist info) k = values_with_count cs k) /\
    ti_values info = map (expected_value cs) order.
Proof.
  intros Hne P. unfold verbose_info_of_chunks.
  destruct (map mchunk cs) as [|c0 l0] eqn:E0; [destruct cs; [congruence|discriminate]|]. rewrite <- E0. clear E0 c0 l0.
  change (fun (m : list (Z * list TOASTChunk)) (c : TOASTChunk) => map_append m (ChunkID c) c) with step_group.
  set (vc := fold_left step_group (map mchunk cs) []).
  assert (G : forall id, map_get vc id = map mchunk (chunks_with cs id)).
  { intros id. unfold vc. rewrite group_get. cbn [map_get app]. apply filter_mchunk. }
  assert (C : forall id, cntf vc id = count_of cs id).
  { intros id. unfold cntf. rewrite G, map_length. reflexivity. }
  repeat match goal with |- context [fold_left ?f order (0, [], [])] =>
    lazymatch f with vstep vc => fail | _ => change f with (vstep vc) end end.
  destruct (vloop order vc 0 [] [] ltac:(lia)) as (H1 & H2 & H3).
  eexists. split; [reflexivity|]. cbn [ti_relid ti_total_chunks ti_unique ti_total_size ti_max ti_dist ti_values].
  split; [reflexivity|]. split; [rewrite map_length; reflexivity|].
  split.
  { (* number of keys = number of distinct ids *)
    f_equal. destruct (group_keys (map mchunk cs) [] (NoDup_nil _)) as [K1 K2]. fold vc in K1, K2.
    change (length vc) with (length vc). rewrite <- (map_length fst vc). fold (keys vc).
    apply Permutation_length. apply NoDup_Permutation; [exact K1|apply NoDup_nodup|].
    intros id. rewrite K2. unfold ids_of. rewrite nodup_In. cbn [keys map In]. rewrite map_map. cbn [mchunk ChunkID]. tauto. }
  split; [apply sum_sizes_spec|].
  split.
  { rewrite H1. unfold max_count. rewrite (max_perm _ _ _ P).
    rewrite (map_ext _ (count_of cs) C).
    assert (0 <= fold_right Z.max 0 (map (count_of cs) (ids_of cs))).
    { generalize (ids_of cs). induction l; cbn [map fold_right]; lia. }
    lia. }
  split.
  { intros k. rewrite H2. cbn [dist_get]. unfold values_with_count.
    rewrite (filter_ext _ (fun id => count_of cs id =? k)) by (intros; rewrite C; reflexivity).
    rewrite (Permutation_length (Permutation_filter' _ _ _ P)). lia. }
  rewrite H3. cbn [app]. apply map_ext. intros id. unfold expected_value, vinfo. rewrite C, G, sum_sizes_spec. reflexivity.
Qed.
