(* ReadVarlena / chunk extraction from tuple data / ReadTOASTTable on a TOAST relation file. *)
Require Import PG.Base.Bytes PG.Base.GoSlice PG.C08.Model PG.C08.Spec PG.C08.TableModel
               PG.C08.PointerProofs PG.C08.PglzProofs PG.C08.ReassembleProofs PG.C08.StatsProofs.
Require PG.C02.Model PG.C02.Spec PG.C02.Pure PG.C02.Refine PG.C02.SpecProofs.

(* ---------- ReadVarlena ---------- *)
Lemma ReadVarlena_enc f d more t : d <> [] -> vl_form_ok f d ->
  ReadVarlena {| vis := enc_varlena f d ++ more; tail := t |} = Ok (d, blen (enc_varlena f d)).
Proof.
  intros Hne Hf. assert (Hd : 1 <= blen d) by (destruct d; [congruence|bl; pose proof (blen_nonneg d); lia]).
  pose proof (blen_nonneg more) as Hm. pose proof (blen_nonneg t) as Ht.
  unfold ReadVarlena. destruct f; cbn [enc_varlena vl_form_ok] in *.
  - set (s := {| vis := (z2b ((blen d + 1) * 2 + 1) :: d) ++ more; tail := t |}).
    assert (L : len s = 1 + blen d + blen more) by (unfold len, s; cbn [vis]; bl; lia).
    destruct (len s =? 0) eqn:E; [lia|]. rewrite idx_ok by lia. cbn [bind].
    assert (B : byte_at (vis s) 0 = (blen d + 1) * 2 + 1).
    { unfold s; cbn [vis app]. rewrite byte_at_cons0. apply b2z_z2b_small. lia. }
    rewrite B.
    destruct ((((blen d + 1) * 2 + 1) mod 2 =? 1) && negb ((blen d + 1) * 2 + 1 =? 1)) eqn:E1; [|lia].
    replace (((blen d + 1) * 2 + 1) / 2) with (blen d + 1) by lia.
    destruct ((blen d + 1 <=? 1) || (len s <? blen d + 1)) eqn:E2; [lia|].
    unfold slice. pose proof (len_le_cap s).
    destruct ((0 <=? 1) && (1 <=? blen d + 1) && (blen d + 1 <=? cap s)) eqn:E3; [|lia]. cbn [bind vis].
    f_equal. f_equal; [|bl; lia]. unfold mem, s; cbn [vis tail app]. rewrite <- !app_assoc.
    match goal with |- sub (?x :: ?r) _ _ = _ => change (x :: r) with ([x] ++ r) end.
    apply sub_mid; bl; lia.
  - set (hv := (blen d + 4) * 4) in *.
    set (s := {| vis := (le_enc 4 hv ++ d) ++ more; tail := t |}).
    assert (L : len s = 4 + blen d + blen more) by (unfold len, s; cbn [vis]; bl; lia).
    destruct (len s =? 0) eqn:E; [lia|]. rewrite idx_ok by lia. cbn [bind].
    assert (B : byte_at (vis s) 0 = hv mod 256).
    { unfold s; cbn [vis app le_enc]. rewrite byte_at_cons0. apply b2z_z2b. }
    rewrite B.
    destruct ((hv mod 256 mod 2 =? 1) && negb (hv mod 256 =? 1)) eqn:E1; [unfold hv in *; lia|].
    destruct (hv mod 256 =? 1) eqn:E2; [unfold hv in *; lia|].
    destruct (len s <? 4) eqn:E3; [lia|].
    assert (U : u32 s 0 = Ok hv).
    { unfold u32. apply uN_sub; change (Z.of_nat 4) with 4; try (unfold hv; lia).
      unfold s; cbn [vis]. rewrite <- app_assoc. rewrite sub_app_l by (bl; lia). apply sub_exact; bl; lia. }
    rewrite U.
    cbn [bind]. replace (hv / 4) with (blen d + 4) by (unfold hv; lia).
    destruct ((blen d + 4 <? 4) || (len s <? blen d + 4)) eqn:E4; [lia|].
    unfold slice. pose proof (len_le_cap s).
    destruct ((0 <=? 4) && (4 <=? blen d + 4) && (blen d + 4 <=? cap s)) eqn:E5; [|lia]. cbn [bind vis].
    f_equal. f_equal; [|bl; lia]. unfold mem, s; cbn [vis tail]. rewrite <- !app_assoc. apply sub_mid; bl; lia.
Qed.

Lemma enc_varlena_len f d : blen (enc_varlena f d) = match f with VShort => 1 | VLong => 4 end + blen d.
Proof. destruct f; cbn [enc_varlena]; bl; lia. Qed.

(* ---------- one TOAST row ---------- *)
Lemma chunk_of_tuple_enc f c more t : wf_chunk c -> vl_form_ok f (ck_data c) ->
  chunk_of_tuple {| vis := enc_chunk_tuple f c ++ more; tail := t |} = Ok (Some (mchunk c)).
Proof.
  intros (Hid & Hseq & Hne) Hf.
  assert (Hd : 1 <= blen (ck_data c)).
  { destruct (ck_data c) as [|b0 l0]; [congruence|bl; pose proof (blen_nonneg l0); lia]. }
  pose proof (blen_nonneg more) as Hm.
  set (s := {| vis := enc_chunk_tuple f c ++ more; tail := t |}).
  assert (L : len s = 8 + blen (enc_varlena f (ck_data c)) + blen more).
  { unfold len, s, enc_chunk_tuple; cbn [vis]. bl. lia. }
  pose proof (enc_varlena_len f (ck_data c)) as Lv.
  assert (Lv1 : 1 <= blen (enc_varlena f (ck_data c))) by (rewrite Lv; destruct f; lia).
  unfold chunk_of_tuple. destruct (len s <? 8) eqn:E; [lia|].
  assert (U1 : u32 s 0 = Ok (ck_id c)).
  { unfold u32. apply uN_sub; change (Z.of_nat 4) with 4; try lia.
    unfold s, enc_chunk_tuple; cbn [vis]. ssub. }
  assert (W : 0 <= wrap 32 (ck_seq c) < 2 ^ 32) by (unfold wrap; apply Z.mod_pos_bound; lia).
  assert (U2 : i32 s 4 = Ok (ck_seq c)).
  { unfold i32, u32. rewrite (uN_sub 4 s 4 (wrap 32 (ck_seq c))); change (Z.of_nat 4) with 4; try lia.
    - cbn [bind]. f_equal. apply sint_wrap; lia.
    - unfold s, enc_chunk_tuple; cbn [vis]. ssub. }
  rewrite U1, U2. cbn [bind].
  change (go_align 8 4) with 8.
  destruct (8 <? len s) eqn:E2; [|lia].
  unfold slice_from. destruct ((0 <=? 8) && (8 <=? len s)) eqn:E3; [|lia]. cbn [bind].
  assert (V : sub (vis s) 8 (len s) = enc_varlena f (ck_data c) ++ more).
  { rewrite L. unfold s, enc_chunk_tuple; cbn [vis]. rewrite <- !app_assoc.
    rewrite sub_app_r by (bl; lia). rewrite sub_app_r by (bl; lia). bl. apply sub_exact; bl; lia. }
  rewrite V. cbn [tail]. rewrite ReadVarlena_enc by assumption. cbn [bind fst].
  destruct (blen (ck_data c) >? 0) eqn:E4; [|lia]. reflexivity.
Qed.

Lemma ReadVarlena_no_panic s : ReadVarlena s <> Panic.
Proof.
  unfold ReadVarlena. pose proof (len_nonneg s). pose proof (len_le_cap s).
  destruct (len s =? 0) eqn:E; [discriminate|]. rewrite idx_ok by lia. cbn [bind].
  pose proof (byte_at_range (vis s) 0) as Hb.
  destruct ((byte_at (vis s) 0 mod 2 =? 1) && negb (byte_at (vis s) 0 =? 1)) eqn:E1.
  - destruct ((byte_at (vis s) 0 / 2 <=? 1) || (len s <? byte_at (vis s) 0 / 2)) eqn:E2; [discriminate|].
    destruct (slice_ok s 1 (byte_at (vis s) 0 / 2)) as [r Hr]; try lia. rewrite Hr. discriminate.
  - destruct (byte_at (vis s) 0 =? 1); [discriminate|].
    destruct (len s <? 4) eqn:E3; [discriminate|].
    destruct (uN_ok 4 s 0) as [v Hv]; try (change (Z.of_nat 4) with 4; lia). unfold u32. rewrite Hv. cbn [bind].
    destruct ((v / 4 <? 4) || (len s <? v / 4)) eqn:E4; [discriminate|].
    destruct (slice_ok s 4 (v / 4)) as [r Hr]; try lia. rewrite Hr. discriminate.
Qed.

Lemma chunk_of_tuple_no_panic d : chunk_of_tuple d <> Panic.
Proof.
  unfold chunk_of_tuple. destruct (len d <? 8) eqn:E; [discriminate|].
  destruct (uN_ok 4 d 0) as [v Hv]; try (change (Z.of_nat 4) with 4; lia).
  destruct (uN_ok 4 d 4) as [w Hw]; try (change (Z.of_nat 4) with 4; lia).
  unfold i32, u32. rewrite Hv, Hw. cbn [bind]. change (go_align 8 4) with 8.
  destruct (8 <? len d) eqn:E2.
  - unfold slice_from. destruct ((0 <=? 8) && (8 <=? len d)) eqn:E3; [|lia]. cbn [bind].
    pose proof (ReadVarlena_no_panic {| vis := sub (vis d) 8 (len d); tail := tail d |}) as NP.
    destruct (ReadVarlena _) as [[x n]|]; [|congruence]. cbn [bind fst].
    destruct (blen x >? 0); discriminate.
  - cbn [bind]. destruct (blen [] >? 0); discriminate.
Qed.

Lemma chunks_of_tuples_no_panic : forall ts, chunks_of_tuples ts <> Panic.
Proof.
  induction ts as [|d ts IH]; cbn [chunks_of_tuples]; [discriminate|].
  pose proof (chunk_of_tuple_no_panic d). destruct (chunk_of_tuple d); [|congruence]. cbn [bind].
  destruct (chunks_of_tuples ts); [|congruence]. discriminate.
Qed.

Theorem ReadTOASTTable_no_panic s : ReadTOASTTable s <> Panic.
Proof.
  unfold ReadTOASTTable. pose proof (PG.C02.Refine.ReadTuples_no_panic s true).
  destruct (PG.C02.Model.ReadTuples s true); [|congruence]. cbn [bind]. apply chunks_of_tuples_no_panic.
Qed.

(* ---------- the whole relation file ---------- *)
Import PG.C02.Spec PG.C02.Pure.

Lemma p_file_loop_visible : forall fuel v off,
  p_file_loop fuel v true off = filter obs_visible (p_file_loop fuel v false off).
Proof.
  induction fuel as [|k IH]; intros v off; cbn [p_file_loop]; [reflexivity|].
  destruct (off + 8192 <=? blen v); [|reflexivity].
  rewrite filter_app, IH. f_equal. cbn [negb orb].
  rewrite (PG.C02.SpecProofs.filter_all (p_page (sub v off (off + 8192)) off)). reflexivity.
Qed.

(* rows: the (header form, chunk) pairs carried, in physical order, by the VISIBLE tuples of the file;
   tuples that are not visible (dead chunk versions, aborted inserts) may hold anything *)
Definition toast_rows_of (bs : list block) (rows : list (vl_form * chunk)) : Prop :=
  map o_data (filter obs_visible (expected_file bs 0)) = map (fun fc => enc_chunk_tuple (fst fc) (snd fc)) rows.
Definition row_ok (fc : vl_form * chunk) : Prop := wf_chunk (snd fc) /\ vl_form_ok (fst fc) (ck_data (snd fc)).

Lemma chunks_of_tuples_rows : forall (rows : list (vl_form * chunk)) (ts : list gslice),
  Forall row_ok rows -> map vis ts = map (fun fc => enc_chunk_tuple (fst fc) (snd fc)) rows ->
  chunks_of_tuples ts = Ok (map (fun fc => mchunk (snd fc)) rows).
Proof.
  induction rows as [|[f c] rows IH]; intros ts F E.
  - destruct ts; [reflexivity|discriminate].
  - destruct ts as [|d ts]; [discriminate|]. cbn [map fst snd] in *. injection E as E1 E2.
    inversion F as [|? ? [R1 R2] F']; subst. cbn [fst snd] in *.
    cbn [chunks_of_tuples]. destruct d as [dv dt]. cbn [vis] in E1. subst dv.
    rewrite <- (app_nil_r (enc_chunk_tuple f c)). rewrite chunk_of_tuple_enc by assumption. cbn [bind].
    rewrite (IH ts F' E2). reflexivity.
Qed.

Theorem ReadTOASTTable_file bs tl ct rows :
  Forall wf_block bs -> blen tl < 8192 -> toast_rows_of bs rows -> Forall row_ok rows ->
  ReadTOASTTable {| vis := enc_file bs tl; tail := ct |} = Ok (map (fun fc => mchunk (snd fc)) rows).
Proof.
  intros WB Htl TR RO. unfold ReadTOASTTable.
  destruct (PG.C02.Refine.ReadTuples_refines {| vis := enc_file bs tl; tail := ct |} true) as (l & H1 & H2).
  rewrite H1. cbn [bind]. apply chunks_of_tuples_rows; [exact RO|].
  rewrite map_map. cbn [vis] in H2. unfold toast_rows_of in TR. rewrite <- TR.
  unfold p_file in H2. rewrite p_file_loop_visible in H2. fold (p_file (enc_file bs tl) false) in H2.
  rewrite PG.C02.SpecProofs.p_file_enc in H2 by assumption. rewrite <- H2, map_map. reflexivity.
Qed.
