(* ReadTOASTTable / LoadTOASTTable / GetTOASTVerboseInfo on heap-file bytes: the heap page scan
   (ReadTuples, property C02) is the model of coq/C02, not re-modelled here. *)
Require Import PG.Base.Bytes PG.Base.GoSlice PG.C08.Model.
Require PG.C02.Model.

(* toast.go:102-138 *)
Definition ReadTOASTTable (s : gslice) : res (list TOASTChunk) :=
  es <- PG.C02.Model.ReadTuples s true ;;
  chunks_of_tuples (map (fun e => PG.C02.Model.t_data (PG.C02.Model.e_tuple e)) es).

(* toast.go:343-345 *)
Definition LoadTOASTTable (r : reader) (toastRelID : Z) (s : gslice) : res reader :=
  cs <- ReadTOASTTable s ;; Ok (LoadChunks r toastRelID cs).

(* toast.go:430-481; [order] = Go's iteration order over the valueChunks map *)
Definition GetTOASTVerboseInfo (toastRelID : Z) (s : gslice) (order : list Z) : res (option TOASTVerboseInfo) :=
  cs <- ReadTOASTTable s ;; Ok (verbose_info_of_chunks toastRelID cs order).

(* the keys of valueChunks in first-appearance order (what the driver passes as [order]) *)
Definition first_seen_ids (cs : list TOASTChunk) : list Z :=
  map fst (fold_left (fun m c => map_append m (ChunkID c) c) cs []).
