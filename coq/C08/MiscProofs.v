(* Classification of ALL byte strings by ParseTOASTPointer / IsTOASTPointer; no-panic of the composite
   functions; the known finding on IsTOASTPointer. *)
Require Import PG.Base.Bytes PG.Base.GoSlice PG.C08.Model PG.C08.Spec PG.C08.CopyProofs
               PG.C08.PointerProofs PG.C08.PglzProofs PG.C08.SafetyProofs.

Definition field32 (s : gslice) (off : Z) : Z := le_dec (sub (vis s) off (off + 4)).

Lemma parse_pointer_classify s :
  (len s < 18 \/ byte_at (vis s) 0 <> 1 -> ParseTOASTPointer s = Ok None) /\
  (18 <= len s -> byte_at (vis s) 0 = 1 ->
   ParseTOASTPointer s = Ok (Some {| RawSize := field32 s 2; ExtSize := field32 s 6 mod 2 ^ 30;
                                     ValueID := field32 s 10; ToastRelID := field32 s 14;
                                     IsCompressed := field32 s 6 mod 2 ^ 30 + 4 <? field32 s 2;
                                     CompressionMethod := field32 s 6 / 2 ^ 30 |})).
Proof.
  unfold ParseTOASTPointer. split.
  - intros [H|H].
    + destruct (len s <? 18) eqn:E; [reflexivity|lia].
    + destruct (len s <? 18) eqn:E; [reflexivity|]. rewrite idx_ok by lia. cbn [bind].
      destruct (byte_at (vis s) 0 =? 1) eqn:E1; [lia|]. reflexivity.
  - intros H1 H2. destruct (len s <? 18) eqn:E; [lia|]. rewrite idx_ok by lia. cbn [bind].
    rewrite H2. cbn [Z.eqb Pos.eqb negb].
    rewrite !u32_at_val by lia. cbn [bind]. reflexivity.
Qed.

Lemma parse_pointer_no_panic s : ParseTOASTPointer s <> Panic.
Proof.
  destruct (parse_pointer_classify s) as [A B].
  destruct (Z_lt_ge_dec (len s) 18); [rewrite A by auto; discriminate|].
  destruct (Z.eq_dec (byte_at (vis s) 0) 1); [rewrite B by lia; discriminate|rewrite A by auto; discriminate].
Qed.

Lemma is_pointer_classify s :
  IsTOASTPointer s = Ok ((2 <=? len s) && ((byte_at (vis s) 0 =? 1) || (byte_at (vis s) 0 =? 2))).
Proof.
  unfold IsTOASTPointer. destruct (len s <? 2) eqn:E.
  - destruct (2 <=? len s) eqn:E2; [lia|]. reflexivity.
  - destruct (2 <=? len s) eqn:E2; [|lia]. rewrite idx_ok by lia. reflexivity.
Qed.

Lemma byte_at_hd b d : byte_at (b :: d) 0 = b2z b. Proof. reflexivity. Qed.

(* on every datum of at least two bytes outside the known-finding class the verdict is PostgreSQL's *)
Lemma is_pointer_partial d t : 2 <= blen d -> kf_istoast d = false ->
  IsTOASTPointer {| vis := d; tail := t |} = Ok (datum_is_external d).
Proof.
  intros L K. rewrite is_pointer_classify. unfold len. cbn [vis].
  destruct (2 <=? blen d) eqn:E; [|lia]. cbn [andb].
  destruct d as [|b [|b2 d]]; autorewrite with blen in L; try lia.
  cbn [kf_istoast datum_is_external] in *. rewrite byte_at_hd, K. rewrite orb_false_r. reflexivity.
Qed.
Lemma is_pointer_refuted :
  exists d, 2 <= blen d /\ kf_istoast d = true /\
            IsTOASTPointer (exact d) = Ok true /\ datum_is_external d = false.
Proof. exists [x02; x00]. vm_compute. repeat split; congruence. Qed.
(* every stored pointer is recognised *)
Lemma is_pointer_enc p rest t : IsTOASTPointer {| vis := enc_ptr p ++ rest; tail := t |} = Ok true.
Proof.
  rewrite is_pointer_classify. unfold len. cbn [vis]. bl. pose proof (blen_nonneg rest).
  destruct (2 <=? 18 + blen rest) eqn:E; [|lia]. reflexivity.
Qed.

Section NoPanic.
Variable zlib_inflate : bytes -> option bytes.

Lemma reassemble_no_panic chunks id ptr : ReassembleTOAST zlib_inflate chunks id ptr <> Panic.
Proof.
  unfold ReassembleTOAST.
  destruct (filter _ chunks) as [|c vc]; [discriminate|].
  set (data := concat (map Data (sort_chunks (c :: vc)))).
  destruct ptr as [p|]; [|discriminate].
  destruct (IsCompressed p && (blen data >? 4)) eqn:E; [|discriminate].
  unfold slice_from, exact, len. cbn [vis tail].
  destruct ((0 <=? 4) && (4 <=? blen data)) eqn:E2; [|lia]. cbn [bind].
  set (stream := {| vis := sub data 4 (blen data); tail := [] |}).
  assert (HZ : (match zlib_inflate data with Some out => Ok out | None => Ok data end) <> Panic)
    by (destruct (zlib_inflate data); discriminate).
  assert (HP : (d <- decompressPGLZ stream (RawSize p - 4) ;;
                match d with
                | DOk out => match out with [] => match zlib_inflate data with Some out => Ok out | None => Ok data end | _ => Ok out end
                | _ => match zlib_inflate data with Some out => Ok out | None => Ok data end
                end) <> Panic).
  { destruct (decompressPGLZ_total stream (RawSize p - 4)) as [[_ ->]|[_ (out & -> & _)]]; cbn [bind]; [exact HZ|].
    destruct out; [exact HZ|discriminate]. }
  destruct (CompressionMethod p =? ToastCompressionLZ4); cbn [bind]; [|exact HP].
  destruct (decompressLZ4_total stream (RawSize p - 4)) as [[_ ->]|[_ (d & -> & _ & _)]]; cbn [bind]; [exact HP|].
  destruct d; [discriminate|exact HP|exact HP].
Qed.

Lemma read_value_no_panic st s : ReadValue zlib_inflate st s <> Panic.
Proof.
  unfold ReadValue. pose proof (parse_pointer_no_panic s) as NP.
  destruct (ParseTOASTPointer s) as [[p|]|]; cbn [bind]; [|discriminate|congruence].
  destruct (reader_get st (ToastRelID p)); [apply reassemble_no_panic|discriminate].
Qed.
End NoPanic.
