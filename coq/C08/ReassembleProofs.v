(* ReassembleTOAST: any physical order, foreign chunks, plain / pglz / LZ4 payloads; ReadValue. *)
Require Import PG.Base.Bytes PG.Base.GoSlice PG.C08.Model PG.C08.Spec PG.C08.CopyProofs
               PG.C08.PointerProofs PG.C08.PglzProofs PG.C08.Lz4Proofs.
From Coq Require Import Permutation.

Definition mchunk (c : chunk) : TOASTChunk := {| ChunkID := ck_id c; ChunkSeq := ck_seq c; Data := ck_data c |}.

(* ---------- insertion sort ---------- *)
Lemma insert_comm : forall s x y, ChunkSeq x <> ChunkSeq y ->
  insert_chunk x (insert_chunk y s) = insert_chunk y (insert_chunk x s).
Proof.
  induction s as [|a r IH]; intros x y Hne; cbn [insert_chunk].
  - destruct (ChunkSeq y <? ChunkSeq x) eqn:E1, (ChunkSeq x <? ChunkSeq y) eqn:E2; try reflexivity; lia.
  - destruct (ChunkSeq a <? ChunkSeq y) eqn:Ey, (ChunkSeq a <? ChunkSeq x) eqn:Ex; cbn [insert_chunk]; rewrite ?Ey, ?Ex.
    + f_equal. apply IH, Hne.
    + destruct (ChunkSeq x <? ChunkSeq y) eqn:E; [|lia]. reflexivity.
    + destruct (ChunkSeq y <? ChunkSeq x) eqn:E; [|lia]. reflexivity.
    + destruct (ChunkSeq y <? ChunkSeq x) eqn:E1, (ChunkSeq x <? ChunkSeq y) eqn:E2; try lia;
        cbn [insert_chunk]; rewrite ?Ey, ?Ex; reflexivity.
Qed.

Lemma sort_perm : forall l l', Permutation l l' -> NoDup (map ChunkSeq l) -> sort_chunks l = sort_chunks l'.
Proof.
  induction 1 as [|x l l' P IH|x y l|l l' l'' P1 IH1 P2 IH2]; intros ND.
  - reflexivity.
  - cbn [sort_chunks fold_right] in *. fold (sort_chunks l) (sort_chunks l'). rewrite IH; [reflexivity|].
    cbn [map] in ND. inversion ND; assumption.
  - cbn [sort_chunks fold_right]. fold (sort_chunks l). apply insert_comm.
    cbn [map] in ND. inversion ND as [|? ? Hin _]. intros E. apply Hin. left. congruence.
  - rewrite IH1 by exact ND. apply IH2.
    eapply Permutation_NoDup; [|exact ND]. apply Permutation_map. exact P1.
Qed.

Lemma Permutation_filter' {A} (f : A -> bool) l l' : Permutation l l' -> Permutation (filter f l) (filter f l').
Proof.
  induction 1 as [|x l l' P IH|x y l|l l' l'' P1 IH1 P2 IH2]; cbn [filter].
  - constructor.
  - destruct (f x); [constructor|]; exact IH.
  - destruct (f x), (f y); try apply Permutation_refl. constructor.
  - eapply Permutation_trans; eassumption.
Qed.

(* ---------- the chunks of one value ---------- *)
Lemma chunks_from_id : forall fuel id size s p, Forall (fun c => ck_id c = id) (chunks_from fuel id size s p).
Proof.
  induction fuel as [|f IH]; intros; cbn [chunks_from]; [constructor|].
  destruct p; [constructor|]. constructor; [reflexivity|apply IH].
Qed.
Lemma chunks_from_seq_ge : forall fuel id size s p, Forall (fun c => s <= ck_seq c) (chunks_from fuel id size s p).
Proof.
  induction fuel as [|f IH]; intros; cbn [chunks_from]; [constructor|].
  destruct p; [constructor|]. constructor; [cbn; lia|].
  eapply Forall_impl; [|apply IH]. cbn. intros. lia.
Qed.
Lemma chunks_from_nodup : forall fuel id size s p, NoDup (map ChunkSeq (map mchunk (chunks_from fuel id size s p))).
Proof.
  induction fuel as [|f IH]; intros; cbn [chunks_from]; [constructor|].
  destruct p as [|b p]; [constructor|]. cbn [map mchunk ChunkSeq ck_seq]. constructor; [|apply IH].
  intros Hin. rewrite map_map in Hin. apply in_map_iff in Hin. destruct Hin as (c & E & Hc).
  pose proof (chunks_from_seq_ge f id size (s + 1) (skipn size (b :: p))) as G.
  rewrite Forall_forall in G. specialize (G c Hc). cbn in E. lia.
Qed.
Lemma chunks_from_sorted : forall fuel id size s p,
  sort_chunks (map mchunk (chunks_from fuel id size s p)) = map mchunk (chunks_from fuel id size s p).
Proof.
  induction fuel as [|f IH]; intros; cbn [chunks_from]; [reflexivity|].
  destruct p as [|b p]; [reflexivity|]. cbn [map sort_chunks fold_right].
  fold (sort_chunks (map mchunk (chunks_from f id size (s + 1) (skipn size (b :: p))))). rewrite IH.
  pose proof (chunks_from_seq_ge f id size (s + 1) (skipn size (b :: p))) as G.
  destruct (chunks_from f id size (s + 1) (skipn size (b :: p))) as [|c r]; [reflexivity|].
  inversion G as [|? ? Hc _]; subst. cbn [map insert_chunk mchunk ChunkSeq ck_seq].
  destruct (ck_seq c <? s) eqn:E; [lia|]. reflexivity.
Qed.
Lemma chunks_from_concat : forall fuel id size s p, (0 < size)%nat -> (length p <= fuel)%nat ->
  concat (map Data (map mchunk (chunks_from fuel id size s p))) = p.
Proof.
  induction fuel as [|f IH]; intros id size s p Hs Hf; cbn [chunks_from].
  - destruct p; [reflexivity|cbn [length] in Hf; lia].
  - destruct p as [|b p]; [reflexivity|]. cbn [map concat mchunk Data ck_data].
    rewrite IH; [apply firstn_skipn|exact Hs|].
    rewrite skipn_length. cbn [length] in *. lia.
Qed.
Lemma chunks_from_nil : forall fuel id size s p, p <> [] -> (0 < fuel)%nat -> chunks_from fuel id size s p <> [].
Proof. intros [|f] id size s [|b p] H1 H2; try congruence; try lia. cbn [chunks_from]. discriminate. Qed.

Lemma filter_all {A} (f : A -> bool) l : Forall (fun x => f x = true) l -> filter f l = l.
Proof. induction 1; cbn [filter]; [reflexivity|]. rewrite H. f_equal. assumption. Qed.
Lemma filter_none {A} (f : A -> bool) l : Forall (fun x => f x = false) l -> filter f l = [].
Proof. induction 1; cbn [filter]; [reflexivity|]. rewrite H. assumption. Qed.

Definition value_chunks (rel : list chunk) (id : Z) : list TOASTChunk :=
  filter (fun c => ChunkID c =? id) (map mchunk rel).

Lemma value_chunks_perm rel id size payload :
  stored_as rel id size payload -> Permutation (value_chunks rel id) (map mchunk (chunks_of id size payload)).
Proof.
  intros (foreign & Hf & P). unfold value_chunks.
  eapply Permutation_trans; [apply Permutation_filter', Permutation_map, P|].
  rewrite map_app, filter_app. rewrite (filter_none _ (map mchunk foreign)).
  - rewrite app_nil_r. rewrite filter_all; [apply Permutation_refl|].
    apply Forall_forall. intros c Hc. apply in_map_iff in Hc. destruct Hc as (c0 & <- & Hc0).
    pose proof (chunks_from_id (length payload) id size 0 payload) as G. rewrite Forall_forall in G.
    cbn. rewrite (G c0 Hc0). apply Z.eqb_refl.
  - apply Forall_forall. intros c Hc. apply in_map_iff in Hc. destruct Hc as (c0 & <- & Hc0).
    rewrite Forall_forall in Hf. specialize (Hf c0 Hc0). cbn. apply Z.eqb_neq. exact Hf.
Qed.

Lemma reassemble_data rel id size payload :
  stored_as rel id size payload -> (0 < size)%nat ->
  (payload = [] -> value_chunks rel id = []) /\
  (payload <> [] -> value_chunks rel id <> [] /\ concat (map Data (sort_chunks (value_chunks rel id))) = payload).
Proof.
  intros St Hs. pose proof (value_chunks_perm _ _ _ _ St) as P. split.
  - intros ->. unfold chunks_of in P. cbn in P. apply Permutation_sym, Permutation_nil in P. exact P.
  - intros Hne. split.
    + intros E. rewrite E in P. apply Permutation_nil in P.
      apply map_eq_nil in P. revert P. apply chunks_from_nil; [exact Hne|].
      destruct payload; [congruence|cbn; lia].
    + rewrite (sort_perm _ _ P).
      * unfold chunks_of. rewrite chunks_from_sorted. apply chunks_from_concat; [exact Hs|lia].
      * eapply Permutation_NoDup; [apply Permutation_map, Permutation_sym, P|]. apply chunks_from_nodup.
Qed.

Section WithZlib.
Variable zlib_inflate : bytes -> option bytes.

(* no pointer, or a pointer that does not claim compression: the stored payload comes back *)
Theorem reassemble_plain rel id size payload ptr :
  stored_as rel id size payload -> (0 < size)%nat ->
  match ptr with None => True | Some p => IsCompressed p = false end ->
  ReassembleTOAST zlib_inflate (map mchunk rel) id ptr = Ok payload.
Proof.
  intros St Hs Hp. destruct (reassemble_data _ _ _ _ St Hs) as [H0 H1].
  unfold ReassembleTOAST. fold (value_chunks rel id).
  destruct payload as [|b payload].
  - rewrite H0 by reflexivity. reflexivity.
  - destruct (H1 ltac:(discriminate)) as [Hne Hd].
    destruct (value_chunks rel id) as [|c vc] eqn:E; [congruence|]. rewrite Hd.
    destruct ptr as [p|]; [|reflexivity]. rewrite Hp. reflexivity.
Qed.

Lemma stream_slice tc stream :
  slice_from (exact (le_enc 4 tc ++ stream)) 4 = Ok {| vis := stream; tail := [] |}.
Proof.
  unfold slice_from, exact, len. cbn [vis tail]. bl.
  pose proof (blen_nonneg stream). change (Z.of_nat 4) with 4.
  destruct ((0 <=? 4) && (4 <=? 4 + blen stream)) eqn:E; [|lia]. do 2 f_equal.
  rewrite sub_app_r by (bl; lia). bl. apply sub_exact; lia.
Qed.

Theorem reassemble_pglz rel id size raw stream tcm p :
  stored_as rel id size (compressed_payload (blen raw) tcm stream) -> (0 < size)%nat ->
  pglz_denotes stream raw -> raw <> [] ->
  IsCompressed p = true -> RawSize p = blen raw + 4 -> CompressionMethod p <> ToastCompressionLZ4 ->
  ReassembleTOAST zlib_inflate (map mchunk rel) id (Some p) = Ok raw.
Proof.
  intros St Hs Hd Hne Hc Hr Hm. destruct (reassemble_data _ _ _ _ St Hs) as [_ H1].
  assert (Hs1 : 1 <= blen stream).
  { destruct Hd as (gs & G & OK & -> & ->). assert (gs <> []) by (intros ->; apply Hne; reflexivity).
    pose proof (enc_pgroups_length gs). destruct gs; [congruence|]. cbn [length] in *. unfold blen. lia. }
  unfold compressed_payload in *.
  destruct (H1 ltac:(intros E; apply (f_equal blen) in E; revert E; bl; change (blen []) with 0; lia)) as [Hv Hdat].
  unfold ReassembleTOAST. fold (value_chunks rel id).
  destruct (value_chunks rel id) as [|c vc] eqn:E; [congruence|]. rewrite Hdat, Hc.
  destruct (blen (le_enc 4 (blen raw + tcm * 2 ^ 30) ++ stream) >? 4) eqn:E4; [|revert E4; bl; lia]. cbn [andb].
  rewrite stream_slice. cbn [bind].
  destruct (CompressionMethod p =? ToastCompressionLZ4) eqn:EM; [lia|]. cbn [bind].
  rewrite Hr. replace (blen raw + 4 - 4) with (blen raw) by lia.
  rewrite (decompressPGLZ_denotes _ _ _ Hd Hne). cbn [bind].
  destruct raw; [congruence|reflexivity].
Qed.

Theorem reassemble_lz4 rel id size raw stream tcm p :
  stored_as rel id size (compressed_payload (blen raw) tcm stream) -> (0 < size)%nat ->
  lz4_denotes stream raw ->
  IsCompressed p = true -> RawSize p = blen raw + 4 -> CompressionMethod p = ToastCompressionLZ4 ->
  ReassembleTOAST zlib_inflate (map mchunk rel) id (Some p) = Ok raw.
Proof.
  intros St Hs Hd Hc Hr Hm. destruct (reassemble_data _ _ _ _ St Hs) as [_ H1].
  assert (Hs1 : 1 <= blen stream).
  { destruct Hd as (seqs & last & OK & -> & _). unfold enc_lz4block, enc_lz4last. bl.
    pose proof (blen_nonneg (concat (map enc_lz4seq seqs))). pose proof (blen_nonneg (lz4_lenbytes (blen last))).
    pose proof (blen_nonneg last). lia. }
  unfold compressed_payload in *.
  destruct (H1 ltac:(intros E; apply (f_equal blen) in E; revert E; bl; change (blen []) with 0; lia)) as [Hv Hdat].
  unfold ReassembleTOAST. fold (value_chunks rel id).
  destruct (value_chunks rel id) as [|c vc] eqn:E; [congruence|]. rewrite Hdat, Hc.
  destruct (blen (le_enc 4 (blen raw + tcm * 2 ^ 30) ++ stream) >? 4) eqn:E4; [|revert E4; bl; lia]. cbn [andb].
  rewrite stream_slice. cbn [bind].
  rewrite Hm, Z.eqb_refl.
  rewrite Hr. replace (blen raw + 4 - 4) with (blen raw) by lia.
  rewrite (decompressLZ4_denotes _ _ _ Hd). cbn [bind]. reflexivity.
Qed.
End WithZlib.

(* ---------- TOASTReader.ReadValue: from the 18 pointer bytes to the value ---------- *)
Section ReadValueThm.
Variable zlib_inflate : bytes -> option bytes.

Lemma reader_get_load st k v : reader_get (LoadChunks st k v) k = Some v.
Proof. unfold LoadChunks. cbn [reader_get]. rewrite Z.eqb_refl. reflexivity. Qed.

Lemma read_value_unfold st p rel rest t :
  wf_ptr p ->
  ReadValue zlib_inflate (LoadChunks st (tp_toastrelid p) rel) {| vis := enc_ptr p ++ rest; tail := t |} =
  ReassembleTOAST zlib_inflate rel (tp_valueid p) (Some (expected_ptr p)).
Proof.
  intros W. unfold ReadValue. rewrite parse_pointer_roundtrip by exact W. cbn [bind].
  cbn [expected_ptr ToastRelID ValueID]. rewrite reader_get_load. reflexivity.
Qed.

Theorem read_value_plain st p rel size payload rest t :
  wf_ptr p -> stored_as rel (tp_valueid p) size payload -> (0 < size)%nat ->
  ptr_is_compressed p = false ->
  ReadValue zlib_inflate (LoadChunks st (tp_toastrelid p) (map mchunk rel)) {| vis := enc_ptr p ++ rest; tail := t |}
  = Ok payload.
Proof.
  intros W St Hs Hc. rewrite read_value_unfold by exact W.
  apply (reassemble_plain zlib_inflate _ _ size); auto.
Qed.

Theorem read_value_compressed st p rel size raw stream rest t :
  wf_ptr p -> (0 < size)%nat ->
  stored_as rel (tp_valueid p) size (compressed_payload (blen raw) (tp_method p) stream) ->
  tp_rawsize p = blen raw + 4 -> ptr_is_compressed p = true -> raw <> [] ->
  (tp_method p = 0 /\ pglz_denotes stream raw \/ tp_method p = 1 /\ lz4_denotes stream raw) ->
  ReadValue zlib_inflate (LoadChunks st (tp_toastrelid p) (map mchunk rel)) {| vis := enc_ptr p ++ rest; tail := t |}
  = Ok raw.
Proof.
  intros W Hs St Hr Hc Hne [[Hm Hd]|[Hm Hd]]; rewrite read_value_unfold by exact W.
  - apply (reassemble_pglz zlib_inflate _ _ size raw stream (tp_method p)); auto.
    cbn [expected_ptr CompressionMethod]. unfold ToastCompressionLZ4. lia.
  - apply (reassemble_lz4 zlib_inflate _ _ size raw stream (tp_method p)); auto.
Qed.
End ReadValueThm.
