(* For ALL byte strings and ALL raw sizes: the decompressors do not panic, do not run out of the
   model's fuel, and their output is bounded. *)
Require Import PG.Base.Bytes PG.Base.GoSlice PG.C08.Model PG.C08.CopyProofs PG.C08.PglzProofs.

Lemma copy_loop_safe : forall n i start offset rawSize r,
  0 <= start -> 0 < offset -> start + offset <= bn r -> 0 <= i -> rb_wf r ->
  exists r', copy_loop n i start offset rawSize r = Ok r' /\ bn r <= bn r' /\ bn r' <= Z.max (bn r) rawSize /\
             bn r' <= bn r + Z.of_nat n /\ rb_wf r'.
Proof.
  induction n as [|n IH]; intros i start offset rawSize r Hs Ho Hb Hi W; cbn [copy_loop].
  - exists r. split; [reflexivity|]. repeat split; auto; lia.
  - destruct (bn r <? rawSize) eqn:E; [|exists r; split; [reflexivity|repeat split; auto; lia]].
    assert (0 <= i mod offset < offset) by (apply Z.mod_pos_bound; lia).
    unfold rb_idx. destruct ((0 <=? start + i mod offset) && (start + i mod offset <? bn r)) eqn:E2; [|lia].
    cbn [bind].
    destruct (IH (i + 1) start offset rawSize (rb_push r (nth (Z.to_nat (bn r - 1 - (start + i mod offset))) (rb r) x00)))
      as (r' & H1 & H2 & H3 & H4 & H5); try lia; try (cbn [rb_push bn]; lia); [apply rb_push_wf, W|].
    exists r'. split; [exact H1|]. cbn [rb_push bn] in *. repeat split; auto; lia.
Qed.

Ltac fin3 := do 3 eexists; split; [reflexivity|]; repeat split; auto; autorewrite with blen in *; lia.

Lemma pglz_bits_safe : forall nb bit dlen rawSize ctrl pos rest r,
  0 <= pos -> pos + blen rest = dlen -> 0 <= bn r -> rb_wf r ->
  exists pos' rest' r', pglz_bits nb bit dlen rawSize ctrl pos rest r = Ok (pos', rest', r') /\
    pos <= pos' /\ pos' + blen rest' = dlen /\ bn r <= bn r' /\ bn r' <= Z.max (bn r) rawSize /\ rb_wf r'.
Proof.
  induction nb as [|k IH]; intros bit dlen rawSize ctrl pos rest r Hp Hd Hb W; cbn [pglz_bits]; [fin3|].
  destruct ((pos <? dlen) && (bn r <? rawSize)) eqn:E; [|fin3].
  destruct (Z.odd (ctrl / 2 ^ bit)).
  - destruct (pos + 1 >=? dlen) eqn:E1; [fin3|].
    destruct rest as [|b1 [|b2 rest2]]; autorewrite with blen in Hd; try lia.
    cbn [rdz rd nth_error bind skipn]. cbv zeta.
    pose proof (b2z_range b1). pose proof (b2z_range b2).
    set (offset := b2z b1 / 16 * 256 + b2z b2).
    assert (Hoff : 0 <= offset) by (unfold offset; lia).
    assert (Step : forall pos2 rest3 length, pos <= pos2 -> pos2 + blen rest3 = dlen ->
      exists pos' rest' r',
        (if (offset =? 0) || (offset >? bn r) then pglz_bits k (bit + 1) dlen rawSize ctrl pos2 rest3 r
         else r' <- copy_loop (Z.to_nat length) 0 (bn r - offset) offset rawSize r ;;
              pglz_bits k (bit + 1) dlen rawSize ctrl pos2 rest3 r') = Ok (pos', rest', r') /\
        pos <= pos' /\ pos' + blen rest' = dlen /\ bn r <= bn r' /\ bn r' <= Z.max (bn r) rawSize /\ rb_wf r').
    { intros pos2 rest3 length Hp2 Hd2.
      destruct ((offset =? 0) || (offset >? bn r)) eqn:E2.
      - destruct (IH (bit + 1) dlen rawSize ctrl pos2 rest3 r) as (p' & q' & r' & H1 & H2 & H3 & H4 & H5 & H6); try lia; auto.
        exists p', q', r'. split; [exact H1|]. repeat split; auto; lia.
      - destruct (copy_loop_safe (Z.to_nat length) 0 (bn r - offset) offset rawSize r) as (rc & C1 & C2 & C3 & C4 & C5); try lia; auto.
        rewrite C1. cbn [bind].
        destruct (IH (bit + 1) dlen rawSize ctrl pos2 rest3 rc) as (p' & q' & r' & H1 & H2 & H3 & H4 & H5 & H6); try lia; auto.
        exists p', q', r'. split; [exact H1|]. repeat split; auto; lia. }
    destruct (b2z b1 mod 16 + 3 =? 18) eqn:E18.
    + destruct (pos + 2 >=? dlen) eqn:E2; [fin3|].
      destruct rest2 as [|e rest3]; autorewrite with blen in Hd; try lia.
      cbn [nth_error bind skipn]. apply Step; autorewrite with blen; lia.
    + apply Step; autorewrite with blen; lia.
  - destruct rest as [|b rest1]; autorewrite with blen in Hd; try lia.
    cbn [rd nth_error bind skipn].
    destruct (IH (bit + 1) dlen rawSize ctrl (pos + 1) rest1 (rb_push r b)) as (p' & q' & r' & H1 & H2 & H3 & H4 & H5 & H6);
      try lia; try (cbn [rb_push bn]; lia); [apply rb_push_wf, W|].
    exists p', q', r'. split; [exact H1|]. cbn [rb_push bn] in *. repeat split; auto; lia.
Qed.

Lemma pglz_loop_safe : forall fuel dlen rawSize pos rest r,
  0 <= pos -> pos + blen rest = dlen -> 0 <= bn r -> dlen - pos < Z.of_nat fuel -> rb_wf r ->
  exists r', pglz_loop fuel dlen rawSize pos rest r = Ok (Some r') /\ bn r <= bn r' /\ bn r' <= Z.max (bn r) rawSize /\ rb_wf r'.
Proof.
  induction fuel as [|f IH]; intros dlen rawSize pos rest r Hp Hd Hb Hf W.
  - pose proof (blen_nonneg rest). lia.
  - cbn [pglz_loop]. destruct ((pos <? dlen) && (bn r <? rawSize)) eqn:E; [|exists r; split; [reflexivity|repeat split; auto; lia]].
    destruct rest as [|c rest1]; autorewrite with blen in Hd; try lia.
    cbn [rdz rd nth_error bind skipn].
    destruct (pglz_bits_safe 8 0 dlen rawSize (b2z c) (pos + 1) rest1 r) as (p' & q' & r1 & H1 & H2 & H3 & H4 & H5 & H6); try lia; auto.
    rewrite H1. cbn [bind fst snd].
    destruct (IH dlen rawSize p' q' r1) as (r' & L1 & L2 & L3 & L4); try lia; auto.
    exists r'. split; [exact L1|]. repeat split; auto; lia.
Qed.

Theorem decompressPGLZ_total (data : gslice) (rawSize : Z) :
  (len data < 1 /\ decompressPGLZ data rawSize = Ok (DErr ETooShort)) \/
  (1 <= len data /\ exists out, decompressPGLZ data rawSize = Ok (DOk out) /\ blen out <= Z.max 0 rawSize).
Proof.
  unfold decompressPGLZ. destruct (len data <? 1) eqn:E; [left; split; [lia|reflexivity]|].
  right. split; [lia|].
  pose proof (decompressCap_nonneg rawSize (len data) ltac:(lia)).
  unfold go_make0. destruct (decompressCap rawSize (len data) <? 0) eqn:E2; [lia|]. cbn [bind].
  destruct (pglz_loop_safe (S (length (vis data))) (len data) rawSize 0 (vis data) rb_empty) as (r' & H1 & H2 & H3 & H4);
    try (unfold len, blen in *; cbn [rb_empty bn]; lia); [apply rb_empty_wf|].
  rewrite H1. cbn [bind]. eexists. split; [reflexivity|].
  rewrite rb_bytes_fwd, (fwd_len _ H4). cbn [rb_empty bn] in H3. lia.
Qed.

(* ---------------- LZ4 ---------------- *)
Lemma ext_loop_safe : forall rest pos n dlen p' q' n',
  pos + blen rest = dlen -> ext_loop rest pos n = (p', q', n') ->
  pos <= p' /\ p' + blen q' = dlen /\ n <= n'.
Proof.
  induction rest as [|b rest IH]; intros pos n dlen p' q' n' Hd; cbn [ext_loop].
  - intros [= <- <- <-]. lia.
  - autorewrite with blen in Hd. pose proof (b2z_range b).
    destruct (b2z b =? 255) eqn:E.
    + intros H1. apply (IH _ _ dlen) in H1; lia.
    + intros [= <- <- <-]. lia.
Qed.

Lemma take_n_safe : forall n (rest : bytes), (n <= length rest)%nat ->
  exists l, take_n n rest = Ok l /\ length l = n.
Proof.
  induction n as [|n IH]; intros rest H; cbn [take_n]; [exists []; auto|].
  destruct rest as [|b t]; [cbn [length] in H; lia|]. cbn [length] in H.
  destruct (IH t ltac:(lia)) as (l & -> & L). cbn [bind]. exists (b :: l). cbn [length]. auto.
Qed.

Lemma blen_skipn_le (l : bytes) n : (n <= length l)%nat -> blen (skipn n l) = blen l - Z.of_nat n.
Proof. intros. unfold blen. rewrite skipn_length. lia. Qed.

Lemma lz4_loop_safe : forall fuel dlen rawSize pos rest r,
  0 <= pos -> pos + blen rest = dlen -> rb_wf r -> 0 <= bn r -> dlen - pos < Z.of_nat fuel ->
  bn r <= Z.max 0 rawSize + pos ->
  exists d, lz4_loop fuel dlen rawSize pos rest r = Ok d /\ d <> DFuel /\
            forall out, d = DOk out -> blen out <= Z.max 0 rawSize + dlen.
Proof.
  induction fuel as [|f IH]; intros dlen rawSize pos rest r Hp Hd W Hb Hf Hinv.
  - pose proof (blen_nonneg rest). lia.
  - assert (Done : forall r2 : rbuf, rb_wf r2 -> bn r2 <= Z.max 0 rawSize + dlen ->
              exists d, Ok (DOk (rb_bytes r2)) = Ok d /\ d <> DFuel /\
                        forall out, d = DOk out -> blen out <= Z.max 0 rawSize + dlen).
    { intros r2 W2 B2. eexists. split; [reflexivity|]. split; [discriminate|].
      intros out [= <-]. rewrite rb_bytes_fwd, (fwd_len _ W2). exact B2. }
    assert (Err : forall e, exists d, Ok (DErr e) = Ok d /\ d <> DFuel /\
                        forall out, d = DOk out -> blen out <= Z.max 0 rawSize + dlen).
    { intros e. eexists. split; [reflexivity|]. split; discriminate. }
    pose proof (blen_nonneg rest) as Hr0.
    cbn [lz4_loop]. destruct ((pos <? dlen) && (bn r <? rawSize)) eqn:E; [|apply Done; [exact W|lia]].
    destruct rest as [|tk rest0]; autorewrite with blen in Hd; try lia.
    cbn [rdz rd nth_error bind skipn].
    pose proof (b2z_range tk) as Htk.
    destruct (if b2z tk / 16 =? 15 then ext_loop rest0 (pos + 1) (b2z tk / 16) else (pos + 1, rest0, b2z tk / 16))
      as [[pos1 rest1] lit1] eqn:EL.
    assert (HL : pos + 1 <= pos1 /\ pos1 + blen rest1 = dlen /\ 0 <= lit1).
    { destruct (b2z tk / 16 =? 15).
      - apply (ext_loop_safe _ _ _ dlen) in EL; lia.
      - injection EL as <- <- <-. lia. }
    destruct HL as (HL1 & HL2 & HL3). pose proof (blen_nonneg rest1) as Hr1.
    set (lit := if pos1 + lit1 >? dlen then dlen - pos1 else lit1).
    assert (Hlit : 0 <= lit <= blen rest1) by (unfold lit; destruct (pos1 + lit1 >? dlen) eqn:E2; lia).
    destruct (take_n_safe (Z.to_nat lit) rest1 ltac:(unfold blen in *; lia)) as (lits & TK & TL).
    rewrite TK. cbn [bind].
    assert (Lb : blen lits = lit) by (unfold blen; lia).
    set (r1 := rb_append r lits).
    assert (W1 : rb_wf r1) by (apply rb_append_wf, W).
    assert (N1 : bn r1 = bn r + lit) by (unfold r1; cbn [rb_append bn]; lia).
    assert (S1 : blen (skipn (Z.to_nat lit) rest1) = blen rest1 - lit).
    { rewrite blen_skipn_le by (unfold blen in *; lia). lia. }
    destruct ((pos1 + lit >=? dlen) || (bn r1 >=? rawSize)) eqn:E2; [apply Done; [exact W1|lia]|].
    destruct (pos1 + lit + 2 >? dlen) eqn:E3; [apply Done; [exact W1|lia]|].
    destruct (skipn (Z.to_nat lit) rest1) as [|o1 [|o2 rest2]] eqn:ES; autorewrite with blen in S1; try lia.
    cbn [rdz rd nth_error bind skipn].
    pose proof (b2z_range o1). pose proof (b2z_range o2).
    destruct (b2z o1 + b2z o2 * 256 =? 0) eqn:E4; [apply Err|].
    destruct (if b2z tk mod 16 + 4 =? 19 then ext_loop rest2 (pos1 + lit + 2) (b2z tk mod 16 + 4)
              else (pos1 + lit + 2, rest2, b2z tk mod 16 + 4)) as [[pos2 rest3] ml] eqn:EM.
    assert (HM : pos1 + lit + 2 <= pos2 /\ pos2 + blen rest3 = dlen /\ 0 <= ml).
    { destruct (b2z tk mod 16 + 4 =? 19).
      - apply (ext_loop_safe _ _ _ dlen) in EM; lia.
      - injection EM as <- <- <-. lia. }
    destruct HM as (HM1 & HM2 & HM3).
    destruct (b2z o1 + b2z o2 * 256 >? bn r1) eqn:E5; [apply Err|].
    destruct (copy_loop_safe (Z.to_nat ml) 0 (bn r1 - (b2z o1 + b2z o2 * 256)) (b2z o1 + b2z o2 * 256) rawSize r1)
      as (rc & C1 & C2 & C3 & C4 & C5); try lia; auto.
    rewrite C1. cbn [bind].
    apply IH; try lia; auto.
Qed.

Theorem decompressLZ4_total (data : gslice) (rawSize : Z) :
  (len data < 1 /\ decompressLZ4 data rawSize = Ok (DErr ETooShort)) \/
  (1 <= len data /\ exists d, decompressLZ4 data rawSize = Ok d /\ d <> DFuel /\
                     forall out, d = DOk out -> blen out <= Z.max 0 rawSize + len data).
Proof.
  unfold decompressLZ4. destruct (len data <? 1) eqn:E; [left; split; [lia|reflexivity]|].
  right. split; [lia|].
  pose proof (decompressCap_nonneg rawSize (len data) ltac:(lia)).
  unfold go_make0. destruct (decompressCap rawSize (len data) <? 0) eqn:E2; [lia|]. cbn [bind].
  apply lz4_loop_safe; try (unfold len, blen in *; cbn [rb_empty bn]; lia). apply rb_empty_wf.
Qed.

(* the initial allocation never exceeds what the input can expand to, whatever size is claimed *)
Lemma decompressCap_bound rawSize n : 0 <= n -> 0 <= decompressCap rawSize n <= 256 * n /\ decompressCap rawSize n <= Z.max 0 rawSize.
Proof.
  intros. unfold decompressCap, maxDecompressRatio. destruct (rawSize <? 0) eqn:E; [lia|].
  destruct (rawSize >? n * 256) eqn:E2; lia.
Qed.

(* neither decompressor looks at the capacity tail *)
Lemma decompress_tail v t1 t2 raw :
  decompressPGLZ {| vis := v; tail := t1 |} raw = decompressPGLZ {| vis := v; tail := t2 |} raw /\
  decompressLZ4 {| vis := v; tail := t1 |} raw = decompressLZ4 {| vis := v; tail := t2 |} raw.
Proof. split; reflexivity. Qed.
