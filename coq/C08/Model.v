(* Model of pgdump/toast.go and ReadVarlena (pgdump/types.go), as repaired by the commits
     fix: TOAST pointer layout in ParseTOASTPointer/IsTOASTPointer
     fix: pglz tag decoding in decompressPGLZ
     fix: skip va_tcinfo and subtract VARHDRSZ when decompressing an external value
     fix: do not pre-allocate the claimed raw size when decompressing TOAST data
     fix: decompressPGLZ rejected valid streams shorter than 4 bytes
   One definition per Go function, same names.  Line numbers refer to the repaired toast.go.

   Modelling devices (stated once, used everywhere below):
   * the growing Go slice [result] (only ever appended to and indexed) is an [rbuf]: its bytes
     NEWEST FIRST plus its length, so that append is a cons and the model runs in linear space;
     [rb_idx r k] is the partial operation result[k] (panics unless 0 <= k < len(result)).
   * the input cursor of the decompressors, see [rd] below.
   * masks and shifts on bytes are written arithmetically (b&0xF0)<<4 = (b/16)*256, b&0x0F = b mod 16,
     token>>4 = token/16, x|y of disjoint bit ranges = x+y, ctrl&(1<<bit) != 0 = odd(ctrl/2^bit).
   * a nil []byte and an empty one are both [] (the property never observes the difference). *)
Require Import PG.Base.Bytes PG.Base.GoSlice.

(* ---------------- the growing result buffer ---------------- *)
Record rbuf := { rb : bytes; bn : Z }.
Definition rb_empty : rbuf := {| rb := []; bn := 0 |}.
Definition rb_push (r : rbuf) (b : byte) : rbuf := {| rb := b :: rb r; bn := bn r + 1 |}.
(* append(result, l...) *)
Definition rb_append (r : rbuf) (l : bytes) : rbuf := {| rb := rev_append l (rb r); bn := bn r + blen l |}.
(* result[k] *)
Definition rb_idx (r : rbuf) (k : Z) : res byte :=
  if (0 <=? k) && (k <? bn r) then Ok (nth (Z.to_nat (bn r - 1 - k)) (rb r) x00) else Panic.
Definition rb_bytes (r : rbuf) : bytes := rev_append (rb r) [].

(* binary.LittleEndian.Uint32(data[off : off+4]) *)
Definition u32_at (s : gslice) (off : Z) : res Z := d <- slice s off (off + 4) ;; u32 d 0.

(* ---------------- toast.go:19-33 ---------------- *)
Record TOASTPointer := { RawSize : Z; ExtSize : Z; ValueID : Z; ToastRelID : Z;
                         IsCompressed : bool; CompressionMethod : Z }.
Record TOASTChunk := { ChunkID : Z; ChunkSeq : Z; Data : bytes }.

(* toast.go:54-90 *)
Definition ParseTOASTPointer (s : gslice) : res (option TOASTPointer) :=
  if len s <? 18 then Ok None else
  b0 <- idx s 0 ;;
  if negb (b0 =? 1) then Ok None else
  raw <- u32_at s 2 ;;
  extInfo <- u32_at s 6 ;;
  vid <- u32_at s 10 ;;
  rel <- u32_at s 14 ;;
  let ext := extInfo mod 2 ^ 30 in                 (* extInfo & 0x3FFFFFFF *)
  Ok (Some {| RawSize := raw; ExtSize := ext; ValueID := vid; ToastRelID := rel;
              IsCompressed := ext + 4 <? raw;      (* uint64(ExtSize)+4 < uint64(RawSize) *)
              CompressionMethod := extInfo / 2 ^ 30 |}).

(* toast.go:93-99 *)
Definition IsTOASTPointer (s : gslice) : res bool :=
  if len s <? 2 then Ok false else
  first <- idx s 0 ;;
  Ok ((first =? 1) || (first =? 2)).

(* ---------------- decompression ---------------- *)
Inductive derr := ETooShort | EInvalidOffset | EOffsetTooLarge.
(* DFuel: the model's loop fuel ran out (never happens: C08_*_fuel) *)
Inductive dres := DOk (b : bytes) | DErr (e : derr) | DFuel.

(* toast.go decompressCap *)
Definition maxDecompressRatio : Z := 256.
Definition decompressCap (rawSize srcLen : Z) : Z :=
  if rawSize <? 0 then 0 else
  if rawSize >? srcLen * maxDecompressRatio then srcLen * maxDecompressRatio else rawSize.
(* make([]byte, 0, n) panics for n < 0 *)
Definition go_make0 (n : Z) : res rbuf := if n <? 0 then Panic else Ok rb_empty.

(* for i := 0; i < length && len(result) < rawSize; i++ { result = append(result, result[start+i%offset]) }
   n = number of iterations still allowed by i < length *)
Fixpoint copy_loop (n : nat) (i start offset rawSize : Z) (r : rbuf) : res rbuf :=
  match n with
  | O => Ok r
  | S k => if bn r <? rawSize then
             b <- rb_idx r (start + i mod offset) ;;
             copy_loop k (i + 1) start offset rawSize (rb_push r b)
           else Ok r
  end.

(* Cursor device: the decompressors only ever read data[pos], data[pos+1] and data[pos:pos+n]
   with pos moving forward, so the loops carry [rest] = data[pos:] next to the number [pos] and
   [dlen] = len(data).  [rd rest k] is the partial read data[pos+k]; it panics exactly when
   pos+k >= len(data) (C08_*_no_panic show this never happens: the Go guards suffice). *)
Definition rd (rest : bytes) (k : nat) : res byte :=
  match nth_error rest k with Some b => Ok b | None => Panic end.
Definition rdz (rest : bytes) (k : nat) : res Z := b <- rd rest k ;; Ok (b2z b).
(* data[pos : pos+n] *)
Fixpoint take_n (n : nat) (rest : bytes) : res bytes :=
  match n with
  | O => Ok []
  | S k => match rest with [] => Panic | b :: t => l <- take_n k t ;; Ok (b :: l) end
  end.

(* the inner loop  for bit := 0; bit < 8 && pos < len(data) && len(result) < rawSize; bit++ {...}
   nb = 8 - bit; returns pos (with data[pos:]) and result when the loop is left (normally or by break) *)
Fixpoint pglz_bits (nb : nat) (bit dlen rawSize ctrl pos : Z) (rest : bytes) (r : rbuf) : res (Z * bytes * rbuf) :=
  match nb with
  | O => Ok (pos, rest, r)
  | S k =>
    if (pos <? dlen) && (bn r <? rawSize) then
      if Z.odd (ctrl / 2 ^ bit) then
        if pos + 1 >=? dlen then Ok (pos, rest, r) else
        b1 <- rdz rest 0 ;; b2 <- rdz rest 1 ;;
        let pos := pos + 2 in
        let rest := skipn 2 rest in
        let offset := (b1 / 16) * 256 + b2 in
        let length := b1 mod 16 + 3 in
        let after := fun (pos : Z) (rest : bytes) (length : Z) =>
          if (offset =? 0) || (offset >? bn r) then pglz_bits k (bit + 1) dlen rawSize ctrl pos rest r   (* continue *)
          else r' <- copy_loop (Z.to_nat length) 0 (bn r - offset) offset rawSize r ;;
               pglz_bits k (bit + 1) dlen rawSize ctrl pos rest r' in
        if length =? 18 then
          if pos >=? dlen then Ok (pos, rest, r) else
          e <- rdz rest 0 ;; after (pos + 1) (skipn 1 rest) (length + e)
        else after pos rest length
      else
        b <- rd rest 0 ;;
        pglz_bits k (bit + 1) dlen rawSize ctrl (pos + 1) (skipn 1 rest) (rb_push r b)
    else Ok (pos, rest, r)
  end.

(* the outer loop  for pos < len(data) && len(result) < rawSize *)
Fixpoint pglz_loop (fuel : nat) (dlen rawSize pos : Z) (rest : bytes) (r : rbuf) : res (option rbuf) :=
  match fuel with
  | O => Ok None
  | S f =>
    if (pos <? dlen) && (bn r <? rawSize) then
      ctrl <- rdz rest 0 ;;
      pr <- pglz_bits 8 0 dlen rawSize ctrl (pos + 1) (skipn 1 rest) r ;;
      pglz_loop f dlen rawSize (fst (fst pr)) (snd (fst pr)) (snd pr)
    else Ok (Some r)
  end.

Definition decompressPGLZ (data : gslice) (rawSize : Z) : res dres :=
  if len data <? 1 then Ok (DErr ETooShort) else
  r0 <- go_make0 (decompressCap rawSize (len data)) ;;
  o <- pglz_loop (S (length (vis data))) (len data) rawSize 0 (vis data) r0 ;;
  Ok (match o with Some r => DOk (rb_bytes r) | None => DFuel end).

(* for pos < len(data) { extra := int(data[pos]); pos++; n += extra; if extra != 255 { break } } *)
Fixpoint ext_loop (rest : bytes) (pos n : Z) : Z * bytes * Z :=
  match rest with
  | [] => (pos, rest, n)
  | b :: rest' => if b2z b =? 255 then ext_loop rest' (pos + 1) (n + 255) else (pos + 1, rest', n + b2z b)
  end.

Fixpoint lz4_loop (fuel : nat) (dlen rawSize pos : Z) (rest : bytes) (r : rbuf) : res dres :=
  match fuel with
  | O => Ok DFuel
  | S f =>
    if (pos <? dlen) && (bn r <? rawSize) then
      token <- rdz rest 0 ;;
      let pos := pos + 1 in
      let rest := skipn 1 rest in
      let literalLen := token / 16 in
      let '(pos, rest, literalLen) :=
        if literalLen =? 15 then ext_loop rest pos literalLen else (pos, rest, literalLen) in
      let literalLen := if pos + literalLen >? dlen then dlen - pos else literalLen in
      lits <- take_n (Z.to_nat literalLen) rest ;;
      let r := rb_append r lits in
      let pos := pos + literalLen in
      let rest := skipn (Z.to_nat literalLen) rest in
      if (pos >=? dlen) || (bn r >=? rawSize) then Ok (DOk (rb_bytes r)) else
      if pos + 2 >? dlen then Ok (DOk (rb_bytes r)) else
      o1 <- rdz rest 0 ;; o2 <- rdz rest 1 ;;
      let offset := o1 + o2 * 256 in
      let pos := pos + 2 in
      let rest := skipn 2 rest in
      if offset =? 0 then Ok (DErr EInvalidOffset) else
      let matchLen := token mod 16 + 4 in
      let '(pos, rest, matchLen) :=
        if matchLen =? 19 then ext_loop rest pos matchLen else (pos, rest, matchLen) in
      if offset >? bn r then Ok (DErr EOffsetTooLarge) else
      r' <- copy_loop (Z.to_nat matchLen) 0 (bn r - offset) offset rawSize r ;;
      lz4_loop f dlen rawSize pos rest r'
    else Ok (DOk (rb_bytes r))
  end.

Definition decompressLZ4 (data : gslice) (rawSize : Z) : res dres :=
  if len data <? 1 then Ok (DErr ETooShort) else
  r0 <- go_make0 (decompressCap rawSize (len data)) ;;
  lz4_loop (S (length (vis data))) (len data) rawSize 0 (vis data) r0.

(* ---------------- ReassembleTOAST (toast.go:140-198) ---------------- *)
(* sort.Slice(valueChunks, less = seq_i < seq_j): modelled by the stable insertion sort; sort.Slice
   is only assumed to return SOME sorted permutation, which is unique when the seqs are distinct. *)
Fixpoint insert_chunk (c : TOASTChunk) (l : list TOASTChunk) : list TOASTChunk :=
  match l with
  | [] => [c]
  | x :: r => if ChunkSeq x <? ChunkSeq c then x :: insert_chunk c r else c :: l
  end.
Definition sort_chunks (l : list TOASTChunk) : list TOASTChunk := fold_right insert_chunk [] l.

Definition ToastCompressionLZ4 : Z := 1.

Section Reassemble.
  (* compress/zlib: Some out iff zlib.NewReader and io.ReadAll both succeed on the bytes *)
  Variable zlib_inflate : bytes -> option bytes.

  Definition ReassembleTOAST (chunks : list TOASTChunk) (valueID : Z) (ptr : option TOASTPointer) : res bytes :=
    let valueChunks := filter (fun c => ChunkID c =? valueID) chunks in
    match valueChunks with
    | [] => Ok []
    | _ =>
      let data := concat (map Data (sort_chunks valueChunks)) in
      match ptr with
      | None => Ok data
      | Some p =>
        if IsCompressed p && (blen data >? 4) then
          let rawSize := RawSize p - 4 in
          stream <- slice_from (exact data) 4 ;;
          lz <- (if CompressionMethod p =? ToastCompressionLZ4 then
                   d <- decompressLZ4 stream rawSize ;;
                   Ok (match d with DOk out => Some out | _ => None end)
                 else Ok None) ;;
          match lz with
          | Some out => Ok out
          | None =>
            d <- decompressPGLZ stream rawSize ;;
            let fallback := match zlib_inflate data with Some out => Ok out | None => Ok data end in
            match d with
            | DOk out => match out with [] => fallback | _ => Ok out end
            | _ => fallback
            end
          end
        else Ok data
      end
    end.

  (* ---------------- TOASTReader (toast.go:320-386), dataDir = "" ---------------- *)
  (* r.chunks as an association list, newest binding first *)
  Definition reader := list (Z * list TOASTChunk).
  Fixpoint reader_get (r : reader) (k : Z) : option (list TOASTChunk) :=
    match r with [] => None | (k', v) :: t => if k' =? k then Some v else reader_get t k end.
  Definition LoadChunks (r : reader) (toastRelID : Z) (chunks : list TOASTChunk) : reader := (toastRelID, chunks) :: r.
  Definition ReadValue (r : reader) (data : gslice) : res bytes :=
    p <- ParseTOASTPointer data ;;
    match p with
    | None => Ok (vis data)
    | Some ptr =>
      match reader_get r (ToastRelID ptr) with
      | None => Ok []
      | Some chunks => ReassembleTOAST chunks (ValueID ptr) (Some ptr)
      end
    end.
End Reassemble.

(* ---------------- ReadVarlena (types.go:632-663) ---------------- *)
Definition ReadVarlena (s : gslice) : res (bytes * Z) :=
  if len s =? 0 then Ok ([], 0) else
  first <- idx s 0 ;;
  if (first mod 2 =? 1) && negb (first =? 1) then
    let totalLen := first / 2 in
    if (totalLen <=? 1) || (len s <? totalLen) then Ok ([], 1) else
    d <- slice s 1 totalLen ;; Ok (vis d, totalLen)
  else if first =? 1 then Ok ([], 1) else
  if len s <? 4 then Ok ([], 0) else
  header <- u32 s 0 ;;
  let totalLen := header / 4 in
  if (totalLen <? 4) || (len s <? totalLen) then Ok ([], 4) else
  d <- slice s 4 totalLen ;; Ok (vis d, totalLen).

(* ---------------- ReadTOASTTable (toast.go:102-138) ---------------- *)
(* the body of the loop, on tuple.Data *)
Definition chunk_of_tuple (d : gslice) : res (option TOASTChunk) :=
  if len d <? 8 then Ok None else
  id <- u32 d 0 ;;
  sq <- i32 d 4 ;;
  let offset := go_align 8 4 in
  dat <- (if offset <? len d then t <- slice_from d offset ;; v <- ReadVarlena t ;; Ok (fst v) else Ok []) ;;
  if blen dat >? 0 then Ok (Some {| ChunkID := id; ChunkSeq := sq; Data := dat |}) else Ok None.

Fixpoint chunks_of_tuples (ts : list gslice) : res (list TOASTChunk) :=
  match ts with
  | [] => Ok []
  | d :: r => c <- chunk_of_tuple d ;; cs <- chunks_of_tuples r ;;
              Ok (match c with Some c => c :: cs | None => cs end)
  end.

(* ---------------- GetTOASTVerboseInfo (toast.go:430-481) ---------------- *)
Record TOASTValueInfo := { vi_id : Z; vi_num : Z; vi_size : Z }.
Record TOASTVerboseInfo := {
  ti_relid : Z; ti_total_chunks : Z; ti_unique : Z; ti_total_size : Z; ti_max : Z;
  ti_dist : list (Z * Z);            (* ChunkDistribution: Go map as association list *)
  ti_values : list TOASTValueInfo }.

(* valueChunks[k] = append(valueChunks[k], c) *)
Fixpoint map_append (m : list (Z * list TOASTChunk)) (k : Z) (c : TOASTChunk) : list (Z * list TOASTChunk) :=
  match m with
  | [] => [(k, [c])]
  | (k', l) :: r => if k' =? k then (k', l ++ [c]) :: r else (k', l) :: map_append r k c
  end.
Fixpoint map_get (m : list (Z * list TOASTChunk)) (k : Z) : list TOASTChunk :=
  match m with [] => [] | (k', l) :: r => if k' =? k then l else map_get r k end.
(* dist[k]++ *)
Fixpoint map_incr (m : list (Z * Z)) (k : Z) : list (Z * Z) :=
  match m with
  | [] => [(k, 1)]
  | (k', v) :: r => if k' =? k then (k', v + 1) :: r else (k', v) :: map_incr r k
  end.
Fixpoint dist_get (m : list (Z * Z)) (k : Z) : Z :=
  match m with [] => 0 | (k', v) :: r => if k' =? k then v else dist_get r k end.

Definition sum_sizes (cs : list TOASTChunk) : Z := fold_left (fun a c => a + blen (Data c)) cs 0.

(* the statistics computed from the chunk list.  [order] is the order in which Go's
   `for chunkID, chunks := range valueChunks` happens to visit the keys (a permutation of them). *)
Definition verbose_info_of_chunks (toastRelID : Z) (chunks : list TOASTChunk) (order : list Z) : option TOASTVerboseInfo :=
  match chunks with
  | [] => None
  | _ =>
    let vc := fold_left (fun m c => map_append m (ChunkID c) c) chunks [] in
    let st := fold_left (fun (st : Z * list (Z * Z) * list TOASTValueInfo) id =>
                let '(mx, dist, vals) := st in
                let cs := map_get vc id in
                let n := Z.of_nat (length cs) in
                (if n >? mx then n else mx, map_incr dist n,
                 vals ++ [{| vi_id := id; vi_num := n; vi_size := sum_sizes cs |}]))
              order (0, [], []) in
    Some {| ti_relid := toastRelID; ti_total_chunks := Z.of_nat (length chunks);
            ti_unique := Z.of_nat (length vc); ti_total_size := sum_sizes chunks;
            ti_max := fst (fst st); ti_dist := snd (fst st); ti_values := snd st |}
  end.
