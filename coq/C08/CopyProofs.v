(* The growing buffer [rbuf] and the match-copy loop against the byte-wise LZ77 copy of the spec. *)
Require Import PG.Base.Bytes PG.Base.GoSlice PG.C08.Model PG.C08.Spec.

Definition nthz (l : bytes) (k : Z) : byte := nth (Z.to_nat k) l x00.

(* forward contents of a buffer *)
Definition fwd (r : rbuf) : bytes := rev (rb r).
Definition rb_wf (r : rbuf) : Prop := bn r = blen (rb r).

Lemma blen_rev (l : bytes) : blen (rev l) = blen l.
Proof. unfold blen. rewrite rev_length. reflexivity. Qed.
#[export] Hint Rewrite blen_rev : blen.

Lemma rb_bytes_fwd r : rb_bytes r = fwd r.
Proof. unfold rb_bytes, fwd. rewrite rev_append_rev. apply app_nil_r. Qed.
Lemma fwd_len r : rb_wf r -> blen (fwd r) = bn r.
Proof. unfold rb_wf, fwd. intros ->. apply blen_rev. Qed.
Lemma rb_empty_wf : rb_wf rb_empty. Proof. reflexivity. Qed.
Lemma rb_empty_fwd : fwd rb_empty = []. Proof. reflexivity. Qed.
Lemma rb_push_wf r b : rb_wf r -> rb_wf (rb_push r b).
Proof. unfold rb_wf, rb_push. cbn [rb bn]. intros ->. bl. lia. Qed.
Lemma rb_push_fwd r b : fwd (rb_push r b) = fwd r ++ [b].
Proof. reflexivity. Qed.
Lemma rb_append_wf r l : rb_wf r -> rb_wf (rb_append r l).
Proof. unfold rb_wf, rb_append. cbn [rb bn]. intros ->. rewrite rev_append_rev. bl. lia. Qed.
Lemma rb_append_fwd r l : fwd (rb_append r l) = fwd r ++ l.
Proof. unfold fwd, rb_append. cbn [rb]. rewrite rev_append_rev, rev_app_distr, rev_involutive. reflexivity. Qed.

Lemma rb_idx_fwd r k : rb_wf r -> 0 <= k < bn r -> rb_idx r k = Ok (nthz (fwd r) k).
Proof.
  intros W H. unfold rb_idx. destruct ((0 <=? k) && (k <? bn r)) eqn:E; [|lia]. f_equal.
  unfold nthz, fwd. unfold rb_wf, blen in W.
  rewrite rev_nth by lia. f_equal. lia.
Qed.

(* ---------- copy_back: snoc form, length, periodicity ---------- *)
Lemma copy_back_snoc : forall n off out,
  copy_back (S n) off out =
  copy_back n off out ++ [nthz (copy_back n off out) (blen (copy_back n off out) - off)].
Proof.
  induction n as [|n IH]; intros off out; [reflexivity|].
  change (copy_back (S (S n)) off out) with (copy_back (S n) off (out ++ [nth (Z.to_nat (blen out - off)) out x00])).
  rewrite IH. reflexivity.
Qed.

Lemma copy_back_len : forall n off out, blen (copy_back n off out) = blen out + Z.of_nat n.
Proof.
  induction n as [|n IH]; intros off out; [cbn [copy_back]; lia|].
  rewrite copy_back_snoc. bl. rewrite IH. lia.
Qed.
#[export] Hint Rewrite copy_back_len : blen.

Lemma copy_back_add : forall n m off out, copy_back (n + m) off out = copy_back m off (copy_back n off out).
Proof. induction n as [|n IH]; intros; [reflexivity|]. cbn [Nat.add copy_back]. apply IH. Qed.

Lemma nthz_app_l (a b : bytes) k : 0 <= k < blen a -> nthz (a ++ b) k = nthz a k.
Proof. unfold nthz, blen. intros. apply app_nth1. lia. Qed.
Lemma nthz_app_r (a b : bytes) k : blen a <= k -> nthz (a ++ b) k = nthz b (k - blen a).
Proof. unfold nthz, blen. intros. rewrite app_nth2 by lia. f_equal. lia. Qed.

Lemma copy_back_prefix : forall n off out k, 0 <= k < blen out -> nthz (copy_back n off out) k = nthz out k.
Proof.
  induction n as [|n IH]; intros off out k Hk; [reflexivity|].
  rewrite copy_back_snoc. rewrite nthz_app_l by (bl; lia). apply IH. exact Hk.
Qed.

Lemma copy_back_periodic : forall n off out k,
  1 <= off <= blen out -> blen out <= k < blen out + Z.of_nat n ->
  nthz (copy_back n off out) k = nthz (copy_back n off out) (k - off).
Proof.
  induction n as [|n IH]; intros off out k Ho Hk; [lia|].
  rewrite copy_back_snoc.
  set (r := copy_back n off out).
  assert (L : blen r = blen out + Z.of_nat n) by (unfold r; bl; lia).
  destruct (Z.eq_dec k (blen r)) as [->|Hne].
  - rewrite nthz_app_r by lia. replace (blen r - blen r) with 0 by lia.
    rewrite nthz_app_l by lia. reflexivity.
  - rewrite !nthz_app_l by lia. apply IH; lia.
Qed.

(* walking back whole periods *)
Lemma copy_back_wrap : forall (q : nat) n off out m,
  1 <= off <= blen out -> 0 <= m ->
  blen out - off + m + Z.of_nat q * off < blen out + Z.of_nat n ->
  nthz (copy_back n off out) (blen out - off + m + Z.of_nat q * off) =
  nthz (copy_back n off out) (blen out - off + m).
Proof.
  induction q as [|q IH]; intros n off out m Ho Hm Hlt.
  - f_equal. lia.
  - rewrite copy_back_periodic by lia.
    replace (blen out - off + m + Z.of_nat (S q) * off - off) with (blen out - off + m + Z.of_nat q * off) by lia.
    apply IH; lia.
Qed.

(* ---------- the Go loop ---------- *)
Lemma copy_loop_spec : forall n i' off rawSize r out0,
  rb_wf r -> 1 <= off <= blen out0 ->
  fwd r = copy_back i' off out0 ->
  bn r + Z.of_nat n <= rawSize ->
  exists r', copy_loop n (Z.of_nat i') (blen out0 - off) off rawSize r = Ok r' /\ rb_wf r' /\
             fwd r' = copy_back (i' + n) off out0.
Proof.
  induction n as [|n IH]; intros i' off rawSize r out0 W Ho F Hraw.
  - exists r. rewrite Nat.add_0_r. auto.
  - cbn [copy_loop]. destruct (bn r <? rawSize) eqn:E; [|lia]. clear E.
    assert (Lr : bn r = blen out0 + Z.of_nat i').
    { rewrite <- (fwd_len r W), F. bl. lia. }
    remember (Z.of_nat i') as i eqn:Hi.
    assert (Hi0 : 0 <= i) by lia.
    assert (Hm : 0 <= i mod off < off) by (apply Z.mod_pos_bound; lia).
    rewrite rb_idx_fwd by (auto; lia). cbn [bind].
    assert (X : nthz (fwd r) (blen out0 - off + i mod off) = nthz (fwd r) (blen (fwd r) - off)).
    { rewrite F. bl. rewrite <- Hi.
      assert (Q : 0 <= i / off) by (apply Z.div_pos; lia).
      assert (E : blen out0 + i - off = blen out0 - off + i mod off + Z.of_nat (Z.to_nat (i / off)) * off).
      { rewrite (Z2Nat.id _ Q). lia. }
      rewrite E. symmetry. apply copy_back_wrap; lia. }
    rewrite X.
    replace (i + 1) with (Z.of_nat (S i')) by lia.
    destruct (IH (S i') off rawSize (rb_push r (nthz (fwd r) (blen (fwd r) - off))) out0) as (r' & H1 & H2 & H3).
    + apply rb_push_wf, W.
    + exact Ho.
    + rewrite rb_push_fwd, copy_back_snoc, <- F. reflexivity.
    + unfold rb_push; cbn [bn]. lia.
    + exists r'. split; [exact H1|]. split; [exact H2|]. rewrite H3. f_equal. lia.
Qed.

(* the form used by the decoders: a whole match appended to the current output *)
Lemma copy_loop_match len off rawSize r :
  rb_wf r -> 1 <= off <= bn r -> 0 <= len -> bn r + len <= rawSize ->
  exists r', copy_loop (Z.to_nat len) 0 (bn r - off) off rawSize r = Ok r' /\ rb_wf r' /\
             fwd r' = copy_back (Z.to_nat len) off (fwd r) /\ bn r' = bn r + len.
Proof.
  intros W Ho Hl Hraw.
  pose proof (fwd_len r W) as L.
  destruct (copy_loop_spec (Z.to_nat len) 0 off rawSize r (fwd r)) as (r' & H1 & H2 & H3); auto; try lia.
  exists r'. rewrite <- L. change 0 with (Z.of_nat 0). split; [exact H1|]. split; [exact H2|].
  split; [exact H3|]. rewrite <- (fwd_len r' H2), H3. bl. lia.
Qed.
