Require Import PG.C08.Model PG.C08.Spec PG.C08.Fast PG.C08.Inst PG.C08.TableModel.
Require PG.C02.Spec.
Require Extraction. Require ExtrOcamlBasic.
Extraction "model.ml" ParseTOASTPointer IsTOASTPointer decompressPGLZ decompressLZ4 decompressCap
  ReassembleTOAST_m ReadValue_m LoadChunks ReadVarlena chunk_of_tuple chunks_of_tuples verbose_info_of_chunks
  ReadTOASTTable LoadTOASTTable GetTOASTVerboseInfo first_seen_ids
  enc_ptr ptr_is_compressed datum_is_external kf_istoast pglz_stream enc_lz4block chunks_of compressed_payload
  enc_varlena enc_chunk_tuple ids_of count_of total_bytes chunks_with max_count values_with_count
  pglz_out lz4_out pitems_okb lz4seqs_okb
  PG.C02.Spec.enc_tuple PG.C02.Spec.enc_page PG.C02.Spec.enc_file.
