(* decompressLZ4 on every block of the LZ4 block format (Spec.v §4) returns the denoted bytes. *)
Require Import PG.Base.Bytes PG.Base.GoSlice PG.C08.Model PG.C08.Spec PG.C08.CopyProofs PG.C08.PglzProofs.

Lemma ext_loop_rep : forall (q : nat) m more pos acc, 0 <= m < 255 ->
  ext_loop (repeat xff q ++ z2b m :: more) pos acc = (pos + Z.of_nat q + 1, more, acc + 255 * Z.of_nat q + m).
Proof.
  induction q as [|q IH]; intros m more pos acc Hm.
  - cbn [repeat app ext_loop]. rewrite b2z_z2b_small by lia.
    destruct (m =? 255) eqn:E; [lia|]. f_equal; [f_equal|]; lia.
  - cbn [repeat app ext_loop]. change (b2z xff) with 255. rewrite Z.eqb_refl.
    rewrite IH by lia. f_equal; [f_equal|]; lia.
Qed.

Lemma lz4_ext_len n : 0 <= n -> blen (lz4_ext n) = n / 255 + 1.
Proof. intros. unfold lz4_ext. bl. rewrite Z2Nat.id; [lia|]. apply Z.div_pos; lia. Qed.

Lemma ext_loop_ext n more pos acc : 0 <= n ->
  ext_loop (lz4_ext n ++ more) pos acc = (pos + blen (lz4_ext n), more, acc + n).
Proof.
  intros Hn. rewrite lz4_ext_len by lia. unfold lz4_ext. rewrite <- app_assoc. cbn [app].
  rewrite ext_loop_rep by lia.
  rewrite Z2Nat.id by (apply Z.div_pos; lia). f_equal; [f_equal|]; lia.
Qed.

(* the length field of a token nibble: nibble = min(n,15), followed by lz4_lenbytes n *)
Lemma len_field n base more pos : 0 <= n ->
  (if Z.min n 15 + base =? 15 + base then ext_loop (lz4_lenbytes n ++ more) pos (Z.min n 15 + base)
   else (pos, lz4_lenbytes n ++ more, Z.min n 15 + base)) = (pos + blen (lz4_lenbytes n), more, n + base).
Proof.
  intros Hn. unfold lz4_lenbytes. destruct (n >=? 15) eqn:E.
  - destruct (Z.min n 15 + base =? 15 + base) eqn:E2; [|lia].
    rewrite ext_loop_ext by lia. f_equal. lia.
  - destruct (Z.min n 15 + base =? 15 + base) eqn:E2; [lia|].
    cbn [app]. change (blen []) with 0. f_equal; [f_equal|]; lia.
Qed.

Lemma take_n_app : forall (l more : bytes), take_n (length l) (l ++ more) = Ok l.
Proof. induction l as [|b l IH]; intros; cbn [length take_n app]; [reflexivity|]. rewrite IH. reflexivity. Qed.
Lemma take_n_all (l : bytes) : take_n (length l) l = Ok l.
Proof. rewrite <- (app_nil_r l) at 2. apply take_n_app. Qed.
Lemma to_nat_blen (l : bytes) : Z.to_nat (blen l) = length l.
Proof. unfold blen. apply Nat2Z.id. Qed.
Lemma skipn_app_exact {A} (l more : list A) : skipn (length l) (l ++ more) = more.
Proof. induction l; cbn; auto. Qed.

Lemma apply_lz4seq_len out s : lz4seq_ok (blen out) s ->
  blen (apply_lz4seq out s) = blen out + blen (ls_lits s) + ls_mlen s.
Proof. intros (H1 & H2 & H3). unfold apply_lz4seq. bl. lia. Qed.
Lemma run_lz4seqs_len_ge : forall seqs out, lz4seqs_ok seqs out -> blen out <= blen (run_lz4seqs seqs out).
Proof.
  induction seqs as [|s seqs IH]; intros out H; cbn [run_lz4seqs]; [lia|].
  destruct H as [H1 H2]. specialize (IH _ H2). rewrite apply_lz4seq_len in IH by exact H1.
  destruct H1 as (? & ? & ?). pose proof (blen_nonneg (ls_lits s)). lia.
Qed.

Definition enc_lz4seqs (seqs : list lz4seq) : bytes := concat (map enc_lz4seq seqs).

Lemma lz4_loop_ok : forall seqs last fuel pos r rawSize dlen,
  rb_wf r -> lz4seqs_ok seqs (fwd r) -> (length seqs < fuel)%nat ->
  pos + blen (enc_lz4seqs seqs ++ enc_lz4last last) = dlen ->
  blen (run_lz4seqs seqs (fwd r)) + blen last = rawSize ->
  lz4_loop fuel dlen rawSize pos (enc_lz4seqs seqs ++ enc_lz4last last) r
  = Ok (DOk (run_lz4seqs seqs (fwd r) ++ last)).
Proof.
  induction seqs as [|s seqs IH]; intros last fuel pos r rawSize dlen W OK Hf Hpos Hraw.
  - destruct fuel as [|f]; [cbn [length] in Hf; lia|].
    cbn [enc_lz4seqs map concat app run_lz4seqs] in *.
    pose proof (fwd_len r W) as Lr. pose proof (blen_nonneg last) as Hl0.
    cbn [lz4_loop].
    destruct ((pos <? dlen) && (bn r <? rawSize)) eqn:E.
    + unfold enc_lz4last in *. cbn [app] in *. rewrite blen_cons in Hpos.
      cbn [rdz rd nth_error bind skipn].
      rewrite b2z_z2b_small by lia.
      replace (Z.min (blen last) 15 * 16 / 16) with (Z.min (blen last) 15 + 0) by lia.
      change 15 with (15 + 0) at 2.
      rewrite (len_field (blen last) 0 last (pos + 1) Hl0).
      rewrite blen_app in Hpos.
      replace (blen last + 0) with (blen last) by lia.
      destruct (pos + 1 + blen (lz4_lenbytes (blen last)) + blen last >? dlen) eqn:E2; [lia|]. clear E2.
      rewrite !to_nat_blen, take_n_all. cbn [bind].
      destruct ((pos + 1 + blen (lz4_lenbytes (blen last)) + blen last >=? dlen) || _) eqn:E2; [|lia].
      rewrite rb_bytes_fwd, rb_append_fwd. reflexivity.
    + assert (L1 : 1 <= blen (enc_lz4last last)).
      { unfold enc_lz4last. bl. pose proof (blen_nonneg (lz4_lenbytes (blen last))). lia. }
      assert (L2 : blen last <= 0) by lia.
      assert (last = []).
      { destruct last; [reflexivity|]. rewrite blen_cons in L2. pose proof (blen_nonneg last). lia. }
      subst last. rewrite rb_bytes_fwd, app_nil_r. reflexivity.
  - destruct fuel as [|f]; [cbn [length] in Hf; lia|]. cbn [length] in Hf.
    destruct OK as [OKs OKrest]. pose proof OKs as (Ho1 & Ho2 & Hml).
    cbn [run_lz4seqs] in *.
    pose proof (run_lz4seqs_len_ge _ _ OKrest) as Ge. rewrite (apply_lz4seq_len _ _ OKs) in Ge.
    pose proof (fwd_len r W) as Lr. pose proof (blen_nonneg last) as Hl0.
    pose proof (blen_nonneg (ls_lits s)) as Hn0.
    cbn [enc_lz4seqs map concat] in *. fold (enc_lz4seqs seqs) in *.
    assert (Hmore : 1 <= blen (enc_lz4seqs seqs ++ enc_lz4last last)).
    { unfold enc_lz4last. rewrite !blen_app, blen_cons. pose proof (blen_nonneg (enc_lz4seqs seqs)).
      pose proof (blen_nonneg (lz4_lenbytes (blen last))). change (blen []) with 0. lia. }
    remember (enc_lz4seqs seqs ++ enc_lz4last last) as more eqn:Emore.
    rewrite <- app_assoc in *. unfold enc_lz4seq in *. rewrite <- !app_assoc in *. cbn [app] in *.
    remember (ls_lits s) as lits eqn:El. remember (ls_off s) as off eqn:Eo. remember (ls_mlen s) as ml eqn:Em.
    rewrite <- ?Emore in Hpos |- *. autorewrite with blen in Hpos.
    pose proof (blen_nonneg (lz4_lenbytes (blen lits))). pose proof (blen_nonneg (lz4_lenbytes (ml - 4))).
    cbn [lz4_loop].
    destruct ((pos <? dlen) && (bn r <? rawSize)) eqn:E; [|lia]. clear E.
    cbn [rdz rd nth_error bind skipn].
    rewrite b2z_z2b_small by lia.
    replace ((Z.min (blen lits) 15 * 16 + Z.min (ml - 4) 15) / 16) with (Z.min (blen lits) 15 + 0) by lia.
    replace ((Z.min (blen lits) 15 * 16 + Z.min (ml - 4) 15) mod 16 + 4) with (Z.min (ml - 4) 15 + 4) by lia.
    change 15 with (15 + 0) at 2.
    rewrite (len_field (blen lits) 0 _ (pos + 1) Hn0).
    replace (blen lits + 0) with (blen lits) by lia.
    destruct (pos + 1 + blen (lz4_lenbytes (blen lits)) + blen lits >? dlen) eqn:E2; [lia|]. clear E2.
    rewrite !to_nat_blen, take_n_app. cbn [bind].
    rewrite skipn_app_exact.
    set (r1 := rb_append r lits).
    assert (W1 : rb_wf r1) by (apply rb_append_wf, W).
    assert (F1 : fwd r1 = fwd r ++ lits) by apply rb_append_fwd.
    assert (N1 : bn r1 = bn r + blen lits) by reflexivity.
    destruct ((pos + 1 + blen (lz4_lenbytes (blen lits)) + blen lits >=? dlen) || (bn r1 >=? rawSize)) eqn:E2; [lia|]. clear E2.
    destruct (pos + 1 + blen (lz4_lenbytes (blen lits)) + blen lits + 2 >? dlen) eqn:E2; [lia|]. clear E2.
    cbn [rdz rd nth_error bind skipn].
    rewrite !b2z_z2b_small by lia.
    replace (off mod 256 + off / 256 * 256) with off by lia.
    destruct (off =? 0) eqn:E2; [lia|]. clear E2.
    change 19 with (15 + 4).
    rewrite (len_field (ml - 4) 4 more _ ltac:(lia)).
    replace (ml - 4 + 4) with ml by lia.
    destruct (off >? bn r1) eqn:E2; [lia|]. clear E2.
    destruct (copy_loop_match ml off rawSize r1 W1 ltac:(lia) ltac:(lia) ltac:(lia)) as (rc & C1 & C2 & C3 & C4).
    rewrite C1. cbn [bind].
    assert (FA : fwd rc = apply_lz4seq (fwd r) s).
    { unfold apply_lz4seq. rewrite C3, F1, <- El, <- Eo, <- Em. reflexivity. }
    rewrite <- FA in *.
    subst more. apply IH; auto; try lia.
Qed.

Lemma enc_lz4seqs_length seqs : (length seqs <= length (enc_lz4seqs seqs))%nat.
Proof.
  induction seqs as [|s seqs IH]; [cbn; lia|].
  unfold enc_lz4seqs in *. cbn [map concat]. rewrite app_length. unfold enc_lz4seq at 1. cbn [app length]. lia.
Qed.

Theorem decompressLZ4_denotes s out t :
  lz4_denotes s out -> decompressLZ4 {| vis := s; tail := t |} (blen out) = Ok (DOk out).
Proof.
  intros (seqs & last & OK & -> & ->).
  unfold enc_lz4block. fold (enc_lz4seqs seqs).
  pose proof (enc_lz4seqs_length seqs) as Ls.
  assert (L1 : 1 <= blen (enc_lz4last last)).
  { unfold enc_lz4last. bl. pose proof (blen_nonneg (lz4_lenbytes (blen last))). pose proof (blen_nonneg last). lia. }
  unfold decompressLZ4, len. cbn [vis].
  set (d := enc_lz4seqs seqs ++ enc_lz4last last).
  assert (Ld : blen d = blen (enc_lz4seqs seqs) + blen (enc_lz4last last)) by (unfold d; bl; lia).
  pose proof (blen_nonneg (enc_lz4seqs seqs)).
  destruct (blen d <? 1) eqn:E; [lia|]. clear E.
  unfold go_make0. pose proof (decompressCap_nonneg (blen (run_lz4seqs seqs [] ++ last)) (blen d) ltac:(lia)).
  destruct (decompressCap _ _ <? 0) eqn:E; [lia|]. clear E. cbn [bind].
  unfold d. apply (lz4_loop_ok seqs last _ 0 rb_empty); auto using rb_empty_wf.
  - rewrite app_length. unfold blen in *. lia.
  - rewrite rb_empty_fwd. bl. lia.
Qed.
