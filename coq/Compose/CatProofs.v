(* Compose/CatProofs.v — C01's decoder hypotheses discharged for the composed decoder:
     DT_ok  : FullProofs.DecodeType_full_DT_ok
     DT_cat : on the seven (type id, width) pairs of the tool's catalog schemas (oid 4, name 64, int2 2, int4 4, bool 1,
              "char" 1, float4 4) the full decoder is C01's cat_decode
   hence C01_dump with DecodeType := DecodeType_full o and no hypothesis about the decoder left. *)
Require Import PG.Base.Bytes PG.Base.GoSlice PG.Base.Value.
Require Import PG.C04.Lib PG.C04.Model PG.C04.ExamplesProofs.
Require Import PG.C01.Lib PG.C01.Model PG.C01.Spec PG.C01.DumpProofs PG.C01.MoreProofs.
Require Import PG.Compose.TailProofs PG.Compose.Full PG.Compose.FullProofs.
Require Import Coq.Sorting.Permutation.

Lemma uN_all n bs : blen bs = Z.of_nat n -> uN n (exact bs) 0 = Ok (le_dec bs).
Proof.
  intros H. rewrite uN_val by (unfold len; cbn [vis exact]; lia). cbn [vis exact].
  rewrite sub_exact by lia. reflexivity.
Qed.

Lemma cstring_go_take : forall bs fuel, (length bs <= fuel)%nat -> cstring_go fuel bs = cstr_take bs.
Proof.
  induction bs as [|b r IH]; intros fuel H; [destruct fuel; reflexivity|].
  destruct fuel as [|k]; [cbn [length] in H; lia|]. cbn [cstring_go cstr_take].
  destruct (b2z b =? 0); [reflexivity|]. rewrite IH by (cbn [length] in H; lia). reflexivity.
Qed.

Section Cat.
  Variable o : oracles.

  Ltac start H :=
    unfold decode_full; rewrite full_unfold; change (len (exact ?b)) with (blen b); rewrite H;
    cbv beta iota delta [Z.eqb]; cbn [unres].

  Theorem full_agrees_on_catalog : agrees_on_catalog (decode_full o).
  Proof.
    intros b oid Hn Hl. unfold cat_len in Hn, Hl. unfold cat_decode.
    destruct (oid =? 26) eqn:E1.
    { assert (oid = 26) by lia. subst oid. unfold decode_full. rewrite full_unfold.
      change (len (exact b)) with (blen b). rewrite Hl. cbn [Z.eqb].
      change (lookup 26 arrayElemTypes) with (@None Z). unfold decodeScalar, decodeScalar_gen.
      change (lookup 26 fixedLengths) with (Some 4). change (len (exact b)) with (blen b). rewrite Hl.
      change (4 <? 4) with false. change (kind_of_oid 26) with KU32. cbn [decodeKind].
      unfold u32. rewrite uN_all by (cbn; lia). reflexivity. }
    destruct (oid =? 19) eqn:E2.
    { assert (oid = 19) by lia. subst oid. unfold decode_full. rewrite full_unfold.
      change (len (exact b)) with (blen b). rewrite Hl. cbn [Z.eqb].
      change (lookup 19 arrayElemTypes) with (@None Z). unfold decodeScalar, decodeScalar_gen.
      change (lookup 19 fixedLengths) with (Some 64). change (len (exact b)) with (blen b). rewrite Hl.
      change (64 <? 64) with false. change (kind_of_oid 19) with KName. cbn [decodeKind unres].
      unfold cstring. cbn [vis exact]. rewrite cstring_go_take; [reflexivity|]. unfold blen in Hl. lia. }
    destruct (oid =? 21) eqn:E3.
    { assert (oid = 21) by lia. subst oid. unfold decode_full. rewrite full_unfold.
      change (len (exact b)) with (blen b). rewrite Hl. cbn [Z.eqb].
      change (lookup 21 arrayElemTypes) with (@None Z). unfold decodeScalar, decodeScalar_gen.
      change (lookup 21 fixedLengths) with (Some 2). change (len (exact b)) with (blen b). rewrite Hl.
      change (2 <? 2) with false. change (kind_of_oid 21) with KInt2. cbn [decodeKind].
      unfold i16, u16. rewrite uN_all by (cbn; lia). reflexivity. }
    destruct (oid =? 23) eqn:E4.
    { assert (oid = 23) by lia. subst oid. unfold decode_full. rewrite full_unfold.
      change (len (exact b)) with (blen b). rewrite Hl. cbn [Z.eqb].
      change (lookup 23 arrayElemTypes) with (@None Z). unfold decodeScalar, decodeScalar_gen.
      change (lookup 23 fixedLengths) with (Some 4). change (len (exact b)) with (blen b). rewrite Hl.
      change (4 <? 4) with false. change (kind_of_oid 23) with KInt4. cbn [decodeKind].
      unfold i32, u32. rewrite uN_all by (cbn; lia). reflexivity. }
    destruct (oid =? 16) eqn:E5.
    { assert (oid = 16) by lia. subst oid. unfold decode_full. rewrite full_unfold.
      change (len (exact b)) with (blen b). rewrite Hl. cbn [Z.eqb].
      change (lookup 16 arrayElemTypes) with (@None Z). unfold decodeScalar, decodeScalar_gen.
      change (lookup 16 fixedLengths) with (Some 1). change (len (exact b)) with (blen b). rewrite Hl.
      change (1 <? 1) with false. change (kind_of_oid 16) with KBool. cbn [decodeKind].
      destruct b as [|x [|y r]]; unfold blen in Hl; cbn [length] in Hl; try lia.
      unfold idx, len, blen. cbn [vis exact length]. change ((0 <=? 0) && (0 <? Z.of_nat 1)) with true.
      unfold byte_at. cbn [Z.to_nat nth bind unres le_dec]. rewrite Z.mul_0_r, Z.add_0_r. reflexivity. }
    destruct (oid =? 18) eqn:E6.
    { assert (oid = 18) by lia. subst oid. unfold decode_full. rewrite full_unfold.
      change (len (exact b)) with (blen b). rewrite Hl. cbn [Z.eqb].
      change (lookup 18 arrayElemTypes) with (@None Z). unfold decodeScalar, decodeScalar_gen.
      change (lookup 18 fixedLengths) with (Some 1). change (len (exact b)) with (blen b). rewrite Hl.
      change (1 <? 1) with false. change (kind_of_oid 18) with KChar. cbn [decodeKind].
      unfold slice_to, slice, cap, mem. cbn [vis tail exact]. rewrite app_nil_r. change (blen []) with 0. rewrite Hl.
      change ((0 <=? 0) && (0 <=? 1) && (1 <=? 1 + 0)) with true. cbn [bind vis unres].
      rewrite sub_exact by lia. reflexivity. }
    destruct (oid =? 700) eqn:E7.
    { assert (oid = 700) by lia. subst oid. unfold decode_full. rewrite full_unfold.
      change (len (exact b)) with (blen b). rewrite Hl. cbn [Z.eqb].
      change (lookup 700 arrayElemTypes) with (@None Z). unfold decodeScalar, decodeScalar_gen.
      change (lookup 700 fixedLengths) with (Some 4). change (len (exact b)) with (blen b). rewrite Hl.
      change (4 <? 4) with false. change (kind_of_oid 700) with KFloat4. cbn [decodeKind].
      unfold u32. rewrite uN_all by (cbn; lia). reflexivity. }
    exfalso. apply Hn. reflexivity.
  Qed.

  (* C01_dump for the real decoder *)
  Theorem dump_full ToLower TypeName range_order slack :
    (forall l, Permutation l (range_order l)) ->
    forall c opts, wf_cluster c -> detect_ok c opts ->
    DumpDataDir (DecodeType_full o) ToLower TypeName range_order slack (enc_cluster c) opts =
    Ok (Some (expected_dump (decode_full o) ToLower TypeName c opts)).
  Proof.
    intros RP c opts W D.
    eapply DumpDataDir_enc; try eassumption.
    - apply DecodeType_full_DT_ok.
    - apply full_agrees_on_catalog.
  Qed.

  (* C01_no_panic for the real decoder: ANY file system (every byte string in every file, missing files), any options *)
  Theorem dump_full_no_panic ToLower TypeName range_order slack fs opts :
    DumpDataDir (DecodeType_full o) ToLower TypeName range_order slack fs opts <> Panic.
  Proof.
    destruct (DumpDataDir_total (DecodeType_full o) (decode_full o) (DecodeType_full_DT_ok o) ToLower TypeName range_order slack fs opts)
      as [r E]. rewrite E. discriminate.
  Qed.
End Cat.
