(* Compose/Inst.v — instances extracted for the end-to-end correspondence run (fn "ReadRowsFull").
   MODEL side: ReadRows / DecodeTuple / DecodeType with the composed decoder DecodeType_full, i.e. with NO placeholder
   for any sub-decoder; only the four library calls that are not logic are tokens, exactly as in C04's own run
   (C04/Tokens.v): "%g" -> <16 hex digits of the float64 bits>, "$%.2f" -> $<cents>, strings.ToValidUTF8 and
   encoding/json -> a token holding the bytes handed over (the harness substitutes the real call's result).
   SPEC side: the reference writers and expectations of the respective Spec files under unambiguous names (every
   property has its own `expected`). *)
Require Import PG.Base.Bytes PG.Base.GoSlice PG.Base.Value.
Require Import PG.C04.Lib PG.C04.Model PG.C04.Spec PG.C04.Tokens PG.C04.ExamplesProofs.
Require Import PG.C02.Model PG.C03.Model PG.C03.Spec.
Require PG.C05.Spec PG.C06.JsonbSpec PG.C07.Spec PG.C01.Spec.
Require Import PG.Compose.Full.

Definition x_oracles : oracles :=
  {| o_fmt_g := tok_g; o_fmt_money := tok_money; o_to_valid_utf8 := tok_tovalid; o_json_unmarshal := tok_json;
     o_DecodeNumeric := fun _ => VNil; o_jsonb_branch := fun _ => VNil; o_decodeArray := fun _ _ => VNil (* ignored *) |}.
Definition x_ReadRows : gslice -> list Column -> bool -> res (list row) := ReadRows_full x_oracles.
Definition x_DecodeTuple := DecodeTuple_full x_oracles.
Definition x_DecodeType : gslice -> Z -> res gval := DecodeType_full x_oracles.

(* heap files of rows given as their stored datums (C01's writer = C02's enc_page/enc_tuple + C03's stored_tuple/fill) *)
Definition s_enc_heap (cols : list Column) (h : PG.C01.Spec.heap (list datum)) : bytes :=
  PG.C01.Spec.enc_heap cols PG.C01.Spec.idds h.
Definition s_page_fits (cols : list Column) (p : PG.C01.Spec.hpage (list datum)) : bool :=
  PG.C01.Spec.page_fits cols PG.C01.Spec.idds p.
Definition s_live_rows (h : PG.C01.Spec.heap (list datum)) : list (list datum) := PG.C01.Spec.live_rows h.
Definition s_expected_row := expected_row.

(* numeric (C05) *)
Definition s_num_enc_short := PG.C05.Spec.enc_short.
Definition s_num_enc_long := PG.C05.Spec.enc_long.
Definition s_num_expected := PG.C05.Spec.expected.
Definition s_num_exact := PG.C05.Spec.in_exact_class.
(* jsonb (C06) *)
Definition s_jsonb_enc := PG.C06.JsonbSpec.enc_jsonb.
Definition s_jsonb_expected := PG.C06.JsonbSpec.expected.
Definition s_jsonb_wf := PG.C06.JsonbSpec.wf_jsonb.
(* arrays (C07) *)
Definition s_arr_enc := PG.C07.Spec.enc_array.
Definition s_arr_expected := PG.C07.Spec.expected.
Definition s_arr_types := PG.C07.Spec.pg_array_types.
