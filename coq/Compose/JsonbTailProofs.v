(* Compose/JsonbTailProofs.v — the C06 model of the jsonb decoder never looks beyond len(data):
   every slice expression of jsonb.go is guarded by a comparison with len(data).  (C04's model hands the
   jsonb branch only the visible bytes; this lemma is what makes that faithful to Go, where the branch
   receives the slice with its capacity.) *)
Require Import PG.Base.Bytes PG.Base.GoSlice PG.Base.Value.
Require Import PG.C06.JsonbModel.
Require Import PG.Compose.TailProofs.

(* a slice whose upper bound is within len: both panic (bad lower bound) or both see the same bytes *)
Lemma slice_in' v t1 t2 lo hi : hi <= blen v ->
  (slice (SL v t1) lo hi = Panic /\ slice (SL v t2) lo hi = Panic) \/
  exists ta tb, slice (SL v t1) lo hi = Ok (SL (sub v lo hi) ta) /\ slice (SL v t2) lo hi = Ok (SL (sub v lo hi) tb).
Proof.
  intros H2. destruct ((0 <=? lo) && (lo <=? hi)) eqn:E.
  - right. apply slice_in; lia.
  - left. unfold slice. split; (destruct (_ && _ && _) eqn:E2; [lia|reflexivity]).
Qed.

Ltac sl_in' v t1 t2 lo hi :=
  let ta := fresh "ta" in let tb := fresh "tb" in let Ea := fresh "Ea" in let Eb := fresh "Eb" in
  destruct (slice_in' v t1 t2 lo hi) as [[Ea Eb]|(ta & tb & Ea & Eb)];
  [lia|rewrite Ea, Eb; cbn [bind jbind lift]; clear Ea Eb; try reflexivity
      |rewrite Ea, Eb; cbn [bind jbind lift vis]; clear Ea Eb].

Lemma read_entries_ti : forall n v t1 t2 off, read_entries n (SL v t1) off = read_entries n (SL v t2) off.
Proof.
  induction n as [|n IH]; intros; [reflexivity|]. cbn [read_entries]. rewrite (IH v t1 t2). reflexivity.
Qed.

Section J.
Variable DecodeNumeric : bytes -> gval.
Variable safeString : bytes -> bytes.
Notation decodeJNumeric := (decodeJNumeric DecodeNumeric).
Notation decodeJEntry := (decodeJEntry DecodeNumeric).
Notation arr_loop := (arr_loop DecodeNumeric).
Notation obj_loop := (obj_loop DecodeNumeric).
Notation parse_body := (parse_body DecodeNumeric).
Notation parseJSONB_f := (parseJSONB_f DecodeNumeric).

Lemma decodeJNumeric_ti v t1 t2 : decodeJNumeric (SL v t1) = decodeJNumeric (SL v t2).
Proof.
  unfold JsonbModel.decodeJNumeric. change (len (SL v t1)) with (blen v). change (len (SL v t2)) with (blen v).
  change (u32 (SL v t1) 0) with (u32 (SL v t2) 0).
  destruct (blen v <? 4); [reflexivity|]. destruct (u32 (SL v t2) 0) as [hdr|]; cbn [bind]; [|reflexivity].
  destruct (Z.land hdr 3 =? 0).
  - cbv zeta. destruct ((Z.shiftr hdr 2 >? 4) && (blen v >=? Z.shiftr hdr 2)) eqn:G; [|reflexivity].
    sl_in' v t1 t2 4 (Z.shiftr hdr 2). reflexivity.
  - cbv zeta. destruct ((Z.shiftr (Z.land hdr 255) 1 >? 1) && (blen v >=? Z.shiftr (Z.land hdr 255) 1)) eqn:G; [|reflexivity].
    sl_in' v t1 t2 1 (Z.shiftr (Z.land hdr 255) 1). reflexivity.
Qed.

Definition rec_ti (rec : gslice -> jres gval) : Prop := forall v t1 t2, rec (SL v t1) = rec (SL v t2).

Lemma decodeJEntry_ti rec v t1 t2 off length je : rec_ti rec ->
  decodeJEntry rec (SL v t1) off length je = decodeJEntry rec (SL v t2) off length je.
Proof.
  intros R. unfold JsonbModel.decodeJEntry. change (len (SL v t1)) with (blen v). change (len (SL v t2)) with (blen v).
  cbv zeta.
  destruct (Z.land je jeTypeMask =? jeString).
  { destruct ((length >=? 0) && (off + length <=? blen v)) eqn:G; [|reflexivity].
    sl_in' v t1 t2 off (off + length). reflexivity. }
  destruct (Z.land je jeTypeMask =? jeNumeric).
  { destruct ((go_align off 4 - off <? length) && (go_align off 4 + length - (go_align off 4 - off) <=? blen v)) eqn:G; [|reflexivity].
    sl_in' v t1 t2 (go_align off 4) (go_align off 4 + length - (go_align off 4 - off)).
    rewrite (decodeJNumeric_ti _ ta tb). reflexivity. }
  destruct (Z.land je jeTypeMask =? jeContainer); [|reflexivity].
  destruct ((go_align off 4 - off <? length) && (go_align off 4 + length - (go_align off 4 - off) <=? blen v)) eqn:G; [|reflexivity].
  sl_in' v t1 t2 (go_align off 4) (go_align off 4 + length - (go_align off 4 - off)).
  apply R.
Qed.

Lemma arr_loop_ti rec v t1 t2 entries ds : rec_ti rec -> forall n i,
  arr_loop rec (SL v t1) entries ds n i = arr_loop rec (SL v t2) entries ds n i.
Proof.
  intros R. induction n as [|n IH]; intros i; [reflexivity|]. cbn [JsonbModel.arr_loop].
  destruct (lift (entryOffLen entries i 0)) as [[o l]| |]; cbn [jbind]; try reflexivity.
  destruct (lift (eidx entries i)) as [je| |]; cbn [jbind]; try reflexivity.
  rewrite (decodeJEntry_ti rec v t1 t2) by exact R. rewrite IH. reflexivity.
Qed.

Lemma obj_loop_ti rec v t1 t2 entries ds count : rec_ti rec -> forall n i,
  obj_loop rec (SL v t1) entries ds count n i = obj_loop rec (SL v t2) entries ds count n i.
Proof.
  intros R. induction n as [|n IH]; intros i; [reflexivity|]. cbn [JsonbModel.obj_loop].
  change (len (SL v t1)) with (blen v). change (len (SL v t2)) with (blen v).
  destruct (lift (entryOffLen entries i 0)) as [[kOff kLen]| |]; cbn [jbind]; try reflexivity.
  assert (K : (if (kLen >=? 0) && (ds + kOff + kLen <=? blen v)
               then s <~ lift (slice (SL v t1) (ds + kOff) (ds + kOff + kLen));; JOk (vis s) else JOk []) =
              (if (kLen >=? 0) && (ds + kOff + kLen <=? blen v)
               then s <~ lift (slice (SL v t2) (ds + kOff) (ds + kOff + kLen));; JOk (vis s) else JOk [])).
  { destruct ((kLen >=? 0) && (ds + kOff + kLen <=? blen v)) eqn:G; [|reflexivity].
    sl_in' v t1 t2 (ds + kOff) (ds + kOff + kLen). reflexivity. }
  rewrite K. clear K.
  destruct (if (kLen >=? 0) && (ds + kOff + kLen <=? blen v)
            then s <~ lift (slice (SL v t2) (ds + kOff) (ds + kOff + kLen));; JOk (vis s) else JOk []) as [key| |];
    cbn [jbind]; try reflexivity.
  destruct (lift (entryOffLen entries (count + i) 0)) as [[vOff vLen]| |]; cbn [jbind]; try reflexivity.
  destruct (lift (eidx entries (count + i))) as [je| |]; cbn [jbind]; try reflexivity.
  rewrite (decodeJEntry_ti rec v t1 t2) by exact R. rewrite IH. reflexivity.
Qed.

Lemma parse_body_ti rec v t1 t2 : rec_ti rec -> parse_body rec (SL v t1) = parse_body rec (SL v t2).
Proof.
  intros R. unfold JsonbModel.parse_body. change (len (SL v t1)) with (blen v). change (len (SL v t2)) with (blen v).
  change (u32 (SL v t1) 0) with (u32 (SL v t2) 0).
  destruct (blen v <? 4); [reflexivity|].
  destruct (lift (u32 (SL v t2) 0)) as [header| |]; cbn [jbind]; try reflexivity. cbv zeta.
  destruct (_ || _); [reflexivity|]. destruct (_ >? blen v); [reflexivity|].
  rewrite (read_entries_ti _ v t1 t2).
  destruct (lift (read_entries _ (SL v t2) 4)) as [entries| |]; cbn [jbind]; try reflexivity.
  destruct (negb (offsets_ok entries 0)); [reflexivity|].
  unfold parseJSONBObject, parseJSONBArray.
  rewrite (obj_loop_ti rec v t1 t2) by exact R. rewrite (arr_loop_ti rec v t1 t2) by exact R. reflexivity.
Qed.

Lemma parseJSONB_f_ti : forall f v t1 t2, parseJSONB_f f (SL v t1) = parseJSONB_f f (SL v t2).
Proof.
  induction f as [|f IH]; intros; [reflexivity|]. cbn [JsonbModel.parseJSONB_f].
  apply parse_body_ti. intros v' t1' t2'. rewrite (IH v' t1' t2'). reflexivity.
Qed.

Theorem DecodeType_jsonb_ti v t1 t2 :
  DecodeType_jsonb DecodeNumeric safeString (SL v t1) = DecodeType_jsonb DecodeNumeric safeString (SL v t2).
Proof.
  unfold DecodeType_jsonb, parseJSONB, fuel_for. change (len (SL v t1)) with (blen v). change (len (SL v t2)) with (blen v).
  rewrite (parseJSONB_f_ti _ v t1 t2). reflexivity.
Qed.

Theorem ParseJSONB_ti v t1 t2 : ParseJSONB DecodeNumeric (SL v t1) = ParseJSONB DecodeNumeric (SL v t2).
Proof.
  unfold ParseJSONB, ParseJSONB_f, fuel_for. change (len (SL v t1)) with (blen v). change (len (SL v t2)) with (blen v).
  rewrite (parseJSONB_f_ti _ v t1 t2). reflexivity.
Qed.
End J.
