(* Compose/Full.v — the composed decoder: C04's DecodeType with its three sub-decoder variables instantiated
   by the REAL models of C05 (numeric), C06 (jsonb) and C07 (arrays), and C03's DecodeTuple / ReadRows on top.
   Definitions only (proofs: Compose/TailProofs.v, FullProofs.v, JsonbTailProofs.v).

   The remaining oracles are the four library calls that are not logic: Go's %g and $%.2f float
   printing, strings.ToValidUTF8 and encoding/json (fields o_fmt_g, o_fmt_money, o_to_valid_utf8,
   o_json_unmarshal of C04's [oracles]); the fields o_DecodeNumeric / o_jsonb_branch / o_decodeArray of
   the record handed in are IGNORED and replaced.

   Module names clash (every property has a Model.v), hence the qualified names. *)
Require Import PG.Base.Bytes PG.Base.GoSlice PG.Base.Value.
Require Import PG.C04.Lib PG.C04.Model PG.C04.ExamplesProofs.
Require PG.C05.Model PG.C06.JsonbModel PG.C07.Model PG.C03.Model.

Definition unres (r : res gval) : gval := match r with Ok v => v | Panic => VNil end.
Definition unjres (r : PG.C06.JsonbModel.jres gval) : gval :=
  match r with PG.C06.JsonbModel.JOk v => v | _ => VNil end.

(* types.go `case OidNumeric: return DecodeNumeric(data)` : C05's model on the bytes handed over.
   (FullProofs.num_full_faithful: the [Panic] branch of [unres] is dead and the capacity tail irrelevant.) *)
Definition num_full (b : bytes) : gval := unres (PG.C05.Model.DecodeNumeric (exact b)).

(* types.go `case OidJSONB:` : C06's model with C05's numeric decoder and C04's safeString *)
Definition jsonb_full (to_valid_utf8 : bytes -> bytes) (b : bytes) : gval :=
  unjres (PG.C06.JsonbModel.DecodeType_jsonb num_full (safeString to_valid_utf8) (exact b)).

Section Full.
  Variable o : oracles.

  (* DecodeType on one ARRAY ELEMENT: element types are never array types (FullProofs.elem_not_array), so the
     array branch of DecodeType is dead there and the recursion DecodeType -> decodeArray -> DecodeType is cut *)
  Definition DecodeType_scalar : gslice -> Z -> res gval :=
    PG.C04.Model.DecodeType (o_fmt_g o) (o_fmt_money o) (o_to_valid_utf8 o) (o_json_unmarshal o)
      num_full (jsonb_full (o_to_valid_utf8 o)) (fun _ _ => VNil).
  Definition elem_full (b : bytes) (eoid : Z) : res gval := DecodeType_scalar (exact b) eoid.

  (* types.go `if elemOid, ok := arrayElemTypes[oid]; ok { return decodeArray(data, elemOid) }` : C07's model *)
  Definition arr_full (b : bytes) (eoid : Z) : gval := unres (PG.C07.Model.decodeArray elem_full (exact b) eoid).

  Definition full_oracles : oracles :=
    {| o_fmt_g := o_fmt_g o; o_fmt_money := o_fmt_money o; o_to_valid_utf8 := o_to_valid_utf8 o;
       o_json_unmarshal := o_json_unmarshal o;
       o_DecodeNumeric := num_full; o_jsonb_branch := jsonb_full (o_to_valid_utf8 o); o_decodeArray := arr_full |}.

  (* pgdump.DecodeType, all of it *)
  Definition DecodeType_full : gslice -> Z -> res gval := DecodeTypeO full_oracles.
  (* ... as a total function of the visible bytes *)
  Definition decode_full (b : bytes) (oid : Z) : gval := unres (DecodeType_full (exact b) oid).

  (* pgdump.DecodeTuple / pgdump.ReadRows with the real decoder *)
  Definition DecodeTuple_full := PG.C03.Model.DecodeTuple DecodeType_full.
  Definition ReadRows_full := PG.C03.Model.ReadRows DecodeType_full.
End Full.
