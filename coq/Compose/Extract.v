Require Import PG.C04.Lib PG.C04.Spec PG.C03.Model PG.C03.Spec PG.C03.Main PG.C01.Spec PG.Compose.Full PG.Compose.Inst.
Require Extraction. Require ExtrOcamlBasic.
Extraction "model.ml" x_ReadRows x_DecodeTuple x_DecodeType s_enc_heap s_page_fits s_live_rows s_expected_row
  s_num_enc_short s_num_enc_long s_num_expected s_num_exact s_jsonb_enc s_jsonb_expected s_jsonb_wf
  s_arr_enc s_arr_expected s_arr_types
  enc_bool exp_bool enc_char exp_char enc_name exp_name enc_int2 exp_int2 enc_int4 exp_int4 enc_int8 exp_int8
  enc_u32 exp_u32 enc_float4 exp_float4 enc_float8 exp_float8 enc_text exp_text exp_bytea enc_date exp_date
  enc_ts exp_ts exp_uuid valid_dateb emptyVarlenaValue stored_tuple PG.C02.Spec.enc_tuple fill bitmap_of has_nulls.
