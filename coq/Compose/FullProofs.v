(* Compose/FullProofs.v — step 2: the composed decoder [DecodeType_full] (C04's dispatch with C05's numeric,
   C06's jsonb and C07's array models plugged in) is total and depends only on the visible bytes, i.e. it
   satisfies hypothesis DT_ok of C03 (and C01); and it IS what the Go code does at each of the three hand-over
   points (faithfulness of the three instantiations of Full.v):
     - numeric:  DecodeType_full s 1700 = C05.DecodeNumeric s                      (Go passes the slice with its capacity)
     - jsonb:    lift (DecodeType_full s 3802) = C06.DecodeType_jsonb … s
     - arrays:   DecodeType_full s oid = C07.decodeArray (DecodeType_full itself on each element) s elemOid
   the last one being the recursive equation of types.go (DecodeType -> decodeArray -> DecodeType), which Full.v
   had cut by giving the element decoder a dead array branch: element types are never array types. *)
Require Import PG.Base.Bytes PG.Base.GoSlice PG.Base.Value.
Require Import PG.C04.Lib PG.C04.Model PG.C04.ExamplesProofs PG.C04.SafetyProofs.
Require PG.C05.Model PG.C05.Spec PG.C05.LayoutProofs.
Require PG.C06.JsonbModel PG.C06.JsonbFuelProofs PG.C06.JsonbSafeProofs.
Require PG.C07.Model PG.C07.ProofsSafety PG.C07.ProofsTail.
Require Import PG.Compose.TailProofs PG.Compose.JsonbTailProofs PG.Compose.Full.

Module N := PG.C05.Model.
Module J := PG.C06.JsonbModel.
Module A := PG.C07.Model.

(* ---------- numeric (C05) ---------- *)
Lemma num_full_spec b : num_full b = PG.C05.Spec.spec_decode PG.C05.LayoutProofs.eval_model b.
Proof. unfold num_full. rewrite PG.C05.LayoutProofs.DecodeNumeric_total. reflexivity. Qed.

(* the wrapper loses nothing: C05's decoder on ANY slice (any capacity tail) = num_full of its visible bytes *)
Theorem num_full_faithful s : N.DecodeNumeric s = Ok (num_full (vis s)).
Proof. rewrite num_full_spec. apply PG.C05.LayoutProofs.DecodeNumeric_total. Qed.

(* jsonb.go decodeJNumeric: C06's model (sub-decoder on bytes) with num_full = C05's own model of the same function *)
Theorem decodeJNumeric_agree s : J.decodeJNumeric num_full s = N.decodeJNumeric s.
Proof.
  unfold J.decodeJNumeric, N.decodeJNumeric.
  destruct (len s <? 4); [reflexivity|]. destruct (u32 s 0) as [hdr|]; cbn [bind]; [|reflexivity].
  destruct (Z.land hdr 3 =? 0).
  - cbv zeta. destruct (_ && _).
    + destruct (slice s 4 _) as [c|]; cbn [bind]; [|reflexivity]. rewrite num_full_faithful. reflexivity.
    + cbn [bind]. rewrite num_full_faithful. reflexivity.
  - cbv zeta. destruct (_ && _).
    + destruct (slice s 1 _) as [c|]; cbn [bind]; [|reflexivity]. rewrite num_full_faithful. reflexivity.
    + cbn [bind]. rewrite num_full_faithful. reflexivity.
Qed.

(* ---------- jsonb (C06) ---------- *)
Theorem jsonb_full_faithful tvu s :
  J.DecodeType_jsonb num_full (safeString tvu) s = J.JOk (jsonb_full tvu (vis s)).
Proof.
  destruct s as [v t]. cbn [vis]. unfold jsonb_full, exact.
  rewrite (DecodeType_jsonb_ti num_full (safeString tvu) v t []).
  destruct (PG.C06.JsonbSafeProofs.DecodeType_jsonb_total num_full (safeString tvu) {| vis := v; tail := [] |}) as [r E].
  rewrite E. reflexivity.
Qed.

(* ---------- element types are never array types ---------- *)
Lemma elem_not_array_b :
  forallb (fun kv : Z * Z => match lookup (snd kv) arrayElemTypes with None => true | Some _ => false end) arrayElemTypes = true.
Proof. vm_compute. reflexivity. Qed.
Lemma lookup_In {A} k (l : list (Z * A)) v : lookup k l = Some v -> In (k, v) l.
Proof.
  induction l as [|[k' v'] l IH]; cbn [lookup]; [discriminate|].
  destruct (k =? k') eqn:E; [intros [= <-]; left; f_equal; lia|intros H; right; auto].
Qed.
Theorem elem_not_array k e : lookup k arrayElemTypes = Some e -> lookup e arrayElemTypes = None.
Proof.
  intros H. apply lookup_In in H. pose proof elem_not_array_b as B. rewrite forallb_forall in B.
  specialize (B _ H). cbn [snd] in B. destruct (lookup e arrayElemTypes); [discriminate B|reflexivity].
Qed.

(* C04 and C07 carry their own copy of the Go tables and their own lookup: they are the same tables *)
Lemma lookup_same k : forall l, A.lookup k l = lookup k l.
Proof.
  induction l as [|[k' v] l IH]; [reflexivity|]. cbn [A.lookup lookup]. rewrite IH, (Z.eqb_sym k' k). reflexivity.
Qed.
Lemma arrayElemTypes_same : A.arrayElemTypes = arrayElemTypes.
Proof. reflexivity. Qed.
Lemma lookup_elem_same k : A.lookup k A.arrayElemTypes = lookup k arrayElemTypes.
Proof. rewrite arrayElemTypes_same. apply lookup_same. Qed.
(* fixedLengths: the same map (C07 lists name last, C04 third; the keys are distinct) *)
Lemma fixedLengths_same_b :
  forallb (fun kv : Z * Z => match lookup (fst kv) fixedLengths with Some l => l =? snd kv | None => false end) A.fixedLengths
  && forallb (fun kv : Z * Z => match A.lookup (fst kv) A.fixedLengths with Some l => l =? snd kv | None => false end) fixedLengths
  = true.
Proof. vm_compute. reflexivity. Qed.
Lemma lookupA_In k l v : A.lookup k l = Some v -> In (k, v) l.
Proof. rewrite lookup_same. apply lookup_In. Qed.
Theorem fixedLengths_same k : A.lookup k A.fixedLengths = lookup k fixedLengths.
Proof.
  pose proof fixedLengths_same_b as B. apply andb_prop in B. destruct B as [B1 B2]. rewrite forallb_forall in B1, B2.
  destruct (A.lookup k A.fixedLengths) as [l|] eqn:E1.
  - apply lookupA_In in E1. specialize (B1 _ E1). cbn [fst snd] in B1.
    destruct (lookup k fixedLengths) as [l'|]; [f_equal; lia|discriminate B1].
  - destruct (lookup k fixedLengths) as [l'|] eqn:E2; [|reflexivity].
    apply lookup_In in E2. specialize (B2 _ E2). cbn [fst snd] in B2. rewrite E1 in B2. discriminate B2.
Qed.

Section Full.
  Variable o : oracles.
  Notation tvu := (o_to_valid_utf8 o).

  (* the oracle bundle of the element decoder: same as full_oracles but with a dead array branch *)
  Definition scalar_oracles : oracles :=
    {| o_fmt_g := o_fmt_g o; o_fmt_money := o_fmt_money o; o_to_valid_utf8 := o_to_valid_utf8 o;
       o_json_unmarshal := o_json_unmarshal o;
       o_DecodeNumeric := num_full; o_jsonb_branch := jsonb_full (o_to_valid_utf8 o); o_decodeArray := fun _ _ => VNil |}.
  Lemma DecodeType_scalar_eq : DecodeType_scalar o = DecodeTypeO scalar_oracles.
  Proof. reflexivity. Qed.

  (* ---------- totality and locality (steps 1+2) ---------- *)
  Theorem DecodeType_scalar_ok s oid : DecodeType_scalar o s oid = Ok (decode_o scalar_oracles (vis s) oid).
  Proof. rewrite DecodeType_scalar_eq. apply DecodeTypeO_DT_ok. Qed.
  Lemma elem_full_total b e : elem_full o b e <> Panic.
  Proof. unfold elem_full. rewrite DecodeType_scalar_ok. discriminate. Qed.

  Theorem DecodeType_full_no_panic s oid : DecodeType_full o s oid <> Panic.
  Proof. unfold DecodeType_full. apply DecodeType_np. Qed.
  Theorem DecodeType_full_tail_independent v t1 t2 oid :
    DecodeType_full o {| vis := v; tail := t1 |} oid = DecodeType_full o {| vis := v; tail := t2 |} oid.
  Proof. unfold DecodeType_full. apply DecodeTypeO_tail_independent. Qed.
  (* exactly C03's (and C01's) hypothesis DT_ok *)
  Theorem DecodeType_full_DT_ok s oid : DecodeType_full o s oid = Ok (decode_full o (vis s) oid).
  Proof.
    unfold decode_full, DecodeType_full. rewrite (DecodeTypeO_DT_ok (full_oracles o) s oid).
    rewrite (DecodeTypeO_DT_ok (full_oracles o) (exact (vis s)) oid). reflexivity.
  Qed.

  (* ---------- the array layer: no panic, within len ---------- *)
  Theorem arr_full_faithful s e : A.decodeArray (elem_full o) s e = Ok (arr_full o (vis s) e).
  Proof.
    destruct s as [v t]. cbn [vis]. unfold arr_full, exact.
    rewrite (PG.C07.ProofsTail.decodeArray_tail (elem_full o) v t [] e).
    pose proof (PG.C07.ProofsSafety.decodeArray_no_panic (elem_full o) elem_full_total {| vis := v; tail := [] |} e) as NP.
    destruct (A.decodeArray (elem_full o) {| vis := v; tail := [] |} e); [reflexivity|congruence].
  Qed.

  (* ---------- faithfulness: what DecodeType_full does at the three hand-over points ---------- *)
  Lemma full_unfold s oid :
    DecodeType_full o s oid =
    if len s =? 0 then Ok VNil else
    match lookup oid arrayElemTypes with
    | Some e => Ok (arr_full o (vis s) e)
    | None => decodeScalar (o_fmt_g o) (o_fmt_money o) tvu (o_json_unmarshal o) num_full (jsonb_full tvu) (arr_full o) s oid
    end.
  Proof. reflexivity. Qed.

  Theorem full_numeric s : len s <> 0 -> DecodeType_full o s 1700 = N.DecodeNumeric s.
  Proof.
    intros H. rewrite full_unfold. destruct (len s =? 0) eqn:E; [lia|].
    rewrite num_full_faithful. reflexivity.
  Qed.

  Theorem full_jsonb s : J.lift (DecodeType_full o s 3802) = J.DecodeType_jsonb num_full (safeString tvu) s.
  Proof.
    rewrite jsonb_full_faithful. rewrite full_unfold. destruct (len s =? 0) eqn:E.
    - cbn [J.lift]. f_equal. unfold jsonb_full, J.DecodeType_jsonb. change (len (exact (vis s))) with (len s).
      rewrite E. reflexivity.
    - reflexivity.
  Qed.

  (* on a non-array oid the array oracle is never consulted: neither by the dispatch nor by decodeRange, whose
     bound types int4/int8/date/timestamp/timestamptz are not array types *)
  Notation GEN dA := (DecodeType_gen (o_fmt_g o) (o_fmt_money o) tvu (o_json_unmarshal o) num_full (jsonb_full tvu) dA).
  Notation RNG dA := (decodeRange (o_fmt_g o) (o_fmt_money o) tvu (o_json_unmarshal o) num_full (jsonb_full tvu) dA).
  Notation ELEM dA := (DecodeType_elem (o_fmt_g o) (o_fmt_money o) tvu (o_json_unmarshal o) num_full (jsonb_full tvu) dA).
  Lemma gen_noarr dA1 dA2 rng s oid : lookup oid arrayElemTypes = None -> GEN dA1 rng s oid = GEN dA2 rng s oid.
  Proof. intros H. unfold DecodeType_gen. destruct (len s =? 0); [reflexivity|]. rewrite H. reflexivity. Qed.
  Lemma decodeRange_noarr dA1 dA2 s oid : RNG dA1 s oid = RNG dA2 s oid.
  Proof.
    unfold decodeRange. destruct (len s <? 5); [reflexivity|].
    destruct (idx s (len s - 1)) as [flags|]; cbn [bind]; [|reflexivity].
    destruct (bit flags 0); [reflexivity|].
    destruct (range_elem oid) as [[eo size]|] eqn:RE; [|reflexivity].
    assert (Heo : lookup eo arrayElemTypes = None).
    { revert RE. unfold range_elem.
      destruct (oid =? 3904). { intros [= <- <-]. reflexivity. }
      destruct (oid =? 3926). { intros [= <- <-]. reflexivity. }
      destruct (oid =? 3912). { intros [= <- <-]. reflexivity. }
      destruct (oid =? 3908). { intros [= <- <-]. reflexivity. }
      destruct (oid =? 3910). { intros [= <- <-]. reflexivity. }
      intros RE; discriminate RE. }
    assert (EL : forall sl, ELEM dA1 sl eo = ELEM dA2 sl eo).
    { intros sl. unfold DecodeType_elem. apply gen_noarr. exact Heo. }
    cbv zeta. destruct (negb (bit flags 3)).
    - destruct (_ >? len s - 1); [reflexivity|].
      destruct (slice s 4 (4 + size)) as [sl|]; cbn [bind]; [|reflexivity]. rewrite (EL sl).
      destruct (ELEM dA2 sl eo) as [x|]; cbn [bind]; [|reflexivity].
      destruct (negb (bit flags 4)); [|reflexivity].
      destruct (_ >? len s - 1); [reflexivity|].
      destruct (slice s _ _) as [sl2|]; cbn [bind]; [|reflexivity]. rewrite (EL sl2). reflexivity.
    - destruct (negb (bit flags 4)); [|reflexivity].
      destruct (_ >? len s - 1); [reflexivity|].
      destruct (slice s _ _) as [sl2|]; cbn [bind]; [|reflexivity]. rewrite (EL sl2). reflexivity.
  Qed.
  Lemma scalar_is_full s e : lookup e arrayElemTypes = None -> DecodeType_scalar o s e = DecodeType_full o s e.
  Proof.
    intros H. unfold DecodeType_full, DecodeTypeO, DecodeType_scalar, Model.DecodeType. cbn [full_oracles o_fmt_g o_fmt_money
      o_to_valid_utf8 o_json_unmarshal o_DecodeNumeric o_jsonb_branch o_decodeArray].
    rewrite (gen_noarr (fun _ _ => VNil) (arr_full o)) by exact H.
    unfold DecodeType_gen. destruct (len s =? 0); [reflexivity|]. rewrite H.
    unfold decodeScalar_gen.
    assert (K : forall k, decodeKind (o_fmt_g o) (o_fmt_money o) tvu (o_json_unmarshal o) num_full (jsonb_full tvu)
                            (RNG (fun _ _ => VNil)) k s e =
                          decodeKind (o_fmt_g o) (o_fmt_money o) tvu (o_json_unmarshal o) num_full (jsonb_full tvu)
                            (RNG (arr_full o)) k s e).
    { intros k. destruct k; cbn [decodeKind]; try reflexivity.
      rewrite (decodeRange_noarr (fun _ _ => VNil) (arr_full o)). reflexivity. }
    rewrite K. reflexivity.
  Qed.

  (* decodeArray uses its element decoder at ONE type id only *)
  Lemma parse_elems_ext (D1 D2 : bytes -> Z -> res gval) raw eoid elemLen fixed nulls al :
    (forall b, D1 b eoid = D2 b eoid) -> forall n i off,
    A.parse_elems D1 raw eoid elemLen fixed nulls al n i off = A.parse_elems D2 raw eoid elemLen fixed nulls al n i off.
  Proof.
    intros H. induction n as [|n IH]; intros i off; [reflexivity|]. cbn [A.parse_elems].
    destruct (match nulls with None => Ok false | Some nb => b <- idx nb (i / 8);; Ok (Z.land b (Z.shiftl 1 (i mod 8)) =? 0) end)
      as [isnull|]; cbn [bind]; [|reflexivity].
    destruct isnull; [rewrite IH; reflexivity|]. cbv zeta.
    destruct fixed.
    - destruct (_ >? len raw); [reflexivity|]. destruct (slice raw _ _) as [e|]; cbn [bind]; [|reflexivity].
      rewrite H. destruct (D2 (vis e) eoid); cbn [bind]; [|reflexivity]. rewrite IH. reflexivity.
    - destruct (_ >=? len raw); [reflexivity|]. destruct (idx raw _) as [hdr|]; cbn [bind]; [|reflexivity].
      destruct (Z.land hdr 1 =? 1).
      + destruct (_ || _); [reflexivity|]. destruct (slice raw _ _) as [e|]; cbn [bind]; [|reflexivity].
        rewrite H. destruct (D2 (vis e) eoid); cbn [bind]; [|reflexivity]. rewrite IH. reflexivity.
      + destruct (_ >? len raw); [reflexivity|]. destruct (u32 raw _) as [w|]; cbn [bind]; [|reflexivity].
        destruct (_ || _); [reflexivity|]. destruct (slice raw _ _) as [e|]; cbn [bind]; [|reflexivity].
        rewrite H. destruct (D2 (vis e) eoid); cbn [bind]; [|reflexivity]. rewrite IH. reflexivity.
  Qed.
  Lemma decodeArray_ext (D1 D2 : bytes -> Z -> res gval) s eoid :
    (forall b, D1 b eoid = D2 b eoid) -> A.decodeArray D1 s eoid = A.decodeArray D2 s eoid.
  Proof.
    intros H. unfold A.decodeArray. destruct (A.decodeArray_header s) as [[| |ds c nulls]|]; cbn [bind]; try reflexivity.
    destruct (match A.lookup eoid A.fixedLengths with Some l => (l, true) | None => (0, false) end) as [elemLen fixed].
    unfold A.parseArrayElements. destruct (c <? 0); [reflexivity|].
    rewrite (parse_elems_ext D1 D2 s eoid elemLen fixed nulls _ H). reflexivity.
  Qed.

  (* Go: DecodeType applied to one element = the slice raw[a:b] handed to DecodeType; the model hands the bytes *)
  Definition full_on_bytes (b : bytes) (eoid : Z) : res gval := DecodeType_full o (exact b) eoid.

  (* the recursive equation of types.go:161-168: on an array type, DecodeType = decodeArray with DecodeType ITSELF
     as element decoder *)
  Theorem full_array s oid e : len s <> 0 -> lookup oid arrayElemTypes = Some e ->
    DecodeType_full o s oid = A.decodeArray full_on_bytes s e.
  Proof.
    intros Hl He. rewrite full_unfold. destruct (len s =? 0) eqn:E; [lia|]. rewrite He.
    rewrite <- arr_full_faithful. apply decodeArray_ext. intros b. unfold elem_full, full_on_bytes.
    apply scalar_is_full. eapply elem_not_array; exact He.
  Qed.

  (* ... and in terms of C07's own entry point (the array branch of DecodeType), for EVERY oid and slice *)
  Theorem full_array_branch s oid :
    A.DecodeType_array full_on_bytes s oid =
    match lookup oid arrayElemTypes with
    | Some _ => v <- DecodeType_full o s oid ;; Ok (Some v)
    | None => if len s =? 0 then Ok (Some VNil) else Ok None
    end.
  Proof.
    unfold A.DecodeType_array. rewrite lookup_elem_same.
    destruct (lookup oid arrayElemTypes) as [e|] eqn:He.
    - destruct (len s =? 0) eqn:E.
      + rewrite full_unfold, E. reflexivity.
      + rewrite (full_array s oid e) by (lia || exact He). reflexivity.
    - reflexivity.
  Qed.
End Full.
