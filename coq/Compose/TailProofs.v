(* Compose/TailProofs.v — step 1: the C04 model of DecodeType never looks beyond len(data).
   For every oracle bundle, every oid, every visible byte string v and ANY two capacity tails the result
   is the same.  Only [slice] can reach the tail (Go checks s[a:b] against cap); every slice expression
   of decodeScalar / decodeRange / decodePathOrPolygon is shown to stay within len under the guards that
   precede it (the fixed-width guard of decodeScalar, dataEnd in decodeRange, npts in decodePathOrPolygon). *)
Require Import PG.Base.Bytes PG.Base.GoSlice PG.Base.Value.
Require Import PG.C04.Lib PG.C04.Model PG.C04.Spec PG.C04.LibProofs PG.C04.SafetyProofs PG.C04.ExamplesProofs.

Notation "'SL' v t" := {| vis := v; tail := t |} (at level 10, v at level 9, t at level 9).

(* a slice expression whose bounds lie within len: same visible bytes whatever the tail *)
Lemma slice_in v t1 t2 lo hi : 0 <= lo -> lo <= hi -> hi <= blen v ->
  exists ta tb, slice (SL v t1) lo hi = Ok (SL (sub v lo hi) ta) /\ slice (SL v t2) lo hi = Ok (SL (sub v lo hi) tb).
Proof.
  intros H0 H1 H2. unfold slice, cap, mem. cbn [vis tail].
  pose proof (blen_nonneg t1). pose proof (blen_nonneg t2).
  destruct ((0 <=? lo) && (lo <=? hi) && (hi <=? blen v + blen t1)) eqn:E1; [|lia].
  destruct ((0 <=? lo) && (lo <=? hi) && (hi <=? blen v + blen t2)) eqn:E2; [|lia].
  rewrite !sub_app_l by lia. eauto.
Qed.

Ltac sl_in v t1 t2 lo hi :=
  let ta := fresh "ta" in let tb := fresh "tb" in let Ea := fresh "Ea" in let Eb := fresh "Eb" in
  destruct (slice_in v t1 t2 lo hi) as (ta & tb & Ea & Eb); [lia|lia|lia|rewrite Ea, Eb; cbn [bind]; clear Ea Eb].

(* loops that only index *)
Lemma bits_loop_ti : forall cnt v t1 t2 i, bits_loop cnt (SL v t1) i = bits_loop cnt (SL v t2) i.
Proof.
  induction cnt as [|cnt IH]; intros; [reflexivity|]. cbn [bits_loop]. cbv zeta.
  rewrite (IH v t1 t2). reflexivity.
Qed.
Lemma idx_list_ti : forall n v t1 t2 i, idx_list n (SL v t1) i = idx_list n (SL v t2) i.
Proof.
  induction n as [|n IH]; intros; [reflexivity|]. cbn [idx_list]. rewrite (IH v t1 t2). reflexivity.
Qed.
Lemma inet6_parts_ti : forall n v t1 t2 a, inet6_parts n (SL v t1) a = inet6_parts n (SL v t2) a.
Proof.
  induction n as [|n IH]; intros; [reflexivity|]. cbn [inet6_parts]. rewrite (IH v t1 t2). reflexivity.
Qed.
Lemma decodeBitString_ti v t1 t2 : decodeBitString (SL v t1) = decodeBitString (SL v t2).
Proof.
  unfold decodeBitString. change (len (SL v t1)) with (len (SL v t2)). change (i32 (SL v t1) 0) with (i32 (SL v t2) 0).
  destruct (len (SL v t2) <? 4); [reflexivity|]. destruct (i32 (SL v t2) 0) as [n|]; cbn [bind]; [|reflexivity].
  destruct (n =? 0); [reflexivity|]. destruct (_ || _); [reflexivity|]. apply bits_loop_ti.
Qed.
Lemma decodeInterval_ti v t1 t2 : decodeInterval (SL v t1) = decodeInterval (SL v t2).
Proof. reflexivity. Qed.
Lemma decodeInet_ti v t1 t2 : decodeInet (SL v t1) = decodeInet (SL v t2).
Proof.
  unfold decodeInet. change (len (SL v t1)) with (len (SL v t2)). change (vis (SL v t1)) with (vis (SL v t2)).
  rewrite !(inet6_parts_ti 8 v t1 t2). reflexivity.
Qed.

Section T.
  Variable fmt_g : Z -> bytes.
  Variable fmt_money : Z -> bytes.
  Variable to_valid_utf8 : bytes -> bytes.
  Variable json_unmarshal : bytes -> option gval.
  Variable DecodeNumeric : bytes -> gval.
  Variable jsonb_branch : bytes -> gval.
  Variable decodeArray : bytes -> Z -> gval.
  Notation DecodeType := (DecodeType fmt_g fmt_money to_valid_utf8 json_unmarshal DecodeNumeric jsonb_branch decodeArray).
  Notation DecodeType_gen := (DecodeType_gen fmt_g fmt_money to_valid_utf8 json_unmarshal DecodeNumeric jsonb_branch decodeArray).
  Notation DecodeType_elem := (DecodeType_elem fmt_g fmt_money to_valid_utf8 json_unmarshal DecodeNumeric jsonb_branch decodeArray).
  Notation decodeKind := (decodeKind fmt_g fmt_money to_valid_utf8 json_unmarshal DecodeNumeric jsonb_branch).
  Notation decodeRange := (decodeRange fmt_g fmt_money to_valid_utf8 json_unmarshal DecodeNumeric jsonb_branch decodeArray).
  Notation decodePoint := (decodePoint fmt_g).
  Notation decodePathOrPolygon := (decodePathOrPolygon fmt_g).

  Lemma decodePoint_ti v t1 t2 : decodePoint (SL v t1) = decodePoint (SL v t2).
  Proof. reflexivity. Qed.

  Lemma path_points_ti : forall n v t1 t2 i, 0 <= i -> 5 + (i + Z.of_nat n) * 16 <= blen v ->
    path_points fmt_g n (SL v t1) i = path_points fmt_g n (SL v t2) i.
  Proof.
    induction n as [|n IH]; intros v t1 t2 i Hi Hl; [reflexivity|].
    cbn [path_points]. sl_in v t1 t2 (5 + i * 16) (5 + (i + 1) * 16).
    rewrite (decodePoint_ti _ ta tb). rewrite (IH v t1 t2 (i + 1)) by lia. reflexivity.
  Qed.

  Lemma decodePathOrPolygon_ti v t1 t2 oid : decodePathOrPolygon (SL v t1) oid = decodePathOrPolygon (SL v t2) oid.
  Proof.
    unfold decodePathOrPolygon. change (len (SL v t1)) with (blen v). change (len (SL v t2)) with (blen v).
    change (idx (SL v t1) 0) with (idx (SL v t2) 0). change (i32 (SL v t1) 1) with (i32 (SL v t2) 1).
    destruct (blen v <? 5); [reflexivity|].
    destruct (idx (SL v t2) 0) as [c|]; cbn [bind]; [|reflexivity].
    destruct (i32 (SL v t2) 1) as [n|]; cbn [bind]; [|reflexivity].
    destruct ((n <? 0) || (blen v <? 5 + n * 16)) eqn:G; [reflexivity|].
    rewrite (path_points_ti (Z.to_nat n) v t1 t2 0) by lia. reflexivity.
  Qed.

  (* one switch case, under the guards that DecodeType/decodeScalar establish before the switch *)
  Lemma decodeKind_ti rng k v t1 t2 oid :
    (forall v t1 t2 o, rng (SL v t1) o = rng (SL v t2) o) -> 1 <= blen v -> minlen k <= blen v ->
    decodeKind rng k (SL v t1) oid = decodeKind rng k (SL v t2) oid.
  Proof.
    intros R L1 L. destruct k; cbn [decodeKind minlen] in *; try reflexivity.
    - (* char *) unfold slice_to. sl_in v t1 t2 0 1. reflexivity.
    - (* bit *) rewrite (decodeBitString_ti v t1 t2). reflexivity.
    - (* uuid *) unfold hexslice.
      sl_in v t1 t2 0 4. sl_in v t1 t2 4 6. sl_in v t1 t2 6 8. sl_in v t1 t2 8 10. sl_in v t1 t2 10 16. reflexivity.
    - (* lseg *) sl_in v t1 t2 0 16. rewrite (decodePoint_ti _ ta tb). destruct (decodePoint _); cbn [bind]; [|reflexivity].
      sl_in v t1 t2 16 32. rewrite (decodePoint_ti _ ta0 tb0). reflexivity.
    - (* box *) sl_in v t1 t2 0 16. rewrite (decodePoint_ti _ ta tb). destruct (decodePoint _); cbn [bind]; [|reflexivity].
      sl_in v t1 t2 16 32. rewrite (decodePoint_ti _ ta0 tb0). reflexivity.
    - (* circle *) sl_in v t1 t2 0 16. rewrite (decodePoint_ti _ ta tb). reflexivity.
    - (* path / polygon *) rewrite (decodePathOrPolygon_ti v t1 t2). reflexivity.
    - (* range *) rewrite (R v t1 t2). reflexivity.
  Qed.

  Lemma DecodeType_gen_ti rng : (forall v t1 t2 o, rng (SL v t1) o = rng (SL v t2) o) ->
    forall v t1 t2 oid, DecodeType_gen rng (SL v t1) oid = DecodeType_gen rng (SL v t2) oid.
  Proof.
    intros R v t1 t2 oid. unfold DecodeType_gen. change (len (SL v t1)) with (blen v). change (len (SL v t2)) with (blen v).
    pose proof (blen_nonneg v).
    destruct (blen v =? 0) eqn:E; [reflexivity|].
    destruct (lookup oid arrayElemTypes); [reflexivity|].
    unfold decodeScalar_gen. change (len (SL v t1)) with (blen v). change (len (SL v t2)) with (blen v).
    pose proof (kind_minlen oid) as K.
    destruct (lookup oid fixedLengths) as [n|].
    - destruct (blen v <? n) eqn:E2; [reflexivity|]. apply decodeKind_ti; auto; lia.
    - apply decodeKind_ti; auto; lia.
  Qed.

  Lemma DecodeType_elem_ti v t1 t2 oid : DecodeType_elem (SL v t1) oid = DecodeType_elem (SL v t2) oid.
  Proof. unfold Model.DecodeType_elem. apply DecodeType_gen_ti. reflexivity. Qed.

  Lemma decodeRange_ti v t1 t2 oid : decodeRange (SL v t1) oid = decodeRange (SL v t2) oid.
  Proof.
    unfold Model.decodeRange. change (len (SL v t1)) with (blen v). change (len (SL v t2)) with (blen v).
    change (vis (SL v t1)) with v. change (vis (SL v t2)) with v.
    change (idx (SL v t1) (blen v - 1)) with (idx (SL v t2) (blen v - 1)).
    destruct (blen v <? 5) eqn:E; [reflexivity|].
    destruct (idx (SL v t2) (blen v - 1)) as [flags|]; cbn [bind]; [|reflexivity].
    destruct (bit flags 0); [reflexivity|].
    destruct (range_elem oid) as [[eo size]|] eqn:RE; [|reflexivity].
    assert (SZ : size = 4 \/ size = 8).
    { revert RE. unfold range_elem.
      destruct (oid =? 3904). { intros RE; injection RE as H1 H2; lia. }
      destruct (oid =? 3926). { intros RE; injection RE as H1 H2; lia. }
      destruct (oid =? 3912). { intros RE; injection RE as H1 H2; lia. }
      destruct (oid =? 3908). { intros RE; injection RE as H1 H2; lia. }
      destruct (oid =? 3910). { intros RE; injection RE as H1 H2; lia. }
      intros RE; discriminate RE. }
    cbv zeta.
    assert (UP : forall lb offset, 4 <= offset ->
      (if negb (bit flags 4)
       then let offset0 := if size >? 1 then go_align (offset + 4) size - 4 else offset in
            if offset0 + size >? blen v - 1 then Ok (bs "[?,?]")
            else sl <- slice (SL v t1) offset0 (offset0 + size);;
                 x <- DecodeType_elem sl eo;;
                 Ok (range_render (bit flags 1) (bit flags 2) (bit flags 3) (bit flags 4) lb (fmt_v x))
       else Ok (range_render (bit flags 1) (bit flags 2) (bit flags 3) (bit flags 4) lb [])) =
      (if negb (bit flags 4)
       then let offset0 := if size >? 1 then go_align (offset + 4) size - 4 else offset in
            if offset0 + size >? blen v - 1 then Ok (bs "[?,?]")
            else sl <- slice (SL v t2) offset0 (offset0 + size);;
                 x <- DecodeType_elem sl eo;;
                 Ok (range_render (bit flags 1) (bit flags 2) (bit flags 3) (bit flags 4) lb (fmt_v x))
       else Ok (range_render (bit flags 1) (bit flags 2) (bit flags 3) (bit flags 4) lb []))).
    { intros lb offset Ho. destruct (negb (bit flags 4)); [|reflexivity]. cbv zeta.
      assert (AL : offset <= (if size >? 1 then go_align (offset + 4) size - 4 else offset)).
      { destruct SZ as [-> | ->]; cbn [Z.gtb Z.compare Pos.compare Pos.compare_cont].
        - rewrite go_align_4 by lia. pose proof (align_ge (offset + 4) 4 ltac:(lia)). lia.
        - rewrite go_align_8 by lia. pose proof (align_ge (offset + 4) 8 ltac:(lia)). lia. }
      set (o' := if size >? 1 then go_align (offset + 4) size - 4 else offset) in *.
      destruct (o' + size >? blen v - 1) eqn:G; [reflexivity|].
      sl_in v t1 t2 o' (o' + size). rewrite (DecodeType_elem_ti _ ta tb). reflexivity. }
    destruct (negb (bit flags 3)).
    - destruct (4 + size >? blen v - 1) eqn:G; [reflexivity|].
      sl_in v t1 t2 4 (4 + size). rewrite (DecodeType_elem_ti _ ta tb).
      destruct (DecodeType_elem _ eo) as [x|]; cbn [bind]; [|reflexivity]. apply UP. lia.
    - apply UP. lia.
  Qed.

  Theorem DecodeType_ti v t1 t2 oid : DecodeType (SL v t1) oid = DecodeType (SL v t2) oid.
  Proof. unfold Model.DecodeType. apply DecodeType_gen_ti. intros. apply decodeRange_ti. Qed.
End T.

(* for the oracle bundle of the C04 theorems *)
Theorem DecodeTypeO_tail_independent : forall o v t1 t2 oid,
  DecodeTypeO o {| vis := v; tail := t1 |} oid = DecodeTypeO o {| vis := v; tail := t2 |} oid.
Proof. intros. unfold DecodeTypeO. apply DecodeType_ti. Qed.

(* hence the decoder is a total function of the visible bytes: exactly the hypothesis DT_ok of C03 *)
Definition decode_o (o : oracles) (b : bytes) (oid : Z) : gval :=
  match DecodeTypeO o (exact b) oid with Ok v => v | Panic => VNil end.

Theorem DecodeTypeO_DT_ok : forall o s oid, DecodeTypeO o s oid = Ok (decode_o o (vis s) oid).
Proof.
  intros o [v t] oid. cbn [vis]. unfold decode_o, exact.
  rewrite (DecodeTypeO_tail_independent o v t []).
  pose proof (DecodeType_np (o_fmt_g o) (o_fmt_money o) (o_to_valid_utf8 o) (o_json_unmarshal o) (o_DecodeNumeric o)
                (o_jsonb_branch o) (o_decodeArray o) {| vis := v; tail := [] |} oid) as NP.
  fold (DecodeTypeO o) in NP. destruct (DecodeTypeO o {| vis := v; tail := [] |} oid); [reflexivity|congruence].
Qed.
