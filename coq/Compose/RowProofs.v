(* Compose/RowProofs.v — step 3: the row-level theorems of C03 (and the heap-file theorem of C01) with the REAL
   decoder DecodeType_full plugged in: hypothesis DT_ok is discharged by FullProofs.DecodeType_full_DT_ok, nothing is
   assumed about the decoder any more.  Plus the array / jsonb / numeric round trips through the composed decoder. *)
Require Import PG.Base.Bytes PG.Base.GoSlice PG.Base.Value.
Require Import PG.C04.Lib PG.C04.Model PG.C04.ExamplesProofs.
Require Import PG.C02.Model PG.C02.Spec PG.C02.Refine.
Require Import PG.C03.Model PG.C03.Pure PG.C03.Spec PG.C03.Refine PG.C03.SpecProofs PG.C03.Main.
Require PG.C05.Model PG.C05.Spec PG.C05.LayoutProofs.
Require PG.C06.JsonbModel PG.C06.JsonbSpec PG.C06.JsonbProofs.
Require PG.C07.Model PG.C07.Spec PG.C07.ProofsTables PG.C07.ProofsRoundtrip.
Require PG.C01.Spec PG.C01.HeapProofs.
Require Import PG.Compose.TailProofs PG.Compose.Full PG.Compose.FullProofs.

Module NS := PG.C05.Spec.
Module JS := PG.C06.JsonbSpec.
Module AS := PG.C07.Spec.

Section Rows.
  Variable o : oracles.
  Notation DT := (DecodeType_full o).
  Notation dec := (decode_full o).
  Notation OK := (DecodeType_full_DT_ok o).

  Theorem refines_full t cols :
    DecodeTuple DT (Some t) cols = Ok (p_decode dec (option_map vis (t_bitmap t)) (vis (t_data t)) cols).
  Proof. exact (DecodeTuple_refines DT dec OK t cols). Qed.

  Theorem decode_tuple_full t cols ds :
    fits_prefix cols ds -> nums_ok cols 0 -> cols <> [] ->
    vis (t_data t) = fill 0 cols ds -> option_map vis (t_bitmap t) = bitmap_for ds ->
    DecodeTuple DT (Some t) cols = Ok (Some (expected_row dec cols ds)).
  Proof. exact (decode_tuple_ok DT dec OK t cols ds). Qed.

  Theorem decode_stored_full head flags2 mask_hi extra cols ds tl :
    fits_prefix cols ds -> nums_ok cols 0 -> cols <> [] ->
    blen head = 18 -> 0 <= flags2 < 32 -> 0 <= mask_hi < 32768 -> 0 <= extra ->
    Z.of_nat (length ds) < 2048 -> maxalign (23 + (Z.of_nat (length ds) + 7) / 8) + 8 * extra <= 255 ->
    let t := stored_tuple head flags2 mask_hi extra cols ds in
    exists ht, ParseHeapTuple {| vis := enc_tuple t; tail := tl |} = Ok (Some ht) /\
               DecodeTuple DT (Some ht) cols = Ok (Some (expected_row dec cols ds)).
  Proof. exact (decode_stored_tuple DT dec OK head flags2 mask_hi extra cols ds tl). Qed.

  Theorem DecodeTuple_full_no_panic ot cols : DecodeTuple DT ot cols <> Panic.
  Proof. exact (DecodeTuple_no_panic DT dec OK ot cols). Qed.

  Lemma decode_entries_full_total cols : forall es, exists rows, decode_entries DT es cols = Ok rows.
  Proof.
    induction es as [|e r [rows IH]]; [eexists; reflexivity|]. cbn [decode_entries].
    rewrite refines_full. cbn [bind]. rewrite IH. cbn [bind]. eexists; reflexivity.
  Qed.
  Theorem ReadRows_full_no_panic s cols vo : ReadRows DT s cols vo <> Panic.
  Proof.
    unfold ReadRows. destruct (ReadTuples_refines s vo) as (l & -> & _). cbn [bind].
    destruct (decode_entries_full_total cols l) as [rows ->]. discriminate.
  Qed.

  (* a whole heap file (C01's reference writer: any number of pages, dead versions, dead line pointers, zero blocks):
     exactly the live rows, in physical order, each value = the real decoder on exactly the stored payload *)
  Theorem heap_rows_full (cols : list Column) (h : PG.C01.Spec.heap (list datum)) tl :
    cols <> [] -> nums_ok cols 0 -> PG.C01.Spec.wf_heap cols PG.C01.Spec.idds (fun _ => True) h ->
    ReadRows DT {| vis := PG.C01.Spec.enc_heap cols PG.C01.Spec.idds h; tail := tl |} cols true =
    Ok (map (expected_row dec cols) (PG.C01.Spec.live_rows h)).
  Proof. intros. eapply PG.C01.HeapProofs.ReadRows_enc_heap; try eassumption. exact OK. Qed.

  (* ---------- values whose decoding crosses property boundaries ---------- *)
  (* arrays (C07 layout, elements decoded by the full decoder itself) *)
  Definition exp_elem_full (eoid : Z) (e : option AS.velem) : gval :=
    match e with None => VNil | Some x => dec (AS.elem_data x) eoid end.
  Lemma exp_elems_full eoid : forall es,
    AS.exp_elems (full_on_bytes o) eoid es = Ok (map (exp_elem_full eoid) es).
  Proof.
    induction es as [|[x|] r IH]; cbn [AS.exp_elems map]; [reflexivity| |].
    - unfold full_on_bytes at 1. rewrite OK. cbn [bind vis exact]. rewrite IH. reflexivity.
    - rewrite IH. reflexivity.
  Qed.
  Theorem array_roundtrip_full a t :
    AS.wf_arr a ->
    DT {| vis := AS.enc_array a; tail := t |} (AS.t_arr (AS.a_ty a)) =
    Ok (VList (map (exp_elem_full (AS.t_elem (AS.a_ty a))) (AS.a_elems a))).
  Proof.
    intros W. pose proof (PG.C07.ProofsRoundtrip.DecodeType_array_roundtrip (full_on_bytes o) a t W) as R.
    rewrite full_array_branch in R.
    assert (L : lookup (AS.t_arr (AS.a_ty a)) arrayElemTypes = Some (AS.t_elem (AS.a_ty a))).
    { destruct W as (Hin & _). destruct (proj1 PG.C07.ProofsTables.tables_agree _ Hin) as (H1 & _).
      rewrite <- lookup_elem_same. exact H1. }
    rewrite L in R. unfold AS.expected in R. rewrite exp_elems_full in R. cbn [bind] in R.
    destruct (DT {| vis := AS.enc_array a; tail := t |} (AS.t_arr (AS.a_ty a))) as [v|]; cbn [bind] in R; [|discriminate R].
    injection R as ->. reflexivity.
  Qed.

  (* jsonb (C06 layout, numbers decoded by C05's model) *)
  Theorem jsonb_roundtrip_full j t :
    JS.wf_json j ->
    DT {| vis := JS.enc_jsonb j; tail := t |} 3802 = Ok (JS.expected num_full j).
  Proof.
    intros W. pose proof (full_jsonb o {| vis := JS.enc_jsonb j; tail := t |}) as R.
    rewrite (PG.C06.JsonbProofs.DecodeType_jsonb_roundtrip num_full (safeString (o_to_valid_utf8 o)) j t W) in R.
    destruct (DT {| vis := JS.enc_jsonb j; tail := t |} 3802) as [v|]; cbn [PG.C06.JsonbModel.lift] in R; [|discriminate R].
    injection R as ->. reflexivity.
  Qed.

  (* numeric column / array element / jsonb number: C05's reading of the payload *)
  Theorem numeric_full_spec s : len s <> 0 ->
    DT s 1700 = Ok (NS.spec_decode PG.C05.LayoutProofs.eval_model (vis s)).
  Proof. intros H. rewrite full_numeric by exact H. apply PG.C05.LayoutProofs.DecodeNumeric_total. Qed.
  Theorem numeric_roundtrip_full v t :
    (NS.wf_short v -> DT {| vis := NS.enc_short v; tail := t |} 1700 = Ok (NS.result_of v PG.C05.LayoutProofs.eval_model)) /\
    (NS.wf_long v -> DT {| vis := NS.enc_long v; tail := t |} 1700 = Ok (NS.result_of v PG.C05.LayoutProofs.eval_model)).
  Proof.
    split; intros W.
    - pose proof (PG.C05.LayoutProofs.decode_enc_short v t W) as R.
      rewrite full_numeric; [exact R|]. unfold len. cbn [vis]. destruct v; unfold NS.enc_short; bl; try match goal with |- context [NS.enc_digits ?d] => pose proof (blen_nonneg (NS.enc_digits d)) end; lia.
    - pose proof (PG.C05.LayoutProofs.decode_enc_long v t W) as R.
      rewrite full_numeric; [exact R|]. unfold len. cbn [vis]. destruct v; unfold NS.enc_long; bl; try match goal with |- context [NS.enc_digits ?d] => pose proof (blen_nonneg (NS.enc_digits d)) end; lia.
  Qed.
End Rows.

(* the numbers inside a jsonb document and the numeric elements of an array: num_full on the stored payload *)
Theorem num_full_roundtrip v :
  (NS.wf_short v -> num_full (NS.enc_short v) = NS.result_of v PG.C05.LayoutProofs.eval_model) /\
  (NS.wf_long v -> num_full (NS.enc_long v) = NS.result_of v PG.C05.LayoutProofs.eval_model).
Proof.
  split; intros W; unfold num_full, exact.
  - rewrite (PG.C05.LayoutProofs.decode_enc_short v [] W). reflexivity.
  - rewrite (PG.C05.LayoutProofs.decode_enc_long v [] W). reflexivity.
Qed.
