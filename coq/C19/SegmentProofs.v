(* C19/SegmentProofs.v — proofs about the segment.go model. *)
Require Import PG.Base.Bytes PG.Base.GoSlice PG.C19.StrModel PG.C19.BlockrangeModel PG.C19.SegmentModel PG.C19.Spec.

Lemma g2s_spec g sz :
  0 <= g -> PageSize <= sz ->
  GlobalBlockToSegment g sz = Ok (seg_of g (sz / BLCKSZ)) /\
  fst (seg_of g (sz / BLCKSZ)) * (sz / BLCKSZ) + snd (seg_of g (sz / BLCKSZ)) = g /\
  0 <= snd (seg_of g (sz / BLCKSZ)) < sz / BLCKSZ.
Proof.
  intros Hg Hsz. unfold GlobalBlockToSegment, seg_of, PageSize, BLCKSZ in *.
  destruct (sz <? 8192) eqn:E; [lia|].
  assert (Hb : 0 < sz / 8192) by (apply Z.div_str_pos; lia).
  destruct (sz / 8192 =? 0) eqn:E0; [lia|].
  rewrite Z.quot_div_nonneg, Z.rem_mod_nonneg by lia.
  cbn [fst snd]. split; [reflexivity|].
  pose proof (Z.div_mod g (sz / 8192)). pose proof (Z.mod_pos_bound g (sz / 8192)). lia.
Qed.

Lemma g2s_no_panic g sz : GlobalBlockToSegment g sz <> Panic.
Proof.
  unfold GlobalBlockToSegment, PageSize, DefaultSegmentSize.
  destruct (sz <? 8192) eqn:E.
  - vm_compute. discriminate.
  - assert (0 < sz / 8192) by (apply Z.div_str_pos; lia).
    destruct (sz / 8192 =? 0) eqn:E0; [lia|discriminate].
Qed.

(* for every g (negative too) the pair recomposes to g *)
Lemma g2s_recompose g sz s l :
  GlobalBlockToSegment g sz = Ok (s, l) ->
  s * ((if sz <? PageSize then DefaultSegmentSize else sz) / PageSize) + l = g.
Proof.
  unfold GlobalBlockToSegment. set (z := if sz <? PageSize then DefaultSegmentSize else sz).
  destruct (z / PageSize =? 0) eqn:E0; [discriminate|]. intros [= <- <-].
  pose proof (Z.quot_rem' g (z / PageSize)). lia.
Qed.

(* ================= multi-segment reads ================= *)
Require Import PG.C19.ReadProofs.

(* reading one block of a segment file that exists *)
Lemma rsb_spec fs path seg local opts :
  fs path = Some seg -> 0 <= local ->
  ReadSegmentBlock fs path local opts =
  if local <? nblocks seg then inr (exact (block local seg)) else inl EBeyond.
Proof.
  intros Hf Hl. unfold ReadSegmentBlock, GetSegmentInfo. rewrite Hf. cbn [si_blocks].
  replace (local <? 0) with false by lia. unfold nblocks, BLCKSZ, PageSize.
  destruct (local <? blen seg / 8192) eqn:E.
  - replace (local >=? blen seg / 8192) with false by lia.
    unfold file_read. replace (local * 8192 <? 0) with false by lia.
    replace (8192 <=? 0) with false by lia. replace (blen seg <=? local * 8192) with false by lia.
    rewrite Z.min_l by lia. unfold block, BLCKSZ, exact.
    replace (local * 8192) with (8192 * local) by lia. replace (8192 * local + 8192) with (8192 * (local + 1)) by lia.
    rewrite sub_length by lia. replace (8192 - (8192 * (local + 1) - 8192 * local)) with 0 by lia. reflexivity.
  - replace (local >=? blen seg / 8192) with true by lia. reflexivity.
Qed.

(* block g of the concatenation of the segment files = block (g mod bps) of segment g / bps,
   provided every earlier segment holds exactly bps blocks *)
Lemma block_concat bps : 0 < bps -> forall (q : nat) (segs : list bytes) g,
  0 <= g -> g / bps = Z.of_nat q -> (q < length segs)%nat ->
  (forall i, (i < q)%nat -> blen (nth i segs []) = 8192 * bps) ->
  8192 * (g mod bps + 1) <= blen (nth q segs []) ->
  block g (concat segs) = block (g mod bps) (nth q segs []).
Proof.
  intros Hb. induction q as [|q IH]; intros segs g Hg Hq Hlen Hfull Hfit.
  - destruct segs as [|s rest]; [cbn in Hlen; lia|]. cbn [nth concat] in *.
    assert (g mod bps = g) by (apply Z.mod_small; lia). rewrite H in *.
    unfold block, BLCKSZ. apply sub_app_l; lia.
  - destruct segs as [|s rest]; [cbn in Hlen; lia|]. cbn [nth concat length] in *.
    pose proof (Hfull O ltac:(lia)) as Hs. cbn [nth] in Hs.
    assert (Hge : bps <= g).
    { pose proof (Z.div_mod g bps ltac:(lia)). pose proof (Z.mod_pos_bound g bps Hb). nia. }
    unfold block, BLCKSZ. rewrite sub_app_r by lia. rewrite Hs.
    replace (8192 * g - 8192 * bps) with (8192 * (g - bps)) by lia.
    replace (8192 * (g + 1) - 8192 * bps) with (8192 * (g - bps + 1)) by lia.
    assert (Hd : (g - bps) / bps = Z.of_nat q).
    { replace (g - bps) with (g + (-1) * bps) by lia. rewrite Z.div_add by lia. lia. }
    assert (Hm : (g - bps) mod bps = g mod bps).
    { replace (g - bps) with (g + (-1) * bps) by lia. apply Z.mod_add. lia. }
    specialize (IH rest (g - bps) ltac:(lia) Hd ltac:(lia)).
    rewrite Hm in IH. unfold block, BLCKSZ in IH. apply IH.
    + intros i Hi. apply (Hfull (S i)). lia.
    + exact Hfit.
Qed.

Section Multi.
Variables (fs : fsys) (segs : list bytes) (segments : list SegmentInfo) (bps : Z) (opts : option (Z * Z)).
Let k := Z.of_nat (length segs).
Let lastseg := nth (Z.to_nat (k - 1)) segs [].
Let N := (k - 1) * bps + nblocks lastseg.
Hypothesis Hbps : 0 < bps.
Hypothesis Hk : 1 <= k.
Hypothesis Hsegments_len : length segments = length segs.
Hypothesis Hsegments : forall i sg, nth_error segments i = Some sg -> fs (si_path sg) = Some (nth i segs []).
Hypothesis Hfull : forall i, (Z.of_nat i < k - 1) -> blen (nth i segs []) = 8192 * bps.
Hypothesis Hlast : nblocks lastseg <= bps.

Lemma nblocks_nonneg s : 0 <= nblocks s.
Proof. unfold nblocks, BLCKSZ. pose proof (blen_nonneg s). lia. Qed.

Lemma multi_loop_spec : forall cnt g, 0 <= g ->
  multi_loop cnt fs segments bps opts g =
  Ok (blocks_of (concat segs) (zrange g (Z.to_nat (Z.min (Z.of_nat cnt) (Z.max 0 (N - g)))))).
Proof.
  induction cnt as [|cnt IH]; intros g Hg.
  - cbn [multi_loop]. replace (Z.to_nat _) with O by lia. reflexivity.
  - cbn [multi_loop]. replace (bps =? 0) with false by lia.
    rewrite Z.quot_div_nonneg, Z.rem_mod_nonneg by lia.
    pose proof (Z.div_mod g bps ltac:(lia)) as Hdm. pose proof (Z.mod_pos_bound g bps Hbps) as Hmb.
    assert (Hq0 : 0 <= g / bps) by (apply Z.div_pos; lia).
    pose proof (nblocks_nonneg lastseg) as Hnl.
    rewrite Hsegments_len. fold k.
    destruct (g / bps >=? k) eqn:Eidx.
    + (* beyond the available segments *)
      assert (N <= g) by (unfold N; nia).
      replace (Z.to_nat _) with O by lia. reflexivity.
    + replace (g / bps <? 0) with false by lia.
      destruct (nth_error segments (Z.to_nat (g / bps))) as [sg|] eqn:Enth.
      2:{ apply nth_error_None in Enth. lia. }
      pose proof (Hsegments _ _ Enth) as Hfs.
      rewrite (rsb_spec _ _ _ _ _ Hfs) by lia.
      destruct (Z_lt_ge_dec g N) as [HgN|HgN].
      * (* block g exists *)
        assert (Hloc : g mod bps < nblocks (nth (Z.to_nat (g / bps)) segs [])).
        { destruct (Z_lt_ge_dec (g / bps) (k - 1)) as [Hlt|Hge].
          - unfold nblocks, BLCKSZ. rewrite Hfull by lia. replace (8192 * bps / 8192) with bps by lia. lia.
          - assert (g / bps = k - 1) by lia. replace (Z.to_nat (g / bps)) with (Z.to_nat (k - 1)) by lia.
            fold lastseg. unfold N in HgN. nia. }
        replace (g mod bps <? nblocks (nth (Z.to_nat (g / bps)) segs [])) with true by lia.
        rewrite IH by lia. cbn [bind exact vis].
        replace (Z.to_nat (Z.min (Z.of_nat (S cnt)) (Z.max 0 (N - g))))
          with (S (Z.to_nat (Z.min (Z.of_nat cnt) (Z.max 0 (N - (g + 1)))))) by lia.
        rewrite zrange_S. unfold blocks_of. cbn [map concat]. do 2 f_equal.
        symmetry. apply (block_concat bps Hbps (Z.to_nat (g / bps))).
        -- lia.
        -- lia.
        -- unfold k in *. lia.
        -- intros i Hi. apply Hfull. lia.
        -- unfold nblocks, BLCKSZ in Hloc. lia.
      * (* past the end of the last segment *)
        assert (g / bps = k - 1) by (unfold N in HgN; nia).
        replace (Z.to_nat (g / bps)) with (Z.to_nat (k - 1)) by lia. fold lastseg.
        assert (nblocks lastseg <= g mod bps) by (unfold N in HgN; nia).
        replace (g mod bps <? nblocks lastseg) with false by lia.
        replace (Z.to_nat _) with O by lia. reflexivity.
Qed.
End Multi.

(* ---------- ListSegments finds base, base.1, ..., base.(k-1) ---------- *)
Section Listing.
Variables (fs : fsys) (base : bytes) (segs : list bytes).
Let k := Z.of_nat (length segs).
Hypothesis Hk : 1 <= k <= 1000.
Hypothesis Hbase : fs base = Some (nth O segs []).
Hypothesis Hseg : forall i, 1 <= i < k -> fs (seg_path base i) = Some (nth (Z.to_nat i) segs []).
Hypothesis Hend : k < 1000 -> fs (seg_path base k) = None.

Lemma list_more_ok : forall cnt i, 1 <= i <= k -> i + Z.of_nat cnt = 1000 ->
  length (list_more cnt fs base i) = Z.to_nat (k - i) /\
  forall j sg, nth_error (list_more cnt fs base i) j = Some sg ->
               fs (si_path sg) = Some (nth (Z.to_nat i + j) segs []).
Proof.
  induction cnt as [|cnt IH]; intros i Hi Hc.
  - cbn [list_more]. split; [cbn [length]; lia|]. intros j sg H. destruct j; discriminate.
  - cbn [list_more]. destruct (Z.eq_dec i k) as [->|Hne].
    + rewrite Hend by lia. split; [cbn [length]; lia|]. intros j sg H. destruct j; discriminate.
    + rewrite Hseg by lia. destruct (IH (i + 1) ltac:(lia) ltac:(lia)) as [L Nn].
      split; [cbn [length]; rewrite L; lia|].
      intros j sg H. destruct j as [|j].
      * cbn [nth_error] in H. injection H as <-. cbn [si_path]. rewrite Hseg by lia. f_equal. f_equal. lia.
      * cbn [nth_error] in H. rewrite (Nn _ _ H). f_equal. f_equal. lia.
Qed.

Lemma list_segments_ok :
  length (ListSegments fs base) = length segs /\
  forall j sg, nth_error (ListSegments fs base) j = Some sg -> fs (si_path sg) = Some (nth j segs []).
Proof.
  unfold ListSegments. rewrite Hbase. cbn [app].
  destruct (list_more_ok (Z.to_nat 999) 1 ltac:(lia) ltac:(lia)) as [L Nn].
  change 999%nat with (Z.to_nat 999). split.
  - cbn [length]. rewrite L. unfold k in *. lia.
  - intros j sg H. destruct j as [|j].
    + cbn [nth_error] in H. injection H as <-. cbn [si_path]. exact Hbase.
    + cbn [nth_error] in H. rewrite (Nn _ _ H). reflexivity.
Qed.

(* the multi-segment read: blocks a .. min(b, N-1) of the logical file, nothing else *)
Variable opts : option (Z * Z).
Let segSize := match opts with Some (_, sz) => if sz >=? PageSize then sz else DefaultSegmentSize | None => DefaultSegmentSize end.
Let bps := segSize / PageSize.
Let lastseg := nth (Z.to_nat (k - 1)) segs [].
Let N := (k - 1) * bps + nblocks lastseg.
Hypothesis Hfull : forall i, (Z.of_nat i < k - 1) -> blen (nth i segs []) = 8192 * bps.
Hypothesis Hlast : nblocks lastseg <= bps.

Lemma bps_pos : 0 < bps.
Proof.
  unfold bps, segSize, PageSize, DefaultSegmentSize.
  destruct opts as [[sn sz]|]; [destruct (sz >=? 8192) eqn:E|]; try (vm_compute; reflexivity).
  apply Z.div_str_pos. lia.
Qed.

Theorem read_multi_spec a b :
  0 <= a ->
  ReadMultiSegmentFile fs base a b opts = Ok (inr (blocks_of (logical segs) (between a (Z.min b (N - 1))))).
Proof.
  intros Ha. unfold ReadMultiSegmentFile. replace (a <? 0) with false by lia.
  destruct list_segments_ok as [L Nn].
  destruct (ListSegments fs base) as [|s0 sr] eqn:E.
  - cbn [length] in L. unfold k in Hk. lia.
  - rewrite <- E in *. fold segSize. fold bps.
    rewrite (multi_loop_spec fs segs (ListSegments fs base) bps opts bps_pos ltac:(unfold k in Hk; lia) L Nn Hfull Hlast) by lia.
    cbn [bind]. unfold logical, between. fold k. fold lastseg. fold N.
    do 4 f_equal. lia.
Qed.

Lemma read_multi_no_panic_wf a b : ReadMultiSegmentFile fs base a b opts <> Panic.
Proof.
  destruct (Z_lt_ge_dec a 0).
  - unfold ReadMultiSegmentFile. replace (a <? 0) with true by lia. discriminate.
  - rewrite read_multi_spec by lia. discriminate.
Qed.
End Listing.

(* negative start: rejected (before the fix a negative index could panic) *)
Lemma read_multi_negative fs base a b opts : a < 0 -> ReadMultiSegmentFile fs base a b opts = Ok (inl ENegative).
Proof. intros. unfold ReadMultiSegmentFile. replace (a <? 0) with true by lia. reflexivity. Qed.

(* no panic for ANY file system, arguments and options *)
Lemma multi_loop_no_panic fs segments bps opts : 0 < bps -> forall cnt g, 0 <= g -> multi_loop cnt fs segments bps opts g <> Panic.
Proof.
  intros Hb. induction cnt as [|cnt IH]; intros g Hg; [discriminate|].
  cbn [multi_loop]. replace (bps =? 0) with false by lia.
  rewrite Z.quot_div_nonneg by lia.
  assert (0 <= g / bps) by (apply Z.div_pos; lia).
  destruct (g / bps >=? Z.of_nat (length segments)) eqn:E; [discriminate|].
  replace (g / bps <? 0) with false by lia.
  destruct (nth_error segments (Z.to_nat (g / bps))) as [sg|] eqn:En.
  2:{ apply nth_error_None in En. lia. }
  destruct (ReadSegmentBlock _ _ _ _); [discriminate|].
  specialize (IH (g + 1) ltac:(lia)). destruct (multi_loop cnt fs segments bps opts (g + 1)); [discriminate|congruence].
Qed.

Theorem read_multi_no_panic fs base a b opts : ReadMultiSegmentFile fs base a b opts <> Panic.
Proof.
  unfold ReadMultiSegmentFile. destruct (a <? 0) eqn:Ea; [discriminate|].
  destruct (ListSegments fs base) as [|s0 sr]; [discriminate|].
  set (segments := s0 :: sr).
  set (bps := _ / PageSize).
  assert (Hb : 0 < bps).
  { unfold bps, PageSize, DefaultSegmentSize.
    destruct opts as [[sn sz]|]; [destruct (sz >=? 8192) eqn:E|]; try (vm_compute; reflexivity).
    apply Z.div_str_pos. lia. }
  pose proof (multi_loop_no_panic fs segments bps opts Hb (Z.to_nat (b - a + 1)) a ltac:(lia)) as Hn.
  destruct (multi_loop _ _ _ _ _ _); [discriminate|congruence].
Qed.

(* ---------- segment number from the file name (finite check, see Props/C19.v) ---------- *)
Definition segnum_roundtrip (prefix : bytes) (n : nat) : bool :=
  GetSegmentNumberFromPath (prefix ++ [x2e] ++ dec_str (Z.of_nat n)) =? Z.of_nat n.
Lemma segnum_table :
  forallb (segnum_roundtrip [x31; x36; x33; x38; x34]) (seq 0 (Z.to_nat 1000)) = true /\
  forallb (segnum_roundtrip [x2f; x70; x67; x2e; x64; x2f; x62; x61; x73; x65; x2f; x35; x2f; x31; x36; x33; x38; x34]) (seq 0 (Z.to_nat 1000)) = true /\
  GetSegmentNumberFromPath [x2f; x70; x67; x2e; x64; x2f; x62; x61; x73; x65; x2f; x35; x2f; x31; x36; x33; x38; x34] = 0.
Proof. vm_compute. repeat split; reflexivity. Qed.
