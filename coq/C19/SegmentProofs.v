(* C19/SegmentProofs.v — proofs about the segment.go model. *)
Require Import PG.Base.Bytes PG.Base.GoSlice PG.C19.StrModel PG.C19.BlockrangeModel PG.C19.SegmentModel PG.C19.Spec.

Lemma g2s_spec g sz :
  0 <= g -> PageSize <= sz ->
  GlobalBlockToSegment g sz = Ok (seg_of g (sz / BLCKSZ)) /\
  fst (seg_of g (sz / BLCKSZ)) * (sz / BLCKSZ) + snd (seg_of g (sz / BLCKSZ)) = g /\
  0 <= snd (seg_of g (sz / BLCKSZ)) < sz / BLCKSZ.
Proof.
  intros Hg Hsz. unfold GlobalBlockToSegment, seg_of, PageSize, BLCKSZ in *.
  destruct (sz <? 8192) eqn:E; [lia|].
  assert (Hb : 0 < sz / 8192) by (apply Z.div_str_pos; lia).
  destruct (sz / 8192 =? 0) eqn:E0; [lia|].
  rewrite Z.quot_div_nonneg, Z.rem_mod_nonneg by lia.
  cbn [fst snd]. split; [reflexivity|].
  pose proof (Z.div_mod g (sz / 8192)). pose proof (Z.mod_pos_bound g (sz / 8192)). lia.
Qed.

Lemma g2s_no_panic g sz : GlobalBlockToSegment g sz <> Panic.
Proof.
  unfold GlobalBlockToSegment, PageSize, DefaultSegmentSize.
  destruct (sz <? 8192) eqn:E.
  - vm_compute. discriminate.
  - assert (0 < sz / 8192) by (apply Z.div_str_pos; lia).
    destruct (sz / 8192 =? 0) eqn:E0; [lia|discriminate].
Qed.

(* for every g (negative too) the pair recomposes to g *)
Lemma g2s_recompose g sz s l :
  GlobalBlockToSegment g sz = Ok (s, l) ->
  s * ((if sz <? PageSize then DefaultSegmentSize else sz) / PageSize) + l = g.
Proof.
  unfold GlobalBlockToSegment. set (z := if sz <? PageSize then DefaultSegmentSize else sz).
  destruct (z / PageSize =? 0) eqn:E0; [discriminate|]. intros [= <- <-].
  pose proof (Z.quot_rem' g (z / PageSize)). lia.
Qed.
