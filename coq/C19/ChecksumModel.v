(* C19/ChecksumModel.v — model of pgdump/checksum.go (after the fix: commits for D58 and D60).
   uint32 arithmetic is explicit (mod 2^32); the data directory is a listing given as data. *)
Require Import PG.Base.Bytes PG.Base.GoSlice PG.C19.StrModel PG.C19.BlockrangeModel.

(* uint32 truncation: x & 0xFFFFFFFF (= x mod 2^32, lemma u32w_mod) *)
Definition u32w (x : Z) : Z := Z.land x 4294967295.

(* checksum.go:222-238 *)
Definition checksumComp (checksum value : Z) : Z :=
  let lo := Z.land value 65535 in
  let hi := Z.shiftr value 16 in
  let shift := Z.land checksum 31 in
  let checksum := if shift >? 0
                  then Z.lor (Z.shiftr checksum shift) (u32w (Z.shiftl checksum (32 - shift)))
                  else checksum in
  let checksum := Z.lxor checksum lo in
  Z.lxor checksum (u32w (Z.shiftl hi 1)).

(* for i := 0; i < PageSize; i += 4 { word := LE.Uint32(pageCopy[i:i+4]); checksum = checksumComp(checksum, word) } *)
Fixpoint cks_words (p : bytes) (c : Z) : Z :=
  match p with
  | b0 :: b1 :: b2 :: b3 :: r => cks_words r (checksumComp c (le_dec [b0; b1; b2; b3]))
  | _ => c
  end.

(* pageCopy := make([]byte, PageSize); copy(pageCopy, page); pageCopy[8] = 0; pageCopy[9] = 0 *)
Definition page_copy (page : bytes) : bytes :=
  let n := Z.min PageSize (blen page) in
  let c := sub page 0 n ++ zeros (PageSize - n) in
  sub c 0 8 ++ [x00; x00] ++ sub c 10 PageSize.

(* checksum.go:192-218; blockNumber is a uint32 *)
Definition computePageChecksum (page : gslice) (blockNumber : Z) : Z :=
  let c := cks_words (page_copy (vis page)) 0 in
  let c := Z.lxor c blockNumber in
  let c := Z.lxor (Z.shiftr c 16) (Z.land c 65535) in
  c mod 2 ^ 16.

Definition isZeroPage (page : gslice) : bool := all_zero (vis page).

(* checksum.go:251-292 (unused alternative); sums[i mod 32] = sums[i mod 32]*fnvPrime ^ word *)
Fixpoint pg_words (p : bytes) (i : nat) (sums : list Z) : list Z :=
  match p with
  | b0 :: b1 :: b2 :: b3 :: r =>
    let w := le_dec [b0; b1; b2; b3] in
    let k := (i mod 32)%nat in
    pg_words r (S i) (firstn k sums ++ [Z.lxor (u32w (nth k sums 0 * 16777619)) w] ++ skipn (S k) sums)
  | _ => sums
  end.
Definition pgChecksumBlock (page : gslice) (blockNumber : Z) : Z :=
  let p := vis page in
  let c := if blen p >? 9 then sub p 0 8 ++ [x00; x00] ++ sub p 10 (blen p) else p in
  let sums := pg_words c O (repeat blockNumber 32) in
  let r := fold_left Z.lxor sums 0 in
  (Z.lxor (Z.shiftr r 16) (Z.land r 65535)) mod 2 ^ 16.

(* checksum.go:45-73 *)
Record ChecksumResult := {
  cr_num : Z; cr_stored : Z; cr_computed : Z; cr_valid : bool;
  cr_lsn : Z; cr_lsnstr : option (Z * Z) }.      (* LSNStr = "%X/%X" of the pair; None = "" *)

Definition blank_result (n : Z) (valid : bool) : ChecksumResult :=
  {| cr_num := n; cr_stored := 0; cr_computed := 0; cr_valid := valid; cr_lsn := 0; cr_lsnstr := None |}.

Definition VerifyPageChecksum (page : gslice) (blockNumber : Z) : res ChecksumResult :=
  if len page <? PageSize then Ok (blank_result blockNumber false) else
  pg <- slice page 0 PageSize ;;                       (* isZeroPage(page[:PageSize]): only the page itself is looked at *)
  if isZeroPage pg then Ok (blank_result blockNumber true) else
  s <- slice page 8 10 ;;
  stored <- u16 s 0 ;;
  s0 <- slice page 0 4 ;;
  hi <- u32 s0 0 ;;
  s4 <- slice page 4 8 ;;
  lo <- u32 s4 0 ;;
  let lsn := hi * 2 ^ 32 + lo in
  let computed := computePageChecksum page blockNumber in
  Ok {| cr_num := blockNumber; cr_stored := stored; cr_computed := computed; cr_valid := stored =? computed;
        cr_lsn := lsn; cr_lsnstr := Some (lsn / 2 ^ 32, lsn mod 2 ^ 32) |}.

(* checksum.go:76-106 *)
Record FileResult := { fr_total : Z; fr_valid : Z; fr_invalid : Z; fr_zero : Z; fr_errors : list ChecksumResult }.

Fixpoint vfc_loop (cnt : nat) (data : gslice) (baseBlock i : Z) : res (Z * Z * Z * list ChecksumResult) :=
  match cnt with
  | O => Ok (0, 0, 0, [])
  | S k =>
    let offset := i * PageSize in
    page <- slice data offset (offset + PageSize) ;;
    if isZeroPage page then
      r <- vfc_loop k data baseBlock (i + 1) ;;
      let '(v, iv, z, e) := r in Ok (v + 1, iv, z + 1, e)
    else
      cr <- VerifyPageChecksum page (u32w (baseBlock + i)) ;;
      r <- vfc_loop k data baseBlock (i + 1) ;;
      let '(v, iv, z, e) := r in
      if cr_valid cr then Ok (v + 1, iv, z, e) else Ok (v, iv + 1, z, cr :: e)
  end.

Definition VerifyFileChecksums (data : gslice) (segmentNumber : Z) : res FileResult :=
  let total := len data / PageSize in
  let baseBlock := u32w (segmentNumber * 131072) in
  r <- vfc_loop (Z.to_nat total) data baseBlock 0 ;;
  let '(v, iv, z, e) := r in
  Ok {| fr_total := total; fr_valid := v; fr_invalid := iv; fr_zero := z; fr_errors := e |}.

(* checksum.go:109-186; the directory tree below <dataDir>/base as data, each listing in the order
   os.ReadDir returns it (sorted by file name) *)
Record fentry := { fe_name : bytes; fe_isdir : bool; fe_data : bytes }.
Record dentry := { de_name : bytes; de_isdir : bool; de_files : option (list fentry) }.   (* None: ReadDir fails *)
Record DirResult := { dr_files : Z; dr_blocks : Z; dr_valid : Z; dr_invalid : Z;
                      dr_list : list (bytes * bytes * FileResult) }.              (* (db dir, file name, result) *)

(* the file-name filter: Some segment number for a relation segment file *)
Definition relfile_segment (name : bytes) : option Z :=
  let '(base, suffix) := match cut_at 46 name with Some (b, s) => (b, Some s) | None => (name, None) end in
  match ParseUint32 base with
  | None => None
  | Some _ =>
    match suffix with
    | None => Some 0
    | Some sfx => ParseUint32 sfx
    end
  end.

Definition add_file (dname : bytes) (acc : DirResult) (f : fentry) : res DirResult :=
  if fe_isdir f then Ok acc else
  match relfile_segment (fe_name f) with
  | None => Ok acc
  | Some segNum =>
    if blen (fe_data f) <? PageSize then Ok acc else
    fr <- VerifyFileChecksums (exact (fe_data f)) segNum ;;
    Ok {| dr_files := dr_files acc + 1; dr_blocks := dr_blocks acc + fr_total fr;
          dr_valid := dr_valid acc + fr_valid fr; dr_invalid := dr_invalid acc + fr_invalid fr;
          dr_list := match fr_errors fr with [] => dr_list acc | _ => dr_list acc ++ [(dname, fe_name f, fr)] end |}
  end.

Fixpoint add_files (dname : bytes) (acc : DirResult) (fs : list fentry) : res DirResult :=
  match fs with
  | [] => Ok acc
  | f :: r => a <- add_file dname acc f ;; add_files dname a r
  end.

Definition add_dir (acc : DirResult) (d : dentry) : res DirResult :=
  if negb (de_isdir d) then Ok acc else
  match ParseUint32 (de_name d) with
  | None => Ok acc
  | Some _ => match de_files d with None => Ok acc | Some fs => add_files (de_name d) acc fs end
  end.

Fixpoint add_dirs (acc : DirResult) (ds : list dentry) : res DirResult :=
  match ds with
  | [] => Ok acc
  | d :: r => a <- add_dir acc d ;; add_dirs a r
  end.

Definition VerifyDataDirChecksums (base : option (list dentry)) : res (ferr + DirResult) :=
  match base with
  | None => Ok (inl EBaseDir)
  | Some ds =>
    r <- add_dirs {| dr_files := 0; dr_blocks := 0; dr_valid := 0; dr_invalid := 0; dr_list := [] |} ds ;;
    Ok (inr r)
  end.
