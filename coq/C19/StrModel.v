(* C19/StrModel.v — models of the Go standard-library string functions the C19 code calls:
   strconv.Atoi, strconv.ParseUint(s,10,32), strings.Contains/SplitN(s,sep,2)/Cut (one-byte
   separator), strings.LastIndex (one-byte separator), filepath.Base (unix), fmt.Sprintf("%d").
   These are abstract models of library behaviour (not line-by-line transcriptions); each is
   compared with the real library function by the harness (functions Atoi, ParseUint32, Base, ...). *)
Require Import PG.Base.Bytes PG.Base.GoSlice.

Definition is_digit (b : byte) : bool := (48 <=? b2z b) && (b2z b <=? 57).
Definition all_digits (s : bytes) : bool := forallb is_digit s.
Definition dval (b : byte) : Z := b2z b - 48.
(* decimal value of a digit string, most significant digit first *)
Fixpoint dec_acc (acc : Z) (s : bytes) : Z :=
  match s with [] => acc | c :: r => dec_acc (acc * 10 + dval c) r end.
Definition dec_val (s : bytes) : Z := dec_acc 0 s.

(* strconv.Atoi on a 64-bit platform: optional sign, one or more decimal digits (no underscores,
   no spaces), value within int64; anything else is an error (None). *)
Definition Atoi (s : bytes) : option Z :=
  match s with
  | [] => None
  | c :: r =>
    let neg := b2z c =? 45 in
    let ds := if (b2z c =? 43) || (b2z c =? 45) then r else s in
    match ds with
    | [] => None
    | _ => if all_digits ds then
             let v := dec_val ds in
             if neg then (if v <=? 2 ^ 63 then Some (- v) else None)
             else (if v <? 2 ^ 63 then Some v else None)
           else None
    end
  end.

(* strconv.ParseUint(s, 10, 32): one or more decimal digits, no sign, value < 2^32 *)
Definition ParseUint32 (s : bytes) : option Z :=
  match s with
  | [] => None
  | _ => if all_digits s then (let v := dec_val s in if v <? 2 ^ 32 then Some v else None) else None
  end.

(* strings.Cut(s, sep) / strings.SplitN(s, sep, 2) for a one-byte separator:
   Some (before, after) of the FIRST occurrence; None when sep does not occur
   (strings.Contains(s, sep) = false). *)
Fixpoint cut_at (sep : Z) (s : bytes) : option (bytes * bytes) :=
  match s with
  | [] => None
  | c :: r => if b2z c =? sep then Some ([], r)
              else match cut_at sep r with Some (a, b) => Some (c :: a, b) | None => None end
  end.

(* s[strings.LastIndex(s, sep)+1:]  — None when LastIndex = -1 *)
Fixpoint after_last (sep : Z) (s : bytes) : option bytes :=
  match s with
  | [] => None
  | c :: r => match after_last sep r with
              | Some t => Some t
              | None => if b2z c =? sep then Some r else None
              end
  end.

(* remove trailing separators *)
Fixpoint strip_trailing (sep : Z) (s : bytes) : bytes :=
  match s with
  | [] => []
  | c :: r => match strip_trailing sep r with
              | [] => if b2z c =? sep then [] else [c]
              | t => c :: t
              end
  end.

(* path/filepath.Base on unix *)
Definition Base (p : bytes) : bytes :=
  match p with
  | [] => [x2e]                                        (* "" -> "." *)
  | _ => let q := strip_trailing 47 p in
         let q := match after_last 47 q with Some t => t | None => q end in
         match q with [] => [x2f] | _ => q end          (* only slashes -> "/" *)
  end.

(* fmt.Sprintf("%d", n) for n >= 0 (fuel 20 digits covers every uint64) *)
Fixpoint dec_digits (fuel : nat) (n : Z) (acc : bytes) : bytes :=
  match fuel with
  | O => acc
  | S f => let acc' := z2b (48 + n mod 10) :: acc in
           if n <? 10 then acc' else dec_digits f (n / 10) acc'
  end.
Definition dec_str (n : Z) : bytes := dec_digits 20 n [].
