(* C19/Spec.v — what C19 demands, written without looking at the Go code.
   PostgreSQL facts used (bufpage.h, md.c, relpath.c, 8 KiB blocks, little-endian):
   * block n of a segment file is its bytes [8192 n, 8192 (n+1)); a trailing partial block is not a block;
   * segment k of a relation is the file <filenode>.<k> (k >= 1, decimal) or <filenode> (k = 0); the
     relation-wide number of its block n is k * (segment size / 8192) + n  (131072 blocks per 1 GiB);
   * PageHeaderData: pd_lsn {xlogid:u32, xrecoff:u32}, pd_checksum:u16, pd_flags:u16, pd_lower:u16,
     pd_upper:u16, pd_special:u16, pd_pagesize_version:u16 (size = & 0xFF00, version = & 0x00FF),
     pd_prune_xid:u32, then line pointers (4 bytes each, so count = (pd_lower - 24) / 4);
   * a page of 8192 zero bytes is a valid, never-initialised page.
   Result record types are shared with the model files (they are plain data). *)
Require Import PG.Base.Bytes PG.Base.GoSlice PG.C19.BlockrangeModel PG.C19.ChecksumModel.

Definition BLCKSZ : Z := 8192.

(* ---------- 1. block-range syntax:  a | a:b | a: | :b  with 0 <= a <= b ---------- *)
Definition digit_char (b : byte) : Prop := 48 <= b2z b <= 57.
Definition digit_string (s : bytes) : Prop := s <> [] /\ Forall digit_char s.
Definition num_val (s : bytes) : Z := fold_left (fun a c => 10 * a + (b2z c - 48)) s 0.
(* a block number is a digit string whose value fits Go's int (64 bit) *)
Definition block_number (s : bytes) : Prop := digit_string s /\ num_val s < 2 ^ 63.
Definition colon : bytes := [x3a].

(* [denotes s lo hi]: s is in the grammar and denotes the range (lo, hi); an absent side is -1 *)
Inductive denotes : bytes -> Z -> Z -> Prop :=
| G_single a : block_number a -> denotes a (num_val a) (num_val a)
| G_pair a b : block_number a -> block_number b -> num_val a <= num_val b ->
               denotes (a ++ colon ++ b) (num_val a) (num_val b)
| G_from a : block_number a -> denotes (a ++ colon) (num_val a) (-1)
| G_to b : block_number b -> denotes (colon ++ b) (-1) (num_val b).
Definition in_grammar (s : bytes) : Prop := exists lo hi, denotes s lo hi.

(* ---------- 2. blocks of a file, and which blocks a request addresses ---------- *)
Definition nblocks (f : bytes) : Z := blen f / BLCKSZ.
Definition block (n : Z) (f : bytes) : bytes := sub f (BLCKSZ * n) (BLCKSZ * (n + 1)).
Definition zrange (lo : Z) (n : nat) : list Z := map (fun i => lo + Z.of_nat i) (seq 0 n).
Definition between (lo hi : Z) : list Z := zrange lo (Z.to_nat (hi - lo + 1)).     (* lo, lo+1, ..., hi *)

(* A request (start, end), -1 or any negative = "not given": start defaults to 0, end to the last
   block; an end beyond the file is clamped to the last block; a start beyond the file (this includes
   every request on a file without a complete block) or after the end is rejected. *)
Definition requested (nb : Z) (br : option (Z * Z)) : option (Z * Z) :=
  let lo := match br with Some (s, _) => if 0 <=? s then s else 0 | None => 0 end in
  let hi := match br with Some (_, e) => if 0 <=? e then Z.min e (nb - 1) else nb - 1 | None => nb - 1 end in
  if (lo <? nb) && (lo <=? hi) then Some (lo, hi) else None.

Definition blocks_of (f : bytes) (ns : list Z) : bytes := concat (map (fun n => block n f) ns).
Definition expected_read (f : bytes) (br : option (Z * Z)) : option bytes :=
  match requested (nblocks f) br with
  | None => None
  | Some (lo, hi) => Some (blocks_of f (between lo hi))
  end.

(* ---------- 3. page header fields as stored ---------- *)
Record page_hdr := { pd_xlogid : Z; pd_xrecoff : Z; pd_checksum : Z; pd_flags : Z; pd_lower : Z; pd_upper : Z;
                     pd_special : Z; pd_psv : Z }.
(* an abstract block: never initialised, or a header followed by the remaining 8172 bytes
   (pd_prune_xid, line pointers, free space, tuples, special space) *)
Inductive ablock := AZero | APage (h : page_hdr) (rest : bytes).

Definition enc_hdr (h : page_hdr) : bytes :=
  le_enc 4 (pd_xlogid h) ++ le_enc 4 (pd_xrecoff h) ++ le_enc 2 (pd_checksum h) ++ le_enc 2 (pd_flags h) ++
  le_enc 2 (pd_lower h) ++ le_enc 2 (pd_upper h) ++ le_enc 2 (pd_special h) ++ le_enc 2 (pd_psv h).
Definition enc_block (b : ablock) : bytes :=
  match b with AZero => zeros BLCKSZ | APage h rest => enc_hdr h ++ rest end.
Definition enc_file (bs : list ablock) (partial : bytes) : bytes := concat (map enc_block bs) ++ partial.

Definition u16_ok (z : Z) : Prop := 0 <= z < 2 ^ 16.
Definition u32_ok (z : Z) : Prop := 0 <= z < 2 ^ 32.
Definition wf_hdr (h : page_hdr) : Prop :=
  u32_ok (pd_xlogid h) /\ u32_ok (pd_xrecoff h) /\ u16_ok (pd_checksum h) /\ u16_ok (pd_flags h) /\
  u16_ok (pd_lower h) /\ u16_ok (pd_upper h) /\ u16_ok (pd_special h) /\ u16_ok (pd_psv h).
Definition nonzero (b : bytes) : Prop := exists x, In x b /\ b2z x <> 0.
Definition wf_block (b : ablock) : Prop :=
  match b with
  | AZero => True
  | APage h rest => wf_hdr h /\ blen rest = BLCKSZ - 20 /\ nonzero (enc_hdr h ++ rest)
  end.

(* the summary of block number n *)
Definition expected_info (b : ablock) (n : Z) : BlockInfo :=
  match b with
  | AZero => empty_info n
  | APage h _ =>
    {| bi_num := n; bi_lsn_hi := pd_xlogid h; bi_lsn_lo := pd_xrecoff h;
       bi_checksum := pd_checksum h; bi_flags := pd_flags h; bi_lower := pd_lower h; bi_upper := pd_upper h;
       bi_special := pd_special h;
       bi_pagesize := pd_psv h / 256 * 256; bi_version := pd_psv h mod 256;
       bi_items := if 24 <=? pd_lower h then (pd_lower h - 24) / 4 else 0;        (* PageGetMaxOffsetNumber *)
       bi_free := if pd_lower h <? pd_upper h then pd_upper h - pd_lower h else 0; (* PageGetExactFreeSpace *)
       bi_empty := false |}
  end.

(* labels: the i-th block returned for a request starting at lo is block lo+i, at byte 8192 (lo+i) *)
Definition expected_infos (bs : list ablock) (lo hi : Z) : list BlockInfo :=
  map (fun n => expected_info (nth (Z.to_nat n) bs AZero) n) (between lo hi).

(* tallies over summaries *)
Definition sumZ (l : list Z) : Z := fold_right Z.add 0 l.
Definition used_blocks (l : list BlockInfo) : list BlockInfo := filter (fun b => negb (bi_empty b)) l.
Definition expected_stats (l : list BlockInfo) (lo hi : Z) : Stats :=
  let u := used_blocks l in
  let nu := Z.of_nat (length u) in
  {| st_total := Z.of_nat (length l); st_start := lo; st_end := hi;
     st_empty := Z.of_nat (length l) - nu; st_used := nu;
     st_items := sumZ (map bi_items u); st_free := sumZ (map bi_free u);
     st_fill := if 0 <? nu
                then Some (sumZ (map (fun b => bi_pagesize b - bi_free b) (filter (fun b => 0 <? bi_pagesize b) u)), nu * BLCKSZ)
                else None |}.

(* ---------- 4. segments ---------- *)
(* relation-wide block g lives in segment g / bps at local number g mod bps *)
Definition seg_of (g bps : Z) : Z * Z := (g / bps, g mod bps).
(* the logical file made of the segment files in order *)
Definition logical (segs : list bytes) : bytes := concat segs.

(* ---------- 5. checksum accounting ---------- *)
Inductive verdict := VZero | VValid | VInvalid (stored computed : Z).
Definition is_zero_block (b : bytes) : bool := forallb (fun x => b2z x =? 0) b.
Definition stored_checksum (b : bytes) : Z := le_dec (sub b 8 10).
Definition stored_lsn (b : bytes) : Z * Z := (le_dec (sub b 0 4), le_dec (sub b 4 8)).

Section Accounting.
(* the checksum function: any function of the block's bytes and its relation-wide number (O3: which
   function it is, is not part of C19) *)
Variable compute : bytes -> Z -> Z.

Definition block_verdict (b : bytes) (num : Z) : verdict :=
  if is_zero_block b then VZero
  else if stored_checksum b =? compute b num then VValid
  else VInvalid (stored_checksum b) (compute b num).

Definition rel_number (seg n : Z) : Z := (seg * 131072 + n) mod 2 ^ 32.
Definition file_verdicts (f : bytes) (seg : Z) : list (Z * verdict) :=
  map (fun n => (n, block_verdict (block n f) (rel_number seg n))) (zrange 0 (Z.to_nat (nblocks f))).

Definition is_invalid (v : verdict) : bool := match v with VInvalid _ _ => true | _ => false end.
Definition is_vzero (v : verdict) : bool := match v with VZero => true | _ => false end.
Definition countb {A} (p : A -> bool) (l : list A) : Z := Z.of_nat (length (filter p l)).

Definition error_entry (f : bytes) (seg : Z) (nv : Z * verdict) : list ChecksumResult :=
  match snd nv with
  | VInvalid s c =>
    let '(hi, lo) := stored_lsn (block (fst nv) f) in
    [ {| cr_num := rel_number seg (fst nv); cr_stored := s; cr_computed := c; cr_valid := false;
         cr_lsn := hi * 2 ^ 32 + lo; cr_lsnstr := Some (hi, lo) |} ]
  | _ => []
  end.

Definition expected_file_result (f : bytes) (seg : Z) : FileResult :=
  let vs := file_verdicts f seg in
  {| fr_total := Z.of_nat (length vs);
     fr_valid := countb (fun nv => negb (is_invalid (snd nv))) vs;
     fr_invalid := countb (fun nv => is_invalid (snd nv)) vs;
     fr_zero := countb (fun nv => is_vzero (snd nv)) vs;
     fr_errors := flat_map (error_entry f seg) vs |}.
End Accounting.

(* ---------- 6. which files of a data directory are relation segment files ---------- *)
Definition is_digit_b (b : byte) : bool := (48 <=? b2z b) && (b2z b <=? 57).
Definition oid_string (s : bytes) : bool :=
  match s with [] => false | _ => forallb is_digit_b s && (num_val s <? 2 ^ 32) end.
(* split at the LAST dot *)
Fixpoint split_last_dot (s : bytes) : option (bytes * bytes) :=
  match s with
  | [] => None
  | c :: r => match split_last_dot r with
              | Some (a, b) => Some (c :: a, b)
              | None => if b2z c =? 46 then Some ([], r) else None
              end
  end.
(* <digits> is segment 0 of a relation; <digits>.<digits> is segment <digits>; nothing else
   (fork files <n>_fsm, <n>_vm, <n>_init, temporary t<b>_<n>, pg_filenode.map, PG_VERSION ...) *)
Definition spec_relfile (name : bytes) : option Z :=
  if oid_string name then Some 0
  else match split_last_dot name with
       | Some (b, s) => if oid_string b && oid_string s then Some (num_val s) else None
       | None => None
       end.

(* the files checksum verification must visit: (db directory, file name, segment, content), in listing order *)
Definition visited_in (d : dentry) : list (bytes * bytes * Z * bytes) :=
  if de_isdir d && oid_string (de_name d) then
    match de_files d with
    | None => []
    | Some fs => flat_map (fun f => if fe_isdir f then [] else
                                    match spec_relfile (fe_name f) with
                                    | Some seg => if BLCKSZ <=? blen (fe_data f) then [(de_name d, fe_name f, seg, fe_data f)] else []
                                    | None => []
                                    end) fs
    end
  else [].
Definition visited (ds : list dentry) : list (bytes * bytes * Z * bytes) := flat_map visited_in ds.

Section DirAccounting.
Variable compute : bytes -> Z -> Z.
Definition expected_dir_result (ds : list dentry) : DirResult :=
  let rs := map (fun v => let '(dn, fn, seg, data) := v in (dn, fn, expected_file_result compute data seg)) (visited ds) in
  {| dr_files := Z.of_nat (length rs);
     dr_blocks := sumZ (map (fun r => fr_total (snd r)) rs);
     dr_valid := sumZ (map (fun r => fr_valid (snd r)) rs);
     dr_invalid := sumZ (map (fun r => fr_invalid (snd r)) rs);
     dr_list := filter (fun r => match fr_errors (snd r) with [] => false | _ => true end) rs |}.
End DirAccounting.
