(* C19/GrammarProofs.v — ParseBlockRange accepts exactly the grammar a | a:b | a: | :b, 0 <= a <= b. *)
Require Import PG.Base.Bytes PG.Base.GoSlice PG.C19.StrModel PG.C19.BlockrangeModel PG.C19.Spec.

Lemma is_digit_iff c : is_digit c = true <-> digit_char c.
Proof. unfold is_digit, digit_char. lia. Qed.

Lemma all_digits_iff s : all_digits s = true <-> Forall digit_char s.
Proof.
  unfold all_digits. rewrite forallb_forall, Forall_forall.
  split; intros H x Hx; apply is_digit_iff, H, Hx.
Qed.

Lemma dec_acc_fold s : forall acc, dec_acc acc s = fold_left (fun a c => 10 * a + (b2z c - 48)) s acc.
Proof.
  induction s as [|c r IH]; intros acc; [reflexivity|].
  cbn [dec_acc fold_left]. rewrite IH. f_equal. unfold dval. lia.
Qed.
Lemma dec_val_num_val s : dec_val s = num_val s.
Proof. apply dec_acc_fold. Qed.

Lemma fold_digits_nonneg s : forall acc, 0 <= acc -> Forall digit_char s ->
  0 <= fold_left (fun a c => 10 * a + (b2z c - 48)) s acc.
Proof.
  induction s as [|c r IH]; intros acc Ha Hs; [exact Ha|].
  inversion Hs as [|? ? Hc Hr]; subst. cbn [fold_left]. apply IH; [|exact Hr].
  unfold digit_char in Hc. lia.
Qed.
Lemma num_val_nonneg s : Forall digit_char s -> 0 <= num_val s.
Proof. intros. apply fold_digits_nonneg; [lia|assumption]. Qed.

(* Atoi on a non-empty digit string *)
Lemma Atoi_digits s : s <> [] -> all_digits s = true ->
  Atoi s = if num_val s <? 2 ^ 63 then Some (num_val s) else None.
Proof.
  intros Hne Hd. destruct s as [|c r]; [congruence|].
  assert (Hc : digit_char c).
  { apply all_digits_iff in Hd. inversion Hd; assumption. }
  unfold digit_char in Hc. unfold Atoi.
  replace (b2z c =? 45) with false by lia. replace (b2z c =? 43) with false by lia.
  cbn [orb]. rewrite Hd, dec_val_num_val. reflexivity.
Qed.

Lemma parseBlockNumber_spec s v : parseBlockNumber s = Some v <-> block_number s /\ v = num_val s.
Proof.
  unfold parseBlockNumber, block_number, digit_string.
  destruct s as [|c r] eqn:Es.
  - split; [discriminate|]. intros [[[H _] _] _]. congruence.
  - rewrite <- Es. destruct (all_digits s) eqn:Hd.
    + rewrite Atoi_digits by (subst; auto; discriminate).
      apply all_digits_iff in Hd.
      destruct (num_val s <? 2 ^ 63) eqn:E; split.
      * intros [= <-]. repeat split; auto; try lia. subst; discriminate.
      * intros [_ ->]. reflexivity.
      * discriminate.
      * intros [[_ H] _]. lia.
    + split; [discriminate|]. intros [[[_ H] _] _]. apply all_digits_iff in H. congruence.
Qed.

Lemma parse_side_spec p v :
  parse_side p = Some v <-> (p = [] /\ v = -1) \/ (block_number p /\ v = num_val p).
Proof.
  unfold parse_side. destruct p as [|c r] eqn:Ep.
  - split.
    + intros [= <-]. left; auto.
    + intros [[_ ->]|[[[H _] _] _]]; [reflexivity|congruence].
  - rewrite <- Ep. destruct (parseBlockNumber p) as [w|] eqn:E.
    + apply parseBlockNumber_spec in E. destruct E as [Hb ->].
      assert (Hnn : 0 <= num_val p) by (apply num_val_nonneg, Hb).
      replace (num_val p <? 0) with false by lia. split.
      * intros [= <-]. right; auto.
      * intros [[Hp _]|[_ ->]]; [subst; discriminate|reflexivity].
    + split; [discriminate|]. intros [[H _]|[Hb ->]]; [subst; discriminate|].
      assert (parseBlockNumber p = Some (num_val p)) by (apply parseBlockNumber_spec; auto). congruence.
Qed.

(* ---- splitting at the first colon ---- *)
Definition nocolon (s : bytes) : Prop := Forall (fun c => b2z c <> 58) s.

Lemma cut_at_some s : forall a b, cut_at 58 s = Some (a, b) -> s = a ++ colon ++ b /\ nocolon a.
Proof.
  induction s as [|c r IH]; intros a b H; [discriminate|].
  cbn [cut_at] in H. destruct (b2z c =? 58) eqn:E.
  - injection H as <- <-. split; [|constructor].
    assert (c = x3a) by (apply b2z_inj; change (b2z x3a) with 58; lia). subst. reflexivity.
  - destruct (cut_at 58 r) as [[a' b']|] eqn:Er; [|discriminate].
    injection H as <- <-. destruct (IH _ _ eq_refl) as [-> Hn].
    split; [reflexivity|]. constructor; [lia|exact Hn].
Qed.
Lemma cut_at_none s : cut_at 58 s = None -> nocolon s.
Proof.
  induction s as [|c r IH]; intros H; [constructor|].
  cbn [cut_at] in H. destruct (b2z c =? 58) eqn:E; [discriminate|].
  destruct (cut_at 58 r) as [[a' b']|] eqn:Er; [discriminate|].
  constructor; [lia|apply IH; reflexivity].
Qed.
Lemma cut_at_app a b : nocolon a -> cut_at 58 (a ++ colon ++ b) = Some (a, b).
Proof.
  induction a as [|c r IH]; intros H.
  - reflexivity.
  - inversion H as [|? ? Hc Hr]; subst. cbn [app cut_at].
    replace (b2z c =? 58) with false by lia. rewrite IH by exact Hr. reflexivity.
Qed.
Lemma cut_at_nocolon s : nocolon s -> cut_at 58 s = None.
Proof.
  induction s as [|c r IH]; intros H; [reflexivity|].
  inversion H as [|? ? Hc Hr]; subst. cbn [cut_at].
  replace (b2z c =? 58) with false by lia. rewrite IH by exact Hr. reflexivity.
Qed.
Lemma digits_nocolon s : Forall digit_char s -> nocolon s.
Proof. apply Forall_impl. unfold digit_char. intros; lia. Qed.
Lemma block_number_nocolon s : block_number s -> nocolon s.
Proof. intros [[_ H] _]. apply digits_nocolon, H. Qed.

Lemma validate_ok st en lo hi : validate_range st en = PBRRange lo hi <-> st = lo /\ en = hi /\ ~ (0 <= st /\ 0 <= en /\ en < st).
Proof.
  unfold validate_range. destruct ((st >=? 0) && (en >=? 0) && (st >? en)) eqn:E; split.
  - discriminate.
  - intros (_ & _ & H). lia.
  - intros [= <- <-]. repeat split; lia.
  - intros (-> & -> & _). reflexivity.
Qed.

(* soundness: an accepted string is in the grammar and denotes the returned pair *)
Lemma parse_sound s lo hi : ParseBlockRange s = PBRRange lo hi -> denotes s lo hi.
Proof.
  unfold ParseBlockRange. destruct s as [|c0 r0] eqn:Es; [discriminate|]. rewrite <- Es. clear Es c0 r0.
  destruct (cut_at 58 s) as [[p0 p1]|] eqn:Ec.
  - apply cut_at_some in Ec. destruct Ec as [-> Hn].
    intros H.
    assert (H' : match parse_side p0 with
                 | Some st => match parse_side p1 with Some en => validate_range st en | None => PBRErr end
                 | None => PBRErr end = PBRRange lo hi /\ ~ (p0 = [] /\ p1 = [])).
    { destruct p0, p1; try discriminate; (split; [exact H|intros [? ?]; discriminate]). }
    clear H. destruct H' as [H Hne].
    destruct (parse_side p0) as [st|] eqn:E0; [|discriminate].
    destruct (parse_side p1) as [en|] eqn:E1; [|discriminate].
    apply validate_ok in H. destruct H as (-> & -> & Hv).
    apply parse_side_spec in E0. apply parse_side_spec in E1.
    destruct E0 as [[-> ->]|[Hb0 ->]], E1 as [[-> ->]|[Hb1 ->]].
    + exfalso. apply Hne; auto.
    + apply G_to, Hb1.
    + apply G_from, Hb0.
    + apply G_pair; auto.
      assert (0 <= num_val p0) by (apply num_val_nonneg, Hb0).
      assert (0 <= num_val p1) by (apply num_val_nonneg, Hb1). lia.
  - destruct (parseBlockNumber s) as [b|] eqn:E; [|discriminate].
    apply parseBlockNumber_spec in E. destruct E as [Hb ->].
    assert (Hnn : 0 <= num_val s) by (apply num_val_nonneg, Hb).
    replace (num_val s <? 0) with false by lia.
    intros H. apply validate_ok in H. destruct H as (<- & <- & _). apply G_single, Hb.
Qed.

Lemma block_number_nonempty s : block_number s -> s <> [].
Proof. intros [[H _] _]. exact H. Qed.

Lemma PBR_cons_eq (c : byte) (r : bytes) :
  ParseBlockRange (c :: r) =
  match cut_at 58 (c :: r) with
  | Some (p0, p1) =>
      match p0, p1 with
      | [], [] => PBRErr
      | _, _ => match parse_side p0 with
                | Some st => match parse_side p1 with Some en => validate_range st en | None => PBRErr end
                | None => PBRErr end
      end
  | None => match parseBlockNumber (c :: r) with
            | Some b => if b <? 0 then PBRErr else validate_range b b
            | None => PBRErr end
  end.
Proof. reflexivity. Qed.

Lemma PBR_nonempty_eq s : s <> [] ->
  ParseBlockRange s =
  match cut_at 58 s with
  | Some (p0, p1) =>
      match p0, p1 with
      | [], [] => PBRErr
      | _, _ => match parse_side p0 with
                | Some st => match parse_side p1 with Some en => validate_range st en | None => PBRErr end
                | None => PBRErr end
      end
  | None => match parseBlockNumber s with
            | Some b => if b <? 0 then PBRErr else validate_range b b
            | None => PBRErr end
  end.
Proof. destruct s; [congruence|]. intros _. apply PBR_cons_eq. Qed.

(* completeness: every string of the grammar is accepted with the pair it denotes *)
Lemma parse_complete s lo hi : denotes s lo hi -> ParseBlockRange s = PBRRange lo hi.
Proof.
  intros H. destruct H as [a Ha|a b Ha Hb Hle|a Ha|b Hb].
  - rewrite PBR_nonempty_eq by (apply block_number_nonempty, Ha).
    rewrite cut_at_nocolon by (apply block_number_nocolon, Ha).
    assert (E : parseBlockNumber a = Some (num_val a)) by (apply parseBlockNumber_spec; auto).
    rewrite E. assert (0 <= num_val a) by (apply num_val_nonneg, Ha).
    replace (num_val a <? 0) with false by lia.
    apply validate_ok. repeat split; lia.
  - pose proof (block_number_nonempty _ Ha) as Na.
    rewrite PBR_nonempty_eq by (destruct a; [congruence|discriminate]).
    rewrite cut_at_app by (apply block_number_nocolon, Ha).
    assert (E0 : parse_side a = Some (num_val a)) by (apply parse_side_spec; right; auto).
    assert (E1 : parse_side b = Some (num_val b)) by (apply parse_side_spec; right; auto).
    rewrite E0, E1.
    destruct a as [|x a']; [congruence|].
    apply validate_ok. repeat split; lia.
  - pose proof (block_number_nonempty _ Ha) as Na.
    rewrite PBR_nonempty_eq by (destruct a; [congruence|discriminate]).
    replace (a ++ colon) with (a ++ colon ++ []) by reflexivity.
    rewrite cut_at_app by (apply block_number_nocolon, Ha).
    assert (E0 : parse_side a = Some (num_val a)) by (apply parse_side_spec; right; auto).
    rewrite E0. destruct a as [|x a']; [congruence|].
    change (parse_side []) with (Some (-1)).
    apply validate_ok. repeat split; lia.
  - pose proof (block_number_nonempty _ Hb) as Nb.
    rewrite PBR_nonempty_eq by discriminate.
    change (colon ++ b) with ([] ++ colon ++ b).
    rewrite cut_at_app by constructor.
    assert (E1 : parse_side b = Some (num_val b)) by (apply parse_side_spec; right; auto).
    destruct b as [|x b']; [congruence|].
    rewrite E1. change (parse_side []) with (Some (-1)).
    apply validate_ok. repeat split; lia.
Qed.

Theorem parse_block_range_grammar s lo hi : ParseBlockRange s = PBRRange lo hi <-> denotes s lo hi.
Proof. split; [apply parse_sound|apply parse_complete]. Qed.

Lemma parse_none_iff s : ParseBlockRange s = PBRNone <-> s = [].
Proof.
  split; [|intros ->; reflexivity].
  destruct s as [|c r]; [reflexivity|]. rewrite PBR_cons_eq.
  destruct (cut_at 58 (c :: r)) as [[p0 p1]|].
  - destruct p0, p1; try discriminate;
      (destruct (parse_side _); [|discriminate]); (destruct (parse_side _); [|discriminate]);
      unfold validate_range; destruct (_ && _); discriminate.
  - destruct (parseBlockNumber _); [|discriminate].
    destruct (_ <? 0); [discriminate|]. unfold validate_range. destruct (_ && _); discriminate.
Qed.

(* the three-way classification, for ALL strings *)
Theorem parse_block_range_classify s :
  (s = [] -> ParseBlockRange s = PBRNone) /\
  (s <> [] -> in_grammar s -> exists lo hi, denotes s lo hi /\ ParseBlockRange s = PBRRange lo hi) /\
  (s <> [] -> ~ in_grammar s -> ParseBlockRange s = PBRErr).
Proof.
  split; [intros ->; reflexivity|]. split.
  - intros _ (lo & hi & H). exists lo, hi. split; [exact H|apply parse_complete, H].
  - intros Hne Hng. destruct (ParseBlockRange s) as [|lo hi|] eqn:E.
    + apply parse_none_iff in E. congruence.
    + exfalso. apply Hng. exists lo, hi. apply parse_sound, E.
    + reflexivity.
Qed.

(* the denotation is a function of the string *)
Lemma denotes_fun s lo hi lo' hi' : denotes s lo hi -> denotes s lo' hi' -> lo = lo' /\ hi = hi'.
Proof.
  intros H H'. apply parse_complete in H. apply parse_complete in H'.
  rewrite H in H'. injection H' as -> ->. auto.
Qed.

(* ---- the code before the fix accepted strings outside the grammar (D59) ---- *)
Lemma historic_colon_refuted :
  Historic_ParseBlockRange colon = PBRRange (-1) (-1) /\ ~ in_grammar colon.
Proof.
  split; [vm_compute; reflexivity|].
  intros (lo & hi & H). apply parse_complete in H. vm_compute in H. discriminate.
Qed.
Lemma historic_sign_refuted :
  Historic_ParseBlockRange [x2b; x35] = PBRRange 5 5 /\ ~ in_grammar [x2b; x35] /\
  Historic_ParseBlockRange [x2d; x30] = PBRRange 0 0 /\ ~ in_grammar [x2d; x30] /\
  Historic_ParseBlockRange [x31; x3a; x2b; x32] = PBRRange 1 2 /\ ~ in_grammar [x31; x3a; x2b; x32].
Proof.
  repeat split; try (vm_compute; reflexivity);
    intros (lo & hi & H); apply parse_complete in H; vm_compute in H; discriminate.
Qed.
