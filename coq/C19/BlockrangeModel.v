(* C19/BlockrangeModel.v — model of pgdump/blockrange.go (after the fix: commits for D58, D59 and
   the negative-block DumpBinaryBlock repair).  ReadTuplesInRange belongs to C09.
   A file is [option bytes] (None: os.Open fails); reading is [file_read]. *)
Require Import PG.Base.Bytes PG.Base.GoSlice PG.C19.StrModel.

Definition PageSize : Z := 8192.       (* page.go:4 *)
Definition headerSize : Z := 24.       (* page.go:5 *)
Definition itemIDSize : Z := 4.        (* page.go:6 *)

Inductive ferr := EOpen | EBeyond | EInvalid | EIO | ENegative | ENoSegments | EBaseDir.

(* ---------- ParseBlockRange (blockrange.go:17-82) ---------- *)
Inductive pbr := PBRNone | PBRRange (lo hi : Z) | PBRErr.

(* parseBlockNumber: "" -> error; any non-digit -> error; else strconv.Atoi *)
Definition parseBlockNumber (s : bytes) : option Z :=
  match s with
  | [] => None
  | _ => if all_digits s then Atoi s else None
  end.

(* one side of "a:b":  "" leaves the default -1; otherwise parse and reject negatives *)
Definition parse_side (p : bytes) : option Z :=
  match p with
  | [] => Some (-1)
  | _ => match parseBlockNumber p with
         | None => None
         | Some v => if v <? 0 then None else Some v
         end
  end.

Definition validate_range (st en : Z) : pbr :=
  if (st >=? 0) && (en >=? 0) && (st >? en) then PBRErr else PBRRange st en.

Definition ParseBlockRange (s : bytes) : pbr :=
  match s with
  | [] => PBRNone                                                   (* s == "" -> nil, nil *)
  | _ =>
    match cut_at 58 s with                                          (* strings.Contains(s, ":") / SplitN(s, ":", 2) *)
    | Some (p0, p1) =>
      match p0, p1 with
      | [], [] => PBRErr                                            (* both sides empty *)
      | _, _ =>
        match parse_side p0 with
        | None => PBRErr
        | Some st =>
          match parse_side p1 with
          | None => PBRErr
          | Some en => validate_range st en
          end
        end
      end
    | None =>
      match parseBlockNumber s with
      | None => PBRErr
      | Some b => if b <? 0 then PBRErr else validate_range b b
      end
    end
  end.

(* the code before the D59 fix: strconv.Atoi directly, no both-sides-empty test *)
Definition hist_side (p : bytes) : option Z :=
  match p with
  | [] => Some (-1)
  | _ => match Atoi p with None => None | Some v => if v <? 0 then None else Some v end
  end.
Definition Historic_ParseBlockRange (s : bytes) : pbr :=
  match s with
  | [] => PBRNone
  | _ =>
    match cut_at 58 s with
    | Some (p0, p1) =>
      match hist_side p0 with
      | None => PBRErr
      | Some st => match hist_side p1 with None => PBRErr | Some en => validate_range st en end
      end
    | None =>
      match Atoi s with
      | None => PBRErr
      | Some b => if b <? 0 then PBRErr else validate_range b b
      end
    end
  end.

(* ---------- the operating system as data ---------- *)
(* f.Seek(off, 0) followed by ONE f.Read(buf) with len(buf) = n on a regular file of content d:
   n = 0 -> (0, nil); at or past the end -> io.EOF; otherwise the min(n, remaining) bytes.
   A negative offset makes Seek fail. *)
Definition file_read (d : bytes) (off n : Z) : option bytes :=
  if off <? 0 then None
  else if n <=? 0 then Some []
  else if blen d <=? off then None
  else Some (sub d off (Z.min (off + n) (blen d))).

(* ---------- ReadBlockRange (blockrange.go:84-142) ---------- *)
Definition br_start (br : option (Z * Z)) (dflt : Z) : Z :=
  match br with Some (s, _) => if s >=? 0 then s else dflt | None => dflt end.
Definition br_end (br : option (Z * Z)) (dflt : Z) : Z :=
  match br with Some (_, e) => if e >=? 0 then e else dflt | None => dflt end.

Definition ReadBlockRange (f : option bytes) (br : option (Z * Z)) : res (ferr + gslice) :=
  match f with
  | None => Ok (inl EOpen)
  | Some d =>
    let totalBlocks := blen d / PageSize in
    let start := br_start br 0 in
    let end_ := br_end br (totalBlocks - 1) in
    if start >=? totalBlocks then Ok (inl EBeyond) else
    let end_ := if end_ >=? totalBlocks then totalBlocks - 1 else end_ in
    if start >? end_ then Ok (inl EInvalid) else
    let startOffset := start * PageSize in
    let numBlocks := end_ - start + 1 in
    let bytesToRead := numBlocks * PageSize in
    if bytesToRead <? 0 then Panic else                              (* make([]byte, bytesToRead) *)
    match file_read d startOffset bytesToRead with
    | None => Ok (inl EIO)
    | Some r => Ok (inr {| vis := r; tail := zeros (bytesToRead - blen r) |})   (* data[:n] *)
    end
  end.

(* ---------- ParseBlockInfo (blockrange.go:160-206) ---------- *)
Record BlockInfo := {
  bi_num : Z; bi_lsn_hi : Z; bi_lsn_lo : Z;   (* LSN string = FormatLSN: "%X/%X" of (lsn>>32, lsn&0xFFFFFFFF) *)
  bi_checksum : Z; bi_flags : Z; bi_lower : Z; bi_upper : Z; bi_special : Z;
  bi_pagesize : Z; bi_version : Z; bi_items : Z; bi_free : Z; bi_empty : bool }.

Definition empty_info (n : Z) : BlockInfo :=
  {| bi_num := n; bi_lsn_hi := 0; bi_lsn_lo := 0; bi_checksum := 0; bi_flags := 0; bi_lower := 0; bi_upper := 0;
     bi_special := 0; bi_pagesize := 0; bi_version := 0; bi_items := 0; bi_free := 0; bi_empty := true |}.

Definition all_zero (b : bytes) : bool := forallb (fun x => b2z x =? 0) b.

Definition ParseBlockInfo (data : gslice) (blockNumber : Z) : res (option BlockInfo) :=
  if len data <? PageSize then Ok None else
  pg <- slice data 0 PageSize ;;                                    (* data[:PageSize] *)
  if all_zero (vis pg) then Ok (Some (empty_info blockNumber)) else
  hi <- u32 data 0 ;;
  lo <- u32 data 4 ;;
  let lsn := hi * 2 ^ 32 + lo in                                    (* uint64(hi)<<32 | uint64(lo) *)
  cks <- u16 data 8 ;;
  flags <- u16 data 10 ;;
  lower <- u16 data 12 ;;
  upper <- u16 data 14 ;;
  special <- u16 data 16 ;;
  psv <- u16 data 18 ;;
  Ok (Some {| bi_num := blockNumber;
              bi_lsn_hi := lsn / 2 ^ 32; bi_lsn_lo := lsn mod 2 ^ 32;
              bi_checksum := cks; bi_flags := flags; bi_lower := lower; bi_upper := upper; bi_special := special;
              bi_pagesize := Z.land psv 65280; bi_version := Z.land psv 255;
              bi_items := if lower >=? headerSize then (lower - headerSize) / itemIDSize else 0;
              bi_free := if upper >? lower then upper - lower else 0;
              bi_empty := false |}).

(* ---------- DumpBlockRange (blockrange.go:208-231) ---------- *)
Definition start_block (br : option (Z * Z)) : Z := br_start br 0.

Fixpoint dump_loop (cnt : nat) (data : gslice) (startBlock i : Z) : res (list BlockInfo) :=
  match cnt with
  | O => Ok []
  | S k =>
    let offset := i * PageSize in
    block <- slice data offset (offset + PageSize) ;;
    info <- ParseBlockInfo block ((startBlock + i) mod 2 ^ 32) ;;   (* uint32(startBlock+i) *)
    rest <- dump_loop k data startBlock (i + 1) ;;
    Ok (match info with Some b => b :: rest | None => rest end)
  end.

Definition DumpBlockRange (f : option bytes) (br : option (Z * Z)) : res (ferr + list BlockInfo) :=
  r <- ReadBlockRange f br ;;
  match r with
  | inl e => Ok (inl e)
  | inr data =>
    l <- dump_loop (Z.to_nat (len data / PageSize)) data (start_block br) 0 ;;
    Ok (inr l)
  end.

(* ---------- GetBlockRangeStats (blockrange.go:256-298) ---------- *)
Record Stats := {
  st_total : Z; st_start : Z; st_end : Z; st_empty : Z; st_used : Z; st_items : Z; st_free : Z;
  st_fill : option (Z * Z) }.   (* AvgFillPct = float64(totalUsed)/float64(totalCapacity)*100, None = 0 *)

Record acc := { a_empty : Z; a_used : Z; a_items : Z; a_free : Z; a_totused : Z }.
Definition stats_step (a : acc) (b : BlockInfo) : acc :=
  if bi_empty b then {| a_empty := a_empty a + 1; a_used := a_used a; a_items := a_items a; a_free := a_free a; a_totused := a_totused a |}
  else {| a_empty := a_empty a; a_used := a_used a + 1; a_items := a_items a + bi_items b; a_free := a_free a + bi_free b;
          a_totused := if bi_pagesize b >? 0 then a_totused a + (bi_pagesize b - bi_free b) else a_totused a |}.

Definition stats_of (blocks : list BlockInfo) : Stats :=
  match blocks with
  | [] => {| st_total := 0; st_start := 0; st_end := 0; st_empty := 0; st_used := 0; st_items := 0; st_free := 0; st_fill := None |}
  | b0 :: _ =>
    let a := fold_left stats_step blocks {| a_empty := 0; a_used := 0; a_items := 0; a_free := 0; a_totused := 0 |} in
    {| st_total := Z.of_nat (length blocks);
       st_start := bi_num b0; st_end := bi_num (last blocks b0);
       st_empty := a_empty a; st_used := a_used a; st_items := a_items a; st_free := a_free a;
       st_fill := if a_used a >? 0 then (if a_used a * PageSize >? 0 then Some (a_totused a, a_used a * PageSize) else None) else None |}
  end.

Definition GetBlockRangeStats (f : option bytes) (br : option (Z * Z)) : res (ferr + Stats) :=
  r <- DumpBlockRange f br ;;
  match r with inl e => Ok (inl e) | inr blocks => Ok (inr (stats_of blocks)) end.

(* ---------- DumpBinaryBlock / DumpBinaryRange (blockrange.go:308-353); hex.Dump is abstract ---------- *)
Record BinDump := { bd_num : Z; bd_off : Z; bd_hex : bytes; bd_size : Z }.

Section HexDump.
Variable hexDump : bytes -> bytes.

Definition DumpBinaryBlock (f : option bytes) (blockNum : Z) : res (ferr + BinDump) :=
  if blockNum <? 0 then Ok (inl ENegative) else
  r <- ReadBlockRange f (Some (blockNum, blockNum)) ;;
  match r with
  | inl e => Ok (inl e)
  | inr data => Ok (inr {| bd_num := blockNum mod 2 ^ 32; bd_off := blockNum * PageSize;
                           bd_hex := hexDump (vis data); bd_size := len data |})
  end.

Fixpoint bindump_loop (cnt : nat) (data : gslice) (startBlock i : Z) : res (list BinDump) :=
  match cnt with
  | O => Ok []
  | S k =>
    let offset := i * PageSize in
    block <- slice data offset (offset + PageSize) ;;
    rest <- bindump_loop k data startBlock (i + 1) ;;
    Ok ({| bd_num := (startBlock + i) mod 2 ^ 32; bd_off := (startBlock + i) * PageSize;
           bd_hex := hexDump (vis block); bd_size := PageSize |} :: rest)
  end.

Definition DumpBinaryRange (f : option bytes) (br : option (Z * Z)) : res (ferr + list BinDump) :=
  r <- ReadBlockRange f br ;;
  match r with
  | inl e => Ok (inl e)
  | inr data =>
    l <- bindump_loop (Z.to_nat (len data / PageSize)) data (start_block br) 0 ;;
    Ok (inr l)
  end.
End HexDump.

(* extraction instance: hex.Dump stays abstract; the driver prints the bytes handed to it and the
   harness replaces that token by the real hex.Dump of those bytes *)
Definition hexdump_token (b : bytes) : bytes := b.
Definition DumpBinaryBlock_x := DumpBinaryBlock hexdump_token.
Definition DumpBinaryRange_x := DumpBinaryRange hexdump_token.
