(* C19/SegmentModel.v — model of pgdump/segment.go (after the fix: commits rejecting negative block
   numbers and sub-page segment sizes).  The file system is a function path -> content. *)
Require Import PG.Base.Bytes PG.Base.GoSlice PG.C19.StrModel PG.C19.BlockrangeModel.

Definition fsys := bytes -> option bytes.          (* os.Stat / os.Open succeed iff Some *)
Definition DefaultSegmentSize : Z := 1073741824.   (* segment.go:12 *)
Definition int64 (z : Z) : Z := sint 64 (wrap 64 z).

Record SegmentInfo := { si_path : bytes; si_num : Z; si_size : Z; si_fsize : Z; si_blocks : Z; si_goff : Z }.

(* segment.go:32-47 *)
Definition GetSegmentNumberFromPath (path : bytes) : Z :=
  let base := Base path in
  match after_last 46 base with                     (* strings.LastIndex(base, ".") *)
  | None => 0
  | Some suffix => match Atoi suffix with Some n => n | None => 0 end
  end.

(* opts = Some (SegmentNumber, SegmentSize) or nil *)
Definition GetSegmentInfo (fs : fsys) (path : bytes) (opts : option (Z * Z)) : ferr + SegmentInfo :=
  match fs path with
  | None => inl EOpen
  | Some d =>
    let segSize := match opts with Some (_, sz) => if sz >? 0 then sz else DefaultSegmentSize | None => DefaultSegmentSize end in
    let fromPath := GetSegmentNumberFromPath path in
    let segNum := match opts with Some (n, _) => if n >? 0 then n else fromPath | None => fromPath end in
    inr {| si_path := path; si_num := segNum; si_size := segSize; si_fsize := blen d;
           si_blocks := blen d / PageSize; si_goff := int64 (segNum * segSize) |}
  end.

(* segment.go:79-113 *)
Definition seg_path (basePath : bytes) (i : Z) : bytes := basePath ++ [x2e] ++ dec_str i.   (* "%s.%d" *)

Fixpoint list_more (cnt : nat) (fs : fsys) (basePath : bytes) (i : Z) : list SegmentInfo :=
  match cnt with
  | O => []
  | S k =>
    match fs (seg_path basePath i) with
    | None => []                                                       (* break *)
    | Some d => {| si_path := seg_path basePath i; si_num := i; si_size := DefaultSegmentSize; si_fsize := blen d;
                   si_blocks := blen d / PageSize; si_goff := int64 (i * DefaultSegmentSize) |}
                :: list_more k fs basePath (i + 1)
    end
  end.

Definition ListSegments (fs : fsys) (basePath : bytes) : list SegmentInfo :=
  (match fs basePath with
   | Some d => [ {| si_path := basePath; si_num := 0; si_size := DefaultSegmentSize; si_fsize := blen d;
                    si_blocks := blen d / PageSize; si_goff := 0 |} ]
   | None => []
   end) ++ list_more 999 fs basePath 1.                                (* for i := 1; i < 1000; i++ *)

(* segment.go:116-147 *)
Definition ReadSegmentBlock (fs : fsys) (path : bytes) (blockNum : Z) (opts : option (Z * Z)) : ferr + gslice :=
  match GetSegmentInfo fs path opts with
  | inl e => inl e
  | inr si =>
    if blockNum <? 0 then inl ENegative else
    if blockNum >=? si_blocks si then inl EBeyond else
    match fs path with
    | None => inl EOpen
    | Some d =>
      match file_read d (blockNum * PageSize) PageSize with
      | None => inl EIO
      | Some r => inr {| vis := r; tail := zeros (PageSize - blen r) |}
      end
    end
  end.

(* segment.go:151-191 *)
Fixpoint multi_loop (cnt : nat) (fs : fsys) (segments : list SegmentInfo) (bps : Z) (opts : option (Z * Z))
         (blockNum : Z) : res bytes :=
  match cnt with
  | O => Ok []
  | S k =>
    if bps =? 0 then Panic else                                        (* integer divide by zero *)
    let segIdx := Z.quot blockNum bps in
    let localBlock := Z.rem blockNum bps in
    if segIdx >=? Z.of_nat (length segments) then Ok [] else           (* break *)
    if segIdx <? 0 then Panic else                                     (* segments[segIdx] *)
    match nth_error segments (Z.to_nat segIdx) with
    | None => Panic
    | Some sg =>
      match ReadSegmentBlock fs (si_path sg) localBlock opts with
      | inl _ => Ok []                                                 (* break *)
      | inr block => rest <- multi_loop k fs segments bps opts (blockNum + 1) ;; Ok (vis block ++ rest)
      end
    end
  end.

Definition ReadMultiSegmentFile (fs : fsys) (basePath : bytes) (gstart gend : Z) (opts : option (Z * Z)) : res (ferr + bytes) :=
  if gstart <? 0 then Ok (inl ENegative) else
  let segments := ListSegments fs basePath in
  match segments with
  | [] => Ok (inl ENoSegments)
  | _ =>
    let segSize := match opts with Some (_, sz) => if sz >=? PageSize then sz else DefaultSegmentSize | None => DefaultSegmentSize end in
    let bps := segSize / PageSize in
    r <- multi_loop (Z.to_nat (gend - gstart + 1)) fs segments bps opts gstart ;;
    Ok (inr r)
  end.

(* segment.go:194-204 *)
Definition GlobalBlockToSegment (globalBlock segmentSize : Z) : res (Z * Z) :=
  let segmentSize := if segmentSize <? PageSize then DefaultSegmentSize else segmentSize in
  let bps := segmentSize / PageSize in
  if bps =? 0 then Panic else Ok (Z.quot globalBlock bps, Z.rem globalBlock bps).
