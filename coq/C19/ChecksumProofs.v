(* C19/ChecksumProofs.v — checksum accounting: every block exactly once, valid (zero pages
   included) or invalid, exactly the invalid ones listed; verdicts are local. *)
Require Import PG.Base.Bytes PG.Base.GoSlice PG.C19.StrModel PG.C19.BlockrangeModel PG.C19.ChecksumModel PG.C19.Spec
               PG.C19.ReadProofs PG.C19.LabelsProofs.

(* the tool's checksum function as a function of the block's bytes and number *)
Definition cpc (b : bytes) (num : Z) : Z := computePageChecksum (exact b) num.
Lemma cpc_vis s num : computePageChecksum s num = cpc (vis s) num.
Proof. reflexivity. Qed.

Lemma u32w_mod x : u32w x = x mod 2 ^ 32.
Proof. unfold u32w. change 4294967295 with (Z.ones 32). apply Z.land_ones. lia. Qed.

(* what VerifyPageChecksum reports for ANY page of at least 8192 bytes *)
Definition page_result (b : bytes) (num : Z) : ChecksumResult :=
  if all_zero (sub b 0 8192) then blank_result num true else
  {| cr_num := num; cr_stored := fld b 8 2; cr_computed := cpc b num; cr_valid := fld b 8 2 =? cpc b num;
     cr_lsn := fld b 0 4 * 2 ^ 32 + fld b 4 4; cr_lsnstr := Some (fld b 0 4, fld b 4 4) |}.

Lemma slice_u s lo (n : nat) : 0 <= lo -> lo + Z.of_nat n <= len s ->
  (x <- slice s lo (lo + Z.of_nat n) ;; uN n x 0) = Ok (fld (vis s) lo (Z.of_nat n)).
Proof.
  intros H0 H1. destruct (slice_ok s lo (lo + Z.of_nat n)) as [r Hr]; [lia|lia|pose proof (len_le_cap s); lia|].
  rewrite Hr. cbn [bind]. pose proof (slice_len _ _ _ _ Hr) as L.
  rewrite uN_val by lia. rewrite (slice_vis_within _ _ _ _ Hr) by lia.
  unfold fld. f_equal. f_equal. apply sub_exact; [lia|]. rewrite sub_length; unfold len in *; lia.
Qed.

Theorem verify_page_short s num : len s < PageSize -> VerifyPageChecksum s num = Ok (blank_result num false).
Proof. intros H. unfold VerifyPageChecksum. replace (len s <? PageSize) with true by lia. reflexivity. Qed.

Theorem verify_page_any s num : PageSize <= len s -> VerifyPageChecksum s num = Ok (page_result (vis s) num).
Proof.
  unfold PageSize. intros H. unfold VerifyPageChecksum, PageSize, page_result, isZeroPage.
  replace (len s <? 8192) with false by lia.
  destruct (slice_ok s 0 8192) as [pg Hpg]; [lia|lia|pose proof (len_le_cap s); lia|].
  rewrite Hpg. cbn [bind]. rewrite (slice_vis_within _ _ _ _ Hpg) by lia.
  destruct (all_zero (sub (vis s) 0 8192)); [reflexivity|].
  change 10 with (8 + Z.of_nat 2). change 4 with (0 + Z.of_nat 4) at 1.
  unfold u16, u32.
  pose proof (slice_u s 8 2 ltac:(lia) ltac:(lia)) as E8.
  pose proof (slice_u s 0 4 ltac:(lia) ltac:(lia)) as E0.
  pose proof (slice_u s 4 4 ltac:(lia) ltac:(lia)) as E4.
  change (4 + Z.of_nat 4) with 8 in E4. change (0 + Z.of_nat 4) with 4 in *. change (8 + Z.of_nat 2) with 10 in *.
  change (Z.of_nat 2) with 2 in *. change (Z.of_nat 4) with 4 in *.
  destruct (slice s 8 10) as [s8|]; [|discriminate]. cbn [bind] in E8 |- *. rewrite E8. cbn [bind].
  destruct (slice s 0 4) as [s0|]; [|discriminate]. cbn [bind] in E0 |- *. rewrite E0. cbn [bind].
  destruct (slice s 4 8) as [s4|]; [|discriminate]. cbn [bind] in E4 |- *. rewrite E4. cbn [bind].
  unfold len in H.
  pose proof (fld_range (vis s) 0 4 ltac:(lia) ltac:(lia)) as R0.
  pose proof (fld_range (vis s) 4 4 ltac:(lia) ltac:(lia)) as R4.
  change (Z.of_nat 4) with 4 in *. change (2 ^ (8 * 4)) with 4294967296 in *. change (2 ^ 32) with 4294967296.
  rewrite cpc_vis.
  replace ((fld (vis s) 0 4 * 4294967296 + fld (vis s) 4 4) / 4294967296) with (fld (vis s) 0 4) by lia.
  replace ((fld (vis s) 0 4 * 4294967296 + fld (vis s) 4 4) mod 4294967296) with (fld (vis s) 4 4) by lia.
  reflexivity.
Qed.

Lemma verify_page_no_panic s num : VerifyPageChecksum s num <> Panic.
Proof.
  destruct (Z_lt_ge_dec (len s) PageSize).
  - rewrite verify_page_short by assumption. discriminate.
  - rewrite verify_page_any by lia. discriminate.
Qed.

(* ---------- the file loop ---------- *)
Definition tally4 (f : bytes) (seg : Z) (vs : list (Z * verdict)) : Z * Z * Z * list ChecksumResult :=
  (countb (fun nv => negb (is_invalid (snd nv))) vs, countb (fun nv => is_invalid (snd nv)) vs,
   countb (fun nv => is_vzero (snd nv)) vs, flat_map (error_entry f seg) vs).

Lemma countb_cons {A} (p : A -> bool) x l : countb p (x :: l) = (if p x then 1 else 0) + countb p l.
Proof. unfold countb. cbn [filter]. destruct (p x); cbn [length]; lia. Qed.

Lemma quad_eq {A} (a b c a' b' c' : Z) (e e' : A) :
  a = a' -> b = b' -> c = c' -> e = e' -> (a, b, c, e) = (a', b', c', e').
Proof. intros -> -> -> ->. reflexivity. Qed.

Lemma tally4_cons f seg x r :
  tally4 f seg (x :: r) =
  let '(v, iv, z, e) := tally4 f seg r in
  (v + (if negb (is_invalid (snd x)) then 1 else 0), iv + (if is_invalid (snd x) then 1 else 0),
   z + (if is_vzero (snd x) then 1 else 0), error_entry f seg x ++ e).
Proof. unfold tally4. rewrite !countb_cons. cbn [flat_map]. apply quad_eq; try lia; reflexivity. Qed.

Lemma rel_number_eq seg i : u32w (u32w (seg * 131072) + i) = rel_number seg i.
Proof. unfold rel_number. rewrite !u32w_mod. apply Z.add_mod_idemp_l. lia. Qed.

Lemma vfc_loop_spec data seg : forall cnt i, 0 <= i -> (i + Z.of_nat cnt) * 8192 <= len data ->
  vfc_loop cnt data (u32w (seg * 131072)) i =
  Ok (tally4 (vis data) seg (map (fun n => (n, block_verdict cpc (block n (vis data)) (rel_number seg n))) (zrange i cnt))).
Proof.
  induction cnt as [|cnt IH]; intros i Hi Hl; [reflexivity|].
  cbn [vfc_loop]. unfold PageSize.
  destruct (slice_ok data (i * 8192) (i * 8192 + 8192)) as [blk Hb]; [lia|lia|pose proof (len_le_cap data); lia|].
  rewrite Hb. cbn [bind]. rewrite IH by lia. cbn [bind].
  rewrite zrange_S. cbn [map].
  assert (Hv : vis blk = block i (vis data)).
  { rewrite (slice_vis_within _ _ _ _ Hb) by lia. unfold block, BLCKSZ. f_equal; lia. }
  pose proof (slice_len _ _ _ _ Hb) as Lb.
  set (rest := map _ (zrange (i + 1) cnt)).
  rewrite tally4_cons. destruct (tally4 (vis data) seg rest) as [[[v iv] z] e]. cbn [snd fst].
  unfold block_verdict, isZeroPage. rewrite Hv.
  change (is_zero_block (block i (vis data))) with (all_zero (block i (vis data))).
  destruct (all_zero (block i (vis data))) eqn:Z0.
  - cbn [is_invalid is_vzero negb error_entry snd app]. f_equal. apply quad_eq; try lia; reflexivity.
  - rewrite verify_page_any by (unfold PageSize; lia). cbn [bind].
    rewrite rel_number_eq. unfold page_result. rewrite Hv.
    replace (sub (block i (vis data)) 0 8192) with (block i (vis data))
      by (symmetry; apply sub_exact; [reflexivity|rewrite <- Hv; unfold len in Lb; lia]).
    rewrite Z0. cbn [cr_valid].
    change (stored_checksum (block i (vis data))) with (fld (block i (vis data)) 8 2).
    destruct (fld (block i (vis data)) 8 2 =? cpc (block i (vis data)) (rel_number seg i)) eqn:V.
    + cbn [is_invalid is_vzero negb error_entry snd app]. f_equal. apply quad_eq; try lia; reflexivity.
    + cbn [is_invalid is_vzero negb error_entry snd fst app].
      unfold stored_lsn. f_equal. apply quad_eq; try lia. reflexivity.
Qed.

Lemma file_verdicts_length compute f seg : Z.of_nat (length (file_verdicts compute f seg)) = nblocks f.
Proof.
  unfold file_verdicts. rewrite map_length, zrange_length.
  unfold nblocks, BLCKSZ. pose proof (blen_nonneg f). lia.
Qed.

Theorem verify_file_spec data seg :
  VerifyFileChecksums data seg = Ok (expected_file_result cpc (vis data) seg).
Proof.
  unfold VerifyFileChecksums, PageSize.
  pose proof (len_nonneg data) as Hn.
  rewrite vfc_loop_spec by lia. cbn [bind]. unfold tally4, expected_file_result.
  rewrite file_verdicts_length. unfold file_verdicts, nblocks, BLCKSZ, len. reflexivity.
Qed.

Lemma verify_file_no_panic data seg : VerifyFileChecksums data seg <> Panic.
Proof. rewrite verify_file_spec. discriminate. Qed.

(* ---------- completeness and locality of the accounting ---------- *)
(* every block of the file exactly once, in order *)
Lemma file_verdicts_blocks compute f seg :
  map fst (file_verdicts compute f seg) = zrange 0 (Z.to_nat (nblocks f)).
Proof. unfold file_verdicts. rewrite map_map. cbn [fst]. apply map_id. Qed.

(* the verdict recorded for block n is a function of that block's bytes and its number only *)
Lemma file_verdicts_local compute f seg n v :
  In (n, v) (file_verdicts compute f seg) <->
  0 <= n < nblocks f /\ v = block_verdict compute (block n f) (rel_number seg n).
Proof.
  unfold file_verdicts. rewrite in_map_iff. split.
  - intros (m & [= <- <-] & Hm). apply zrange_In in Hm. split; [lia|reflexivity].
  - intros (Hn & ->). exists n. split; [reflexivity|]. apply zrange_In. lia.
Qed.

Lemma countb_split {A} (p : A -> bool) l : countb p l + countb (fun x => negb (p x)) l = Z.of_nat (length l).
Proof.
  induction l as [|x l IH]; [reflexivity|]. rewrite !countb_cons. cbn [length]. destruct (p x); cbn [negb]; lia.
Qed.
Lemma countb_le {A} (p q : A -> bool) l : (forall x, p x = true -> q x = true) -> countb p l <= countb q l.
Proof.
  intros H. induction l as [|x l IH]; [reflexivity|]. rewrite !countb_cons.
  destruct (p x) eqn:P; [rewrite (H x P); lia|destruct (q x); lia].
Qed.
Lemma countb_nonneg {A} (p : A -> bool) l : 0 <= countb p l.
Proof. unfold countb. lia. Qed.

Theorem accounting_totals compute f seg :
  let r := expected_file_result compute f seg in
  fr_total r = nblocks f /\ fr_valid r + fr_invalid r = fr_total r /\ 0 <= fr_zero r <= fr_valid r /\
  Z.of_nat (length (fr_errors r)) = fr_invalid r.
Proof.
  cbv zeta. unfold expected_file_result. cbn [fr_total fr_valid fr_invalid fr_zero fr_errors].
  set (vs := file_verdicts compute f seg).
  split; [apply file_verdicts_length|]. split.
  - pose proof (countb_split (fun nv : Z * verdict => is_invalid (snd nv)) vs). lia.
  - split; [split; [apply countb_nonneg|]|].
    + apply countb_le. intros [n v]. cbn [snd]. destruct v; cbn; congruence.
    + clear. induction vs as [|[n v] vs IH]; [reflexivity|].
      cbn [flat_map]. rewrite app_length, countb_cons. cbn [snd].
      destruct v; cbn [error_entry snd is_invalid]; try (cbn [length]; lia).
      destruct (stored_lsn _). cbn [length]. lia.
Qed.

(* an entry is listed iff its block is invalid; it carries the block's relation-wide number *)
Theorem errors_exact compute f seg :
  map cr_num (fr_errors (expected_file_result compute f seg)) =
  map (fun nv => rel_number seg (fst nv)) (filter (fun nv => is_invalid (snd nv)) (file_verdicts compute f seg)).
Proof.
  unfold expected_file_result. cbn [fr_errors].
  induction (file_verdicts compute f seg) as [|[n v] vs IH]; [reflexivity|].
  cbn [flat_map filter snd]. rewrite map_app, IH.
  destruct v; cbn [error_entry snd fst is_invalid]; try reflexivity;
    try (destruct (stored_lsn _); reflexivity).
Qed.

(* ---------- the computed checksum ignores the stored checksum field (bytes 8..9) ---------- *)
Theorem page_copy_field_independent p p' :
  PageSize <= blen p -> blen p' = blen p -> sub p' 0 8 = sub p 0 8 -> sub p' 10 (blen p') = sub p 10 (blen p) ->
  page_copy p' = page_copy p.
Proof.
  unfold PageSize. intros L L' H8 H10. unfold page_copy, PageSize.
  rewrite L', Z.min_l by lia.
  assert (A : forall q, 8192 <= blen q ->
            sub (sub q 0 8192 ++ zeros (8192 - 8192)) 0 8 = sub q 0 8 /\
            sub (sub q 0 8192 ++ zeros (8192 - 8192)) 10 8192 = sub (sub q 10 (blen q)) 0 8182).
  { intros q Lq. assert (blen (sub q 0 8192) = 8192) by (rewrite sub_length; lia). split.
    - rewrite sub_app_l by lia. rewrite sub_sub by lia. reflexivity.
    - rewrite sub_app_l by lia. rewrite !sub_sub by lia. reflexivity. }
  destruct (A p L) as [-> ->]. destruct (A p' ltac:(lia)) as [-> ->].
  rewrite H8, H10. reflexivity.
Qed.

Corollary checksum_field_independent p p' num :
  PageSize <= blen p -> blen p' = blen p -> sub p' 0 8 = sub p 0 8 -> sub p' 10 (blen p') = sub p 10 (blen p) ->
  cpc p' num = cpc p num.
Proof.
  intros. unfold cpc, computePageChecksum. cbn [exact vis].
  rewrite (page_copy_field_independent p p') by assumption. reflexivity.
Qed.
