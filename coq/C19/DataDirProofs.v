(* C19/DataDirProofs.v — VerifyDataDirChecksums visits exactly the relation segment files of the
   numeric sub-directories of base/, each with the segment number its name carries. *)
Require Import PG.Base.Bytes PG.Base.GoSlice PG.C19.StrModel PG.C19.BlockrangeModel PG.C19.ChecksumModel PG.C19.Spec
               PG.C19.GrammarProofs PG.C19.ReadProofs PG.C19.LabelsProofs PG.C19.ChecksumProofs.

Lemma is_digit_b_eq c : is_digit_b c = is_digit c. Proof. reflexivity. Qed.

Lemma ParseUint32_spec s : ParseUint32 s = if oid_string s then Some (num_val s) else None.
Proof.
  unfold ParseUint32, oid_string. destruct s as [|c r]; [reflexivity|].
  change (forallb is_digit_b (c :: r)) with (all_digits (c :: r)).
  rewrite dec_val_num_val. destruct (all_digits (c :: r)); [|reflexivity].
  cbn [andb]. reflexivity.
Qed.

Definition nodot (s : bytes) : Prop := Forall (fun c => b2z c <> 46) s.

Lemma oid_nodot s : oid_string s = true -> nodot s.
Proof.
  unfold oid_string. destruct s as [|c r]; [discriminate|]. intros H.
  apply andb_prop in H. destruct H as [H _]. rewrite forallb_forall in H.
  apply Forall_forall. intros x Hx. specialize (H x Hx). unfold is_digit_b in H. lia.
Qed.

Lemma cut_dot_some s : forall a b, cut_at 46 s = Some (a, b) -> exists c, b2z c = 46 /\ s = a ++ c :: b /\ nodot a.
Proof.
  induction s as [|c r IH]; intros a b H; [discriminate|].
  cbn [cut_at] in H. destruct (b2z c =? 46) eqn:E.
  - injection H as <- <-. exists c. repeat split; [lia|constructor].
  - destruct (cut_at 46 r) as [[a' b']|] eqn:Er; [|discriminate].
    injection H as <- <-. destruct (IH _ _ eq_refl) as (c' & Hc & -> & Hn).
    exists c'. repeat split; auto. constructor; [lia|exact Hn].
Qed.
Lemma cut_dot_none s : cut_at 46 s = None -> nodot s.
Proof.
  induction s as [|c r IH]; intros H; [constructor|].
  cbn [cut_at] in H. destruct (b2z c =? 46) eqn:E; [discriminate|].
  destruct (cut_at 46 r) as [[a' b']|] eqn:Er; [discriminate|].
  constructor; [lia|apply IH; reflexivity].
Qed.
Lemma cut_dot_app a c b : nodot a -> b2z c = 46 -> cut_at 46 (a ++ c :: b) = Some (a, b).
Proof.
  intros Hn Hc. induction a as [|x a IH].
  - cbn [app cut_at]. replace (b2z c =? 46) with true by lia. reflexivity.
  - inversion Hn as [|? ? Hx Ha]; subst. cbn [app cut_at].
    replace (b2z x =? 46) with false by lia. rewrite IH by exact Ha. reflexivity.
Qed.
Lemma split_last_nodot s : nodot s -> split_last_dot s = None.
Proof.
  induction s as [|c r IH]; intros H; [reflexivity|].
  inversion H as [|? ? Hc Hr]; subst. cbn [split_last_dot]. rewrite IH by exact Hr.
  replace (b2z c =? 46) with false by lia. reflexivity.
Qed.
Lemma split_last_app a c b : nodot b -> b2z c = 46 -> split_last_dot (a ++ c :: b) = Some (a, b).
Proof.
  intros Hn Hc. induction a as [|x a IH].
  - cbn [app split_last_dot]. rewrite split_last_nodot by exact Hn.
    replace (b2z c =? 46) with true by lia. reflexivity.
  - cbn [app split_last_dot]. rewrite IH. reflexivity.
Qed.
Lemma split_last_some s : forall a b, split_last_dot s = Some (a, b) -> exists c, b2z c = 46 /\ s = a ++ c :: b /\ nodot b.
Proof.
  induction s as [|c r IH]; intros a b H; [discriminate|].
  cbn [split_last_dot] in H. destruct (split_last_dot r) as [[a' b']|] eqn:Er.
  - injection H as <- <-. destruct (IH _ _ eq_refl) as (c' & Hc & -> & Hn). exists c'. auto.
  - destruct (b2z c =? 46) eqn:E; [|discriminate]. injection H as <- <-.
    exists c. repeat split; [lia|].
    clear - Er. induction r as [|x r IH]; [constructor|].
    cbn [split_last_dot] in Er. destruct (split_last_dot r) as [[? ?]|]; [discriminate|].
    destruct (b2z x =? 46) eqn:E; [discriminate|]. constructor; [lia|apply IH; reflexivity].
Qed.
Lemma split_last_none s : split_last_dot s = None -> nodot s.
Proof.
  induction s as [|x r IH]; intros Er; [constructor|].
  cbn [split_last_dot] in Er. destruct (split_last_dot r) as [[? ?]|]; [discriminate|].
  destruct (b2z x =? 46) eqn:E; [discriminate|]. constructor; [lia|apply IH; reflexivity].
Qed.

Lemma dot_not_oid a c b : b2z c = 46 -> oid_string (a ++ c :: b) = false.
Proof.
  intros Hc. destruct (oid_string (a ++ c :: b)) eqn:E; [|reflexivity].
  apply oid_nodot in E. unfold nodot in E. rewrite Forall_forall in E.
  specialize (E c ltac:(apply in_or_app; right; left; reflexivity)). lia.
Qed.

(* the file-name filter of the code = the specification's pattern, for ALL names *)
Theorem relfile_segment_spec name : relfile_segment name = spec_relfile name.
Proof.
  unfold relfile_segment, spec_relfile.
  destruct (cut_at 46 name) as [[b1 s1]|] eqn:Ec.
  - destruct (cut_dot_some _ _ _ Ec) as (c & Hc & -> & Hn1).
    rewrite (dot_not_oid b1 c s1 Hc). rewrite !ParseUint32_spec.
    destruct (oid_string b1) eqn:O1.
    + destruct (oid_string s1) eqn:O2.
      * rewrite (split_last_app b1 c s1 (oid_nodot _ O2) Hc). rewrite O1, O2. reflexivity.
      * destruct (split_last_dot (b1 ++ c :: s1)) as [[b2 s2]|] eqn:El; [|reflexivity].
        destruct (oid_string b2 && oid_string s2) eqn:O; [|reflexivity].
        apply andb_prop in O. destruct O as [Ob Os].
        destruct (split_last_some _ _ _ El) as (c' & Hc' & E & _).
        rewrite E in Ec. rewrite (cut_dot_app b2 c' s2 (oid_nodot _ Ob) Hc') in Ec.
        injection Ec as <- <-. congruence.
    + destruct (split_last_dot (b1 ++ c :: s1)) as [[b2 s2]|] eqn:El; [|reflexivity].
      destruct (oid_string b2 && oid_string s2) eqn:O; [|reflexivity].
      apply andb_prop in O. destruct O as [Ob Os].
      destruct (split_last_some _ _ _ El) as (c' & Hc' & E & _).
      rewrite E in Ec. rewrite (cut_dot_app b2 c' s2 (oid_nodot _ Ob) Hc') in Ec.
      injection Ec as <- <-. congruence.
  - rewrite ParseUint32_spec. destruct (oid_string name); [reflexivity|].
    rewrite (split_last_nodot _ (cut_dot_none _ Ec)). reflexivity.
Qed.

(* ---------- the directory walk ---------- *)
Definition absorb (acc : DirResult) (r : bytes * bytes * FileResult) : DirResult :=
  let fr := snd r in
  {| dr_files := dr_files acc + 1; dr_blocks := dr_blocks acc + fr_total fr;
     dr_valid := dr_valid acc + fr_valid fr; dr_invalid := dr_invalid acc + fr_invalid fr;
     dr_list := match fr_errors fr with [] => dr_list acc | _ => dr_list acc ++ [r] end |}.
Definition result_of (v : bytes * bytes * Z * bytes) : bytes * bytes * FileResult :=
  let '(dn, fn, seg, data) := v in (dn, fn, expected_file_result cpc data seg).

Definition visited_file (dn : bytes) (f : fentry) : list (bytes * bytes * Z * bytes) :=
  if fe_isdir f then [] else
  match spec_relfile (fe_name f) with
  | Some seg => if BLCKSZ <=? blen (fe_data f) then [(dn, fe_name f, seg, fe_data f)] else []
  | None => []
  end.

Lemma add_file_spec dn acc f :
  add_file dn acc f = Ok (fold_left absorb (map result_of (visited_file dn f)) acc).
Proof.
  unfold add_file, visited_file. destruct (fe_isdir f); [reflexivity|].
  rewrite relfile_segment_spec. destruct (spec_relfile (fe_name f)) as [seg|]; [|reflexivity].
  unfold PageSize, BLCKSZ.
  destruct (blen (fe_data f) <? 8192) eqn:E.
  - replace (8192 <=? blen (fe_data f)) with false by lia. reflexivity.
  - replace (8192 <=? blen (fe_data f)) with true by lia.
    rewrite verify_file_spec. cbn [bind exact vis map fold_left result_of]. reflexivity.
Qed.

Lemma add_files_spec dn : forall fs acc,
  add_files dn acc fs = Ok (fold_left absorb (map result_of (flat_map (visited_file dn) fs)) acc).
Proof.
  induction fs as [|f fs IH]; intros acc; [reflexivity|].
  cbn [add_files flat_map]. rewrite add_file_spec. cbn [bind]. rewrite IH.
  rewrite map_app, fold_left_app. reflexivity.
Qed.

Lemma visited_in_eq d :
  visited_in d = if de_isdir d && oid_string (de_name d)
                 then match de_files d with None => [] | Some fs => flat_map (visited_file (de_name d)) fs end
                 else [].
Proof. reflexivity. Qed.

Lemma add_dir_spec acc d : add_dir acc d = Ok (fold_left absorb (map result_of (visited_in d)) acc).
Proof.
  unfold add_dir. rewrite visited_in_eq, ParseUint32_spec.
  destruct (de_isdir d); cbn [negb andb]; [|reflexivity].
  destruct (oid_string (de_name d)); [|reflexivity].
  destruct (de_files d) as [fs|]; [apply add_files_spec|reflexivity].
Qed.

Lemma add_dirs_spec : forall ds acc, add_dirs acc ds = Ok (fold_left absorb (map result_of (visited ds)) acc).
Proof.
  induction ds as [|d ds IH]; intros acc; [reflexivity|].
  cbn [add_dirs]. rewrite add_dir_spec. cbn [bind]. rewrite IH.
  unfold visited. cbn [flat_map]. rewrite map_app, fold_left_app. reflexivity.
Qed.

Definition has_errors (r : bytes * bytes * FileResult) : bool := match fr_errors (snd r) with [] => false | _ => true end.
Lemma absorb_fold rs : forall acc,
  fold_left absorb rs acc =
  {| dr_files := dr_files acc + Z.of_nat (length rs);
     dr_blocks := dr_blocks acc + sumZ (map (fun r => fr_total (snd r)) rs);
     dr_valid := dr_valid acc + sumZ (map (fun r => fr_valid (snd r)) rs);
     dr_invalid := dr_invalid acc + sumZ (map (fun r => fr_invalid (snd r)) rs);
     dr_list := dr_list acc ++ filter has_errors rs |}.
Proof.
  induction rs as [|r rs IH]; intros acc.
  - cbn. rewrite app_nil_r. destruct acc; cbn. f_equal; lia.
  - cbn [fold_left]. rewrite IH. unfold absorb at 1 2 3 4 5.
    cbn [dr_files dr_blocks dr_valid dr_invalid dr_list map length filter]. rewrite !sumZ_cons.
    unfold has_errors at 2. destruct (fr_errors (snd r)) eqn:E.
    + f_equal; lia.
    + rewrite <- app_assoc. cbn [app]. f_equal; lia.
Qed.

Theorem verify_datadir_spec ds :
  VerifyDataDirChecksums (Some ds) = Ok (inr (expected_dir_result cpc ds)).
Proof.
  unfold VerifyDataDirChecksums. rewrite add_dirs_spec. cbn [bind]. rewrite absorb_fold.
  cbn [dr_files dr_blocks dr_valid dr_invalid dr_list app]. unfold expected_dir_result.
  change (map (fun v => let '(dn, fn, seg, data) := v in (dn, fn, expected_file_result cpc data seg)) (visited ds))
    with (map result_of (visited ds)).
  do 2 f_equal.
Qed.

Lemma verify_datadir_no_panic base : VerifyDataDirChecksums base <> Panic.
Proof. destruct base as [ds|]; [rewrite verify_datadir_spec|]; discriminate. Qed.
