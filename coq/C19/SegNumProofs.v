(* C19: the segment number of a relation file is the decimal suffix of its name — for EVERY directory prefix, every
   file name without '.' and '/', and every segment number 0 <= n < 2^63 (replaces the finite instance
   C19_segment_number_partial).  Needs: fmt "%d" (dec_str) and strconv.Atoi are inverse, filepath.Base takes the last
   component, strings.LastIndex(".") finds the dot written by "%s.%d". *)
Require Import PG.Base.Bytes PG.Base.GoSlice PG.C19.StrModel PG.C19.SegmentModel.

Definition has_byte (z : Z) (s : bytes) : bool := existsb (fun b => b2z b =? z) s.

(* ---- decimal rendering and parsing are inverse ---- *)
Lemma dec_acc_app a l c : dec_acc a (l ++ [c]) = dec_acc a l * 10 + dval c.
Proof. revert a; induction l as [|x l IH]; intros a; cbn [app dec_acc]; [reflexivity|apply IH]. Qed.

Lemma digit_byte k : 0 <= k <= 9 -> b2z (z2b (48 + k)) = 48 + k.
Proof. intros H. rewrite b2z_z2b. apply Z.mod_small. lia. Qed.

Lemma all_digits_app a b : all_digits (a ++ b) = all_digits a && all_digits b.
Proof. unfold all_digits. apply forallb_app. Qed.

Lemma has_byte_app z a b : has_byte z (a ++ b) = has_byte z a || has_byte z b.
Proof. unfold has_byte. apply existsb_app. Qed.

Lemma digits_no_byte z s : all_digits s = true -> (z < 48 \/ 57 < z) -> has_byte z s = false.
Proof.
  intros D Hz. induction s as [|c r IH]; [reflexivity|].
  cbn [all_digits forallb] in D. apply andb_true_iff in D. destruct D as [D1 D2].
  unfold has_byte. cbn [existsb]. fold (has_byte z r). rewrite (IH D2).
  unfold is_digit in D1. apply andb_true_iff in D1. destruct D1 as [A B].
  replace (b2z c =? z) with false by lia. reflexivity.
Qed.

Lemma dec_digits_spec : forall fuel n acc, 0 <= n < 10 ^ Z.of_nat fuel -> (0 < fuel)%nat ->
  exists ds, dec_digits fuel n acc = ds ++ acc /\ all_digits ds = true /\ ds <> [] /\ dec_val ds = n.
Proof.
  induction fuel as [|f IH]; intros n acc Hn Hf; [lia|].
  cbn [dec_digits].
  assert (Hm : 0 <= n mod 10 <= 9) by (pose proof (Z.mod_pos_bound n 10); lia).
  destruct (n <? 10) eqn:E.
  - exists [z2b (48 + n mod 10)]. split; [reflexivity|]. split.
    + unfold all_digits. cbn [forallb]. unfold is_digit. rewrite digit_byte by lia. lia.
    + split; [discriminate|]. unfold dec_val. cbn [dec_acc]. unfold dval. rewrite digit_byte by lia.
      rewrite Z.mod_small by lia. lia.
  - assert (Hf' : (0 < f)%nat).
    { destruct f; [|lia]. cbn in Hn. lia. }
    assert (Hn' : 0 <= n / 10 < 10 ^ Z.of_nat f).
    { split; [apply Z.div_pos; lia|]. apply Z.div_lt_upper_bound; [lia|].
      replace (10 * 10 ^ Z.of_nat f) with (10 ^ Z.of_nat (S f)); [lia|].
      rewrite Nat2Z.inj_succ, Z.pow_succ_r by lia. reflexivity. }
    destruct (IH (n / 10) (z2b (48 + n mod 10) :: acc) Hn' Hf') as (ds & E1 & D & NE & V).
    exists (ds ++ [z2b (48 + n mod 10)]). split; [rewrite E1, <- app_assoc; reflexivity|]. split.
    + rewrite all_digits_app, D. unfold all_digits. cbn [forallb]. unfold is_digit. rewrite digit_byte by lia. lia.
    + split; [destruct ds; discriminate|].
      unfold dec_val in *. rewrite dec_acc_app, V. unfold dval. rewrite digit_byte by lia.
      pose proof (Z.div_mod n 10). lia.
Qed.

Lemma dec_str_spec n : 0 <= n < 2 ^ 63 ->
  all_digits (dec_str n) = true /\ dec_str n <> [] /\ dec_val (dec_str n) = n.
Proof.
  intros H. unfold dec_str.
  destruct (dec_digits_spec 20 n []) as (ds & E & D & NE & V); [change (Z.of_nat 20) with 20; lia|lia|].
  rewrite app_nil_r in E. rewrite E. auto.
Qed.

Lemma Atoi_digits ds : all_digits ds = true -> ds <> [] -> dec_val ds < 2 ^ 63 -> Atoi ds = Some (dec_val ds).
Proof.
  intros D NE V. destruct ds as [|c r]; [contradiction|].
  unfold Atoi.
  assert (Hc : 48 <= b2z c <= 57).
  { cbn [all_digits forallb] in D. apply andb_true_iff in D. destruct D as [D1 _]. unfold is_digit in D1. lia. }
  replace (b2z c =? 45) with false by lia. replace (b2z c =? 43) with false by lia. cbn [orb].
  rewrite D. replace (dec_val (c :: r) <? 2 ^ 63) with true by lia. reflexivity.
Qed.

Theorem Atoi_dec_str n : 0 <= n < 2 ^ 63 -> Atoi (dec_str n) = Some n.
Proof.
  intros H. destruct (dec_str_spec n H) as (D & NE & V).
  rewrite Atoi_digits; [rewrite V; reflexivity|exact D|exact NE|lia].
Qed.

(* ---- strings.LastIndex / filepath.Base on names built by "%s.%d" ---- *)
Lemma after_last_none sep t : has_byte sep t = false -> after_last sep t = None.
Proof.
  induction t as [|c r IH]; intros H; [reflexivity|].
  unfold has_byte in H. cbn [existsb] in H. apply orb_false_iff in H. destruct H as [H1 H2].
  cbn [after_last]. rewrite (IH H2). rewrite H1. reflexivity.
Qed.

Lemma after_last_app sep c0 s t : b2z c0 = sep -> has_byte sep t = false -> after_last sep (s ++ c0 :: t) = Some t.
Proof.
  intros Hc H. induction s as [|c r IH]; cbn [app after_last].
  - rewrite (after_last_none sep t H). rewrite Hc, Z.eqb_refl. reflexivity.
  - rewrite IH. reflexivity.
Qed.

Lemma strip_trailing_id sep : forall s, s <> [] -> b2z (last s x00) <> sep -> strip_trailing sep s = s.
Proof.
  induction s as [|c r IH]; intros NE L; [contradiction|].
  destruct r as [|d r'].
  - cbn [strip_trailing]. cbn [last] in L. replace (b2z c =? sep) with false by lia. reflexivity.
  - assert (E : strip_trailing sep (d :: r') = d :: r').
    { apply IH; [discriminate|]. exact L. }
    change (strip_trailing sep (c :: d :: r')) with
      (match strip_trailing sep (d :: r') with [] => if b2z c =? sep then [] else [c] | t => c :: t end).
    rewrite E. reflexivity.
Qed.

Lemma last_app_ne (a b : bytes) d : b <> [] -> last (a ++ b) d = last b d.
Proof.
  intros NE. induction a as [|x a IH]; [reflexivity|].
  cbn [app]. destruct (a ++ b) as [|b0 l] eqn:E; [apply app_eq_nil in E; destruct E; contradiction|].
  change (last (x :: b0 :: l) d) with (last (b0 :: l) d). exact IH.
Qed.

Lemma last_digit ds : all_digits ds = true -> ds <> [] -> 48 <= b2z (last ds x00) <= 57.
Proof.
  intros D NE. induction ds as [|c r IH]; [contradiction|].
  cbn [all_digits forallb] in D. apply andb_true_iff in D. destruct D as [D1 D2].
  destruct r as [|d r']; [cbn [last]; unfold is_digit in D1; lia|].
  change (last (c :: d :: r') x00) with (last (d :: r') x00). apply IH; [exact D2|discriminate].
Qed.

(* filepath.Base of a path whose last component [comp] is non-empty, holds no '/', and does not end the path with '/' *)
Lemma Base_last_component dir comp :
  comp <> [] -> has_byte 47 comp = false ->
  Base (dir ++ x2f :: comp) = comp /\ Base comp = comp.
Proof.
  intros NE H.
  assert (L : b2z (last comp x00) <> 47).
  { clear NE. induction comp as [|c r IH]; [cbn; lia|].
    unfold has_byte in H. cbn [existsb] in H. apply orb_false_iff in H. destruct H as [H1 H2].
    destruct r as [|d r']; [cbn [last]; lia|]. change (last (c :: d :: r') x00) with (last (d :: r') x00). apply IH. exact H2. }
  split.
  - unfold Base. destruct (dir ++ x2f :: comp) eqn:E; [destruct dir; discriminate|]. rewrite <- E.
    rewrite strip_trailing_id; [|rewrite E; discriminate|].
    + rewrite (after_last_app 47 x2f dir comp eq_refl H). destruct comp; [contradiction|reflexivity].
    + change (x2f :: comp) with ([x2f] ++ comp). rewrite app_assoc, last_app_ne by exact NE. exact L.
  - unfold Base. destruct comp as [|c r] eqn:E; [contradiction|]. rewrite <- E in *.
    rewrite strip_trailing_id by (subst; try discriminate; exact L).
    rewrite (after_last_none 47 comp H). subst. reflexivity.
Qed.

(* ---- the theorem ---- *)
Theorem segment_number_general dir name n :
  name <> [] -> has_byte 46 name = false -> has_byte 47 name = false -> 0 <= n < 2 ^ 63 ->
  GetSegmentNumberFromPath (dir ++ [x2f] ++ name ++ [x2e] ++ dec_str n) = n /\
  GetSegmentNumberFromPath (name ++ [x2e] ++ dec_str n) = n /\
  GetSegmentNumberFromPath (dir ++ [x2f] ++ name) = 0 /\
  GetSegmentNumberFromPath name = 0.
Proof.
  intros NE H46 H47 Hn.
  destruct (dec_str_spec n Hn) as (D & DNE & V).
  set (ds := dec_str n) in *.
  assert (C47 : has_byte 47 (name ++ x2e :: ds) = false).
  { rewrite has_byte_app, H47. unfold has_byte at 1. cbn [existsb orb]. fold (has_byte 47 ds).
    rewrite (digits_no_byte 47 ds D) by lia. reflexivity. }
  assert (CNE : name ++ x2e :: ds <> []) by (destruct name; discriminate).
  assert (N46 : has_byte 46 ds = false) by (apply digits_no_byte; [exact D|lia]).
  assert (A : Atoi ds = Some n).
  { rewrite Atoi_digits; [rewrite V; reflexivity|exact D|exact DNE|lia]. }
  destruct (Base_last_component dir (name ++ x2e :: ds) CNE C47) as [B1 B2].
  destruct (Base_last_component dir name NE H47) as [B3 B4].
  cbn [app].
  repeat split; unfold GetSegmentNumberFromPath.
  - rewrite B1. rewrite (after_last_app 46 x2e name ds eq_refl N46). rewrite A. reflexivity.
  - rewrite B2. rewrite (after_last_app 46 x2e name ds eq_refl N46). rewrite A. reflexivity.
  - rewrite B3. rewrite (after_last_none 46 name H46). reflexivity.
  - rewrite B4. rewrite (after_last_none 46 name H46). reflexivity.
Qed.

(* non-vacuity: base/5/16384.12 *)
Example segment_number_example :
  GetSegmentNumberFromPath ([x62; x61; x73; x65; x2f; x35] ++ [x2f] ++ [x31; x36; x33; x38; x34] ++ [x2e] ++ dec_str 12) = 12.
Proof. apply (segment_number_general [x62; x61; x73; x65; x2f; x35] [x31; x36; x33; x38; x34] 12); [discriminate|reflexivity|reflexivity|lia]. Qed.
