(* C19/ReadProofs.v — ReadBlockRange returns exactly the requested blocks. *)
Require Import PG.Base.Bytes PG.Base.GoSlice PG.C19.StrModel PG.C19.BlockrangeModel PG.C19.Spec.

Lemma zrange_S lo n : zrange lo (S n) = lo :: zrange (lo + 1) n.
Proof.
  unfold zrange. cbn [seq map]. f_equal; [lia|].
  rewrite <- seq_shift, map_map. apply map_ext. intros a. lia.
Qed.
Lemma zrange_length lo n : length (zrange lo n) = n.
Proof. unfold zrange. rewrite map_length, seq_length. reflexivity. Qed.
Lemma zrange_app lo n m : zrange lo (n + m) = zrange lo n ++ zrange (lo + Z.of_nat n) m.
Proof.
  revert lo; induction n as [|n IH]; intros lo.
  - cbn [Nat.add]. unfold zrange at 2. cbn [seq map app]. f_equal. lia.
  - cbn [Nat.add]. rewrite !zrange_S, IH. cbn [app]. do 3 f_equal. lia.
Qed.
Lemma zrange_In lo n x : In x (zrange lo n) <-> lo <= x < lo + Z.of_nat n.
Proof.
  unfold zrange. rewrite in_map_iff. split.
  - intros (i & <- & Hi). apply in_seq in Hi. lia.
  - intros H. exists (Z.to_nat (x - lo)). split; [lia|]. apply in_seq. lia.
Qed.

(* consecutive blocks are one contiguous byte range *)
Lemma blocks_of_zrange f n : forall lo, 0 <= lo ->
  blocks_of f (zrange lo n) = sub f (BLCKSZ * lo) (BLCKSZ * (lo + Z.of_nat n)).
Proof.
  unfold BLCKSZ. induction n as [|n IH]; intros lo Hlo.
  - cbn [zrange seq map]. unfold blocks_of. cbn [map concat]. rewrite sub_nil; [reflexivity|lia].
  - rewrite zrange_S. unfold blocks_of in *. cbn [map concat]. rewrite IH by lia.
    unfold block, BLCKSZ. rewrite <- sub_split by lia. f_equal. lia.
Qed.
Lemma blocks_of_between f lo hi : 0 <= lo -> lo <= hi + 1 ->
  blocks_of f (between lo hi) = sub f (BLCKSZ * lo) (BLCKSZ * (hi + 1)).
Proof. intros. unfold between. rewrite blocks_of_zrange by lia. unfold BLCKSZ. f_equal. lia. Qed.

Lemma spec_lo_eq br : (match br with Some (s, _) => if 0 <=? s then s else 0 | None => 0 end) = br_start br 0.
Proof. unfold br_start. destruct br as [[s e]|]; [|reflexivity]. destruct (0 <=? s) eqn:A, (s >=? 0) eqn:B; lia. Qed.
Lemma spec_hi_eq nb br :
  (match br with Some (_, e) => if 0 <=? e then Z.min e (nb - 1) else nb - 1 | None => nb - 1 end) =
  (let e := br_end br (nb - 1) in if e >=? nb then nb - 1 else e).
Proof.
  unfold br_end. destruct br as [[s e]|]; cbv zeta.
  - destruct (0 <=? e) eqn:A, (e >=? 0) eqn:B; try lia.
    + destruct (e >=? nb) eqn:C; lia.
    + destruct (nb - 1 >=? nb) eqn:C; lia.
  - destruct (nb - 1 >=? nb) eqn:C; lia.
Qed.

Lemma requested_bounds nb br lo hi : requested nb br = Some (lo, hi) -> 0 <= lo <= hi /\ hi < nb.
Proof.
  unfold requested. rewrite spec_lo_eq, spec_hi_eq. cbv zeta.
  destruct (_ && _) eqn:E; [|discriminate]. intros [= <- <-].
  assert (0 <= br_start br 0).
  { unfold br_start. destruct br as [[s e]|]; [|lia]. destruct (s >=? 0) eqn:B; lia. }
  destruct (br_end br (nb - 1) >=? nb) eqn:C; lia.
Qed.

Lemma zeros_0 : zeros 0 = []. Proof. reflexivity. Qed.

Theorem read_block_range_ok d br lo hi :
  requested (nblocks d) br = Some (lo, hi) ->
  ReadBlockRange (Some d) br = Ok (inr (exact (blocks_of d (between lo hi)))).
Proof.
  intros Hr. pose proof (requested_bounds _ _ _ _ Hr) as Hb.
  rewrite blocks_of_between by lia.
  unfold requested in Hr. rewrite spec_lo_eq, spec_hi_eq in Hr. cbv zeta in Hr.
  unfold ReadBlockRange, nblocks, BLCKSZ, PageSize in *.
  set (tb := blen d / 8192) in *. set (st := br_start br 0) in *. set (en0 := br_end br (tb - 1)) in *.
  destruct ((st <? tb) && (st <=? (if en0 >=? tb then tb - 1 else en0))) eqn:E; [|discriminate].
  injection Hr as <- <-.
  replace (st >=? tb) with false by lia.
  set (en := if en0 >=? tb then tb - 1 else en0) in *.
  replace (st >? en) with false by lia.
  replace ((en - st + 1) * 8192 <? 0) with false by lia.
  assert (Hlen : tb * 8192 <= blen d) by (unfold tb; lia).
  unfold file_read.
  replace (st * 8192 <? 0) with false by lia.
  replace ((en - st + 1) * 8192 <=? 0) with false by lia.
  replace (blen d <=? st * 8192) with false by lia.
  rewrite Z.min_l by lia.
  replace (st * 8192 + (en - st + 1) * 8192) with (8192 * (en + 1)) by lia.
  replace (st * 8192) with (8192 * st) by lia.
  rewrite sub_length by lia.
  replace ((en - st + 1) * 8192 - (8192 * (en + 1) - 8192 * st)) with 0 by lia.
  rewrite zeros_0. reflexivity.
Qed.

(* rejected requests: start beyond the last block (every request on a file without a complete
   block), or start after end *)
Theorem read_block_range_rejected d br :
  requested (nblocks d) br = None ->
  ReadBlockRange (Some d) br = Ok (inl (if br_start br 0 >=? nblocks d then EBeyond else EInvalid)).
Proof.
  intros Hr. unfold requested in Hr. rewrite spec_lo_eq, spec_hi_eq in Hr. cbv zeta in Hr.
  unfold ReadBlockRange, nblocks, BLCKSZ, PageSize in *.
  set (tb := blen d / 8192) in *. set (st := br_start br 0) in *. set (en0 := br_end br (tb - 1)) in *.
  destruct ((st <? tb) && (st <=? (if en0 >=? tb then tb - 1 else en0))) eqn:E; [discriminate|].
  destruct (st >=? tb) eqn:E1; [reflexivity|].
  replace (st >? (if en0 >=? tb then tb - 1 else en0)) with true by lia. reflexivity.
Qed.

Theorem read_block_range_spec d br :
  ReadBlockRange (Some d) br =
  Ok (match expected_read d br with
      | Some b => inr (exact b)
      | None => inl (if br_start br 0 >=? nblocks d then EBeyond else EInvalid)
      end).
Proof.
  unfold expected_read. destruct (requested (nblocks d) br) as [[lo hi]|] eqn:E.
  - apply read_block_range_ok, E.
  - apply read_block_range_rejected, E.
Qed.

Lemma read_missing br : ReadBlockRange None br = Ok (inl EOpen).
Proof. reflexivity. Qed.

Lemma read_no_panic f br : ReadBlockRange f br <> Panic.
Proof.
  destruct f as [d|]; [|discriminate]. rewrite read_block_range_spec. discriminate.
Qed.

(* the returned bytes are whole blocks: len = 8192 * count, and nothing of a partial tail *)
Lemma read_len d br lo hi : requested (nblocks d) br = Some (lo, hi) ->
  blen (blocks_of d (between lo hi)) = BLCKSZ * (hi - lo + 1).
Proof.
  intros Hr. pose proof (requested_bounds _ _ _ _ Hr) as Hb.
  rewrite blocks_of_between by lia. unfold nblocks, BLCKSZ in *.
  rewrite sub_length; lia.
Qed.
