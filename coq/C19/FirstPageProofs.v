(* C19/C10: VerifyPageChecksum reports on ONE page: its result depends on the first 8192 bytes of the buffer only
   (after the repair: the empty-page test used to scan the whole buffer). *)
Require Import PG.Base.Bytes PG.Base.GoSlice PG.C19.BlockrangeModel PG.C19.ChecksumModel PG.C19.LabelsProofs PG.C19.ChecksumProofs.

Lemma sub_first_len (b : bytes) : 8192 <= blen b -> blen (sub b 0 8192) = 8192.
Proof. intros H. rewrite sub_length; lia. Qed.

Lemma fld_first b off n : 8192 <= blen b -> 0 <= off -> 0 <= n -> off + n <= 8192 ->
  fld (sub b 0 8192) off n = fld b off n.
Proof.
  intros H Ho Hn Hl. unfold fld. rewrite sub_sub by lia. rewrite !Z.add_0_l. reflexivity.
Qed.

Lemma page_copy_first b : 8192 <= blen b -> page_copy (sub b 0 8192) = page_copy b.
Proof.
  intros H. unfold page_copy, PageSize. rewrite sub_first_len by exact H.
  replace (Z.min 8192 8192) with 8192 by lia. replace (Z.min 8192 (blen b)) with 8192 by lia.
  rewrite sub_sub by lia. rewrite !Z.add_0_l. reflexivity.
Qed.

Lemma page_result_first b num : 8192 <= blen b -> page_result (sub b 0 8192) num = page_result b num.
Proof.
  intros H. unfold page_result.
  rewrite sub_sub by lia. rewrite !Z.add_0_l.
  rewrite !fld_first by lia.
  unfold cpc, computePageChecksum. cbn [vis exact]. rewrite page_copy_first by exact H. reflexivity.
Qed.

Theorem verify_page_first_only s s' num :
  PageSize <= len s -> PageSize <= len s' -> sub (vis s) 0 8192 = sub (vis s') 0 8192 ->
  VerifyPageChecksum s num = VerifyPageChecksum s' num.
Proof.
  unfold PageSize. intros H H' E.
  rewrite !verify_page_any by (unfold PageSize; assumption).
  unfold len in H, H'.
  rewrite <- (page_result_first (vis s)) by exact H. rewrite <- (page_result_first (vis s')) by exact H'.
  rewrite E. reflexivity.
Qed.
