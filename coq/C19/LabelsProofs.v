(* C19/LabelsProofs.v — ParseBlockInfo reports the stored header fields; DumpBlockRange,
   DumpBinaryRange, DumpBinaryBlock and GetBlockRangeStats address and label exactly the
   requested blocks. *)
Require Import PG.Base.Bytes PG.Base.GoSlice PG.C19.StrModel PG.C19.BlockrangeModel PG.C19.Spec PG.C19.ReadProofs.

(* what ParseBlockInfo reports for ANY byte string of at least one page: the little-endian values
   stored at the header offsets (block = its first 8192 bytes) *)
Definition fld (b : bytes) (off n : Z) : Z := le_dec (sub b off (off + n)).
Definition block_summary (b : bytes) (n : Z) : BlockInfo :=
  if all_zero (sub b 0 8192) then empty_info n else
  {| bi_num := n; bi_lsn_hi := fld b 0 4; bi_lsn_lo := fld b 4 4;
     bi_checksum := fld b 8 2; bi_flags := fld b 10 2; bi_lower := fld b 12 2; bi_upper := fld b 14 2;
     bi_special := fld b 16 2;
     bi_pagesize := fld b 18 2 / 256 * 256; bi_version := fld b 18 2 mod 256;
     bi_items := if 24 <=? fld b 12 2 then (fld b 12 2 - 24) / 4 else 0;
     bi_free := if fld b 12 2 <? fld b 14 2 then fld b 14 2 - fld b 12 2 else 0;
     bi_empty := false |}.

Lemma psv_land_table :
  forallb (fun n => let x := Z.of_nat n in (Z.land x 65280 =? x / 256 * 256) && (Z.land x 255 =? x mod 256)) (seq 0 (Z.to_nat 65536)) = true.
Proof. vm_compute. reflexivity. Qed.
Lemma psv_land x : 0 <= x < 65536 -> Z.land x 65280 = x / 256 * 256 /\ Z.land x 255 = x mod 256.
Proof.
  intros H. pose proof psv_land_table as T. rewrite forallb_forall in T.
  specialize (T (Z.to_nat x)). rewrite Z2Nat.id in T by lia. cbv zeta in T.
  assert (In (Z.to_nat x) (seq 0 (Z.to_nat 65536))) as I by (apply in_seq; lia).
  specialize (T I). lia.
Qed.

Lemma fld_range b off n : 0 <= off -> off + Z.of_nat n <= blen b -> 0 <= fld b off (Z.of_nat n) < 2 ^ (8 * Z.of_nat n).
Proof.
  intros H0 H1. unfold fld.
  pose proof (le_dec_range (sub b off (off + Z.of_nat n))) as R.
  assert (L : blen (sub b off (off + Z.of_nat n)) = Z.of_nat n) by (rewrite sub_length; lia).
  unfold blen in L. apply Nat2Z.inj in L. rewrite L in R. exact R.
Qed.

Lemma uN_fld n s off : 0 <= off -> off + Z.of_nat n <= len s -> uN n s off = Ok (fld (vis s) off (Z.of_nat n)).
Proof. intros. unfold fld. apply uN_val; assumption. Qed.

Theorem parse_block_info_short s n : len s < PageSize -> ParseBlockInfo s n = Ok None.
Proof. intros H. unfold ParseBlockInfo. replace (len s <? PageSize) with true by lia. reflexivity. Qed.

Theorem parse_block_info_any s n : PageSize <= len s -> ParseBlockInfo s n = Ok (Some (block_summary (vis s) n)).
Proof.
  unfold PageSize. intros H. unfold ParseBlockInfo, PageSize.
  replace (len s <? 8192) with false by lia.
  destruct (slice_ok s 0 8192) as [pg Hpg]; [lia|lia|pose proof (len_le_cap s); lia|].
  rewrite Hpg. cbn [bind].
  rewrite (slice_vis_within _ _ _ _ Hpg) by lia.
  unfold block_summary. destruct (all_zero (sub (vis s) 0 8192)) eqn:Z0; [reflexivity|].
  unfold u32, u16.
  rewrite (uN_fld 4 s 0), (uN_fld 4 s 4), (uN_fld 2 s 8), (uN_fld 2 s 10), (uN_fld 2 s 12), (uN_fld 2 s 14),
          (uN_fld 2 s 16), (uN_fld 2 s 18) by lia.
  cbn [bind]. change (Z.of_nat 4) with 4. change (Z.of_nat 2) with 2.
  unfold len in H.
  pose proof (fld_range (vis s) 0 4 ltac:(lia) ltac:(lia)) as R0.
  pose proof (fld_range (vis s) 4 4 ltac:(lia) ltac:(lia)) as R4.
  pose proof (fld_range (vis s) 18 2 ltac:(lia) ltac:(lia)) as R18.
  change (Z.of_nat 4) with 4 in *. change (Z.of_nat 2) with 2 in *.
  change (2 ^ (8 * 4)) with 4294967296 in *. change (2 ^ (8 * 2)) with 65536 in *. change (2 ^ 32) with 4294967296.
  destruct (psv_land (fld (vis s) 18 2) R18) as [-> ->].
  unfold headerSize, itemIDSize.
  do 2 f_equal. f_equal; try lia.
  - destruct (fld (vis s) 12 2 >=? 24) eqn:A, (24 <=? fld (vis s) 12 2) eqn:B; lia.
  - destruct (fld (vis s) 14 2 >? fld (vis s) 12 2) eqn:A, (fld (vis s) 12 2 <? fld (vis s) 14 2) eqn:B; lia.
Qed.

Lemma parse_block_info_no_panic s n : ParseBlockInfo s n <> Panic.
Proof.
  destruct (Z_lt_ge_dec (len s) PageSize).
  - rewrite parse_block_info_short by assumption. discriminate.
  - rewrite parse_block_info_any by lia. discriminate.
Qed.

(* ---------- the summary of an encoded abstract block is the expected one ---------- *)
Lemma enc_hdr_len h : blen (enc_hdr h) = 20.
Proof. unfold enc_hdr. bl. reflexivity. Qed.
#[export] Hint Rewrite enc_hdr_len : blen.
Lemma enc_block_len b : wf_block b -> blen (enc_block b) = BLCKSZ.
Proof.
  destruct b as [|h rest]; cbn [enc_block wf_block].
  - intros _. rewrite zeros_len; unfold BLCKSZ; lia.
  - intros (_ & L & _). bl. unfold BLCKSZ in *. lia.
Qed.

Lemma all_zero_zeros n : all_zero (zeros n) = true.
Proof.
  unfold all_zero, zeros. apply forallb_forall. intros x Hx. apply repeat_spec in Hx. subst. reflexivity.
Qed.
Lemma all_zero_nonzero b : nonzero b -> all_zero b = false.
Proof.
  intros (x & Hin & Hx). destruct (all_zero b) eqn:E; [|reflexivity].
  unfold all_zero in E. rewrite forallb_forall in E. specialize (E x Hin). lia.
Qed.

Lemma fld_enc pre v post (n : nat) off : off = blen pre -> 0 <= v < 2 ^ (8 * Z.of_nat n) ->
  fld (pre ++ le_enc n v ++ post) off (Z.of_nat n) = v.
Proof.
  intros -> Hv. unfold fld. rewrite sub_mid by (bl; lia). apply le_dec_enc, Hv.
Qed.

Lemma hdr_fields A B C D E F G H R :
  let w := le_enc 4 A ++ le_enc 4 B ++ le_enc 2 C ++ le_enc 2 D ++ le_enc 2 E ++ le_enc 2 F ++ le_enc 2 G ++ le_enc 2 H ++ R in
  fld w 0 4 = le_dec (le_enc 4 A) /\ fld w 4 4 = le_dec (le_enc 4 B) /\ fld w 8 2 = le_dec (le_enc 2 C) /\
  fld w 10 2 = le_dec (le_enc 2 D) /\ fld w 12 2 = le_dec (le_enc 2 E) /\ fld w 14 2 = le_dec (le_enc 2 F) /\
  fld w 16 2 = le_dec (le_enc 2 G) /\ fld w 18 2 = le_dec (le_enc 2 H).
Proof. cbv zeta. repeat split; unfold fld; f_equal; ssub. Qed.

Theorem block_summary_enc b extra n : wf_block b -> block_summary (enc_block b ++ extra) n = expected_info b n.
Proof.
  intros W. pose proof (enc_block_len b W) as L. unfold BLCKSZ in L.
  unfold block_summary. rewrite sub_app_l by lia. rewrite sub_exact by lia.
  destruct b as [|h rest]; cbn [enc_block expected_info] in *.
  - rewrite all_zero_zeros. reflexivity.
  - destruct W as (Wh & Lr & NZ). rewrite (all_zero_nonzero _ NZ).
    destruct Wh as (W0 & W1 & W2 & W3 & W4 & W5 & W6 & W7). unfold u32_ok, u16_ok in *.
    unfold enc_hdr. rewrite <- !app_assoc.
    destruct (hdr_fields (pd_xlogid h) (pd_xrecoff h) (pd_checksum h) (pd_flags h) (pd_lower h) (pd_upper h)
                         (pd_special h) (pd_psv h) (rest ++ extra)) as (F0 & F4 & F8 & F10 & F12 & F14 & F16 & F18).
    cbv zeta in *. rewrite F0, F4, F8, F10, F12, F14, F16, F18.
    rewrite !le_dec_enc by assumption. reflexivity.
Qed.

(* ---------- addressing and labels of the block loops ---------- *)
Lemma zrange_shift {A} (g : Z -> A) lo n : map (fun j => g (lo + j)) (zrange 0 n) = map g (zrange lo n).
Proof. unfold zrange. rewrite !map_map. apply map_ext. intros a. f_equal; lia. Qed.

Lemma dump_loop_spec data startBlock : forall cnt i, 0 <= i -> (i + Z.of_nat cnt) * 8192 <= len data ->
  dump_loop cnt data startBlock i =
  Ok (map (fun j => block_summary (sub (vis data) (8192 * j) (8192 * (j + 1))) ((startBlock + j) mod 2 ^ 32)) (zrange i cnt)).
Proof.
  induction cnt as [|cnt IH]; intros i Hi Hl; [reflexivity|].
  cbn [dump_loop]. unfold PageSize.
  destruct (slice_ok data (i * 8192) (i * 8192 + 8192)) as [blk Hb]; [lia|lia|pose proof (len_le_cap data); lia|].
  rewrite Hb. cbn [bind].
  rewrite parse_block_info_any by (rewrite (slice_len _ _ _ _ Hb); unfold PageSize; lia). cbn [bind].
  rewrite IH by lia. cbn [bind]. rewrite zrange_S. cbn [map].
  rewrite (slice_vis_within _ _ _ _ Hb) by lia.
  do 3 f_equal. f_equal; lia.
Qed.

Lemma requested_lo nb br lo hi : requested nb br = Some (lo, hi) -> lo = br_start br 0.
Proof.
  unfold requested. rewrite spec_lo_eq. cbv zeta. destruct (_ && _); [|discriminate]. intros [= <- _]. reflexivity.
Qed.

Lemma exact_len b : len (exact b) = blen b. Proof. reflexivity. Qed.

Lemma sub_block_of_read d lo hi j : 0 <= lo -> 0 <= j -> lo + j <= hi ->
  sub (sub d (BLCKSZ * lo) (BLCKSZ * (hi + 1))) (8192 * j) (8192 * (j + 1)) = block (lo + j) d.
Proof.
  intros. unfold block, BLCKSZ. rewrite sub_sub by lia. f_equal; lia.
Qed.

Theorem dump_block_range_ok d br lo hi :
  requested (nblocks d) br = Some (lo, hi) -> hi < 2 ^ 32 ->
  DumpBlockRange (Some d) br = Ok (inr (map (fun n => block_summary (block n d) n) (between lo hi))).
Proof.
  intros Hr Hhi. pose proof (requested_bounds _ _ _ _ Hr) as Hb. pose proof (read_len _ _ _ _ Hr) as Hl.
  unfold DumpBlockRange. rewrite (read_block_range_ok _ _ _ _ Hr). cbn [bind].
  rewrite exact_len, Hl. unfold start_block. rewrite <- (requested_lo _ _ _ _ Hr).
  unfold BLCKSZ, PageSize. replace (8192 * (hi - lo + 1) / 8192) with (hi - lo + 1) by lia.
  rewrite dump_loop_spec by (rewrite ?exact_len, ?Hl; unfold BLCKSZ; lia). cbn [bind].
  do 2 f_equal. unfold between. rewrite <- (zrange_shift (fun n => block_summary (block n d) n) lo).
  apply map_ext_in. intros j Hj. apply zrange_In in Hj.
  cbn [exact vis]. fold (between lo hi). rewrite blocks_of_between by lia.
  rewrite sub_block_of_read by lia. rewrite Z.mod_small by lia. reflexivity.
Qed.

Theorem dump_block_range_rejected d br :
  requested (nblocks d) br = None ->
  DumpBlockRange (Some d) br = Ok (inl (if br_start br 0 >=? nblocks d then EBeyond else EInvalid)).
Proof. intros Hr. unfold DumpBlockRange. rewrite (read_block_range_rejected _ _ Hr). reflexivity. Qed.

Lemma dump_block_range_no_panic f br : DumpBlockRange f br <> Panic.
Proof.
  destruct f as [d|]; [|discriminate].
  destruct (requested (nblocks d) br) as [[lo hi]|] eqn:Hr.
  - pose proof (requested_bounds _ _ _ _ Hr) as Hb. pose proof (read_len _ _ _ _ Hr) as Hl.
    unfold DumpBlockRange. rewrite (read_block_range_ok _ _ _ _ Hr). cbn [bind].
    rewrite exact_len, Hl. unfold BLCKSZ, PageSize. replace (8192 * (hi - lo + 1) / 8192) with (hi - lo + 1) by lia.
    rewrite dump_loop_spec by (rewrite ?exact_len, ?Hl; unfold BLCKSZ; lia). discriminate.
  - rewrite dump_block_range_rejected by assumption. discriminate.
Qed.

(* ---------- files written block by block ---------- *)
Lemma enc_file_cons b bs p : enc_file (b :: bs) p = enc_block b ++ enc_file bs p.
Proof. unfold enc_file. cbn [map concat]. rewrite app_assoc. reflexivity. Qed.

Lemma enc_file_len bs p : Forall wf_block bs -> blen (enc_file bs p) = BLCKSZ * Z.of_nat (length bs) + blen p.
Proof.
  induction 1 as [|b bs W _ IH].
  - unfold enc_file. cbn. unfold BLCKSZ. lia.
  - rewrite enc_file_cons. bl. rewrite IH, (enc_block_len b W). cbn [length]. unfold BLCKSZ. lia.
Qed.
Lemma enc_file_nblocks bs p : Forall wf_block bs -> 0 <= blen p < BLCKSZ -> nblocks (enc_file bs p) = Z.of_nat (length bs).
Proof. intros W Hp. unfold nblocks. rewrite enc_file_len by assumption. unfold BLCKSZ in *. lia. Qed.

Lemma block_enc_file bs p : Forall wf_block bs -> forall n, 0 <= n < Z.of_nat (length bs) ->
  block n (enc_file bs p) = enc_block (nth (Z.to_nat n) bs AZero).
Proof.
  induction 1 as [|b bs W Ws IH]; intros n Hn; [cbn [length] in Hn; lia|].
  rewrite enc_file_cons. pose proof (enc_block_len b W) as L. unfold block, BLCKSZ in *.
  destruct (Z.eq_dec n 0) as [->|Hnz].
  - rewrite sub_app_l by lia. cbn [Z.to_nat nth]. apply sub_exact; lia.
  - rewrite sub_app_r by lia. rewrite L.
    replace (Z.to_nat n) with (S (Z.to_nat (n - 1))) by lia. cbn [nth].
    rewrite <- IH by (cbn [length] in Hn; lia). f_equal; lia.
Qed.

Theorem dump_enc_file bs p br lo hi :
  Forall wf_block bs -> 0 <= blen p < BLCKSZ -> Z.of_nat (length bs) <= 2 ^ 32 ->
  requested (Z.of_nat (length bs)) br = Some (lo, hi) ->
  DumpBlockRange (Some (enc_file bs p)) br = Ok (inr (expected_infos bs lo hi)).
Proof.
  intros W Hp Hsz Hr. rewrite <- (enc_file_nblocks bs p W Hp) in Hr.
  pose proof (requested_bounds _ _ _ _ Hr) as Hb. rewrite (enc_file_nblocks bs p W Hp) in Hb.
  rewrite (dump_block_range_ok _ _ _ _ Hr) by lia.
  do 2 f_equal. unfold expected_infos. apply map_ext_in. intros n Hn. apply zrange_In in Hn.
  rewrite block_enc_file by (auto; lia).
  rewrite <- (app_nil_r (enc_block _)). apply block_summary_enc.
  rewrite Forall_forall in W. apply W, nth_In. lia.
Qed.

(* ---------- tallies ---------- *)
Definition tot_used (l : list BlockInfo) : Z :=
  sumZ (map (fun b => bi_pagesize b - bi_free b) (filter (fun b => 0 <? bi_pagesize b) (used_blocks l))).

Lemma sumZ_cons x l : sumZ (x :: l) = x + sumZ l.
Proof. reflexivity. Qed.

Lemma stats_fold l : forall a,
  fold_left stats_step l a =
  {| a_empty := a_empty a + (Z.of_nat (length l) - Z.of_nat (length (used_blocks l)));
     a_used := a_used a + Z.of_nat (length (used_blocks l));
     a_items := a_items a + sumZ (map bi_items (used_blocks l));
     a_free := a_free a + sumZ (map bi_free (used_blocks l));
     a_totused := a_totused a + tot_used l |}.
Proof.
  induction l as [|b l IH]; intros a.
  - cbn. destruct a; cbn. f_equal; lia.
  - cbn [fold_left]. rewrite IH. unfold stats_step, tot_used, used_blocks. cbn [filter length].
    destruct (bi_empty b) eqn:E; cbn [negb a_empty a_used a_items a_free a_totused].
    + f_equal; lia.
    + cbn [map filter length]. rewrite !sumZ_cons.
      destruct (bi_pagesize b >? 0) eqn:P, (0 <? bi_pagesize b) eqn:Q; try lia;
        cbn [map]; rewrite ?sumZ_cons; f_equal; lia.
Qed.

Lemma last_cons_indep {A} (l : list A) : forall x d d', last (x :: l) d = last (x :: l) d'.
Proof.
  induction l as [|y l IH]; intros x d d'; [reflexivity|].
  change (last (x :: y :: l) d) with (last (y :: l) d). change (last (x :: y :: l) d') with (last (y :: l) d'). apply IH.
Qed.

Lemma stats_of_expected l lo hi b0 :
  l <> [] -> bi_num (hd b0 l) = lo -> bi_num (last l b0) = hi -> stats_of l = expected_stats l lo hi.
Proof.
  intros Hne Hlo Hhi. destruct l as [|b l']; [congruence|].
  unfold stats_of. rewrite stats_fold. cbn [a_empty a_used a_items a_free a_totused].
  unfold expected_stats. cbn [hd] in Hlo.
  rewrite (last_cons_indep l' b b b0).
  rewrite Hlo, Hhi. unfold PageSize, BLCKSZ, tot_used.
  set (nu := Z.of_nat (length (used_blocks (b :: l')))).
  f_equal; try lia.
  destruct (0 + nu >? 0) eqn:A, (0 <? nu) eqn:B; try lia; [|reflexivity].
  destruct ((0 + nu) * 8192 >? 0) eqn:C; [|lia]. do 2 f_equal; lia.
Qed.

Lemma block_summary_num b n : bi_num (block_summary b n) = n.
Proof. unfold block_summary. destruct (all_zero _); reflexivity. Qed.

Lemma between_nonempty lo hi : lo <= hi -> exists n, between lo hi = zrange lo (S n) /\ lo + Z.of_nat n = hi.
Proof. intros H. exists (Z.to_nat (hi - lo)). unfold between. split; [f_equal; lia|lia]. Qed.

Lemma last_zrange_map {A} (g : Z -> A) lo n d : last (map g (zrange lo (S n))) d = g (lo + Z.of_nat n).
Proof.
  replace (S n) with (n + 1)%nat by lia. rewrite zrange_app, map_app.
  unfold zrange at 2. cbn [seq map]. rewrite last_last. f_equal. lia.
Qed.

Theorem stats_ok d br lo hi :
  requested (nblocks d) br = Some (lo, hi) -> hi < 2 ^ 32 ->
  GetBlockRangeStats (Some d) br =
  Ok (inr (expected_stats (map (fun n => block_summary (block n d) n) (between lo hi)) lo hi)).
Proof.
  intros Hr Hhi. pose proof (requested_bounds _ _ _ _ Hr) as Hb.
  unfold GetBlockRangeStats. rewrite (dump_block_range_ok _ _ _ _ Hr Hhi). cbn [bind]. do 2 f_equal.
  destruct (between_nonempty lo hi) as (n & -> & Hn); [lia|].
  apply (stats_of_expected _ _ _ (empty_info 0)).
  - rewrite zrange_S. discriminate.
  - rewrite zrange_S. cbn [map hd]. apply block_summary_num.
  - rewrite last_zrange_map. rewrite block_summary_num. exact Hn.
Qed.

Theorem stats_rejected d br :
  requested (nblocks d) br = None ->
  GetBlockRangeStats (Some d) br = Ok (inl (if br_start br 0 >=? nblocks d then EBeyond else EInvalid)).
Proof. intros Hr. unfold GetBlockRangeStats. rewrite (dump_block_range_rejected _ _ Hr). reflexivity. Qed.

(* ---------- hex dumps: for every hex.Dump ---------- *)
Section Hex.
Variable hexDump : bytes -> bytes.

Definition expected_bindump (d : bytes) (n : Z) : BinDump :=
  {| bd_num := n; bd_off := BLCKSZ * n; bd_hex := hexDump (block n d); bd_size := BLCKSZ |}.

Lemma bindump_loop_spec data startBlock : forall cnt i, 0 <= i -> (i + Z.of_nat cnt) * 8192 <= len data ->
  bindump_loop hexDump cnt data startBlock i =
  Ok (map (fun j => {| bd_num := (startBlock + j) mod 2 ^ 32; bd_off := (startBlock + j) * 8192;
                       bd_hex := hexDump (sub (vis data) (8192 * j) (8192 * (j + 1))); bd_size := 8192 |}) (zrange i cnt)).
Proof.
  induction cnt as [|cnt IH]; intros i Hi Hl; [reflexivity|].
  cbn [bindump_loop]. unfold PageSize.
  destruct (slice_ok data (i * 8192) (i * 8192 + 8192)) as [blk Hb]; [lia|lia|pose proof (len_le_cap data); lia|].
  rewrite Hb. cbn [bind]. rewrite IH by lia. cbn [bind]. rewrite zrange_S. cbn [map].
  rewrite (slice_vis_within _ _ _ _ Hb) by lia.
  do 3 f_equal. do 2 f_equal; lia.
Qed.

Theorem dump_binary_range_ok d br lo hi :
  requested (nblocks d) br = Some (lo, hi) -> hi < 2 ^ 32 ->
  DumpBinaryRange hexDump (Some d) br = Ok (inr (map (expected_bindump d) (between lo hi))).
Proof.
  intros Hr Hhi. pose proof (requested_bounds _ _ _ _ Hr) as Hb. pose proof (read_len _ _ _ _ Hr) as Hl.
  unfold DumpBinaryRange. rewrite (read_block_range_ok _ _ _ _ Hr). cbn [bind].
  rewrite exact_len, Hl. unfold start_block. rewrite <- (requested_lo _ _ _ _ Hr).
  unfold BLCKSZ, PageSize. replace (8192 * (hi - lo + 1) / 8192) with (hi - lo + 1) by lia.
  rewrite bindump_loop_spec by (rewrite ?exact_len, ?Hl; unfold BLCKSZ; lia). cbn [bind].
  do 2 f_equal. unfold between. rewrite <- (zrange_shift (expected_bindump d) lo).
  apply map_ext_in. intros j Hj. apply zrange_In in Hj.
  cbn [exact vis]. fold (between lo hi). rewrite blocks_of_between by lia.
  rewrite sub_block_of_read by lia. rewrite Z.mod_small by lia.
  unfold expected_bindump, BLCKSZ. f_equal. lia.
Qed.

Theorem dump_binary_range_rejected d br :
  requested (nblocks d) br = None ->
  DumpBinaryRange hexDump (Some d) br = Ok (inl (if br_start br 0 >=? nblocks d then EBeyond else EInvalid)).
Proof. intros Hr. unfold DumpBinaryRange. rewrite (read_block_range_rejected _ _ Hr). reflexivity. Qed.

(* a single block: exactly block n, or rejected when n is negative or beyond the last block *)
Theorem dump_binary_block_spec d n :
  DumpBinaryBlock hexDump (Some d) n =
  Ok (if n <? 0 then inl ENegative
      else if n <? nblocks d then inr {| bd_num := n mod 2 ^ 32; bd_off := BLCKSZ * n; bd_hex := hexDump (block n d); bd_size := BLCKSZ |}
      else inl EBeyond).
Proof.
  unfold DumpBinaryBlock. destruct (n <? 0) eqn:N; [reflexivity|].
  destruct (n <? nblocks d) eqn:B.
  - assert (Hr : requested (nblocks d) (Some (n, n)) = Some (n, n)).
    { unfold requested. replace (0 <=? n) with true by lia. rewrite Z.min_l by lia.
      replace ((n <? nblocks d) && (n <=? n)) with true by lia. reflexivity. }
    rewrite (read_block_range_ok _ _ _ _ Hr). cbn [bind].
    pose proof (read_len _ _ _ _ Hr) as Hl. rewrite exact_len, Hl. cbn [exact vis].
    unfold between. replace (Z.to_nat (n - n + 1)) with 1%nat by lia.
    unfold zrange, blocks_of. cbn [seq map concat]. rewrite app_nil_r.
    unfold BLCKSZ, PageSize. do 3 f_equal; try lia. do 2 f_equal. lia.
  - assert (Hr : requested (nblocks d) (Some (n, n)) = None).
    { unfold requested. replace (0 <=? n) with true by lia.
      replace (n <? nblocks d) with false by lia. reflexivity. }
    rewrite (read_block_range_rejected _ _ Hr). cbn [bind br_start].
    replace (n >=? 0) with true by lia. replace (n >=? nblocks d) with true by lia. reflexivity.
Qed.
End Hex.
