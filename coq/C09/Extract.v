Require Import PG.C02.Model PG.C02.Spec PG.C03.Model PG.C03.Spec PG.C03.Inst PG.C09.Model PG.C09.Spec PG.C09.Inst.
Require Extraction. Require ExtrOcamlBasic.
Extraction "model.ml" ReadTuples ParseFile ParseHeapTuple IsVisible IsDeleted ReadDeletedRows_i ReadRowsWithDeleted_i ReadRows_i ReadTuplesInRange
  live deleted enc_page enc_tuple expected_row_i ph_decode fill bitmap_of.
