Require Import PG.Base.Bytes PG.Base.GoSlice PG.Base.Value.
Require Import PG.C02.Model PG.C02.Spec PG.C02.Pure PG.C02.Refine PG.C02.SpecProofs.
Require Import PG.C03.Model PG.C03.Pure PG.C03.Refine.
Require Import PG.C09.Model PG.C09.Spec.

(* ---- classification depends on the infomask only, and equals the hint-bit predicates ---- *)
Lemma parsed_flags s t :
  ParseHeapTuple s = Ok (Some t) ->
  t_infomask t = le_dec (sub (vis s) 20 22) /\
  t_xminc t = Z.testbit (t_infomask t) 8 /\ t_xmaxc t = Z.testbit (t_infomask t) 10 /\
  t_xmaxinv t = Z.testbit (t_infomask t) 11 /\ t_hasnull t = Z.testbit (t_infomask t) 0.
Proof.
  intros H. destruct (ParseHeapTuple_refines s) as (o & H1 & H2). rewrite H in H1. injection H1 as <-.
  specialize (H2 0). cbn [option_map] in H2. unfold p_tuple in H2.
  destruct (blen (vis s) <? 23); [discriminate|]. destruct (_ >? _); [discriminate|].
  injection H2 as _ _ Hm Hhn Hxc Hxi Hxm _ _.
  unfold pu in *. change (20 + 2) with 22 in *.
  assert (R : 0 <= le_dec (sub (vis s) 20 22)) by apply le_dec_range.
  rewrite Hm. split; [reflexivity|].
  rewrite Hhn, Hxc, Hxi, Hxm.
  pose proof (bit_testbit (le_dec (sub (vis s) 20 22)) 0 R ltac:(lia)) as B0. change (2 ^ 0) with 1 in B0.
  pose proof (bit_testbit (le_dec (sub (vis s) 20 22)) 8 R ltac:(lia)) as B8. change (2 ^ 8) with 256 in B8.
  pose proof (bit_testbit (le_dec (sub (vis s) 20 22)) 10 R ltac:(lia)) as B10. change (2 ^ 10) with 1024 in B10.
  pose proof (bit_testbit (le_dec (sub (vis s) 20 22)) 11 R ltac:(lia)) as B11. change (2 ^ 11) with 2048 in B11.
  rewrite B0, B8, B10, B11. auto.
Qed.

Theorem classify_by_mask s t :
  ParseHeapTuple s = Ok (Some t) ->
  IsVisible t = live (le_dec (sub (vis s) 20 22)) /\ IsDeleted t = deleted (le_dec (sub (vis s) 20 22)).
Proof.
  intros H. destruct (parsed_flags s t H) as (Hm & A & B & C & _).
  unfold IsVisible, IsDeleted, live, deleted. rewrite A, B, C, Hm. split; reflexivity.
Qed.

Lemma live_deleted_disjoint m : live m = true -> deleted m = true -> False.
Proof. unfold live, deleted. destruct (Z.testbit m 8), (Z.testbit m 10), (Z.testbit m 11); cbn; discriminate. Qed.

(* ---- the visible view is the filter of the all-tuples view (exactly, at the model level) ---- *)
Lemma filter_app_map {A B} (f : B -> bool) (g : A -> B) (l : list A) (r : list B) :
  filter f (map g l ++ r) = map g (filter (fun a => f (g a)) l) ++ filter f r.
Proof.
  rewrite filter_app. f_equal. induction l as [|a l IH]; [reflexivity|]. cbn [map filter].
  destruct (f (g a)); cbn [map]; rewrite IH; reflexivity.
Qed.

Lemma ReadTuples_loop_visible : forall fuel s off,
  ReadTuples_loop fuel s true off =
  (l <- ReadTuples_loop fuel s false off ;; Ok (filter (fun e => IsVisible (e_tuple e)) l)).
Proof.
  induction fuel as [|k IH]; intros s off; cbn [ReadTuples_loop]; [reflexivity|].
  destruct (_ <=? _); [|reflexivity].
  destruct (slice s off (off + PageSize)) as [pg|]; [|reflexivity]. cbn [bind].
  destruct (ParsePage pg) as [ts|]; [|reflexivity]. cbn [bind].
  rewrite IH. destruct (ReadTuples_loop k s false (off + PageSize)) as [r|]; [|reflexivity]. cbn [bind].
  f_equal. rewrite filter_app_map. cbn [e_tuple negb orb].
  f_equal. f_equal. clear. induction ts as [|t ts IH]; [reflexivity|]. cbn [filter]. rewrite IH. reflexivity.
Qed.

Theorem visible_is_filter s :
  ReadTuples s true = (l <- ReadTuples s false ;; Ok (filter (fun e => IsVisible (e_tuple e)) l)).
Proof. apply ReadTuples_loop_visible. Qed.

Section Views.
Variable DecodeType : gslice -> Z -> res gval.
Variable decode : bytes -> Z -> gval.
Hypothesis DT_ok : forall s oid, DecodeType s oid = Ok (decode (vis s) oid).

Definition dec (t : HeapTuple) cols : option row := p_decode decode (option_map vis (t_bitmap t)) (vis (t_data t)) cols.
Definition some_rows (l : list (option row)) : list row := flat_map (fun o => match o with Some r => [r] | None => [] end) l.

(* ReadRows = decode every tuple of the selected view, dropping only nil rows *)
Lemma decode_entries_spec cols : forall es,
  decode_entries DecodeType es cols = Ok (some_rows (map (fun e => dec (e_tuple e) cols) es)).
Proof.
  induction es as [|e es IH]; [reflexivity|]. cbn [decode_entries map].
  rewrite (DecodeTuple_refines DecodeType decode DT_ok). cbn [bind]. rewrite IH. cbn [bind].
  unfold some_rows. cbn [flat_map]. fold (dec (e_tuple e) cols). destruct (dec (e_tuple e) cols); reflexivity.
Qed.

(* ReadDeletedRows = exactly the deleted entries of the all-tuples view, in order, each decoded like a live row *)
Lemma deleted_of_spec cols : forall es,
  deleted_of DecodeType es cols =
  Ok (map (fun e => {| dr_pageoff := e_pageoff e; dr_rawsize := len (t_data (e_tuple e));
                       dr_data := if Z.of_nat (length cols) >? 0 then dec (e_tuple e) cols else None |})
          (filter (fun e => IsDeleted (e_tuple e)) es)).
Proof.
  induction es as [|e es IH]; [reflexivity|]. cbn [deleted_of filter].
  destruct (IsDeleted (e_tuple e)); [|exact IH].
  rewrite IH. destruct (Z.of_nat (length cols) >? 0).
  - rewrite (DecodeTuple_refines DecodeType decode DT_ok). reflexivity.
  - reflexivity.
Qed.

(* ReadRowsWithDeleted = (live rows, deleted rows) of the all-tuples view, decoded, nil rows dropped *)
Lemma split_rows_spec cols : forall es,
  split_rows DecodeType es cols =
  Ok (some_rows (map (fun e => dec (e_tuple e) cols) (filter (fun e => IsVisible (e_tuple e)) es)),
      some_rows (map (fun e => dec (e_tuple e) cols) (filter (fun e => negb (IsVisible (e_tuple e)) && IsDeleted (e_tuple e)) es))).
Proof.
  induction es as [|e es IH]; [reflexivity|]. cbn [split_rows filter].
  rewrite (DecodeTuple_refines DecodeType decode DT_ok). cbn [bind]. rewrite IH. cbn [bind].
  fold (dec (e_tuple e) cols). unfold some_rows.
  destruct (IsVisible (e_tuple e)); cbn [negb andb map flat_map].
  - destruct (dec (e_tuple e) cols); reflexivity.
  - destruct (IsDeleted (e_tuple e)); cbn [map flat_map]; destruct (dec (e_tuple e) cols); reflexivity.
Qed.

End Views.

(* ---- a deleted row decodes to the values it had when it was live ---- *)
(* Flipping hint bits in the HIGH byte of t_infomask (bits 8..15, which hold all commit/abort hints) changes
   neither natts, t_hoff, HEAP_HASNULL, the bitmap nor the data of the parsed tuple. *)
Definition same_but_hints (t t' : tup) : Prop :=
  tp_head t = tp_head t' /\ tp_natts t = tp_natts t' /\ tp_flags2 t = tp_flags2 t' /\ tp_hoff t = tp_hoff t' /\
  tp_mid t = tp_mid t' /\ tp_data t = tp_data t' /\ tp_infomask t mod 256 = tp_infomask t' mod 256.

Lemma odd_mod256 a b : a mod 256 = b mod 256 -> Z.odd a = Z.odd b.
Proof.
  intros H. pose proof (Zmod_odd a) as A. pose proof (Zmod_odd b) as B.
  destruct (Z.odd a), (Z.odd b); try reflexivity; exfalso; lia.
Qed.

Theorem same_decode_inputs t t' po :
  wf_tup t -> wf_tup t' -> same_but_hints t t' ->
  o_bitmap (expected_tuple t po) = o_bitmap (expected_tuple t' po) /\
  o_data (expected_tuple t po) = o_data (expected_tuple t' po) /\
  o_natts (expected_tuple t po) = o_natts (expected_tuple t' po).
Proof.
  intros _ _ (H1 & H2 & H3 & H4 & H5 & H6 & H7). unfold expected_tuple, hasnull, bitmap_len. cbn.
  rewrite (odd_mod256 _ _ H7), H2, H5, H6. auto.
Qed.

Section SameDecode.
Variable DecodeType : gslice -> Z -> res gval.
Variable decode : bytes -> Z -> gval.
Hypothesis DT_ok : forall s oid, DecodeType s oid = Ok (decode (vis s) oid).

Lemma parse_enc t tl : wf_tup t ->
  exists ht, ParseHeapTuple {| vis := enc_tuple t; tail := tl |} = Ok (Some ht) /\ obs_tuple ht 0 = expected_tuple t 0.
Proof.
  intros W. destruct (ParseHeapTuple_refines {| vis := enc_tuple t; tail := tl |}) as (o & H1 & H2).
  cbn [vis] in H2. specialize (H2 0). rewrite p_tuple_enc in H2 by exact W.
  destruct o as [ht|]; [|discriminate]. exists ht. split; [exact H1|]. cbn in H2. congruence.
Qed.

Theorem deleted_decodes_same t t' tl tl' cols :
  wf_tup t -> wf_tup t' -> same_but_hints t t' ->
  exists ht ht', ParseHeapTuple {| vis := enc_tuple t; tail := tl |} = Ok (Some ht) /\
                 ParseHeapTuple {| vis := enc_tuple t'; tail := tl' |} = Ok (Some ht') /\
                 DecodeTuple DecodeType (Some ht) cols = DecodeTuple DecodeType (Some ht') cols.
Proof.
  intros W W' S. destruct (parse_enc t tl W) as (ht & P & O). destruct (parse_enc t' tl' W') as (ht' & P' & O').
  exists ht, ht'. split; [exact P|]. split; [exact P'|].
  rewrite !(DecodeTuple_refines DecodeType decode DT_ok).
  destruct (same_decode_inputs t t' 0 W W' S) as (A & B & _).
  pose proof (f_equal o_bitmap O) as Ob. pose proof (f_equal o_data O) as Od.
  pose proof (f_equal o_bitmap O') as Ob'. pose proof (f_equal o_data O') as Od'.
  cbn [obs_tuple o_bitmap o_data] in Ob, Od, Ob', Od'.
  rewrite Ob, Od, Ob', Od', A, B. reflexivity.
Qed.
End SameDecode.
