(* Model of the visibility-switch interfaces: ReadDeletedRows / ReadRowsWithDeleted (pgdump/deleted.go),
   ReadTuplesInRange (pgdump/blockrange.go, as repaired by 3487f38), on top of C02 (ReadTuples, IsVisible)
   and C03 (DecodeTuple, ReadRows). *)
Require Import PG.Base.Bytes PG.Base.GoSlice PG.Base.Value PG.C02.Model PG.C03.Model.

(* deleted.go:24 / :71   tuple.Header.XmaxCommitted && !tuple.Header.XmaxInvalid *)
Definition IsDeleted (t : HeapTuple) : bool := t_xmaxc t && negb (t_xmaxinv t).

Section WithDecodeType.
Variable DecodeType : gslice -> Z -> res gval.

Record DeletedRow := { dr_pageoff : Z; dr_rawsize : Z; dr_data : option row }.

(* deleted.go:13-41 *)
Fixpoint deleted_of (es : list TupleEntry) (cols : list Column) : res (list DeletedRow) :=
  match es with
  | [] => Ok []
  | e :: r =>
    let t := e_tuple e in
    if IsDeleted t then
      d <- (if Z.of_nat (length cols) >? 0 then DecodeTuple DecodeType (Some t) cols else Ok None) ;;
      rs <- deleted_of r cols ;;
      Ok ({| dr_pageoff := e_pageoff e; dr_rawsize := len (t_data t); dr_data := d |} :: rs)
    else deleted_of r cols
  end.
Definition ReadDeletedRows (data : gslice) (cols : list Column) : res (list DeletedRow) :=
  es <- ReadTuples data false ;; deleted_of es cols.

(* deleted.go:57-77 *)
Fixpoint split_rows (es : list TupleEntry) (cols : list Column) : res (list row * list row) :=
  match es with
  | [] => Ok ([], [])
  | e :: r =>
    let t := e_tuple e in
    o <- DecodeTuple DecodeType (Some t) cols ;;
    '(vs, ds) <- split_rows r cols ;;
    match o with
    | None => Ok (vs, ds)
    | Some rw => if IsVisible t then Ok (rw :: vs, ds)
                 else if IsDeleted t then Ok (vs, rw :: ds) else Ok (vs, ds)
    end
  end.
Definition ReadRowsWithDeleted (data : gslice) (cols : list Column) : res (list row * list row) :=
  es <- ReadTuples data false ;; split_rows es cols.

End WithDecodeType.

(* blockrange.go:219-227 (repaired): ReadTuples(data, !includeDeleted) on what ReadBlockRange returned (C19) *)
Definition ReadTuplesInRange (range_data : option gslice) (includeDeleted : bool) : option (res (list TupleEntry)) :=
  match range_data with
  | None => None                                   (* ReadBlockRange error *)
  | Some d => Some (ReadTuples d (negb includeDeleted))
  end.
