(* Spec for C09: hint bits of t_infomask (htup_details.h) *)
Require Import PG.Base.Bytes.
(* HEAP_XMIN_COMMITTED 0x0100 (bit 8), HEAP_XMAX_COMMITTED 0x0400 (bit 10), HEAP_XMAX_INVALID 0x0800 (bit 11) *)
Definition live (m : Z) : bool := Z.testbit m 8 && (Z.testbit m 11 || negb (Z.testbit m 10)).
Definition deleted (m : Z) : bool := Z.testbit m 10 && negb (Z.testbit m 11).
