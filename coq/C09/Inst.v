Require Import PG.Base.Bytes PG.Base.GoSlice PG.Base.Value PG.C02.Model PG.C03.Model PG.C03.Inst PG.C09.Model.
Definition ReadDeletedRows_i := ReadDeletedRows ph_DecodeType.
Definition ReadRowsWithDeleted_i := ReadRowsWithDeleted ph_DecodeType.
Definition ReadRows_i := ReadRows ph_DecodeType.
