(* C05/FloatProofs.v — the floating-point half of C05: computeNumeric returns THE nearest double on the
   exact class, sign symmetry, zeros; meaning of the spec's [nearest]. *)
From Coq Require Import ZArith Reals List Lia Lra Bool.
From Flocq Require Import Core.Zaux Core.Raux Core.Defs Core.Float_prop Core.Generic_fmt Core.FLT
  Core.Round_NE IEEE754.BinarySingleNaN.
Require Import PG.Base.Bytes.
Require Import PG.Base.GoSlice PG.Base.Value.
Require Import PG.C05.Float64 PG.C05.Model PG.C05.Spec PG.C05.LayoutProofs.
Import ListNotations.
Open Scope Z_scope.

Notation fexp64 := (SpecFloat.fexp prec64 emax64).
Notation rnd64 := (round radix2 fexp64 ZnearestE).
Notation B2R64 := (@B2R prec64 emax64).

(* ---------- representable integers ---------- *)
(* z = m * 2^s with |m| < 2^53 : exactly representable (no upper bound on s needed for the format, the
   overflow bound is separate) *)
Definition repr (z : Z) : Prop := exists m s, z = m * 2 ^ s /\ Z.abs m < 2 ^ 53 /\ 0 <= s.

Lemma repr_small z : Z.abs z < 2 ^ 53 -> repr z.
Proof. intros H. exists z, 0. split; [rewrite Z.pow_0_r; lia|]. split; [exact H|lia]. Qed.

Lemma repr_format z : repr z -> generic_format radix2 fexp64 (IZR z).
Proof.
  intros (m & s & -> & Hm & Hs).
  change fexp64 with (FLT_exp (-1074) 53).
  apply generic_format_FLT. apply (FLT_spec radix2 (-1074) 53 _ (Float radix2 m s)).
  - unfold F2R. cbn [Fnum Fexp]. rewrite mult_IZR. f_equal.
    rewrite <- (IZR_Zpower radix2 s Hs). reflexivity.
  - cbn [Fnum]. exact Hm.
  - cbn [Fexp]. lia.
Qed.

Lemma bpow120_format : generic_format radix2 fexp64 (bpow radix2 120).
Proof. change fexp64 with (FLT_exp (-1074) 53). apply generic_format_FLT_bpow; first [exact prec64_gt_0 | lia]. Qed.

(* anything of magnitude <= 2^120 rounds to something below 2^1024 *)
Lemma no_overflow x : (Rabs x <= bpow radix2 120)%R ->
  Rlt_bool (Rabs (rnd64 x)) (bpow radix2 emax64) = true.
Proof.
  intros H. apply Rlt_bool_true.
  eapply Rle_lt_trans.
  - apply abs_round_le_generic; [apply fexp_correct; reflexivity| auto with typeclass_instances | apply bpow120_format | exact H].
  - apply bpow_lt. reflexivity.
Qed.

Lemma abs_IZR_le z b : Z.abs z <= 2 ^ b -> 0 <= b -> (Rabs (IZR z) <= bpow radix2 b)%R.
Proof.
  intros H Hb. rewrite <- abs_IZR. rewrite <- (IZR_Zpower radix2 b Hb). apply IZR_le. exact H.
Qed.

Lemma finite_not_nan (x : f64) : is_finite x = true -> is_nan x = false.
Proof. destruct x; simpl; congruence. Qed.

(* ---------- float64(z) ---------- *)
Lemma f_of_Z_correct z : repr z -> Z.abs z <= 2 ^ 120 ->
  B2R64 (f_of_Z z) = IZR z /\ is_finite (f_of_Z z) = true /\ Bsign (f_of_Z z) = (z <? 0).
Proof.
  intros Hr Hb. unfold f_of_Z.
  pose proof (binary_normalize_correct prec64 emax64 _ _ mode_NE z 0 false) as H.
  cbv zeta in H.
  assert (E : F2R (Float radix2 z 0) = IZR z) by (unfold F2R; cbn [Fnum Fexp bpow]; lra).
  rewrite E in H. cbn [round_mode] in H.
  rewrite round_generic in H; [|auto with typeclass_instances|apply repr_format; exact Hr].
  rewrite Rlt_bool_true in H.
  - destruct H as (H1 & H2 & H3). repeat split; auto.
    rewrite H3. rewrite Rcompare_IZR.
    destruct (Z.compare_spec z 0); destruct (Z.ltb_spec z 0); try reflexivity; lia.
  - eapply Rle_lt_trans; [apply abs_IZR_le with (b := 120); [exact Hb|lia]|]. apply bpow_lt. reflexivity.
Qed.

(* ---------- exact products and sums of integer-valued floats ---------- *)
Lemma fmul_exact (x y : f64) a b :
  is_finite x = true -> is_finite y = true -> B2R64 x = IZR a -> B2R64 y = IZR b ->
  repr (a * b) -> Z.abs (a * b) <= 2 ^ 120 ->
  B2R64 (fmul x y) = IZR (a * b) /\ is_finite (fmul x y) = true /\
  Bsign (fmul x y) = xorb (Bsign x) (Bsign y).
Proof.
  intros Fx Fy Ex Ey Hr Hb. unfold fmul.
  pose proof (Bmult_correct prec64 emax64 _ _ mode_NE x y) as H.
  rewrite Ex, Ey, <- mult_IZR in H. cbn [round_mode] in H.
  rewrite round_generic in H; [|auto with typeclass_instances|apply repr_format; exact Hr].
  rewrite Rlt_bool_true in H.
  - destruct H as (H1 & H2 & H3). rewrite Fx, Fy in H2.
    repeat split; auto. apply H3. apply finite_not_nan. exact H2.
  - eapply Rle_lt_trans; [apply abs_IZR_le with (b := 120); [exact Hb|lia]|]. apply bpow_lt. reflexivity.
Qed.

Lemma fadd_exact (x y : f64) a b :
  is_finite x = true -> is_finite y = true -> B2R64 x = IZR a -> B2R64 y = IZR b ->
  repr (a + b) -> Z.abs (a + b) <= 2 ^ 120 ->
  B2R64 (fadd x y) = IZR (a + b) /\ is_finite (fadd x y) = true /\
  Bsign (fadd x y) = match a + b ?= 0 with Eq => Bsign x && Bsign y | Lt => true | Gt => false end.
Proof.
  intros Fx Fy Ex Ey Hr Hb. unfold fadd.
  pose proof (Bplus_correct prec64 emax64 _ _ mode_NE x y Fx Fy) as H.
  rewrite Ex, Ey, <- plus_IZR in H. cbn [round_mode] in H.
  rewrite round_generic in H; [|auto with typeclass_instances|apply repr_format; exact Hr].
  rewrite Rlt_bool_true in H.
  - destruct H as (H1 & H2 & H3). repeat split; auto.
    rewrite H3. change 0%R with (IZR 0). rewrite Rcompare_IZR. reflexivity.
  - eapply Rle_lt_trans; [apply abs_IZR_le with (b := 120); [exact Hb|lia]|]. apply bpow_lt. reflexivity.
Qed.

(* ---------- Horner on the digits is exact below 2^53 ---------- *)
Definition stepZ (a d : Z) : Z := a * 10000 + d.
Definition stepF (r : f64) (d : Z) : f64 := fadd (fmul r f10000) (f_of_Z d).
(* a non-negative integer held exactly, with a + sign *)
Definition holds (x : f64) (a : Z) : Prop := is_finite x = true /\ B2R64 x = IZR a /\ Bsign x = false.

Lemma pow2_53_120 : 2 ^ 53 <= 2 ^ 120. Proof. apply Z.pow_le_mono_r; lia. Qed.

Lemma holds_f_of_Z d : 0 <= d < 2 ^ 53 -> holds (f_of_Z d) d.
Proof.
  intros Hd. pose proof pow2_53_120.
  destruct (f_of_Z_correct d) as (H1 & H2 & H3); [apply repr_small; lia|lia|].
  repeat split; auto. rewrite H3. lia.
Qed.

Lemma holds_10000 : holds f10000 10000.
Proof. apply holds_f_of_Z. split; [lia|]. apply Z.pow_gt_lin_r || (change (2^53) with 9007199254740992; lia). Qed.

Lemma step_holds x a d : holds x a -> 0 <= a -> 0 <= d -> stepZ a d < 2 ^ 53 ->
  holds (stepF x d) (stepZ a d).
Proof.
  intros (Fx & Ex & Sx) Ha Hd Hlt. unfold stepZ in *. pose proof pow2_53_120.
  destruct holds_10000 as (F1 & E1 & S1).
  destruct (fmul_exact x f10000 a 10000 Fx F1 Ex E1) as (M1 & M2 & M3);
    [apply repr_small; lia|lia|].
  destruct (holds_f_of_Z d) as (D1 & D2 & D3); [lia|].
  unfold stepF.
  destruct (fadd_exact (fmul x f10000) (f_of_Z d) (a * 10000) d M2 D1 M1 D2) as (A1 & A2 & A3);
    [apply repr_small; lia|lia|].
  repeat split; auto. rewrite A3, M3, Sx, S1, D3.
  destruct (Z.compare_spec (a * 10000 + d) 0) as [C|C|C]; try reflexivity. lia.
Qed.

Lemma fold_stepZ_ge digits : Forall (fun d => 0 <= d) digits -> forall a, 0 <= a -> a <= fold_left stepZ digits a.
Proof.
  induction 1 as [|d r Hd _ IH]; intros a Ha; cbn [fold_left]; [lia|].
  specialize (IH (stepZ a d)). unfold stepZ in *. lia.
Qed.

Lemma horner_holds digits : Forall (fun d => 0 <= d) digits ->
  forall x a, holds x a -> 0 <= a -> fold_left stepZ digits a < 2 ^ 53 ->
  holds (fold_left stepF digits x) (fold_left stepZ digits a).
Proof.
  induction 1 as [|d r Hd Hr IH]; intros x a Hx Ha Hlt; cbn [fold_left] in *; [exact Hx|].
  pose proof (fold_stepZ_ge r Hr (stepZ a d)) as G.
  assert (0 <= stepZ a d) by (unfold stepZ; lia).
  apply IH; [|lia|exact Hlt].
  apply step_holds; auto. lia.
Qed.

Lemma holds_zero : holds f_zero 0.
Proof. repeat split. Qed.

Lemma horner_exact digits : Forall (fun d => 0 <= d) digits -> intval digits < 2 ^ 53 ->
  holds (horner digits) (intval digits).
Proof.
  intros Hd Hlt. unfold horner, intval.
  apply (horner_holds digits Hd f_zero 0 holds_zero); [lia|exact Hlt].
Qed.

(* ---------- multiplying by float64(+-1) ---------- *)
Lemma fmul_one (r : f64) : is_finite r = true -> fmul (f_of_Z 1) r = r.
Proof.
  intros Fr. unfold fmul. pose proof pow2_53_120 as P120.
  destruct (f_of_Z_correct 1) as (H1 & H2 & H3); [apply repr_small; reflexivity|lia|].
  pose proof (Bmult_correct prec64 emax64 _ _ mode_NE (f_of_Z 1) r) as H.
  rewrite H1, Rmult_1_l in H. cbn [round_mode] in H.
  rewrite round_generic in H; [|auto with typeclass_instances|apply generic_format_B2R].
  rewrite Rlt_bool_true in H by apply abs_B2R_lt_emax.
  destruct H as (M1 & M2 & M3). rewrite H2, Fr in M2. cbn [andb] in M2.
  apply B2R_Bsign_inj; auto.
  rewrite M3 by (apply finite_not_nan; exact M2). rewrite H3. change (1 <? 0) with false. destruct (Bsign r); reflexivity.
Qed.

Lemma fmul_mone (r : f64) : is_finite r = true -> fmul (f_of_Z (-1)) r = Bopp r.
Proof.
  intros Fr. unfold fmul. pose proof pow2_53_120 as P120.
  destruct (f_of_Z_correct (-1)) as (H1 & H2 & H3); [apply repr_small; reflexivity|lia|].
  pose proof (Bmult_correct prec64 emax64 _ _ mode_NE (f_of_Z (-1)) r) as H.
  rewrite H1 in H. cbn [round_mode] in H.
  replace (IZR (-1) * B2R r)%R with (- B2R r)%R in H by lra.
  rewrite round_generic in H; [|auto with typeclass_instances|apply generic_format_opp; apply generic_format_B2R].
  rewrite Rabs_Ropp in H.
  rewrite Rlt_bool_true in H by apply abs_B2R_lt_emax.
  destruct H as (M1 & M2 & M3). rewrite H2, Fr in M2. cbn [andb] in M2.
  apply B2R_Bsign_inj; auto.
  - rewrite is_finite_Bopp. exact Fr.
  - rewrite B2R_Bopp. exact M1.
  - rewrite M3 by (apply finite_not_nan; exact M2). rewrite H3, Bsign_Bopp by (apply finite_not_nan; exact Fr).
    change (-1 <? 0) with true. destruct (Bsign r); reflexivity.
Qed.

(* ---------- math.Pow(10000, k) is exact for k = 0..5 (10000^5 = 5^20 * 2^20, 5^20 < 2^53) ---------- *)
Lemma pow_table_eq k : 0 <= k <= 5 -> go_pow f10000 k = f_of_Z (10000 ^ k).
Proof.
  intros Hk. assert (C : k = 0 \/ k = 1 \/ k = 2 \/ k = 3 \/ k = 4 \/ k = 5) by lia.
  destruct C as [->|[->|[->|[->|[->| ->]]]]]; apply B2SF_inj; vm_compute; reflexivity.
Qed.

Lemma repr_pow10000 k : 0 <= k <= 5 -> repr (10000 ^ k) /\ 0 < 10000 ^ k <= 2 ^ 67.
Proof.
  intros Hk. assert (C : k = 0 \/ k = 1 \/ k = 2 \/ k = 3 \/ k = 4 \/ k = 5) by lia.
  destruct C as [->|[->|[->|[->|[->| ->]]]]];
    (split; [ first [ exists 1, 0; vm_compute; intuition congruence
                    | exists (5 ^ 4), 4; vm_compute; intuition congruence
                    | exists (5 ^ 8), 8; vm_compute; intuition congruence
                    | exists (5 ^ 12), 12; vm_compute; intuition congruence
                    | exists (5 ^ 16), 16; vm_compute; intuition congruence
                    | exists (5 ^ 20), 20; vm_compute; intuition congruence ]
            | vm_compute; intuition congruence ]).
Qed.

Lemma pow_table k : 0 <= k <= 5 -> holds (go_pow f10000 k) (10000 ^ k).
Proof.
  intros Hk. rewrite pow_table_eq by exact Hk.
  destruct (repr_pow10000 k Hk) as (Hr & Hp & Hb).
  assert (2 ^ 67 <= 2 ^ 120) by (apply Z.pow_le_mono_r; lia).
  destruct (f_of_Z_correct (10000 ^ k) Hr) as (H1 & H2 & H3); [lia|].
  repeat split; auto. rewrite H3. lia.
Qed.

(* ---------- the spec's [nearest] is round-to-nearest-even of the exact quotient ---------- *)
Lemma Rdiv_le_l (a b c : R) : (0 < c)%R -> (a <= b * c)%R -> (a / c <= b)%R.
Proof.
  intros Hc H. apply Rmult_le_reg_r with c; [exact Hc|].
  unfold Rdiv. rewrite Rmult_assoc, Rinv_l by lra. lra.
Qed.

Lemma nearest_correct neg n d : Zpos n <= 2 ^ 120 * Zpos d ->
  B2R64 (nearest neg n d) = rnd64 (IZR (cond_Zopp neg (Zpos n)) / IZR (Zpos d)) /\
  is_finite (nearest neg n d) = true /\ Bsign (nearest neg n d) = neg.
Proof.
  intros Hb. unfold nearest.
  generalize (@Bdiv_correct_aux prec64 emax64 _ _ mode_NE neg n 0 false d 0).
  cbv zeta. intros [V H].
  rewrite B2R_SF2B, is_finite_SF2B, Bsign_SF2B.
  assert (Ex : F2R (Float radix2 (cond_Zopp neg (Zpos n)) 0) = IZR (cond_Zopp neg (Zpos n)))
    by (unfold F2R; cbn [Fnum Fexp bpow]; lra).
  assert (Ey : F2R (Float radix2 (cond_Zopp false (Zpos d)) 0) = IZR (Zpos d))
    by (unfold F2R; cbn [Fnum Fexp bpow cond_Zopp]; lra).
  rewrite Ex, Ey in H. cbn [round_mode] in H.
  rewrite no_overflow in H; [destruct H as (A & B & C); repeat split; auto; rewrite C; apply xorb_false_r|].
  assert (Hd : (0 < IZR (Zpos d))%R) by (apply IZR_lt; lia).
  assert (Hn : (0 < IZR (Zpos n))%R) by (apply IZR_lt; lia).
  assert (Hq : (0 <= IZR (Zpos n) / IZR (Zpos d) <= bpow radix2 120)%R).
  { split.
    - apply Rlt_le. apply Rdiv_lt_0_compat; assumption.
    - apply Rdiv_le_l; [exact Hd|]. rewrite <- (IZR_Zpower radix2 120) by lia. rewrite <- mult_IZR.
      apply IZR_le. exact Hb. }
  destruct neg; cbn [cond_Zopp].
  - replace (IZR (- Zpos n) / IZR (Zpos d))%R with (- (IZR (Zpos n) / IZR (Zpos d)))%R
      by (rewrite opp_IZR; field; lra).
    rewrite Rabs_Ropp, Rabs_pos_eq; lra.
  - rewrite Rabs_pos_eq; lra.
Qed.

(* ---------- computeNumeric on the exact class ---------- *)
Lemma pos_finite_form (p : f64) : is_finite p = true -> B2R64 p <> 0%R -> Bsign p = false ->
  exists m e H, p = B754_finite false m e H.
Proof.
  destruct p as [s|s| |s m e H]; cbn; intros F R S; try congruence.
  subst s. eauto.
Qed.

Lemma fmul_sign (neg : bool) (r : f64) : is_finite r = true ->
  fmul (f_of_Z (if neg then -1 else 1)) r = if neg then Bopp r else r.
Proof. intros F. destruct neg; [apply fmul_mone|apply fmul_one]; exact F. Qed.

Lemma intval_nonneg digits : Forall (fun d => 0 <= d) digits -> 0 <= intval digits.
Proof. intros H. apply (fold_stepZ_ge digits H 0). lia. Qed.

Lemma digit_ok_nonneg digits : Forall digit_ok digits -> Forall (fun d => 0 <= d) digits.
Proof. apply Forall_impl. unfold digit_ok. intros; lia. Qed.

Theorem computeNumeric_exact (neg : bool) w digits :
  digits <> [] -> Forall (fun d => 0 <= d) digits -> exact_class w digits ->
  computeNumeric digits w (if neg then -1 else 1) = nearest_value neg w digits.
Proof.
  intros Hne Hd (Hlt & He).
  pose proof (horner_exact digits Hd Hlt) as (HF & HR & HS).
  pose proof (intval_nonneg digits Hd) as HN.
  unfold computeNumeric. destruct digits as [|d0 r]; [congruence|]. clear Hne.
  set (ds := d0 :: r) in *. fold (exp10k w ds). set (e := exp10k w ds) in *. set (N := intval ds) in *.
  unfold nearest_value, exact_num, exact_den. fold e. fold N. cbv zeta.
  assert (P53 : 2 ^ 53 * 2 ^ 67 = 2 ^ 120) by reflexivity.
  destruct (Z.eq_dec N 0) as [EN|EN].
  - (* all digits zero *)
    assert (Hz : horner ds = f_zero).
    { apply B2R_Bsign_inj; auto. rewrite HR, EN. reflexivity. }
    rewrite Hz, EN.
    destruct (e >=? 0) eqn:Ee.
    + destruct (pow_table e) as (F & R & S); [lia|].
      destruct (repr_pow10000 e) as (_ & Hp & _); [lia|].
      destruct (pos_finite_form (go_pow f10000 e) F) as (m & ee & Hb & ->); auto.
      { rewrite R. apply not_0_IZR. lia. }
      replace (0 * 10000 ^ e <=? 0) with true by lia.
      rewrite (fmul_sign neg) by reflexivity. destruct neg; reflexivity.
    + destruct (pow_table (- e)) as (F & R & S); [lia|].
      destruct (repr_pow10000 (- e)) as (_ & Hp & _); [lia|].
      destruct (pos_finite_form (go_pow f10000 (- e)) F) as (m & ee & Hb & ->); auto.
      { rewrite R. apply not_0_IZR. lia. }
      cbn [Z.leb Z.compare].
      rewrite (fmul_sign neg) by reflexivity. destruct neg; reflexivity.
  - (* a positive digit integer *)
    assert (HNpos : 0 < N) by lia.
    assert (exists r1 num den, 0 < num /\ 0 < den /\ num <= 2 ^ 120 * den /\
              (if e >=? 0 then fmul (horner ds) (go_pow f10000 e) else fdiv (horner ds) (go_pow f10000 (- e))) = r1 /\
              (if e >=? 0 then N * 10000 ^ e else N) = num /\ (if e >=? 0 then 1 else 10000 ^ (- e)) = den /\
              is_finite r1 = true /\ Bsign r1 = false /\ B2R64 r1 = rnd64 (IZR num / IZR den)) as HR1.
    { destruct (e >=? 0) eqn:Ee.
      - destruct (pow_table e) as (F & R & S); [lia|].
        destruct (repr_pow10000 e) as (_ & Hp & Hb); [lia|].
        exists (fmul (horner ds) (go_pow f10000 e)), (N * 10000 ^ e), 1.
        assert (Hbound : N * 10000 ^ e <= 2 ^ 120) by (rewrite <- P53; apply Z.mul_le_mono_nonneg; lia).
        pose proof (Bmult_correct prec64 emax64 _ _ mode_NE (horner ds) (go_pow f10000 e)) as H.
        rewrite HR, R, <- mult_IZR in H. cbn [round_mode] in H.
        rewrite no_overflow in H by (apply abs_IZR_le; lia).
        destruct H as (M1 & M2 & M3). rewrite HF, F in M2.
        unfold fmul. repeat split; try lia; auto.
        + rewrite M3 by (apply finite_not_nan; exact M2). rewrite HS, S. reflexivity.
        + rewrite M1. f_equal. unfold Rdiv. rewrite Rinv_1. lra.
      - destruct (pow_table (- e)) as (F & R & S); [lia|].
        destruct (repr_pow10000 (- e)) as (_ & Hp & Hb); [lia|].
        exists (fdiv (horner ds) (go_pow f10000 (- e))), N, (10000 ^ (- e)).
        assert (Hbound : N <= 2 ^ 120 * 10000 ^ (- e)).
        { assert (2 ^ 53 <= 2 ^ 120) by apply pow2_53_120. nia. }
        assert (Rnz : B2R64 (go_pow f10000 (- e)) <> 0%R) by (rewrite R; apply not_0_IZR; lia).
        pose proof (Bdiv_correct prec64 emax64 _ _ mode_NE (horner ds) (go_pow f10000 (- e)) Rnz) as H.
        rewrite HR, R in H. cbn [round_mode] in H.
        rewrite no_overflow in H.
        + destruct H as (M1 & M2 & M3). rewrite HF in M2.
          unfold fdiv. repeat split; try lia; auto.
          rewrite M3 by (apply finite_not_nan; exact M2). rewrite HS, S. reflexivity.
        + assert (Hd' : (0 < IZR (10000 ^ (- e)))%R) by (apply IZR_lt; lia).
          assert (Hn' : (0 < IZR N)%R) by (apply IZR_lt; lia).
          rewrite Rabs_pos_eq by (apply Rlt_le; apply Rdiv_lt_0_compat; assumption).
          apply Rdiv_le_l; [exact Hd'|]. rewrite <- (IZR_Zpower radix2 120) by lia. rewrite <- mult_IZR.
          apply IZR_le. exact Hbound. }
    destruct HR1 as (r1 & num & den & Hnum & Hden & Hbd & -> & -> & -> & F1 & S1 & R1).
    replace (num <=? 0) with false by lia.
    rewrite (fmul_sign neg r1 F1).
    destruct (nearest_correct neg (Z.to_pos num) (Z.to_pos den)) as (Q1 & Q2 & Q3).
    { rewrite !Z2Pos.id by lia. exact Hbd. }
    rewrite !Z2Pos.id in Q1 by lia.
    apply B2R_Bsign_inj; auto.
    + destruct neg; [rewrite is_finite_Bopp|]; exact F1.
    + rewrite Q1. destruct neg; cbn [cond_Zopp].
      * rewrite B2R_Bopp, R1.
        replace (IZR (- num) / IZR den)%R with (- (IZR num / IZR den))%R.
        -- rewrite round_NE_opp. reflexivity.
        -- rewrite opp_IZR. field. apply not_0_IZR. lia.
      * exact R1.
    + rewrite Q3. destruct neg; [rewrite Bsign_Bopp by (apply finite_not_nan; exact F1); rewrite S1; reflexivity|exact S1].
Qed.

(* ---------- meaning of the expected value ---------- *)
Theorem nearest_value_correct (neg : bool) w digits :
  Forall (fun d => 0 <= d) digits -> 0 < intval digits -> exact_class w digits ->
  B2R64 (nearest_value neg w digits) =
    rnd64 (IZR (cond_Zopp neg (exact_num w digits)) / IZR (exact_den w digits)) /\
  is_finite (nearest_value neg w digits) = true /\ Bsign (nearest_value neg w digits) = neg.
Proof.
  intros Hd HN (Hlt & He). unfold nearest_value, exact_num, exact_den. cbv zeta.
  set (e := exp10k w digits) in *. set (N := intval digits) in *.
  assert (P53 : 2 ^ 53 * 2 ^ 67 = 2 ^ 120) by reflexivity.
  assert (exists num den, 0 < num /\ 0 < den /\ num <= 2 ^ 120 * den /\
            (if e >=? 0 then N * 10000 ^ e else N) = num /\ (if e >=? 0 then 1 else 10000 ^ (- e)) = den) as X.
  { destruct (e >=? 0) eqn:Ee.
    - destruct (repr_pow10000 e) as (_ & Hp & Hb); [lia|].
      assert (Hbound : N * 10000 ^ e <= 2 ^ 120) by (rewrite <- P53; apply Z.mul_le_mono_nonneg; lia).
      exists (N * 10000 ^ e), 1. repeat split; lia.
    - destruct (repr_pow10000 (- e)) as (_ & Hp & Hb); [lia|].
      assert (Hbound : N <= 2 ^ 120 * 10000 ^ (- e)).
      { assert (2 ^ 53 <= 2 ^ 120) by apply pow2_53_120. nia. }
      exists N, (10000 ^ (- e)). repeat split; lia. }
  destruct X as (num & den & Hnum & Hden & Hbd & -> & ->).
  replace (num <=? 0) with false by lia.
  destruct (nearest_correct neg (Z.to_pos num) (Z.to_pos den)) as (Q1 & Q2 & Q3).
  { rewrite !Z2Pos.id by lia. exact Hbd. }
  rewrite !Z2Pos.id in Q1 by lia. auto.
Qed.

(* ---------- sign symmetry (every digit string, every weight; infinities and NaN included) ---------- *)
Lemma neg_finite_form (p : f64) : is_finite p = true -> B2R64 p <> 0%R -> Bsign p = true ->
  exists m e H, p = B754_finite true m e H.
Proof.
  destruct p as [s|s| |s m e H]; cbn; intros F R S; try congruence.
  subst s. eauto.
Qed.

Lemma f_one_form : exists m e H, f_of_Z 1 = B754_finite false m e H.
Proof.
  pose proof pow2_53_120.
  destruct (f_of_Z_correct 1) as (H1 & H2 & H3); [apply repr_small; reflexivity|lia|].
  apply pos_finite_form; auto. rewrite H1. lra.
Qed.
Lemma f_mone_form : exists m e H, f_of_Z (-1) = B754_finite true m e H.
Proof.
  pose proof pow2_53_120.
  destruct (f_of_Z_correct (-1)) as (H1 & H2 & H3); [apply repr_small; reflexivity|lia|].
  apply neg_finite_form; auto. rewrite H1. lra.
Qed.

Lemma fmul_one_all (r : f64) : fmul (f_of_Z 1) r = r.
Proof.
  destruct (is_finite r) eqn:F; [apply fmul_one; exact F|].
  destruct f_one_form as (m & e & H & ->). unfold fmul.
  destruct r as [s|s| |s m' e' H']; try discriminate; try destruct s; reflexivity.
Qed.
Lemma fmul_mone_all (r : f64) : fmul (f_of_Z (-1)) r = Bopp r.
Proof.
  destruct (is_finite r) eqn:F; [apply fmul_mone; exact F|].
  destruct f_mone_form as (m & e & H & ->). unfold fmul.
  destruct r as [s|s| |s m' e' H']; try discriminate; try destruct s; reflexivity.
Qed.

Theorem computeNumeric_sign digits w : digits <> [] ->
  computeNumeric digits w (-1) = Bopp (computeNumeric digits w 1).
Proof.
  intros Hne. unfold computeNumeric. destruct digits as [|d0 r]; [congruence|].
  rewrite fmul_mone_all, fmul_one_all. reflexivity.
Qed.

Lemma b64_bits_Bopp (x : f64) : is_nan x = false ->
  b64_bits (Bopp x) = if Bsign x then b64_bits x - 2 ^ 63 else b64_bits x + 2 ^ 63.
Proof.
  destruct x as [s|s| |s m e H]; cbn [is_nan Bopp Bsign b64_bits]; intros Hn; try discriminate;
    destruct s; cbn [negb]; lia.
Qed.

(* ---------- zeros ---------- *)
Definition is_pos_finite (p : f64) : bool :=
  match p with B754_finite false _ _ _ => true | _ => false end.
Definition is_pos_nonzero (p : f64) : bool :=
  match p with B754_finite false _ _ _ => true | B754_infinity false => true | _ => false end.
(* Pow(10000, k) is finite up to k = 77 (10^308) and +Inf from k = 78 on *)
Lemma pow_pos_table_all : all_below 78 (fun k => is_pos_finite (go_pow f10000 k)) = true.
Proof. vm_compute. reflexivity. Qed.
Lemma pow_pos_table k : 0 <= k <= 77 -> is_pos_finite (go_pow f10000 k) = true.
Proof. intros H. apply (all_below_spec _ _ pow_pos_table_all). lia. Qed.
Lemma pow_nz_table_all : all_below 401 (fun k => is_pos_nonzero (go_pow f10000 k)) = true.
Proof. vm_compute. reflexivity. Qed.
Lemma pow_nz_table k : 0 <= k <= 400 -> is_pos_nonzero (go_pow f10000 k) = true.
Proof. intros H. apply (all_below_spec _ _ pow_nz_table_all). lia. Qed.

Lemma horner_zeros n : horner (repeat 0 n) = f_zero.
Proof.
  unfold horner. induction n as [|n IH]; [reflexivity|].
  cbn [repeat fold_left].
  replace (fadd (fmul f_zero f10000) (f_of_Z 0)) with f_zero by (apply B2SF_inj; vm_compute; reflexivity).
  exact IH.
Qed.

Theorem computeNumeric_zero (neg : bool) n w : (1 <= n)%nat -> -400 <= w - Z.of_nat n + 1 <= 77 ->
  computeNumeric (repeat 0 n) w (if neg then -1 else 1) = B754_zero neg.
Proof.
  intros Hn He. unfold computeNumeric. rewrite horner_zeros, repeat_length.
  destruct n as [|n]; [lia|]. cbn [repeat].
  set (e := w - Z.of_nat (S n) + 1) in *.
  assert (R1 : (if e >=? 0 then fmul f_zero (go_pow f10000 e) else fdiv f_zero (go_pow f10000 (- e))) = f_zero).
  { destruct (e >=? 0) eqn:Ee.
    - pose proof (pow_pos_table e ltac:(lia)) as T.
      destruct (go_pow f10000 e) as [s|s| |[|] m ee H]; try discriminate T. reflexivity.
    - pose proof (pow_nz_table (- e) ltac:(lia)) as T.
      destruct (go_pow f10000 (- e)) as [s|[|]| |[|] m ee H]; try discriminate T; reflexivity. }
  rewrite R1. rewrite (fmul_sign neg) by reflexivity. destruct neg; reflexivity.
Qed.

(* ---------- the combined statement: a well-formed value of the exact class decodes to THE nearest double ---------- *)
Lemma exact_classb_true w digits : exact_classb w digits = true -> exact_class w digits.
Proof. unfold exact_classb, exact_class. lia. Qed.

Lemma result_exact v : (match v with NNum _ _ _ digits => Forall digit_ok digits | _ => True end) ->
  in_exact_class v = true -> result_of v eval_model = expected v.
Proof.
  destruct v as [ | | |neg w ds digits]; try reflexivity.
  intros Hd Hc. unfold expected, result_of. destruct digits as [|d0 r]; [reflexivity|].
  unfold eval_model. rewrite computeNumeric_exact; [reflexivity|discriminate| |].
  - apply digit_ok_nonneg. exact Hd.
  - apply exact_classb_true. exact Hc.
Qed.

Theorem decode_exact_short v t : wf_short v -> in_exact_class v = true ->
  DecodeNumeric {| vis := enc_short v; tail := t |} = Ok (expected v).
Proof.
  intros Hwf Hc. rewrite decode_enc_short by exact Hwf. rewrite result_exact; auto.
  destruct v; auto. destruct Hwf as (_ & _ & H). exact H.
Qed.

Theorem decode_exact_long v t : wf_long v -> in_exact_class v = true ->
  DecodeNumeric {| vis := enc_long v; tail := t |} = Ok (expected v).
Proof.
  intros Hwf Hc. rewrite decode_enc_long by exact Hwf. rewrite result_exact; auto.
  destruct v; auto. destruct Hwf as (_ & _ & H). exact H.
Qed.
