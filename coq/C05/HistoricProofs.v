(* C05/HistoricProofs.v — the three defects repaired by the fix: commits of branch verif-C05, kept as
   refutation theorems on a small model of the code as it was before them (jsonb.go @ d1bcd33). *)
Require Import PG.Base.Bytes PG.Base.GoSlice PG.Base.Value.
From Flocq Require Import IEEE754.BinarySingleNaN.
Require Import PG.C05.Float64 PG.C05.Model PG.C05.Spec.

Module Historic.
(* weight = -weight - 1 instead of sign extension (D17) *)
Definition decodeNumericShort (raw : gslice) (header : Z) : res gval :=
  let sign := if Z.land header 8192 =? 0 then 1 else -1 in
  let weight := Z.land header 63 in
  let weight := if Z.land header 64 =? 0 then weight else - weight - 1 in
  let ndigits := Z.quot (len raw - 2) 2 in
  if ndigits =? 0 then Ok (VInt 0) else
  if ndigits <? 0 then Panic else
  digits <- read_digits (Z.to_nat ndigits) raw 2 ;;
  Ok (VF64 (b64_bits (computeNumeric digits weight sign))).
(* the wire layout ndigits:2 weight:2 sign:2 dscale:2 digits (D19) *)
Definition decodeNumericLong (raw : gslice) : res gval :=
  if len raw <? 8 then Ok VNil else
  ndigits <- u16 raw 0 ;;
  weight <- i16 raw 2 ;;
  sg <- u16 raw 4 ;;
  let sign := if sg =? 16384 then -1 else 1 in
  if ndigits =? 0 then Ok (VInt 0) else
  if len raw <? 8 + ndigits * 2 then Ok VNil else
  digits <- read_digits (Z.to_nat ndigits) raw 8 ;;
  Ok (VF64 (b64_bits (computeNumeric digits weight sign))).
(* no test for NUMERIC_SPECIAL (D18) *)
Definition DecodeNumeric (raw : gslice) : res gval :=
  if len raw <? 2 then Ok VNil else
  header <- u16 raw 0 ;;
  if negb (Z.land header 32768 =? 0) then decodeNumericShort raw header
  else decodeNumericLong raw.
End Historic.

(* D17: 0.5 (short header, weight -1, digit 5000) decoded as 5e-253 *)
Theorem D17_short_weight_refuted : exists v, wf_short v /\ in_exact_class v = true /\
  Historic.DecodeNumeric (exact (enc_short v)) <> Ok (expected v) /\
  Historic.DecodeNumeric (exact (enc_short v)) = Ok (VF64 832413333857795533) (* 0x0B8D53844EE47DCD, about 5e-253 *) /\
  expected v = VF64 4602678819172646912 (* 0x3FE0000000000000 = 0.5 *).
Proof.
  exists (NNum false (-1) 1 [5000]). split; [|split; [|split; [|split]]].
  - unfold wf_short, digit_ok. repeat split; try lia. repeat constructor; lia.
  - reflexivity.
  - vm_compute. discriminate.
  - vm_compute. reflexivity.
  - vm_compute. reflexivity.
Qed.

(* D18: NaN / +-Infinity reported as the number 0 *)
Theorem D18_special_refuted : forall v, is_special v = true ->
  Historic.DecodeNumeric (exact (enc_short v)) = Ok (VInt 0) /\ expected v <> VInt 0.
Proof. intros v H. destruct v; try discriminate; (split; [vm_compute; reflexivity|discriminate]). Qed.

(* D19: the on-disk long form of 1 (sign_dscale 0, weight 0, digit 1) is rejected *)
Theorem D19_long_layout_refuted : exists v, wf_long v /\ in_exact_class v = true /\
  Historic.DecodeNumeric (exact (enc_long v)) = Ok VNil /\
  expected v = VF64 4607182418800017408 (* 0x3FF0000000000000 = 1.0 *).
Proof.
  exists (NNum false 0 0 [1]). split; [|split; [|split]].
  - unfold wf_long, digit_ok. repeat split; try lia. repeat constructor; lia.
  - reflexivity.
  - vm_compute. reflexivity.
  - vm_compute. reflexivity.
Qed.
