(* C05/LayoutProofs.v — the byte-level half of C05: what DecodeNumeric / decodeJNumeric do on EVERY
   byte string, the 65 536-entry header table, the round trips through the reference writer. *)
Require Import PG.Base.Bytes PG.Base.GoSlice PG.Base.Value.
From Flocq Require Import IEEE754.BinarySingleNaN.
Require Import PG.C05.Float64 PG.C05.Model PG.C05.Spec.

(* the float the model computes for a sign / weight / digit list *)
Definition eval_model (neg : bool) (w : Z) (digits : list Z) : f64 :=
  computeNumeric digits w (if neg then -1 else 1).

(* ---------- finite sweeps ---------- *)
Fixpoint all_from (n : nat) (lo : Z) (p : Z -> bool) : bool :=
  match n with O => true | S k => p lo && all_from k (lo + 1) p end.
Lemma all_from_spec n : forall lo p, all_from n lo p = true -> forall h, lo <= h < lo + Z.of_nat n -> p h = true.
Proof.
  induction n as [|n IH]; intros lo p H h Hh; [lia|].
  cbn [all_from] in H. apply andb_prop in H as [H1 H2].
  destruct (Z.eq_dec h lo) as [->|Hne]; [exact H1|]. apply (IH (lo + 1) p H2). lia.
Qed.
Definition all_below (n : Z) (p : Z -> bool) : bool := all_from (Z.to_nat n) 0 p.
Lemma all_below_spec n p : all_below n p = true -> forall h, 0 <= h < n -> p h = true.
Proof. intros H h Hh. apply (all_from_spec _ _ _ H). lia. Qed.

(* ---------- the tests the Go code makes on a header word ---------- *)
Definition m_special (h : Z) : bool := Z.land h 49152 =? 49152.      (* DecodeNumeric: header&0xC000 == 0xC000 *)
Definition m_short (h : Z) : bool := negb (Z.land h 32768 =? 0).     (* header&0x8000 != 0 *)
Definition m_sneg (h : Z) : bool := negb (Z.land h 8192 =? 0).       (* decodeNumericShort: header&0x2000 != 0 *)
Definition m_sweight (h : Z) : Z :=                                   (* header&0x3F, minus 64 if header&0x40 *)
  let w := Z.land h 63 in if Z.land h 64 =? 0 then w else w - 64.
Definition m_lneg (h : Z) : bool := Z.land h 49152 =? 16384.          (* decodeNumericLong: &0xC000 == 0x4000 *)

(* they agree with PostgreSQL's reading of the same word *)
Definition header_agree (h : Z) : bool :=
  match spec_header h with
  | HNaN => m_special h && negb (h =? 53248) && negb (h =? 61440)
  | HPInf => m_special h && (h =? 53248)
  | HNInf => m_special h && negb (h =? 53248) && (h =? 61440)
  | HShort neg w _ => negb (m_special h) && m_short h && Bool.eqb (m_sneg h) neg && (m_sweight h =? w)
  | HLong neg _ => negb (m_special h) && negb (m_short h) && Bool.eqb (m_lneg h) neg
  end.

Lemma header_table_all : all_below 65536 header_agree = true.
Proof. vm_compute. reflexivity. Qed.

Lemma header_table h : 0 <= h < 65536 -> header_agree h = true.
Proof. apply (all_below_spec _ _ header_table_all). Qed.

(* ---------- digits ---------- *)
Lemma digits_of_short b : blen b < 2 -> digits_of b = [].
Proof. destruct b as [|x [|y r]]; intros H; try reflexivity. bl. pose proof (blen_nonneg r). lia. Qed.

Lemma digits_of_cons b : 2 <= blen b -> exists d r, digits_of b = d :: r.
Proof. destruct b as [|x [|y r]]; intros H; bl; try lia. cbn [digits_of]. eauto. Qed.

Lemma two_bytes (b : bytes) : blen b = 2 -> exists x y, b = [x; y].
Proof.
  destruct b as [|x [|y [|z r]]]; intros H; bl; try lia; [eauto|]. pose proof (blen_nonneg r). lia.
Qed.

Lemma read_digits_spec : forall n s off,
  0 <= off <= len s -> Z.of_nat n = (len s - off) / 2 ->
  read_digits n s off = Ok (digits_of (sub (vis s) off (len s))).
Proof.
  induction n as [|n IH]; intros s off Hoff Hn.
  - cbn [read_digits]. rewrite digits_of_short; [reflexivity|].
    rewrite sub_length; unfold len in *; lia.
  - cbn [read_digits]. unfold u16.
    rewrite uN_val by lia. cbn [bind].
    rewrite (IH s (off + 2)) by lia. cbn [bind]. f_equal.
    rewrite (sub_split (vis s) off (off + 2) (len s)) by lia.
    change (Z.of_nat 2) with 2.
    destruct (two_bytes (sub (vis s) off (off + 2))) as (x & y & E).
    { rewrite sub_length; unfold len in *; lia. }
    rewrite E. cbn [app digits_of le_dec]. f_equal. lia.
Qed.

Lemma digits_of_enc digits : Forall (fun d => 0 <= d < 65536) digits -> digits_of (enc_digits digits) = digits.
Proof.
  induction 1 as [|d r Hd _ IH]; [reflexivity|].
  unfold enc_digits in *. cbn [map concat le_enc app digits_of]. f_equal; [|exact IH].
  rewrite !b2z_z2b. lia.
Qed.

(* ---------- decodeNumericShort / decodeNumericLong on every slice ---------- *)
Lemma quot2 z : 0 <= z -> Z.quot z 2 = z / 2.
Proof. intros. apply Z.quot_div_nonneg; lia. Qed.

Lemma decodeNumericShort_spec s h : 2 <= len s ->
  decodeNumericShort s h = Ok (value_of eval_model (m_sneg h) (m_sweight h) (digits_of (skipn 2 (vis s)))).
Proof.
  intros Hlen. unfold decodeNumericShort.
  rewrite quot2 by lia.
  assert (Esub : sub (vis s) 2 (len s) = skipn 2 (vis s)).
  { rewrite sub_to_end; unfold len; try lia. reflexivity. }
  destruct ((len s - 2) / 2 =? 0) eqn:E0.
  - rewrite <- Esub. rewrite digits_of_short; [reflexivity|].
    rewrite sub_length; unfold len in *; lia.
  - destruct ((len s - 2) / 2 <? 0) eqn:E1; [lia|].
    rewrite (read_digits_spec _ s 2) by lia. cbn [bind]. rewrite Esub.
    destruct (digits_of_cons (skipn 2 (vis s))) as (d & r & Ed).
    { rewrite <- Esub. rewrite sub_length; unfold len in *; lia. }
    rewrite Ed. unfold value_of, eval_model, m_sneg, m_sweight.
    destruct (Z.land h 8192 =? 0); reflexivity.
Qed.

Lemma decodeNumericLong_spec s : 2 <= len s ->
  decodeNumericLong s =
  Ok (let body := skipn 2 (vis s) in
      if blen body <? 2 then VNil
      else value_of eval_model (m_lneg (le_dec (firstn 2 (vis s)))) (sint16 (le_dec (firstn 2 body)))
                    (digits_of (skipn 2 body))).
Proof.
  intros Hlen. unfold decodeNumericLong. cbv zeta.
  assert (Eb : blen (skipn 2 (vis s)) = len s - 2).
  { rewrite blen_skipn. unfold len in *. lia. }
  rewrite Eb.
  destruct (len s <? 4) eqn:E4.
  - destruct (len s - 2 <? 2) eqn:E; [reflexivity|lia].
  - destruct (len s - 2 <? 2) eqn:E; [lia|].
    unfold u16, i16, u16. rewrite !uN_val by lia. cbn [bind].
    change (Z.of_nat 2) with 2. change (0 + 2) with 2. change (2 + 2) with 4.
    rewrite quot2 by lia.
    assert (Eh : sub (vis s) 0 2 = firstn 2 (vis s)) by (rewrite sub_firstn_skipn by lia; reflexivity).
    assert (Ew : sub (vis s) 2 4 = firstn 2 (skipn 2 (vis s))) by reflexivity.
    assert (Esub : sub (vis s) 4 (len s) = skipn 2 (skipn 2 (vis s))).
    { rewrite sub_to_end; unfold len; try lia. rewrite skipn_skipn'. reflexivity. }
    rewrite Eh, Ew.
    destruct ((len s - 4) / 2 =? 0) eqn:E0.
    + rewrite <- Esub. rewrite digits_of_short; [reflexivity|].
      rewrite sub_length; unfold len in *; lia.
    + rewrite (read_digits_spec _ s 4) by lia. cbn [bind]. rewrite Esub.
      destruct (digits_of_cons (skipn 2 (skipn 2 (vis s)))) as (d & r & Ed).
      { rewrite <- Esub. rewrite sub_length; unfold len in *; lia. }
      rewrite Ed. unfold value_of, eval_model, m_lneg.
      destruct (Z.land (le_dec (firstn 2 (vis s))) 49152 =? 16384); reflexivity.
Qed.

(* ---------- DecodeNumeric on every slice ---------- *)
Theorem DecodeNumeric_total s : DecodeNumeric s = Ok (spec_decode eval_model (vis s)).
Proof.
  unfold DecodeNumeric, spec_decode. fold (len s).
  destruct (len s <? 2) eqn:E2; [reflexivity|].
  unfold u16. rewrite uN_val by lia. cbn [bind]. change (0 + Z.of_nat 2) with 2.
  assert (Eh : sub (vis s) 0 2 = firstn 2 (vis s)) by (rewrite sub_firstn_skipn by lia; reflexivity).
  rewrite Eh. set (h := le_dec (firstn 2 (vis s))).
  assert (Hh : 0 <= h < 65536).
  { pose proof (le_dec_range (firstn 2 (vis s))) as R. fold h in R.
    assert (L : (length (firstn 2 (vis s)) <= 2)%nat) by (rewrite firstn_length; lia).
    split; [lia|]. eapply Z.lt_le_trans; [apply R|].
    change 65536 with (2 ^ 16). apply Z.pow_le_mono_r; lia. }
  pose proof (header_table h Hh) as T. unfold header_agree in T.
  fold (m_special h). fold (m_short h).
  destruct (spec_header h) as [neg ds|neg w ds| | |] eqn:ES; cbn [decode_as].
  - (* long *)
    apply andb_prop in T as [T Tn]. apply andb_prop in T as [Ts Tsh].
    apply negb_true_iff in Ts, Tsh. rewrite Ts, Tsh. cbn [negb].
    rewrite decodeNumericLong_spec by lia. cbv zeta. fold h.
    apply eqb_prop in Tn. rewrite Tn. reflexivity.
  - (* short *)
    apply andb_prop in T as [T Tw]. apply andb_prop in T as [T Tn]. apply andb_prop in T as [Ts Tsh].
    apply negb_true_iff in Ts. rewrite Ts, Tsh.
    rewrite decodeNumericShort_spec by lia.
    apply eqb_prop in Tn. apply Z.eqb_eq in Tw. rewrite Tn, Tw. reflexivity.
  - apply andb_prop in T as [T T3]. apply andb_prop in T as [Ts T2].
    apply negb_true_iff in T2, T3. rewrite Ts, T2, T3. reflexivity.
  - apply andb_prop in T as [Ts T2]. rewrite Ts, T2. reflexivity.
  - apply andb_prop in T as [T T3]. apply andb_prop in T as [Ts T2].
    apply negb_true_iff in T2. rewrite Ts, T2, T3. reflexivity.
Qed.

Corollary DecodeNumeric_no_panic s : DecodeNumeric s <> Panic.
Proof. rewrite DecodeNumeric_total. discriminate. Qed.

Corollary DecodeNumeric_tail_irrelevant s1 s2 : vis s1 = vis s2 -> DecodeNumeric s1 = DecodeNumeric s2.
Proof. intros E. rewrite !DecodeNumeric_total, E. reflexivity. Qed.

(* ---------- round trips through the reference writer ---------- *)
Lemma digit_ok_u16 digits : Forall digit_ok digits -> Forall (fun d => 0 <= d < 65536) digits.
Proof. apply Forall_impl. unfold digit_ok. intros; lia. Qed.

Lemma spec_header_short neg w ds : -64 <= w <= 63 -> 0 <= ds <= 63 ->
  spec_header (hdr_short neg w ds) = HShort neg w ds.
Proof.
  intros Hw Hds. unfold spec_header, hdr_short. cbv zeta.
  assert (E1 : (32768 + (if neg then 8192 else 0) + ds * 128 + w mod 128) / 16384 = 2) by (destruct neg; lia).
  rewrite E1. cbn [Z.eqb Pos.eqb].
  f_equal.
  - destruct neg; lia.
  - assert (Em : (32768 + (if neg then 8192 else 0) + ds * 128 + w mod 128) mod 128 = w mod 128)
      by (destruct neg; lia).
    rewrite Em. destruct (w mod 128 <? 64) eqn:E; lia.
  - destruct neg; lia.
Qed.

Lemma spec_header_long neg ds : 0 <= ds <= 16383 -> spec_header (hdr_long neg ds) = HLong neg ds.
Proof.
  intros Hds. unfold spec_header, hdr_long. cbv zeta.
  destruct neg.
  - assert (E1 : (16384 + ds) / 16384 = 1) by lia. rewrite E1. cbn [Z.eqb Pos.eqb]. f_equal. lia.
  - assert (E1 : (0 + ds) / 16384 = 0) by lia. rewrite E1. cbn [Z.eqb Pos.eqb]. f_equal. lia.
Qed.

Lemma le_dec_enc2 v : 0 <= v < 65536 -> forall rest, le_dec (firstn 2 (le_enc 2 v ++ rest)) = v.
Proof. intros Hv rest. cbn [le_enc app firstn]. apply (le_dec_enc 2 v). exact Hv. Qed.

Lemma hdr_short_range neg w ds : 0 <= ds <= 63 -> 0 <= hdr_short neg w ds < 65536.
Proof. unfold hdr_short. destruct neg; lia. Qed.
Lemma hdr_long_range neg ds : 0 <= ds <= 16383 -> 0 <= hdr_long neg ds < 65536.
Proof. unfold hdr_long. destruct neg; lia. Qed.

Lemma blen_enc2 v rest : blen (le_enc 2 v ++ rest) = 2 + blen rest.
Proof. bl. reflexivity. Qed.

(* what the reference image of a value decodes to, as a function of the float evaluation *)
Theorem decode_enc_short v t : wf_short v ->
  DecodeNumeric {| vis := enc_short v; tail := t |} = Ok (result_of v eval_model).
Proof.
  intros Hwf. rewrite DecodeNumeric_total. cbn [vis]. f_equal.
  destruct v as [ | | |neg w ds digits]; try reflexivity.
  destruct Hwf as (Hw & Hds & Hd).
  unfold spec_decode, enc_short. rewrite blen_enc2.
  pose proof (blen_nonneg (enc_digits digits)).
  destruct (2 + blen (enc_digits digits) <? 2) eqn:E; [lia|].
  rewrite le_dec_enc2 by (apply hdr_short_range; lia).
  rewrite spec_header_short by lia. cbn [decode_as le_enc app skipn].
  rewrite digits_of_enc by (apply digit_ok_u16; exact Hd).
  unfold value_of, result_of. destruct digits; reflexivity.
Qed.

Theorem decode_enc_long v t : wf_long v ->
  DecodeNumeric {| vis := enc_long v; tail := t |} = Ok (result_of v eval_model).
Proof.
  intros Hwf. rewrite DecodeNumeric_total. cbn [vis]. f_equal.
  destruct v as [ | | |neg w ds digits]; try reflexivity.
  destruct Hwf as (Hw & Hds & Hd).
  unfold spec_decode, enc_long. rewrite blen_enc2.
  pose proof (blen_nonneg (le_enc 2 (w mod 65536) ++ enc_digits digits)).
  destruct (2 + blen (le_enc 2 (w mod 65536) ++ enc_digits digits) <? 2) eqn:E; [lia|].
  rewrite le_dec_enc2 by (apply hdr_long_range; lia).
  rewrite spec_header_long by lia.
  replace (skipn 2 (le_enc 2 (hdr_long neg ds) ++ le_enc 2 (w mod 65536) ++ enc_digits digits))
    with (le_enc 2 (w mod 65536) ++ enc_digits digits) by reflexivity.
  cbn [decode_as]. rewrite blen_enc2.
  pose proof (blen_nonneg (enc_digits digits)).
  destruct (2 + blen (enc_digits digits) <? 2) eqn:E'; [lia|].
  rewrite le_dec_enc2 by lia.
  replace (skipn 2 (le_enc 2 (w mod 65536) ++ enc_digits digits)) with (enc_digits digits) by reflexivity.
  rewrite digits_of_enc by (apply digit_ok_u16; exact Hd).
  assert (Es : sint16 (w mod 65536) = w).
  { change (w mod 65536) with (wrap 16 w). apply sint_wrap; lia. }
  rewrite Es. unfold value_of, result_of. destruct digits; reflexivity.
Qed.

(* ---------- the JSONB wrapper ---------- *)
Lemma land_mod_pow2 x k : 0 <= k -> Z.land x (2 ^ k - 1) = x mod 2 ^ k.
Proof. intros. replace (2 ^ k - 1) with (Z.ones k) by (rewrite Z.ones_equiv; lia). apply Z.land_ones. lia. Qed.

Theorem decodeJNumeric_varlena4 content extra t :
  0 < blen content -> 4 + blen content < 2 ^ 30 ->
  decodeJNumeric {| vis := enc_varlena4 content ++ extra; tail := t |} = Ok (spec_decode eval_model content).
Proof.
  intros Hc Hmax. unfold decodeJNumeric, enc_varlena4.
  set (s := {| vis := (le_enc 4 ((4 + blen content) * 4) ++ content) ++ extra; tail := t |}).
  pose proof (blen_nonneg extra) as Hx. pose proof (blen_nonneg t) as Ht.
  assert (Hlen : len s = 4 + blen content + blen extra) by (unfold len, s; cbn [vis]; bl; lia).
  assert (Hcap : cap s = 4 + blen content + blen extra + blen t) by (unfold cap, s; cbn [vis tail]; bl; lia).
  destruct (len s <? 4) eqn:E4; [lia|].
  assert (Eh : u32 s 0 = Ok ((4 + blen content) * 4)).
  { unfold u32. apply uN_sub;
      [ lia | change (Z.of_nat 4) with 4; lia
      | unfold s; cbn [vis]; change (0 + Z.of_nat 4) with 4; ssub
      | change (8 * Z.of_nat 4) with 32; lia ]. }
  rewrite Eh. cbn [bind].
  change 3 with (2 ^ 2 - 1). rewrite land_mod_pow2 by lia.
  replace (((4 + blen content) * 4) mod 2 ^ 2) with 0 by (change (2 ^ 2) with 4; lia).
  cbn [Z.eqb]. rewrite Z.shiftr_div_pow2 by lia.
  replace ((4 + blen content) * 4 / 2 ^ 2) with (4 + blen content) by (change (2 ^ 2) with 4; lia).
  destruct ((4 + blen content >? 4) && (len s >=? 4 + blen content)) eqn:EG; [|lia].
  unfold slice. destruct ((0 <=? 4) && (4 <=? 4 + blen content) && (4 + blen content <=? cap s)) eqn:ES; [|lia].
  cbn [bind]. rewrite DecodeNumeric_total. cbn [vis]. do 2 f_equal.
  unfold mem, s. cbn [vis tail]. ssub.
Qed.

Theorem decodeJNumeric_varlena1 content extra t :
  0 < blen content -> 1 + blen content <= 127 -> 4 <= 1 + blen content + blen extra ->
  decodeJNumeric {| vis := enc_varlena1 content ++ extra; tail := t |} = Ok (spec_decode eval_model content).
Proof.
  intros Hc Hmax H4. unfold decodeJNumeric, enc_varlena1.
  set (b0 := z2b ((1 + blen content) * 2 + 1)).
  set (s := {| vis := (b0 :: content) ++ extra; tail := t |}).
  pose proof (blen_nonneg extra) as Hx. pose proof (blen_nonneg t) as Ht.
  assert (Hlen : len s = 1 + blen content + blen extra) by (unfold len, s; cbn [vis]; bl; lia).
  assert (Hcap : cap s = 1 + blen content + blen extra + blen t) by (unfold cap, s; cbn [vis tail]; bl; lia).
  destruct (len s <? 4) eqn:E4; [lia|].
  unfold u32. rewrite uN_val by (change (Z.of_nat 4) with 4; lia). cbn [bind].
  change (0 + Z.of_nat 4) with 4.
  set (hdr := le_dec (sub (vis s) 0 4)).
  assert (Eb0 : b2z b0 = (1 + blen content) * 2 + 1).
  { unfold b0. rewrite b2z_z2b. apply Z.mod_small. lia. }
  assert (Ehdr : exists q, hdr = b2z b0 + 256 * q).
  { unfold hdr, s. cbn [vis]. rewrite (sub_split _ 0 1 4) by lia.
    replace (sub ((b0 :: content) ++ extra) 0 1) with [b0] by reflexivity.
    cbn [app le_dec]. eauto. }
  destruct Ehdr as (q & Eq).
  change 3 with (2 ^ 2 - 1). rewrite land_mod_pow2 by lia.
  change 255 with (2 ^ 8 - 1). rewrite land_mod_pow2 by lia.
  assert (E3 : hdr mod 2 ^ 2 =? 0 = false) by (change (2 ^ 2) with 4; lia).
  rewrite E3.
  assert (E8 : hdr mod 2 ^ 8 = b2z b0) by (change (2 ^ 8) with 256; lia).
  rewrite E8, Eb0. rewrite Z.shiftr_div_pow2 by lia.
  replace (((1 + blen content) * 2 + 1) / 2 ^ 1) with (1 + blen content) by (change (2 ^ 1) with 2; lia).
  destruct ((1 + blen content >? 1) && (len s >=? 1 + blen content)) eqn:EG; [|lia].
  unfold slice. destruct ((0 <=? 1) && (1 <=? 1 + blen content) && (1 + blen content <=? cap s)) eqn:ES; [|lia].
  cbn [bind]. rewrite DecodeNumeric_total. cbn [vis]. do 2 f_equal.
  unfold mem, s. cbn [vis tail].
  change ((b0 :: content) ++ extra) with ([b0] ++ content ++ extra).
  ssub.
Qed.

Theorem decodeJNumeric_no_panic s : decodeJNumeric s <> Panic.
Proof.
  unfold decodeJNumeric.
  destruct (len s <? 4) eqn:E4; [discriminate|].
  unfold u32. rewrite uN_val by (change (Z.of_nat 4) with 4; lia). cbn [bind].
  set (hdr := le_dec _).
  pose proof (len_le_cap s) as Hcap.
  assert (HD : forall c, DecodeNumeric c <> Panic) by apply DecodeNumeric_no_panic.
  destruct (Z.land hdr 3 =? 0).
  - destruct ((Z.shiftr hdr 2 >? 4) && (len s >=? Z.shiftr hdr 2)) eqn:EG.
    + destruct (slice_ok s 4 (Z.shiftr hdr 2)) as (r & ->); try lia. cbn [bind]. apply HD.
    + cbn [bind]. apply HD.
  - destruct ((Z.shiftr (Z.land hdr 255) 1 >? 1) && (len s >=? Z.shiftr (Z.land hdr 255) 1)) eqn:EG.
    + destruct (slice_ok s 1 (Z.shiftr (Z.land hdr 255) 1)) as (r & ->); try lia. cbn [bind]. apply HD.
    + cbn [bind]. apply HD.
Qed.
