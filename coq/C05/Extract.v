Require Import PG.C05.Float64 PG.C05.Model PG.C05.Spec.
Require Extraction. Require ExtrOcamlBasic.
Extraction "model.ml" DecodeNumeric decodeJNumeric decodeNumericShort decodeNumericLong computeNumeric enc_short enc_long enc_varlena4 enc_varlena1 expected in_exact_class exact_classb spec_header digits_of nearest_value b64_bits spec_decode.
