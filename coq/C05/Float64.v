(* C05/Float64.v — IEEE-754 binary64 as used by Go's float64 on amd64 (SSE2, round to nearest even,
   no FMA contraction at GOAMD64=v1), on top of Flocq's BinarySingleNaN, plus a transcription of the
   pure-Go math.Pow (math/pow.go, go1.24) restricted to non-negative integral exponents and of the
   Float64bits observable.  Property-local library (belongs to Base/Float64.v of the design). *)
From Coq Require Import ZArith Bool.
From Flocq Require Import Core.Zaux Core.Raux Core.Defs Core.FLT IEEE754.BinarySingleNaN.
Open Scope Z_scope.

Definition prec64 : Z := 53.
Definition emax64 : Z := 1024.
#[export] Instance prec64_gt_0 : FLX.Prec_gt_0 prec64 := eq_refl.
#[export] Instance prec64_lt_emax : Prec_lt_emax prec64 emax64 := eq_refl.

Definition f64 := binary_float prec64 emax64.

(* float64(z) for a Go integer z (exact when |z| <= 2^53, correctly rounded otherwise) *)
Definition f_of_Z (z : Z) : f64 := binary_normalize prec64 emax64 _ _ mode_NE z 0 false.
Definition fmul : f64 -> f64 -> f64 := Bmult mode_NE.
Definition fadd : f64 -> f64 -> f64 := Bplus mode_NE.
Definition fdiv : f64 -> f64 -> f64 := Bdiv mode_NE.
Definition flt : f64 -> f64 -> bool := Bltb.
Definition f_zero : f64 := B754_zero false.
Definition f_one : f64 := f_of_Z 1.
Definition f_half : f64 := binary_normalize prec64 emax64 _ _ mode_NE 1 (-1) false.
Definition f_inf : f64 := B754_infinity false.

(* math.Float64bits; every NaN is rendered as the canonical quiet NaN (the payload/sign of a NaN that
   an arithmetic operation produces is hardware-specific and not an observable of the property). *)
Definition b64_bits (x : f64) : Z :=
  match x with
  | B754_zero s => if s then 2 ^ 63 else 0
  | B754_infinity s => (if s then 2 ^ 63 else 0) + 2047 * 2 ^ 52
  | B754_nan => 2047 * 2 ^ 52 + 2 ^ 51
  | B754_finite s m e _ =>
      (if s then 2 ^ 63 else 0) +
      (if Zpos m <? 2 ^ 52 then Zpos m else (e + 1075) * 2 ^ 52 + (Zpos m - 2 ^ 52))
  end.

(* ---- math.Pow(x, float64(k)) for an integer k >= 0 and a finite x > 1 (pow.go:34-144) ----
   With y = float64(k) integral and non-negative: the special cases of the leading switch that can
   apply are y == 0 and y == 1; Modf(Abs(y)) = (y, 0) so the fractional part is skipped; the
   `yi >= 1<<63` test gives +Inf for x > 1.  The loop `for i := int64(yi); i != 0; i >>= 1` walks the
   binary digits of k from the least significant one, which is structural recursion on [positive]. *)
Fixpoint pow_loop (i : positive) (x1 : f64) (xe : Z) (a1 : f64) (ae : Z) : f64 * Z :=
  if (xe <? -4096) || (4096 <? xe) then (a1, ae + xe)           (* pow.go:114-121: ae += xe; break *)
  else
    let odd := match i with xO _ => false | _ => true end in
    let a1' := if odd then fmul a1 x1 else a1 in                 (* pow.go:122-125 *)
    let ae' := if odd then ae + xe else ae in
    match i with
    | xH => (a1', ae')                                           (* i >>= 1 is 0: the loop ends *)
    | xO p | xI p =>
        let x2 := fmul x1 x1 in                                   (* pow.go:126 x1 *= x1 *)
        let xe2 := 2 * xe in                                      (* pow.go:127 xe <<= 1 (|xe| <= 4096) *)
        if flt x2 f_half                                          (* pow.go:128-131 *)
        then pow_loop p (fadd x2 x2) (xe2 - 1) a1' ae'
        else pow_loop p x2 xe2 a1' ae'
    end.

Definition go_pow (x : f64) (k : Z) : f64 :=
  if k =? 0 then f_one                                            (* y == 0 *)
  else if k =? 1 then x                                           (* y == 1 *)
  else if 2 ^ 63 <=? k then f_inf                                 (* yi >= 1<<63, x > 1, y > 0 *)
  else
    let '(x1, xe) := Bfrexp x in                                  (* x1, xe := Frexp(x) *)
    let '(a1, ae) := pow_loop (Z.to_pos k) x1 xe f_one 0 in
    Bldexp mode_NE a1 ae.                                         (* Ldexp(a1, ae): a1 normal, ae >= 0 *)
