(* C05/Model.v — Gallina model of pgdump/jsonb.go:156-270 (after the three fix: commits of branch
   verif-C05): decodeJNumeric, DecodeNumeric, decodeNumericShort, decodeNumericLong, computeNumeric.
   One definition per Go function, same names; every index/slice/u16 read is partial. *)
Require Import PG.Base.Bytes PG.Base.GoSlice PG.Base.Value.
From Flocq Require Import IEEE754.BinarySingleNaN.
Require Import PG.C05.Float64.

Definition f10000 : f64 := f_of_Z 10000.

(* Go strings returned for the special values *)
Definition str_NaN : bytes := [x4e; x61; x4e].
Definition str_Infinity : bytes := [x49; x6e; x66; x69; x6e; x69; x74; x79].
Definition str_mInfinity : bytes := x2d :: str_Infinity.

(* jsonb.go:257-270
     if len(digits) == 0 { return 0 }
     result := float64(0)
     for _, d := range digits { result = result*10000 + float64(d) }
     exp := weight - len(digits) + 1
     if exp >= 0 { result *= math.Pow(10000, float64(exp)) } else { result /= math.Pow(10000, float64(-exp)) }
     return float64(sign) * result
   (float64(exp) is exact: |exp| < 2^53 because a slice has fewer than 2^48 elements) *)
Definition horner (digits : list Z) : f64 :=
  fold_left (fun result d => fadd (fmul result f10000) (f_of_Z d)) digits f_zero.

Definition computeNumeric (digits : list Z) (weight sign : Z) : f64 :=
  match digits with
  | [] => f_zero
  | _ =>
    let result := horner digits in
    let exp := weight - Z.of_nat (length digits) + 1 in
    let result := if exp >=? 0 then fmul result (go_pow f10000 exp)
                  else fdiv result (go_pow f10000 (- exp)) in
    fmul (f_of_Z sign) result
  end.

(* for i := 0; i < ndigits; i++ { digits[i] = int(u16(raw, base+i*2)) }   (jsonb.go:225-228, 250-253) *)
Fixpoint read_digits (n : nat) (raw : gslice) (off : Z) : res (list Z) :=
  match n with
  | O => Ok []
  | S k => d <- u16 raw off ;; r <- read_digits k raw (off + 2) ;; Ok (d :: r)
  end.

(* jsonb.go:211-230 *)
Definition decodeNumericShort (raw : gslice) (header : Z) : res gval :=
  let sign := if Z.land header 8192 (* 0x2000 *) =? 0 then 1 else -1 in
  let weight := Z.land header 63 (* 0x003F *) in
  let weight := if Z.land header 64 (* 0x0040 *) =? 0 then weight else weight - 64 in
  let ndigits := Z.quot (len raw - 2) 2 in          (* Go's / truncates toward zero *)
  if ndigits =? 0 then Ok (VInt 0) else
  if ndigits <? 0 then Panic else                   (* make([]int, ndigits) with ndigits < 0 *)
  digits <- read_digits (Z.to_nat ndigits) raw 2 ;;
  Ok (VF64 (b64_bits (computeNumeric digits weight sign))).

(* jsonb.go:235-255 *)
Definition decodeNumericLong (raw : gslice) : res gval :=
  if len raw <? 4 then Ok VNil else
  h <- u16 raw 0 ;;
  let sign := if Z.land h 49152 (* 0xC000 *) =? 16384 (* 0x4000 *) then -1 else 1 in
  weight <- i16 raw 2 ;;
  let ndigits := Z.quot (len raw - 4) 2 in
  if ndigits =? 0 then Ok (VInt 0) else
  digits <- read_digits (Z.to_nat ndigits) raw 4 ;;
  Ok (VF64 (b64_bits (computeNumeric digits weight sign))).

(* jsonb.go:177-198 *)
Definition DecodeNumeric (raw : gslice) : res gval :=
  if len raw <? 2 then Ok VNil else
  header <- u16 raw 0 ;;
  if Z.land header 49152 (* 0xC000 *) =? 49152 then
    (if header =? 53248 (* 0xD000 *) then Ok (VStr str_Infinity)
     else if header =? 61440 (* 0xF000 *) then Ok (VStr str_mInfinity)
     else Ok (VStr str_NaN))
  else if negb (Z.land header 32768 (* 0x8000 *) =? 0) then decodeNumericShort raw header
  else decodeNumericLong raw.

(* jsonb.go:156-174.  `var content []byte` stays nil unless one of the branches assigns it. *)
Definition nil_slice : gslice := {| vis := []; tail := [] |}.
Definition decodeJNumeric (data : gslice) : res gval :=
  if len data <? 4 then Ok VNil else
  hdr <- u32 data 0 ;;
  content <-
    (if Z.land hdr 3 =? 0 then
       let n := Z.shiftr hdr 2 in
       if (n >? 4) && (len data >=? n) then slice data 4 n else Ok nil_slice
     else
       let n := Z.shiftr (Z.land hdr 255) 1 in
       if (n >? 1) && (len data >=? n) then slice data 1 n else Ok nil_slice) ;;
  DecodeNumeric content.
