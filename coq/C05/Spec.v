(* C05/Spec.v — PostgreSQL's on-disk numeric (src/backend/utils/adt/numeric.c, PostgreSQL 12-16,
   little-endian), written independently of the Go code.

     struct NumericShort { uint16 n_header; NumericDigit n_data[]; }
     struct NumericLong  { uint16 n_sign_dscale; int16 n_weight; NumericDigit n_data[]; }
     NUMERIC_SIGN_MASK 0xC000: POS 0x0000, NEG 0x4000 (long form), SHORT 0x8000, SPECIAL 0xC000
     short header: sign 0x2000, dscale (h & 0x1F80) >> 7, weight sign 0x0040, weight 0x003F
                   (weight = (h & 0x40 ? ~0x3F : 0) | (h & 0x3F), i.e. 7-bit two's complement)
     long header : dscale = h & 0x3FFF; n_weight is a signed 16-bit integer
     specials    : NaN 0xC000, +Inf 0xD000, -Inf 0xF000 (numeric_out tests PINF and NINF by equality and
                   prints every other SPECIAL header as NaN; PostgreSQL 12/13 know NaN only)
     digits      : base 10000 (NBASE), int16 each, most significant first, up to the end of the datum
     value       : sign * sum_i digit_i * 10000^(weight - i)
   What is handed to DecodeNumeric is the datum after its varlena header.  Inside a JSONB document a
   numeric is stored as a complete varlena datum (4-byte header  len << 2, len including the header). *)
Require Import PG.Base.Bytes PG.Base.Value.
From Flocq Require Import IEEE754.BinarySingleNaN.
Require Import PG.C05.Float64.

(* ---------- abstract values ---------- *)
Inductive numeric :=
| NNaN | NPInf | NNInf
| NNum (neg : bool) (weight dscale : Z) (digits : list Z).

Definition digit_ok (d : Z) : Prop := 0 <= d < 10000.
Definition wf_short (v : numeric) : Prop :=
  match v with
  | NNum _ w ds digits => -64 <= w <= 63 /\ 0 <= ds <= 63 /\ Forall digit_ok digits
  | _ => True
  end.
Definition wf_long (v : numeric) : Prop :=
  match v with
  | NNum _ w ds digits => -32768 <= w <= 32767 /\ 0 <= ds <= 16383 /\ Forall digit_ok digits
  | _ => True
  end.

(* ---------- reference writer ---------- *)
Definition enc_digits (digits : list Z) : bytes := concat (map (le_enc 2) digits).
Definition hdr_short (neg : bool) (w ds : Z) : Z :=
  32768 + (if neg then 8192 else 0) + ds * 128 + w mod 128.
Definition hdr_long (neg : bool) (ds : Z) : Z := (if neg then 16384 else 0) + ds.
Definition hdr_special (v : numeric) : Z :=
  match v with NPInf => 53248 | NNInf => 61440 | _ => 49152 end.

Definition enc_short (v : numeric) : bytes :=
  match v with
  | NNum neg w ds digits => le_enc 2 (hdr_short neg w ds) ++ enc_digits digits
  | _ => le_enc 2 (hdr_special v)
  end.
Definition enc_long (v : numeric) : bytes :=
  match v with
  | NNum neg w ds digits => le_enc 2 (hdr_long neg ds) ++ le_enc 2 (w mod 65536) ++ enc_digits digits
  | _ => le_enc 2 (hdr_special v)
  end.

(* varlena wrappers: 4-byte header (what PostgreSQL writes inside JSONB), 1-byte "short" header *)
Definition enc_varlena4 (content : bytes) : bytes := le_enc 4 ((4 + blen content) * 4) ++ content.
Definition enc_varlena1 (content : bytes) : bytes := z2b ((1 + blen content) * 2 + 1) :: content.

(* ---------- reading a header word (transcribes the NUMERIC_* macros, arithmetic form) ---------- *)
Inductive hclass :=
| HLong (neg : bool) (dscale : Z)
| HShort (neg : bool) (weight dscale : Z)
| HNaN | HPInf | HNInf.

Definition spec_header (h : Z) : hclass :=
  let flag := h / 16384 in
  if flag =? 3 then (if h =? 53248 then HPInf else if h =? 61440 then HNInf else HNaN)
  else if flag =? 2 then
    HShort ((h / 8192) mod 2 =? 1)
           (let w := h mod 128 in if w <? 64 then w else w - 128)
           ((h / 128) mod 64)
  else HLong (flag =? 1) (h mod 16384).

(* the base-10000 digits of a digit area: little-endian 16-bit words; an odd trailing byte is not a digit *)
Fixpoint digits_of (b : bytes) : list Z :=
  match b with
  | lo :: hi :: r => (b2z lo + 256 * b2z hi) :: digits_of r
  | _ => []
  end.

(* ---------- exact value ---------- *)
(* the integer written by the digits, and the power of 10000 it is scaled by *)
Definition intval (digits : list Z) : Z := fold_left (fun a d => a * 10000 + d) digits 0.
Definition exp10k (w : Z) (digits : list Z) : Z := w - Z.of_nat (length digits) + 1.
(* exact value = (-1)^neg * intval digits * 10000 ^ exp10k  as a fraction num/den *)
Definition exact_num (w : Z) (digits : list Z) : Z :=
  let e := exp10k w digits in if e >=? 0 then intval digits * 10000 ^ e else intval digits.
Definition exact_den (w : Z) (digits : list Z) : Z :=
  let e := exp10k w digits in if e >=? 0 then 1 else 10000 ^ (- e).

(* ---------- the nearest double ---------- *)
(* [nearest neg num den] is (-1)^neg * num/den rounded to binary64, round-to-nearest-even (overflow to
   infinity): Flocq's division core on the two integers themselves (arbitrary size, exponent 0).
   Its meaning is fixed by theorem C05_nearest_is_rounding. *)
Definition nearest (neg : bool) (num den : positive) : f64 :=
  SF2B _ (proj1 (@Bdiv_correct_aux prec64 emax64 _ _ mode_NE neg num 0 false den 0)).

Definition nearest_value (neg : bool) (w : Z) (digits : list Z) : f64 :=
  let n := exact_num w digits in
  if n <=? 0 then B754_zero neg
  else nearest neg (Z.to_pos n) (Z.to_pos (exact_den w digits)).

(* the class on which the property promises THE nearest double: the digit integer is below 2^53 and the
   scaling power 10000^|e| is exactly representable (|e| <= 5).  Contains every value with at most 12
   significant decimal digits and a decimal exponent of magnitude <= 20. *)
Definition exact_class (w : Z) (digits : list Z) : Prop :=
  intval digits < 2 ^ 53 /\ -5 <= exp10k w digits <= 5.
Definition exact_classb (w : Z) (digits : list Z) : bool :=
  (intval digits <? 2 ^ 53) && (-5 <=? exp10k w digits) && (exp10k w digits <=? 5).

(* ---------- expected result ---------- *)
Definition s_NaN : bytes := [x4e; x61; x4e].                                  (* "NaN" *)
Definition s_Infinity : bytes := [x49; x6e; x66; x69; x6e; x69; x74; x79].    (* "Infinity" *)
Definition s_mInfinity : bytes := x2d :: s_Infinity.                          (* "-Infinity" *)

(* result as a function of the float that stands for the digits: no digits at all is reported as the
   integer 0 (a number equal to the exact value 0); specials are strings, never numbers *)
Definition result_of (v : numeric) (f : bool -> Z -> list Z -> f64) : gval :=
  match v with
  | NNaN => VStr s_NaN | NPInf => VStr s_Infinity | NNInf => VStr s_mInfinity
  | NNum neg w _ [] => VInt 0
  | NNum neg w _ digits => VF64 (b64_bits (f neg w digits))
  end.
Definition expected (v : numeric) : gval := result_of v nearest_value.

Definition is_special (v : numeric) : bool := match v with NNum _ _ _ _ => false | _ => true end.
Definition in_exact_class (v : numeric) : bool :=
  match v with NNum _ w _ digits => exact_classb w digits | _ => true end.

(* ---------- total reading of a datum (used to state what EVERY byte string decodes to) ---------- *)
(* [eval neg weight digits] is the float the digits stand for *)
Definition value_of (eval : bool -> Z -> list Z -> f64) (neg : bool) (w : Z) (digits : list Z) : gval :=
  match digits with [] => VInt 0 | _ => VF64 (b64_bits (eval neg w digits)) end.
Definition decode_as (eval : bool -> Z -> list Z -> f64) (c : hclass) (body : bytes) : gval :=
  match c with
  | HNaN => VStr s_NaN | HPInf => VStr s_Infinity | HNInf => VStr s_mInfinity
  | HShort neg w _ => value_of eval neg w (digits_of body)
  | HLong neg _ =>
      if blen body <? 2 then VNil
      else value_of eval neg (sint16 (le_dec (firstn 2 body))) (digits_of (skipn 2 body))
  end.
Definition spec_decode (eval : bool -> Z -> list Z -> f64) (datum : bytes) : gval :=
  if blen datum <? 2 then VNil
  else decode_as eval (spec_header (le_dec (firstn 2 datum))) (skipn 2 datum).
