(* C18/FileProofs.v — ParseIndexFile on the image of a well-formed index file of any number of pages. *)
Require Import PG.Base.Bytes PG.Base.GoSlice PG.C18.Types PG.C18.Model PG.C18.Spec PG.C18.Lib
  PG.C18.SpecialProofs PG.C18.PageProofs PG.C18.MetaProofs PG.C18.WfProofs.

Definition page_of (m : am) (p : ipage) : Prop := wf_page p /\ am_of (ip_op p) = m.

Lemma enc_pages_len m ps : Forall (page_of m) ps -> blen (enc_pages ps) = 8192 * Z.of_nat (length ps).
Proof.
  induction 1 as [|p ps [W _] _ IH]; [reflexivity|].
  unfold enc_pages in *. cbn [map concat length]. bl. rewrite IH, (enc_page_len p W). lia.
Qed.

Lemma slice_within s lo hi : 0 <= lo <= hi -> hi <= len s ->
  slice s lo hi = Ok {| vis := sub (vis s) lo hi; tail := skipn (Z.to_nat hi) (mem s) |}.
Proof.
  intros H1 H2. unfold slice. pose proof (len_le_cap s).
  destruct ((0 <=? lo) && (lo <=? hi) && (hi <=? cap s)) eqn:E; [|lia].
  do 2 f_equal. unfold mem. apply sub_app_l; unfold len in *; lia.
Qed.

(* the encoded pages sit at page index i of the visible bytes *)
Lemma parse_pages_ok m : forall ps data i,
  Forall (page_of m) ps -> 0 <= i ->
  i * 8192 + 8192 * Z.of_nat (length ps) <= len data ->
  sub (vis data) (i * 8192) (i * 8192 + 8192 * Z.of_nat (length ps)) = enc_pages ps ->
  parse_pages (length ps) data i (am_code m) = Ok (expected_pages i ps).
Proof.
  induction ps as [|p ps IH]; intros data i HF Hi Hlen Hsub; [reflexivity|].
  pose proof (Forall_inv HF) as [W A]. pose proof (Forall_inv_tail HF) as HF'.
  pose proof (enc_pages_len _ _ HF') as Lps. pose proof (enc_page_len p W) as Lp.
  cbn [length] in Hlen, Hsub. cbn [length parse_pages expected_pages]. unfold PageSize.
  rewrite slice_within by lia. cbn [bind].
  assert (Hall : forall a b, 0 <= a -> a <= b -> b <= 8192 * Z.of_nat (S (length ps)) ->
            sub (vis data) (i * 8192 + a) (i * 8192 + b) = sub (enc_pages (p :: ps)) a b).
  { intros a b Ha Hab Hb. rewrite <- Hsub. rewrite sub_sub by lia. reflexivity. }
  replace (sub (vis data) (i * 8192) (i * 8192 + 8192)) with (enc_page p).
  2:{ replace (i * 8192) with (i * 8192 + 0) at 1 by lia. rewrite Hall by lia.
      unfold enc_pages. cbn [map concat]. rewrite sub_app_l by lia. symmetry. apply sub_exact; lia. }
  rewrite <- A. rewrite page_ok by exact W. cbn [bind]. rewrite A.
  assert (Hrest : sub (vis data) ((i + 1) * 8192) ((i + 1) * 8192 + 8192 * Z.of_nat (length ps)) = enc_pages ps).
  { replace ((i + 1) * 8192) with (i * 8192 + 8192) by lia.
    replace (i * 8192 + 8192 + 8192 * Z.of_nat (length ps)) with (i * 8192 + 8192 * Z.of_nat (S (length ps))) by lia.
    rewrite Hall by lia. unfold enc_pages. cbn [map concat]. rewrite sub_app_r by lia.
    fold (enc_pages ps). apply sub_exact; lia. }
  rewrite (IH data (i + 1) HF' ltac:(lia) ltac:(lia) Hrest). reflexivity.
Qed.

Lemma expected_meta_cases p :
  match am_of (ip_op p) with
  | BTree => expected_meta p = MNone \/ exists m, expected_meta p = MBT m
  | Hash => expected_meta p = MNone \/ exists m, expected_meta p = MHash m
  | GIN => expected_meta p = MNone \/ exists m, expected_meta p = MGin m
  | _ => expected_meta p = MNone
  end.
Proof.
  unfold expected_meta. destruct (ip_op p); cbn [am_of]; destruct (ip_body p); auto;
    match goal with |- context [bit ?f 3] => destruct (bit f 3) end; eauto.
Qed.

Lemma file_ok f t :
  wf_file f -> ParseIndexFile {| vis := enc_file f; tail := t |} = Ok (Some (expected_file f)).
Proof.
  unfold wf_file, expected_file. destruct f as [ps junk]. cbn [f_pages f_junk].
  destruct ps as [|p0 rest]; [tauto|]. intros (F0 & HF & Hj).
  set (m := am_of (ip_op p0)) in *.
  assert (HF' : Forall (page_of m) (p0 :: rest)) by exact HF.
  pose proof (enc_pages_len _ _ HF') as Lps.
  pose proof (Forall_inv HF') as [W0 _].
  pose proof (enc_page_len p0 W0) as L0. pose proof (blen_nonneg junk) as Hj0.
  set (n := Z.of_nat (length (p0 :: rest))) in *.
  assert (Hn : 1 <= n) by (unfold n; cbn [length]; lia).
  assert (Ld : len {| vis := enc_file {| f_pages := p0 :: rest; f_junk := junk |}; tail := t |} = 8192 * n + blen junk).
  { rewrite len_mk. unfold enc_file. cbn [f_pages f_junk]. bl. lia. }
  unfold ParseIndexFile. rewrite Ld. unfold PageSize.
  destruct (8192 * n + blen junk <? 8192) eqn:E; [lia|]. clear E.
  replace ((8192 * n + blen junk) / 8192) with n by lia.
  assert (Hp0 : slice {| vis := enc_file {| f_pages := p0 :: rest; f_junk := junk |}; tail := t |} 0 8192 =
                Ok {| vis := enc_page p0; tail := skipn (Z.to_nat 8192) (mem {| vis := enc_file {| f_pages := p0 :: rest; f_junk := junk |}; tail := t |}) |}).
  { rewrite slice_within by lia. do 2 f_equal. cbn [vis]. unfold enc_file, enc_pages. cbn [f_pages f_junk map concat].
    rewrite <- app_assoc. rewrite sub_app_l by lia. apply sub_exact; lia. }
  rewrite Hp0. cbn [bind]. rewrite detect_ok by assumption. cbn [bind]. fold m.
  replace (Z.to_nat n) with (length (p0 :: rest)) by (unfold n; lia).
  rewrite (parse_pages_ok m); auto; try lia.
  2:{ cbn [vis]. change (0 * 8192) with 0. cbn [Z.add]. fold n. unfold enc_file. cbn [f_pages f_junk].
      rewrite sub_app_l by lia. apply sub_exact; lia. }
  rewrite type_string_ok'.
  pose proof (expected_meta_cases p0) as MC. fold m in MC.
  pose proof (btmeta_ok p0) as HB. pose proof (hashmeta_ok p0) as HH. pose proof (ginmeta_ok p0) as HG.
  fold m in HB, HH, HG.
  destruct m; cbn [am_code]; unfold IndexTypeBTree, IndexTypeHash, IndexTypeGIN;
    cbn [Z.eqb Pos.eqb bind].
  - rewrite HB by auto. cbn [bind]. destruct MC as [-> | [bm ->]]; reflexivity.
  - rewrite HH by auto. cbn [bind]. destruct MC as [-> | [bm ->]]; reflexivity.
  - rewrite MC. reflexivity.
  - rewrite HG by auto. cbn [bind]. destruct MC as [-> | [bm ->]]; reflexivity.
  - rewrite MC. reflexivity.
  - rewrite MC. reflexivity.
Qed.

(* ---------- corollaries ---------- *)
Lemma am_code_inj a b : am_code a = am_code b -> a = b.
Proof. destruct a, b; cbn; intros; try reflexivity; discriminate. Qed.

(* no byte string is the image of first pages of two different methods *)
Lemma classify_distinct p1 p2 :
  wf_page p1 -> first_ok p1 -> wf_page p2 -> first_ok p2 ->
  enc_page p1 = enc_page p2 -> am_of (ip_op p1) = am_of (ip_op p2).
Proof.
  intros W1 F1 W2 F2 E. pose proof (detect_ok p1 [] W1 F1) as D1. pose proof (detect_ok p2 [] W2 F2) as D2.
  rewrite E in D1. rewrite D1 in D2. injection D2. apply am_code_inj.
Qed.

(* non-vacuity: a two-page B-tree file (metapage + root/leaf) and a three-page BRIN file *)
Definition ex_btmeta : bt_metadata :=
  {| btm_magic := BTREE_MAGIC; btm_version := 4; btm_root := 1; btm_level := 0; btm_fastroot := 1; btm_fastlevel := 0 |}.
Definition ex_bt_file : ifile :=
  {| f_pages := [ {| ip_xlogid := 0; ip_xrecoff := 21966400; ip_checksum := 0; ip_hflags := 0; ip_lower := 72; ip_upper := 8176;
                     ip_psv := 8196; ip_prune := 0; ip_body := BBTMeta ex_btmeta (zeros 8128); ip_op := OpBT 0 0 0 8 0 |};
                  {| ip_xlogid := 0; ip_xrecoff := 21970000; ip_checksum := 0; ip_hflags := 0; ip_lower := 424; ip_upper := 6576;
                     ip_psv := 8196; ip_prune := 0; ip_body := BRaw (zeros 8152); ip_op := OpBT 0 0 0 3 65407 |} ];
     f_junk := zeros 100 |}.
Example ex_bt_file_wf : wf_file ex_bt_file.
Proof. apply WfProofs.wf_file_b_ok. vm_compute. reflexivity. Qed.
Definition ex_brin_page (t : Z) : ipage :=
  {| ip_xlogid := 1; ip_xrecoff := 2; ip_checksum := 0; ip_hflags := 0; ip_lower := 24; ip_upper := 8184;
     ip_psv := 8196; ip_prune := 0; ip_body := BRaw (zeros 8160); ip_op := OpBRIN 0 0 1 t |}.
Example ex_brin_file_wf : wf_file {| f_pages := [ex_brin_page 61585; ex_brin_page 61586; ex_brin_page 61587]; f_junk := [] |}.
Proof. apply WfProofs.wf_file_b_ok. vm_compute. reflexivity. Qed.
