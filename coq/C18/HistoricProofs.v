(* C18/HistoricProofs.v — the behaviour of pgdump/index.go BEFORE the fix: commits, kept as small
   models of the old lines with machine-checked refutations (concrete well-formed witnesses).
   D58 pd_lsn halves, D57 BRIN never detected / cycle-id bound 0xFF00, D56 hash and GIN metapage
   offsets, D34 out-of-range slices. *)
Require Import PG.Base.Bytes PG.Base.GoSlice PG.C18.Types PG.C18.Model PG.C18.Spec PG.C18.Lib PG.C18.WfProofs.

Definition mk_page (xlogid xrecoff : Z) (b : body) (o : opaque) : ipage :=
  {| ip_xlogid := xlogid; ip_xrecoff := xrecoff; ip_checksum := 0; ip_hflags := 0; ip_lower := 40; ip_upper := 8000;
     ip_psv := 8196; ip_prune := 0; ip_body := b; ip_op := o |}.

(* D58: info.LSN = binary.LittleEndian.Uint64(page[0:8]) *)
Definition old_page_lsn (page : gslice) : res Z := rd64 page 0 8.
Definition lsn_witness : ipage := mk_page 0 21966400 (* 0/14F2E40 *) (BRaw (zeros 8152)) (OpBT 0 0 0 1 0).
Lemma lsn_refuted :
  exists p, wf_page p /\
    old_page_lsn {| vis := enc_page p; tail := [] |} <> Ok (pi_lsn (expected_page 0 p)).
Proof.
  exists lsn_witness. split; [apply wf_page_b_ok; vm_compute; reflexivity|].
  vm_compute. discriminate.
Qed.

(* D57: detectIndexType without the BRIN case and with BTMaxCycleID = 0xFF00 *)
Definition old_detectIndexType (page : gslice) : res Z :=
  if len page <? PageSize then Ok IndexTypeUnknown else
  special <- rd16 page 16 18 ;;
  if (special =? 0) || (special >=? PageSize) then Ok IndexTypeUnknown else
  let specialSize := PageSize - special in
  specialData <- slice_from page special ;;
  early <- (if specialSize >=? 2 then
              pageID <- rdN_from 2 page (PageSize - 2) ;;
              if pageID =? HashoPageID then Ok (Some IndexTypeHash) else
              if pageID =? GISTPageID then Ok (Some IndexTypeGiST) else
              if pageID =? SPGISTPageID then Ok (Some IndexTypeSPGiST) else Ok None
            else Ok None) ;;
  match early with Some t => Ok t | None =>
  bt <- (if specialSize >=? 16 then
           cycleID <- rd16 specialData 14 16 ;;
           flags <- rd16 specialData 12 14 ;;
           if cycleID <=? 65280 then
             if has flags BTPMeta then
               magic <- rdN_from 4 page headerSize ;;
               if magic =? BTMetaMagic then Ok true else Ok false
             else Ok true
           else Ok false
         else Ok false) ;;
  if (bt : bool) then Ok IndexTypeBTree else
  if specialSize >=? 8 then
    flags <- rd16 specialData 6 8 ;;
    if has flags GINMeta || has flags GINData || has flags GINList then Ok IndexTypeGIN else Ok IndexTypeUnknown
  else Ok IndexTypeUnknown
  end.

Definition brin_witness : ipage := mk_page 1 2 (BRaw (zeros 8160)) (OpBRIN 0 0 0 61585).
Lemma brin_refuted :
  exists p, wf_page p /\ first_ok p /\ am_of (ip_op p) = BRIN /\
    old_detectIndexType {| vis := enc_page p; tail := [] |} = Ok (am_code GIN).
Proof.
  exists brin_witness. split; [apply wf_page_b_ok; vm_compute; reflexivity|].
  split; [exact I|]. split; reflexivity.
Qed.

Definition cycle_witness : ipage := mk_page 1 2 (BRaw (zeros 8152)) (OpBT 3 0 0 1 65281 (* 0xFF01 *)).
Lemma cycle_refuted :
  exists p, wf_page p /\ first_ok p /\ am_of (ip_op p) = BTree /\
    old_detectIndexType {| vis := enc_page p; tail := [] |} = Ok IndexTypeUnknown.
Proof.
  exists cycle_witness. split; [apply wf_page_b_ok; vm_compute; reflexivity|].
  split; [exact I|]. split; reflexivity.
Qed.

(* D56: old field offsets of parseHashMeta / parseGINMeta (after the flag test) *)
Definition old_hash_fields (page : gslice) : res hashmeta :=
  data <- slice_from page headerSize ;;
  magic <- rd32 data 0 4 ;; version <- rd32 data 4 8 ;; nb <- rd32 data 16 20 ;; maxb <- rd32 data 8 12 ;;
  high <- rd32 data 12 16 ;; low <- rd32 data 20 24 ;; ff <- rd16 data 24 26 ;;
  Ok {| hm_magic := magic; hm_version := version; hm_nbuckets := nb; hm_maxbucket := maxb; hm_highmask := high;
        hm_lowmask := low; hm_ffactor := ff; hm_ntuples_bits := 0 |}.
Definition hash_meta_witness : hash_metadata :=
  {| hashm_magic := 105121344; hashm_version := 4; hashm_ntuples := 4652007308841189376 (* 1000.0 *); hashm_ffactor := 307;
     hashm_bsize := 8152; hashm_bmsize := 4096; hashm_bmshift := 15; hashm_maxbucket := 3; hashm_highmask := 7; hashm_lowmask := 3 |}.
Definition hashmeta_witness : ipage := mk_page 1 2 (BHashMeta hash_meta_witness (zeros 8116)) (OpHash 4294967295 4294967295 4294967295 8).
Lemma hashmeta_refuted :
  exists p m, wf_page p /\ expected_meta p = MHash m /\
    exists r, old_hash_fields {| vis := enc_page p; tail := [] |} = Ok r /\ hm_maxbucket r <> hm_maxbucket m.
Proof.
  exists hashmeta_witness. eexists. split; [apply wf_page_b_ok; vm_compute; reflexivity|].
  split; [reflexivity|]. eexists. split; [vm_compute; reflexivity|]. cbn. discriminate.
Qed.

Definition old_gin_fields (page : gslice) : res ginmeta :=
  data <- slice_from page headerSize ;;
  version <- rd32 data 0 4 ;; head <- rd32 data 4 8 ;; tail_ <- rd32 data 8 12 ;; tailfree <- rd32 data 12 16 ;;
  npp <- rd32 data 16 20 ;; npt <- rd64 data 24 32 ;; ntotal <- rd32 data 32 36 ;; nentry <- rd32 data 36 40 ;;
  ndata <- rd32 data 40 44 ;; nentries <- rd64 data 48 56 ;;
  Ok {| gm_version := version; gm_head := head; gm_tail := tail_; gm_tailfree := tailfree; gm_npendpages := npp;
        gm_npendtuples := npt; gm_ntotal := ntotal; gm_nentry := nentry; gm_ndata := ndata; gm_nentries := nentries |}.
Definition gin_meta_witness : gin_metadata :=
  {| ginm_head := 5; ginm_tail := 9; ginm_tailfree := 1200; ginm_npendpages := 4; ginm_npendtuples := 77; ginm_ntotal := 120;
     ginm_nentry := 30; ginm_ndata := 80; ginm_pad := 0; ginm_nentries := 4000; ginm_version := 2 |}.
Definition ginmeta_witness : ipage := mk_page 1 2 (BGinMeta gin_meta_witness (zeros 8108)) (OpGIN 4294967295 0 8).
Lemma ginmeta_refuted :
  exists p m, wf_page p /\ expected_meta p = MGin m /\
    exists r, old_gin_fields {| vis := enc_page p; tail := [] |} = Ok r /\ gm_head r <> gm_head m.
Proof.
  exists ginmeta_witness. eexists. split; [apply wf_page_b_ok; vm_compute; reflexivity|].
  split; [reflexivity|]. eexists. split; [vm_compute; reflexivity|]. cbn. discriminate.
Qed.

(* D34: parseHashPageSpecial guarded 12 bytes and read special[12:14] *)
Definition old_hash_special_flags (special : gslice) : res Z :=
  if len special <? 12 then Ok 0 else
  prev <- rd32 special 0 4 ;; next <- rd32 special 4 8 ;; bucket <- rd32 special 8 12 ;;
  rd16 special 12 14.
Lemma hash_special_panic_refuted : exists sp, old_hash_special_flags sp = Panic.
Proof. exists {| vis := zeros 12; tail := [] |}. vm_compute. reflexivity. Qed.
