(* C18/Model.v — Gallina model of pgdump/index.go as it is in the worktree AFTER the fix: commits
   (pd_lsn halves, cycle-id bound 0xFF7F, BRIN detection + BRIN special parser, hash/GIN metapage
   offsets, bounds of parseHashPageSpecial/parseBTreeMeta/parseHashMeta).
   One definition per Go function, same name; every slice expression and every
   binary.LittleEndian read is a partial operation ([res]); line numbers cite pgdump/index.go. *)
Require Import PG.Base.Bytes PG.Base.GoSlice PG.C18.Types.

(* page.go:4-6 *)
Definition PageSize : Z := 8192.
Definition headerSize : Z := 24.
Definition itemIDSize : Z := 4.

(* index.go:12-20 *)
Definition IndexTypeUnknown : Z := 0.
Definition IndexTypeBTree : Z := 1.
Definition IndexTypeHash : Z := 2.
Definition IndexTypeGiST : Z := 3.
Definition IndexTypeGIN : Z := 4.
Definition IndexTypeSPGiST : Z := 5.
Definition IndexTypeBRIN : Z := 6.

(* index.go:22-39  func (t IndexType) String() *)
Definition IndexType_String (t : Z) : bytes :=
  if t =? IndexTypeBTree then StrLit.btree else
  if t =? IndexTypeHash then StrLit.hash else
  if t =? IndexTypeGiST then StrLit.gist else
  if t =? IndexTypeGIN then StrLit.gin else
  if t =? IndexTypeSPGiST then StrLit.spgist else
  if t =? IndexTypeBRIN then StrLit.brin else StrLit.unknown.

(* index.go:42-116 constants *)
Definition BTMaxCycleID : Z := 65407.   (* 0xFF7F *)
Definition BTMetaMagic : Z := 340322.   (* 0x053162 *)
Definition BTPLeaf := 1. Definition BTPRoot := 2. Definition BTPDeleted := 4. Definition BTPMeta := 8.
Definition BTPHalfDead := 16. Definition BTPHasGarbage := 64.
Definition HashoPageID : Z := 65408.    (* 0xFF80 *)
Definition LHOverflow := 1. Definition LHBucket := 2. Definition LHBitmap := 4. Definition LHMeta := 8.
Definition GISTPageID : Z := 65409.     (* 0xFF81 *)
Definition FLeaf := 1. Definition FDeleted := 2. Definition FTuplesDeleted := 4. Definition FFollowRight := 8.
Definition GINData := 1. Definition GINLeaf := 2. Definition GINDeleted := 4. Definition GINMeta := 8.
Definition GINList := 16. Definition GINCompressed := 128.
Definition SPGISTPageID : Z := 65410.   (* 0xFF82 *)
Definition SPGISTMeta := 1. Definition SPGISTDeleted := 2. Definition SPGISTLeaf := 4. Definition SPGISTNulls := 8.
Definition BRINPageTypeMeta : Z := 61585.    (* 0xF091 *)
Definition BRINPageTypeRegular : Z := 61587. (* 0xF093 *)
Definition BRINEvacuatePage := 1.

(* binary.LittleEndian.UintN(s[lo:hi]) : the slice expression is checked against cap, the read against
   the length hi-lo of the new slice *)
Definition rdN (n : nat) (s : gslice) (lo hi : Z) : res Z := x <- slice s lo hi ;; uN n x 0.
Definition rd16 := rdN 2. Definition rd32 := rdN 4. Definition rd64 := rdN 8.
(* binary.LittleEndian.UintN(s[lo:]) *)
Definition rdN_from (n : nat) (s : gslice) (lo : Z) : res Z := x <- slice_from s lo ;; uN n x 0.

(* flags&BIT != 0 *)
Definition has (flags bit : Z) : bool := negb (Z.land flags bit =? 0).
(* if cond { info.FlagStrings = append(info.FlagStrings, name) } *)
Definition add_if (c : bool) (name : bytes) (l : list bytes) : list bytes := if c then l ++ [name] else l.

(* wal.go:522  FormatLSN: fmt.Sprintf("%X/%X", lsn>>32, lsn&0xFFFFFFFF) *)
Definition FormatLSN (lsn : Z) : bytes := hexX32 (lsn / 4294967296) ++ StrLit.slash ++ hexX32 (lsn mod 4294967296).

(* the fields a special-space parser may assign; everything else is copied *)
Definition set_special (info : pinfo) (meta leaf root deleted : bool) (flags : Z) (names : list bytes)
           (level prev next right items : Z) : pinfo :=
  {| pi_num := pi_num info; pi_type := pi_type info; pi_tstr := pi_tstr info;
     pi_meta := meta; pi_leaf := leaf; pi_root := root; pi_deleted := deleted;
     pi_flags := flags; pi_names := names;
     pi_level := level; pi_prev := prev; pi_next := next; pi_right := right;
     pi_items := items; pi_free := pi_free info; pi_lsn := pi_lsn info; pi_lsnstr := pi_lsnstr info |}.

(* index.go:342-376 *)
Definition parseBTreePageSpecial (info : pinfo) (special : gslice) : res pinfo :=
  if len special <? 16 then Ok info else
  prev <- rd32 special 0 4 ;;
  next <- rd32 special 4 8 ;;
  level <- rd32 special 8 12 ;;
  flags <- rd16 special 12 14 ;;
  let names := add_if (has flags BTPHasGarbage) StrLit.HAS_GARBAGE
              (add_if (has flags BTPHalfDead) StrLit.HALF_DEAD
              (add_if (has flags BTPMeta) StrLit.META
              (add_if (has flags BTPDeleted) StrLit.DELETED
              (add_if (has flags BTPRoot) StrLit.ROOT
              (add_if (has flags BTPLeaf) StrLit.LEAF (pi_names info)))))) in
  Ok (set_special info (has flags BTPMeta) (has flags BTPLeaf) (has flags BTPRoot) (has flags BTPDeleted)
        flags names level prev next (pi_right info) (pi_items info)).

(* index.go:378-403 *)
Definition parseHashPageSpecial (info : pinfo) (special : gslice) : res pinfo :=
  if len special <? 16 then Ok info else
  prev <- rd32 special 0 4 ;;
  next <- rd32 special 4 8 ;;
  bucket <- rd32 special 8 12 ;;
  flags <- rd16 special 12 14 ;;
  let names := add_if (has flags LHMeta) StrLit.META
              (add_if (has flags LHBitmap) StrLit.BITMAP
              (add_if (has flags LHOverflow) StrLit.OVERFLOW
              (add_if (has flags LHBucket) StrLit.BUCKET (pi_names info)))) in
  Ok (set_special info (has flags LHMeta) (pi_leaf info) (pi_root info) (pi_deleted info)
        flags names (if has flags LHBucket then bucket else pi_level info) prev next (pi_right info) (pi_items info)).

(* index.go:406-430 *)
Definition parseGiSTPageSpecial (info : pinfo) (special : gslice) : res pinfo :=
  if len special <? 16 then Ok info else
  right <- rd32 special 8 12 ;;
  flags <- rd16 special 12 14 ;;
  let names := add_if (has flags FFollowRight) StrLit.FOLLOW_RIGHT
              (add_if (has flags FTuplesDeleted) StrLit.TUPLES_DELETED
              (add_if (has flags FDeleted) StrLit.DELETED
              (add_if (has flags FLeaf) StrLit.LEAF (pi_names info)))) in
  Ok (set_special info (pi_meta info) (has flags FLeaf) (pi_root info) (has flags FDeleted)
        flags names (pi_level info) (pi_prev info) (pi_next info) right (pi_items info)).

(* index.go:433-465 *)
Definition parseGINPageSpecial (info : pinfo) (special : gslice) : res pinfo :=
  if len special <? 8 then Ok info else
  right <- rd32 special 0 4 ;;
  maxOff <- rd16 special 4 6 ;;
  flags <- rd16 special 6 8 ;;
  let names := add_if (has flags GINCompressed) StrLit.COMPRESSED
              (add_if (has flags GINList) StrLit.LIST
              (add_if (has flags GINMeta) StrLit.META
              (add_if (has flags GINDeleted) StrLit.DELETED
              (add_if (has flags GINLeaf) StrLit.LEAF
              (add_if (has flags GINData) StrLit.DATA (pi_names info)))))) in
  Ok (set_special info (has flags GINMeta) (has flags GINLeaf) (pi_root info) (has flags GINDeleted)
        flags names (pi_level info) (pi_prev info) (pi_next info) right maxOff).

(* index.go:468-492 *)
Definition parseSPGiSTPageSpecial (info : pinfo) (special : gslice) : res pinfo :=
  if len special <? 6 then Ok info else
  flags <- rd16 special 0 2 ;;
  let names := add_if (has flags SPGISTNulls) StrLit.NULLS
              (add_if (has flags SPGISTDeleted) StrLit.DELETED
              (add_if (has flags SPGISTLeaf) StrLit.LEAF
              (add_if (has flags SPGISTMeta) StrLit.META (pi_names info)))) in
  Ok (set_special info (has flags SPGISTMeta) (has flags SPGISTLeaf) (pi_root info) (has flags SPGISTDeleted)
        flags names (pi_level info) (pi_prev info) (pi_next info) (pi_right info) (pi_items info)).

(* index.go:495-509 *)
Definition parseBRINPageSpecial (info : pinfo) (special : gslice) : res pinfo :=
  if len special <? 8 then Ok info else
  flags <- rd16 special 4 6 ;;
  pageType <- rd16 special 6 8 ;;
  let names := add_if (has flags BRINEvacuatePage) StrLit.EVACUATE_PAGE (pi_names info) in
  Ok (set_special info (pageType =? BRINPageTypeMeta) (pi_leaf info) (pi_root info) (pi_deleted info)
        flags names (pi_level info) (pi_prev info) (pi_next info) (pi_right info) (pi_items info)).

(* index.go:232-292 *)
Definition detectIndexType (page : gslice) : res Z :=
  if len page <? PageSize then Ok IndexTypeUnknown else
  special <- rd16 page 16 18 ;;
  if (special =? 0) || (special >=? PageSize) then Ok IndexTypeUnknown else
  let specialSize := PageSize - special in
  specialData <- slice_from page special ;;
  (* 247-261: trailer word *)
  early <- (if specialSize >=? 2 then
              pageID <- rdN_from 2 page (PageSize - 2) ;;
              if pageID =? HashoPageID then Ok (Some IndexTypeHash) else
              if pageID =? GISTPageID then Ok (Some IndexTypeGiST) else
              if pageID =? SPGISTPageID then Ok (Some IndexTypeSPGiST) else
              if (specialSize =? 8) && (pageID >=? BRINPageTypeMeta) && (pageID <=? BRINPageTypeRegular)
              then Ok (Some IndexTypeBRIN) else Ok None
            else Ok None) ;;
  match early with Some t => Ok t | None =>
  (* 264-280: B-tree *)
  bt <- (if specialSize >=? 16 then
           cycleID <- rd16 specialData 14 16 ;;
           flags <- rd16 specialData 12 14 ;;
           if cycleID <=? BTMaxCycleID then
             if has flags BTPMeta then
               magic <- rdN_from 4 page headerSize ;;
               if magic =? BTMetaMagic then Ok true else Ok false
             else Ok true
           else Ok false
         else Ok false) ;;
  if (bt : bool) then Ok IndexTypeBTree else
  (* 283-289: GIN *)
  if specialSize >=? 8 then
    flags <- rd16 specialData 6 8 ;;
    if has flags GINMeta || has flags GINData || has flags GINList then Ok IndexTypeGIN else Ok IndexTypeUnknown
  else Ok IndexTypeUnknown
  end.

(* index.go:295-339 *)
Definition parseIndexPage (page : gslice) (pageNum : Z) (indexType : Z) : res pinfo :=
  let info0 := {| pi_num := pageNum; pi_type := indexType; pi_tstr := IndexType_String indexType;
                  pi_meta := false; pi_leaf := false; pi_root := false; pi_deleted := false;
                  pi_flags := 0; pi_names := [];
                  pi_level := 0; pi_prev := 0; pi_next := 0; pi_right := 0;
                  pi_items := 0; pi_free := 0; pi_lsn := 0; pi_lsnstr := [] |} in
  if len page <? PageSize then Ok info0 else
  hi <- rd32 page 0 4 ;;
  lo <- rd32 page 4 8 ;;
  let lsn := hi * 4294967296 + lo in      (* uint64(hi)<<32 | uint64(lo): disjoint *)
  lower <- rd16 page 12 14 ;;
  upper <- rd16 page 14 16 ;;
  special <- rd16 page 16 18 ;;
  let info := {| pi_num := pageNum; pi_type := indexType; pi_tstr := IndexType_String indexType;
                 pi_meta := false; pi_leaf := false; pi_root := false; pi_deleted := false;
                 pi_flags := 0; pi_names := [];
                 pi_level := 0; pi_prev := 0; pi_next := 0; pi_right := 0;
                 pi_items := Z.quot (lower - headerSize) itemIDSize;   (* Go's / truncates *)
                 pi_free := upper - lower; pi_lsn := lsn; pi_lsnstr := FormatLSN lsn |} in
  if special <? PageSize then
    specialData <- slice_from page special ;;
    if indexType =? IndexTypeBTree then parseBTreePageSpecial info specialData else
    if indexType =? IndexTypeHash then parseHashPageSpecial info specialData else
    if indexType =? IndexTypeGiST then parseGiSTPageSpecial info specialData else
    if indexType =? IndexTypeGIN then parseGINPageSpecial info specialData else
    if indexType =? IndexTypeSPGiST then parseSPGiSTPageSpecial info specialData else
    if indexType =? IndexTypeBRIN then parseBRINPageSpecial info specialData else Ok info
  else Ok info.

(* index.go:512-544 *)
Definition parseBTreeMeta (page : gslice) : res (option btmeta) :=
  if len page <? PageSize then Ok None else
  special <- rd16 page 16 18 ;;
  if special >? PageSize - 16 then Ok None else
  flags <- rd16 page (special + 12) (special + 14) ;;
  if negb (has flags BTPMeta) then Ok None else
  data <- slice_from page headerSize ;;
  magic <- rd32 data 0 4 ;;
  if negb (magic =? BTMetaMagic) then Ok None else
  version <- rd32 data 4 8 ;;
  root <- rd32 data 8 12 ;;
  level <- rd32 data 12 16 ;;
  fastroot <- rd32 data 16 20 ;;
  fastlevel <- rd32 data 20 24 ;;
  Ok (Some {| bm_magic := magic; bm_version := version; bm_root := root; bm_level := level;
              bm_fastroot := fastroot; bm_fastlevel := fastlevel |}).

(* index.go:547-578 *)
Definition parseHashMeta (page : gslice) : res (option hashmeta) :=
  if len page <? PageSize then Ok None else
  special <- rd16 page 16 18 ;;
  if special >? PageSize - 16 then Ok None else
  flags <- rd16 page (special + 12) (special + 14) ;;
  if negb (has flags LHMeta) then Ok None else
  data <- slice_from page headerSize ;;
  maxBucket <- rd32 data 24 28 ;;
  magic <- rd32 data 0 4 ;;
  version <- rd32 data 4 8 ;;
  highmask <- rd32 data 28 32 ;;
  lowmask <- rd32 data 32 36 ;;
  ffactor <- rd16 data 16 18 ;;
  ntuples <- rd64 data 8 16 ;;
  Ok (Some {| hm_magic := magic; hm_version := version; hm_nbuckets := (maxBucket + 1) mod 4294967296;
              hm_maxbucket := maxBucket; hm_highmask := highmask; hm_lowmask := lowmask;
              hm_ffactor := ffactor; hm_ntuples_bits := ntuples |}).

(* index.go:581-620 *)
Definition parseGINMeta (page : gslice) : res (option ginmeta) :=
  if len page <? PageSize then Ok None else
  special <- rd16 page 16 18 ;;
  if special >=? PageSize then Ok None else
  specialData <- slice_from page special ;;
  if len specialData <? 8 then Ok None else
  flags <- rd16 specialData 6 8 ;;
  if negb (has flags GINMeta) then Ok None else
  data <- slice_from page headerSize ;;
  version <- rd32 data 48 52 ;;
  head <- rd32 data 0 4 ;;
  tail_ <- rd32 data 4 8 ;;
  tailfree <- rd32 data 8 12 ;;
  npp <- rd32 data 12 16 ;;
  npt <- rd64 data 16 24 ;;
  ntotal <- rd32 data 24 28 ;;
  nentry <- rd32 data 28 32 ;;
  ndata <- rd32 data 32 36 ;;
  nentries <- rd64 data 40 48 ;;
  Ok (Some {| gm_version := version; gm_head := head; gm_tail := tail_; gm_tailfree := tailfree;
              gm_npendpages := npp; gm_npendtuples := npt; gm_ntotal := ntotal; gm_nentry := nentry;
              gm_ndata := ndata; gm_nentries := nentries |}).

(* index.go:220-226  for i := 0; i < info.TotalPages; i++ { page := data[off:off+PageSize]; ... uint32(i) } *)
Fixpoint parse_pages (n : nat) (data : gslice) (i : Z) (ty : Z) : res (list pinfo) :=
  match n with
  | O => Ok []
  | S k =>
      page <- slice data (i * PageSize) (i * PageSize + PageSize) ;;
      pi <- parseIndexPage page (i mod 4294967296) ty ;;
      r <- parse_pages k data (i + 1) ty ;;
      Ok (pi :: r)
  end.

(* index.go:188-229; None = the "index file too small" error *)
Definition ParseIndexFile (data : gslice) : res (option iinfo) :=
  if len data <? PageSize then Ok None else
  let total := len data / PageSize in
  p0 <- slice data 0 PageSize ;;
  ty <- detectIndexType p0 ;;
  mrl <- (if ty =? IndexTypeBTree then
            p <- slice data 0 PageSize ;; m <- parseBTreeMeta p ;;
            Ok (match m with Some bm => (MBT bm, bm_root bm, bm_level bm) | None => (MNone, 0, 0) end)
          else if ty =? IndexTypeHash then
            p <- slice data 0 PageSize ;; m <- parseHashMeta p ;;
            Ok (match m with Some hm => (MHash hm, 0, 0) | None => (MNone, 0, 0) end)
          else if ty =? IndexTypeGIN then
            p <- slice data 0 PageSize ;; m <- parseGINMeta p ;;
            Ok (match m with Some gm => (MGin gm, 0, 0) | None => (MNone, 0, 0) end)
          else Ok (MNone, 0, 0)) ;;
  pages <- parse_pages (Z.to_nat total) data 0 ty ;;
  Ok (Some {| ii_type := ty; ii_tstr := IndexType_String ty; ii_total := total;
              ii_meta := fst (fst mrl); ii_levels := snd mrl; ii_root := snd (fst mrl); ii_pages := pages |}).
