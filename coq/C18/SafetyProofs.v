(* C18/SafetyProofs.v — no Go index or slice expression of pgdump/index.go (as repaired) can panic:
   for EVERY slice (any visible bytes, any capacity tail) the model never returns [Panic]. *)
Require Import PG.Base.Bytes PG.Base.GoSlice PG.C18.Types PG.C18.Model PG.C18.Lib.

Lemma rd16_ex s lo hi : 0 <= lo -> hi = lo + 2 -> hi <= len s -> exists v, rd16 s lo hi = Ok v /\ 0 <= v < 65536.
Proof.
  intros. unfold rd16. rewrite rdN_ok by (auto; lia). eexists; split; [reflexivity|].
  pose proof (rdN_range 2 s lo hi _ (rdN_ok 2 s lo hi ltac:(lia) ltac:(lia) ltac:(lia))) as R. exact R.
Qed.
Lemma rd32_ex s lo hi : 0 <= lo -> hi = lo + 4 -> hi <= len s -> exists v, rd32 s lo hi = Ok v /\ 0 <= v < 4294967296.
Proof.
  intros. unfold rd32. rewrite rdN_ok by (auto; lia). eexists; split; [reflexivity|].
  pose proof (rdN_range 4 s lo hi _ (rdN_ok 4 s lo hi ltac:(lia) ltac:(lia) ltac:(lia))) as R. exact R.
Qed.
Lemma rd64_ex s lo hi : 0 <= lo -> hi = lo + 8 -> hi <= len s -> exists v, rd64 s lo hi = Ok v /\ 0 <= v < 18446744073709551616.
Proof.
  intros. unfold rd64. rewrite rdN_ok by (auto; lia). eexists; split; [reflexivity|].
  pose proof (rdN_range 8 s lo hi _ (rdN_ok 8 s lo hi ltac:(lia) ltac:(lia) ltac:(lia))) as R. exact R.
Qed.
Lemma rdf_ex n s lo : 0 <= lo -> lo + Z.of_nat n <= len s -> exists v, rdN_from n s lo = Ok v.
Proof. intros. rewrite rdN_from_ok by lia. eauto. Qed.

Ltac step :=
  cbn [bind];
  match goal with
  | |- Ok _ <> Panic => discriminate
  | |- context [bind (rd16 ?s ?lo ?hi) _] =>
      let v := fresh "v" in let E := fresh "E" in let R := fresh "R" in
      destruct (rd16_ex s lo hi) as (v & E & R); [lia | lia | lia | rewrite E; clear E]
  | |- context [bind (rd32 ?s ?lo ?hi) _] =>
      let v := fresh "v" in let E := fresh "E" in let R := fresh "R" in
      destruct (rd32_ex s lo hi) as (v & E & R); [lia | lia | lia | rewrite E; clear E]
  | |- context [bind (rd64 ?s ?lo ?hi) _] =>
      let v := fresh "v" in let E := fresh "E" in let R := fresh "R" in
      destruct (rd64_ex s lo hi) as (v & E & R); [lia | lia | lia | rewrite E; clear E]
  | |- context [bind (rdN_from ?n ?s ?lo) _] =>
      let v := fresh "v" in let E := fresh "E" in
      destruct (rdf_ex n s lo) as (v & E); [lia | lia | rewrite E; clear E]
  | |- context [bind (slice_from ?s ?lo) _] =>
      let sd := fresh "sd" in let L := fresh "Lsd" in
      rewrite (slice_from_ok s lo) by lia; cbn [bind];
      pose proof (len_sub_from s lo (tail s) ltac:(lia)) as L;
      set (sd := {| vis := sub (vis s) lo (len s); tail := tail s |}) in *
  | |- context [if ?c then _ else _] => destruct c eqn:?
  end.

Lemma bt_special_np info sp : parseBTreePageSpecial info sp <> Panic.
Proof. unfold parseBTreePageSpecial. repeat step. Qed.
Lemma hash_special_np info sp : parseHashPageSpecial info sp <> Panic.
Proof. unfold parseHashPageSpecial. repeat step. Qed.
Lemma gist_special_np info sp : parseGiSTPageSpecial info sp <> Panic.
Proof. unfold parseGiSTPageSpecial. repeat step. Qed.
Lemma gin_special_np info sp : parseGINPageSpecial info sp <> Panic.
Proof. unfold parseGINPageSpecial. repeat step. Qed.
Lemma spgist_special_np info sp : parseSPGiSTPageSpecial info sp <> Panic.
Proof. unfold parseSPGiSTPageSpecial. repeat step. Qed.
Lemma brin_special_np info sp : parseBRINPageSpecial info sp <> Panic.
Proof. unfold parseBRINPageSpecial. repeat step. Qed.

Lemma detect_np page : detectIndexType page <> Panic.
Proof. unfold detectIndexType, PageSize, headerSize. repeat step. Qed.

Lemma page_np page num ty : parseIndexPage page num ty <> Panic.
Proof.
  unfold parseIndexPage, PageSize.
  repeat step;
    first [ apply bt_special_np | apply hash_special_np | apply gist_special_np
          | apply gin_special_np | apply spgist_special_np | apply brin_special_np ].
Qed.

Lemma btmeta_np page : parseBTreeMeta page <> Panic.
Proof. unfold parseBTreeMeta, PageSize, headerSize. repeat step. Qed.
Lemma hashmeta_np page : parseHashMeta page <> Panic.
Proof. unfold parseHashMeta, PageSize, headerSize. repeat step. Qed.
Lemma ginmeta_np page : parseGINMeta page <> Panic.
Proof. unfold parseGINMeta, PageSize, headerSize. repeat step. Qed.

Lemma parse_pages_np : forall n data i ty,
  0 <= i -> (i + Z.of_nat n) * 8192 <= len data -> parse_pages n data i ty <> Panic.
Proof.
  induction n as [|n IH]; intros data i ty Hi Hlen; cbn [parse_pages]; [discriminate|].
  unfold PageSize. pose proof (len_le_cap data) as Hc.
  destruct (slice_ok data (i * 8192) (i * 8192 + 8192)) as [pg ->]; [lia | lia | lia |]. cbn [bind].
  pose proof (page_np pg (i mod 4294967296) ty) as NP.
  destruct (parseIndexPage pg (i mod 4294967296) ty) as [pinf|]; [|congruence]. cbn [bind].
  specialize (IH data (i + 1) ty ltac:(lia) ltac:(lia)).
  destruct (parse_pages n data (i + 1) ty); [discriminate|congruence].
Qed.

Theorem file_np data : ParseIndexFile data <> Panic.
Proof.
  unfold ParseIndexFile, PageSize.
  destruct (len data <? 8192) eqn:E; [discriminate|].
  pose proof (len_le_cap data) as Hc.
  destruct (slice_ok data 0 8192) as [p0 Hp0]; [lia | lia | lia |]. rewrite Hp0. cbn [bind].
  pose proof (detect_np p0) as ND. destruct (detectIndexType p0) as [ty|]; [|congruence]. cbn [bind].
  assert (NM : forall (k : imeta * Z * Z -> res (option iinfo)),
             (forall x, k x <> Panic) ->
             bind (if ty =? IndexTypeBTree then
                     p <- Ok p0 ;; m <- parseBTreeMeta p ;;
                     Ok (match m with Some bm => (MBT bm, bm_root bm, bm_level bm) | None => (MNone, 0, 0) end)
                   else if ty =? IndexTypeHash then
                     p <- Ok p0 ;; m <- parseHashMeta p ;;
                     Ok (match m with Some hm => (MHash hm, 0, 0) | None => (MNone, 0, 0) end)
                   else if ty =? IndexTypeGIN then
                     p <- Ok p0 ;; m <- parseGINMeta p ;;
                     Ok (match m with Some gm => (MGin gm, 0, 0) | None => (MNone, 0, 0) end)
                   else Ok (MNone, 0, 0)) k <> Panic).
  { intros k Hk. cbn [bind].
    destruct (ty =? IndexTypeBTree).
    { pose proof (btmeta_np p0). destruct (parseBTreeMeta p0); [apply Hk|congruence]. }
    destruct (ty =? IndexTypeHash).
    { pose proof (hashmeta_np p0). destruct (parseHashMeta p0); [apply Hk|congruence]. }
    destruct (ty =? IndexTypeGIN).
    { pose proof (ginmeta_np p0). destruct (parseGINMeta p0); [apply Hk|congruence]. }
    apply Hk. }
  apply NM. intros mrl.
  pose proof (parse_pages_np (Z.to_nat (len data / 8192)) data 0 ty ltac:(lia)) as NPg.
  destruct (parse_pages (Z.to_nat (len data / 8192)) data 0 ty); [discriminate|].
  exfalso. apply NPg; [|reflexivity].
  pose proof (len_nonneg data). rewrite Z2Nat.id by lia. lia.
Qed.
