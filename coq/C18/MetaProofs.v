(* C18/MetaProofs.v — parseBTreeMeta / parseHashMeta / parseGINMeta on pages of their own method. *)
Require Import PG.Base.Bytes PG.Base.GoSlice PG.C18.Types PG.C18.Model PG.C18.Spec PG.C18.Lib
  PG.C18.SpecialProofs PG.C18.PageProofs.

Lemma page_data_bytes p : wf_page p ->
  sub (enc_page p) 24 8192 = enc_body (ip_body p) ++ enc_opaque (ip_op p).
Proof.
  intros W. pose proof (wf_body_len p W) as Hb. pose proof (special_cases p) as Hs.
  assert (Ho : blen (enc_opaque (ip_op p)) = 8192 - special_of p) by (rewrite enc_opaque_len; unfold special_of; lia).
  unfold enc_page. rewrite sub_app_r by (bl; lia). apply sub_exact; bl; lia.
Qed.

Definition meta_bt (mt : imeta) : option btmeta := match mt with MBT m => Some m | _ => None end.
Definition meta_hash (mt : imeta) : option hashmeta := match mt with MHash m => Some m | _ => None end.
Definition meta_gin (mt : imeta) : option ginmeta := match mt with MGin m => Some m | _ => None end.

Ltac rdd L lo hi v :=
  rewrite (L _ lo hi v);
  [ cbn [bind] | lia | lia | (rewrite len_mk; bl; cbn [opaque_size am_of]; lia)
  | (cbn [vis]; unfold enc_btmeta, enc_hashmeta, enc_ginmeta; ssub) | (u_is; lia) ].

Ltac meta_prelude W p t L Hop Wo Mc Hb Hd :=
  pose proof (enc_page_len p W) as L;
  pose proof (page_special_bytes p W) as Hop; pose proof (wf_page_opaque p W) as Wo;
  pose proof (wf_meta_consistent p W) as Mc; pose proof (wf_body_len p W) as Hb;
  pose proof (page_data_bytes p W) as Hd.

Lemma btmeta_ok p t :
  wf_page p -> am_of (ip_op p) = BTree ->
  parseBTreeMeta {| vis := enc_page p; tail := t |} = Ok (meta_bt (expected_meta p)).
Proof.
  intros W A. meta_prelude W p t L Hop Wo Mc Hb Hd.
  assert (Wb : wf_body (ip_body p)) by (destruct W as (_&_&_&_&_&_&_&_&_&Wb&_); exact Wb).
  destruct W as (Hx&Hr&Hc&Hf&Hl&Hu&Hv&Hpr&_).
  destruct (ip_op p) as [prev next level flags cyc | | | | | ] eqn:Eo; try discriminate. clear A.
  assert (Hsp : special_of p = 8176) by (unfold special_of; rewrite Eo; reflexivity). rewrite Hsp in *.
  cbn [wf_opaque] in Wo. destruct Wo as (?&?&?&?&?).
  unfold parseBTreeMeta. rewrite len_mk, L. unfold PageSize, headerSize. cbn [Z.ltb Z.compare Pos.compare Pos.compare_cont].
  rdh rd16_val 16 18 (special_of p). rewrite Hsp.
  change (8176 >? 8192 - 16) with false. cbn iota.
  rewrite (rd16_val _ (8176 + 12) (8176 + 14) flags);
    [cbn [bind] | lia | lia | rewrite len_mk; lia | cbn [vis]; trailer_from Hop 8176 12 14 | u_is; lia].
  unfold BTPMeta. rewrite has_8. unfold expected_meta. rewrite Eo. unfold bit in *.
  cbn [meta_consistent] in Mc. unfold bit in Mc.
  destruct (Z.testbit flags 3) eqn:B3; cbn [negb].
  2:{ destruct (ip_body p); reflexivity. }
  destruct (ip_body p) as [bs | m rest | m rest | m rest] eqn:Eb; try congruence.
  specialize (Mc eq_refl). cbn [wf_body] in Wb. destruct Wb as (?&?&?&?&?&?).
  rewrite slice_from_ok by (rewrite len_mk; lia). cbn [bind]. rewrite len_mk, L. cbn [vis]. rewrite Hd. cbn [enc_body].
  pose proof (blen_nonneg rest).
  rdd rd32_val 0 4 (btm_magic m). rewrite Mc. unfold BTREE_MAGIC, BTMetaMagic. cbn [Z.eqb Pos.eqb negb].
  rdd rd32_val 4 8 (btm_version m). rdd rd32_val 8 12 (btm_root m). rdd rd32_val 12 16 (btm_level m).
  rdd rd32_val 16 20 (btm_fastroot m). rdd rd32_val 20 24 (btm_fastlevel m).
  cbn [meta_bt]. unfold expected_btmeta. rewrite Mc. reflexivity.
Qed.

Lemma hashmeta_ok p t :
  wf_page p -> am_of (ip_op p) = Hash ->
  parseHashMeta {| vis := enc_page p; tail := t |} = Ok (meta_hash (expected_meta p)).
Proof.
  intros W A. meta_prelude W p t L Hop Wo Mc Hb Hd.
  assert (Wb : wf_body (ip_body p)) by (destruct W as (_&_&_&_&_&_&_&_&_&Wb&_); exact Wb).
  destruct W as (Hx&Hr&Hc&Hf&Hl&Hu&Hv&Hpr&_).
  destruct (ip_op p) as [ | prev next bucket flags | | | | ] eqn:Eo; try discriminate. clear A.
  assert (Hsp : special_of p = 8176) by (unfold special_of; rewrite Eo; reflexivity). rewrite Hsp in *.
  cbn [wf_opaque] in Wo. destruct Wo as (?&?&?&?).
  unfold parseHashMeta. rewrite len_mk, L. unfold PageSize, headerSize. cbn [Z.ltb Z.compare Pos.compare Pos.compare_cont].
  rdh rd16_val 16 18 (special_of p). rewrite Hsp.
  change (8176 >? 8192 - 16) with false. cbn iota.
  rewrite (rd16_val _ (8176 + 12) (8176 + 14) flags);
    [cbn [bind] | lia | lia | rewrite len_mk; lia | cbn [vis]; trailer_from Hop 8176 12 14 | u_is; lia].
  unfold LHMeta. rewrite has_8. unfold expected_meta. rewrite Eo. unfold bit in *.
  cbn [meta_consistent] in Mc. unfold bit in Mc.
  destruct (Z.testbit flags 3) eqn:B3; cbn [negb].
  2:{ destruct (ip_body p); reflexivity. }
  destruct (ip_body p) as [bs | m rest | m rest | m rest] eqn:Eb; try congruence.
  cbn [wf_body] in Wb. destruct Wb as (?&?&?&?&?&?&?&?&?&?).
  rewrite slice_from_ok by (rewrite len_mk; lia). cbn [bind]. rewrite len_mk, L. cbn [vis]. rewrite Hd. cbn [enc_body].
  pose proof (blen_nonneg rest).
  rdd rd32_val 24 28 (hashm_maxbucket m). rdd rd32_val 0 4 (hashm_magic m). rdd rd32_val 4 8 (hashm_version m).
  rdd rd32_val 28 32 (hashm_highmask m). rdd rd32_val 32 36 (hashm_lowmask m).
  rdd rd16_val 16 18 (hashm_ffactor m). rdd rd64_val 8 16 (hashm_ntuples m).
  reflexivity.
Qed.

Lemma ginmeta_ok p t :
  wf_page p -> am_of (ip_op p) = GIN ->
  parseGINMeta {| vis := enc_page p; tail := t |} = Ok (meta_gin (expected_meta p)).
Proof.
  intros W A. meta_prelude W p t L Hop Wo Mc Hb Hd.
  assert (Wb : wf_body (ip_body p)) by (destruct W as (_&_&_&_&_&_&_&_&_&Wb&_); exact Wb).
  destruct W as (Hx&Hr&Hc&Hf&Hl&Hu&Hv&Hpr&_).
  destruct (ip_op p) as [ | | | rl maxoff flags | | ] eqn:Eo; try discriminate. clear A.
  assert (Hsp : special_of p = 8184) by (unfold special_of; rewrite Eo; reflexivity). rewrite Hsp in *.
  cbn [wf_opaque] in Wo. destruct Wo as (?&?&?).
  unfold parseGINMeta. rewrite len_mk, L. unfold PageSize, headerSize. cbn [Z.ltb Z.compare Pos.compare Pos.compare_cont].
  rdh rd16_val 16 18 (special_of p). rewrite Hsp.
  change (8184 >=? 8192) with false. cbn iota.
  rewrite slice_from_ok by (rewrite len_mk; lia). cbn [bind]. rewrite !len_mk. cbn [vis]. rewrite L, Hop.
  rewrite enc_opaque_len. cbn [opaque_size am_of]. change (8 <? 8) with false. cbn iota.
  rdo rd16_val 6 8 flags.
  unfold GINMeta. rewrite has_8. unfold expected_meta. rewrite Eo. unfold bit in *.
  cbn [meta_consistent] in Mc. unfold bit in Mc.
  destruct (Z.testbit flags 3) eqn:B3; cbn [negb].
  2:{ destruct (ip_body p); reflexivity. }
  destruct (ip_body p) as [bs | m rest | m rest | m rest] eqn:Eb; try congruence.
  cbn [wf_body] in Wb. destruct Wb as (?&?&?&?&?&?&?&?&?&?&?).
  rewrite slice_from_ok by (rewrite len_mk; lia). cbn [bind]. rewrite len_mk, L. cbn [vis]. rewrite Hd. cbn [enc_body].
  pose proof (blen_nonneg rest).
  rdd rd32_val 48 52 (ginm_version m). rdd rd32_val 0 4 (ginm_head m). rdd rd32_val 4 8 (ginm_tail m).
  rdd rd32_val 8 12 (ginm_tailfree m). rdd rd32_val 12 16 (ginm_npendpages m). rdd rd64_val 16 24 (ginm_npendtuples m).
  rdd rd32_val 24 28 (ginm_ntotal m). rdd rd32_val 28 32 (ginm_nentry m). rdd rd32_val 32 36 (ginm_ndata m).
  rdd rd64_val 40 48 (ginm_nentries m).
  reflexivity.
Qed.
