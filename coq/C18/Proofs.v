Require Import PG.Base.Bytes PG.Base.GoSlice PG.C18.Types PG.C18.Model PG.C18.Spec.

Lemma type_string_ok m : IndexType_String (am_code m) = am_name m.
Proof. destruct m; reflexivity. Qed.
