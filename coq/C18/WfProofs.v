(* C18/WfProofs.v — the boolean well-formedness checkers used by the case generator imply the
   propositional ones the theorems assume. *)
Require Import PG.Base.Bytes PG.Base.GoSlice PG.C18.Types PG.C18.Spec.

Ltac ub := unfold u16b, u32b, u64b, is_u16, is_u32, is_u64, MAX_BT_CYCLE_ID, BRIN_PAGETYPE_META, BRIN_PAGETYPE_REGULAR in *.

Lemma wf_opaque_b_ok o : wf_opaque_b o = true -> wf_opaque o.
Proof. destruct o; cbn [wf_opaque_b wf_opaque]; ub; intros H; repeat split; lia. Qed.

Lemma wf_body_b_ok b : wf_body_b b = true -> wf_body b.
Proof.
  destruct b; cbn [wf_body_b wf_body]; auto; unfold wf_btmeta, wf_hashmeta, wf_ginmeta; ub; intros H; repeat split; lia.
Qed.

Lemma meta_consistent_b_ok o b : meta_consistent_b o b = true -> meta_consistent o b.
Proof.
  destruct o, b; cbn [meta_consistent_b meta_consistent]; auto; unfold bit;
    try (destruct (Z.testbit _ 3); cbn [negb orb]; intros H; try reflexivity; try discriminate; try (intros _; lia)).
Qed.

Lemma wf_page_b_ok p : wf_page_b p = true -> wf_page p.
Proof.
  unfold wf_page_b, wf_page. intros H.
  repeat match type of H with (_ && _) = true => apply andb_prop in H; let H2 := fresh "H" in destruct H as [H H2] end.
  repeat split; ub; try lia; auto using wf_opaque_b_ok, wf_body_b_ok, meta_consistent_b_ok.
Qed.

Lemma first_ok_b_ok p : first_ok_b p = true -> first_ok p.
Proof. unfold first_ok_b, first_ok. destruct (ip_op p); auto. Qed.

Lemma am_eqb_ok a b : am_eqb a b = true -> a = b.
Proof. destruct a, b; cbn; intros; try reflexivity; discriminate. Qed.

Lemma wf_file_b_ok f : wf_file_b f = true -> wf_file f.
Proof.
  unfold wf_file_b, wf_file. destruct (f_pages f) as [|p0 r]; [discriminate|].
  intros H. apply andb_prop in H. destruct H as [H H3]. apply andb_prop in H. destruct H as [H1 H2].
  split; [apply first_ok_b_ok; exact H1|]. split; [|lia].
  rewrite forallb_forall in H2. apply Forall_forall. intros p Hp. specialize (H2 p Hp).
  apply andb_prop in H2. destruct H2 as [A B]. split; [apply wf_page_b_ok; exact A | apply am_eqb_ok; exact B].
Qed.
