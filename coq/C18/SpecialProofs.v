(* C18/SpecialProofs.v — the six special-space parsers against the opaque structures of Spec.v,
   and the positional facts about [enc_page]. *)
Require Import PG.Base.Bytes PG.Base.GoSlice PG.C18.Types PG.C18.Model PG.C18.Spec PG.C18.Lib.

(* ---------- specialised read lemmas (explicit bounds, no [Z.of_nat]) ---------- *)
Lemma rd16_val s lo hi v : 0 <= lo -> hi = lo + 2 -> hi <= len s ->
  sub (vis s) lo hi = le_enc 2 v -> 0 <= v < 65536 -> rd16 s lo hi = Ok v.
Proof. intros. apply rdN_val; auto; lia. Qed.
Lemma rd32_val s lo hi v : 0 <= lo -> hi = lo + 4 -> hi <= len s ->
  sub (vis s) lo hi = le_enc 4 v -> 0 <= v < 4294967296 -> rd32 s lo hi = Ok v.
Proof. intros. apply rdN_val; auto; lia. Qed.
Lemma rd64_val s lo hi v : 0 <= lo -> hi = lo + 8 -> hi <= len s ->
  sub (vis s) lo hi = le_enc 8 v -> 0 <= v < 18446744073709551616 -> rd64 s lo hi = Ok v.
Proof. intros. apply rdN_val; auto; lia. Qed.
Lemma rdf16_val s lo v : 0 <= lo -> lo + 2 <= len s ->
  sub (vis s) lo (lo + 2) = le_enc 2 v -> 0 <= v < 65536 -> rdN_from 2 s lo = Ok v.
Proof. intros. apply rdN_from_val; auto; lia. Qed.
Lemma rdf32_val s lo v : 0 <= lo -> lo + 4 <= len s ->
  sub (vis s) lo (lo + 4) = le_enc 4 v -> 0 <= v < 4294967296 -> rdN_from 4 s lo = Ok v.
Proof. intros. apply rdN_from_val; auto; lia. Qed.

(* ---------- lengths ---------- *)
Lemma enc_opaque_len o : blen (enc_opaque o) = opaque_size o.
Proof. destruct o; unfold enc_opaque, opaque_size; cbn [am_of]; bl; lia. Qed.
Lemma enc_hdr_len p : blen (enc_hdr p) = 24.
Proof. unfold enc_hdr. bl. lia. Qed.
Lemma enc_btmeta_len m : blen (enc_btmeta m) = 24. Proof. unfold enc_btmeta. bl. lia. Qed.
Lemma enc_hashmeta_len m : blen (enc_hashmeta m) = 36. Proof. unfold enc_hashmeta. bl. lia. Qed.
Lemma enc_ginmeta_len m : blen (enc_ginmeta m) = 52. Proof. unfold enc_ginmeta. bl. lia. Qed.
#[export] Hint Rewrite enc_opaque_len enc_hdr_len enc_btmeta_len enc_hashmeta_len enc_ginmeta_len : blen.

Lemma opaque_size_cases o : opaque_size o = 16 \/ opaque_size o = 8.
Proof. destruct o; cbn; auto. Qed.

Lemma enc_page_len p : wf_page p -> blen (enc_page p) = 8192.
Proof.
  intros (_&_&_&_&_&_&_&_&_&_&Hb&_). unfold enc_page. bl. rewrite Hb. unfold special_of. lia.
Qed.

Ltac u_is := unfold is_u16, is_u32, is_u64 in *.

(* reading the opaque structure when it is exactly the visible part of the slice *)
Ltac rdo L lo hi v :=
  rewrite (L _ lo hi v);
  [ cbn [bind] | lia | lia | (unfold len; cbn [vis enc_opaque]; bl; lia) | (cbn [vis enc_opaque]; ssub) | (u_is; lia) ].

Ltac bits_names :=
  unfold flag_names, named_bits, bit, add_if; cbn [filter map fst snd];
  repeat match goal with |- context [Z.testbit ?f ?k] => destruct (Z.testbit f k) end;
  cbn [filter map fst snd app]; rewrite <- ?app_assoc; cbn [app]; rewrite ?app_nil_r; reflexivity.

Definition special_result (info : pinfo) (o : opaque) : pinfo :=
  let e := expected_page 0 {| ip_xlogid := 0; ip_xrecoff := 0; ip_checksum := 0; ip_hflags := 0; ip_lower := 24;
                              ip_upper := 24; ip_psv := 0; ip_prune := 0; ip_body := BRaw []; ip_op := o |} in
  match o with
  | OpBT _ _ _ _ _ =>
      set_special info (pi_meta e) (pi_leaf e) (pi_root e) (pi_deleted e) (pi_flags e) (pi_names info ++ pi_names e)
                  (pi_level e) (pi_prev e) (pi_next e) (pi_right info) (pi_items info)
  | OpHash _ _ b f =>
      set_special info (pi_meta e) (pi_leaf info) (pi_root info) (pi_deleted info) (pi_flags e) (pi_names info ++ pi_names e)
                  (if bit f 1 then b else pi_level info) (pi_prev e) (pi_next e) (pi_right info) (pi_items info)
  | OpGiST _ _ _ _ =>
      set_special info (pi_meta info) (pi_leaf e) (pi_root info) (pi_deleted e) (pi_flags e) (pi_names info ++ pi_names e)
                  (pi_level info) (pi_prev info) (pi_next info) (pi_right e) (pi_items info)
  | OpGIN _ _ _ =>
      set_special info (pi_meta e) (pi_leaf e) (pi_root info) (pi_deleted e) (pi_flags e) (pi_names info ++ pi_names e)
                  (pi_level info) (pi_prev info) (pi_next info) (pi_right e) (pi_items e)
  | OpSPG _ _ _ =>
      set_special info (pi_meta e) (pi_leaf e) (pi_root info) (pi_deleted e) (pi_flags e) (pi_names info ++ pi_names e)
                  (pi_level info) (pi_prev info) (pi_next info) (pi_right info) (pi_items info)
  | OpBRIN _ _ _ _ =>
      set_special info (pi_meta e) (pi_leaf info) (pi_root info) (pi_deleted info) (pi_flags e) (pi_names info ++ pi_names e)
                  (pi_level info) (pi_prev info) (pi_next info) (pi_right info) (pi_items info)
  end.

Definition special_parser (m : am) : pinfo -> gslice -> res pinfo :=
  match m with
  | BTree => parseBTreePageSpecial | Hash => parseHashPageSpecial | GiST => parseGiSTPageSpecial
  | GIN => parseGINPageSpecial | SPGiST => parseSPGiSTPageSpecial | BRIN => parseBRINPageSpecial
  end.

Lemma set_special_eq info a b c d e f g h i j k a' b' c' d' e' f' g' h' i' j' k' :
  a = a' -> b = b' -> c = c' -> d = d' -> e = e' -> f = f' -> g = g' -> h = h' -> i = i' -> j = j' -> k = k' ->
  set_special info a b c d e f g h i j k = set_special info a' b' c' d' e' f' g' h' i' j' k'.
Proof. intros; subst; reflexivity. Qed.

(* Every special-space parser, on a slice whose visible bytes are exactly the method's opaque structure
   (any capacity tail), assigns exactly the stored fields; everything else in [info] is untouched. *)
Lemma special_ok o info t :
  wf_opaque o ->
  special_parser (am_of o) info {| vis := enc_opaque o; tail := t |} = Ok (special_result info o).
Proof.
  intros W. destruct o; cbn [am_of special_parser]; cbn [wf_opaque] in W.
  - (* B-tree *)
    destruct W as (?&?&?&?&?). unfold MAX_BT_CYCLE_ID in *.
    unfold parseBTreePageSpecial.
    replace (len _ <? 16) with false by (unfold len; cbn [vis enc_opaque]; bl; lia).
    rdo rd32_val 0 4 prev. rdo rd32_val 4 8 next. rdo rd32_val 8 12 level. rdo rd16_val 12 14 flags.
    unfold BTPHasGarbage, BTPHalfDead, BTPMeta, BTPDeleted, BTPRoot, BTPLeaf.
    rewrite !has_1, !has_2, !has_4, !has_8, !has_16, !has_64.
    f_equal. unfold special_result. cbn [expected_page ip_op am_of op_flags pi_meta pi_leaf pi_root pi_deleted pi_flags pi_names pi_level pi_prev pi_next].
    apply set_special_eq; try reflexivity. bits_names.
  - (* hash *)
    destruct W as (?&?&?&?).
    unfold parseHashPageSpecial.
    replace (len _ <? 16) with false by (unfold len; cbn [vis enc_opaque]; bl; lia).
    rdo rd32_val 0 4 prev. rdo rd32_val 4 8 next. rdo rd32_val 8 12 bucket. rdo rd16_val 12 14 flags.
    unfold LHMeta, LHBitmap, LHOverflow, LHBucket.
    rewrite !has_1, !has_2, !has_4, !has_8.
    f_equal. unfold special_result. cbn [expected_page ip_op am_of op_flags pi_meta pi_leaf pi_root pi_deleted pi_flags pi_names pi_level pi_prev pi_next].
    apply set_special_eq; try reflexivity. bits_names.
  - (* GiST *)
    destruct W as (?&?&?&?).
    unfold parseGiSTPageSpecial.
    replace (len _ <? 16) with false by (unfold len; cbn [vis enc_opaque]; bl; lia).
    rdo rd32_val 8 12 rightlink. rdo rd16_val 12 14 flags.
    unfold FFollowRight, FTuplesDeleted, FDeleted, FLeaf.
    rewrite !has_1, !has_2, !has_4, !has_8.
    f_equal. unfold special_result. cbn [expected_page ip_op am_of op_flags pi_meta pi_leaf pi_root pi_deleted pi_flags pi_names pi_level pi_prev pi_next pi_right].
    apply set_special_eq; try reflexivity. bits_names.
  - (* GIN *)
    destruct W as (?&?&?).
    unfold parseGINPageSpecial.
    replace (len _ <? 8) with false by (unfold len; cbn [vis enc_opaque]; bl; lia).
    rdo rd32_val 0 4 rightlink. rdo rd16_val 4 6 maxoff. rdo rd16_val 6 8 flags.
    unfold GINCompressed, GINList, GINMeta, GINDeleted, GINLeaf, GINData.
    rewrite !has_1, !has_2, !has_4, !has_8, !has_16, !has_128.
    f_equal. unfold special_result. cbn [expected_page ip_op am_of op_flags pi_meta pi_leaf pi_root pi_deleted pi_flags pi_names pi_level pi_prev pi_next pi_right pi_items].
    apply set_special_eq; try reflexivity. bits_names.
  - (* SP-GiST *)
    destruct W as (?&?&?).
    unfold parseSPGiSTPageSpecial.
    replace (len _ <? 6) with false by (unfold len; cbn [vis enc_opaque]; bl; lia).
    rdo rd16_val 0 2 flags.
    unfold SPGISTNulls, SPGISTDeleted, SPGISTLeaf, SPGISTMeta.
    rewrite !has_1, !has_2, !has_4, !has_8.
    f_equal. unfold special_result. cbn [expected_page ip_op am_of op_flags pi_meta pi_leaf pi_root pi_deleted pi_flags pi_names pi_level pi_prev pi_next pi_right pi_items].
    apply set_special_eq; try reflexivity. bits_names.
  - (* BRIN *)
    destruct W as (?&?&?&?). unfold BRIN_PAGETYPE_META, BRIN_PAGETYPE_REGULAR in *.
    unfold parseBRINPageSpecial.
    replace (len _ <? 8) with false by (unfold len; cbn [vis enc_opaque]; bl; lia).
    rdo rd16_val 4 6 flags. rdo rd16_val 6 8 ptype.
    unfold BRINEvacuatePage. rewrite !has_1.
    f_equal. unfold special_result. cbn [expected_page ip_op am_of op_flags pi_meta pi_leaf pi_root pi_deleted pi_flags pi_names pi_level pi_prev pi_next pi_right pi_items].
    apply set_special_eq; try reflexivity. bits_names.
Qed.
