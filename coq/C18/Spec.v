(* C18/Spec.v — specification, written from PostgreSQL 12–16's headers (little-endian x86-64, 8 KiB
   blocks), independently of pgdump/index.go:
     bufpage.h   PageHeaderData: pd_lsn {xlogid:u32, xrecoff:u32} @0, pd_checksum @8, pd_flags @10,
                 pd_lower @12, pd_upper @14, pd_special @16, pd_pagesize_version @18, pd_prune_xid @20;
                 line pointers (4 bytes each) from 24; PageGetContents = page + 24
     nbtree.h    BTPageOpaqueData {btpo_prev, btpo_next, btpo_level:u32; btpo_flags, btpo_cycleid:u16} (16),
                 MAX_BT_CYCLE_ID 0xFF7F, BTMetaPageData {magic 0x053162, version, root, level, fastroot, fastlevel, …}
     hash.h      HashPageOpaqueData {prevblkno, nextblkno, bucket:u32; flag, page_id = 0xFF80:u16} (16),
                 HashMetaPageData {magic, version:u32; ntuples:double; ffactor, bsize, bmsize, bmshift:u16;
                                   maxbucket, highmask, lowmask:u32; …}
     gist.h      GISTPageOpaqueData {nsn:PageXLogRecPtr(8); rightlink:u32; flags, gist_page_id = 0xFF81:u16} (16)
     ginblock.h  GinPageOpaqueData {rightlink:u32; maxoff, flags:u16} (8),
                 GinMetaPageData {head, tail, tailFreeSize, nPendingPages:u32; nPendingHeapTuples:int64;
                                  nTotalPages, nEntryPages, nDataPages:u32; (4 pad); nEntries:int64; ginVersion:int32}
     spgist_private.h SpGistPageOpaqueData {flags, nRedirection, nPlaceholder, spgist_page_id = 0xFF82:u16} (8)
     brin_page.h BrinSpecialSpace {uint16 vector[4]}: flags = vector[2], page type = vector[3] ∈ 0xF091..0xF093 (8)
   An abstract page is the header fields, a body (raw bytes, or a metapage structure followed by raw
   bytes) and the access method's opaque structure; [enc_page] is the reference writer; [expected_*]
   never looks at bytes. *)
Require Import PG.Base.Bytes PG.C18.Types.

Inductive am := BTree | Hash | GiST | GIN | SPGiST | BRIN.
Definition am_code (m : am) : Z :=
  match m with BTree => 1 | Hash => 2 | GiST => 3 | GIN => 4 | SPGiST => 5 | BRIN => 6 end.
Definition am_name (m : am) : bytes :=
  match m with BTree => StrLit.btree | Hash => StrLit.hash | GiST => StrLit.gist | GIN => StrLit.gin
             | SPGiST => StrLit.spgist | BRIN => StrLit.brin end.

Definition BTREE_MAGIC : Z := 340322.        (* 0x053162 *)
Definition MAX_BT_CYCLE_ID : Z := 65407.     (* 0xFF7F *)
Definition HASHO_PAGE_ID : Z := 65408.       (* 0xFF80 *)
Definition GIST_PAGE_ID : Z := 65409.        (* 0xFF81 *)
Definition SPGIST_PAGE_ID : Z := 65410.      (* 0xFF82 *)
Definition BRIN_PAGETYPE_META : Z := 61585.  (* 0xF091 *)
Definition BRIN_PAGETYPE_REGULAR : Z := 61587. (* 0xF093 *)

(* ---------- metapage structures (the part the property speaks about; what follows is raw) ---------- *)
Record bt_metadata := { btm_magic : Z; btm_version : Z; btm_root : Z; btm_level : Z; btm_fastroot : Z; btm_fastlevel : Z }.
Record hash_metadata := { hashm_magic : Z; hashm_version : Z; hashm_ntuples : Z (* IEEE bits of the double *);
                          hashm_ffactor : Z; hashm_bsize : Z; hashm_bmsize : Z; hashm_bmshift : Z;
                          hashm_maxbucket : Z; hashm_highmask : Z; hashm_lowmask : Z }.
Record gin_metadata := { ginm_head : Z; ginm_tail : Z; ginm_tailfree : Z; ginm_npendpages : Z;
                         ginm_npendtuples : Z (* int64 as its unsigned bit pattern *);
                         ginm_ntotal : Z; ginm_nentry : Z; ginm_ndata : Z; ginm_pad : Z (* alignment hole *);
                         ginm_nentries : Z; ginm_version : Z }.

Definition enc_btmeta (m : bt_metadata) : bytes :=
  le_enc 4 (btm_magic m) ++ le_enc 4 (btm_version m) ++ le_enc 4 (btm_root m) ++ le_enc 4 (btm_level m) ++
  le_enc 4 (btm_fastroot m) ++ le_enc 4 (btm_fastlevel m).
Definition enc_hashmeta (m : hash_metadata) : bytes :=
  le_enc 4 (hashm_magic m) ++ le_enc 4 (hashm_version m) ++ le_enc 8 (hashm_ntuples m) ++
  le_enc 2 (hashm_ffactor m) ++ le_enc 2 (hashm_bsize m) ++ le_enc 2 (hashm_bmsize m) ++ le_enc 2 (hashm_bmshift m) ++
  le_enc 4 (hashm_maxbucket m) ++ le_enc 4 (hashm_highmask m) ++ le_enc 4 (hashm_lowmask m).
Definition enc_ginmeta (m : gin_metadata) : bytes :=
  le_enc 4 (ginm_head m) ++ le_enc 4 (ginm_tail m) ++ le_enc 4 (ginm_tailfree m) ++ le_enc 4 (ginm_npendpages m) ++
  le_enc 8 (ginm_npendtuples m) ++ le_enc 4 (ginm_ntotal m) ++ le_enc 4 (ginm_nentry m) ++ le_enc 4 (ginm_ndata m) ++
  le_enc 4 (ginm_pad m) ++ le_enc 8 (ginm_nentries m) ++ le_enc 4 (ginm_version m).

Inductive body :=
| BRaw (bs : bytes)
| BBTMeta (m : bt_metadata) (rest : bytes)
| BHashMeta (m : hash_metadata) (rest : bytes)
| BGinMeta (m : gin_metadata) (rest : bytes).
Definition enc_body (b : body) : bytes :=
  match b with
  | BRaw bs => bs
  | BBTMeta m rest => enc_btmeta m ++ rest
  | BHashMeta m rest => enc_hashmeta m ++ rest
  | BGinMeta m rest => enc_ginmeta m ++ rest
  end.

(* ---------- opaque (special-space) structures ---------- *)
Inductive opaque :=
| OpBT (prev next level flags cycleid : Z)
| OpHash (prev next bucket flags : Z)
| OpGiST (nsn_xlogid nsn_xrecoff rightlink flags : Z)
| OpGIN (rightlink maxoff flags : Z)
| OpSPG (flags nredir nplaceholder : Z)
| OpBRIN (v0 v1 flags ptype : Z).
Definition am_of (o : opaque) : am :=
  match o with OpBT _ _ _ _ _ => BTree | OpHash _ _ _ _ => Hash | OpGiST _ _ _ _ => GiST
             | OpGIN _ _ _ => GIN | OpSPG _ _ _ => SPGiST | OpBRIN _ _ _ _ => BRIN end.
Definition opaque_size (o : opaque) : Z :=
  match am_of o with BTree | Hash | GiST => 16 | GIN | SPGiST | BRIN => 8 end.
Definition enc_opaque (o : opaque) : bytes :=
  match o with
  | OpBT prev next level flags cyc => le_enc 4 prev ++ le_enc 4 next ++ le_enc 4 level ++ le_enc 2 flags ++ le_enc 2 cyc
  | OpHash prev next bucket flags => le_enc 4 prev ++ le_enc 4 next ++ le_enc 4 bucket ++ le_enc 2 flags ++ le_enc 2 HASHO_PAGE_ID
  | OpGiST nh nl rl flags => le_enc 4 nh ++ le_enc 4 nl ++ le_enc 4 rl ++ le_enc 2 flags ++ le_enc 2 GIST_PAGE_ID
  | OpGIN rl maxoff flags => le_enc 4 rl ++ le_enc 2 maxoff ++ le_enc 2 flags
  | OpSPG flags nr np => le_enc 2 flags ++ le_enc 2 nr ++ le_enc 2 np ++ le_enc 2 SPGIST_PAGE_ID
  | OpBRIN v0 v1 flags ptype => le_enc 2 v0 ++ le_enc 2 v1 ++ le_enc 2 flags ++ le_enc 2 ptype
  end.
Definition op_flags (o : opaque) : Z :=
  match o with OpBT _ _ _ f _ => f | OpHash _ _ _ f => f | OpGiST _ _ _ f => f | OpGIN _ _ f => f
             | OpSPG f _ _ => f | OpBRIN _ _ f _ => f end.

(* ---------- a page ---------- *)
Record ipage := {
  ip_xlogid : Z; ip_xrecoff : Z; ip_checksum : Z; ip_hflags : Z; ip_lower : Z; ip_upper : Z;
  ip_psv : Z; ip_prune : Z; ip_body : body; ip_op : opaque
}.
Definition special_of (p : ipage) : Z := 8192 - opaque_size (ip_op p).
Definition enc_hdr (p : ipage) : bytes :=
  le_enc 4 (ip_xlogid p) ++ le_enc 4 (ip_xrecoff p) ++ le_enc 2 (ip_checksum p) ++ le_enc 2 (ip_hflags p) ++
  le_enc 2 (ip_lower p) ++ le_enc 2 (ip_upper p) ++ le_enc 2 (special_of p) ++ le_enc 2 (ip_psv p) ++ le_enc 4 (ip_prune p).
Definition enc_page (p : ipage) : bytes := enc_hdr p ++ enc_body (ip_body p) ++ enc_opaque (ip_op p).

Definition is_u16 (z : Z) : Prop := 0 <= z < 65536.
Definition is_u32 (z : Z) : Prop := 0 <= z < 4294967296.
Definition is_u64 (z : Z) : Prop := 0 <= z < 18446744073709551616.
Definition bit (flags k : Z) : bool := Z.testbit flags k.

Definition wf_opaque (o : opaque) : Prop :=
  match o with
  | OpBT prev next level flags cyc => is_u32 prev /\ is_u32 next /\ is_u32 level /\ is_u16 flags /\ 0 <= cyc <= MAX_BT_CYCLE_ID
  | OpHash prev next bucket flags => is_u32 prev /\ is_u32 next /\ is_u32 bucket /\ is_u16 flags
  | OpGiST nh nl rl flags => is_u32 nh /\ is_u32 nl /\ is_u32 rl /\ is_u16 flags
  | OpGIN rl maxoff flags => is_u32 rl /\ is_u16 maxoff /\ is_u16 flags
  | OpSPG flags nr np => is_u16 flags /\ is_u16 nr /\ is_u16 np
  | OpBRIN v0 v1 flags ptype => is_u16 v0 /\ is_u16 v1 /\ is_u16 flags /\ BRIN_PAGETYPE_META <= ptype <= BRIN_PAGETYPE_REGULAR
  end.
Definition wf_btmeta (m : bt_metadata) : Prop :=
  is_u32 (btm_magic m) /\ is_u32 (btm_version m) /\ is_u32 (btm_root m) /\ is_u32 (btm_level m) /\
  is_u32 (btm_fastroot m) /\ is_u32 (btm_fastlevel m).
Definition wf_hashmeta (m : hash_metadata) : Prop :=
  is_u32 (hashm_magic m) /\ is_u32 (hashm_version m) /\ is_u64 (hashm_ntuples m) /\ is_u16 (hashm_ffactor m) /\
  is_u16 (hashm_bsize m) /\ is_u16 (hashm_bmsize m) /\ is_u16 (hashm_bmshift m) /\ is_u32 (hashm_maxbucket m) /\
  is_u32 (hashm_highmask m) /\ is_u32 (hashm_lowmask m).
Definition wf_ginmeta (m : gin_metadata) : Prop :=
  is_u32 (ginm_head m) /\ is_u32 (ginm_tail m) /\ is_u32 (ginm_tailfree m) /\ is_u32 (ginm_npendpages m) /\
  is_u64 (ginm_npendtuples m) /\ is_u32 (ginm_ntotal m) /\ is_u32 (ginm_nentry m) /\ is_u32 (ginm_ndata m) /\
  is_u32 (ginm_pad m) /\ is_u64 (ginm_nentries m) /\ is_u32 (ginm_version m).
Definition wf_body (b : body) : Prop :=
  match b with BRaw _ => True | BBTMeta m _ => wf_btmeta m | BHashMeta m _ => wf_hashmeta m | BGinMeta m _ => wf_ginmeta m end.

(* A page flagged as its method's metapage holds that method's metapage structure (with the B-tree magic). *)
Definition meta_consistent (o : opaque) (b : body) : Prop :=
  match o, b with
  | OpBT _ _ _ f _, BBTMeta m _ => bit f 3 = true -> btm_magic m = BTREE_MAGIC
  | OpBT _ _ _ f _, _ => bit f 3 = false
  | OpHash _ _ _ f, BHashMeta _ _ => True
  | OpHash _ _ _ f, _ => bit f 3 = false
  | OpGIN _ _ f, BGinMeta _ _ => True
  | OpGIN _ _ f, _ => bit f 3 = false
  | _, _ => True
  end.

Definition wf_page (p : ipage) : Prop :=
  is_u32 (ip_xlogid p) /\ is_u32 (ip_xrecoff p) /\ is_u16 (ip_checksum p) /\ is_u16 (ip_hflags p) /\
  24 <= ip_lower p < 65536 /\ is_u16 (ip_upper p) /\ is_u16 (ip_psv p) /\ is_u32 (ip_prune p) /\
  wf_opaque (ip_op p) /\ wf_body (ip_body p) /\
  blen (enc_body (ip_body p)) = special_of p - 24 /\
  meta_consistent (ip_op p) (ip_body p).

(* The page a file starts with decides the access method.  B-tree, hash, SP-GiST and BRIN files start
   with their metapage, GiST files with the root; for those five any page of the method identifies
   it.  A GIN file starts with its metapage (GIN_META): GinPageOpaqueData carries no identifier. *)
Definition first_ok (p : ipage) : Prop :=
  match ip_op p with OpGIN _ _ f => bit f 3 = true | _ => True end.

(* ---------- expected results ---------- *)
(* flag names: (bit number, name), for the bits pgread names *)
Definition named_bits (m : am) : list (Z * bytes) :=
  match m with
  | BTree => [(0, StrLit.LEAF); (1, StrLit.ROOT); (2, StrLit.DELETED); (3, StrLit.META); (4, StrLit.HALF_DEAD); (6, StrLit.HAS_GARBAGE)]
  | Hash => [(1, StrLit.BUCKET); (0, StrLit.OVERFLOW); (2, StrLit.BITMAP); (3, StrLit.META)]
  | GiST => [(0, StrLit.LEAF); (1, StrLit.DELETED); (2, StrLit.TUPLES_DELETED); (3, StrLit.FOLLOW_RIGHT)]
  | GIN => [(0, StrLit.DATA); (1, StrLit.LEAF); (2, StrLit.DELETED); (3, StrLit.META); (4, StrLit.LIST); (7, StrLit.COMPRESSED)]
  | SPGiST => [(0, StrLit.META); (2, StrLit.LEAF); (1, StrLit.DELETED); (3, StrLit.NULLS)]
  | BRIN => [(0, StrLit.EVACUATE_PAGE)]
  end.
Definition flag_names (m : am) (flags : Z) : list bytes :=
  map snd (filter (fun kn => bit flags (fst kn)) (named_bits m)).

(* PageGetMaxOffsetNumber *)
Definition max_offset (lower : Z) : Z := if lower <=? 24 then 0 else (lower - 24) / 4.

Definition expected_page (num : Z) (p : ipage) : pinfo :=
  let o := ip_op p in
  let m := am_of o in
  let f := op_flags o in
  {| pi_num := num; pi_type := am_code m; pi_tstr := am_name m;
     pi_meta := match o with
                | OpBT _ _ _ _ _ | OpHash _ _ _ _ | OpGIN _ _ _ => bit f 3
                | OpSPG _ _ _ => bit f 0
                | OpBRIN _ _ _ t => t =? BRIN_PAGETYPE_META
                | OpGiST _ _ _ _ => false end;
     pi_leaf := match o with
                | OpBT _ _ _ _ _ | OpGiST _ _ _ _ => bit f 0
                | OpGIN _ _ _ => bit f 1
                | OpSPG _ _ _ => bit f 2
                | _ => false end;
     pi_root := match o with OpBT _ _ _ _ _ => bit f 1 | _ => false end;
     pi_deleted := match o with
                   | OpBT _ _ _ _ _ | OpGIN _ _ _ => bit f 2
                   | OpGiST _ _ _ _ | OpSPG _ _ _ => bit f 1
                   | _ => false end;
     pi_flags := f;
     pi_names := flag_names m f;
     (* B-tree: btpo_level.  Hash has no level; pgread shows the bucket number of a bucket page there. *)
     pi_level := match o with OpBT _ _ l _ _ => l | OpHash _ _ b fl => if bit fl 1 then b else 0 | _ => 0 end;
     pi_prev := match o with OpBT pr _ _ _ _ | OpHash pr _ _ _ => pr | _ => 0 end;
     pi_next := match o with OpBT _ nx _ _ _ | OpHash _ nx _ _ => nx | _ => 0 end;
     pi_right := match o with OpGiST _ _ r _ | OpGIN r _ _ => r | _ => 0 end;
     (* line-pointer count; for GIN the opaque's own counter maxoff (see report: reading of "item count") *)
     pi_items := match o with OpGIN _ mo _ => mo | _ => max_offset (ip_lower p) end;
     pi_free := ip_upper p - ip_lower p;
     pi_lsn := ip_xlogid p * 4294967296 + ip_xrecoff p;
     pi_lsnstr := hexX32 (ip_xlogid p) ++ StrLit.slash ++ hexX32 (ip_xrecoff p) |}.

Definition expected_btmeta (m : bt_metadata) : btmeta :=
  {| bm_magic := btm_magic m; bm_version := btm_version m; bm_root := btm_root m; bm_level := btm_level m;
     bm_fastroot := btm_fastroot m; bm_fastlevel := btm_fastlevel m |}.
Definition expected_hashmeta (m : hash_metadata) : hashmeta :=
  {| hm_magic := hashm_magic m; hm_version := hashm_version m;
     hm_nbuckets := (hashm_maxbucket m + 1) mod 4294967296;   (* buckets 0..maxbucket, as a uint32 *)
     hm_maxbucket := hashm_maxbucket m; hm_highmask := hashm_highmask m; hm_lowmask := hashm_lowmask m;
     hm_ffactor := hashm_ffactor m; hm_ntuples_bits := hashm_ntuples m |}.
Definition expected_ginmeta (m : gin_metadata) : ginmeta :=
  {| gm_version := ginm_version m; gm_head := ginm_head m; gm_tail := ginm_tail m; gm_tailfree := ginm_tailfree m;
     gm_npendpages := ginm_npendpages m; gm_npendtuples := ginm_npendtuples m; gm_ntotal := ginm_ntotal m;
     gm_nentry := ginm_nentry m; gm_ndata := ginm_ndata m; gm_nentries := ginm_nentries m |}.

(* the metapage report for a file starting with page p *)
Definition expected_meta (p : ipage) : imeta :=
  match ip_op p, ip_body p with
  | OpBT _ _ _ f _, BBTMeta m _ => if bit f 3 then MBT (expected_btmeta m) else MNone
  | OpHash _ _ _ f, BHashMeta m _ => if bit f 3 then MHash (expected_hashmeta m) else MNone
  | OpGIN _ _ f, BGinMeta m _ => if bit f 3 then MGin (expected_ginmeta m) else MNone
  | _, _ => MNone
  end.

(* ---------- a file ---------- *)
Record ifile := { f_pages : list ipage; f_junk : bytes (* a trailing partial page, ignored *) }.
Definition enc_pages (ps : list ipage) : bytes := concat (map enc_page ps).
Definition enc_file (f : ifile) : bytes := enc_pages (f_pages f) ++ f_junk f.

Definition wf_file (f : ifile) : Prop :=
  match f_pages f with
  | [] => False
  | p0 :: _ => first_ok p0 /\ Forall (fun p => wf_page p /\ am_of (ip_op p) = am_of (ip_op p0)) (f_pages f)
               /\ blen (f_junk f) < 8192
  end.

(* block numbers are uint32 *)
Fixpoint expected_pages (i : Z) (ps : list ipage) : list pinfo :=
  match ps with [] => [] | p :: r => expected_page (i mod 4294967296) p :: expected_pages (i + 1) r end.

Definition expected_file (f : ifile) : iinfo :=
  match f_pages f with
  | [] => {| ii_type := 0; ii_tstr := StrLit.unknown; ii_total := 0; ii_meta := MNone; ii_levels := 0; ii_root := 0; ii_pages := [] |}
  | p0 :: _ =>
    let m := am_of (ip_op p0) in
    let mt := expected_meta p0 in
    {| ii_type := am_code m; ii_tstr := am_name m; ii_total := Z.of_nat (length (f_pages f));
       ii_meta := mt;
       ii_levels := match mt with MBT bm => bm_level bm | _ => 0 end;
       ii_root := match mt with MBT bm => bm_root bm | _ => 0 end;
       ii_pages := expected_pages 0 (f_pages f) |}
  end.

(* ---------- decidable well-formedness (used by the case generator; reflected in Proofs.v) ---------- *)
Definition u16b (z : Z) : bool := (0 <=? z) && (z <? 65536).
Definition u32b (z : Z) : bool := (0 <=? z) && (z <? 4294967296).
Definition u64b (z : Z) : bool := (0 <=? z) && (z <? 18446744073709551616).
Definition wf_opaque_b (o : opaque) : bool :=
  match o with
  | OpBT prev next level flags cyc => u32b prev && u32b next && u32b level && u16b flags && (0 <=? cyc) && (cyc <=? MAX_BT_CYCLE_ID)
  | OpHash prev next bucket flags => u32b prev && u32b next && u32b bucket && u16b flags
  | OpGiST nh nl rl flags => u32b nh && u32b nl && u32b rl && u16b flags
  | OpGIN rl maxoff flags => u32b rl && u16b maxoff && u16b flags
  | OpSPG flags nr np => u16b flags && u16b nr && u16b np
  | OpBRIN v0 v1 flags ptype => u16b v0 && u16b v1 && u16b flags && (BRIN_PAGETYPE_META <=? ptype) && (ptype <=? BRIN_PAGETYPE_REGULAR)
  end.
Definition wf_body_b (b : body) : bool :=
  match b with
  | BRaw _ => true
  | BBTMeta m _ => u32b (btm_magic m) && u32b (btm_version m) && u32b (btm_root m) && u32b (btm_level m) &&
                   u32b (btm_fastroot m) && u32b (btm_fastlevel m)
  | BHashMeta m _ => u32b (hashm_magic m) && u32b (hashm_version m) && u64b (hashm_ntuples m) && u16b (hashm_ffactor m) &&
                     u16b (hashm_bsize m) && u16b (hashm_bmsize m) && u16b (hashm_bmshift m) && u32b (hashm_maxbucket m) &&
                     u32b (hashm_highmask m) && u32b (hashm_lowmask m)
  | BGinMeta m _ => u32b (ginm_head m) && u32b (ginm_tail m) && u32b (ginm_tailfree m) && u32b (ginm_npendpages m) &&
                    u64b (ginm_npendtuples m) && u32b (ginm_ntotal m) && u32b (ginm_nentry m) && u32b (ginm_ndata m) &&
                    u32b (ginm_pad m) && u64b (ginm_nentries m) && u32b (ginm_version m)
  end.
Definition meta_consistent_b (o : opaque) (b : body) : bool :=
  match o, b with
  | OpBT _ _ _ f _, BBTMeta m _ => negb (bit f 3) || (btm_magic m =? BTREE_MAGIC)
  | OpBT _ _ _ f _, _ => negb (bit f 3)
  | OpHash _ _ _ f, BHashMeta _ _ => true
  | OpHash _ _ _ f, _ => negb (bit f 3)
  | OpGIN _ _ f, BGinMeta _ _ => true
  | OpGIN _ _ f, _ => negb (bit f 3)
  | _, _ => true
  end.
Definition wf_page_b (p : ipage) : bool :=
  u32b (ip_xlogid p) && u32b (ip_xrecoff p) && u16b (ip_checksum p) && u16b (ip_hflags p) &&
  (24 <=? ip_lower p) && (ip_lower p <? 65536) && u16b (ip_upper p) && u16b (ip_psv p) && u32b (ip_prune p) &&
  wf_opaque_b (ip_op p) && wf_body_b (ip_body p) &&
  (blen (enc_body (ip_body p)) =? special_of p - 24) &&
  meta_consistent_b (ip_op p) (ip_body p).
Definition first_ok_b (p : ipage) : bool :=
  match ip_op p with OpGIN _ _ f => bit f 3 | _ => true end.
Definition am_eqb (a b : am) : bool := am_code a =? am_code b.
Definition wf_file_b (f : ifile) : bool :=
  match f_pages f with
  | [] => false
  | p0 :: _ => first_ok_b p0 && forallb (fun p => wf_page_b p && am_eqb (am_of (ip_op p)) (am_of (ip_op p0))) (f_pages f)
               && (blen (f_junk f) <? 8192)
  end.
