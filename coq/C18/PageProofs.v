(* C18/PageProofs.v — parseIndexPage and detectIndexType on the image of a well-formed page. *)
Require Import PG.Base.Bytes PG.Base.GoSlice PG.C18.Types PG.C18.Model PG.C18.Spec PG.C18.Lib PG.C18.SpecialProofs.

Lemma type_string_ok' m : IndexType_String (am_code m) = am_name m.
Proof. destruct m; reflexivity. Qed.

Lemma special_cases p : special_of p = 8176 \/ special_of p = 8184.
Proof. unfold special_of. destruct (opaque_size_cases (ip_op p)) as [-> | ->]; auto. Qed.

Lemma wf_body_len p : wf_page p -> blen (enc_body (ip_body p)) = special_of p - 24.
Proof. intros (_&_&_&_&_&_&_&_&_&_&Hb&_). exact Hb. Qed.

(* the opaque structure is the last [opaque_size] bytes of the page *)
Lemma page_special_bytes p : wf_page p ->
  sub (enc_page p) (special_of p) 8192 = enc_opaque (ip_op p).
Proof.
  intros W. pose proof (wf_body_len p W) as Hb. pose proof (special_cases p) as Hs.
  assert (Ho : blen (enc_opaque (ip_op p)) = 8192 - special_of p) by (rewrite enc_opaque_len; unfold special_of; lia).
  unfold enc_page.
  rewrite sub_app_r by (bl; lia). rewrite sub_app_r by (bl; lia).
  apply sub_exact; bl; lia.
Qed.

(* header fields *)
Ltac rdh L lo hi v :=
  rewrite (L _ lo hi v);
  [ cbn [bind] | lia | lia | (rewrite len_mk; lia) | (cbn [vis]; unfold enc_page, enc_hdr; ssub) | (u_is; lia) ].

Lemma items_ok lower : 24 <= lower -> Z.quot (lower - headerSize) itemIDSize = max_offset lower.
Proof.
  intros H. unfold headerSize, itemIDSize, max_offset. rewrite Z.quot_div_nonneg by lia.
  destruct (lower <=? 24) eqn:E; [|reflexivity]. assert (lower = 24) by lia. subst. reflexivity.
Qed.

Lemma lsn_str hi lo : is_u32 hi -> is_u32 lo ->
  FormatLSN (hi * 4294967296 + lo) = hexX32 hi ++ StrLit.slash ++ hexX32 lo.
Proof.
  unfold is_u32, FormatLSN. intros Hh Hl.
  replace ((hi * 4294967296 + lo) / 4294967296) with hi by lia.
  replace ((hi * 4294967296 + lo) mod 4294967296) with lo by lia. reflexivity.
Qed.

Lemma dispatch m info sd :
  (if am_code m =? IndexTypeBTree then parseBTreePageSpecial info sd else
   if am_code m =? IndexTypeHash then parseHashPageSpecial info sd else
   if am_code m =? IndexTypeGiST then parseGiSTPageSpecial info sd else
   if am_code m =? IndexTypeGIN then parseGINPageSpecial info sd else
   if am_code m =? IndexTypeSPGiST then parseSPGiSTPageSpecial info sd else
   if am_code m =? IndexTypeBRIN then parseBRINPageSpecial info sd else Ok info) = special_parser m info sd.
Proof. destruct m; reflexivity. Qed.

Lemma wf_page_opaque p : wf_page p -> wf_opaque (ip_op p).
Proof. intros (_&_&_&_&_&_&_&_&H&_). exact H. Qed.

(* Every well-formed page of any of the six methods, at any block number, with any capacity tail *)
Lemma page_ok p t num :
  wf_page p ->
  parseIndexPage {| vis := enc_page p; tail := t |} num (am_code (am_of (ip_op p))) = Ok (expected_page num p).
Proof.
  intros W. pose proof (enc_page_len p W) as L. pose proof (special_cases p) as Hs.
  pose proof (page_special_bytes p W) as Hop. pose proof (wf_page_opaque p W) as Wo.
  destruct W as (Hx&Hr&Hc&Hf&Hl&Hu&Hv&Hpr&_&_&Hb&_).
  unfold parseIndexPage. rewrite len_mk, L. unfold PageSize at 1. cbn [Z.ltb Z.compare Pos.compare Pos.compare_cont].
  rdh rd32_val 0 4 (ip_xlogid p). rdh rd32_val 4 8 (ip_xrecoff p).
  rdh rd16_val 12 14 (ip_lower p). rdh rd16_val 14 16 (ip_upper p). rdh rd16_val 16 18 (special_of p).
  unfold PageSize. destruct (special_of p <? 8192) eqn:E; [|lia]. clear E.
  rewrite slice_from_ok by (rewrite len_mk; lia). cbn [bind]. rewrite len_mk, L. cbn [vis]. rewrite Hop.
  rewrite dispatch. rewrite special_ok by exact Wo. f_equal.
  rewrite items_ok by lia. rewrite lsn_str by assumption.
  unfold expected_page. destruct (ip_op p); reflexivity.
Qed.

(* ---------- classification ---------- *)
Lemma bit3_not_id f : Z.testbit f 3 = true ->
  f <> 65408 /\ f <> 65409 /\ f <> 65410 /\ ~ (61585 <= f <= 61587).
Proof.
  intros H. repeat split; try (intros E; subst; vm_compute in H; discriminate).
  intros E. assert (C : f = 61585 \/ f = 61586 \/ f = 61587) by lia.
  destruct C as [C|[C|C]]; subst; vm_compute in H; discriminate.
Qed.

Lemma wf_meta_consistent p : wf_page p -> meta_consistent (ip_op p) (ip_body p).
Proof. intros (_&_&_&_&_&_&_&_&_&_&_&H). exact H. Qed.

Ltac trailer_from Hop sp a b :=
  match goal with |- sub (enc_page ?p) ?x ?y = _ =>
    replace (sub (enc_page p) x y) with (sub (sub (enc_page p) sp 8192) a b) by (rewrite sub_sub by lia; reflexivity);
    rewrite Hop; cbn [enc_opaque]; ssub end.

Ltac no_eq := match goal with |- context [if ?a =? ?b then _ else _] => destruct (a =? b) eqn:?E; [lia|]; clear E end.

Lemma detect_ok p t :
  wf_page p -> first_ok p ->
  detectIndexType {| vis := enc_page p; tail := t |} = Ok (am_code (am_of (ip_op p))).
Proof.
  intros W F. pose proof (enc_page_len p W) as L.
  pose proof (page_special_bytes p W) as Hop. pose proof (wf_page_opaque p W) as Wo.
  pose proof (wf_meta_consistent p W) as Mc. pose proof (wf_body_len p W) as Hb.
  destruct W as (Hx&Hr&Hc&Hf&Hl&Hu&Hv&Hpr&_).
  unfold detectIndexType. rewrite len_mk, L. unfold PageSize at 1. cbn [Z.ltb Z.compare Pos.compare Pos.compare_cont].
  pose proof (special_cases p) as Hs.
  rdh rd16_val 16 18 (special_of p).
  unfold PageSize, headerSize.
  unfold first_ok in F.
  destruct (ip_op p) as [prev next level flags cyc | prev next bucket flags | nh nl rl flags | rl maxoff flags
                        | flags nr np | v0 v1 flags ptype] eqn:Eo;
    cbn [wf_opaque] in Wo; cbn [am_of am_code];
    first [ assert (Hsp : special_of p = 8176) by (unfold special_of; rewrite Eo; reflexivity)
          | assert (Hsp : special_of p = 8184) by (unfold special_of; rewrite Eo; reflexivity) ];
    rewrite Hsp in *; clear Hs;
    change (8192 - 8176) with 16; change (8192 - 8184) with 8; change (8192 - 2) with 8190;
    cbn [Z.eqb Z.geb Z.compare Pos.compare Pos.compare_cont Pos.eqb orb andb];
    (rewrite slice_from_ok by (rewrite len_mk; lia)); cbn [bind]; rewrite len_mk, L; cbn [vis]; rewrite Hop.
  - (* B-tree: the trailer is the cycle id <= 0xFF7F *)
    destruct Wo as (?&?&?&?&?). unfold MAX_BT_CYCLE_ID in *.
    rewrite (rdf16_val _ 8190 cyc); [cbn [bind] | lia | rewrite len_mk; lia | cbn [vis]; trailer_from Hop 8176 14 16 | lia].
    unfold HashoPageID, GISTPageID, SPGISTPageID. no_eq. no_eq. no_eq.
    cbn [Z.eqb andb bind].
    rdo rd16_val 14 16 cyc. rdo rd16_val 12 14 flags.
    unfold BTMaxCycleID. destruct (cyc <=? 65407) eqn:E; [|lia]. clear E.
    unfold BTPMeta. rewrite has_8.
    destruct (Z.testbit flags 3) eqn:B3; [|reflexivity].
    cbn [meta_consistent] in Mc. unfold bit in Mc.
    destruct (ip_body p) as [bs | m rest | m rest | m rest] eqn:Eb; try congruence.
    specialize (Mc B3).
    rewrite (rdf32_val _ 24 BTMetaMagic); [cbn [bind]; reflexivity | lia | rewrite len_mk; lia | | unfold BTMetaMagic; lia].
    cbn [vis]. unfold enc_page. rewrite Eb. cbn [enc_body]. unfold enc_btmeta. rewrite Mc. unfold BTREE_MAGIC, BTMetaMagic. ssub.
  - (* hash *)
    destruct Wo as (?&?&?&?).
    rewrite (rdf16_val _ 8190 HASHO_PAGE_ID); [cbn [bind]; reflexivity | lia | rewrite len_mk; lia | cbn [vis]; trailer_from Hop 8176 14 16 | unfold HASHO_PAGE_ID; lia].
  - (* GiST *)
    destruct Wo as (?&?&?&?).
    rewrite (rdf16_val _ 8190 GIST_PAGE_ID); [cbn [bind]; reflexivity | lia | rewrite len_mk; lia | cbn [vis]; trailer_from Hop 8176 14 16 | unfold GIST_PAGE_ID; lia].
  - (* GIN: the trailer is the flag word; GIN_META (bit 3) excludes every identifier word *)
    destruct Wo as (?&?&?). unfold bit in F. destruct (bit3_not_id flags F) as (N1&N2&N3&N4).
    rewrite (rdf16_val _ 8190 flags); [cbn [bind] | lia | rewrite len_mk; lia | cbn [vis]; trailer_from Hop 8184 6 8 | u_is; lia].
    unfold HashoPageID, GISTPageID, SPGISTPageID, BRINPageTypeMeta, BRINPageTypeRegular. no_eq. no_eq. no_eq.
    cbn [Z.eqb Pos.eqb andb].
    destruct ((flags >=? 61585) && (flags <=? 61587)) eqn:E; [lia|]. clear E. cbn [bind].
    rdo rd16_val 6 8 flags.
    unfold GINMeta. rewrite has_8, F. reflexivity.
  - (* SP-GiST *)
    destruct Wo as (?&?&?).
    rewrite (rdf16_val _ 8190 SPGIST_PAGE_ID); [cbn [bind]; reflexivity | lia | rewrite len_mk; lia | cbn [vis]; trailer_from Hop 8184 6 8 | unfold SPGIST_PAGE_ID; lia].
  - (* BRIN: page type in the last uint16 of an 8-byte special space *)
    destruct Wo as (?&?&?&?). unfold BRIN_PAGETYPE_META, BRIN_PAGETYPE_REGULAR in *.
    rewrite (rdf16_val _ 8190 ptype); [cbn [bind] | lia | rewrite len_mk; lia | cbn [vis]; trailer_from Hop 8184 6 8 | lia].
    unfold HashoPageID, GISTPageID, SPGISTPageID, BRINPageTypeMeta, BRINPageTypeRegular. no_eq. no_eq. no_eq.
    cbn [Z.eqb Pos.eqb andb].
    destruct ((ptype >=? 61585) && (ptype <=? 61587)) eqn:E; [reflexivity|lia].
Qed.
