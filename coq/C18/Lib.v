(* C18/Lib.v — lemmas about the read primitives of Model.v ([rdN] = UintN(s[lo:hi]), [rdN_from] =
   UintN(s[lo:]), [slice_from]) and about single-bit tests.  Generic (nothing about index pages);
   candidates for Base/GoSlice.v. *)
Require Import PG.Base.Bytes PG.Base.GoSlice PG.C18.Types PG.C18.Model.

Lemma rdN_ok n s lo hi :
  0 <= lo -> hi = lo + Z.of_nat n -> hi <= len s ->
  rdN n s lo hi = Ok (le_dec (sub (vis s) lo hi)).
Proof.
  intros Hlo Hhi Hlen. unfold rdN, slice.
  pose proof (len_le_cap s) as Hc.
  destruct ((0 <=? lo) && (lo <=? hi) && (hi <=? cap s)) eqn:E; [|lia].
  cbn [bind]. unfold uN, len at 1. cbn [vis].
  assert (L : blen (sub (mem s) lo hi) = hi - lo).
  { apply sub_length; try lia. unfold mem. bl. unfold cap in Hc. unfold len in *. lia. }
  rewrite L.
  destruct ((0 <=? 0) && (0 + Z.of_nat n <=? hi - lo)) eqn:E2; [|lia].
  f_equal. f_equal. rewrite sub_sub by lia. unfold mem.
  rewrite sub_app_l by (unfold len in *; lia). f_equal; lia.
Qed.

Lemma rdN_val n s lo hi v :
  0 <= lo -> hi = lo + Z.of_nat n -> hi <= len s ->
  sub (vis s) lo hi = le_enc n v -> 0 <= v < 2 ^ (8 * Z.of_nat n) ->
  rdN n s lo hi = Ok v.
Proof. intros. rewrite rdN_ok by assumption. rewrite H2, le_dec_enc by assumption. reflexivity. Qed.

Lemma rdN_range n s lo hi v : rdN n s lo hi = Ok v -> 0 <= v < 2 ^ (8 * Z.of_nat n).
Proof.
  unfold rdN. destruct (slice s lo hi) as [x|]; cbn [bind]; [|discriminate]. apply uN_range.
Qed.

Lemma slice_from_ok s lo :
  0 <= lo <= len s -> slice_from s lo = Ok {| vis := sub (vis s) lo (len s); tail := tail s |}.
Proof. intros. unfold slice_from. destruct ((0 <=? lo) && (lo <=? len s)) eqn:E; [reflexivity|lia]. Qed.

Lemma len_mk v t : len {| vis := v; tail := t |} = blen v.
Proof. reflexivity. Qed.

Lemma len_sub_from s lo t : 0 <= lo <= len s -> len {| vis := sub (vis s) lo (len s); tail := t |} = len s - lo.
Proof. intros. unfold len in *. cbn [vis]. apply sub_length; lia. Qed.

Lemma rdN_from_ok n s lo :
  0 <= lo -> lo + Z.of_nat n <= len s ->
  rdN_from n s lo = Ok (le_dec (sub (vis s) lo (lo + Z.of_nat n))).
Proof.
  intros Hlo Hlen. unfold rdN_from. rewrite slice_from_ok by lia. cbn [bind].
  rewrite uN_val; [|lia|rewrite len_sub_from; lia].
  cbn [vis]. rewrite sub_sub by lia. do 3 f_equal; lia.
Qed.

Lemma rdN_from_val n s lo v :
  0 <= lo -> lo + Z.of_nat n <= len s ->
  sub (vis s) lo (lo + Z.of_nat n) = le_enc n v -> 0 <= v < 2 ^ (8 * Z.of_nat n) ->
  rdN_from n s lo = Ok v.
Proof. intros. rewrite rdN_from_ok by assumption. rewrite H1, le_dec_enc by assumption. reflexivity. Qed.

(* reads inside s[lo:] are reads of s at shifted positions *)
Lemma rdN_in_from n s lo a b t :
  0 <= lo -> 0 <= a -> b = a + Z.of_nat n -> lo + b <= len s ->
  rdN n {| vis := sub (vis s) lo (len s); tail := t |} a b = Ok (le_dec (sub (vis s) (lo + a) (lo + b))).
Proof.
  intros. rewrite rdN_ok; try lia.
  - cbn [vis]. rewrite sub_sub by lia. reflexivity.
  - rewrite len_sub_from by lia. lia.
Qed.

(* ---------- single-bit tests ---------- *)
Lemma land_pow2 a k : 0 <= k -> Z.land a (2 ^ k) = if Z.testbit a k then 2 ^ k else 0.
Proof.
  intros Hk. apply Z.bits_inj'. intros n Hn.
  rewrite Z.land_spec, Z.pow2_bits_eqb by lia.
  destruct (Z.eqb_spec k n) as [->|Hne].
  - destruct (Z.testbit a n); [rewrite Z.pow2_bits_true by lia; reflexivity | rewrite Z.bits_0; reflexivity].
  - rewrite andb_false_r. destruct (Z.testbit a k); [rewrite Z.pow2_bits_false by lia; reflexivity | rewrite Z.bits_0; reflexivity].
Qed.

Lemma has_pow2 f k : 0 <= k -> has f (2 ^ k) = Z.testbit f k.
Proof.
  intros Hk. unfold has. rewrite land_pow2 by assumption.
  assert (0 < 2 ^ k) by (apply Z.pow_pos_nonneg; lia).
  destruct (Z.testbit f k); cbn [negb]; [destruct (2 ^ k =? 0) eqn:E; [lia|reflexivity] | reflexivity].
Qed.

Lemma has_1 f : has f 1 = Z.testbit f 0. Proof. exact (has_pow2 f 0 ltac:(lia)). Qed.
Lemma has_2 f : has f 2 = Z.testbit f 1. Proof. exact (has_pow2 f 1 ltac:(lia)). Qed.
Lemma has_4 f : has f 4 = Z.testbit f 2. Proof. exact (has_pow2 f 2 ltac:(lia)). Qed.
Lemma has_8 f : has f 8 = Z.testbit f 3. Proof. exact (has_pow2 f 3 ltac:(lia)). Qed.
Lemma has_16 f : has f 16 = Z.testbit f 4. Proof. exact (has_pow2 f 4 ltac:(lia)). Qed.
Lemma has_64 f : has f 64 = Z.testbit f 6. Proof. exact (has_pow2 f 6 ltac:(lia)). Qed.
Lemma has_128 f : has f 128 = Z.testbit f 7. Proof. exact (has_pow2 f 7 ltac:(lia)). Qed.
