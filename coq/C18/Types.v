(* C18/Types.v — result records shared by the model (Model.v) and the specification (Spec.v) of
   pgdump/index.go, the string constants both sides print, and the "%X" hexadecimal printer used
   by FormatLSN.  No property-specific logic here. *)
Require Import PG.Base.Bytes.
Require Coq.Strings.String.

(* ---------- string literals as Go strings (bytes) ---------- *)
Module StrLit.
  Import Coq.Strings.String.
  Definition str (s : string) : bytes := list_byte_of_string s.
  Definition unknown := Eval compute in str "unknown".
  Definition btree := Eval compute in str "btree".
  Definition hash := Eval compute in str "hash".
  Definition gist := Eval compute in str "gist".
  Definition gin := Eval compute in str "gin".
  Definition spgist := Eval compute in str "spgist".
  Definition brin := Eval compute in str "brin".
  Definition LEAF := Eval compute in str "LEAF".
  Definition ROOT := Eval compute in str "ROOT".
  Definition DELETED := Eval compute in str "DELETED".
  Definition META := Eval compute in str "META".
  Definition HALF_DEAD := Eval compute in str "HALF_DEAD".
  Definition HAS_GARBAGE := Eval compute in str "HAS_GARBAGE".
  Definition BUCKET := Eval compute in str "BUCKET".
  Definition OVERFLOW := Eval compute in str "OVERFLOW".
  Definition BITMAP := Eval compute in str "BITMAP".
  Definition TUPLES_DELETED := Eval compute in str "TUPLES_DELETED".
  Definition FOLLOW_RIGHT := Eval compute in str "FOLLOW_RIGHT".
  Definition DATA := Eval compute in str "DATA".
  Definition LIST := Eval compute in str "LIST".
  Definition COMPRESSED := Eval compute in str "COMPRESSED".
  Definition NULLS := Eval compute in str "NULLS".
  Definition EVACUATE_PAGE := Eval compute in str "EVACUATE_PAGE".
  Definition slash := Eval compute in str "/".
End StrLit.

(* ---------- Go's fmt "%X" on a value 0 <= v < 2^32: upper-case hex, no leading zeros ---------- *)
Definition hexdigit (d : Z) : byte := if d <? 10 then z2b (48 + d) else z2b (55 + d).
Fixpoint strip0 (l : list Z) : list Z :=
  match l with
  | [] => []
  | [d] => [d]
  | d :: r => if d =? 0 then strip0 r else l
  end.
Definition nibbles32 (v : Z) : list Z :=
  [ (v / 268435456) mod 16; (v / 16777216) mod 16; (v / 1048576) mod 16; (v / 65536) mod 16;
    (v / 4096) mod 16; (v / 256) mod 16; (v / 16) mod 16; v mod 16 ].
Definition hexX32 (v : Z) : bytes := map hexdigit (strip0 (nibbles32 v)).

(* ---------- IndexPageInfo (index.go:118-136) ---------- *)
Record pinfo := {
  pi_num : Z;            (* PageNumber uint32 *)
  pi_type : Z;           (* IndexType (int) *)
  pi_tstr : bytes;       (* TypeString *)
  pi_meta : bool; pi_leaf : bool; pi_root : bool; pi_deleted : bool;
  pi_flags : Z;          (* Flags uint16 *)
  pi_names : list bytes; (* FlagStrings, in append order *)
  pi_level : Z; pi_prev : Z; pi_next : Z; pi_right : Z;   (* uint32 *)
  pi_items : Z; pi_free : Z;                              (* int *)
  pi_lsn : Z;            (* uint64 *)
  pi_lsnstr : bytes      (* LSNStr *)
}.

(* BTreeMetaPage / HashMetaPage / GINMetaPage (index.go:139-175); only the fields the code fills *)
Record btmeta := { bm_magic : Z; bm_version : Z; bm_root : Z; bm_level : Z; bm_fastroot : Z; bm_fastlevel : Z }.
Record hashmeta := { hm_magic : Z; hm_version : Z; hm_nbuckets : Z; hm_maxbucket : Z; hm_highmask : Z;
                     hm_lowmask : Z; hm_ffactor : Z; hm_ntuples_bits : Z (* float64 bit pattern *) }.
Record ginmeta := { gm_version : Z; gm_head : Z; gm_tail : Z; gm_tailfree : Z; gm_npendpages : Z;
                    gm_npendtuples : Z; gm_ntotal : Z; gm_nentry : Z; gm_ndata : Z; gm_nentries : Z }.
Inductive imeta := MNone | MBT (m : btmeta) | MHash (m : hashmeta) | MGin (m : ginmeta).

(* IndexInfo (index.go:178-186) *)
Record iinfo := {
  ii_type : Z; ii_tstr : bytes; ii_total : Z; ii_meta : imeta; ii_levels : Z; ii_root : Z;
  ii_pages : list pinfo
}.
