(* Base/GoSlice.v — Go []byte with len/cap, partial index/slice operations.
   A Go slice [s] is [vis s] (the len(s) visible bytes) followed in memory by
   [tail s] (the cap(s)-len(s) bytes a re-slice may still reach).  Go checks an
   index against len but an explicit upper slice bound against cap. *)
Require Import PG.Base.Bytes.

Record gslice := { vis : bytes; tail : bytes }.
Inductive res (A : Type) := Ok (a : A) | Panic.
Arguments Ok {A}. Arguments Panic {A}.
Definition bind {A B} (r : res A) (f : A -> res B) : res B :=
  match r with Ok a => f a | Panic => Panic end.
Notation "x <- e ;; k" := (bind e (fun x => k)) (at level 61, e at next level, right associativity).
Notation "' p <- e ;; k" := (bind e (fun x => let p := x in k))
  (at level 61, p pattern, e at next level, right associativity).

Definition exact (b : bytes) : gslice := {| vis := b; tail := [] |}.
Definition len (s : gslice) : Z := blen (vis s).
Definition cap (s : gslice) : Z := blen (vis s) + blen (tail s).
Definition mem (s : gslice) : bytes := vis s ++ tail s.

Lemma len_nonneg s : 0 <= len s. Proof. apply blen_nonneg. Qed.
Lemma len_le_cap s : len s <= cap s. Proof. unfold len, cap. pose proof (blen_nonneg (tail s)). lia. Qed.

(* s[i] *)
Definition idx (s : gslice) (i : Z) : res Z :=
  if (0 <=? i) && (i <? len s) then Ok (byte_at (vis s) i) else Panic.
(* s[lo:hi] *)
Definition slice (s : gslice) (lo hi : Z) : res gslice :=
  if (0 <=? lo) && (lo <=? hi) && (hi <=? cap s)
  then Ok {| vis := sub (mem s) lo hi; tail := skipn (Z.to_nat hi) (mem s) |}
  else Panic.
(* s[lo:] *)
Definition slice_from (s : gslice) (lo : Z) : res gslice :=
  if (0 <=? lo) && (lo <=? len s)
  then Ok {| vis := sub (vis s) lo (len s); tail := tail s |}
  else Panic.
(* s[:hi] *)
Definition slice_to (s : gslice) (hi : Z) : res gslice := slice s 0 hi.

(* binary.LittleEndian.UintN(s[off:]) *)
Definition uN (n : nat) (s : gslice) (off : Z) : res Z :=
  if (0 <=? off) && (off + Z.of_nat n <=? len s)
  then Ok (le_dec (sub (vis s) off (off + Z.of_nat n)))
  else Panic.
Definition u16 := uN 2. Definition u32 := uN 4. Definition u64 := uN 8.
Definition i16 s off := v <- u16 s off ;; Ok (sint16 v).
Definition i32 s off := v <- u32 s off ;; Ok (sint32 v).
Definition i64 s off := v <- u64 s off ;; Ok (sint64 v).

Lemma uN_ok n s off : 0 <= off -> off + Z.of_nat n <= len s -> exists v, uN n s off = Ok v.
Proof. intros. unfold uN. destruct (_ && _) eqn:E; [eauto|lia]. Qed.
Lemma uN_val n s off : 0 <= off -> off + Z.of_nat n <= len s ->
  uN n s off = Ok (le_dec (sub (vis s) off (off + Z.of_nat n))).
Proof. intros. unfold uN. destruct (_ && _) eqn:E; [eauto|lia]. Qed.
Lemma uN_sub n s off v : 0 <= off -> off + Z.of_nat n <= len s ->
  sub (vis s) off (off + Z.of_nat n) = le_enc n v -> 0 <= v < 2 ^ (8 * Z.of_nat n) -> uN n s off = Ok v.
Proof. intros. unfold uN. destruct (_ && _) eqn:E; [|lia]. rewrite H1, le_dec_enc; auto. Qed.
Lemma uN_range n s off v : uN n s off = Ok v -> 0 <= v < 2 ^ (8 * Z.of_nat n).
Proof.
  unfold uN. destruct (_ && _) eqn:E; [|discriminate]. intros [= <-].
  pose proof (le_dec_range (sub (vis s) off (off + Z.of_nat n))) as H.
  assert (L : blen (sub (vis s) off (off + Z.of_nat n)) = Z.of_nat n).
  { rewrite sub_length; unfold len in *; lia. }
  unfold blen in L. apply Nat2Z.inj in L. rewrite L in H. exact H.
Qed.
Lemma uN_panic_iff n s off : uN n s off = Panic <-> ~ (0 <= off /\ off + Z.of_nat n <= len s).
Proof.
  unfold uN. destruct (_ && _) eqn:E; split; intros H; try discriminate; try reflexivity.
  - exfalso. apply H. lia.
  - intros [? ?]. lia.
Qed.
Lemma idx_ok s i : 0 <= i < len s -> idx s i = Ok (byte_at (vis s) i).
Proof. intros. unfold idx. destruct (_ && _) eqn:E; [reflexivity|lia]. Qed.
Lemma idx_range s i v : idx s i = Ok v -> 0 <= v < 256.
Proof. unfold idx. destruct (_ && _); [|discriminate]. intros [= <-]. apply byte_at_range. Qed.

(* slices of an exact (cap = len) slice that stay inside it *)
Lemma slice_len s lo hi r : slice s lo hi = Ok r -> len r = hi - lo.
Proof.
  unfold slice. destruct (_ && _) eqn:E; [|discriminate]. intros [= <-].
  unfold len. cbn [vis]. rewrite sub_length; unfold cap, mem in *; bl; lia.
Qed.
Lemma slice_vis_within s lo hi r :
  slice s lo hi = Ok r -> hi <= len s -> vis r = sub (vis s) lo hi.
Proof.
  unfold slice. destruct (_ && _) eqn:E; [|discriminate]. intros [= <-] H.
  cbn [vis]. unfold mem. unfold len in H. apply sub_app_l; lia.
Qed.
Lemma slice_ok s lo hi : 0 <= lo -> lo <= hi -> hi <= cap s -> exists r, slice s lo hi = Ok r.
Proof. intros. unfold slice. destruct (_ && _) eqn:E; [eauto|lia]. Qed.
Lemma slice_from_len s lo r : slice_from s lo = Ok r -> len r = len s - lo.
Proof.
  unfold slice_from. destruct (_ && _) eqn:E; [|discriminate]. intros [= <-].
  unfold len in *. cbn [vis]. rewrite sub_length; lia.
Qed.

(* Go's  (off + a - 1) &^ (a - 1)  *)
Definition go_align (off a : Z) : Z := if a <=? 1 then off else Z.ldiff (off + a - 1) (a - 1).
Lemma go_align_pow2 off k : 0 <= k -> 0 <= off -> go_align off (2 ^ k) = align off (2 ^ k).
Proof.
  intros Hk Hoff. unfold go_align, align. destruct (2 ^ k <=? 1) eqn:E; [reflexivity|].
  replace (2 ^ k - 1) with (Z.ones k) by (rewrite Z.ones_equiv; lia).
  rewrite Z.ldiff_ones_r by lia. rewrite Z.shiftr_div_pow2, Z.shiftl_mul_pow2 by lia.
  reflexivity.
Qed.
Lemma go_align_1 off : go_align off 1 = off. Proof. reflexivity. Qed.
Lemma go_align_2 off : 0 <= off -> go_align off 2 = align off 2.
Proof. intros. apply (go_align_pow2 off 1); lia. Qed.
Lemma go_align_4 off : 0 <= off -> go_align off 4 = align off 4.
Proof. intros. apply (go_align_pow2 off 2); lia. Qed.
Lemma go_align_8 off : 0 <= off -> go_align off 8 = align off 8.
Proof. intros. apply (go_align_pow2 off 3); lia. Qed.
