(* Base/Value.v — the dynamically typed Go values pgread produces (interface{}). *)
Require Import PG.Base.Bytes.

Inductive gval :=
| VNil                                  (* untyped nil *)
| VBool (b : bool)
| VI16 (z : Z) | VI32 (z : Z) | VI64 (z : Z) | VInt (z : Z)
| VU16 (z : Z) | VU32 (z : Z) | VU64 (z : Z)
| VF32 (bits : Z) | VF64 (bits : Z)     (* IEEE bit patterns, never decimal renderings *)
| VStr (s : bytes)                      (* Go string: arbitrary bytes *)
| VBytes (s : bytes)                    (* []byte *)
| VList (l : list gval)                 (* []interface{} (non-nil) *)
| VListNil                              (* nil []interface{} : len 0, but renders as JSON null *)
| VMap (m : list (bytes * gval)).       (* map[string]interface{}: association list in insertion order;
                                           Go semantics = last write wins, compared up to key order *)

(* a decoded row: column name -> value, in insertion order (duplicates collapse, last wins) *)
Definition row := list (bytes * gval).
