(* Base/Bytes.v — byte strings, little-endian codecs, positional [sub] calculus.
   Shared by every property.  Do not add property-specific material here. *)
From Coq Require Export ZArith List Lia ZifyBool Bool.
From Coq.Strings Require Export Byte.
Export ListNotations.
#[global] Open Scope bool_scope.
#[global] Open Scope Z_scope.
Ltac Zify.zify_post_hook ::= Z.div_mod_to_equations.

Definition bytes := list byte.
Definition b2z (b : byte) : Z := Z.of_N (Byte.to_N b).
Definition z2b (z : Z) : byte :=
  match Byte.of_N (Z.to_N (z mod 256)) with Some b => b | None => x00 end.

Lemma b2z_range b : 0 <= b2z b < 256.
Proof. unfold b2z. pose proof (Byte.to_N_bounded b). lia. Qed.

Lemma b2z_z2b z : b2z (z2b z) = z mod 256.
Proof.
  unfold z2b, b2z.
  destruct (Byte.of_N (Z.to_N (z mod 256))) eqn:E.
  - apply Byte.to_of_N in E. rewrite E. lia.
  - apply Byte.of_N_None_iff in E. lia.
Qed.

Lemma z2b_b2z b : z2b (b2z b) = b.
Proof.
  unfold z2b, b2z. pose proof (Byte.to_N_bounded b).
  rewrite Z.mod_small by lia. rewrite N2Z.id, Byte.of_to_N. reflexivity.
Qed.

Lemma b2z_inj a b : b2z a = b2z b -> a = b.
Proof. intros H. rewrite <- (z2b_b2z a), <- (z2b_b2z b), H. reflexivity. Qed.

(* ---------- little endian ---------- *)
Fixpoint le_enc (n : nat) (v : Z) : bytes :=
  match n with O => [] | S k => z2b v :: le_enc k (v / 256) end.
Fixpoint le_dec (bs : bytes) : Z :=
  match bs with [] => 0 | b :: r => b2z b + 256 * le_dec r end.

Lemma le_enc_length n v : length (le_enc n v) = n.
Proof. revert v; induction n; simpl; intros; auto. Qed.

Lemma le_dec_enc n : forall v, 0 <= v < 2 ^ (8 * Z.of_nat n) -> le_dec (le_enc n v) = v.
Proof.
  induction n as [|n IH]; intros v Hv.
  - simpl in *. lia.
  - cbn [le_enc le_dec]. rewrite b2z_z2b.
    replace (8 * Z.of_nat (S n)) with (8 + 8 * Z.of_nat n) in Hv by lia.
    rewrite Z.pow_add_r in Hv by lia. change (2^8) with 256 in Hv.
    rewrite IH; [lia|].
    split; [apply Z.div_pos; lia|]. apply Z.div_lt_upper_bound; lia.
Qed.

Lemma le_dec_range bs : 0 <= le_dec bs < 2 ^ (8 * Z.of_nat (length bs)).
Proof.
  induction bs as [|b r IH]; simpl length.
  - simpl. lia.
  - cbn [le_dec]. pose proof (b2z_range b).
    replace (8 * Z.of_nat (S (length r))) with (8 + 8 * Z.of_nat (length r)) by lia.
    rewrite Z.pow_add_r by lia. change (2^8) with 256. lia.
Qed.

Lemma le_enc_dec bs : le_enc (length bs) (le_dec bs) = bs.
Proof.
  induction bs as [|b r IH]; [reflexivity|].
  cbn [length le_enc le_dec]. pose proof (b2z_range b).
  f_equal.
  - rewrite <- (z2b_b2z b) at 2. unfold z2b.
    replace ((b2z b + 256 * le_dec r) mod 256) with (b2z b mod 256) by lia. reflexivity.
  - replace ((b2z b + 256 * le_dec r) / 256) with (le_dec r) by lia. exact IH.
Qed.

(* ---------- lengths as Z ---------- *)
Definition blen (b : bytes) : Z := Z.of_nat (length b).
Definition zeros (n : Z) : bytes := repeat x00 (Z.to_nat n).

Lemma blen_app a b : blen (a ++ b) = blen a + blen b.
Proof. unfold blen. rewrite app_length. lia. Qed.
Lemma blen_cons x a : blen (x :: a) = 1 + blen a.
Proof. unfold blen. simpl length. lia. Qed.
Lemma blen_nil : blen [] = 0. Proof. reflexivity. Qed.
Lemma blen_le n v : blen (le_enc n v) = Z.of_nat n.
Proof. unfold blen. rewrite le_enc_length. reflexivity. Qed.
Lemma blen_nonneg a : 0 <= blen a. Proof. unfold blen. lia. Qed.
Lemma zeros_len n : 0 <= n -> blen (zeros n) = n.
Proof. intros. unfold blen, zeros. rewrite repeat_length. lia. Qed.
Lemma blen_repeat (x : byte) n : blen (repeat x n) = Z.of_nat n.
Proof. unfold blen. rewrite repeat_length. reflexivity. Qed.
Lemma blen_firstn n (a : bytes) : blen (firstn n a) = Z.min (Z.of_nat n) (blen a).
Proof. unfold blen. rewrite firstn_length. lia. Qed.
Lemma blen_skipn n (a : bytes) : blen (skipn n a) = Z.max 0 (blen a - Z.of_nat n).
Proof. unfold blen. rewrite skipn_length. lia. Qed.

Create HintDb blen.
#[export] Hint Rewrite blen_app blen_cons blen_nil blen_le blen_repeat : blen.
#[export] Hint Rewrite zeros_len using lia : blen.
Ltac bl := autorewrite with blen in *.

(* ---------- sub: the bytes in [lo, hi) ---------- *)
Definition sub (bs : bytes) (lo hi : Z) : bytes :=
  firstn (Z.to_nat (hi - lo)) (skipn (Z.to_nat lo) bs).

Lemma skipn_skipn' {A} (l : list A) n m : skipn n (skipn m l) = skipn (m + n) l.
Proof. revert l; induction m; intros l; simpl; auto. destruct l; [destruct n; reflexivity|apply IHm]. Qed.

Lemma sub_app_r (a b : bytes) lo hi :
  blen a <= lo -> sub (a ++ b) lo hi = sub b (lo - blen a) (hi - blen a).
Proof.
  unfold blen. intros H. unfold sub. rewrite skipn_app.
  rewrite skipn_all2 by lia. simpl.
  replace (Z.to_nat lo - length a)%nat with (Z.to_nat (lo - Z.of_nat (length a))) by lia.
  f_equal. lia.
Qed.
Lemma sub_app_l (a b : bytes) lo hi :
  0 <= lo -> hi <= blen a -> sub (a ++ b) lo hi = sub a lo hi.
Proof.
  unfold blen. intros H0 H. unfold sub. rewrite skipn_app, firstn_app.
  replace (Z.to_nat (hi - lo) - length (skipn (Z.to_nat lo) a))%nat with 0%nat
    by (rewrite skipn_length; lia).
  simpl. apply app_nil_r.
Qed.
Lemma sub_exact (a : bytes) lo hi : lo = 0 -> hi = blen a -> sub a lo hi = a.
Proof. intros -> ->. unfold sub, blen. simpl. rewrite Z.sub_0_r, Nat2Z.id. apply firstn_all. Qed.
Lemma sub_mid pre m post lo hi :
  lo = blen pre -> hi = blen pre + blen m -> sub (pre ++ m ++ post) lo hi = m.
Proof.
  intros -> ->. rewrite sub_app_r by lia. rewrite sub_app_l by lia.
  apply sub_exact; lia.
Qed.
Lemma sub_sub (a : bytes) lo hi x y :
  0 <= lo -> 0 <= x -> x <= y -> lo + y <= hi ->
  sub (sub a lo hi) x y = sub a (lo + x) (lo + y).
Proof.
  intros. unfold sub. rewrite skipn_firstn_comm, skipn_skipn', firstn_firstn.
  f_equal; [lia|]. f_equal. lia.
Qed.
Lemma sub_length (a : bytes) lo hi :
  0 <= lo -> lo <= hi -> hi <= blen a -> blen (sub a lo hi) = hi - lo.
Proof.
  unfold blen, sub. intros. rewrite firstn_length, skipn_length. lia.
Qed.
Lemma sub_length_le (a : bytes) lo hi : blen (sub a lo hi) <= Z.max 0 (hi - lo).
Proof. unfold blen, sub. rewrite firstn_length. lia. Qed.
Lemma sub_nil (a : bytes) lo hi : hi <= lo -> sub a lo hi = [].
Proof. intros. unfold sub. replace (Z.to_nat (hi - lo)) with 0%nat by lia. reflexivity. Qed.
Lemma firstn_plus {A} (l : list A) m n : firstn (m + n) l = firstn m l ++ firstn n (skipn m l).
Proof.
  revert l; induction m as [|m IH]; intros l; [reflexivity|].
  destruct l as [|x l]; [simpl; rewrite firstn_nil; reflexivity|].
  cbn [Nat.add firstn skipn app]. f_equal. apply IH.
Qed.
Lemma sub_split (a : bytes) lo mid hi :
  0 <= lo -> lo <= mid -> mid <= hi -> sub a lo hi = sub a lo mid ++ sub a mid hi.
Proof.
  intros. unfold sub.
  replace (Z.to_nat (hi - lo)) with (Z.to_nat (mid - lo) + Z.to_nat (hi - mid))%nat by lia.
  rewrite firstn_plus, skipn_skipn'. do 3 f_equal. lia.
Qed.
Lemma sub_full (a : bytes) : sub a 0 (blen a) = a.
Proof. apply sub_exact; reflexivity. Qed.
Lemma sub_firstn_skipn (a : bytes) n : 0 <= n -> sub a 0 n = firstn (Z.to_nat n) a.
Proof. intros. unfold sub. simpl. rewrite Z.sub_0_r. reflexivity. Qed.
Lemma sub_to_end (a : bytes) lo hi : 0 <= lo -> blen a <= hi -> sub a lo hi = skipn (Z.to_nat lo) a.
Proof. unfold blen, sub. intros. apply firstn_all2. rewrite skipn_length. lia. Qed.

(* [ssub]: compute [sub] of an append-built image; side conditions by [bl; lia] *)
Ltac ssub :=
  rewrite <- ?app_assoc;
  repeat first [ rewrite sub_app_r by (bl; lia) | rewrite sub_app_l by (bl; lia) ];
  try (apply sub_exact; bl; lia).

(* nth byte as Z, 0 when out of range (only used under a bounds guard) *)
Definition byte_at (d : bytes) (i : Z) : Z := b2z (nth (Z.to_nat i) d x00).
Lemma byte_at_range d i : 0 <= byte_at d i < 256.
Proof. apply b2z_range. Qed.
Lemma byte_at_sub d i : 0 <= i < blen d -> sub d i (i + 1) = [z2b (byte_at d i)].
Proof.
  unfold blen, sub, byte_at. intros H. rewrite z2b_b2z.
  replace (Z.to_nat (i + 1 - i)) with 1%nat by lia.
  remember (Z.to_nat i) as n. assert (Hn : (n < length d)%nat) by lia. clear - Hn.
  revert d Hn. induction n; intros [|x d] Hn; simpl in *; try lia; auto.
  apply IHn. lia.
Qed.
Lemma byte_at_app_r a b i : blen a <= i -> byte_at (a ++ b) i = byte_at b (i - blen a).
Proof.
  unfold byte_at, blen. intros. rewrite app_nth2 by lia. do 2 f_equal. lia.
Qed.
Lemma byte_at_app_l a b i : 0 <= i < blen a -> byte_at (a ++ b) i = byte_at a i.
Proof. unfold byte_at, blen. intros. rewrite app_nth1 by lia. reflexivity. Qed.
Lemma byte_at_cons0 x a : byte_at (x :: a) 0 = b2z x.
Proof. reflexivity. Qed.
Lemma byte_at_le_dec d i : 0 <= i < blen d -> byte_at d i = le_dec (sub d i (i + 1)).
Proof.
  intros. rewrite byte_at_sub by lia. cbn [le_dec]. rewrite b2z_z2b.
  pose proof (byte_at_range d i). rewrite Z.mod_small by lia. lia.
Qed.

(* signed views *)
Definition sint (bits : Z) (z : Z) : Z := if z <? 2 ^ (bits - 1) then z else z - 2 ^ bits.
Definition sint16 := sint 16.
Definition sint32 := sint 32.
Definition sint64 := sint 64.
Definition wrap (bits : Z) (z : Z) : Z := z mod 2 ^ bits.
Lemma sint_wrap bits z : 0 < bits -> - 2 ^ (bits - 1) <= z < 2 ^ (bits - 1) -> sint bits (wrap bits z) = z.
Proof.
  intros Hb Hz. unfold sint, wrap.
  assert (E : 2 ^ bits = 2 * 2 ^ (bits - 1)).
  { replace bits with (1 + (bits - 1)) at 1 by lia. rewrite Z.pow_add_r by lia. reflexivity. }
  assert (0 < 2 ^ (bits - 1)) by (apply Z.pow_pos_nonneg; lia).
  destruct (Z_lt_ge_dec z 0).
  - replace (z mod 2 ^ bits) with (z + 2 ^ bits).
    + destruct (Z.ltb_spec (z + 2 ^ bits) (2 ^ (bits - 1))); lia.
    + symmetry. rewrite <- (Z.mod_add z 1 (2 ^ bits)) by lia. rewrite Z.mod_small; lia.
  - rewrite Z.mod_small by lia. destruct (Z.ltb_spec z (2 ^ (bits - 1))); lia.
Qed.

(* Go's [x &^ (a-1)] rounding for a power of two [a] *)
Definition align (off a : Z) : Z := if a <=? 1 then off else (off + a - 1) / a * a.
Lemma align_ge off a : 0 < a -> off <= align off a.
Proof. intros. unfold align. destruct (a <=? 1) eqn:E; lia. Qed.
Lemma align_lt off a : 0 < a -> align off a < off + a.
Proof. intros. unfold align. destruct (a <=? 1) eqn:E; lia. Qed.
Lemma align_mod off a : 0 < a -> align off a mod a = 0.
Proof.
  intros. unfold align. destruct (a <=? 1) eqn:E.
  - assert (a = 1) by lia. subst. apply Z.mod_1_r.
  - apply Z.mod_mul. lia.
Qed.
Lemma align_id off a : 0 < a -> off mod a = 0 -> align off a = off.
Proof.
  intros Ha H. unfold align. destruct (a <=? 1) eqn:E; [reflexivity|].
  apply Z.mod_divide in H; [|lia]. destruct H as [q ->].
  replace (q * a + a - 1) with ((a - 1) + q * a) by lia.
  rewrite Z.div_add by lia. rewrite Z.div_small by lia. lia.
Qed.
