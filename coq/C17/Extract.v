Require Import PG.Base.Bytes PG.Base.GoSlice PG.C17.Names PG.C17.Model PG.C17.SpecNames PG.C17.Spec.
Require Extraction. Require ExtrOcamlBasic.
Extraction "model.ml" rmgrName operationName FormatLSN isValidMagic pgVersionFromMagic align8 isZeroPadding
  parsePageHeader parseBlockRefs parseXLogRecord parseWALPage ParseWALFile ScanWALDirectory GetRecentWALRecords
  pg_rmgr_name pg_op_name kf_rmgr_name kf_op_name kf_blockrefs kf_names kf_straddle
  enc_xrec enc_body x_totlen enc_page enc_hdr enc_segment expected_page expected_segment expected_rec observe
  first_start hdr_size pad8 spec_ops spec_txns spec_tables zmin_list zmax_list lastn is_xlog_file_name
  is_segment_file count.
