(* Model of pgdump/wal.go: rmgrName, operationName (wal.go:377-519) and the small string helpers
   the WAL code needs (Sprintf "%d" / "%02X" / "%X" on bounded integers, strings.Contains,
   strings.HasSuffix).  Strings are Go strings = byte lists. *)
Require Import PG.Base.Bytes.
Require Import Coq.Strings.String.

Definition str (s : String.string) : bytes := String.list_byte_of_string s.

(* ---- integer formatting ---- *)
Definition digit (d : Z) : byte := z2b (48 + d).
(* fmt "%d" of a uint8 *)
Definition dec_u8 (n : Z) : bytes :=
  if n <? 10 then [digit n]
  else if n <? 100 then [digit (n / 10); digit (n mod 10)]
  else [digit (n / 100); digit (n / 10 mod 10); digit (n mod 10)].
Definition hexdigit (d : Z) : byte := if d <? 10 then z2b (48 + d) else z2b (55 + d).
(* fmt "%02X" of a uint8 *)
Definition hex2 (n : Z) : bytes := [hexdigit (n / 16); hexdigit (n mod 16)].
(* fmt "%X" of a non-negative integer below 16^digits: no leading zeros, "0" for 0 *)
Fixpoint hexX_aux (digits : nat) (n : Z) (acc : bytes) : bytes :=
  match digits with
  | O => acc
  | S k => if n =? 0 then acc else hexX_aux k (n / 16) (hexdigit (n mod 16) :: acc)
  end.
Definition hexX (n : Z) : bytes := if n =? 0 then [digit 0] else hexX_aux 16 n [].
(* fmt "%d" of a non-negative integer below 10^20 *)
Fixpoint dec_aux (digits : nat) (n : Z) (acc : bytes) : bytes :=
  match digits with
  | O => acc
  | S k => if n =? 0 then acc else dec_aux k (n / 10) (digit (n mod 10) :: acc)
  end.
Definition decZ (n : Z) : bytes := if n =? 0 then [digit 0] else dec_aux 20 n [].

(* ---- string predicates ---- *)
Fixpoint bytes_eqb (a b : bytes) : bool :=
  match a, b with
  | [], [] => true
  | x :: a', y :: b' => Byte.eqb x y && bytes_eqb a' b'
  | _, _ => false
  end.
Fixpoint has_prefix (p s : bytes) : bool :=
  match p, s with
  | [], _ => true
  | x :: p', y :: s' => Byte.eqb x y && has_prefix p' s'
  | _ :: _, [] => false
  end.
(* strings.Contains(hay, needle) *)
Fixpoint contains (hay needle : bytes) : bool :=
  has_prefix needle hay || match hay with [] => false | _ :: t => contains t needle end.
(* strings.HasSuffix(s, suf) *)
Definition has_suffix (s suf : bytes) : bool :=
  let ls := List.length s in let lf := List.length suf in
  (lf <=? ls)%nat && bytes_eqb (skipn (ls - lf) s) suf.

Fixpoint assocZ {A} (k : Z) (tbl : list (Z * A)) : option A :=
  match tbl with [] => None | (k', v) :: r => if k =? k' then Some v else assocZ k r end.

(* ---- wal.go:377-406 rmgrName: map literal, lookup, else Sprintf("RM_%d") ---- *)
Definition rmgr_names : list (Z * bytes) := Eval vm_compute in
  [ (0, str "XLOG"); (1, str "Transaction"); (2, str "Storage"); (3, str "CLOG"); (4, str "Database");
    (5, str "Tablespace"); (6, str "MultiXact"); (7, str "RelMap"); (8, str "Standby"); (9, str "Heap2");
    (10, str "Heap"); (11, str "BTree"); (12, str "Hash"); (13, str "GIN"); (14, str "GiST");
    (15, str "Sequence"); (16, str "SP-GiST"); (17, str "BRIN"); (18, str "CommitTS");
    (19, str "ReplOrigin"); (20, str "Generic"); (21, str "LogicalMsg") ].
Definition s_RM_ : bytes := Eval vm_compute in str "RM_".
Definition rmgrName (rmid : Z) : bytes :=
  match assocZ rmid rmgr_names with Some n => n | None => s_RM_ ++ dec_u8 rmid end.

(* ---- wal.go:408-519 operationName: switch rmid { switch info & mask {...} }, every miss falls
   through to Sprintf("op_0x%02X", info) ---- *)
(* the switch tables; string literals are evaluated to byte lists here so that the extracted code
   does not mention Coq's [string] type *)
Definition heap_ops : list (Z * bytes) := Eval vm_compute in
  [ (0, str "INSERT"); (16, str "DELETE"); (32, str "UPDATE"); (48, str "TRUNCATE");
    (64, str "HOT_UPDATE"); (80, str "CONFIRM"); (96, str "LOCK"); (112, str "INPLACE") ].
Definition heap2_ops : list (Z * bytes) := Eval vm_compute in
  [ (0, str "PRUNE"); (16, str "VACUUM"); (32, str "FREEZE_PAGE"); (48, str "VISIBLE");
    (64, str "MULTI_INSERT"); (80, str "LOCK_UPDATED"); (96, str "NEW_CID") ].
Definition xact_ops : list (Z * bytes) := Eval vm_compute in
  [ (0, str "COMMIT"); (16, str "PREPARE"); (32, str "ABORT"); (48, str "COMMIT_PREPARED");
    (64, str "ABORT_PREPARED"); (80, str "ASSIGNMENT") ].
Definition xlog_ops : list (Z * bytes) := Eval vm_compute in
  [ (0, str "CHECKPOINT_SHUTDOWN"); (16, str "CHECKPOINT_ONLINE"); (32, str "NOOP");
    (48, str "NEXTOID"); (64, str "SWITCH"); (80, str "BACKUP_END");
    (96, str "PARAMETER_CHANGE"); (112, str "RESTORE_POINT"); (128, str "FPW_CHANGE");
    (144, str "END_OF_RECOVERY"); (160, str "OVERWRITE_CONTRECORD") ].
Definition smgr_ops : list (Z * bytes) := Eval vm_compute in [ (16, str "CREATE"); (32, str "TRUNCATE") ].
Definition dbase_ops : list (Z * bytes) := Eval vm_compute in [ (0, str "CREATE"); (16, str "DROP") ].
Definition btree_ops : list (Z * bytes) := Eval vm_compute in
  [ (0, str "INSERT_LEAF"); (16, str "INSERT_UPPER"); (32, str "INSERT_META");
    (48, str "SPLIT_L"); (64, str "SPLIT_R"); (96, str "DELETE"); (112, str "UNLINK_PAGE") ].
Definition s_op_0x : bytes := Eval vm_compute in str "op_0x".
Definition s_slash : bytes := Eval vm_compute in str "/".

Definition operationName (rmid info : Z) : bytes :=
  let dflt := s_op_0x ++ hex2 info in
  let sw (key : Z) (tbl : list (Z * bytes)) := match assocZ key tbl with Some n => n | None => dflt end in
  if rmid =? 10 then sw (Z.land info 112) heap_ops          (* RM_HEAP_ID, info & 0x70 *)
  else if rmid =? 9 then sw (Z.land info 112) heap2_ops     (* RM_HEAP2_ID, info & 0x70 *)
  else if rmid =? 1 then sw (Z.land info 112) xact_ops      (* RM_XACT_ID, info & 0x70 *)
  else if rmid =? 0 then sw (Z.land info 240) xlog_ops      (* RM_XLOG_ID, info & 0xF0 *)
  else if rmid =? 2 then sw (Z.land info 112) smgr_ops      (* RM_SMGR_ID, info & 0x70 *)
  else if rmid =? 4 then sw (Z.land info 112) dbase_ops     (* RM_DBASE_ID, info & 0x70 *)
  else if rmid =? 11 then sw (Z.land info 112) btree_ops    (* RM_BTREE_ID, info & 0x70 *)
  else dflt.

(* wal.go:521-524 FormatLSN: Sprintf("%X/%X", lsn>>32, lsn&0xFFFFFFFF) *)
Definition FormatLSN (lsn : Z) : bytes := hexX (lsn / 2 ^ 32) ++ s_slash ++ hexX (lsn mod 2 ^ 32).

(* wal.go:340-362 *)
Definition isValidMagic (m : Z) : bool :=
  (m =? 53523) || (m =? 53520) || (m =? 53519) || (m =? 53517) || (m =? 53513).
  (* 0xD113, 0xD110, 0xD10F, 0xD10D, 0xD109 *)
Definition s_16 : bytes := Eval vm_compute in str "16".
Definition s_15 : bytes := Eval vm_compute in str "15".
Definition s_14 : bytes := Eval vm_compute in str "14".
Definition s_13 : bytes := Eval vm_compute in str "13".
Definition s_12 : bytes := Eval vm_compute in str "12".
Definition s_unknown : bytes := Eval vm_compute in str "unknown".
Definition pgVersionFromMagic (m : Z) : bytes :=
  if m =? 53523 then s_16 else if m =? 53520 then s_15 else if m =? 53519 then s_14
  else if m =? 53517 then s_13 else if m =? 53513 then s_12 else s_unknown.

Definition str_history : bytes := Eval vm_compute in str ".history".
Definition str_commit : bytes := Eval vm_compute in str "COMMIT".
Definition str_abort : bytes := Eval vm_compute in str "ABORT".
