(* Exhaustive (finite-domain) theorems about the name tables: all 256 rmids, all 65 536 (rmid, info). *)
Require Import PG.Base.Bytes PG.C17.Names PG.C17.SpecNames.

Lemma byte_eqb_eq a b : Byte.eqb a b = true <-> a = b.
Proof. split; [apply Byte.byte_dec_bl|apply Byte.byte_dec_lb]. Qed.
Lemma bytes_eqb_eq a : forall b, bytes_eqb a b = true <-> a = b.
Proof.
  induction a as [|x a IH]; intros [|y b]; cbn [bytes_eqb]; split; intros H; try discriminate; auto.
  - apply andb_prop in H. destruct H as [H1 H2]. apply byte_eqb_eq in H1. apply IH in H2. congruence.
  - injection H as -> ->. apply andb_true_intro. split; [apply byte_eqb_eq; reflexivity|apply IH; reflexivity].
Qed.
Lemma bytes_eqb_refl a : bytes_eqb a a = true.
Proof. apply bytes_eqb_eq. reflexivity. Qed.
Lemma bytes_eqb_neq a b : bytes_eqb a b = false <-> a <> b.
Proof.
  split; intros H.
  - intros E. apply bytes_eqb_eq in E. congruence.
  - destruct (bytes_eqb a b) eqn:E; [|reflexivity]. apply bytes_eqb_eq in E. contradiction.
Qed.

Definition all256 : list Z := map Z.of_nat (seq 0 256).
Lemma in_all256 z : 0 <= z < 256 -> In z all256.
Proof.
  intros H. unfold all256. replace z with (Z.of_nat (Z.to_nat z)) by lia.
  apply in_map. apply in_seq. lia.
Qed.
Lemma forall256 (p : Z -> bool) : forallb p all256 = true -> forall z, 0 <= z < 256 -> p z = true.
Proof. intros H z Hz. rewrite forallb_forall in H. apply H. apply in_all256. exact Hz. Qed.
Lemma forall256x256 (p : Z -> Z -> bool) :
  forallb (fun a => forallb (p a) all256) all256 = true ->
  forall a b, 0 <= a < 256 -> 0 <= b < 256 -> p a b = true.
Proof. intros H a b Ha Hb. apply (forall256 (p a)); [|exact Hb]. apply (forall256 _ H a Ha). Qed.

(* name agrees with the (optional) PostgreSQL name *)
Definition agrees (got : bytes) (want : option bytes) : bool :=
  match want with Some n => bytes_eqb got n | None => true end.
Definition differs (got : bytes) (want : option bytes) : bool :=
  match want with Some n => negb (bytes_eqb got n) | None => false end.

Lemma rmgr_partial_b : forallb (fun r => kf_rmgr_name r || agrees (rmgrName r) (pg_rmgr_name r)) all256 = true.
Proof. vm_compute. reflexivity. Qed.
Lemma rmgr_exact_b : forallb (fun r => negb (kf_rmgr_name r) || differs (rmgrName r) (pg_rmgr_name r)) all256 = true.
Proof. vm_compute. reflexivity. Qed.
Lemma op_partial_b :
  forallb (fun r => forallb (fun i => kf_op_name r i || agrees (operationName r i) (pg_op_name r i)) all256) all256 = true.
Proof. vm_compute. reflexivity. Qed.
Lemma op_exact_b :
  forallb (fun r => forallb (fun i => negb (kf_op_name r i) || differs (operationName r i) (pg_op_name r i)) all256) all256 = true.
Proof. vm_compute. reflexivity. Qed.

Lemma rmgr_names_partial rmid n :
  0 <= rmid < 256 -> kf_rmgr_name rmid = false -> pg_rmgr_name rmid = Some n -> rmgrName rmid = n.
Proof.
  intros H K P. pose proof (forall256 _ rmgr_partial_b rmid H) as Q. cbv beta in Q.
  rewrite K, P in Q. cbn [orb agrees] in Q. apply bytes_eqb_eq. exact Q.
Qed.
Lemma rmgr_names_class rmid :
  0 <= rmid < 256 -> kf_rmgr_name rmid = true -> exists n, pg_rmgr_name rmid = Some n /\ rmgrName rmid <> n.
Proof.
  intros H K. pose proof (forall256 _ rmgr_exact_b rmid H) as Q. cbv beta in Q.
  rewrite K in Q. cbn [negb orb] in Q. unfold differs in Q.
  destruct (pg_rmgr_name rmid) as [n|]; [|discriminate]. exists n. split; [reflexivity|].
  apply bytes_eqb_neq. destruct (bytes_eqb (rmgrName rmid) n); [discriminate|reflexivity].
Qed.
Lemma op_names_partial rmid info n :
  0 <= rmid < 256 -> 0 <= info < 256 -> kf_op_name rmid info = false ->
  pg_op_name rmid info = Some n -> operationName rmid info = n.
Proof.
  intros H H' K P.
  pose proof (forall256x256 (fun r i => kf_op_name r i || agrees (operationName r i) (pg_op_name r i)) op_partial_b rmid info H H') as Q.
  cbv beta in Q. rewrite K, P in Q. cbn [orb agrees] in Q. apply bytes_eqb_eq. exact Q.
Qed.
Lemma op_names_class rmid info :
  0 <= rmid < 256 -> 0 <= info < 256 -> kf_op_name rmid info = true ->
  exists n, pg_op_name rmid info = Some n /\ operationName rmid info <> n.
Proof.
  intros H H' K.
  pose proof (forall256x256 (fun r i => negb (kf_op_name r i) || differs (operationName r i) (pg_op_name r i)) op_exact_b rmid info H H') as Q.
  cbv beta in Q. rewrite K in Q. cbn [negb orb] in Q. unfold differs in Q.
  destruct (pg_op_name rmid info) as [n|]; [|discriminate]. exists n. split; [reflexivity|].
  apply bytes_eqb_neq. destruct (bytes_eqb (operationName rmid info) n); [discriminate|reflexivity].
Qed.

(* strings.Contains(op, "COMMIT"/"ABORT") on the Transaction rmgr = the PostgreSQL outcome of the record *)
Lemma xact_status_b :
  forallb (fun i => Bool.eqb (contains (operationName 1 i) str_commit) (xact_commits i)
                 && Bool.eqb (negb (contains (operationName 1 i) str_commit) && contains (operationName 1 i) str_abort)
                             (xact_aborts i)) all256 = true.
Proof. vm_compute. reflexivity. Qed.
Lemma xact_status info : 0 <= info < 256 ->
  contains (operationName 1 info) str_commit = xact_commits info /\
  (negb (contains (operationName 1 info) str_commit) && contains (operationName 1 info) str_abort) = xact_aborts info.
Proof.
  intros H. pose proof (forall256 _ xact_status_b info H) as Q. cbv beta in Q.
  apply andb_prop in Q. destruct Q as [Q1 Q2]. apply Bool.eqb_prop in Q1, Q2. auto.
Qed.
