(* parseXLogRecord / parseWALPage on the reference writer's pages, and totality on all byte strings. *)
Require Import PG.Base.Bytes PG.Base.GoSlice PG.C17.Names PG.C17.Model PG.C17.SpecNames PG.C17.Spec.
Require Import PG.C17.NamesProofs PG.C17.BlockrefsProofs.

(* ---------- byte-level helpers ---------- *)
Lemma sub_firstn (X : bytes) n a b : 0 <= a -> b <= n -> sub (firstn (Z.to_nat n) X) a b = sub X a b.
Proof.
  intros Ha Hb. unfold sub. rewrite skipn_firstn_comm, firstn_firstn. f_equal. lia.
Qed.
Lemma zeros_app a b : 0 <= a -> 0 <= b -> zeros (a + b) = zeros a ++ zeros b.
Proof. intros. unfold zeros. rewrite Z2Nat.inj_add by lia. apply repeat_app. Qed.
Lemma sub_zeros n a b : 0 <= a -> a <= b -> b <= n -> sub (zeros n) a b = zeros (b - a).
Proof.
  intros. replace n with (a + ((b - a) + (n - b))) by lia.
  rewrite zeros_app by lia. rewrite (zeros_app (b - a)) by lia.
  apply sub_mid; bl; lia.
Qed.

Definition agree (v : bytes) (pos : Z) (W : bytes) (lim : Z) : Prop :=
  forall a b, 0 <= a -> a <= b -> pos + b <= lim -> sub v (pos + a) (pos + b) = sub W a b.

Lemma enc_xrec_len r : blen (enc_xrec r) = x_totlen r.
Proof. unfold enc_xrec, x_totlen. bl. lia. Qed.
Lemma rec_img_len r : 24 <= x_totlen r -> blen (rec_img r) = x_totlen r + pad8 (x_totlen r).
Proof.
  intros H. unfold rec_img. bl. rewrite enc_xrec_len. rewrite zeros_len; [lia|].
  pose proof (pad8_spec (x_totlen r)). lia.
Qed.
Lemma totlen_ge r : 24 <= x_totlen r.
Proof. unfold x_totlen. pose proof (blen_nonneg (enc_body r)). lia. Qed.

Lemma le_dec_single z : 0 <= z < 256 -> le_dec [z2b z] = z.
Proof. intros H. cbn [le_dec]. rewrite b2z_z2b_small by lia. lia. Qed.

(* ---------- one record ---------- *)
Definition model_rec (r : xrec) (lsn : Z) (room : Z) : WALRecord :=
  {| r_totlen := x_totlen r; r_xid := x_xid r; r_prev := x_prev r; r_info := x_info r; r_rmid := x_rmid r;
     r_crc := x_crc r; r_lsn := lsn; r_rmname := rmgrName (x_rmid r); r_op := operationName (x_rmid r) (x_info r);
     r_blocks := if (x_totlen r >? 24) && (x_totlen r <=? room) then blocks_of (enc_body r) else [] |}.

Lemma parseXLogRecord_enc d r lsn W :
  wf_rec r -> 24 <= len d -> agree (vis d) 0 (enc_xrec r ++ W) (len d) ->
  parseXLogRecord d lsn = Ok (Some (Some (model_rec r lsn (len d)), x_totlen r)).
Proof.
  intros (Hxid & Hprev & Hinfo & Hrmid & Hpad & Hcrc & Htot) Hlen Hag.
  unfold in_u in *. pose proof (totlen_ge r) as Hge.
  assert (A : forall a b, 0 <= a -> a <= b -> b <= len d -> sub (vis d) a b = sub (enc_xrec r ++ W) a b).
  { intros a b Ha Hab Hb. apply (Hag a b Ha Hab). lia. }
  assert (Lb : blen (enc_body r) = x_totlen r - 24) by (unfold x_totlen; lia).
  unfold parseXLogRecord, XLogRecordSize, WALPageSize.
  destruct (len d <? 24) eqn:E0; [lia|]. clear E0.
  unfold u32, u64.
  rewrite (uN_sub 4 d 0 (x_totlen r)); try lia.
  2:{ rewrite A by lia. unfold enc_xrec. ssub. }
  cbn [bind].
  destruct ((x_totlen r <? 24) || (x_totlen r >? 8192 * 2)) eqn:E1; [lia|]. clear E1.
  rewrite (uN_sub 4 d 4 (x_xid r)); try lia.
  2:{ rewrite A by lia. unfold enc_xrec. ssub. }
  cbn [bind].
  rewrite (uN_sub 8 d 8 (x_prev r)); try lia.
  2:{ rewrite A by lia. unfold enc_xrec. ssub. }
  cbn [bind].
  rewrite (idx_ok d 16) by lia. cbn [bind].
  rewrite (idx_ok d 17) by lia. cbn [bind].
  assert (B16 : byte_at (vis d) 16 = x_info r).
  { rewrite byte_at_le_dec by (unfold len in *; lia). rewrite A by lia.
    replace (sub (enc_xrec r ++ W) 16 (16 + 1)) with [z2b (x_info r)]; [apply le_dec_single; lia|].
    symmetry. unfold enc_xrec. ssub. }
  assert (B17 : byte_at (vis d) 17 = x_rmid r).
  { rewrite byte_at_le_dec by (unfold len in *; lia). rewrite A by lia.
    replace (sub (enc_xrec r ++ W) 17 (17 + 1)) with [z2b (x_rmid r)]; [apply le_dec_single; lia|].
    symmetry. unfold enc_xrec. ssub. }
  rewrite B16, B17.
  rewrite (uN_sub 4 d 20 (x_crc r)); try lia.
  2:{ rewrite A by lia. unfold enc_xrec. ssub. }
  cbn [bind].
  unfold model_rec.
  destruct ((x_totlen r >? 24) && (x_totlen r <=? len d)) eqn:E2.
  - unfold slice. pose proof (len_le_cap d).
    destruct ((0 <=? 24) && (24 <=? x_totlen r) && (x_totlen r <=? cap d)) eqn:E3; [|lia].
    cbn [bind]. rewrite parseBlockRefs_total. cbn [vis bind].
    replace (sub (mem d) 24 (x_totlen r)) with (enc_body r); [reflexivity|].
    symmetry. unfold mem. rewrite sub_app_l by (unfold len in *; lia).
    rewrite A by lia. unfold enc_xrec. ssub.
  - cbn [bind]. reflexivity.
Qed.

(* ---------- the record loop ---------- *)
Fixpoint model_from (addr start : Z) (rs : list xrec) : list WALRecord :=
  match rs with
  | [] => []
  | r :: rest => model_rec r (addr + start) (8192 - start)
                 :: model_from addr (start + x_totlen r + pad8 (x_totlen r)) rest
  end.

Lemma page_loop_done k s addr pos : len s < pos + 24 -> page_loop (S k) s addr pos = Ok (Some []).
Proof.
  intros H. cbn [page_loop]. unfold page_step, XLogRecordSize.
  destruct (pos + 24 <=? len s) eqn:E; [lia|]. reflexivity.
Qed.

Lemma slice_from_ok s pos : 0 <= pos -> pos <= len s ->
  slice_from s pos = Ok {| vis := sub (vis s) pos (len s); tail := tail s |}.
Proof. intros. unfold slice_from. destruct ((0 <=? pos) && (pos <=? len s)) eqn:E; [reflexivity|lia]. Qed.

Lemma align8_shift pos n : 0 <= pos -> pos mod 8 = 0 -> 0 <= n -> align8 (pos + n) = pos + n + pad8 n.
Proof.
  intros Hp Hm Hn. rewrite align8_eq by lia. unfold pad8. lia.
Qed.

Lemma page_loop_enc : forall rs fuel s addr pos,
  len s = 8192 -> 0 <= pos -> pos mod 8 = 0 -> 0 <= addr -> addr + 8192 <= 2 ^ 64 ->
  starts_ok 24 pos rs ->
  agree (vis s) pos (stream rs ++ zeros 8192) 8192 ->
  Z.max 0 (8192 - pos) < Z.of_nat fuel ->
  page_loop fuel s addr pos = Ok (Some (model_from addr pos rs)).
Proof.
  induction rs as [|r rest IH]; intros fuel s addr pos Hlen Hpos Hmod Haddr Haddr2 Hst Hag Hfuel.
  - destruct fuel as [|k]; [lia|]. cbn [model_from].
    destruct (Z_lt_ge_dec 8192 (pos + 24)) as [Hd|Hd]; [apply page_loop_done; lia|].
    cbn [page_loop]. unfold page_step, XLogRecordSize.
    destruct (pos + 24 <=? len s) eqn:E; [|lia]. cbn [negb].
    rewrite slice_from_ok by lia. cbn [bind].
    rewrite isZeroPadding_zeros; [reflexivity|]. cbn [vis]. rewrite Hlen.
    rewrite sub_sub by lia. replace (pos + 0) with (pos + 0) by lia.
    rewrite (Hag 0 8) by lia. unfold stream. cbn [map concat app]. apply sub_zeros; lia.
  - destruct fuel as [|k]; [lia|]. cbn [starts_ok] in Hst. destruct Hst as (Hfit & Hwf & Hst').
    pose proof (totlen_ge r) as Hge. pose proof Hwf as Hwf0.
    destruct Hwf0 as (_ & _ & _ & _ & _ & _ & Htot).
    pose proof (pad8_spec (x_totlen r) ltac:(lia)) as [Hp8 Hp8r].
    cbn [page_loop model_from]. unfold page_step, XLogRecordSize.
    destruct (pos + 24 <=? len s) eqn:E; [|lia]. cbn [negb]. clear E.
    rewrite slice_from_ok by lia. cbn [bind].
    set (d := {| vis := sub (vis s) pos (len s); tail := tail s |}).
    assert (Ld : len d = 8192 - pos).
    { unfold len, d. cbn [vis]. rewrite sub_length; unfold len in *; lia. }
    set (W' := zeros (pad8 (x_totlen r)) ++ stream rest ++ zeros 8192).
    assert (HW : stream (r :: rest) ++ zeros 8192 = enc_xrec r ++ W').
    { unfold stream, W'. cbn [map concat]. unfold rec_img. rewrite <- !app_assoc. reflexivity. }
    assert (Agd : agree (vis d) 0 (enc_xrec r ++ W') (len d)).
    { intros a b Ha Hab Hb. unfold d. cbn [vis]. rewrite Hlen. rewrite sub_sub by lia.
      rewrite <- HW. apply Hag; lia. }
    assert (Z4 : sub (vis d) 0 4 = le_enc 4 (x_totlen r)).
    { replace 0 with (0 + 0) at 1 by lia. replace 4 with (0 + 4) at 1 by lia.
      rewrite (Agd 0 4) by lia. unfold enc_xrec. ssub. }
    rewrite isZeroPadding_nonzero; [|lia|rewrite Z4, le_dec_enc; lia].
    cbn [bind].
    assert (Wr : wrap 64 (addr + pos) = addr + pos).
    { unfold wrap. apply Z.mod_small. lia. }
    rewrite Wr. rewrite (parseXLogRecord_enc d r (addr + pos) W' Hwf) by (try lia; exact Agd).
    cbn [bind]. destruct (x_totlen r =? 0) eqn:E0; [lia|]. clear E0.
    cbn [bind]. rewrite Ld.
    rewrite align8_shift by lia.
    rewrite (IH k s addr (pos + x_totlen r + pad8 (x_totlen r))); auto; try lia.
    + clear - Hmod. unfold pad8. lia.
    + intros a b Ha Hab Hb.
      replace (pos + x_totlen r + pad8 (x_totlen r) + a) with (pos + (x_totlen r + pad8 (x_totlen r) + a)) by lia.
      replace (pos + x_totlen r + pad8 (x_totlen r) + b) with (pos + (x_totlen r + pad8 (x_totlen r) + b)) by lia.
      rewrite Hag by lia. unfold stream. cbn [map concat]. rewrite <- app_assoc.
      rewrite sub_app_r by (rewrite rec_img_len by lia; lia).
      rewrite rec_img_len by lia. f_equal; lia.
Qed.

(* ---------- the page ---------- *)
Definition page_model (p : xpage) : list WALRecord := model_from (p_addr p) (first_start p) (p_recs p).

Lemma enc_hdr_len p : blen (enc_hdr p) = hdr_size p.
Proof. unfold enc_hdr, hdr_size. destruct (p_long p); bl; lia. Qed.

Lemma land1_mod x : 0 <= x -> Z.land x 1 = x mod 2.
Proof. intros. change 1 with (Z.ones 1). rewrite Z.land_ones by lia. reflexivity. Qed.
Lemma land2_mod4 x : 0 <= x -> Z.land x 2 = Z.land (x mod 4) 2.
Proof.
  intros. change (x mod 4) with (x mod 2 ^ 2). rewrite <- Z.land_ones by lia.
  rewrite <- Z.land_assoc. reflexivity.
Qed.
Lemma land2_cases x : 0 <= x -> Z.land x 2 = if x mod 4 <? 2 then 0 else 2.
Proof.
  intros H. rewrite land2_mod4 by lia.
  assert (C : x mod 4 = 0 \/ x mod 4 = 1 \/ x mod 4 = 2 \/ x mod 4 = 3) by lia.
  destruct C as [C|[C|[C|C]]]; rewrite C; reflexivity.
Qed.
Lemma infoword_bits p : 0 <= p_info_hi p -> p_info_hi p mod 4 = 0 ->
  (Z.land (p_infoword p) 2 =? 0) = negb (p_long p) /\ (Z.land (p_infoword p) 1 =? 0) = negb (p_cont p).
Proof.
  intros H0 H4. unfold p_infoword, b2Z.
  split.
  - rewrite land2_cases by (destruct (p_cont p), (p_long p); lia).
    destruct (p_cont p), (p_long p); cbn [negb];
      match goal with |- ((if ?c then _ else _) =? 0) = _ => destruct c eqn:E end; try reflexivity; lia.
  - rewrite land1_mod by (destruct (p_cont p), (p_long p); lia).
    destruct (p_cont p), (p_long p); cbn [negb];
      match goal with |- (?e mod 2 =? 0) = _ => destruct (e mod 2 =? 0) eqn:E end; lia.
Qed.

Lemma enc_page_len p : blen (enc_page p) = 8192.
Proof.
  unfold enc_page. rewrite blen_firstn. bl. pose proof (blen_nonneg (enc_hdr p)).
  pose proof (blen_nonneg (p_contbytes p)). pose proof (blen_nonneg (stream (p_recs p))). lia.
Qed.

Lemma enc_page_sub p a b : 0 <= a -> b <= 8192 ->
  sub (enc_page p) a b = sub (enc_hdr p ++ p_contbytes p ++ stream (p_recs p) ++ zeros 8192) a b.
Proof. intros. unfold enc_page. apply sub_firstn; lia. Qed.

Lemma isValidMagic_spec m : In m pg_wal_magics -> isValidMagic m = true.
Proof. unfold pg_wal_magics. cbn [In]. intros [<-|[<-|[<-|[]]]]; reflexivity. Qed.

Lemma parsePageHeader_enc p t :
  wf_page_gen 24 p \/ wf_page_gen 8 p ->
  parsePageHeader {| vis := enc_page p; tail := t |} =
  Ok {| h_magic := p_magic p; h_info := p_infoword p; h_tli := p_tli p; h_pageaddr := p_addr p; h_remlen := p_remlen p;
        h_sysid := if p_long p then p_sysid p else 0; h_segsize := if p_long p then p_segsize p else 0;
        h_blcksz := if p_long p then p_blcksz p else 0 |}.
Proof.
  intros Hwf.
  assert (W : In (p_magic p) pg_wal_magics /\ in_u 16 (p_infoword p) /\ 0 <= p_info_hi p /\ p_info_hi p mod 4 = 0 /\
      in_u 32 (p_tli p) /\ 0 <= p_addr p /\ p_addr p + 8192 <= 2 ^ 64 /\ in_u 32 (p_remlen p) /\ in_u 32 (p_hpad p) /\
      in_u 64 (p_sysid p) /\ in_u 32 (p_segsize p) /\ in_u 32 (p_blcksz p)).
  { destruct Hwf as [H|H]; unfold wf_page_gen in H; intuition. }
  destruct W as (Hmag & Hinfo & Hhi0 & Hhi4 & Htli & Haddr & Haddr2 & Hrem & Hhp & Hsys & Hseg & Hblk).
  unfold in_u in *.
  assert (Mg : 0 <= p_magic p < 2 ^ 16).
  { unfold pg_wal_magics in Hmag. cbn [In] in Hmag. destruct Hmag as [<-|[<-|[<-|[]]]]; lia. }
  set (s := {| vis := enc_page p; tail := t |}).
  assert (L : len s = 8192) by (unfold len, s; cbn [vis]; apply enc_page_len).
  destruct (infoword_bits p Hhi0 Hhi4) as [B2 _].
  unfold parsePageHeader, u16, u32, u64, LongHeaderSize.
  rewrite (uN_sub 2 s 0 (p_magic p)); try lia.
  2:{ unfold s; cbn [vis]. rewrite enc_page_sub by lia. unfold enc_hdr. ssub. }
  cbn [bind].
  rewrite (uN_sub 2 s 2 (p_infoword p)); try lia.
  2:{ unfold s; cbn [vis]. rewrite enc_page_sub by lia. unfold enc_hdr. ssub. }
  cbn [bind].
  rewrite (uN_sub 4 s 4 (p_tli p)); try lia.
  2:{ unfold s; cbn [vis]. rewrite enc_page_sub by lia. unfold enc_hdr. ssub. }
  cbn [bind].
  rewrite (uN_sub 8 s 8 (p_addr p)); try lia.
  2:{ unfold s; cbn [vis]. rewrite enc_page_sub by lia. unfold enc_hdr. ssub. }
  cbn [bind].
  rewrite (uN_sub 4 s 16 (p_remlen p)); try lia.
  2:{ unfold s; cbn [vis]. rewrite enc_page_sub by lia. unfold enc_hdr. ssub. }
  cbn [bind]. rewrite B2.
  destruct (len s >=? 40) eqn:E40; [|lia].
  destruct (p_long p) eqn:EL; cbn [negb andb].
  - rewrite (uN_sub 8 s 24 (p_sysid p)); try lia.
    2:{ unfold s; cbn [vis]. rewrite enc_page_sub by lia. unfold enc_hdr. rewrite EL. ssub. }
    cbn [bind].
    rewrite (uN_sub 4 s 32 (p_segsize p)); try lia.
    2:{ unfold s; cbn [vis]. rewrite enc_page_sub by lia. unfold enc_hdr. rewrite EL. ssub. }
    cbn [bind].
    rewrite (uN_sub 4 s 36 (p_blcksz p)); try lia.
    2:{ unfold s; cbn [vis]. rewrite enc_page_sub by lia. unfold enc_hdr. rewrite EL. ssub. }
    cbn [bind]. reflexivity.
  - reflexivity.
Qed.

Lemma parseWALPage_enc p t base :
  wf_page p -> parseWALPage {| vis := enc_page p; tail := t |} base = Ok (Some (PRecs (page_model p))).
Proof.
  intros Hwf. pose proof Hwf as Hwf0. unfold wf_page, wf_page_gen in Hwf0.
  destruct Hwf0 as (Hmag & Hinfo & Hhi0 & Hhi4 & Htli & Haddr & Haddr2 & Hrem & Hhp & Hsys & Hseg & Hblk & Hcont & Hst).
  unfold in_u in *.
  set (s := {| vis := enc_page p; tail := t |}).
  assert (L : len s = 8192) by (unfold len, s; cbn [vis]; apply enc_page_len).
  destruct (infoword_bits p Hhi0 Hhi4) as [B2 B1].
  unfold parseWALPage, ShortHeaderSize, LongHeaderSize.
  destruct (len s <? 24) eqn:E0; [lia|]. clear E0.
  unfold s at 1. rewrite parsePageHeader_enc by (left; exact Hwf). cbn [bind h_magic h_info h_remlen h_pageaddr].
  rewrite isValidMagic_spec by exact Hmag. cbn [negb].
  rewrite B2, B1, !Bool.negb_involutive.
  assert (HS : (if p_long p then 40 else 24) = hdr_size p) by reflexivity. rewrite HS.
  assert (Hh : hdr_size p = 24 \/ hdr_size p = 40) by (unfold hdr_size; destruct (p_long p); lia).
  assert (Ag : agree (vis s) (first_start p) (stream (p_recs p) ++ zeros 8192) 8192).
  { intros a b Ha Hab Hb. unfold s; cbn [vis]. unfold first_start in *.
    pose proof (blen_nonneg (p_contbytes p)).
    rewrite enc_page_sub by lia.
    rewrite sub_app_r by (rewrite enc_hdr_len; lia). rewrite enc_hdr_len.
    rewrite sub_app_r by lia. f_equal; lia. }
  fold s.
  assert (F : 0 < Z.of_nat (S (Z.to_nat (len s)))) by lia.
  destruct (p_cont p) eqn:EC.
  - destruct Hcont as [Hr0 Hcb].
    destruct (p_remlen p >? 0) eqn:ER; [|lia]. cbn [andb].
    rewrite <- align8_align in Hcb by lia.
    pose proof (align8_ge (hdr_size p + p_remlen p) ltac:(lia)) as Hal.
    pose proof (align8_mod (hdr_size p + p_remlen p) ltac:(lia)) as Halm.
    destruct (Z_le_gt_dec (align8 (hdr_size p + p_remlen p)) 8192) as [Hle|Hgt].
    + assert (FS : first_start p = align8 (hdr_size p + p_remlen p)) by (unfold first_start; lia).
      rewrite <- FS. rewrite (page_loop_enc (p_recs p)); [cbn [bind option_map]; reflexivity|..]; auto; try lia.
      all: try (rewrite FS; exact Halm).
    + assert (FS : first_start p = 8192) by (unfold first_start; lia).
      assert (RN : p_recs p = []).
      { destruct (p_recs p) as [|r rest]; [reflexivity|]. cbn [starts_ok] in Hst. lia. }
      rewrite page_loop_done by lia. cbn [bind option_map]. unfold page_model. rewrite RN. reflexivity.
  - destruct Hcont as [Hr0 Hcb]. cbn [andb].
    assert (FS : first_start p = hdr_size p) by (unfold first_start; rewrite Hcb; bl; lia).
    rewrite <- FS. rewrite (page_loop_enc (p_recs p)); [cbn [bind option_map]; reflexivity|..]; auto; try lia.
    all: try (rewrite FS; destruct Hh as [->| ->]; reflexivity).
Qed.

(* ---------- what the model's records say ---------- *)
Lemma header_of_model r lsn room : header_of (model_rec r lsn room) = header_of (expected_rec lsn r).
Proof. reflexivity. Qed.
Lemma page_headers_from addr : forall rs start,
  map header_of (model_from addr start rs) = map header_of (expected_from addr start rs).
Proof.
  induction rs as [|r rest IH]; intros start; cbn [model_from expected_from map]; [reflexivity|].
  rewrite header_of_model, IH. reflexivity.
Qed.
Lemma names_of_model r lsn room :
  r_rmname (model_rec r lsn room) = rmgrName (r_rmid (model_rec r lsn room)) /\
  r_op (model_rec r lsn room) = operationName (r_rmid (model_rec r lsn room)) (r_info (model_rec r lsn room)).
Proof. split; reflexivity. Qed.

Lemma observe_model r lsn room :
  wf_rec r -> wf_body r -> kf_names r = false -> kf_blockrefs r = false ->
  observe (model_rec r lsn room) = expected_rec lsn r.
Proof.
  intros (Hxid & Hprev & Hinfo & Hrmid & _) Hbody Hkn Hkb. unfold in_u in *.
  unfold kf_names in Hkn. apply Bool.orb_false_iff in Hkn. destruct Hkn as [Hk1 Hk2].
  assert (Hbl : x_blocks r = []). { unfold kf_blockrefs in Hkb. destruct (x_blocks r); [reflexivity|discriminate]. }
  unfold observe, expected_rec, model_rec.
  cbn [r_totlen r_xid r_prev r_info r_rmid r_crc r_lsn r_rmname r_op r_blocks].
  change (2 ^ 8) with 256 in *.
  f_equal.
  - destruct (pg_rmgr_name (x_rmid r)) as [n|] eqn:E; cbn [name_or_nil]; [|reflexivity].
    apply rmgr_names_partial; auto.
  - destruct (pg_op_name (x_rmid r) (x_info r)) as [n|] eqn:E; cbn [name_or_nil]; [|reflexivity].
    apply op_names_partial; auto.
  - rewrite Hbl. cbn [map]. rewrite blocks_of_noblocks by auto. destruct (_ && _); reflexivity.
Qed.

Definition rec_clean (r : xrec) : Prop := wf_body r /\ kf_names r = false /\ kf_blockrefs r = false.
Lemma page_observe_from addr : forall rs start lim,
  starts_ok lim start rs -> Forall rec_clean rs ->
  map observe (model_from addr start rs) = expected_from addr start rs.
Proof.
  induction rs as [|r rest IH]; intros start lim Hst Hcl; cbn [model_from expected_from map]; [reflexivity|].
  cbn [starts_ok] in Hst. destruct Hst as (_ & Hwf & Hst'). inversion Hcl as [|? ? (Hb & Hn & Hk) Hcl']; subst.
  rewrite observe_model by auto. rewrite (IH _ lim) by auto. reflexivity.
Qed.

(* ---------- totality on ALL byte strings ---------- *)
Lemma parseXLogRecord_total s lsn :
  exists rc c, parseXLogRecord s lsn = Ok (Some (rc, c)) /\ (c = 0 \/ 24 <= c).
Proof.
  unfold parseXLogRecord, XLogRecordSize, WALPageSize.
  destruct (len s <? 24) eqn:E0; [do 2 eexists; split; [reflexivity|lia]|].
  unfold u32, u64.
  destruct (uN_some 4 s 0) as (tl & -> & Htl); [lia|lia|]. cbn [bind].
  destruct ((tl <? 24) || (tl >? 8192 * 2)) eqn:E1; [do 2 eexists; split; [reflexivity|lia]|].
  destruct (uN_some 4 s 4) as (xid & -> & _); [lia|lia|]. cbn [bind].
  destruct (uN_some 8 s 8) as (prev & -> & _); [lia|lia|]. cbn [bind].
  rewrite (idx_ok s 16) by lia. cbn [bind]. rewrite (idx_ok s 17) by lia. cbn [bind].
  destruct (uN_some 4 s 20) as (crc & -> & _); [lia|lia|]. cbn [bind].
  destruct ((tl >? 24) && (tl <=? len s)) eqn:E2.
  - pose proof (len_le_cap s). destruct (slice_ok s 24 tl) as [body ->]; [lia|lia|lia|]. cbn [bind].
    rewrite parseBlockRefs_total. cbn [bind]. do 2 eexists; split; [reflexivity|lia].
  - cbn [bind]. do 2 eexists; split; [reflexivity|lia].
Qed.

Lemma page_step_total s addr pos : 0 <= pos ->
  exists r, page_step s addr pos = Ok (Some r) /\
            (forall rec pos', r = Some (rec, pos') -> pos + 24 <= pos' /\ pos + 24 <= len s).
Proof.
  intros Hpos. unfold page_step, XLogRecordSize.
  destruct (pos + 24 <=? len s) eqn:E; cbn [negb]; [|eexists; split; [reflexivity|discriminate]].
  rewrite slice_from_ok by lia. cbn [bind]. rewrite isZeroPadding_spec. cbn [bind].
  destruct (forallb isz _); [eexists; split; [reflexivity|discriminate]|].
  destruct (parseXLogRecord_total {| vis := sub (vis s) pos (len s); tail := tail s |} (wrap 64 (addr + pos)))
    as (rc & c & -> & Hc). cbn [bind].
  destruct (c =? 0) eqn:E0; [eexists; split; [reflexivity|discriminate]|].
  eexists; split; [reflexivity|]. intros rec pos' [= <- <-].
  pose proof (align8_ge (pos + c) ltac:(lia)). lia.
Qed.

Lemma page_loop_total : forall fuel s addr pos, 0 <= pos -> Z.max 0 (len s - pos) < Z.of_nat fuel ->
  exists l, page_loop fuel s addr pos = Ok (Some l).
Proof.
  induction fuel as [|k IH]; intros s addr pos Hpos Hf; [lia|]. cbn [page_loop].
  destruct (page_step_total s addr pos Hpos) as (r & -> & Hr). cbn [bind].
  destruct r as [[rec pos']|]; [|eauto].
  destruct (Hr rec pos' eq_refl) as [H1 H2].
  destruct (IH s addr pos') as [l ->]; [lia|lia|]. cbn [bind].
  destruct rec; cbn [ocons option_map]; eauto.
Qed.

Lemma parsePageHeader_total s : 24 <= len s ->
  exists h, parsePageHeader s = Ok h /\ 0 <= h_remlen h /\ h_magic h = le_dec (sub (vis s) 0 2).
Proof.
  intros L. unfold parsePageHeader, u16, u32, u64, LongHeaderSize.
  rewrite (uN_val 2 s 0) by lia. cbn [bind].
  destruct (uN_some 2 s 2) as (i & -> & _); [lia|lia|]. cbn [bind].
  destruct (uN_some 4 s 4) as (tl & -> & _); [lia|lia|]. cbn [bind].
  destruct (uN_some 8 s 8) as (a & -> & _); [lia|lia|]. cbn [bind].
  destruct (uN_some 4 s 16) as (r & -> & Hr); [lia|lia|]. cbn [bind].
  destruct (negb (Z.land i 2 =? 0) && (len s >=? 40)) eqn:E.
  - apply andb_prop in E. destruct E as [_ E].
    destruct (uN_some 8 s 24) as (sy & -> & _); [lia|lia|]. cbn [bind].
    destruct (uN_some 4 s 32) as (sg & -> & _); [lia|lia|]. cbn [bind].
    destruct (uN_some 4 s 36) as (bs & -> & _); [lia|lia|]. cbn [bind].
    eexists; split; [reflexivity|]. cbn. split; [lia|reflexivity].
  - eexists; split; [reflexivity|]. cbn. split; [lia|reflexivity].
Qed.

Theorem parseWALPage_total s base : exists r, parseWALPage s base = Ok (Some r).
Proof.
  unfold parseWALPage, ShortHeaderSize, LongHeaderSize.
  destruct (len s <? 24) eqn:E0; [eauto|].
  destruct (parsePageHeader_total s ltac:(lia)) as (h & -> & Hr & _). cbn [bind].
  destruct (isValidMagic (h_magic h)); cbn [negb]; [|eauto].
  set (hs := if negb (Z.land (h_info h) 2 =? 0) then 40 else 24).
  assert (Hhs : 0 <= hs) by (unfold hs; destruct (negb _); lia).
  set (pos := if negb (Z.land (h_info h) 1 =? 0) && (h_remlen h >? 0) then align8 (hs + h_remlen h) else hs).
  assert (Hp : 0 <= pos).
  { unfold pos. destruct (_ && _); [|lia]. pose proof (align8_ge (hs + h_remlen h) ltac:(lia)). lia. }
  destruct (page_loop_total (S (Z.to_nat (len s))) s (h_pageaddr h) pos Hp) as [l ->].
  - pose proof (len_nonneg s). lia.
  - cbn [bind option_map]. eauto.
Qed.
