(* parseBlockRefs / isZeroPadding / align8: totality (no panic, fuel suffices) for ALL byte strings,
   independence of the capacity tail, and the value on bodies without block references. *)
Require Import PG.Base.Bytes PG.Base.GoSlice PG.C17.Names PG.C17.Model PG.C17.SpecNames PG.C17.Spec.

(* ---------- small helpers ---------- *)
Lemma align8_eq n : 0 <= n -> align8 n = (n + 7) / 8 * 8.
Proof.
  intros H. unfold align8. pose proof (go_align_8 n H) as G. unfold go_align, align in G.
  cbn [Z.leb Z.compare] in G. change (8 <=? 1) with false in G. cbv iota in G.
  replace (n + 8 - 1) with (n + 7) in G by lia. change (8 - 1) with 7 in G. exact G.
Qed.
Lemma align8_ge n : 0 <= n -> n <= align8 n < n + 8.
Proof. intros H. rewrite align8_eq by lia. lia. Qed.
Lemma align8_mod n : 0 <= n -> align8 n mod 8 = 0.
Proof. intros H. rewrite align8_eq by lia. apply Z.mod_mul. lia. Qed.
Lemma align8_id n : 0 <= n -> n mod 8 = 0 -> align8 n = n.
Proof. intros H M. rewrite align8_eq by lia. lia. Qed.
Lemma align8_align n : 0 <= n -> align8 n = align n 8.
Proof. intros H. rewrite align8_eq by lia. unfold align. change (8 <=? 1) with false. cbv iota. f_equal. f_equal. lia. Qed.
Lemma pad8_spec n : 0 <= n -> n + pad8 n = align8 n /\ 0 <= pad8 n < 8.
Proof. intros H. rewrite align8_eq by lia. unfold pad8. lia. Qed.

Lemma uN_some n s off : 0 <= off -> off + Z.of_nat n <= len s -> exists v, uN n s off = Ok v /\ 0 <= v.
Proof.
  intros H1 H2. destruct (uN_ok n s off H1 H2) as [v Hv]. exists v. split; [exact Hv|].
  apply uN_range in Hv. lia.
Qed.

(* ---------- isZeroPadding ---------- *)
Definition isz (b : byte) : bool := b2z b =? 0.
Lemma skipn_nth_cons (l : bytes) i : (i < length l)%nat -> skipn i l = nth i l x00 :: skipn (S i) l.
Proof.
  revert l; induction i; intros [|x l] H; simpl in *; try lia; auto. apply IHi. lia.
Qed.
Lemma zero_loop_spec n : forall s i, 0 <= i ->
  zero_loop n s i = Ok (forallb isz (firstn n (skipn (Z.to_nat i) (vis s)))).
Proof.
  induction n as [|n IH]; intros s i Hi; cbn [zero_loop]; [reflexivity|].
  destruct (i <? len s) eqn:E.
  - rewrite idx_ok by lia. cbn [bind]. unfold len, blen in E.
    rewrite (skipn_nth_cons (vis s) (Z.to_nat i)) by lia. cbn [firstn forallb].
    unfold byte_at, isz. destruct (b2z (nth (Z.to_nat i) (vis s) x00) =? 0) eqn:Z0; cbn [negb andb].
    + rewrite IH by lia. replace (Z.to_nat (i + 1)) with (S (Z.to_nat i)) by lia. reflexivity.
    + reflexivity.
  - unfold len, blen in E. rewrite skipn_all2 by lia. rewrite firstn_nil. reflexivity.
Qed.
Lemma isZeroPadding_spec s : isZeroPadding s = Ok (forallb isz (firstn 8 (vis s))).
Proof. unfold isZeroPadding. rewrite zero_loop_spec by lia. reflexivity. Qed.
Lemma forallb_isz_le_dec bs : forallb isz bs = true -> le_dec bs = 0.
Proof.
  induction bs as [|b r IH]; cbn [forallb le_dec]; [reflexivity|]. intros H.
  apply andb_prop in H. destruct H as [H1 H2]. unfold isz in H1. rewrite IH by exact H2. lia.
Qed.
Lemma forallb_isz_zeros n : forallb isz (zeros n) = true.
Proof. unfold zeros. induction (Z.to_nat n); cbn; auto. Qed.
Lemma firstn8_sub (v : bytes) : firstn 8 v = sub v 0 8.
Proof. unfold sub. reflexivity. Qed.
Lemma isZeroPadding_nonzero s : 4 <= len s -> le_dec (sub (vis s) 0 4) <> 0 -> isZeroPadding s = Ok false.
Proof.
  intros L H. rewrite isZeroPadding_spec. f_equal. rewrite firstn8_sub.
  rewrite (sub_split (vis s) 0 4 8) by lia. rewrite forallb_app.
  destruct (forallb isz (sub (vis s) 0 4)) eqn:E; [|reflexivity].
  apply forallb_isz_le_dec in E. contradiction.
Qed.
Lemma isZeroPadding_zeros s : sub (vis s) 0 8 = zeros 8 -> isZeroPadding s = Ok true.
Proof. intros H. rewrite isZeroPadding_spec, firstn8_sub, H, forallb_isz_zeros. reflexivity. Qed.

(* ---------- blockref_step: never panics, advances by at least 2 ---------- *)
Lemma blockref_step_ok s pos : 0 <= pos ->
  exists r, blockref_step s pos = Ok r /\
            (forall b pos', r = Some (b, pos') -> pos < len s /\ pos + 2 <= pos').
Proof.
  intros Hpos. unfold blockref_step.
  destruct (pos <? len s) eqn:E1; cbn [negb]; [|eexists; split; [reflexivity|discriminate]].
  destruct (pos + 1 >? len s) eqn:E2; [eexists; split; [reflexivity|discriminate]|].
  rewrite idx_ok by lia. cbn [bind].
  destruct ((byte_at (vis s) pos =? 255) || (byte_at (vis s) pos =? 254)) eqn:E3; [eexists; split; [reflexivity|discriminate]|].
  destruct (byte_at (vis s) pos >? 32) eqn:E4; [eexists; split; [reflexivity|discriminate]|].
  destruct (pos + 1 + 1 >? len s) eqn:E5; [eexists; split; [reflexivity|discriminate]|].
  rewrite idx_ok by lia. cbn [bind].
  set (ff := byte_at (vis s) (pos + 1)).
  (* relfilenode *)
  assert (R : exists rn p1, (if negb (negb (Z.land ff 64 =? 0)) && (pos + 1 + 1 + 12 <=? len s)
             then a <- u32 s (pos + 1 + 1) ;; b <- u32 s (pos + 1 + 1 + 4) ;; c <- u32 s (pos + 1 + 1 + 8) ;;
                  Ok (Some {| rn_spc := a; rn_db := b; rn_rel := c |}, pos + 1 + 1 + 12)
             else Ok (None, pos + 1 + 1)) = Ok (rn, p1) /\ pos + 2 <= p1).
  { destruct (negb (negb (Z.land ff 64 =? 0)) && (pos + 1 + 1 + 12 <=? len s)) eqn:E6.
    - apply andb_prop in E6. destruct E6 as [_ E6]. unfold u32.
      destruct (uN_some 4 s (pos + 1 + 1)) as (a & -> & _); [lia|lia|]. cbn [bind].
      destruct (uN_some 4 s (pos + 1 + 1 + 4)) as (b & -> & _); [lia|lia|]. cbn [bind].
      destruct (uN_some 4 s (pos + 1 + 1 + 8)) as (c & -> & _); [lia|lia|]. cbn [bind].
      do 2 eexists. split; [reflexivity|lia].
    - do 2 eexists. split; [reflexivity|lia]. }
  destruct R as (rn & p1 & -> & Hp1). cbn [bind fst snd].
  assert (B : exists blk p2, (if p1 + 4 <=? len s then v <- u32 s p1 ;; Ok (v, p1 + 4) else Ok (0, p1)) = Ok (blk, p2) /\ p1 <= p2).
  { destruct (p1 + 4 <=? len s) eqn:E7.
    - unfold u32. destruct (uN_some 4 s p1) as (v & -> & _); [lia|lia|]. cbn [bind]. do 2 eexists. split; [reflexivity|lia].
    - do 2 eexists. split; [reflexivity|lia]. }
  destruct B as (blk & p2 & -> & Hp2). cbn [bind fst snd].
  assert (I : exists p3, (if negb (Z.land ff 16 =? 0) && (p2 + 2 <=? len s) then l <- u16 s p2 ;; Ok (p2 + 2 + l) else Ok p2) = Ok p3 /\ p2 <= p3).
  { destruct (negb (Z.land ff 16 =? 0) && (p2 + 2 <=? len s)) eqn:E8.
    - apply andb_prop in E8. destruct E8 as [_ E8]. unfold u16.
      destruct (uN_some 2 s p2) as (l & -> & Hl); [lia|lia|]. cbn [bind]. eexists. split; [reflexivity|lia].
    - eexists. split; [reflexivity|lia]. }
  destruct I as (p3 & -> & Hp3). cbn [bind].
  assert (D : exists p4, (if negb (Z.land ff 32 =? 0) && (p3 + 2 <=? len s) then l <- u16 s p3 ;; Ok (p3 + 2 + l) else Ok p3) = Ok p4 /\ p3 <= p4).
  { destruct (negb (Z.land ff 32 =? 0) && (p3 + 2 <=? len s)) eqn:E9.
    - apply andb_prop in E9. destruct E9 as [_ E9]. unfold u16.
      destruct (uN_some 2 s p3) as (l & -> & Hl); [lia|lia|]. cbn [bind]. eexists. split; [reflexivity|lia].
    - eexists. split; [reflexivity|lia]. }
  destruct D as (p4 & -> & Hp4). cbn [bind].
  eexists. split; [reflexivity|]. intros b pos' [= <- <-]. lia.
Qed.

Lemma blockrefs_loop_total : forall fuel s pos, 0 <= pos -> Z.max 0 (len s - pos) < Z.of_nat fuel ->
  exists l, blockrefs_loop fuel s pos = Ok (Some l).
Proof.
  induction fuel as [|k IH]; intros s pos Hpos Hf; [lia|]. cbn [blockrefs_loop].
  destruct (blockref_step_ok s pos Hpos) as (r & -> & Hr). cbn [bind].
  destruct r as [[b pos']|]; [|eauto].
  destruct (Hr b pos' eq_refl) as [H1 H2].
  destruct (IH s pos') as [l ->]; [lia|lia|]. cbn [bind ocons option_map]. eauto.
Qed.

Lemma blockref_step_tail v t pos : blockref_step {| vis := v; tail := t |} pos = blockref_step (exact v) pos.
Proof. reflexivity. Qed.
Lemma blockrefs_loop_tail : forall fuel v t pos,
  blockrefs_loop fuel {| vis := v; tail := t |} pos = blockrefs_loop fuel (exact v) pos.
Proof.
  induction fuel as [|k IH]; intros v t pos; cbn [blockrefs_loop]; [reflexivity|].
  rewrite blockref_step_tail. destruct (blockref_step (exact v) pos) as [[[b p]|]|]; cbn [bind]; try reflexivity.
  rewrite IH. reflexivity.
Qed.

(* the block list the model computes from the visible bytes *)
Definition blocks_of (v : bytes) : list WALBlockRef :=
  match parseBlockRefs (exact v) with Ok (Some l) => l | _ => [] end.
Theorem parseBlockRefs_total s : parseBlockRefs s = Ok (Some (blocks_of (vis s))).
Proof.
  destruct s as [v t]. cbn [vis]. unfold blocks_of, parseBlockRefs.
  change (len {| vis := v; tail := t |}) with (len (exact v)). rewrite blockrefs_loop_tail.
  destruct (blockrefs_loop_total (S (Z.to_nat (len (exact v)))) (exact v) 0) as [l ->]; [lia| |reflexivity].
  pose proof (len_nonneg (exact v)). lia.
Qed.
Theorem parseBlockRefs_no_panic s : parseBlockRefs s <> Panic /\ parseBlockRefs s <> Ok None.
Proof. rewrite parseBlockRefs_total. split; discriminate. Qed.

(* ---------- bodies without block references ---------- *)
Lemma step_first_high b rest : 32 < b2z b -> blockref_step (exact (b :: rest)) 0 = Ok None.
Proof.
  intros H. unfold blockref_step. unfold len, exact; cbn [vis]. bl.
  pose proof (blen_nonneg rest).
  destruct (0 <? 1 + blen rest) eqn:E1; [|lia]. cbn [negb].
  destruct (0 + 1 >? 1 + blen rest) eqn:E2; [lia|].
  unfold idx, len; cbn [vis]. bl. destruct ((0 <=? 0) && (0 <? 1 + blen rest)) eqn:E3; [|lia]. cbn [bind].
  rewrite byte_at_cons0.
  destruct ((b2z b =? 255) || (b2z b =? 254)) eqn:E4; [reflexivity|].
  destruct (b2z b >? 32) eqn:E5; [reflexivity|lia].
Qed.
Lemma blocks_of_first_high b rest : 32 < b2z b -> blocks_of (b :: rest) = [].
Proof.
  intros H. unfold blocks_of, parseBlockRefs. cbn [blockrefs_loop]. rewrite step_first_high by exact H. reflexivity.
Qed.
Lemma blocks_of_nil : blocks_of [] = [].
Proof. reflexivity. Qed.

Lemma b2z_z2b_small z : 0 <= z < 256 -> b2z (z2b z) = z.
Proof. intros H. rewrite b2z_z2b. apply Z.mod_small. exact H. Qed.

Lemma blocks_of_noblocks r :
  x_blocks r = [] -> wf_body r -> blocks_of (enc_body r) = [].
Proof.
  intros Hb [Hm Hp]. unfold enc_body. rewrite Hb. cbn [map concat app].
  destruct (x_origin r) as [o|]; cbn [enc_origin app].
  { apply blocks_of_first_high. rewrite b2z_z2b_small; lia. }
  destruct (x_toplevel r) as [t|]; cbn [enc_toplevel app].
  { apply blocks_of_first_high. rewrite b2z_z2b_small; lia. }
  destruct (x_main r) as [[[|] n]|]; cbn [enc_mainhdr app].
  - apply blocks_of_first_high. rewrite b2z_z2b_small; lia.
  - apply blocks_of_first_high. rewrite b2z_z2b_small; lia.
  - rewrite Hp by auto. reflexivity.
Qed.
