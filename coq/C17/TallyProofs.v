(* ScanWALDirectory tallies and GetRecentWALRecords, over the record lists ParseWALFile reports. *)
Require Import PG.Base.Bytes PG.Base.GoSlice PG.C17.Names PG.C17.Model PG.C17.SpecNames PG.C17.Spec.
Require Import PG.C17.NamesProofs PG.C17.BlockrefsProofs PG.C17.PageProofs PG.C17.SegmentProofs.
From Coq Require Import Sorting.Sorted Sorting.Permutation.

(* ---------- association-list tallies ---------- *)
Section TallyLemmas.
  Context {K : Type} (keq : K -> K -> bool) (keq_spec : forall a b, keq a b = true <-> a = b).

  Lemma keq_refl a : keq a a = true. Proof. apply keq_spec. reflexivity. Qed.
  Lemma keq_false a b : keq a b = false <-> a <> b.
  Proof.
    split; intros H.
    - intros E. apply keq_spec in E. congruence.
    - destruct (keq a b) eqn:E; [apply keq_spec in E; contradiction|reflexivity].
  Qed.

  Lemma lookup_incr k0 k m : lookup keq k0 (incr keq k m) = lookup keq k0 m + (if keq k0 k then 1 else 0).
  Proof.
    induction m as [|[k' v] r IH]; cbn [incr lookup].
    - destruct (keq k0 k); lia.
    - destruct (keq k k') eqn:E; cbn [lookup].
      + apply keq_spec in E. subst k'. destruct (keq k0 k); lia.
      + destruct (keq k0 k') eqn:E2; [|exact IH].
        apply keq_spec in E2. subst k'. apply keq_false in E.
        assert (keq k0 k = false) as -> by (apply keq_false; congruence). lia.
  Qed.
  Lemma lookup_fold ks : forall k0 m,
    lookup keq k0 (fold_left (fun m k => incr keq k m) ks m) = lookup keq k0 m + count (keq k0) ks.
  Proof.
    induction ks as [|k ks IH]; intros k0 m; cbn [fold_left].
    - unfold count. cbn. lia.
    - rewrite IH, lookup_incr. unfold count. cbn [filter]. destruct (keq k0 k); cbn [length]; lia.
  Qed.
  Lemma in_keys_incr y k m : In y (map fst (incr keq k m)) <-> y = k \/ In y (map fst m).
  Proof.
    induction m as [|[k' v] r IH]; cbn [incr map fst In].
    - intuition.
    - destruct (keq k k') eqn:E; cbn [map fst In].
      + apply keq_spec in E. subst. intuition.
      + rewrite IH. intuition.
  Qed.
  Lemma nodup_incr k m : NoDup (map fst m) -> NoDup (map fst (incr keq k m)).
  Proof.
    induction m as [|[k' v] r IH]; cbn [incr map fst]; intros H.
    - constructor; [intros []|constructor].
    - inversion H as [|? ? Hn Hr]; subst. destruct (keq k k') eqn:E; cbn [map fst].
      + constructor; assumption.
      + constructor; [|apply IH; exact Hr]. rewrite in_keys_incr. intros [->|Hin]; [|contradiction].
        rewrite keq_refl in E. discriminate.
  Qed.
  Lemma in_keys_fold ks : forall y m,
    In y (map fst (fold_left (fun m k => incr keq k m) ks m)) <-> In y ks \/ In y (map fst m).
  Proof.
    induction ks as [|k ks IH]; intros y m; cbn [fold_left In]; [intuition|].
    rewrite IH, in_keys_incr. intuition.
  Qed.
  Lemma nodup_fold ks : forall m, NoDup (map fst m) -> NoDup (map fst (fold_left (fun m k => incr keq k m) ks m)).
  Proof. induction ks as [|k ks IH]; intros m H; cbn [fold_left]; [exact H|]. apply IH, nodup_incr, H. Qed.
  Lemma lookup_in m : NoDup (map fst m) -> forall x n, In (x, n) m -> lookup keq x m = n.
  Proof.
    induction m as [|[k' v] r IH]; intros H x n Hin; [destruct Hin|].
    cbn [map fst] in H. inversion H as [|? ? Hn Hr]; subst. cbn [lookup]. destruct Hin as [E|Hin].
    - injection E as -> ->. rewrite keq_refl. reflexivity.
    - destruct (keq x k') eqn:E.
      + apply keq_spec in E. subst. exfalso. apply Hn. apply (in_map fst) in Hin. exact Hin.
      + apply IH; assumption.
  Qed.
  Lemma count_pos_in k ks : In k ks -> 0 < count (keq k) ks.
  Proof.
    intros H. unfold count. induction ks as [|x ks IH]; [destruct H|]. cbn [filter].
    destruct H as [->|H]; [rewrite keq_refl; cbn [length]; lia|].
    destruct (keq k x); cbn [length]; [lia|apply IH, H].
  Qed.
  (* get/set maps *)
  Lemma get_set {V} x y (v : V) m : get_key keq x (set_key keq y v m) = if keq x y then Some v else get_key keq x m.
  Proof.
    induction m as [|[k' v'] r IH]; cbn [set_key get_key].
    - reflexivity.
    - destruct (keq y k') eqn:E; cbn [get_key].
      + apply keq_spec in E. subst. destruct (keq x k'); reflexivity.
      + destruct (keq x k') eqn:E2; [|exact IH].
        apply keq_spec in E2. subst. apply keq_false in E.
        assert (keq k' y = false) as -> by (apply keq_false; congruence). reflexivity.
  Qed.
  (* the spec-side tally has the same lookup *)
  Lemma filter_filter_neg x l k0 : keq k0 x = false ->
    filter (keq k0) (filter (fun y => negb (keq x y)) l) = filter (keq k0) l.
  Proof.
    intros H. induction l as [|y l IH]; cbn [filter]; [reflexivity|].
    destruct (keq x y) eqn:E; cbn [negb filter].
    - apply keq_spec in E. subst. rewrite H. exact IH.
    - destruct (keq k0 y); [f_equal|]; exact IH.
  Qed.
  Lemma lookup_map_absent f (l : list K) k0 : ~ In k0 l -> lookup keq k0 (map (fun k => (k, f k)) l) = 0.
  Proof.
    induction l as [|x l IH]; intros H; cbn [map lookup]; [reflexivity|].
    destruct (keq k0 x) eqn:E; [apply keq_spec in E; subst; exfalso; apply H; left; reflexivity|].
    apply IH. intros Hin. apply H. right. exact Hin.
  Qed.
  Lemma in_dedup x l : In x (dedup keq l) <-> In x l.
  Proof.
    induction l as [|y l IH]; cbn [dedup In]; [reflexivity|]. rewrite filter_In, IH.
    split.
    - intros [->|[H _]]; auto.
    - intros [->|H]; [auto|]. destruct (keq y x) eqn:E; [apply keq_spec in E; auto|]. right. split; [exact H|]. reflexivity.
  Qed.
  Lemma lookup_tally_of keys k0 : lookup keq k0 (tally_of keq keys) = count (keq k0) keys.
  Proof.
    unfold tally_of.
    destruct (in_dec (fun a b => match keq a b as c return keq a b = c -> {a = b} + {a <> b} with
                                  | true => fun E => left (proj1 (keq_spec a b) E)
                                  | false => fun E => right (proj1 (keq_false a b) E) end eq_refl) k0 keys) as [Hin|Hnin].
    - induction keys as [|x keys IH]; [destruct Hin|]. cbn [dedup map lookup].
      destruct (keq k0 x) eqn:E.
      + apply keq_spec in E. subst. reflexivity.
      + destruct Hin as [->|Hin]; [rewrite keq_refl in E; discriminate|].
        assert (C : count (keq k0) (x :: keys) = count (keq k0) keys) by (unfold count; cbn [filter]; rewrite E; reflexivity).
        rewrite C. rewrite <- (IH Hin). clear IH.
        (* removing x from the deduplicated tail does not change the lookup of k0 <> x *)
        generalize (dedup keq keys). intros l. induction l as [|y l IHl]; cbn [filter map lookup]; [reflexivity|].
        destruct (keq x y) eqn:E3; cbn [negb map lookup].
        * apply keq_spec in E3. subst y. rewrite E. exact IHl.
        * destruct (keq k0 y) eqn:E4; [apply keq_spec in E4; subst y; exact C|exact IHl].
    - rewrite lookup_map_absent by (rewrite in_dedup; exact Hnin).
      unfold count. induction keys as [|x keys IH]; [reflexivity|]. cbn [filter].
      destruct (keq k0 x) eqn:E; [apply keq_spec in E; subst; exfalso; apply Hnin; left; reflexivity|].
      apply IH. intros H. apply Hnin. right. exact H.
  Qed.
End TallyLemmas.

Lemma Zeqb_spec a b : Z.eqb a b = true <-> a = b. Proof. apply Z.eqb_eq. Qed.
Lemma pair_eqb_spec a b : pair_eqb a b = true <-> a = b.
Proof. unfold pair_eqb. destruct a, b; cbn [fst snd]. split; [intros H; f_equal; lia|intros [= -> ->]; lia]. Qed.

(* ---------- closed form of the per-record state update ---------- *)
Definition upd_first (f : Z) (r : WALRecord) : Z := if (f =? 0) || (r_lsn r <? f) then r_lsn r else f.
Definition upd_last (l : Z) (r : WALRecord) : Z := if r_lsn r >? l then r_lsn r else l.
Definition upd_txo (m : list (Z * Z)) (r : WALRecord) := if negb (r_xid r =? 0) then incr Z.eqb (r_xid r) m else m.
Definition upd_txs (m : list (Z * txn_status)) (r : WALRecord) :=
  if negb (r_xid r =? 0) && (r_rmid r =? 1) then
    if contains (r_op r) str_commit then set_key Z.eqb (r_xid r) TCommit m
    else if contains (r_op r) str_abort then set_key Z.eqb (r_xid r) TAbort m else m
  else m.
Definition upd_tables (tb : list ((Z * Z) * Z)) (r : WALRecord) := fold_left scan_block (r_blocks r) tb.

Lemma scan_fold recs : forall st,
  fold_left scan_rec recs st =
  {| st_segments := st_segments st; st_version := st_version st; st_tli := st_tli st;
     st_records := st_records st + Z.of_nat (length recs);
     st_first := fold_left upd_first recs (st_first st); st_last := fold_left upd_last recs (st_last st);
     st_ops := fold_left (fun m r => incr bytes_eqb (r_op r) m) recs (st_ops st);
     st_txnops := fold_left upd_txo recs (st_txnops st); st_txnstatus := fold_left upd_txs recs (st_txnstatus st);
     st_tables := fold_left upd_tables recs (st_tables st) |}.
Proof.
  induction recs as [|r recs IH]; intros st; cbn [fold_left length].
  - destruct st; cbn. f_equal. lia.
  - rewrite IH. unfold scan_rec. cbn [st_segments st_version st_tli st_records st_first st_last st_ops st_txnops st_txnstatus st_tables].
    f_equal. lia.
Qed.

(* ---------- the files ---------- *)
Definition file_recs (e : dirent) : list WALRecord :=
  match d_file e with
  | Some data => match ParseWALFile data with Ok (Some (FRecs l)) => l | _ => [] end
  | None => []
  end.
Definition dir_recs (ents : list dirent) : list WALRecord := concat (map file_recs (wal_files ents)).

Definition tallies (st : scan_state) :=
  (st_records st, st_first st, st_last st, st_ops st, st_txnops st, st_txnstatus st, st_tables st).
Lemma tallies_fold recs st1 st2 : tallies st1 = tallies st2 ->
  tallies (fold_left scan_rec recs st1) = tallies (fold_left scan_rec recs st2).
Proof.
  intros H. rewrite !scan_fold. unfold tallies in *.
  cbn [st_records st_first st_last st_ops st_txnops st_txnstatus st_tables].
  injection H as -> -> -> -> -> -> ->. reflexivity.
Qed.

Lemma scan_file_ok st e :
  exists st', scan_file (Ok (Some st)) e = Ok (Some st') /\
              tallies st' = tallies (fold_left scan_rec (file_recs e) st).
Proof.
  unfold scan_file, file_recs. cbn [bind].
  destruct (d_file e) as [data|]; [|exists st; split; reflexivity].
  destruct (ParseWALFile_total data) as [r Hr]. rewrite Hr. cbn [bind].
  destruct r as [|recs]; [exists st; split; reflexivity|].
  assert (V : exists ver, (if (Z.of_nat (length (st_version st)) =? 0) && (len data >=? 2)
             then m <- u16 data 0 ;; Ok (pgVersionFromMagic m) else Ok (st_version st)) = Ok ver).
  { destruct ((Z.of_nat (length (st_version st)) =? 0) && (len data >=? 2)) eqn:E; [|eauto].
    apply andb_prop in E. destruct E as [_ E]. unfold u16.
    destruct (uN_some 2 data 0) as (m & -> & _); [lia|lia|]. cbn [bind]. eauto. }
  destruct V as [ver ->]. cbn [bind].
  assert (T : exists tli, (if (st_tli st =? 0) && (len data >=? 8) then u32 data 4 else Ok (st_tli st)) = Ok tli).
  { destruct ((st_tli st =? 0) && (len data >=? 8)) eqn:E; [|eauto].
    apply andb_prop in E. destruct E as [_ E]. unfold u32.
    destruct (uN_some 4 data 4) as (m & -> & _); [lia|lia|]. eauto. }
  destruct T as [tli ->]. cbn [bind].
  eexists. split; [reflexivity|]. apply tallies_fold. reflexivity.
Qed.

Lemma scan_files_ok files : forall st,
  exists st', fold_left scan_file files (Ok (Some st)) = Ok (Some st') /\
              tallies st' = tallies (fold_left scan_rec (concat (map file_recs files)) st).
Proof.
  induction files as [|e files IH]; intros st; cbn [fold_left map concat].
  - exists st. split; reflexivity.
  - destruct (scan_file_ok st e) as (st1 & -> & T1).
    destruct (IH st1) as (st2 & -> & T2). exists st2. split; [reflexivity|].
    rewrite T2. rewrite fold_left_app. apply tallies_fold. exact T1.
Qed.

(* ---------- sorted lists of xids ---------- *)
Fixpoint insertZ (x : Z) (l : list Z) : list Z :=
  match l with [] => [x] | y :: r => if x <=? y then x :: l else y :: insertZ x r end.
Definition isort (l : list Z) : list Z := fold_right insertZ [] l.

Lemma in_insertZ y x l : In y (insertZ x l) <-> y = x \/ In y l.
Proof.
  induction l as [|z l IH]; cbn [insertZ In]; [intuition|].
  destruct (x <=? z); cbn [In]; [intuition|]. rewrite IH. intuition.
Qed.
Lemma insertZ_sorted x l : StronglySorted Z.lt l -> ~ In x l -> StronglySorted Z.lt (insertZ x l).
Proof.
  induction l as [|z l IH]; intros S N; cbn [insertZ].
  - constructor; constructor.
  - inversion S as [|? ? S' F]; subst. destruct (x <=? z) eqn:E.
    + assert (x < z) by (assert (x <> z) by (intros ->; apply N; left; reflexivity); lia).
      constructor; [exact S|]. constructor; [lia|]. rewrite Forall_forall in *. intros w Hw. specialize (F w Hw). lia.
    + constructor; [apply IH; [exact S'|intros Hin; apply N; right; exact Hin]|].
      rewrite Forall_forall in *. intros w Hw. apply in_insertZ in Hw. destruct Hw as [->|Hw]; [lia|apply F, Hw].
Qed.
Lemma in_isort y l : In y (isort l) <-> In y l.
Proof. induction l as [|x l IH]; cbn [isort fold_right In]; [reflexivity|]. fold (isort l). rewrite in_insertZ, IH. intuition. Qed.
Lemma isort_sorted l : NoDup l -> StronglySorted Z.lt (isort l).
Proof.
  induction 1 as [|x l N _ IH]; cbn [isort fold_right]; [constructor|]. fold (isort l).
  apply insertZ_sorted; [exact IH|]. rewrite in_isort. exact N.
Qed.
Lemma in_insert_uniq y x l : In y (insert_uniq x l) <-> y = x \/ In y l.
Proof.
  induction l as [|z l IH]; cbn [insert_uniq In]; [intuition|].
  destruct (x <? z); cbn [In]; [intuition|]. destruct (x =? z) eqn:E; cbn [In].
  - assert (x = z) by lia. subst. intuition.
  - rewrite IH. intuition.
Qed.
Lemma insert_uniq_sorted x l : StronglySorted Z.lt l -> StronglySorted Z.lt (insert_uniq x l).
Proof.
  induction l as [|z l IH]; intros S; cbn [insert_uniq].
  - constructor; constructor.
  - inversion S as [|? ? S' F]; subst. destruct (x <? z) eqn:E.
    + constructor; [exact S|]. constructor; [lia|]. rewrite Forall_forall in *. intros w Hw. specialize (F w Hw). lia.
    + destruct (x =? z) eqn:E2; [exact S|].
      constructor; [apply IH; exact S'|].
      rewrite Forall_forall in *. intros w Hw. apply in_insert_uniq in Hw. destruct Hw as [->|Hw]; [lia|apply F, Hw].
Qed.
Lemma sorted_ext : forall l1 l2, StronglySorted Z.lt l1 -> StronglySorted Z.lt l2 ->
  (forall x, In x l1 <-> In x l2) -> l1 = l2.
Proof.
  induction l1 as [|a l1 IH]; intros l2 S1 S2 H.
  - destruct l2 as [|b l2]; [reflexivity|]. exfalso. apply (H b). left; reflexivity.
  - destruct l2 as [|b l2]; [exfalso; apply (H a); left; reflexivity|].
    inversion S1 as [|? ? S1' F1]; subst. inversion S2 as [|? ? S2' F2]; subst.
    rewrite Forall_forall in F1, F2.
    assert (a = b).
    { destruct (proj1 (H a) (or_introl eq_refl)) as [E|Hin]; [congruence|].
      destruct (proj2 (H b) (or_introl eq_refl)) as [E|Hin2]; [congruence|].
      specialize (F1 _ Hin2). specialize (F2 _ Hin). lia. }
    subst b. f_equal. apply IH; auto. intros x. split; intros Hx.
    + destruct (proj1 (H x) (or_intror Hx)) as [E|Hin]; [|exact Hin]. subst. specialize (F1 _ Hx). lia.
    + destruct (proj2 (H x) (or_intror Hx)) as [E|Hin]; [|exact Hin]. subst. specialize (F2 _ Hx). lia.
Qed.

(* ---------- transactions ---------- *)
Definition nz_xids (recs : list WALRecord) : list Z := filter (fun x => negb (x =? 0)) (map r_xid recs).
Lemma txo_fold recs : forall m,
  fold_left upd_txo recs m = fold_left (fun m k => incr Z.eqb k m) (nz_xids recs) m.
Proof.
  induction recs as [|r recs IH]; intros m; cbn [fold_left]; [reflexivity|].
  unfold nz_xids. cbn [map filter]. fold (nz_xids recs). unfold upd_txo at 2.
  destruct (negb (r_xid r =? 0)); cbn [fold_left]; apply IH.
Qed.
Lemma sorted_xids_eq recs : sorted_xids recs = fold_right insert_uniq [] (nz_xids recs).
Proof. reflexivity. Qed.

Definition stat_of (m : list (Z * txn_status)) (x : Z) : txn_status :=
  match get_key Z.eqb x m with Some s => s | None => TInProgress end.
Definition rec_named (r : WALRecord) : Prop := r_op r = operationName (r_rmid r) (r_info r) /\ 0 <= r_info r < 256.
Definition spec_step (x : Z) (st : txn_status) (r : WALRecord) : txn_status :=
  if (r_xid r =? x) && (r_rmid r =? 1) then
    if xact_commits (r_info r) then TCommit else if xact_aborts (r_info r) then TAbort else st
  else st.
Lemma stat_fold x : x <> 0 -> forall recs m, Forall rec_named recs ->
  stat_of (fold_left upd_txs recs m) x = fold_left (spec_step x) recs (stat_of m x).
Proof.
  intros Hx. induction recs as [|r recs IH]; intros m Hn; cbn [fold_left]; [reflexivity|].
  inversion Hn as [|? ? [Hop Hinfo] Hn']; subst. rewrite IH by exact Hn'. f_equal.
  unfold upd_txs, spec_step.
  destruct (r_rmid r =? 1) eqn:E1.
  - assert (R1 : r_rmid r = 1) by lia. rewrite Hop, R1.
    destruct (xact_status (r_info r) Hinfo) as [C A].
    destruct (r_xid r =? 0) eqn:E0; cbn [negb andb].
    + destruct (r_xid r =? x) eqn:Ex; [lia|]. reflexivity.
    + rewrite C. destruct (xact_commits (r_info r)) eqn:EC.
      * unfold stat_of. rewrite (get_set Z.eqb Zeqb_spec). rewrite Z.eqb_sym. destruct (r_xid r =? x); reflexivity.
      * rewrite C in A. cbn [negb andb] in A. rewrite A. destruct (xact_aborts (r_info r)).
        -- unfold stat_of. rewrite (get_set Z.eqb Zeqb_spec). rewrite Z.eqb_sym. destruct (r_xid r =? x); reflexivity.
        -- destruct (r_xid r =? x); reflexivity.
  - rewrite !Bool.andb_false_r. reflexivity.
Qed.

Lemma insert_txn_map (g : Z -> TransactionInfo) x l : (forall y, t_xid (g y) = y) ->
  insert_txn (g x) (map g l) = map g (insertZ x l).
Proof.
  intros Hg. induction l as [|y l IH]; cbn [map insert_txn insertZ]; [reflexivity|].
  rewrite !Hg. destruct (x <=? y); cbn [map]; [reflexivity|]. rewrite IH. reflexivity.
Qed.
Lemma sort_txns_map (g : Z -> TransactionInfo) l : (forall y, t_xid (g y) = y) ->
  sort_txns (map g l) = map g (isort l).
Proof.
  intros Hg. induction l as [|x l IH]; cbn [map sort_txns fold_right isort]; [reflexivity|].
  fold (sort_txns (map g l)). fold (isort l). rewrite IH. apply insert_txn_map, Hg.
Qed.

Lemma uniq_fold_sorted l : StronglySorted Z.lt (fold_right insert_uniq [] l).
Proof. induction l as [|x l IHl]; cbn [fold_right]; [constructor|]. apply insert_uniq_sorted, IHl. Qed.
Lemma in_uniq_fold x l : In x (fold_right insert_uniq [] l) <-> In x l.
Proof.
  induction l as [|y l IHl]; cbn [fold_right In]; [reflexivity|]. rewrite in_insert_uniq, IHl. intuition.
Qed.

Lemma count_nz x recs : x <> 0 ->
  count (Z.eqb x) (nz_xids recs) = count (fun r => r_xid r =? x) recs.
Proof.
  intros Hx. unfold count, nz_xids. induction recs as [|r recs IH]; [reflexivity|]. cbn [map filter].
  destruct (r_xid r =? 0) eqn:E0; cbn [negb filter].
  - destruct (r_xid r =? x) eqn:Ex; [lia|]. exact IH.
  - rewrite (Z.eqb_sym x). destruct (r_xid r =? x); cbn [length]; lia.
Qed.

Lemma txns_spec recs st :
  Forall rec_named recs -> st_txnops st = [] -> st_txnstatus st = [] ->
  s_txns (summarize (fold_left scan_rec recs st)) = spec_txns recs.
Proof.
  intros Hn H1 H2. rewrite scan_fold. unfold summarize.
  cbn [s_txns st_txnops st_txnstatus]. rewrite H1, H2. rewrite txo_fold.
  set (A := fold_left (fun m k => incr Z.eqb k m) (nz_xids recs) []).
  set (TS := fold_left upd_txs recs []).
  assert (ND : NoDup (map fst A)) by (apply (nodup_fold Z.eqb Zeqb_spec); constructor).
  assert (IN : forall y, In y (map fst A) <-> In y (nz_xids recs)).
  { intros y. unfold A. rewrite (in_keys_fold Z.eqb Zeqb_spec). cbn [map In]. intuition. }
  set (g := fun x => {| t_xid := x; t_status := spec_status x recs; t_ops := count (fun r => r_xid r =? x) recs |}).
  assert (M : map (mk_txn TS) A = map g (map fst A)).
  { rewrite map_map. apply map_ext_in. intros [x n] Hin. unfold mk_txn, g. cbn [fst snd].
    assert (Hx : In x (nz_xids recs)) by (apply IN; apply (in_map fst) in Hin; exact Hin).
    assert (x <> 0). { unfold nz_xids in Hx. apply filter_In in Hx. destruct Hx as [_ Hx]. lia. }
    f_equal.
    - change (match get_key Z.eqb x TS with Some s => s | None => TInProgress end) with (stat_of TS x).
      unfold TS. rewrite stat_fold by auto. reflexivity.
    - rewrite <- (lookup_in Z.eqb Zeqb_spec A ND x n Hin). unfold A.
      rewrite (lookup_fold Z.eqb Zeqb_spec). cbn [lookup]. rewrite count_nz by assumption. lia. }
  rewrite M. rewrite sort_txns_map by reflexivity. unfold spec_txns. fold g. f_equal.
  rewrite sorted_xids_eq. apply sorted_ext.
  - apply isort_sorted, ND.
  - apply uniq_fold_sorted.
  - intros x. rewrite in_isort, IN, in_uniq_fold. reflexivity.
Qed.

(* ---------- first / last LSN ---------- *)
Lemma first_fold recs : forall f, Forall (fun r => 0 < r_lsn r) recs -> 0 <= f ->
  fold_left upd_first recs f = fold_left Z.min (map r_lsn recs) f \/ f = 0.
Proof. intros. destruct (Z.eq_dec f 0); [right; assumption|left].
  revert f H0 n. induction recs as [|r recs IH]; intros f Hf Hn; cbn [fold_left map]; [reflexivity|].
  inversion H as [|? ? Hr Hrest]; subst. unfold upd_first at 2.
  destruct (f =? 0) eqn:E; [lia|]. cbn [orb].
  destruct (r_lsn r <? f) eqn:E2.
  - replace (Z.min f (r_lsn r)) with (r_lsn r) by lia. apply IH; auto; lia.
  - replace (Z.min f (r_lsn r)) with f by lia. apply IH; auto.
Qed.
Lemma first_spec recs : Forall (fun r => 0 < r_lsn r) recs ->
  fold_left upd_first recs 0 = zmin_list (map r_lsn recs).
Proof.
  intros H. destruct recs as [|r recs]; [reflexivity|]. cbn [fold_left map zmin_list].
  inversion H as [|? ? Hr Hrest]; subst. unfold upd_first at 2. cbn [Z.eqb orb].
  destruct (first_fold recs (r_lsn r) Hrest ltac:(lia)) as [E|E]; [exact E|lia].
Qed.
Lemma last_spec recs : Forall (fun r => 0 < r_lsn r) recs ->
  fold_left upd_last recs 0 = zmax_list (map r_lsn recs).
Proof.
  intros H. destruct recs as [|r recs]; [reflexivity|]. cbn [fold_left map zmax_list].
  inversion H as [|? ? Hr Hrest]; subst. unfold upd_last at 2.
  destruct (r_lsn r >? 0) eqn:E; [|lia]. clear E Hr H.
  generalize (r_lsn r). induction recs as [|q recs IH]; intros f; cbn [fold_left map]; [reflexivity|].
  inversion Hrest; subst. unfold upd_last at 2. destruct (r_lsn q >? f) eqn:E.
  - replace (Z.max f (r_lsn q)) with (r_lsn q) by lia. apply IH; auto.
  - replace (Z.max f (r_lsn q)) with f by lia. apply IH; auto.
Qed.

(* ---------- tables ---------- *)
Lemma tables_fold recs : forall tb,
  fold_left upd_tables recs tb = fold_left (fun m k => incr pair_eqb k m) (table_keys recs) tb.
Proof.
  unfold table_keys, rec_blocks.
  induction recs as [|r recs IH]; intros tb; cbn [fold_left map concat]; [reflexivity|].
  rewrite map_app, concat_app, fold_left_app. rewrite IH. f_equal.
  unfold upd_tables. generalize tb. induction (r_blocks r) as [|b bs IHb]; intros tb0; cbn [fold_left map concat]; [reflexivity|].
  rewrite fold_left_app. rewrite IHb. f_equal. unfold scan_block.
  destruct (b_rnode b) as [rn|]; [|reflexivity]. destruct (negb (rn_rel rn =? 0)); reflexivity.
Qed.

Lemma ops_fold recs : forall m,
  fold_left (fun m r => incr bytes_eqb (r_op r) m) recs m = fold_left (fun m k => incr bytes_eqb k m) (map r_op recs) m.
Proof. induction recs as [|r rs IH]; intros m; cbn [fold_left map]; [reflexivity|]. apply IH. Qed.

(* ---------- the directory theorem ---------- *)
Theorem scan_tallies ents :
  exists sum, ScanWALDirectory ents = Ok (Some sum) /\
    let recs := dir_recs ents in
    s_records sum = Z.of_nat (length recs) /\
    (forall name, lookup bytes_eqb name (s_ops sum) = lookup bytes_eqb name (spec_ops recs)) /\
    (forall name, lookup bytes_eqb name (s_ops sum) = count (bytes_eqb name) (map r_op recs)) /\
    NoDup (map fst (s_ops sum)) /\
    (forall k, lookup pair_eqb k (s_tables sum) = lookup pair_eqb k (spec_tables recs)) /\
    (forall k, lookup pair_eqb k (s_tables sum) = count (pair_eqb k) (table_keys recs)) /\
    NoDup (map fst (s_tables sum)) /\
    (Forall rec_named recs -> s_txns sum = spec_txns recs) /\
    (Forall (fun r => 0 < r_lsn r) recs ->
       s_first sum = FormatLSN (zmin_list (map r_lsn recs)) /\ s_last sum = FormatLSN (zmax_list (map r_lsn recs))).
Proof.
  unfold ScanWALDirectory, dir_recs.
  destruct (scan_files_ok (wal_files ents) init_state) as (st & -> & T). cbn [bind option_map].
  eexists. split; [reflexivity|]. cbn zeta.
  set (recs := concat (map file_recs (wal_files ents))) in *.
  pose proof (txns_spec recs init_state) as TX.
  rewrite scan_fold in T, TX. unfold tallies in T.
  cbn [st_records st_first st_last st_ops st_txnops st_txnstatus st_tables init_state] in T.
  injection T as T1 T2 T3 T4 T5 T6 T7.
  unfold summarize. cbn [s_records s_ops s_tables s_txns s_first s_last].
  rewrite T1, T2, T3, T4, T5, T6, T7.
  rewrite ops_fold, tables_fold.
  split; [lia|]. split.
  { intros name. rewrite (lookup_fold bytes_eqb bytes_eqb_eq). unfold spec_ops.
    rewrite (lookup_tally_of bytes_eqb bytes_eqb_eq). reflexivity. }
  split. { intros name. rewrite (lookup_fold bytes_eqb bytes_eqb_eq). reflexivity. }
  split. { apply (nodup_fold bytes_eqb bytes_eqb_eq). constructor. }
  split.
  { intros k. rewrite (lookup_fold pair_eqb pair_eqb_spec). unfold spec_tables.
    rewrite (lookup_tally_of pair_eqb pair_eqb_spec). reflexivity. }
  split. { intros k. rewrite (lookup_fold pair_eqb pair_eqb_spec). reflexivity. }
  split. { apply (nodup_fold pair_eqb pair_eqb_spec). constructor. }
  split.
  { intros Hn. specialize (TX Hn eq_refl eq_refl). unfold summarize in TX.
    cbn [s_txns st_txnops st_txnstatus init_state] in TX. exact TX. }
  intros Hl. rewrite first_spec, last_spec by exact Hl. split; reflexivity.
Qed.

(* the records ParseWALFile reports always carry the names of their stored ids *)
Lemma page_loop_named : forall fuel s addr pos l, page_loop fuel s addr pos = Ok (Some l) -> Forall rec_named l.
Proof.
  induction fuel as [|k IH]; intros s addr pos l; cbn [page_loop]; [discriminate|].
  destruct (page_step s addr pos) as [[[[rec pos']|]|]|] eqn:E; cbn [bind]; try discriminate.
  - destruct (page_loop k s addr pos') as [[rest|]|] eqn:E2; cbn [bind]; try discriminate.
    + specialize (IH _ _ _ _ E2). destruct rec as [r|]; cbn [ocons option_map]; intros [= <-]; [|exact IH].
      constructor; [|exact IH].
      unfold page_step in E. destruct (negb _); [discriminate|].
      destruct (slice_from s pos) as [d|]; cbn [bind] in E; [|discriminate].
      destruct (isZeroPadding d) as [[|]|]; cbn [bind] in E; try discriminate.
      unfold parseXLogRecord in E. destruct (len d <? XLogRecordSize); [cbn [bind] in E; discriminate|].
      destruct (u32 d 0) as [tl|]; cbn [bind] in E; [|discriminate].
      destruct ((tl <? XLogRecordSize) || (tl >? WALPageSize * 2)); [cbn [bind] in E; discriminate|].
      destruct (u32 d 4); cbn [bind] in E; [|discriminate].
      destruct (u64 d 8); cbn [bind] in E; [|discriminate].
      destruct (idx d 16) as [info|] eqn:EI; cbn [bind] in E; [|discriminate].
      destruct (idx d 17) as [rmid|]; cbn [bind] in E; [|discriminate].
      destruct (u32 d 20); cbn [bind] in E; [|discriminate].
      match type of E with context [bind (bind ?b _) _] => destruct b as [[bl|]|] end; cbn [bind] in E; try discriminate.
      destruct (tl =? 0); [discriminate|]. injection E as <- _.
      split; [reflexivity|]. cbn [r_info]. apply idx_range in EI. exact EI.
    + destruct rec; cbn [ocons option_map]; discriminate.
  - intros [= <-]. constructor.
Qed.
Lemma file_loop_named : forall fuel s off l, file_loop fuel s off = Ok (Some l) -> Forall rec_named l.
Proof.
  induction fuel as [|k IH]; intros s off l; cbn [file_loop]; [discriminate|].
  destruct (negb _); [intros [= <-]; constructor|].
  destruct (slice s off (off + WALPageSize)) as [pg|]; cbn [bind]; [|discriminate].
  destruct (parseWALPage pg off) as [[[| |recs]|]|] eqn:E; cbn [bind]; try discriminate; try apply IH.
  destruct (file_loop k s (off + WALPageSize)) as [[rest|]|] eqn:E2; cbn [bind oapp option_map]; try discriminate.
  intros [= <-]. apply Forall_app. split; [|apply (IH _ _ _ E2)].
  unfold parseWALPage in E. destruct (len pg <? ShortHeaderSize); [discriminate|].
  destruct (parsePageHeader pg) as [h|]; cbn [bind] in E; [|discriminate].
  destruct (negb (isValidMagic (h_magic h))); [discriminate|].
  match type of E with context [page_loop ?f ?s ?a ?p] => destruct (page_loop f s a p) as [[l0|]|] eqn:E3 end;
    cbn [bind option_map] in E; try discriminate.
  injection E as <-. apply (page_loop_named _ _ _ _ _ E3).
Qed.
Lemma dir_recs_named ents : Forall rec_named (dir_recs ents).
Proof.
  unfold dir_recs. induction (wal_files ents) as [|e fs IH]; cbn [map concat]; [constructor|].
  apply Forall_app. split; [|exact IH]. unfold file_recs.
  destruct (d_file e) as [data|]; [|constructor].
  destruct (ParseWALFile data) as [[[|l]|]|] eqn:E; try constructor.
  unfold ParseWALFile in E. destruct (len data <? LongHeaderSize); [discriminate|].
  match type of E with context [file_loop ?f ?s ?o] => destruct (file_loop f s o) as [[l0|]|] eqn:E2 end;
    cbn [bind option_map] in E; try discriminate.
  injection E as <-. apply (file_loop_named _ _ _ _ E2).
Qed.

(* ---------- GetRecentWALRecords ---------- *)
Lemma lastn_app_short {A} n (pre res : list A) : pre = [] \/ n <= Z.of_nat (length res) -> 0 <= n ->
  lastn n (pre ++ res) = lastn n res.
Proof.
  intros [->|H] Hn; [reflexivity|]. unfold lastn. rewrite app_length, skipn_app.
  rewrite skipn_all2 by lia. cbn [app]. f_equal. lia.
Qed.
Lemma recent_loop_spec limit : forall rfiles acc,
  exists res pre, recent_loop rfiles limit acc = Ok (Some res) /\
    concat (map file_recs (rev rfiles)) ++ acc = pre ++ res /\ (pre = [] \/ limit <= Z.of_nat (length res)).
Proof.
  induction rfiles as [|e older IH]; intros acc; cbn [recent_loop rev map concat].
  - exists acc, []. split; [reflexivity|]. split; [reflexivity|left; reflexivity].
  - rewrite map_app, concat_app. cbn [map concat]. rewrite app_nil_r.
    destruct (Z.of_nat (length acc) <? limit) eqn:E; cbn [negb].
    + unfold file_recs at 2. destruct (d_file e) as [data|].
      * destruct (ParseWALFile_total data) as [r ->]. cbn [bind]. destruct r as [|recs].
        -- destruct (IH acc) as (res & pre & H1 & H2 & H3). exists res, pre. rewrite app_nil_r. auto.
        -- destruct (IH (recs ++ acc)) as (res & pre & H1 & H2 & H3). exists res, pre.
           split; [exact H1|]. split; [rewrite <- app_assoc; exact H2|exact H3].
      * destruct (IH acc) as (res & pre & H1 & H2 & H3). exists res, pre. rewrite app_nil_r. auto.
    + exists acc, (concat (map file_recs (rev older)) ++ file_recs e). split; [reflexivity|]. split; [reflexivity|right; lia].
Qed.
Theorem recent_spec ents limit : 0 <= limit ->
  GetRecentWALRecords ents limit = Ok (Some (lastn limit (dir_recs ents))).
Proof.
  intros Hl. unfold GetRecentWALRecords, dir_recs.
  destruct (recent_loop_spec limit (rev (wal_files ents)) []) as (res & pre & -> & H2 & H3). cbn [bind].
  rewrite rev_involutive, app_nil_r in H2. rewrite H2. rewrite lastn_app_short by auto.
  destruct (Z.of_nat (length res) >? limit) eqn:E.
  - destruct ((0 <=? Z.of_nat (length res) - limit) && (Z.of_nat (length res) - limit <=? Z.of_nat (length res))) eqn:E2; [|lia].
    reflexivity.
  - unfold lastn. replace (Z.to_nat (Z.of_nat (length res) - limit)) with 0%nat by lia. reflexivity.
Qed.

(* ---------- file selection ---------- *)
Lemma in_skipn {A} (x : A) n l : In x (skipn n l) -> In x l.
Proof. intros H. rewrite <- (firstn_skipn n l). apply in_or_app. right. exact H. Qed.
Lemma hex_name_no_history n : forallb is_hex_upper n = true -> has_suffix n str_history = false.
Proof.
  intros H. destruct (has_suffix n str_history) eqn:E; [|reflexivity]. exfalso.
  unfold has_suffix in E. apply andb_prop in E. destruct E as [_ E]. apply bytes_eqb_eq in E.
  assert (Hin : In "y"%byte n).
  { eapply in_skipn. rewrite E. vm_compute. intuition. }
  rewrite forallb_forall in H. specialize (H _ Hin). vm_compute in H. discriminate.
Qed.
Lemma selection_spec ents : dir_ok ents -> filter is_wal_name ents = filter is_segment_file ents.
Proof.
  intros H. induction H as [|e ents He _ IH]; [reflexivity|]. cbn [filter]. rewrite IH.
  replace (is_wal_name e) with (is_segment_file e); [reflexivity|].
  unfold is_wal_name, is_segment_file. destruct (d_isdir e) eqn:D; cbn [negb andb]; [reflexivity|].
  unfold is_xlog_file_name in *.
  destruct (Z.of_nat (length (d_name e)) =? 24) eqn:L; cbn [andb]; [|reflexivity].
  destruct (forallb is_hex_upper (d_name e)) eqn:F.
  - rewrite hex_name_no_history by exact F. reflexivity.
  - specialize (He eq_refl ltac:(lia)). discriminate He.
Qed.

Lemma file_recs_segment e its tr t :
  d_file e = Some {| vis := enc_segment its tr; tail := t |} ->
  Forall (wf_item 24) its -> its <> [] -> blen tr < 8192 -> file_recs e = segment_model its.
Proof. intros E W N T. unfold file_recs. rewrite E, ParseWALFile_enc by auto. reflexivity. Qed.

(* ---------- the transaction list does not depend on the order in which Go ranges over txnOps ---------- *)
Definition ltk (a b : TransactionInfo) : Prop := t_xid a < t_xid b.
Lemma insert_txn_perm t l : Permutation (insert_txn t l) (t :: l).
Proof.
  induction l as [|x l IH]; cbn [insert_txn]; [reflexivity|].
  destruct (t_xid t <=? t_xid x); [reflexivity|].
  rewrite IH. apply perm_swap.
Qed.
Lemma sort_txns_permutation l : Permutation (sort_txns l) l.
Proof.
  induction l as [|x l IH]; cbn [sort_txns fold_right]; [reflexivity|]. fold (sort_txns l).
  rewrite insert_txn_perm. constructor. exact IH.
Qed.
Lemma insert_txn_sorted t l : StronglySorted ltk l -> (forall x, In x l -> t_xid x <> t_xid t) ->
  StronglySorted ltk (insert_txn t l).
Proof.
  induction l as [|z l IH]; intros S N; cbn [insert_txn].
  - constructor; constructor.
  - inversion S as [|? ? S' F]; subst. rewrite Forall_forall in F. destruct (t_xid t <=? t_xid z) eqn:E.
    + assert (t_xid z <> t_xid t) by (apply N; left; reflexivity).
      constructor; [exact S|]. rewrite Forall_forall. intros w [<-|Hw]; unfold ltk in *; [lia|]. specialize (F w Hw). lia.
    + constructor; [apply IH; [exact S'|intros x Hx; apply N; right; exact Hx]|].
      rewrite Forall_forall. intros w Hw.
      apply (Permutation_in _ (insert_txn_perm t l)) in Hw. destruct Hw as [<-|Hw]; unfold ltk in *; [lia|apply F, Hw].
Qed.
Lemma sort_txns_sorted l : NoDup (map t_xid l) -> StronglySorted ltk (sort_txns l).
Proof.
  induction l as [|x l IH]; cbn [map sort_txns fold_right]; intros H; [constructor|]. fold (sort_txns l).
  inversion H as [|? ? Hn Hr]; subst. apply insert_txn_sorted; [apply IH, Hr|].
  intros y Hy E. apply Hn. rewrite <- E. apply in_map.
  apply (Permutation_in _ (sort_txns_permutation l)). exact Hy.
Qed.
Lemma sorted_perm_unique : forall l1 l2, StronglySorted ltk l1 -> StronglySorted ltk l2 -> Permutation l1 l2 -> l1 = l2.
Proof.
  induction l1 as [|a l1 IH]; intros l2 S1 S2 P.
  - apply Permutation_nil in P. subst. reflexivity.
  - destruct l2 as [|b l2]; [apply Permutation_sym, Permutation_nil in P; discriminate|].
    inversion S1 as [|? ? S1' F1]; subst. inversion S2 as [|? ? S2' F2]; subst.
    rewrite Forall_forall in F1, F2.
    assert (a = b).
    { assert (Ha : In a (b :: l2)) by (apply (Permutation_in _ P); left; reflexivity).
      assert (Hb : In b (a :: l1)) by (apply (Permutation_in _ (Permutation_sym P)); left; reflexivity).
      destruct Ha as [E|Ha]; [congruence|]. destruct Hb as [E|Hb]; [congruence|].
      specialize (F1 _ Hb). specialize (F2 _ Ha). unfold ltk in *. lia. }
    subst b. f_equal. apply IH; auto. apply Permutation_cons_inv in P. exact P.
Qed.
Theorem sort_txns_perm l1 l2 : Permutation l1 l2 -> NoDup (map t_xid l1) -> sort_txns l1 = sort_txns l2.
Proof.
  intros P N. apply sorted_perm_unique.
  - apply sort_txns_sorted, N.
  - apply sort_txns_sorted. apply (Permutation_NoDup (Permutation_map t_xid P)), N.
  - rewrite !sort_txns_permutation. exact P.
Qed.

Lemma txns_order_independent st order :
  Permutation order (st_txnops st) -> NoDup (map fst (st_txnops st)) ->
  sort_txns (map (mk_txn (st_txnstatus st)) order) = s_txns (summarize st).
Proof.
  intros P N. unfold summarize. cbn [s_txns]. apply sort_txns_perm.
  - apply Permutation_map. exact P.
  - rewrite map_map. cbn [mk_txn t_xid]. apply (Permutation_NoDup (Permutation_map fst (Permutation_sym P))). exact N.
Qed.
Lemma scan_txnops_nodup recs : NoDup (map fst (st_txnops (fold_left scan_rec recs init_state))).
Proof.
  rewrite scan_fold. cbn [st_txnops init_state]. rewrite txo_fold. apply (nodup_fold Z.eqb Zeqb_spec). constructor.
Qed.
