(* ParseWALFile on segments = concatenation of pages; totality on all byte strings. *)
Require Import PG.Base.Bytes PG.Base.GoSlice PG.C17.Names PG.C17.Model PG.C17.SpecNames PG.C17.Spec.
Require Import PG.C17.NamesProofs PG.C17.BlockrefsProofs PG.C17.PageProofs.

Definition item_model (it : seg_item) : list WALRecord :=
  match it with inl _ => [] | inr p => page_model p end.

Lemma enc_item_len lim it : wf_item lim it -> blen (enc_item it) = 8192.
Proof. destruct it as [raw|p]; cbn [wf_item enc_item]; [intros [H _]; exact H|intros _; apply enc_page_len]. Qed.

Lemma isValidMagic_range m : isValidMagic m = true -> 53248 <= m <= 53759.
Proof. unfold isValidMagic. intros H. repeat (apply Bool.orb_prop in H; destruct H as [H|H]); lia. Qed.

Lemma parseWALPage_junk s base :
  len s = 8192 -> ~ (53248 <= le_dec (sub (vis s) 0 2) <= 53759) -> parseWALPage s base = Ok (Some PErrMagic).
Proof.
  intros L J. unfold parseWALPage, ShortHeaderSize.
  destruct (len s <? 24) eqn:E0; [lia|].
  destruct (parsePageHeader_total s ltac:(lia)) as (h & -> & _ & Hm). cbn [bind].
  destruct (isValidMagic (h_magic h)) eqn:E; [|reflexivity].
  apply isValidMagic_range in E. rewrite Hm in E. contradiction.
Qed.

Lemma concat_items_len lim its : Forall (wf_item lim) its ->
  blen (concat (map enc_item its)) = 8192 * Z.of_nat (length its).
Proof.
  induction 1 as [|it its H _ IH]; [reflexivity|]. cbn [map concat length]. bl.
  rewrite (enc_item_len lim it H), IH. lia.
Qed.

Lemma file_loop_enc : forall its fuel s off,
  Forall (wf_item 24) its -> 0 <= off ->
  sub (vis s) off (off + 8192 * Z.of_nat (length its)) = concat (map enc_item its) ->
  off + 8192 * Z.of_nat (length its) <= len s < off + 8192 * Z.of_nat (length its) + 8192 ->
  (length its < fuel)%nat ->
  file_loop fuel s off = Ok (Some (concat (map item_model its))).
Proof.
  induction its as [|it its IH]; intros fuel s off Hwf Hoff Hsub Hlen Hfuel.
  - destruct fuel as [|k]; [lia|]. cbn [file_loop length] in *. unfold WALPageSize.
    destruct (off + 8192 <=? len s) eqn:E; [lia|]. reflexivity.
  - destruct fuel as [|k]; [cbn [length] in Hfuel; lia|].
    inversion Hwf as [|? ? Hit Hwf']; subst.
    cbn [length] in Hsub, Hlen, Hfuel. cbn [map concat] in Hsub.
    pose proof (enc_item_len 24 it Hit) as Lit.
    pose proof (concat_items_len 24 its Hwf') as Lits.
    cbn [file_loop]. unfold WALPageSize.
    destruct (off + 8192 <=? len s) eqn:E; [|lia]. cbn [negb]. clear E.
    pose proof (len_le_cap s).
    unfold slice. destruct ((0 <=? off) && (off <=? off + 8192) && (off + 8192 <=? cap s)) eqn:E; [|lia]. clear E.
    cbn [bind].
    set (pg := {| vis := sub (mem s) off (off + 8192); tail := skipn (Z.to_nat (off + 8192)) (mem s) |}).
    assert (Vpg : vis pg = enc_item it).
    { unfold pg; cbn [vis]. unfold mem. rewrite sub_app_l by (unfold len in *; lia).
      replace (sub (vis s) off (off + 8192)) with
        (sub (sub (vis s) off (off + 8192 * Z.of_nat (S (length its)))) 0 8192) by (rewrite sub_sub by lia; f_equal; lia).
      rewrite Hsub. rewrite sub_app_l by lia. apply sub_exact; lia. }
    assert (Hrest : sub (vis s) (off + 8192) (off + 8192 + 8192 * Z.of_nat (length its)) = concat (map enc_item its)).
    { replace (sub (vis s) (off + 8192) (off + 8192 + 8192 * Z.of_nat (length its))) with
        (sub (sub (vis s) off (off + 8192 * Z.of_nat (S (length its)))) 8192 (8192 + 8192 * Z.of_nat (length its)))
        by (rewrite sub_sub by lia; f_equal; lia).
      rewrite Hsub. rewrite sub_app_r by lia. rewrite Lit. apply sub_exact; lia. }
    destruct it as [raw|p]; cbn [wf_item enc_item item_model] in *.
    + destruct Hit as [_ Hj].
      rewrite parseWALPage_junk; [| unfold len; rewrite Vpg; exact Lit | rewrite Vpg; exact Hj ].
      cbn [bind app]. apply IH; auto; lia.
    + assert (Epg : pg = {| vis := enc_page p; tail := tail pg |}) by (unfold pg in *; cbn [vis tail] in *; rewrite Vpg; reflexivity).
      rewrite Epg. rewrite parseWALPage_enc by exact Hit. cbn [bind].
      rewrite (IH k s (off + 8192)); [cbn [bind oapp option_map]; reflexivity|..]; auto; try lia.
Qed.

Definition segment_model (its : list seg_item) : list WALRecord := concat (map item_model its).

Theorem ParseWALFile_enc its trailing t :
  Forall (wf_item 24) its -> its <> [] -> blen trailing < 8192 ->
  ParseWALFile {| vis := enc_segment its trailing; tail := t |} = Ok (Some (FRecs (segment_model its))).
Proof.
  intros Hwf Hne Htr. pose proof (concat_items_len 24 its Hwf) as L.
  pose proof (blen_nonneg trailing).
  assert (Hn : (0 < length its)%nat) by (destruct its; [congruence|cbn; lia]).
  set (s := {| vis := enc_segment its trailing; tail := t |}).
  assert (Ls : len s = 8192 * Z.of_nat (length its) + blen trailing).
  { unfold len, s, enc_segment; cbn [vis]. bl. lia. }
  unfold ParseWALFile, LongHeaderSize, WALPageSize.
  destruct (len s <? 40) eqn:E; [lia|]. clear E.
  rewrite (file_loop_enc its); [reflexivity|..]; auto; try lia.
  unfold s, enc_segment; cbn [vis]. rewrite sub_app_l by lia. apply sub_exact; lia.
Qed.

(* what the model's records say, segment-wide *)
Lemma segment_headers its :
  map header_of (segment_model its) = map header_of (expected_segment its).
Proof.
  unfold segment_model, expected_segment. rewrite !concat_map, !map_map. f_equal.
  apply map_ext. intros [raw|p]; cbn [item_model expected_item]; [reflexivity|].
  apply page_headers_from.
Qed.
Definition item_clean (it : seg_item) : Prop :=
  match it with inl _ => True | inr p => Forall rec_clean (p_recs p) end.
Lemma segment_observe its :
  Forall (wf_item 24) its -> Forall item_clean its ->
  map observe (segment_model its) = expected_segment its.
Proof.
  intros Hwf Hcl. unfold segment_model, expected_segment. rewrite concat_map, map_map. f_equal.
  apply map_ext_in. intros [raw|p] Hin; cbn [item_model expected_item]; [reflexivity|].
  rewrite Forall_forall in Hwf, Hcl. specialize (Hwf _ Hin). specialize (Hcl _ Hin).
  cbn [wf_item item_clean] in *. unfold page_model, expected_page.
  apply (page_observe_from _ _ _ 24); [|exact Hcl]. unfold wf_page_gen in Hwf. intuition.
Qed.

(* ---------- totality on ALL byte strings ---------- *)
Lemma file_loop_total : forall fuel s off, 0 <= off -> Z.max 0 (len s - off) < 8192 * Z.of_nat fuel ->
  exists l, file_loop fuel s off = Ok (Some l).
Proof.
  induction fuel as [|k IH]; intros s off Hoff Hf; [lia|]. cbn [file_loop]. unfold WALPageSize.
  destruct (off + 8192 <=? len s) eqn:E; cbn [negb]; [|eauto].
  pose proof (len_le_cap s). destruct (slice_ok s off (off + 8192)) as [pg ->]; [lia|lia|lia|]. cbn [bind].
  destruct (parseWALPage_total pg off) as [r ->]. cbn [bind].
  destruct (IH s (off + 8192)) as [l Hl]; [lia|lia|].
  destruct r as [| |recs]; [exists l; exact Hl|exists l; exact Hl|].
  rewrite Hl. cbn [bind oapp option_map]. eauto.
Qed.
Theorem ParseWALFile_total s : exists r, ParseWALFile s = Ok (Some r).
Proof.
  unfold ParseWALFile, LongHeaderSize, WALPageSize.
  destruct (len s <? 40) eqn:E; [eauto|].
  destruct (file_loop_total (S (Z.to_nat (len s / 8192))) s 0) as [l ->]; [lia| |cbn [bind option_map]; eauto].
  pose proof (len_nonneg s). lia.
Qed.
