(* Concrete witnesses (vm_compute) for the known findings D53 (block references) and D55 (record header
   straddling the page end), and non-vacuity examples for the page / segment theorems. *)
Require Import PG.Base.Bytes PG.Base.GoSlice PG.C17.Names PG.C17.Model PG.C17.SpecNames PG.C17.Spec.
Require Import PG.C17.BlockrefsProofs PG.C17.PageProofs.

Ltac closed_arith :=
  repeat match goal with
         | |- _ /\ _ => split
         | |- in_u _ _ => unfold in_u
         end;
  try (vm_compute; first [reflexivity | congruence | intuition congruence]).

(* ---- D53: an INSERT-like record registering block 7 of relation 1663/5/16384 with 5 bytes of block
   data and 3 bytes of main data ---- *)
Definition w_block : sblock :=
  {| k_id := 0; k_fork := 0; k_image := None; k_hasdata := true; k_willinit := false; k_samerel := false;
     k_rnode := (1663, 5, 16384); k_blkno := 7; k_datalen := 5 |}.
Definition w_rec_blk : xrec :=
  {| x_xid := 701; x_prev := 23456789; x_info := 0; x_rmid := 10; x_pad := 0; x_crc := 3735928559;
     x_blocks := [w_block]; x_origin := None; x_toplevel := None; x_main := Some (false, 3);
     x_payload := [x01; x02; x03; x04; x05; x0a; x0b; x0c] |}.
Lemma w_rec_blk_wf : wf_rec w_rec_blk /\ wf_body w_rec_blk /\ kf_blockrefs w_rec_blk = true /\ kf_names w_rec_blk = false.
Proof. unfold wf_rec, wf_body, wf_main. closed_arith. all: try (intros H; discriminate H). Qed.
Lemma blockrefs_refuted :
  exists r, wf_rec r /\ wf_body r /\ kf_blockrefs r = true /\
            parseBlockRefs (exact (enc_body r)) <> Ok (Some (map expected_block (x_blocks r))).
Proof.
  exists w_rec_blk. destruct w_rec_blk_wf as (A & B & C & _).
  split; [exact A|]. split; [exact B|]. split; [exact C|].
  vm_compute. intros H; discriminate H.
Qed.
(* what the tool reports instead (for the findings file) *)
Example blockrefs_wrong_output :
  parseBlockRefs (exact (enc_body w_rec_blk)) =
  Ok (Some [ {| b_id := 0; b_fork := 0; b_flags := 32;
                b_rnode := Some {| rn_spc := 108986373; rn_db := 327680; rn_rel := 1073741824 |}; b_blkno := 458752 |} ]).
Proof. vm_compute. reflexivity. Qed.

(* ---- D55: a short-header page whose continuation ends at 8176 and a 24-byte record starting there ---- *)
Definition w_rec_plain : xrec :=
  {| x_xid := 702; x_prev := 16777256; x_info := 0; x_rmid := 1; x_pad := 0; x_crc := 305419896;
     x_blocks := []; x_origin := None; x_toplevel := None; x_main := None; x_payload := [] |}.
Definition w_page_straddle : xpage :=
  {| p_magic := 53523; p_info_hi := 0; p_long := false; p_cont := true; p_tli := 1; p_addr := 16785408;
     p_remlen := 8152; p_hpad := 0; p_sysid := 0; p_segsize := 0; p_blcksz := 0;
     p_contbytes := repeat x01 (Z.to_nat 8152); p_recs := [w_rec_plain] |}.
Lemma w_page_straddle_wf : wf_page_weak w_page_straddle /\ kf_straddle w_page_straddle = true.
Proof.
  unfold wf_page_weak, wf_page_gen, wf_rec. cbn [p_cont w_page_straddle p_recs starts_ok].
  closed_arith. all: try exact I.
Qed.
Lemma straddle_refuted :
  exists p, wf_page_weak p /\ kf_straddle p = true /\
            exists l, parseWALPage (exact (enc_page p)) 0 = Ok (Some (PRecs l)) /\
                      map header_of l <> map header_of (expected_page p).
Proof.
  exists w_page_straddle. destruct w_page_straddle_wf as [A B].
  split; [exact A|]. split; [exact B|].
  exists []. split; [vm_compute; reflexivity|]. vm_compute. intros H; discriminate H.
Qed.

(* ---- non-vacuity: a long-header page with two records, the second ending exactly at the page end ---- *)
Definition w_rec_big : xrec :=
  {| x_xid := 703; x_prev := 16777296; x_info := 32; x_rmid := 1; x_pad := 0; x_crc := 2596069104;
     x_blocks := []; x_origin := None; x_toplevel := None; x_main := Some (true, 8099);
     x_payload := repeat x07 (Z.to_nat 8099) |}.
Definition w_page_ok : xpage :=
  {| p_magic := 53523; p_info_hi := 4; p_long := true; p_cont := false; p_tli := 1; p_addr := 16777216;
     p_remlen := 0; p_hpad := 0; p_sysid := 7412345678901234567; p_segsize := 16777216; p_blcksz := 8192;
     p_contbytes := []; p_recs := [w_rec_plain; w_rec_big] |}.
Lemma w_rec_plain_clean : wf_rec w_rec_plain /\ rec_clean w_rec_plain.
Proof.
  unfold wf_rec, rec_clean, wf_body, wf_main. closed_arith. all: try exact I. all: try reflexivity.
Qed.
Lemma w_rec_big_clean : wf_rec w_rec_big /\ rec_clean w_rec_big.
Proof.
  unfold wf_rec, rec_clean, wf_body, wf_main, in_u.
  cbn [x_xid x_prev x_info x_rmid x_pad x_crc x_main x_blocks w_rec_big].
  repeat split; try lia; try (vm_compute; congruence); try reflexivity.
  all: try (intros _ H; discriminate H).
Qed.
Example w_page_ok_wf : wf_page w_page_ok /\ Forall rec_clean (p_recs w_page_ok) /\ kf_straddle w_page_ok = false.
Proof.
  destruct w_rec_plain_clean as [W1 C1]. destruct w_rec_big_clean as [W2 C2].
  split; [|split].
  - unfold wf_page, wf_page_gen. cbn [p_cont w_page_ok p_recs starts_ok].
    repeat match goal with |- _ /\ _ => split end; auto; unfold in_u; try (vm_compute; first [reflexivity|congruence]).
    all: try exact I.
    all: vm_compute; try (split; [discriminate|reflexivity]); auto.
  - cbn [p_recs w_page_ok]. constructor; [assumption|]. constructor; [assumption|]. constructor.
  - vm_compute. reflexivity.
Qed.
Example w_page_ok_exact_end :
  first_start w_page_ok + x_totlen w_rec_plain + x_totlen w_rec_big = 8192.
Proof. vm_compute. reflexivity. Qed.
