(* Model of pgdump/wal.go (after the fix: commits of branch verif-C17): ParseWALFile, parseWALPage,
   parsePageHeader, parseXLogRecord, parseBlockRefs, isZeroPadding, align8, ScanWALDirectory,
   GetRecentWALRecords.  (rmgrName, operationName, FormatLSN, isValidMagic, pgVersionFromMagic: Names.v)

   Reads of the form  binary.LittleEndian.UintN(data[a:a+N])  are modelled by [uN n s a], which
   panics iff a+N > len(data).  Go itself would panic only if a+N > cap(data); the model is therefore
   at least as panicky as the code, and wherever the model does not panic (every input: see the
   no-panic theorems) both read the same N bytes inside len.  Every such read in wal.go sits under
   an explicit len guard.

   Loops with data-dependent trip count run on explicit fuel; running out of fuel is the distinct
   result [Ok None], which the theorems exclude for ALL inputs (…_total lemmas). *)
Require Import PG.Base.Bytes PG.Base.GoSlice PG.C17.Names.

Definition WALPageSize : Z := 8192.
Definition XLogRecordSize : Z := 24.
Definition ShortHeaderSize : Z := 24.
Definition LongHeaderSize : Z := 40.

Record WALPageHeader := { h_magic : Z; h_info : Z; h_tli : Z; h_pageaddr : Z; h_remlen : Z;
                          h_sysid : Z; h_segsize : Z; h_blcksz : Z }.
Record RelFileNode := { rn_spc : Z; rn_db : Z; rn_rel : Z }.
Record WALBlockRef := { b_id : Z; b_fork : Z; b_flags : Z; b_rnode : option RelFileNode; b_blkno : Z }.
Record WALRecord := { r_totlen : Z; r_xid : Z; r_prev : Z; r_info : Z; r_rmid : Z; r_crc : Z;
                      r_lsn : Z; r_rmname : bytes; r_op : bytes; r_blocks : list WALBlockRef }.

Definition ocons {A} (a : A) (r : option (list A)) : option (list A) := option_map (cons a) r.
Definition oapp {A} (l : list A) (r : option (list A)) : option (list A) := option_map (app l) r.

(* wal.go:373  (n + 7) &^ 7 *)
Definition align8 (n : Z) : Z := Z.ldiff (n + 7) 7.

(* wal.go:364-371  for i := 0; i < 8 && i < len(data); i++ { if data[i] != 0 { return false } } *)
Fixpoint zero_loop (n : nat) (s : gslice) (i : Z) : res bool :=
  match n with
  | O => Ok true
  | S k => if i <? len s then
             b <- idx s i ;;
             if negb (b =? 0) then Ok false else zero_loop k s (i + 1)
           else Ok true
  end.
Definition isZeroPadding (s : gslice) : res bool := zero_loop 8 s 0.

(* wal.go:220-236 *)
Definition parsePageHeader (s : gslice) : res WALPageHeader :=
  m <- u16 s 0 ;; i <- u16 s 2 ;; t <- u32 s 4 ;; a <- u64 s 8 ;; r <- u32 s 16 ;;
  if negb (Z.land i 2 =? 0) && (len s >=? LongHeaderSize) then
    sy <- u64 s 24 ;; sg <- u32 s 32 ;; bs <- u32 s 36 ;;
    Ok {| h_magic := m; h_info := i; h_tli := t; h_pageaddr := a; h_remlen := r;
          h_sysid := sy; h_segsize := sg; h_blcksz := bs |}
  else
    Ok {| h_magic := m; h_info := i; h_tli := t; h_pageaddr := a; h_remlen := r;
          h_sysid := 0; h_segsize := 0; h_blcksz := 0 |}.

(* wal.go:273-335, one iteration of the loop body; [None] = break *)
Definition blockref_step (s : gslice) (pos : Z) : res (option (WALBlockRef * Z)) :=
  if negb (pos <? len s) then Ok None else           (* for pos < len(data) *)
  if pos + 1 >? len s then Ok None else              (* wal.go:274 *)
  blockID <- idx s pos ;;
  let pos := pos + 1 in
  if (blockID =? 255) || (blockID =? 254) then Ok None else   (* wal.go:282 *)
  if blockID >? 32 then Ok None else                          (* wal.go:286 *)
  if pos + 1 >? len s then Ok None else                       (* wal.go:290 *)
  ff <- idx s pos ;;
  let pos := pos + 1 in
  let hasImage := negb (Z.land ff 16 =? 0) in
  let hasData := negb (Z.land ff 32 =? 0) in
  let hasSameRel := negb (Z.land ff 64 =? 0) in
  rp <- (if negb hasSameRel && (pos + 12 <=? len s) then           (* wal.go:308 *)
           a <- u32 s pos ;; b <- u32 s (pos + 4) ;; c <- u32 s (pos + 8) ;;
           Ok (Some {| rn_spc := a; rn_db := b; rn_rel := c |}, pos + 12)
         else Ok (None, pos)) ;;
  let rn := fst rp in let pos := snd rp in
  bp <- (if pos + 4 <=? len s then v <- u32 s pos ;; Ok (v, pos + 4) else Ok (0, pos)) ;;  (* wal.go:317 *)
  let blk := fst bp in let pos := snd bp in
  pos <- (if hasImage && (pos + 2 <=? len s) then l <- u16 s pos ;; Ok (pos + 2 + l) else Ok pos) ;;
  pos <- (if hasData && (pos + 2 <=? len s) then l <- u16 s pos ;; Ok (pos + 2 + l) else Ok pos) ;;
  Ok (Some ({| b_id := blockID; b_fork := Z.land ff 15; b_flags := ff; b_rnode := rn; b_blkno := blk |}, pos)).

Fixpoint blockrefs_loop (fuel : nat) (s : gslice) (pos : Z) : res (option (list WALBlockRef)) :=
  match fuel with
  | O => Ok None
  | S k => st <- blockref_step s pos ;;
           match st with
           | None => Ok (Some [])
           | Some (b, pos') => rest <- blockrefs_loop k s pos' ;; Ok (ocons b rest)
           end
  end.
(* every iteration consumes at least two bytes, so len+1 iterations always suffice *)
Definition parseBlockRefs (s : gslice) : res (option (list WALBlockRef)) :=
  blockrefs_loop (S (Z.to_nat (len s))) s 0.

(* wal.go:238-267; result (rec, consumed) *)
Definition parseXLogRecord (s : gslice) (lsn : Z) : res (option (option WALRecord * Z)) :=
  if len s <? XLogRecordSize then Ok (Some (None, 0)) else
  totalLen <- u32 s 0 ;;
  if (totalLen <? XLogRecordSize) || (totalLen >? WALPageSize * 2) then Ok (Some (None, 0)) else
  xid <- u32 s 4 ;; prev <- u64 s 8 ;; info <- idx s 16 ;; rmid <- idx s 17 ;; crc <- u32 s 20 ;;
  blocks <- (if (totalLen >? XLogRecordSize) && (totalLen <=? len s)
             then body <- slice s XLogRecordSize totalLen ;; parseBlockRefs body
             else Ok (Some [])) ;;
  match blocks with
  | None => Ok None
  | Some bl =>
    Ok (Some (Some {| r_totlen := totalLen; r_xid := xid; r_prev := prev; r_info := info; r_rmid := rmid;
                      r_crc := crc; r_lsn := lsn; r_rmname := rmgrName rmid;
                      r_op := operationName rmid info; r_blocks := bl |}, totalLen))
  end.

(* wal.go:198-215 one iteration of the record loop; [None] = leave the loop *)
Definition page_step (s : gslice) (addr : Z) (pos : Z) : res (option (option (option WALRecord * Z))) :=
  if negb (pos + XLogRecordSize <=? len s) then Ok (Some None) else
  d <- slice_from s pos ;;
  z <- isZeroPadding d ;;
  if z then Ok (Some None) else
  (* header.PageAddr + uint64(pos): uint64 arithmetic wraps *)
  rc <- parseXLogRecord d (wrap 64 (addr + pos)) ;;
  match rc with
  | None => Ok None
  | Some (rec, consumed) =>
    if consumed =? 0 then Ok (Some None) else
    Ok (Some (Some (rec, align8 (pos + consumed))))
  end.

Fixpoint page_loop (fuel : nat) (s : gslice) (addr : Z) (pos : Z) : res (option (list WALRecord)) :=
  match fuel with
  | O => Ok None
  | S k => st <- page_step s addr pos ;;
           match st with
           | None => Ok None
           | Some None => Ok (Some [])
           | Some (Some (rec, pos')) =>
             rest <- page_loop k s addr pos' ;;
             Ok (match rec with Some r => ocons r rest | None => rest end)
           end
  end.

Inductive page_result := PErrSmall | PErrMagic | PRecs (l : list WALRecord).

(* wal.go:171-218.  baseOffset and pageNum are unused since the LSN fix. *)
Definition parseWALPage (s : gslice) (baseOffset : Z) : res (option page_result) :=
  if len s <? ShortHeaderSize then Ok (Some PErrSmall) else
  h <- parsePageHeader s ;;
  if negb (isValidMagic (h_magic h)) then Ok (Some PErrMagic) else
  let headerSize := if negb (Z.land (h_info h) 2 =? 0) then LongHeaderSize else ShortHeaderSize in
  let pos := if negb (Z.land (h_info h) 1 =? 0) && (h_remlen h >? 0)
             then align8 (headerSize + h_remlen h) else headerSize in
  (* every iteration advances by at least 24 bytes *)
  r <- page_loop (S (Z.to_nat (len s))) s (h_pageaddr h) pos ;;
  Ok (option_map PRecs r).

Inductive file_result := FErrSmall | FRecs (l : list WALRecord).

(* wal.go:158-166 *)
Fixpoint file_loop (fuel : nat) (s : gslice) (offset : Z) : res (option (list WALRecord)) :=
  match fuel with
  | O => Ok None
  | S k => if negb (offset + WALPageSize <=? len s) then Ok (Some []) else
           pg <- slice s offset (offset + WALPageSize) ;;
           r <- parseWALPage pg offset ;;
           match r with
           | None => Ok None
           | Some (PRecs l) => rest <- file_loop k s (offset + WALPageSize) ;; Ok (oapp l rest)
           | Some _ => file_loop k s (offset + WALPageSize)       (* continue: skip invalid pages *)
           end
  end.
(* wal.go:150-169 *)
Definition ParseWALFile (s : gslice) : res (option file_result) :=
  if len s <? LongHeaderSize then Ok (Some FErrSmall) else
  r <- file_loop (S (Z.to_nat (len s / WALPageSize))) s 0 ;;
  Ok (option_map FRecs r).

(* ------------------------------------------------------------------ directory level *)
(* A directory entry as os.ReadDir / os.ReadFile show it: name, IsDir, and what ReadFile returns
   (None = error).  Entry names of one directory are pairwise distinct. *)
Record dirent := { d_name : bytes; d_isdir : bool; d_file : option gslice }.

Fixpoint bytes_leb (a b : bytes) : bool :=   (* Go string order: bytewise lexicographic *)
  match a, b with
  | [], _ => true
  | _ :: _, [] => false
  | x :: a', y :: b' => if b2z x <? b2z y then true else if b2z y <? b2z x then false else bytes_leb a' b'
  end.
Fixpoint insert_ent (e : dirent) (l : list dirent) : list dirent :=
  match l with
  | [] => [e]
  | x :: r => if bytes_leb (d_name e) (d_name x) then e :: l else x :: insert_ent e r
  end.
(* sort.Strings(walFiles): names are distinct, so any correct sort gives this list *)
Definition sort_ents (l : list dirent) : list dirent := fold_right insert_ent [] l.

(* wal.go:545-551 / 644-650 *)
Definition is_wal_name (e : dirent) : bool :=
  negb (d_isdir e) && (Z.of_nat (List.length (d_name e)) =? 24) && negb (has_suffix (d_name e) (str_history)).
Definition wal_files (ents : list dirent) : list dirent := sort_ents (filter is_wal_name ents).

(* Go maps with ++ : association list, one binding per key (update in place, new keys appended) *)
Section Tally.
  Context {K : Type} (keq : K -> K -> bool).
  Fixpoint incr (k : K) (m : list (K * Z)) : list (K * Z) :=
    match m with
    | [] => [(k, 1)]
    | (k', v) :: r => if keq k k' then (k', v + 1) :: r else (k', v) :: incr k r
    end.
  Fixpoint lookup (k : K) (m : list (K * Z)) : Z :=     (* m[k], 0 when absent *)
    match m with [] => 0 | (k', v) :: r => if keq k k' then v else lookup k r end.
  Fixpoint set_key {V} (k : K) (v : V) (m : list (K * V)) : list (K * V) :=   (* m[k] = v *)
    match m with
    | [] => [(k, v)]
    | (k', v') :: r => if keq k k' then (k', v) :: r else (k', v') :: set_key k v r
    end.
  Fixpoint get_key {V} (k : K) (m : list (K * V)) : option V :=
    match m with [] => None | (k', v) :: r => if keq k k' then Some v else get_key k r end.
End Tally.

Definition pair_eqb (a b : Z * Z) : bool := (fst a =? fst b) && (snd a =? snd b).

Inductive txn_status := TCommit | TAbort | TInProgress.
Record scan_state := {
  st_segments : Z; st_version : bytes; st_tli : Z; st_records : Z; st_first : Z; st_last : Z;
  st_ops : list (bytes * Z); st_txnops : list (Z * Z); st_txnstatus : list (Z * txn_status);
  st_tables : list ((Z * Z) * Z) }.

(* wal.go:602-607; key = Sprintf("%d/%d", DbOID, RelOID), kept as the pair (injective rendering) *)
Definition scan_block (tb : list ((Z * Z) * Z)) (b : WALBlockRef) : list ((Z * Z) * Z) :=
  match b_rnode b with
  | Some rn => if negb (rn_rel rn =? 0) then incr pair_eqb (rn_db rn, rn_rel rn) tb else tb
  | None => tb
  end.

(* wal.go:577-608 *)
Definition scan_rec (st : scan_state) (r : WALRecord) : scan_state :=
  let first := if (st_first st =? 0) || (r_lsn r <? st_first st) then r_lsn r else st_first st in
  let last := if r_lsn r >? st_last st then r_lsn r else st_last st in
  let txo := if negb (r_xid r =? 0) then incr Z.eqb (r_xid r) (st_txnops st) else st_txnops st in
  let txs := if negb (r_xid r =? 0) && (r_rmid r =? 1) then
               if contains (r_op r) (str_commit) then set_key Z.eqb (r_xid r) TCommit (st_txnstatus st)
               else if contains (r_op r) (str_abort) then set_key Z.eqb (r_xid r) TAbort (st_txnstatus st)
               else st_txnstatus st
             else st_txnstatus st in
  {| st_segments := st_segments st; st_version := st_version st; st_tli := st_tli st;
     st_records := st_records st + 1; st_first := first; st_last := last;
     st_ops := incr bytes_eqb (r_op r) (st_ops st); st_txnops := txo; st_txnstatus := txs;
     st_tables := fold_left scan_block (r_blocks r) (st_tables st) |}.

(* wal.go:553-609, one file *)
Definition scan_file (st : res (option scan_state)) (e : dirent) : res (option scan_state) :=
  st <- st ;;
  match st with None => Ok None | Some st =>
  match d_file e with
  | None => Ok (Some st)                                   (* ReadFile failed: continue *)
  | Some data =>
    pr <- ParseWALFile data ;;
    match pr with
    | None => Ok None
    | Some FErrSmall => Ok (Some st)                       (* continue *)
    | Some (FRecs recs) =>
      ver <- (if (Z.of_nat (List.length (st_version st)) =? 0) && (len data >=? 2)
              then m <- u16 data 0 ;; Ok (pgVersionFromMagic m) else Ok (st_version st)) ;;
      tli <- (if (st_tli st =? 0) && (len data >=? 8) then u32 data 4 else Ok (st_tli st)) ;;
      let st1 := {| st_segments := st_segments st + 1; st_version := ver; st_tli := tli;
                    st_records := st_records st; st_first := st_first st; st_last := st_last st;
                    st_ops := st_ops st; st_txnops := st_txnops st; st_txnstatus := st_txnstatus st;
                    st_tables := st_tables st |} in
      Ok (Some (fold_left scan_rec recs st1))
    end
  end end.

Definition init_state : scan_state :=
  {| st_segments := 0; st_version := []; st_tli := 0; st_records := 0; st_first := 0; st_last := 0;
     st_ops := []; st_txnops := []; st_txnstatus := []; st_tables := [] |}.

Record TransactionInfo := { t_xid : Z; t_status : txn_status; t_ops : Z }.
Fixpoint insert_txn (t : TransactionInfo) (l : list TransactionInfo) : list TransactionInfo :=
  match l with
  | [] => [t]
  | x :: r => if t_xid t <=? t_xid x then t :: l else x :: insert_txn t r
  end.
Record WALSummary := {
  s_segments : Z; s_records : Z; s_first : bytes; s_last : bytes; s_version : bytes; s_tli : Z;
  s_ops : list (bytes * Z); s_txns : list TransactionInfo; s_tables : list ((Z * Z) * Z) }.

(* wal.go:611-632.  The transaction list is built by ranging over the map txnOps (any order) and then
   sorted by XID; XIDs are distinct map keys, so the sorted list does not depend on the iteration
   order ([order]: the order in which Go happens to range over the keys, see sort_txns_perm). *)
Definition mk_txn (txs : list (Z * txn_status)) (p : Z * Z) : TransactionInfo :=
  {| t_xid := fst p; t_ops := snd p;
     t_status := match get_key Z.eqb (fst p) txs with Some s => s | None => TInProgress end |}.
Definition sort_txns (l : list TransactionInfo) : list TransactionInfo := fold_right insert_txn [] l.
Definition summarize (st : scan_state) : WALSummary :=
  {| s_segments := st_segments st; s_records := st_records st;
     s_first := FormatLSN (st_first st); s_last := FormatLSN (st_last st);
     s_version := st_version st; s_tli := st_tli st; s_ops := st_ops st;
     s_txns := sort_txns (map (mk_txn (st_txnstatus st)) (st_txnops st));
     s_tables := st_tables st |}.

(* wal.go:527-633, given the listing of <dataDir>/pg_wal *)
Definition ScanWALDirectory (ents : list dirent) : res (option WALSummary) :=
  st <- fold_left scan_file (wal_files ents) (Ok (Some init_state)) ;;
  Ok (option_map summarize st).

(* wal.go:652-671.  [files] = walFiles[0..i] still to visit, newest last. *)
Fixpoint recent_loop (rev_files : list dirent) (limit : Z) (acc : list WALRecord) : res (option (list WALRecord)) :=
  match rev_files with
  | [] => Ok (Some acc)
  | e :: older =>
    if negb (Z.of_nat (List.length acc) <? limit) then Ok (Some acc) else
    match d_file e with
    | None => recent_loop older limit acc
    | Some data =>
      pr <- ParseWALFile data ;;
      match pr with
      | None => Ok None
      | Some FErrSmall => recent_loop older limit acc
      | Some (FRecs recs) => recent_loop older limit (recs ++ acc)
      end
    end
  end.
Definition GetRecentWALRecords (ents : list dirent) (limit : Z) : res (option (list WALRecord)) :=
  r <- recent_loop (rev (wal_files ents)) limit [] ;;
  match r with
  | None => Ok None
  | Some all =>
    let n := Z.of_nat (List.length all) in
    if n >? limit then
      (* allRecords[len-limit:] : panics when limit < 0 (low bound above len) *)
      if (0 <=? n - limit) && (n - limit <=? n) then Ok (Some (skipn (Z.to_nat (n - limit)) all)) else Panic
    else Ok (Some all)
  end.
