(* Spec: the names PostgreSQL assigns to resource managers and WAL operations.
   Transcribed (from memory of the server sources, PostgreSQL 16) from
     src/include/access/rmgrlist.h                     PG_RMGR(symbol, "name", ...)
     src/backend/access/rmgrdesc/{xlogdesc,xactdesc,smgrdesc,dbasedesc,heapdesc,nbtdesc}.c   *_identify
   for the resource managers whose operations pgread names (XLOG, Transaction, Storage, Database,
   Heap2, Heap, Btree).  [None] = PostgreSQL assigns no name (rmid >= 22 is not a built-in resource
   manager; *_identify returns NULL; or an rmgr whose operations the tool does not claim to name):
   the property then says nothing about the string the tool prints.
   All *_identify functions switch on  info & ~XLR_INFO_MASK  (= info & 0xF0), except xact_identify
   which switches on  info & XLOG_XACT_OPMASK (0x70).
   Version notes (not used by the spec, recorded for the report): Heap2 0x10..0x30 were
   CLEAN/FREEZE_PAGE/CLEANUP_INFO up to PG13; Database 0x00/0x10 were CREATE/DROP up to PG14;
   Btree 0x50/0x60 are unused in PG12. *)
Require Import PG.Base.Bytes.
Require Import Coq.Strings.String.

Definition sstr (s : String.string) : bytes := String.list_byte_of_string s.

Fixpoint sassoc {A} (k : Z) (tbl : list (Z * A)) : option A :=
  match tbl with [] => None | (k', v) :: r => if k =? k' then Some v else sassoc k r end.

Definition pg_rmgr_names : list (Z * bytes) := Eval vm_compute in
  [ (0, sstr "XLOG"); (1, sstr "Transaction"); (2, sstr "Storage"); (3, sstr "CLOG"); (4, sstr "Database");
    (5, sstr "Tablespace"); (6, sstr "MultiXact"); (7, sstr "RelMap"); (8, sstr "Standby"); (9, sstr "Heap2");
    (10, sstr "Heap"); (11, sstr "Btree"); (12, sstr "Hash"); (13, sstr "Gin"); (14, sstr "Gist");
    (15, sstr "Sequence"); (16, sstr "SPGist"); (17, sstr "BRIN"); (18, sstr "CommitTs");
    (19, sstr "ReplicationOrigin"); (20, sstr "Generic"); (21, sstr "LogicalMessage") ].
Definition pg_rmgr_name (rmid : Z) : option bytes := sassoc rmid pg_rmgr_names.

Definition pg_xlog_ops : list (Z * bytes) := Eval vm_compute in       (* xlog_identify, pg_control.h *)
  [ (0, sstr "CHECKPOINT_SHUTDOWN"); (16, sstr "CHECKPOINT_ONLINE"); (32, sstr "NOOP");
    (48, sstr "NEXTOID"); (64, sstr "SWITCH"); (80, sstr "BACKUP_END");
    (96, sstr "PARAMETER_CHANGE"); (112, sstr "RESTORE_POINT"); (128, sstr "FPW_CHANGE");
    (144, sstr "END_OF_RECOVERY"); (160, sstr "FPI_FOR_HINT"); (176, sstr "FPI");
    (208, sstr "OVERWRITE_CONTRECORD") ].
Definition pg_xact_ops : list (Z * bytes) := Eval vm_compute in       (* xact_identify, xact.h *)
  [ (0, sstr "COMMIT"); (16, sstr "PREPARE"); (32, sstr "ABORT"); (48, sstr "COMMIT_PREPARED");
    (64, sstr "ABORT_PREPARED"); (80, sstr "ASSIGNMENT"); (96, sstr "INVALIDATIONS") ].
Definition pg_smgr_ops : list (Z * bytes) := Eval vm_compute in       (* smgr_identify *)
  [ (16, sstr "CREATE"); (32, sstr "TRUNCATE") ].
Definition pg_dbase_ops : list (Z * bytes) := Eval vm_compute in      (* dbase_identify (PG15+) *)
  [ (0, sstr "CREATE_FILE_COPY"); (16, sstr "CREATE_WAL_LOG"); (32, sstr "DROP") ].
Definition pg_heap2_ops : list (Z * bytes) := Eval vm_compute in      (* heap2_identify (PG14-16); 0x80 = XLOG_HEAP_INIT_PAGE *)
  [ (0, sstr "REWRITE"); (16, sstr "PRUNE"); (32, sstr "VACUUM"); (48, sstr "FREEZE_PAGE");
    (64, sstr "VISIBLE"); (80, sstr "MULTI_INSERT"); (208, sstr "MULTI_INSERT+INIT");
    (96, sstr "LOCK_UPDATED"); (112, sstr "NEW_CID") ].
Definition pg_heap_ops : list (Z * bytes) := Eval vm_compute in       (* heap_identify *)
  [ (0, sstr "INSERT"); (128, sstr "INSERT+INIT"); (16, sstr "DELETE"); (32, sstr "UPDATE");
    (160, sstr "UPDATE+INIT"); (48, sstr "TRUNCATE"); (64, sstr "HOT_UPDATE");
    (192, sstr "HOT_UPDATE+INIT"); (80, sstr "HEAP_CONFIRM"); (96, sstr "LOCK"); (112, sstr "INPLACE") ].
Definition pg_btree_ops : list (Z * bytes) := Eval vm_compute in      (* btree_identify, nbtxlog.h *)
  [ (0, sstr "INSERT_LEAF"); (16, sstr "INSERT_UPPER"); (32, sstr "INSERT_META"); (48, sstr "SPLIT_L");
    (64, sstr "SPLIT_R"); (80, sstr "INSERT_POST"); (96, sstr "DEDUP"); (112, sstr "DELETE");
    (128, sstr "UNLINK_PAGE"); (144, sstr "UNLINK_PAGE_META"); (160, sstr "NEWROOT");
    (176, sstr "MARK_PAGE_HALFDEAD"); (192, sstr "VACUUM"); (208, sstr "REUSE_PAGE");
    (224, sstr "META_CLEANUP") ].

Definition pg_op_name (rmid info : Z) : option bytes :=
  let hi := info / 16 * 16 in           (* info & ~XLR_INFO_MASK *)
  if rmid =? 0 then sassoc hi pg_xlog_ops
  else if rmid =? 1 then sassoc (info / 16 mod 8 * 16) pg_xact_ops    (* info & XLOG_XACT_OPMASK (0x70) *)
  else if rmid =? 2 then sassoc hi pg_smgr_ops
  else if rmid =? 4 then sassoc hi pg_dbase_ops
  else if rmid =? 9 then sassoc hi pg_heap2_ops
  else if rmid =? 10 then sassoc hi pg_heap_ops
  else if rmid =? 11 then sassoc hi pg_btree_ops
  else None.

(* ---- known-finding classes (D54), written out by hand; the theorems C17_names_* show that they
   are EXACTLY the points where PostgreSQL assigns a name and the tool prints a different one. ---- *)
Definition zin (x : Z) (l : list Z) : bool := existsb (Z.eqb x) l.
(* "BTree","GIN","GiST","SP-GiST","CommitTS","ReplOrigin","LogicalMsg" *)
Definition kf_rmgr_name (rmid : Z) : bool := zin rmid [11; 13; 14; 16; 18; 19; 21].
Definition kf_op_name (rmid info : Z) : bool :=
  let hi := info / 16 * 16 in
  if rmid =? 0 then zin hi [160; 176; 208]                   (* 0xA0 mislabelled; FPI, OVERWRITE_CONTRECORD missing *)
  else if rmid =? 1 then info / 16 mod 8 * 16 =? 96            (* INVALIDATIONS missing *)
  else if rmid =? 4 then zin hi [0; 16; 32]                   (* PG15+ names *)
  else if rmid =? 9 then zin hi [0; 16; 32; 48; 64; 80; 96; 112; 208]   (* table shifted by one; +INIT *)
  else if rmid =? 10 then zin hi [80; 128; 160; 192]          (* HEAP_CONFIRM; +INIT variants *)
  else if rmid =? 11 then (80 <=? hi) && (hi <=? 224)         (* masked 0x70; INSERT_POST.. missing/shifted *)
  else false.

(* Transaction outcome carried by a Transaction-rmgr record (xact.h): COMMIT / COMMIT_PREPARED commit,
   ABORT / ABORT_PREPARED abort *)
Definition xact_commits (info : Z) : bool := zin (info / 16 mod 8 * 16) [0; 48].
Definition xact_aborts (info : Z) : bool := zin (info / 16 mod 8 * 16) [32; 64].
