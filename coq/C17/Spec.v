(* Spec: how PostgreSQL (12-16, little endian, XLOG_BLCKSZ 8192) lays out WAL pages and records
   (access/xlog_internal.h XLogPageHeaderData / XLogLongPageHeaderData, access/xlogrecord.h XLogRecord,
   XLogRecordBlockHeader, XLogRecordBlockImageHeader, XLogRecordDataHeaderShort/Long), written as a
   reference writer over abstract values, and what a reader must report for them.  Independent of
   wal.go; the result record types of Model.v are reused only as the vocabulary of the report. *)
Require Import PG.Base.Bytes PG.Base.GoSlice PG.C17.Names PG.C17.Model PG.C17.SpecNames.

(* ------------------------------------------------------------------ records *)
Record simage := { i_len : Z; i_hole_off : Z; i_info : Z; i_hole_len : option Z }.
(* a registered block: XLogRecordBlockHeader {id:u8, fork_flags:u8, data_length:u16}
   [XLogRecordBlockImageHeader {length:u16, hole_offset:u16, bimg_info:u8} [hole_length:u16]]
   [RelFileNode {spc,db,rel} unless BKPBLOCK_SAME_REL]  BlockNumber:u32 *)
Record sblock := { k_id : Z; k_fork : Z; k_image : option simage; k_hasdata : bool; k_willinit : bool;
                   k_samerel : bool; k_rnode : Z * Z * Z (* the relation referenced; stored unless SAME_REL *);
                   k_blkno : Z; k_datalen : Z }.
Record xrec := { x_xid : Z; x_prev : Z; x_info : Z; x_rmid : Z; x_pad : Z; x_crc : Z;
                 x_blocks : list sblock;
                 x_origin : option Z;            (* XLR_BLOCK_ID_ORIGIN 253 + RepOriginId:u16 *)
                 x_toplevel : option Z;          (* XLR_BLOCK_ID_TOPLEVEL_XID 252 + xid:u32 *)
                 x_main : option (bool * Z);     (* main data header: (long?, length): 254+u32 / 255+u8 *)
                 x_payload : bytes }.            (* block images, block data, main data *)

Definition b2Z (b : bool) : Z := if b then 1 else 0.
Definition fork_flags (b : sblock) : Z :=   (* BKPBLOCK_HAS_IMAGE 0x10, HAS_DATA 0x20, WILL_INIT 0x40, SAME_REL 0x80 *)
  k_fork b + 16 * b2Z (match k_image b with Some _ => true | None => false end)
  + 32 * b2Z (k_hasdata b) + 64 * b2Z (k_willinit b) + 128 * b2Z (k_samerel b).
Definition enc_image (i : simage) : bytes :=
  le_enc 2 (i_len i) ++ le_enc 2 (i_hole_off i) ++ [z2b (i_info i)] ++
  match i_hole_len i with Some h => le_enc 2 h | None => [] end.
Definition enc_rnode (r : Z * Z * Z) : bytes :=
  le_enc 4 (fst (fst r)) ++ le_enc 4 (snd (fst r)) ++ le_enc 4 (snd r).
Definition enc_blockhdr (b : sblock) : bytes :=
  [z2b (k_id b); z2b (fork_flags b)] ++ le_enc 2 (k_datalen b) ++
  match k_image b with Some i => enc_image i | None => [] end ++
  (if k_samerel b then [] else enc_rnode (k_rnode b)) ++ le_enc 4 (k_blkno b).
Definition enc_origin (o : option Z) : bytes := match o with Some v => z2b 253 :: le_enc 2 v | None => [] end.
Definition enc_toplevel (o : option Z) : bytes := match o with Some v => z2b 252 :: le_enc 4 v | None => [] end.
Definition enc_mainhdr (m : option (bool * Z)) : bytes :=
  match m with
  | Some (true, n) => z2b 254 :: le_enc 4 n
  | Some (false, n) => [z2b 255; z2b n]
  | None => []
  end.
Definition enc_body (r : xrec) : bytes :=
  concat (map enc_blockhdr (x_blocks r)) ++ enc_origin (x_origin r) ++ enc_toplevel (x_toplevel r) ++
  enc_mainhdr (x_main r) ++ x_payload r.
Definition x_totlen (r : xrec) : Z := 24 + blen (enc_body r).
(* XLogRecord: xl_tot_len:u32 xl_xid:u32 xl_prev:u64 xl_info:u8 xl_rmid:u8 (2 bytes padding) xl_crc:u32 *)
Definition enc_xrec (r : xrec) : bytes :=
  le_enc 4 (x_totlen r) ++ le_enc 4 (x_xid r) ++ le_enc 8 (x_prev r) ++ [z2b (x_info r)] ++ [z2b (x_rmid r)] ++
  le_enc 2 (x_pad r) ++ le_enc 4 (x_crc r) ++ enc_body r.

Definition in_u (bits : Z) (z : Z) : Prop := 0 <= z < 2 ^ bits.
(* record sizes: the property quantifies over 24..16000 bytes *)
Definition wf_rec (r : xrec) : Prop :=
  in_u 32 (x_xid r) /\ in_u 64 (x_prev r) /\ in_u 8 (x_info r) /\ in_u 8 (x_rmid r) /\ in_u 16 (x_pad r) /\
  in_u 32 (x_crc r) /\ x_totlen r <= 16000.
Definition wf_main (m : option (bool * Z)) : Prop :=
  match m with Some (true, n) => in_u 32 n | Some (false, n) => in_u 8 n | None => True end.
(* a record that registers no block and has no main-data header carries no payload *)
Definition wf_body (r : xrec) : Prop :=
  wf_main (x_main r) /\ (x_blocks r = [] -> x_main r = None -> x_payload r = []).
Definition wf_body_b (r : xrec) : bool :=
  match x_blocks r, x_main r, x_payload r with [], None, _ :: _ => false | _, _, _ => true end.

(* what the tool must report for the block references of a record *)
Definition expected_block (b : sblock) : WALBlockRef :=
  {| b_id := k_id b; b_fork := k_fork b; b_flags := fork_flags b;
     b_rnode := Some {| rn_spc := fst (fst (k_rnode b)); rn_db := snd (fst (k_rnode b)); rn_rel := snd (k_rnode b) |};
     b_blkno := k_blkno b |}.

(* PostgreSQL's names, [] where PostgreSQL assigns none (such names are not observed: see [observe]) *)
Definition name_or_nil (o : option bytes) : bytes := match o with Some n => n | None => [] end.
Definition expected_rec (lsn : Z) (r : xrec) : WALRecord :=
  {| r_totlen := x_totlen r; r_xid := x_xid r; r_prev := x_prev r; r_info := x_info r; r_rmid := x_rmid r;
     r_crc := x_crc r; r_lsn := lsn;
     r_rmname := name_or_nil (pg_rmgr_name (x_rmid r));
     r_op := name_or_nil (pg_op_name (x_rmid r) (x_info r));
     r_blocks := map expected_block (x_blocks r) |}.
(* the observable part of a reported record: names only where PostgreSQL assigns one *)
Definition observe (r : WALRecord) : WALRecord :=
  {| r_totlen := r_totlen r; r_xid := r_xid r; r_prev := r_prev r; r_info := r_info r; r_rmid := r_rmid r;
     r_crc := r_crc r; r_lsn := r_lsn r;
     r_rmname := match pg_rmgr_name (r_rmid r) with Some _ => r_rmname r | None => [] end;
     r_op := match pg_op_name (r_rmid r) (r_info r) with Some _ => r_op r | None => [] end;
     r_blocks := r_blocks r |}.
(* stored header and position only *)
Definition header_of (r : WALRecord) : WALRecord :=
  {| r_totlen := r_totlen r; r_xid := r_xid r; r_prev := r_prev r; r_info := r_info r; r_rmid := r_rmid r;
     r_crc := r_crc r; r_lsn := r_lsn r; r_rmname := []; r_op := []; r_blocks := [] |}.

(* known-finding classes on records *)
Definition kf_blockrefs (r : xrec) : bool := match x_blocks r with [] => false | _ => true end.   (* D53 *)
Definition kf_names (r : xrec) : bool := kf_rmgr_name (x_rmid r) || kf_op_name (x_rmid r) (x_info r).  (* D54 *)

(* ------------------------------------------------------------------ pages *)
Record xpage := { p_magic : Z; p_info_hi : Z (* info bits other than 1 and 2 *); p_long : bool; p_cont : bool;
                  p_tli : Z; p_addr : Z; p_remlen : Z; p_hpad : Z; p_sysid : Z; p_segsize : Z; p_blcksz : Z;
                  p_contbytes : bytes;        (* the continuation data on this page, incl. its alignment padding *)
                  p_recs : list xrec }.       (* the records whose header starts on this page, in order *)
Definition p_infoword (p : xpage) : Z := b2Z (p_cont p) + 2 * b2Z (p_long p) + p_info_hi p.
Definition hdr_size (p : xpage) : Z := if p_long p then 40 else 24.
Definition enc_hdr (p : xpage) : bytes :=
  le_enc 2 (p_magic p) ++ le_enc 2 (p_infoword p) ++ le_enc 4 (p_tli p) ++ le_enc 8 (p_addr p) ++
  le_enc 4 (p_remlen p) ++ le_enc 4 (p_hpad p) ++
  (if p_long p then le_enc 8 (p_sysid p) ++ le_enc 4 (p_segsize p) ++ le_enc 4 (p_blcksz p) else []).
Definition pad8 (n : Z) : Z := (8 - n mod 8) mod 8.
(* a record followed by zero bytes up to the next MAXALIGN (8) boundary *)
Definition rec_img (r : xrec) : bytes := enc_xrec r ++ zeros (pad8 (x_totlen r)).
Definition stream (rs : list xrec) : bytes := concat (map rec_img rs).
(* the page = the first 8192 bytes of header, continuation, records, zero fill: the last record may run
   past the page end (it continues on the next page) *)
Definition enc_page (p : xpage) : bytes :=
  firstn (Z.to_nat 8192) (enc_hdr p ++ p_contbytes p ++ stream (p_recs p) ++ zeros 8192).

(* XLOG_PAGE_MAGIC of PostgreSQL 14, 15, 16 (0xD10D, 0xD110, 0xD113).  The tool's table of magics for
   12 and 13 does not match PostgreSQL's (0xD101, 0xD106): not claimed, see the report (O2). *)
Definition pg_wal_magics : list Z := [53517; 53520; 53523].

Definition first_start (p : xpage) : Z := hdr_size p + blen (p_contbytes p).
(* start offsets: a record of tot_len n at s is followed by the next one at MAXALIGN(s + n).
   [lim] = how many bytes of the record header must lie on this page: 24 = whole header. *)
Fixpoint starts_ok (lim : Z) (start : Z) (rs : list xrec) : Prop :=
  match rs with
  | [] => True
  | r :: rest => start + lim <= 8192 /\ wf_rec r /\ starts_ok lim (start + x_totlen r + pad8 (x_totlen r)) rest
  end.
Definition wf_page_gen (lim : Z) (p : xpage) : Prop :=
  In (p_magic p) pg_wal_magics /\ in_u 16 (p_infoword p) /\ 0 <= p_info_hi p /\ p_info_hi p mod 4 = 0 /\
  in_u 32 (p_tli p) /\ 0 <= p_addr p /\ p_addr p + 8192 <= 2 ^ 64 /\ in_u 32 (p_remlen p) /\ in_u 32 (p_hpad p) /\
  in_u 64 (p_sysid p) /\ in_u 32 (p_segsize p) /\ in_u 32 (p_blcksz p) /\
  (if p_cont p
   then 0 < p_remlen p /\ blen (p_contbytes p) = Z.min (align (hdr_size p + p_remlen p) 8) 8192 - hdr_size p
   else p_remlen p = 0 /\ p_contbytes p = []) /\
  starts_ok lim (first_start p) (p_recs p).
(* every record header lies inside the page *)
Definition wf_page := wf_page_gen 24.
(* D55: the header of the last record may straddle the page end (at least xl_tot_len, xl_xid are on the page) *)
Definition wf_page_weak := wf_page_gen 8.

Fixpoint expected_from (addr : Z) (start : Z) (rs : list xrec) : list WALRecord :=
  match rs with
  | [] => []
  | r :: rest => expected_rec (addr + start) r :: expected_from addr (start + x_totlen r + pad8 (x_totlen r)) rest
  end.
Definition expected_page (p : xpage) : list WALRecord := expected_from (p_addr p) (first_start p) (p_recs p).
Fixpoint straddles (start : Z) (rs : list xrec) : bool :=
  match rs with
  | [] => false
  | r :: rest => (start + 24 >? 8192) || straddles (start + x_totlen r + pad8 (x_totlen r)) rest
  end.
Definition kf_straddle (p : xpage) : bool := straddles (first_start p) (p_recs p).   (* D55 *)

(* ------------------------------------------------------------------ segments *)
(* a segment file = pages; a page is either a WAL page or 8192 bytes that do not start with any
   XLOG_PAGE_MAGIC (all of which are 0xD0xx / 0xD1xx), e.g. the zero pages after an XLOG switch *)
Definition seg_item := (bytes + xpage)%type.
Definition junk_ok (raw : bytes) : Prop :=
  blen raw = 8192 /\ ~ (53248 <= le_dec (sub raw 0 2) <= 53759).
Definition wf_item (lim : Z) (it : seg_item) : Prop :=
  match it with inl raw => junk_ok raw | inr p => wf_page_gen lim p end.
Definition enc_item (it : seg_item) : bytes := match it with inl raw => raw | inr p => enc_page p end.
Definition expected_item (it : seg_item) : list WALRecord :=
  match it with inl _ => [] | inr p => expected_page p end.
Definition enc_segment (its : list seg_item) (trailing : bytes) : bytes := concat (map enc_item its) ++ trailing.
Definition expected_segment (its : list seg_item) : list WALRecord := concat (map expected_item its).

(* ------------------------------------------------------------------ tallies *)
Definition count {A} (p : A -> bool) (l : list A) : Z := Z.of_nat (List.length (filter p l)).
Definition rec_blocks (recs : list WALRecord) : list WALBlockRef := concat (map r_blocks recs).
Definition block_is (dbrel : Z * Z) (b : WALBlockRef) : bool :=
  match b_rnode b with
  | Some rn => negb (rn_rel rn =? 0) && (rn_db rn =? fst dbrel) && (rn_rel rn =? snd dbrel)
  | None => false
  end.
(* outcome of transaction x: decided by its last Transaction-rmgr record that commits or aborts *)
Definition spec_status (x : Z) (recs : list WALRecord) : txn_status :=
  fold_left (fun st r => if (r_xid r =? x) && (r_rmid r =? 1) then
                           if xact_commits (r_info r) then TCommit
                           else if xact_aborts (r_info r) then TAbort else st
                         else st) recs TInProgress.
Fixpoint insert_uniq (x : Z) (l : list Z) : list Z :=
  match l with
  | [] => [x]
  | y :: r => if x <? y then x :: l else if x =? y then l else y :: insert_uniq x r
  end.
Definition sorted_xids (recs : list WALRecord) : list Z :=
  fold_right insert_uniq [] (filter (fun x => negb (x =? 0)) (map r_xid recs)).
Definition spec_txns (recs : list WALRecord) : list TransactionInfo :=
  map (fun x => {| t_xid := x; t_status := spec_status x recs; t_ops := count (fun r => r_xid r =? x) recs |})
      (sorted_xids recs).
Fixpoint dedup {K} (keq : K -> K -> bool) (l : list K) : list K :=
  match l with [] => [] | x :: r => x :: filter (fun y => negb (keq x y)) (dedup keq r) end.
(* a tally as a finite map: key -> number of occurrences *)
Definition tally_of {K} (keq : K -> K -> bool) (keys : list K) : list (K * Z) :=
  map (fun k => (k, count (keq k) keys)) (dedup keq keys).
Definition spec_ops (recs : list WALRecord) : list (bytes * Z) := tally_of bytes_eqb (map r_op recs).
Definition table_keys (recs : list WALRecord) : list (Z * Z) :=
  concat (map (fun b => match b_rnode b with
                        | Some rn => if negb (rn_rel rn =? 0) then [(rn_db rn, rn_rel rn)] else []
                        | None => [] end) (rec_blocks recs)).
Definition spec_tables (recs : list WALRecord) : list ((Z * Z) * Z) := tally_of pair_eqb (table_keys recs).
Definition zmin_list (l : list Z) : Z := match l with [] => 0 | x :: r => fold_left Z.min r x end.
Definition zmax_list (l : list Z) : Z := match l with [] => 0 | x :: r => fold_left Z.max r x end.

(* PostgreSQL's IsXLogFileName: 24 upper-case hex digits *)
Definition is_hex_upper (b : byte) : bool :=
  let z := b2z b in ((48 <=? z) && (z <=? 57)) || ((65 <=? z) && (z <=? 70)).
Definition is_xlog_file_name (n : bytes) : bool := (Z.of_nat (List.length n) =? 24) && forallb is_hex_upper n.
(* directory hygiene assumed by the directory theorems: what is not a regular file named like a
   segment does not have a 24-character name (pg_wal holds segments, *.history, *.partial, *.backup,
   archive_status/ ...) *)
Definition is_segment_file (e : dirent) : bool := negb (d_isdir e) && is_xlog_file_name (d_name e).
Definition dir_ok (ents : list dirent) : Prop :=
  Forall (fun e => d_isdir e = false -> Z.of_nat (List.length (d_name e)) = 24 -> is_xlog_file_name (d_name e) = true) ents.
Definition lastn {A} (n : Z) (l : list A) : list A := skipn (Z.to_nat (Z.of_nat (List.length l) - n)) l.
