(* C10: damage confined to one page / one tuple does not change what is reported for the others. *)
Require Import PG.Base.Bytes PG.Base.GoSlice PG.C02.Model PG.C02.Spec PG.C02.Pure PG.C02.SpecProofs.

(* ---- page locality: for ALL byte strings ---- *)
Theorem page_local a p b vo :
  blen a mod 8192 = 0 -> blen p = 8192 ->
  p_file (a ++ p ++ b) vo =
  p_file a vo ++ shift_all (blen a) (p_file p vo) ++ shift_all (blen a + 8192) (p_file b vo).
Proof.
  intros Ha Hp. rewrite p_file_concat by exact Ha. f_equal.
  rewrite p_file_concat by (rewrite Hp; reflexivity).
  rewrite shift_all_app. f_equal. unfold shift_all. rewrite map_map. rewrite Hp.
  apply map_ext. intros o. unfold shift_obs. cbn. f_equal. lia.
Qed.

(* replacing one page by ANY other 8192 bytes leaves the entries of all other pages unchanged *)
Corollary page_damage_local a p p' b vo :
  blen a mod 8192 = 0 -> blen p = 8192 -> blen p' = 8192 ->
  exists mid mid', p_file (a ++ p ++ b) vo = p_file a vo ++ mid ++ shift_all (blen a + 8192) (p_file b vo) /\
                   p_file (a ++ p' ++ b) vo = p_file a vo ++ mid' ++ shift_all (blen a + 8192) (p_file b vo).
Proof. intros. do 2 eexists. split; apply page_local; assumption. Qed.

(* ---- tuple locality inside a page: for ALL byte strings ---- *)
(* entries of the line pointers whose byte range [off, off+len) does not meet the damaged range [lo, hi) *)
Definition untouched (lo hi : Z) (it : ItemID) : bool :=
  (it_off it + it_len it <=? lo) || (hi <=? it_off it).
Definition p_page_except (lo hi : Z) (v : bytes) (po : Z) : list tuple_obs :=
  if blen v <? 8192 then [] else
  let h := p_header v in
  if negb (validHeader h) then [] else
  flat_map (fun it => if untouched lo hi it then p_item_tuple v (ph_upper h) po it else [])
           (p_items (Z.to_nat (blen v / 4 + 1)) v (ph_lower h) 24).

Lemma p_items_nonneg_all : forall fuel v lower off,
  Forall (fun it => 0 <= it_off it < 32768 /\ 0 <= it_len it < 32768) (p_items fuel v lower off).
Proof.
  induction fuel as [|k IH]; intros; cbn [p_items]; [constructor|].
  destruct (_ && _); [|constructor]. constructor; [|apply IH].
  unfold mkItem; cbn. assert (0 <= pu 4 v off) by (unfold pu; apply le_dec_range). lia.
Qed.

Lemma sub_outside x y y' z lo hi :
  blen y = blen y' -> 0 <= lo -> (hi <= blen x \/ blen x + blen y <= lo) ->
  sub (x ++ y ++ z) lo hi = sub (x ++ y' ++ z) lo hi.
Proof.
  intros Hy Hlo [H|H].
  - rewrite !sub_app_l by lia. reflexivity.
  - rewrite !app_assoc. rewrite !sub_app_r by (bl; lia). bl. rewrite Hy. reflexivity.
Qed.

Lemma pu_outside x y y' z n off :
  blen y = blen y' -> 0 <= off -> (off + n <= blen x \/ blen x + blen y <= off) ->
  pu n (x ++ y ++ z) off = pu n (x ++ y' ++ z) off.
Proof. intros. unfold pu. f_equal. apply sub_outside; auto. Qed.

Lemma p_items_outside x y y' z : forall fuel lower off,
  blen y = blen y' -> 0 <= off -> lower + 3 <= blen x ->
  p_items fuel (x ++ y ++ z) lower off = p_items fuel (x ++ y' ++ z) lower off.
Proof.
  induction fuel as [|k IH]; intros lower off Hy Hoff Hl; cbn [p_items]; [reflexivity|].
  bl. rewrite Hy.
  destruct ((off <? lower) && (off + 4 <=? blen x + (blen y' + blen z))) eqn:E; [|reflexivity].
  f_equal; [|apply IH; auto; lia].
  f_equal. apply pu_outside; auto.
  left. lia.
Qed.

Theorem tuple_damage_local x y y' z po :
  blen y = blen y' -> 24 <= blen x ->
  ph_lower (p_header (x ++ y ++ z)) + 3 <= blen x ->      (* the damage lies beyond the line pointer array *)
  p_page_except (blen x) (blen x + blen y) (x ++ y ++ z) po =
  p_page_except (blen x) (blen x + blen y) (x ++ y' ++ z) po.
Proof.
  intros Hy Hx Hl. unfold p_page_except. bl. rewrite Hy.
  destruct (blen x + (blen y' + blen z) <? 8192); [reflexivity|].
  assert (HH : p_header (x ++ y ++ z) = p_header (x ++ y' ++ z)).
  { unfold p_header. rewrite !(pu_outside x y y' z) by (auto; lia). reflexivity. }
  rewrite <- HH. destruct (negb (validHeader (p_header (x ++ y ++ z)))); [reflexivity|].
  rewrite (p_items_outside x y y' z) by (auto; lia).
  rewrite !flat_map_concat_map. f_equal. apply map_ext_in. intros it Hin.
  unfold untouched. destruct ((it_off it + it_len it <=? blen x) || (blen x + blen y' <=? it_off it)) eqn:E; [|reflexivity].
  assert (Hit : 0 <= it_off it /\ 0 <= it_len it).
  { pose proof (p_items_nonneg_all (Z.to_nat ((blen x + (blen y' + blen z)) / 4 + 1)) (x ++ y' ++ z)
                  (ph_lower (p_header (x ++ y ++ z))) 24) as F.
    rewrite Forall_forall in F. specialize (F it Hin). lia. }
  apply orb_true_iff in E.
  unfold p_item_tuple.
  destruct (negb (it_flags it =? 1) || (it_len it <=? 0)); [reflexivity|].
  destruct ((it_off it <? ph_upper (p_header (x ++ y ++ z))) || (it_off it + it_len it >? 8192)); [reflexivity|].
  rewrite (sub_outside x y y' z); [reflexivity|exact Hy|lia|]. destruct E as [E|E]; [left|right]; lia.
Qed.
