Require Import PG.Base.GoSlice PG.C02.Spec PG.C03.Model PG.C03.Spec PG.C20.RelmapSpec.
Require Extraction. Require ExtrOcamlBasic.
Extraction "model.ml" bind enc_tuple enc_page enc_file fill bitmap_of has_nulls enc_relmap.
