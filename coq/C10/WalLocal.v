(* C10: WAL page locality for ALL byte strings.

   What ParseWALFile (wal.go:150-169) reports is the concatenation, in page order, of what parseWALPage reports for each
   complete 8 KiB page of the file, and what parseWALPage reports is a function of the 8192 visible bytes of that page
   ALONE: not of the page's offset in the file (baseOffset / pageNum are unused since the LSN fix: the LSN comes from
   the page's own xlp_pageaddr), not of what follows the page in memory (the page slice data[off:off+8192] has the rest
   of the file as spare capacity, but every read and re-slice is guarded by len), not of any other page (a record whose
   body continues on the next page is reported from its 24-byte header alone; the continuation at the start of the next
   page is skipped using that page's own xlp_rem_len; an invalid page is skipped with `continue`, never `break`).
   Hence: no well-formedness hypothesis, no shift. *)
Require Import PG.Base.Bytes PG.Base.GoSlice PG.C17.Names PG.C17.Model.
Require Import PG.C17.BlockrefsProofs PG.C17.PageProofs PG.C17.SegmentProofs.

(* ---------- parseWALPage depends on the visible bytes only ---------- *)
Lemma parseXLogRecord_tail v t lsn :
  parseXLogRecord {| vis := v; tail := t |} lsn = parseXLogRecord (exact v) lsn.
Proof.
  unfold parseXLogRecord, XLogRecordSize, WALPageSize.
  change (len {| vis := v; tail := t |}) with (len (exact v)).
  destruct (len (exact v) <? 24) eqn:E0; [reflexivity|].
  change (u32 {| vis := v; tail := t |}) with (u32 (exact v)).
  change (u64 {| vis := v; tail := t |}) with (u64 (exact v)).
  change (idx {| vis := v; tail := t |}) with (idx (exact v)).
  destruct (u32 (exact v) 0) as [tl|]; [|reflexivity]. cbn [bind].
  destruct ((tl <? 24) || (tl >? 8192 * 2)); [reflexivity|].
  destruct (u32 (exact v) 4) as [xid|]; [|reflexivity]. cbn [bind].
  destruct (u64 (exact v) 8) as [prev|]; [|reflexivity]. cbn [bind].
  destruct (idx (exact v) 16) as [info|]; [|reflexivity]. cbn [bind].
  destruct (idx (exact v) 17) as [rmid|]; [|reflexivity]. cbn [bind].
  destruct (u32 (exact v) 20) as [crc|]; [|reflexivity]. cbn [bind].
  destruct ((tl >? 24) && (tl <=? len (exact v))) eqn:E2; [|reflexivity].
  assert (Hl : tl <= blen v) by (unfold len, exact in E2; cbn [vis] in E2; lia).
  pose proof (blen_nonneg t).
  destruct (slice_ok {| vis := v; tail := t |} 24 tl) as [b1 H1]; [lia|lia|unfold cap; cbn [vis tail]; lia|].
  destruct (slice_ok (exact v) 24 tl) as [b2 H2]; [lia|lia|unfold cap, exact; cbn [vis tail]; bl; lia|].
  rewrite H1, H2. cbn [bind]. rewrite !parseBlockRefs_total.
  rewrite (slice_vis_within _ _ _ _ H1) by (unfold len; cbn [vis]; lia).
  rewrite (slice_vis_within _ _ _ _ H2) by (unfold len, exact; cbn [vis]; lia).
  reflexivity.
Qed.

Lemma page_step_tail v t addr pos :
  page_step {| vis := v; tail := t |} addr pos = page_step (exact v) addr pos.
Proof.
  unfold page_step, XLogRecordSize.
  change (len {| vis := v; tail := t |}) with (len (exact v)).
  destruct (pos + 24 <=? len (exact v)) eqn:E; cbn [negb]; [|reflexivity].
  unfold slice_from. change (len {| vis := v; tail := t |}) with (len (exact v)).
  destruct ((0 <=? pos) && (pos <=? len (exact v))); [|reflexivity]. cbn [bind vis tail exact].
  rewrite !isZeroPadding_spec. cbn [bind vis].
  destruct (forallb isz _); [reflexivity|].
  rewrite (parseXLogRecord_tail _ t). reflexivity.
Qed.

Lemma page_loop_tail : forall fuel v t addr pos,
  page_loop fuel {| vis := v; tail := t |} addr pos = page_loop fuel (exact v) addr pos.
Proof.
  induction fuel as [|k IH]; intros; cbn [page_loop]; [reflexivity|].
  rewrite page_step_tail. destruct (page_step (exact v) addr pos) as [[[[rec pos']|]|]|]; cbn [bind]; try reflexivity.
  rewrite IH. reflexivity.
Qed.

(* neither the spare capacity nor the base offset matter *)
Lemma parseWALPage_tail v t base base' :
  parseWALPage {| vis := v; tail := t |} base = parseWALPage (exact v) base'.
Proof.
  unfold parseWALPage.
  change (len {| vis := v; tail := t |}) with (len (exact v)).
  change (parsePageHeader {| vis := v; tail := t |}) with (parsePageHeader (exact v)).
  destruct (len (exact v) <? ShortHeaderSize); [reflexivity|].
  destruct (parsePageHeader (exact v)) as [h|]; [|reflexivity]. cbn [bind].
  destruct (negb (isValidMagic (h_magic h))); [reflexivity|].
  rewrite page_loop_tail. reflexivity.
Qed.

(* ---------- pure functions: what one page / a whole file reports ---------- *)
Definition wal_page_recs (p : bytes) : list WALRecord :=
  match parseWALPage (exact p) 0 with Ok (Some (PRecs l)) => l | _ => [] end.

Fixpoint wal_loop (fuel : nat) (v : bytes) (off : Z) : list WALRecord :=
  match fuel with
  | O => []
  | S k => if off + 8192 <=? blen v then wal_page_recs (sub v off (off + 8192)) ++ wal_loop k v (off + 8192) else []
  end.
Definition wal_recs (v : bytes) : list WALRecord := wal_loop (S (Z.to_nat (blen v / 8192))) v 0.

Lemma file_loop_pure : forall fuel s off, 0 <= off -> Z.max 0 (len s - off) < 8192 * Z.of_nat fuel ->
  file_loop fuel s off = Ok (Some (wal_loop fuel (vis s) off)).
Proof.
  induction fuel as [|k IH]; intros s off Hoff Hf; [lia|]. cbn [file_loop wal_loop]. unfold WALPageSize.
  change (blen (vis s)) with (len s).
  destruct (off + 8192 <=? len s) eqn:E; cbn [negb]; [|reflexivity].
  pose proof (len_le_cap s). destruct (slice_ok s off (off + 8192)) as [pg Hpg]; [lia|lia|lia|]. rewrite Hpg. cbn [bind].
  pose proof (slice_vis_within _ _ _ _ Hpg ltac:(lia)) as Vpg.
  destruct pg as [pv pt]. cbn [vis] in Vpg. subst pv.
  rewrite (parseWALPage_tail _ pt off 0). unfold wal_page_recs.
  destruct (parseWALPage_total (exact (sub (vis s) off (off + 8192))) 0) as [r ->]. cbn [bind].
  rewrite (IH s (off + 8192)) by lia.
  destruct r as [| |recs]; cbn [bind oapp option_map app]; reflexivity.
Qed.

Inductive wal_outcome := WTooSmall | WRecs (l : list WALRecord).
Definition wal_file (v : bytes) : wal_outcome := if blen v <? 40 then WTooSmall else WRecs (wal_recs v).
Definition outcome_of (r : file_result) : wal_outcome :=
  match r with FErrSmall => WTooSmall | FRecs l => WRecs l end.

(* ParseWALFile, on EVERY slice, is the pure function wal_file of the visible bytes *)
Theorem ParseWALFile_pure s : exists r, ParseWALFile s = Ok (Some r) /\ outcome_of r = wal_file (vis s).
Proof.
  unfold ParseWALFile, wal_file, LongHeaderSize, WALPageSize. change (blen (vis s)) with (len s).
  destruct (len s <? 40) eqn:E; [eexists; split; reflexivity|].
  rewrite file_loop_pure; [cbn [bind option_map]; eexists; split; reflexivity|lia|].
  pose proof (len_nonneg s). lia.
Qed.

(* ---------- the file loop splits at every page boundary ---------- *)
Lemma wal_loop_fuel : forall k k' v off, 0 <= off -> blen v - off < 8192 * Z.of_nat k + 8192 -> (k <= k')%nat ->
  wal_loop k' v off = wal_loop k v off.
Proof.
  induction k as [|k IH]; intros k' v off Hoff Hf Hk.
  - destruct k' as [|k']; [reflexivity|]. cbn [wal_loop]. destruct (off + 8192 <=? blen v) eqn:E; [lia|reflexivity].
  - destruct k' as [|k']; [lia|]. cbn [wal_loop]. destruct (off + 8192 <=? blen v) eqn:E; [|reflexivity].
    f_equal. apply IH; lia.
Qed.

Lemma wal_loop_shift : forall k a c off, 0 <= off ->
  wal_loop k (a ++ c) (blen a + off) = wal_loop k c off.
Proof.
  induction k as [|k IH]; intros a c off Hoff; cbn [wal_loop]; [reflexivity|]. bl.
  replace (blen a + off + 8192 <=? blen a + blen c) with (off + 8192 <=? blen c) by lia.
  destruct (off + 8192 <=? blen c); [|reflexivity].
  rewrite sub_app_r by lia. replace (blen a + off - blen a) with off by lia.
  replace (blen a + off + 8192 - blen a) with (off + 8192) by lia.
  replace (blen a + off + 8192) with (blen a + (off + 8192)) by lia. rewrite IH by lia. reflexivity.
Qed.

Lemma wal_loop_prefix : forall n k a c off, 0 <= off -> blen a = off + 8192 * Z.of_nat n ->
  wal_loop (n + k) (a ++ c) off = wal_loop n a off ++ wal_loop k (a ++ c) (blen a).
Proof.
  induction n as [|n IH]; intros k a c off Hoff Ha.
  - cbn [Nat.add wal_loop app]. f_equal. lia.
  - cbn [Nat.add wal_loop]. bl. pose proof (blen_nonneg c).
    destruct (off + 8192 <=? blen a + blen c) eqn:E1; [|lia].
    destruct (off + 8192 <=? blen a) eqn:E2; [|lia].
    rewrite sub_app_l by lia. rewrite <- app_assoc. f_equal. apply IH; lia.
Qed.

Theorem wal_recs_concat a c : blen a mod 8192 = 0 -> wal_recs (a ++ c) = wal_recs a ++ wal_recs c.
Proof.
  intros Ha. unfold wal_recs. pose proof (blen_nonneg a). pose proof (blen_nonneg c).
  set (n := Z.to_nat (blen a / 8192)). set (m := S (Z.to_nat (blen c / 8192))).
  assert (Hn : blen a = 0 + 8192 * Z.of_nat n) by (unfold n; lia).
  replace (S (Z.to_nat (blen (a ++ c) / 8192))) with (n + m)%nat by (bl; unfold n, m; lia).
  rewrite (wal_loop_prefix n m a c 0 ltac:(lia) Hn).
  rewrite (wal_loop_fuel n (S n) a 0) by lia. f_equal.
  replace (blen a) with (blen a + 0) at 1 by lia. apply wal_loop_shift. lia.
Qed.

Lemma wal_recs_page p : blen p = 8192 -> wal_recs p = wal_page_recs p.
Proof.
  intros Hp. unfold wal_recs. rewrite Hp. change (Z.to_nat (8192 / 8192)) with 1%nat. cbn [wal_loop].
  rewrite Hp. cbn [Z.add Z.leb Z.compare Pos.compare Pos.compare_cont]. rewrite sub_exact by lia.
  change (8192 + 8192 <=? 8192) with false. cbn. apply app_nil_r.
Qed.

(* page locality, for ALL byte strings: the records of (a ++ p ++ b) are those of a, then those of the page p on its own,
   then those of b (b may end in a partial page, which reports nothing) *)
Theorem wal_page_local a p b :
  blen a mod 8192 = 0 -> blen p = 8192 ->
  wal_recs (a ++ p ++ b) = wal_recs a ++ wal_page_recs p ++ wal_recs b.
Proof.
  intros Ha Hp. rewrite wal_recs_concat by exact Ha. f_equal.
  rewrite wal_recs_concat by (rewrite Hp; reflexivity). rewrite wal_recs_page by exact Hp. reflexivity.
Qed.

(* ... stated on the model's entry point: any slice whose visible bytes are a ++ p ++ b (any capacity tail) *)
Theorem wal_page_local_model a p b t :
  blen a mod 8192 = 0 -> blen p = 8192 ->
  ParseWALFile {| vis := a ++ p ++ b; tail := t |} =
  Ok (Some (FRecs (wal_recs a ++ wal_page_recs p ++ wal_recs b))).
Proof.
  intros Ha Hp. destruct (ParseWALFile_pure {| vis := a ++ p ++ b; tail := t |}) as (r & -> & Hr).
  cbn [vis] in Hr. unfold wal_file in Hr.
  pose proof (blen_nonneg a). pose proof (blen_nonneg b).
  destruct (blen (a ++ p ++ b) <? 40) eqn:E; [bl; lia|].
  rewrite wal_page_local in Hr by assumption. destruct r; cbn [outcome_of] in Hr; [discriminate Hr|].
  injection Hr as ->. reflexivity.
Qed.

(* damage: replacing one page by ANY 8192 bytes leaves the records reported for all other pages unchanged *)
Corollary wal_page_damage_local a p p' b t t' :
  blen a mod 8192 = 0 -> blen p = 8192 -> blen p' = 8192 ->
  exists mid mid',
    ParseWALFile {| vis := a ++ p ++ b; tail := t |} = Ok (Some (FRecs (wal_recs a ++ mid ++ wal_recs b))) /\
    ParseWALFile {| vis := a ++ p' ++ b; tail := t' |} = Ok (Some (FRecs (wal_recs a ++ mid' ++ wal_recs b))).
Proof. intros. do 2 eexists. split; apply wal_page_local_model; assumption. Qed.

(* the per-page report is what parseWALPage itself says about the page, whatever base offset and capacity it is given *)
Theorem wal_page_recs_spec v t base :
  exists r, parseWALPage {| vis := v; tail := t |} base = Ok (Some r) /\
            wal_page_recs v = match r with PRecs l => l | _ => [] end.
Proof.
  rewrite (parseWALPage_tail v t base 0). unfold wal_page_recs.
  destruct (parseWALPage_total (exact v) 0) as [r ->]. exists r. split; reflexivity.
Qed.
