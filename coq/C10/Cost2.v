(* C10: output sizes / loop counts linear in the input (or constant), for ALL byte strings.
   Qualified names throughout: the properties' models reuse short names (ReadVarlena, FormatLSN, ...). *)
Require Import PG.Base.Bytes PG.Base.GoSlice.
Require PG.C02.Model PG.C02.Spec PG.C02.Pure PG.C02.Refine PG.C10.Cost.
Require PG.C17.Names PG.C17.Model PG.C17.BlockrefsProofs PG.C17.PageProofs PG.C10.WalLocal.
Require PG.C18.Types PG.C18.Model PG.C10.IndexLocal.
Require PG.C20.RelmapModel.
Require PG.C08.Model PG.C08.TableModel.
Require PG.C14.Model.

(* ---------- heap scan (restated from C10_cost_scan for reuse) ---------- *)
Lemma scan_count s v l : PG.C02.Model.ReadTuples s v = Ok l -> Z.of_nat (length l) <= len s / 4.
Proof.
  intros H. pose proof (PG.C02.Refine.ReadTuples_obs s v) as O. rewrite H in O. cbn in O. injection O as O.
  rewrite <- (map_length PG.C02.Pure.obs_entry l), O. apply PG.C10.Cost.scan_output_linear.
Qed.

(* ---------- WAL: every reported record has its own 24-byte header on the page ---------- *)
Section Wal.
Import PG.C17.Names PG.C17.Model PG.C17.BlockrefsProofs PG.C17.PageProofs PG.C10.WalLocal.

Lemma page_loop_count : forall fuel s addr pos l, 0 <= pos ->
  page_loop fuel s addr pos = Ok (Some l) -> 24 * Z.of_nat (length l) <= Z.max 0 (len s - pos).
Proof.
  induction fuel as [|k IH]; intros s addr pos l Hpos H; cbn [page_loop] in H; [discriminate H|].
  destruct (page_step_total s addr pos Hpos) as (r & E & Hr). rewrite E in H. cbn [bind] in H.
  destruct r as [[rec pos']|]; [|injection H as <-; cbn [length]; lia].
  destruct (Hr rec pos' eq_refl) as [H1 H2].
  destruct (page_loop k s addr pos') as [[rest|]|] eqn:E2; cbn [bind] in H; try (destruct rec; discriminate H).
  specialize (IH s addr pos' rest ltac:(lia) E2).
  destruct rec; cbn [ocons option_map] in H; injection H as <-; cbn [length]; lia.
Qed.

Lemma wal_page_count p : 24 * Z.of_nat (length (wal_page_recs p)) <= Z.max 0 (blen p - 24).
Proof.
  unfold wal_page_recs. destruct (parseWALPage (exact p) 0) as [[[| |l]|]|] eqn:E; cbn [length]; try lia.
  unfold parseWALPage, ShortHeaderSize, LongHeaderSize in E. change (len (exact p)) with (blen p) in *.
  destruct (blen p <? 24) eqn:E0; [discriminate E|].
  destruct (parsePageHeader_total (exact p) ltac:(unfold len, exact; cbn [vis]; lia)) as (h & Hh & Hr & _).
  rewrite Hh in E. cbn [bind] in E.
  destruct (negb (isValidMagic (h_magic h))); [discriminate E|].
  set (hs := if negb (Z.land (h_info h) 2 =? 0) then 40 else 24) in *.
  assert (Hhs : 24 <= hs) by (unfold hs; destruct (negb _); lia). clearbody hs.
  set (pos := if negb (Z.land (h_info h) 1 =? 0) && (h_remlen h >? 0) then align8 (hs + h_remlen h) else hs) in *.
  assert (Hp : 24 <= pos).
  { unfold pos. destruct (_ && _); [|lia]. pose proof (align8_ge (hs + h_remlen h) ltac:(lia)). lia. }
  clearbody pos.
  destruct (page_loop _ (exact p) (h_pageaddr h) pos) as [[l'|]|] eqn:EL; cbn [bind option_map] in E; try discriminate E.
  injection E as <-. pose proof (page_loop_count _ (exact p) (h_pageaddr h) pos l' ltac:(lia) EL) as C.
  change (len (exact p)) with (blen p) in C. lia.
Qed.

Lemma wal_loop_count : forall k v off, 0 <= off ->
  24 * Z.of_nat (length (wal_loop k v off)) <= Z.max 0 (blen v - off).
Proof.
  induction k as [|k IH]; intros v off Hoff; cbn [wal_loop length]; [lia|].
  destruct (off + 8192 <=? blen v) eqn:E; [|cbn [length]; lia].
  rewrite app_length. specialize (IH v (off + 8192) ltac:(lia)).
  pose proof (wal_page_count (sub v off (off + 8192))) as P. rewrite sub_length in P by lia. lia.
Qed.

(* at most one record per 24 input bytes (in fact at most 340 per 8 KiB page) *)
Theorem wal_output_linear s l :
  ParseWALFile s = Ok (Some (FRecs l)) -> Z.of_nat (length l) <= len s / 24.
Proof.
  intros H. destruct (ParseWALFile_pure s) as (r & E & Hr). rewrite E in H. injection H as ->.
  unfold wal_file in Hr. destruct (blen (vis s) <? 40); cbn [outcome_of] in Hr; [discriminate Hr|].
  injection Hr as ->. pose proof (wal_loop_count (S (Z.to_nat (blen (vis s) / 8192))) (vis s) 0 ltac:(lia)) as C.
  fold (wal_recs (vis s)) in C. change (blen (vis s)) with (len s) in C. pose proof (len_nonneg s). lia.
Qed.
Theorem wal_page_output_bound s base l :
  parseWALPage s base = Ok (Some (PRecs l)) -> 24 * Z.of_nat (length l) <= Z.max 0 (len s - 24).
Proof.
  intros H. destruct s as [v t]. destruct (wal_page_recs_spec v t base) as (r & E & Hr). rewrite E in H.
  injection H as ->. rewrite <- Hr. apply wal_page_count.
Qed.
End Wal.

(* ---------- index files: exactly one entry per complete page ---------- *)
Theorem index_output_exact s info :
  PG.C18.Model.ParseIndexFile s = Ok (Some info) ->
  Z.of_nat (length (PG.C18.Types.ii_pages info)) = len s / 8192 /\ PG.C18.Types.ii_total info = len s / 8192.
Proof.
  rewrite PG.C10.IndexLocal.ParseIndexFile_pure. unfold PG.C10.IndexLocal.idx_file.
  change (blen (vis s)) with (len s). destruct (len s <? 8192) eqn:E; [intros H; discriminate H|].
  intros H. injection H as <-. cbn [PG.C18.Types.ii_pages PG.C18.Types.ii_total]. split; [|reflexivity].
  unfold PG.C10.IndexLocal.idx_all. rewrite PG.C10.IndexLocal.idx_pages_length.
  change (blen (vis s)) with (len s). pose proof (len_nonneg s). lia.
Qed.

(* ---------- relation map: never more than 62 mappings, whatever the count field says ---------- *)
Lemma read_maps_count : forall n s off l,
  PG.C20.RelmapModel.read_maps n s off = Ok l -> (length l <= n)%nat.
Proof.
  induction n as [|n IH]; intros s off l H; cbn [PG.C20.RelmapModel.read_maps] in H; [injection H as <-; cbn; lia|].
  destruct (off + 8 >? len s); [injection H as <-; cbn; lia|].
  destruct (u32 s off) as [o|]; [|discriminate H]. cbn [bind] in H.
  destruct (u32 s (off + 4)) as [f|]; [|discriminate H]. cbn [bind] in H.
  destruct (PG.C20.RelmapModel.read_maps n s (off + 8)) as [r|] eqn:E; [|discriminate H]. cbn [bind] in H.
  injection H as <-. specialize (IH _ _ _ E). cbn [length]. lia.
Qed.
Theorem relmap_output_bound s rm :
  PG.C20.RelmapModel.ParseRelMapFile s = Ok (inr rm) ->
  Z.of_nat (length (PG.C20.RelmapModel.rm_mappings rm)) <= 62 /\
  Z.of_nat (length (PG.C20.RelmapModel.rm_mappings rm)) <= PG.C20.RelmapModel.rm_num rm.
Proof.
  unfold PG.C20.RelmapModel.ParseRelMapFile, PG.C20.RelmapModel.RelMapMaxMappings. intros H.
  destruct (len s <? 512); [discriminate H|].
  destruct (u32 s 0) as [m|]; [|discriminate H]. cbn [bind] in H.
  destruct (negb (m =? PG.C20.RelmapModel.RelMapMagic)); [discriminate H|].
  destruct (u32 s 4) as [c|]; [|discriminate H]. cbn [bind] in H.
  destruct ((sint32 c <? 0) || (sint32 c >? 62)) eqn:E; [discriminate H|].
  destruct (PG.C20.RelmapModel.read_maps (Z.to_nat (sint32 c)) s 8) as [ms|] eqn:EM; [|discriminate H]. cbn [bind] in H.
  destruct (if len s >=? 8 + 62 * 8 + 4 then u32 s (8 + 62 * 8) else Ok 0) as [cr|]; [|discriminate H]. cbn [bind] in H.
  injection H as <-. cbn [PG.C20.RelmapModel.rm_mappings PG.C20.RelmapModel.rm_num].
  pose proof (read_maps_count _ _ _ _ EM). lia.
Qed.

(* ---------- TOAST relation: at most one chunk per heap entry, hence per 4 input bytes ---------- *)
Lemma chunks_count : forall ts cs, PG.C08.Model.chunks_of_tuples ts = Ok cs -> (length cs <= length ts)%nat.
Proof.
  induction ts as [|d ts IH]; intros cs H; cbn [PG.C08.Model.chunks_of_tuples] in H; [injection H as <-; cbn; lia|].
  destruct (PG.C08.Model.chunk_of_tuple d) as [c|]; [|discriminate H]. cbn [bind] in H.
  destruct (PG.C08.Model.chunks_of_tuples ts) as [cs'|]; [|discriminate H]. cbn [bind] in H.
  specialize (IH cs' eq_refl). injection H as <-. destruct c; cbn [length]; lia.
Qed.
Theorem toast_table_output_linear s cs :
  PG.C08.TableModel.ReadTOASTTable s = Ok cs -> Z.of_nat (length cs) <= len s / 4.
Proof.
  unfold PG.C08.TableModel.ReadTOASTTable. intros H.
  destruct (PG.C02.Model.ReadTuples s true) as [es|] eqn:E; [|discriminate H]. cbn [bind] in H.
  pose proof (chunks_count _ _ H) as C. rewrite map_length in C. pose proof (scan_count _ _ _ E). lia.
Qed.

(* ---------- pg_authid: at most one role per heap entry ---------- *)
Lemma auth_count : forall es l, PG.C14.Model.auth_entries es = Ok l -> (length l <= length es)%nat.
Proof.
  induction es as [|e es IH]; intros l H; cbn [PG.C14.Model.auth_entries] in H; [injection H as <-; cbn; lia|].
  destruct (PG.C14.Model.authTuple _) as [o|]; [|discriminate H]. cbn [bind] in H.
  destruct (PG.C14.Model.auth_entries es) as [rs|]; [|discriminate H]. cbn [bind] in H.
  specialize (IH rs eq_refl). injection H as <-. destruct o; cbn [length]; lia.
Qed.
Theorem authid_output_linear s l :
  PG.C14.Model.ParsePGAuthID s = Ok l -> Z.of_nat (length l) <= len s / 4.
Proof.
  unfold PG.C14.Model.ParsePGAuthID. intros H.
  destruct (PG.C02.Model.ReadTuples s false) as [es|] eqn:E; [|discriminate H]. cbn [bind] in H.
  pose proof (auth_count _ _ H). pose proof (scan_count _ _ _ E). lia.
Qed.

(* ---------- decompressors: output linear in the INPUT, whatever raw size the pointer claims ---------- *)
Require PG.C08.CopyProofs PG.C08.PglzProofs PG.C08.SafetyProofs.
Section Decompress.
Import PG.C08.Model PG.C08.CopyProofs PG.C08.PglzProofs PG.C08.SafetyProofs.

Ltac fin3' := do 3 eexists; split; [reflexivity|]; repeat split; auto; autorewrite with blen in *; lia.

Lemma pglz_bits_growth : forall nb bit dlen rawSize ctrl pos rest r,
  0 <= pos -> pos + blen rest = dlen -> 0 <= bn r -> rb_wf r ->
  exists pos' rest' r', pglz_bits nb bit dlen rawSize ctrl pos rest r = Ok (pos', rest', r') /\
    pos <= pos' /\ pos' + blen rest' = dlen /\ bn r <= bn r' /\ rb_wf r' /\ bn r' - bn r <= 273 * (pos' - pos).
Proof.
  induction nb as [|k IH]; intros bit dlen rawSize ctrl pos rest r Hp Hd Hb W; cbn [pglz_bits]; [fin3'|].
  destruct ((pos <? dlen) && (bn r <? rawSize)) eqn:E; [|fin3'].
  destruct (Z.odd (ctrl / 2 ^ bit)).
  - destruct (pos + 1 >=? dlen) eqn:E1; [fin3'|].
    destruct rest as [|b1 [|b2 rest2]]; autorewrite with blen in Hd; try lia.
    cbn [rdz rd nth_error bind skipn]. cbv zeta.
    pose proof (b2z_range b1). pose proof (b2z_range b2).
    set (offset := b2z b1 / 16 * 256 + b2z b2).
    assert (Hoff : 0 <= offset) by (unfold offset; lia).
    assert (Step : forall pos2 rest3 length, pos + 2 <= pos2 -> pos2 + blen rest3 = dlen -> length <= 273 ->
      exists pos' rest' r',
        (if (offset =? 0) || (offset >? bn r) then pglz_bits k (bit + 1) dlen rawSize ctrl pos2 rest3 r
         else r' <- copy_loop (Z.to_nat length) 0 (bn r - offset) offset rawSize r ;;
              pglz_bits k (bit + 1) dlen rawSize ctrl pos2 rest3 r') = Ok (pos', rest', r') /\
        pos <= pos' /\ pos' + blen rest' = dlen /\ bn r <= bn r' /\ rb_wf r' /\ bn r' - bn r <= 273 * (pos' - pos)).
    { intros pos2 rest3 length Hp2 Hd2 Hl.
      destruct ((offset =? 0) || (offset >? bn r)) eqn:E2.
      - destruct (IH (bit + 1) dlen rawSize ctrl pos2 rest3 r) as (p' & q' & r' & H1 & H2 & H3 & H4 & H5 & H6); try lia; auto.
        exists p', q', r'. split; [exact H1|]. repeat split; auto; lia.
      - destruct (copy_loop_safe (Z.to_nat length) 0 (bn r - offset) offset rawSize r) as (rc & C1 & C2 & C3 & C4 & C5); try lia; auto.
        rewrite C1. cbn [bind].
        destruct (IH (bit + 1) dlen rawSize ctrl pos2 rest3 rc) as (p' & q' & r' & H1 & H2 & H3 & H4 & H5 & H6); try lia; auto.
        exists p', q', r'. split; [exact H1|]. repeat split; auto; lia. }
    destruct (b2z b1 mod 16 + 3 =? 18) eqn:E18.
    + destruct (pos + 2 >=? dlen) eqn:E2; [fin3'|].
      destruct rest2 as [|e rest3]; autorewrite with blen in Hd; try lia.
      cbn [nth_error bind skipn]. pose proof (b2z_range e). apply Step; autorewrite with blen; lia.
    + apply Step; autorewrite with blen; lia.
  - destruct rest as [|b rest1]; autorewrite with blen in Hd; try lia.
    cbn [rd nth_error bind skipn].
    destruct (IH (bit + 1) dlen rawSize ctrl (pos + 1) rest1 (rb_push r b)) as (p' & q' & r' & H1 & H2 & H3 & H4 & H5 & H6);
      try lia; try (cbn [rb_push bn]; lia); [apply rb_push_wf, W|].
    exists p', q', r'. split; [exact H1|]. cbn [rb_push bn] in *. repeat split; auto; lia.
Qed.

Lemma pglz_loop_growth : forall fuel dlen rawSize pos rest r,
  0 <= pos -> pos + blen rest = dlen -> 0 <= bn r -> dlen - pos < Z.of_nat fuel -> rb_wf r ->
  exists r', pglz_loop fuel dlen rawSize pos rest r = Ok (Some r') /\ rb_wf r' /\ bn r' - bn r <= 273 * (dlen - pos).
Proof.
  induction fuel as [|f IH]; intros dlen rawSize pos rest r Hp Hd Hb Hf W.
  - pose proof (blen_nonneg rest). lia.
  - pose proof (blen_nonneg rest) as Hrest.
    cbn [pglz_loop]. destruct ((pos <? dlen) && (bn r <? rawSize)) eqn:E; [|exists r; split; [reflexivity|split; auto; lia]].
    destruct rest as [|c rest1]; autorewrite with blen in Hd; try lia.
    cbn [rdz rd nth_error bind skipn].
    destruct (pglz_bits_growth 8 0 dlen rawSize (b2z c) (pos + 1) rest1 r) as (p' & q' & r1 & H1 & H2 & H3 & H4 & H5 & H6); try lia; auto.
    rewrite H1. cbn [bind fst snd]. pose proof (blen_nonneg q').
    destruct (IH dlen rawSize p' q' r1) as (r' & L1 & L2 & L3); try lia; auto.
    exists r'. split; [exact L1|]. split; auto; lia.
Qed.

(* whatever raw size the pointer claims, pglz output is at most 273 bytes per input byte *)
Theorem decompressPGLZ_output_linear data rawSize out :
  decompressPGLZ data rawSize = Ok (DOk out) -> blen out <= 273 * len data.
Proof.
  unfold decompressPGLZ. destruct (len data <? 1) eqn:E; [intros H; discriminate H|].
  pose proof (decompressCap_nonneg rawSize (len data) ltac:(lia)).
  unfold go_make0. destruct (decompressCap rawSize (len data) <? 0) eqn:E2; [lia|]. cbn [bind].
  destruct (pglz_loop_growth (S (length (vis data))) (len data) rawSize 0 (vis data) rb_empty) as (r' & H1 & H2 & H3);
    try (unfold len, blen in *; cbn [rb_empty bn]; lia); [apply rb_empty_wf|].
  rewrite H1. cbn [bind]. intros H0. injection H0 as <-.
  rewrite rb_bytes_fwd, (fwd_len _ H2). cbn [rb_empty bn] in H3. lia.
Qed.

(* ---------------- LZ4 ---------------- *)
Lemma ext_loop_growth : forall rest pos n p' q' n',
  ext_loop rest pos n = (p', q', n') -> n' - n <= 255 * (p' - pos).
Proof.
  induction rest as [|b rest IH]; intros pos n p' q' n'; cbn [ext_loop].
  - intros [= <- <- <-]. lia.
  - pose proof (b2z_range b). destruct (b2z b =? 255) eqn:E.
    + intros H1. apply IH in H1. lia.
    + intros [= <- <- <-]. lia.
Qed.

Lemma lz4_loop_growth : forall fuel dlen rawSize pos rest r,
  0 <= pos -> pos + blen rest = dlen -> rb_wf r -> 0 <= bn r -> dlen - pos < Z.of_nat fuel ->
  bn r <= 255 * pos ->
  exists d, lz4_loop fuel dlen rawSize pos rest r = Ok d /\
            forall out, d = DOk out -> blen out <= 255 * dlen.
Proof.
  induction fuel as [|f IH]; intros dlen rawSize pos rest r Hp Hd W Hb Hf Hinv.
  - pose proof (blen_nonneg rest). lia.
  - assert (Done : forall r2 : rbuf, rb_wf r2 -> bn r2 <= 255 * dlen ->
              exists d, Ok (DOk (rb_bytes r2)) = Ok d /\ forall out, d = DOk out -> blen out <= 255 * dlen).
    { intros r2 W2 B2. eexists. split; [reflexivity|].
      intros out [= <-]. rewrite rb_bytes_fwd, (fwd_len _ W2). exact B2. }
    assert (Err : forall e, exists d, Ok (DErr e) = Ok d /\ forall out, d = DOk out -> blen out <= 255 * dlen).
    { intros e. eexists. split; [reflexivity|]. intros out H; discriminate H. }
    pose proof (blen_nonneg rest) as Hr0.
    cbn [lz4_loop]. destruct ((pos <? dlen) && (bn r <? rawSize)) eqn:E; [|apply Done; [exact W|lia]].
    destruct rest as [|tk rest0]; autorewrite with blen in Hd; try lia.
    cbn [rdz rd nth_error bind skipn].
    pose proof (b2z_range tk) as Htk.
    destruct (if b2z tk / 16 =? 15 then ext_loop rest0 (pos + 1) (b2z tk / 16) else (pos + 1, rest0, b2z tk / 16))
      as [[pos1 rest1] lit1] eqn:EL.
    assert (HL : pos + 1 <= pos1 /\ pos1 + blen rest1 = dlen /\ 0 <= lit1).
    { destruct (b2z tk / 16 =? 15).
      - apply (ext_loop_safe _ _ _ dlen) in EL; lia.
      - injection EL as <- <- <-. lia. }
    destruct HL as (HL1 & HL2 & HL3). pose proof (blen_nonneg rest1) as Hr1.
    set (lit := if pos1 + lit1 >? dlen then dlen - pos1 else lit1).
    assert (Hlit : 0 <= lit <= blen rest1) by (unfold lit; destruct (pos1 + lit1 >? dlen) eqn:E2; lia).
    destruct (take_n_safe (Z.to_nat lit) rest1 ltac:(unfold blen in *; lia)) as (lits & TK & TL).
    rewrite TK. cbn [bind].
    assert (Lb : blen lits = lit) by (unfold blen; lia).
    set (r1 := rb_append r lits).
    assert (W1 : rb_wf r1) by (apply rb_append_wf, W).
    assert (N1 : bn r1 = bn r + lit) by (unfold r1; cbn [rb_append bn]; lia).
    assert (S1 : blen (skipn (Z.to_nat lit) rest1) = blen rest1 - lit).
    { rewrite blen_skipn_le by (unfold blen in *; lia). lia. }
    destruct ((pos1 + lit >=? dlen) || (bn r1 >=? rawSize)) eqn:E2; [apply Done; [exact W1|lia]|].
    destruct (pos1 + lit + 2 >? dlen) eqn:E3; [apply Done; [exact W1|lia]|].
    destruct (skipn (Z.to_nat lit) rest1) as [|o1 [|o2 rest2]] eqn:ES; autorewrite with blen in S1; try lia.
    cbn [rdz rd nth_error bind skipn].
    pose proof (b2z_range o1). pose proof (b2z_range o2).
    destruct (b2z o1 + b2z o2 * 256 =? 0) eqn:E4; [apply Err|].
    destruct (if b2z tk mod 16 + 4 =? 19 then ext_loop rest2 (pos1 + lit + 2) (b2z tk mod 16 + 4)
              else (pos1 + lit + 2, rest2, b2z tk mod 16 + 4)) as [[pos2 rest3] ml] eqn:EM.
    assert (HM : pos1 + lit + 2 <= pos2 /\ pos2 + blen rest3 = dlen /\ 0 <= ml /\ ml <= 19 + 255 * (pos2 - (pos1 + lit + 2))).
    { destruct (b2z tk mod 16 + 4 =? 19) eqn:E19.
      - pose proof (ext_loop_growth _ _ _ _ _ _ EM). apply (ext_loop_safe _ _ _ dlen) in EM; lia.
      - injection EM as <- <- <-. lia. }
    destruct HM as (HM1 & HM2 & HM3 & HM4).
    destruct (b2z o1 + b2z o2 * 256 >? bn r1) eqn:E5; [apply Err|].
    destruct (copy_loop_safe (Z.to_nat ml) 0 (bn r1 - (b2z o1 + b2z o2 * 256)) (b2z o1 + b2z o2 * 256) rawSize r1)
      as (rc & C1 & C2 & C3 & C4 & C5); try lia; auto.
    rewrite C1. cbn [bind].
    apply IH; try lia; auto.
Qed.

(* whatever raw size the pointer claims, LZ4 output is at most 255 bytes per input byte *)
Theorem decompressLZ4_output_linear data rawSize out :
  decompressLZ4 data rawSize = Ok (DOk out) -> blen out <= 255 * len data.
Proof.
  unfold decompressLZ4. destruct (len data <? 1) eqn:E; [intros H; discriminate H|].
  pose proof (decompressCap_nonneg rawSize (len data) ltac:(lia)).
  unfold go_make0. destruct (decompressCap rawSize (len data) <? 0) eqn:E2; [lia|]. cbn [bind].
  destruct (lz4_loop_growth (S (length (vis data))) (len data) rawSize 0 (vis data) rb_empty) as (d & H1 & H2);
    try (unfold len, blen in *; cbn [rb_empty bn]; lia); [apply rb_empty_wf|].
  rewrite H1. intros H0. injection H0 as ->. apply H2. reflexivity.
Qed.
End Decompress.
