(* C10: index page locality for ALL byte strings.

   ParseIndexFile (index.go:188-229) decides the access method ONCE, from the first 8 KiB page (detectIndexType on
   data[0:8192]; the metapage summary is read from that page too), and then reports one IndexPageInfo per complete page:
   entry i is a function of the 8192 visible bytes of page i, of that method and of i alone - not of what follows the
   page in memory (every slice expression stays inside len), not of any other page.  So damage to a page j <> 0 changes
   entry j only; damage to page 0 may change the method and with it how EVERY page's special space is read - that
   dependency is the code's design (PostgreSQL index pages do not name their access method; only the metapage/first page
   allows the guess) and is exhibited by [index_page0_dependency]. *)
Require Import PG.Base.Bytes PG.Base.GoSlice PG.C18.Types PG.C18.Model PG.C18.Lib PG.C18.SafetyProofs.

(* ---------- reads of a slice given by its visible bytes ---------- *)
Lemma rdN_mk n v t lo hi : 0 <= lo -> hi = lo + Z.of_nat n -> hi <= blen v ->
  rdN n {| vis := v; tail := t |} lo hi = Ok (le_dec (sub v lo hi)).
Proof. intros. rewrite rdN_ok; auto. Qed.
Lemma rdNf_mk n v t lo : 0 <= lo -> lo + Z.of_nat n <= blen v ->
  rdN_from n {| vis := v; tail := t |} lo = Ok (le_dec (sub v lo (lo + Z.of_nat n))).
Proof. intros. rewrite rdN_from_ok; auto. Qed.
Lemma slice_from_mk v t lo : 0 <= lo <= blen v ->
  slice_from {| vis := v; tail := t |} lo = Ok {| vis := sub v lo (blen v); tail := t |}.
Proof. intros. rewrite slice_from_ok; auto. Qed.
Lemma len_sub_mk v lo t : 0 <= lo <= blen v -> len {| vis := sub v lo (blen v); tail := t |} = blen v - lo.
Proof. intros. rewrite len_mk. apply sub_length; lia. Qed.

Lemma rdN_sub_mk n v t sp lo hi : 0 <= sp -> 0 <= lo -> hi = lo + Z.of_nat n -> sp + hi <= blen v ->
  rdN n {| vis := sub v sp (blen v); tail := t |} lo hi = Ok (le_dec (sub v (sp + lo) (sp + hi))).
Proof. intros. apply (rdN_in_from n {| vis := v; tail := t |} sp lo hi t); auto. Qed.
Lemma le_dec_nonneg bs : 0 <= le_dec bs.
Proof. pose proof (le_dec_range bs). lia. Qed.

Ltac t1 := first
  [ rewrite rdN_sub_mk by lia
  | rewrite rdN_mk by lia
  | rewrite rdNf_mk by lia
  | rewrite slice_from_mk by lia
  | rewrite len_sub_mk by lia
  | progress cbn [bind]
  | match goal with |- context [if ?c then _ else _] => destruct c eqn:? end
  | reflexivity ].
Ltac tprep := unfold rd16, rd32, rd64, exact; rewrite ?len_mk.

(* ---------- the special-space parsers depend on the visible bytes only ---------- *)
Lemma bt_special_tail info x t : parseBTreePageSpecial info {| vis := x; tail := t |} = parseBTreePageSpecial info (exact x).
Proof. unfold parseBTreePageSpecial. tprep. repeat t1. Qed.
Lemma hash_special_tail info x t : parseHashPageSpecial info {| vis := x; tail := t |} = parseHashPageSpecial info (exact x).
Proof. unfold parseHashPageSpecial. tprep. repeat t1. Qed.
Lemma gist_special_tail info x t : parseGiSTPageSpecial info {| vis := x; tail := t |} = parseGiSTPageSpecial info (exact x).
Proof. unfold parseGiSTPageSpecial. tprep. repeat t1. Qed.
Lemma gin_special_tail info x t : parseGINPageSpecial info {| vis := x; tail := t |} = parseGINPageSpecial info (exact x).
Proof. unfold parseGINPageSpecial. tprep. repeat t1. Qed.
Lemma spgist_special_tail info x t : parseSPGiSTPageSpecial info {| vis := x; tail := t |} = parseSPGiSTPageSpecial info (exact x).
Proof. unfold parseSPGiSTPageSpecial. tprep. repeat t1. Qed.
Lemma brin_special_tail info x t : parseBRINPageSpecial info {| vis := x; tail := t |} = parseBRINPageSpecial info (exact x).
Proof. unfold parseBRINPageSpecial. tprep. repeat t1. Qed.

Lemma page_tail v t num ty : parseIndexPage {| vis := v; tail := t |} num ty = parseIndexPage (exact v) num ty.
Proof.
  unfold parseIndexPage, PageSize. tprep.
  destruct (blen v <? 8192) eqn:E; [reflexivity|].
  rewrite !rdN_mk by lia. cbn [bind].
  pose proof (le_dec_range (sub v 16 18)) as R. rewrite <- (Nat2Z.id (length _)) in R. fold (blen (sub v 16 18)) in R.
  rewrite sub_length in R by lia. change (2 ^ (8 * Z.of_nat (Z.to_nat (18 - 16)))) with 65536 in R.
  set (special := le_dec (sub v 16 18)) in *.
  destruct (special <? 8192) eqn:Es; [|reflexivity].
  rewrite !slice_from_mk by lia. cbn [bind].
  rewrite (bt_special_tail _ _ t), (hash_special_tail _ _ t), (gist_special_tail _ _ t), (gin_special_tail _ _ t),
          (spgist_special_tail _ _ t), (brin_special_tail _ _ t).
  reflexivity.
Qed.

Lemma detect_tail v t : detectIndexType {| vis := v; tail := t |} = detectIndexType (exact v).
Proof.
  unfold detectIndexType, PageSize, headerSize. tprep.
  pose proof (le_dec_nonneg (sub v 16 18)).
  repeat t1.
Qed.
Lemma btmeta_tail v t : parseBTreeMeta {| vis := v; tail := t |} = parseBTreeMeta (exact v).
Proof.
  unfold parseBTreeMeta, PageSize, headerSize. tprep.
  pose proof (le_dec_nonneg (sub v 16 18)).
  repeat t1.
Qed.
Lemma hashmeta_tail v t : parseHashMeta {| vis := v; tail := t |} = parseHashMeta (exact v).
Proof.
  unfold parseHashMeta, PageSize, headerSize. tprep.
  pose proof (le_dec_nonneg (sub v 16 18)).
  repeat t1.
Qed.
Lemma ginmeta_tail v t : parseGINMeta {| vis := v; tail := t |} = parseGINMeta (exact v).
Proof.
  unfold parseGINMeta, PageSize, headerSize. tprep.
  pose proof (le_dec_nonneg (sub v 16 18)).
  repeat t1.
Qed.

(* ---------- pure functions: the method, the metapage summary, one page's entry, all entries ---------- *)
Definition idx_type (p0 : bytes) : Z :=
  match detectIndexType (exact p0) with Ok t => t | Panic => IndexTypeUnknown end.
Definition no_info (num ty : Z) : pinfo :=      (* never used: parseIndexPage does not panic *)
  {| pi_num := num; pi_type := ty; pi_tstr := []; pi_meta := false; pi_leaf := false; pi_root := false;
     pi_deleted := false; pi_flags := 0; pi_names := []; pi_level := 0; pi_prev := 0; pi_next := 0; pi_right := 0;
     pi_items := 0; pi_free := 0; pi_lsn := 0; pi_lsnstr := [] |}.
(* entry of the page with bytes p, number num, under method ty *)
Definition idx_page (p : bytes) (num ty : Z) : pinfo :=
  match parseIndexPage (exact p) (num mod 4294967296) ty with Ok x => x | Panic => no_info num ty end.
Definition idx_meta (p0 : bytes) (ty : Z) : imeta * Z * Z :=
  if ty =? IndexTypeBTree then
    match parseBTreeMeta (exact p0) with Ok (Some bm) => (MBT bm, bm_root bm, bm_level bm) | _ => (MNone, 0, 0) end
  else if ty =? IndexTypeHash then
    match parseHashMeta (exact p0) with Ok (Some hm) => (MHash hm, 0, 0) | _ => (MNone, 0, 0) end
  else if ty =? IndexTypeGIN then
    match parseGINMeta (exact p0) with Ok (Some gm) => (MGin gm, 0, 0) | _ => (MNone, 0, 0) end
  else (MNone, 0, 0).
(* entries of the n pages starting at page index i of v, numbered from num *)
Fixpoint idx_pages (n : nat) (v : bytes) (i num ty : Z) : list pinfo :=
  match n with
  | O => []
  | S k => idx_page (sub v (i * 8192) (i * 8192 + 8192)) num ty :: idx_pages k v (i + 1) (num + 1) ty
  end.
(* all complete pages of v, numbered from num *)
Definition idx_all (v : bytes) (num ty : Z) : list pinfo := idx_pages (Z.to_nat (blen v / 8192)) v 0 num ty.

Definition idx_file (v : bytes) : option iinfo :=
  if blen v <? 8192 then None else
  let p0 := sub v 0 8192 in
  let ty := idx_type p0 in
  let mrl := idx_meta p0 ty in
  Some {| ii_type := ty; ii_tstr := IndexType_String ty; ii_total := blen v / 8192;
          ii_meta := fst (fst mrl); ii_levels := snd mrl; ii_root := snd (fst mrl);
          ii_pages := idx_all v 0 ty |}.

Lemma slice_within' s lo hi : 0 <= lo <= hi -> hi <= len s ->
  slice s lo hi = Ok {| vis := sub (vis s) lo hi; tail := skipn (Z.to_nat hi) (mem s) |}.
Proof.
  intros H1 H2. unfold slice. pose proof (len_le_cap s).
  destruct ((0 <=? lo) && (lo <=? hi) && (hi <=? cap s)) eqn:E; [|lia].
  do 2 f_equal. unfold mem. apply sub_app_l; unfold len in *; lia.
Qed.

Lemma parse_pages_pure : forall n data i ty, 0 <= i -> (i + Z.of_nat n) * 8192 <= len data ->
  parse_pages n data i ty = Ok (idx_pages n (vis data) i i ty).
Proof.
  induction n as [|n IH]; intros data i ty Hi Hl; cbn [parse_pages idx_pages]; [reflexivity|].
  unfold PageSize. rewrite slice_within' by lia. cbn [bind].
  rewrite page_tail. unfold idx_page.
  pose proof (page_np (exact (sub (vis data) (i * 8192) (i * 8192 + 8192))) (i mod 4294967296) ty) as NP.
  destruct (parseIndexPage _ _ ty) as [x|]; [|congruence]. cbn [bind].
  rewrite IH by lia. reflexivity.
Qed.

(* ParseIndexFile, on EVERY slice, is the pure function idx_file of the visible bytes *)
Theorem ParseIndexFile_pure s : ParseIndexFile s = Ok (idx_file (vis s)).
Proof.
  unfold ParseIndexFile, idx_file, PageSize. change (blen (vis s)) with (len s).
  destruct (len s <? 8192) eqn:E; [reflexivity|].
  rewrite slice_within' by lia. cbn [bind].
  set (p0 := sub (vis s) 0 8192). rewrite detect_tail. unfold idx_type.
  pose proof (detect_np (exact p0)) as ND. destruct (detectIndexType (exact p0)) as [ty|]; [|congruence]. cbn [bind].
  rewrite parse_pages_pure; [|lia|pose proof (len_nonneg s); lia].
  unfold idx_meta, idx_all. rewrite btmeta_tail, hashmeta_tail, ginmeta_tail.
  change (blen (vis s)) with (len s).
  destruct (ty =? IndexTypeBTree).
  { pose proof (btmeta_np (exact p0)) as N. destruct (parseBTreeMeta (exact p0)) as [[m|]|]; [| |congruence]; reflexivity. }
  destruct (ty =? IndexTypeHash).
  { pose proof (hashmeta_np (exact p0)) as N. destruct (parseHashMeta (exact p0)) as [[m|]|]; [| |congruence]; reflexivity. }
  destruct (ty =? IndexTypeGIN).
  { pose proof (ginmeta_np (exact p0)) as N. destruct (parseGINMeta (exact p0)) as [[m|]|]; [| |congruence]; reflexivity. }
  reflexivity.
Qed.

(* ---------- entry j is a function of page j's bytes, the method and j ---------- *)
Lemma idx_pages_nth : forall n v i num ty j, (j < n)%nat ->
  nth_error (idx_pages n v i num ty) j =
  Some (idx_page (sub v ((i + Z.of_nat j) * 8192) ((i + Z.of_nat j) * 8192 + 8192)) (num + Z.of_nat j) ty).
Proof.
  induction n as [|n IH]; intros v i num ty j Hj; [lia|]. cbn [idx_pages].
  destruct j as [|j]; cbn [nth_error].
  - f_equal. f_equal; [f_equal; lia|lia].
  - rewrite IH by lia. f_equal. f_equal; [f_equal; lia|lia].
Qed.
Lemma idx_pages_length : forall n v i num ty, length (idx_pages n v i num ty) = n.
Proof. induction n as [|n IH]; intros; cbn [idx_pages length]; [reflexivity|]. rewrite IH. reflexivity. Qed.

Theorem index_entry_local s :
  8192 <= len s ->
  exists info, ParseIndexFile s = Ok (Some info) /\
    ii_type info = idx_type (sub (vis s) 0 8192) /\
    Z.of_nat (length (ii_pages info)) = len s / 8192 /\
    forall j, 0 <= j < len s / 8192 ->
      nth_error (ii_pages info) (Z.to_nat j) = Some (idx_page (sub (vis s) (j * 8192) (j * 8192 + 8192)) j (ii_type info)).
Proof.
  intros L. rewrite ParseIndexFile_pure. unfold idx_file. change (blen (vis s)) with (len s).
  destruct (len s <? 8192) eqn:E; [lia|]. eexists. split; [reflexivity|]. cbn [ii_type ii_pages].
  split; [reflexivity|]. unfold idx_all. change (blen (vis s)) with (len s). split.
  - rewrite idx_pages_length. lia.
  - intros j Hj. rewrite idx_pages_nth by lia. f_equal. f_equal; [f_equal; lia|lia].
Qed.

(* ---------- the entry list splits at every page boundary ---------- *)
Lemma idx_pages_app : forall n m v i num ty,
  idx_pages (n + m) v i num ty = idx_pages n v i num ty ++ idx_pages m v (i + Z.of_nat n) (num + Z.of_nat n) ty.
Proof.
  induction n as [|n IH]; intros; cbn [Nat.add idx_pages app].
  - f_equal; lia.
  - f_equal. rewrite IH. do 2 f_equal; lia.
Qed.
Lemma idx_pages_prefix : forall n a c i num ty, 0 <= i -> (i + Z.of_nat n) * 8192 <= blen a ->
  idx_pages n (a ++ c) i num ty = idx_pages n a i num ty.
Proof.
  induction n as [|n IH]; intros a c i num ty Hi Hl; cbn [idx_pages]; [reflexivity|].
  rewrite sub_app_l by lia. f_equal. apply IH; lia.
Qed.
Lemma idx_pages_shift : forall n a c k i num ty, 0 <= i -> blen a = k * 8192 ->
  idx_pages n (a ++ c) (k + i) num ty = idx_pages n c i num ty.
Proof.
  induction n as [|n IH]; intros a c k i num ty Hi Ha; cbn [idx_pages]; [reflexivity|].
  rewrite sub_app_r by lia. f_equal; [do 2 f_equal; lia|].
  replace (k + i + 1) with (k + (i + 1)) by lia. apply IH; lia.
Qed.

Theorem idx_all_concat a c num ty : blen a mod 8192 = 0 ->
  idx_all (a ++ c) num ty = idx_all a num ty ++ idx_all c (num + blen a / 8192) ty.
Proof.
  intros Ha. unfold idx_all. pose proof (blen_nonneg a). pose proof (blen_nonneg c).
  replace (Z.to_nat (blen (a ++ c) / 8192)) with (Z.to_nat (blen a / 8192) + Z.to_nat (blen c / 8192))%nat by (bl; lia).
  rewrite idx_pages_app. f_equal.
  - apply idx_pages_prefix; lia.
  - rewrite Z2Nat.id by lia. replace (0 + blen a / 8192) with (blen a / 8192 + 0) by lia.
    apply idx_pages_shift; lia.
Qed.
Lemma idx_all_page p num ty : blen p = 8192 -> idx_all p num ty = [idx_page p num ty].
Proof.
  intros Hp. unfold idx_all. rewrite Hp. change (Z.to_nat (8192 / 8192)) with 1%nat. cbn [idx_pages].
  change (0 * 8192) with 0. cbn [Z.add]. rewrite sub_exact by lia. reflexivity.
Qed.

(* page locality of the entry list, for ALL byte strings and every method *)
Theorem index_page_local a p b num ty :
  blen a mod 8192 = 0 -> blen p = 8192 ->
  idx_all (a ++ p ++ b) num ty =
  idx_all a num ty ++ [idx_page p (num + blen a / 8192) ty] ++ idx_all b (num + blen a / 8192 + 1) ty.
Proof.
  intros Ha Hp. rewrite idx_all_concat by exact Ha. f_equal.
  rewrite idx_all_concat by (rewrite Hp; reflexivity). rewrite idx_all_page by exact Hp.
  rewrite Hp. reflexivity.
Qed.

(* ... on the model's entry point: a page OTHER THAN THE FIRST (a holds at least one page) is replaced *)
Theorem index_page_local_model a p b t :
  blen a mod 8192 = 0 -> 8192 <= blen a -> blen p = 8192 ->
  let p0 := sub a 0 8192 in let ty := idx_type p0 in let mrl := idx_meta p0 ty in
  ParseIndexFile {| vis := a ++ p ++ b; tail := t |} =
  Ok (Some {| ii_type := ty; ii_tstr := IndexType_String ty; ii_total := blen a / 8192 + 1 + blen b / 8192;
              ii_meta := fst (fst mrl); ii_levels := snd mrl; ii_root := snd (fst mrl);
              ii_pages := idx_all a 0 ty ++ [idx_page p (blen a / 8192) ty] ++ idx_all b (blen a / 8192 + 1) ty |}).
Proof.
  intros Ha La Hp p0 ty mrl. rewrite ParseIndexFile_pure. cbn [vis]. unfold idx_file.
  pose proof (blen_nonneg b).
  destruct (blen (a ++ p ++ b) <? 8192) eqn:E; [bl; lia|].
  rewrite (sub_app_l a) by lia. fold p0. fold ty. fold mrl.
  rewrite index_page_local by assumption. cbn [Z.add].
  do 3 f_equal. bl. lia.
Qed.

(* damage to a page other than the first: the two results agree in everything but that page's entry *)
Corollary index_page_damage_local a p p' b t t' :
  blen a mod 8192 = 0 -> 8192 <= blen a -> blen p = 8192 -> blen p' = 8192 ->
  exists i i' pre post x x',
    ParseIndexFile {| vis := a ++ p ++ b; tail := t |} = Ok (Some i) /\
    ParseIndexFile {| vis := a ++ p' ++ b; tail := t' |} = Ok (Some i') /\
    ii_type i = ii_type i' /\ ii_tstr i = ii_tstr i' /\ ii_total i = ii_total i' /\ ii_meta i = ii_meta i' /\
    ii_levels i = ii_levels i' /\ ii_root i = ii_root i' /\
    ii_pages i = pre ++ [x] ++ post /\ ii_pages i' = pre ++ [x'] ++ post /\ Z.of_nat (length pre) = blen a / 8192.
Proof.
  intros Ha La Hp Hp'.
  pose proof (index_page_local_model a p b t Ha La Hp) as H1. pose proof (index_page_local_model a p' b t' Ha La Hp') as H2.
  cbn zeta in H1, H2. do 6 eexists. split; [exact H1|]. split; [exact H2|]. cbn.
  repeat (split; [reflexivity|]). unfold idx_all. rewrite idx_pages_length. pose proof (blen_nonneg a). lia.
Qed.

(* damage to the FIRST page is not confined: it can change the method, and with it every other page's entry.
   Witness: two copies of a B-tree leaf page (pd_special = 8176, btpo_flags = BTP_LEAF); zeroing page 0 makes the
   method "unknown", and page 1 - untouched - is no longer reported as a B-tree leaf. *)
Definition bt_leaf_page : bytes := zeros 16 ++ le_enc 2 8176 ++ zeros 8170 ++ le_enc 2 1 ++ zeros 2.
Theorem index_page0_dependency :
  blen bt_leaf_page = 8192 /\ blen (zeros 8192) = 8192 /\
  exists i i', ParseIndexFile (exact (bt_leaf_page ++ bt_leaf_page)) = Ok (Some i) /\
               ParseIndexFile (exact (zeros 8192 ++ bt_leaf_page)) = Ok (Some i') /\
               option_map (fun e => (pi_type e, pi_leaf e)) (nth_error (ii_pages i) 1) = Some (1, true) /\
               option_map (fun e => (pi_type e, pi_leaf e)) (nth_error (ii_pages i') 1) = Some (0, false).
Proof.
  split; [vm_compute; reflexivity|]. split; [vm_compute; reflexivity|].
  do 2 eexists. split; [vm_compute; reflexivity|]. split; [vm_compute; reflexivity|].
  split; vm_compute; reflexivity.
Qed.
