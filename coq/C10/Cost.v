(* C10: the heap scan reports at most one entry per 4 input bytes (each entry needs its own line pointer),
   so its output and its loop counts are linear in the input size. *)
Require Import PG.Base.Bytes PG.Base.GoSlice PG.C02.Model PG.C02.Spec PG.C02.Pure.

Lemma p_items_count : forall fuel v lower off, 0 <= off ->
  Z.of_nat (length (p_items fuel v lower off)) <= Z.max 0 ((blen v - off) / 4).
Proof.
  induction fuel as [|k IH]; intros v lower off Hoff; cbn [p_items length]; [lia|].
  destruct ((off <? lower) && (off + 4 <=? blen v)) eqn:E; cbn [length]; [|lia].
  specialize (IH v lower (off + 4) ltac:(lia)). lia.
Qed.

Lemma flat_map_le1 {A B} (f : A -> list B) (l : list A) :
  (forall a, (length (f a) <= 1)%nat) -> (length (flat_map f l) <= length l)%nat.
Proof.
  intros H. induction l as [|a l IH]; cbn [flat_map length]; [lia|].
  rewrite app_length. specialize (H a). lia.
Qed.

Lemma p_page_count v po : 8192 <= blen v -> Z.of_nat (length (p_page v po)) <= (blen v - 24) / 4.
Proof.
  intros L. unfold p_page. destruct (blen v <? 8192); [cbn; lia|].
  destruct (negb _); [cbn; lia|].
  pose proof (p_items_count (Z.to_nat (blen v / 4 + 1)) v (ph_lower (p_header v)) 24 ltac:(lia)) as C.
  assert (F : (length (flat_map (p_item_tuple v (ph_upper (p_header v)) po)
                                (p_items (Z.to_nat (blen v / 4 + 1)) v (ph_lower (p_header v)) 24)) <=
               length (p_items (Z.to_nat (blen v / 4 + 1)) v (ph_lower (p_header v)) 24))%nat).
  { apply flat_map_le1. intros it. unfold p_item_tuple.
    destruct (_ || _); [cbn; lia|]. destruct (_ || _); [cbn; lia|]. destruct (p_tuple _ _); cbn; lia. }
  lia.
Qed.

Lemma filter_length_le {A} (f : A -> bool) l : (length (filter f l) <= length l)%nat.
Proof. induction l as [|a l IH]; cbn [filter length]; [lia|]. destruct (f a); cbn [length]; lia. Qed.

Lemma p_file_loop_count : forall fuel v vo off, 0 <= off ->
  Z.of_nat (length (p_file_loop fuel v vo off)) <= Z.max 0 ((blen v - off) / 4).
Proof.
  induction fuel as [|k IH]; intros v vo off Hoff; cbn [p_file_loop length]; [lia|].
  destruct (off + 8192 <=? blen v) eqn:E; [|cbn; lia].
  rewrite app_length. specialize (IH v vo (off + 8192) ltac:(lia)).
  pose proof (filter_length_le (fun o => negb vo || obs_visible o) (p_page (sub v off (off + 8192)) off)) as F.
  assert (L : blen (sub v off (off + 8192)) = 8192) by (rewrite sub_length; lia).
  pose proof (p_page_count (sub v off (off + 8192)) off ltac:(lia)) as P. rewrite L in P.
  change ((8192 - 24) / 4) with 2042 in P. lia.
Qed.

Theorem scan_output_linear v vo : Z.of_nat (length (p_file v vo)) <= blen v / 4.
Proof.
  unfold p_file. pose proof (p_file_loop_count (Z.to_nat (blen v / 8192)) v vo 0 ltac:(lia)) as H.
  pose proof (blen_nonneg v). replace (blen v - 0) with (blen v) in H by lia. lia.
Qed.
