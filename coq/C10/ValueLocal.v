(* C10: damage confined to the payload of ONE stored value does not change what the row decoder reports for the
   other columns.  Stated over PostgreSQL's heap_fill_tuple transcription (C03.Spec.fill): overwriting the payload
   bytes of attribute j by ANY bytes of the same length (same storage form) yields a data area that differs only
   inside that payload, and DecodeTuple reports the same value for every other column. *)
Require Import PG.Base.Bytes PG.Base.GoSlice PG.Base.Value PG.C02.Model PG.C03.Model PG.C03.Spec PG.C03.SpecProofs PG.C03.Main.

Definition payload (d : datum) : bytes :=
  match d with
  | DNull => []
  | DFixed b | DShort b | DLong b | DLongC b | DExternal b | DCStr b => b
  end.
(* same storage form and same payload length *)
Definition same_shape (d d' : datum) : Prop :=
  match d, d' with
  | DNull, DNull => True
  | DFixed a, DFixed b | DShort a, DShort b | DLong a, DLong b | DLongC a, DLongC b
  | DExternal a, DExternal b | DCStr a, DCStr b => blen a = blen b
  | _, _ => False
  end.

Fixpoint upd {A} (j : nat) (x : A) (l : list A) : list A :=
  match l with
  | [] => []
  | y :: r => match j with O => x :: r | S k => y :: upd k x r end
  end.

Lemma upd_length {A} j (x : A) l : length (upd j x l) = length l.
Proof. revert j; induction l as [|y r IH]; intros [|k]; cbn; auto. Qed.

Lemma same_shape_null d d' : same_shape d d' -> is_null d' = is_null d.
Proof. destruct d, d'; cbn; intros H; try contradiction; reflexivity. Qed.

Lemma map_upd_same {A B} (f : A -> B) j x l d0 :
  f x = f (nth j l d0) -> (j < length l)%nat -> map f (upd j x l) = map f l.
Proof.
  revert j; induction l as [|y r IH]; intros [|k] E L; cbn in *; try lia.
  - rewrite E. reflexivity.
  - f_equal. apply IH; [exact E|lia].
Qed.

Lemma bitmap_for_upd j d' ds :
  (j < length ds)%nat -> same_shape (nth j ds DNull) d' -> bitmap_for (upd j d' ds) = bitmap_for ds.
Proof.
  intros L S. unfold bitmap_for, has_nulls, bitmap_of.
  rewrite upd_length.
  assert (M : map is_null (upd j d' ds) = map is_null ds).
  { apply (map_upd_same is_null j d' ds DNull); [apply same_shape_null; exact S|exact L]. }
  assert (M2 : map (fun d => negb (is_null d)) (upd j d' ds) = map (fun d => negb (is_null d)) ds).
  { rewrite <- !(map_map is_null negb). rewrite M. reflexivity. }
  rewrite M2.
  assert (E : existsb is_null (upd j d' ds) = existsb is_null ds).
  { clear M2 L S. revert M. generalize (upd j d' ds) as l1. induction ds as [|a r IH]; intros [|b l1] M; cbn in *; try discriminate; auto.
    injection M as M1 M2. rewrite M1. f_equal. apply IH. exact M2. }
  rewrite E. reflexivity.
Qed.

(* the two data areas differ only inside the payload of attribute j *)
Lemma fill_upd : forall cols ds j d' off,
  (j < length ds)%nat -> (j < length cols)%nat -> same_shape (nth j ds DNull) d' ->
  exists x z, fill off cols ds = x ++ payload (nth j ds DNull) ++ z /\
              fill off cols (upd j d' ds) = x ++ payload d' ++ z.
Proof.
  induction cols as [|c cs IH]; intros ds j d' off L1 L2 S; [cbn in L2; lia|].
  destruct ds as [|d ds]; [cbn in L1; lia|].
  destruct j as [|k].
  - cbn [nth upd] in *. destruct d, d'; cbn in S; try contradiction; cbn [fill payload].
    + exists [], (fill off cs ds). split; reflexivity.
    + rewrite S. eexists (zeros _), _. split; reflexivity.
    + rewrite S. eexists [_], _. split; reflexivity.
    + rewrite S. eexists (zeros _ ++ hdr4 _ 0), _. rewrite <- !app_assoc. split; reflexivity.
    + rewrite S. eexists (zeros _ ++ hdr4 _ 2), _. rewrite <- !app_assoc. split; reflexivity.
    + eexists [x01; x12], _. split; reflexivity.
    + rewrite S. eexists [], _. split; reflexivity.
  - cbn [nth upd length] in *.
    assert (L1' : (k < length ds)%nat) by lia. assert (L2' : (k < length cs)%nat) by lia.
    destruct d; cbn [fill].
    + destruct (IH ds k d' off L1' L2' S) as (x & z & E1 & E2). exists x, z. split; assumption.
    + destruct (IH ds k d' (off + pad off (att_align c) + blen bs) L1' L2' S) as (x & z & E1 & E2).
      exists (zeros (pad off (att_align c)) ++ bs ++ x), z. rewrite E1, E2, <- !app_assoc. split; reflexivity.
    + destruct (IH ds k d' (off + 1 + blen bs) L1' L2' S) as (x & z & E1 & E2).
      exists ([hdr1 (blen bs + 1)] ++ bs ++ x), z. rewrite E1, E2, <- !app_assoc. split; reflexivity.
    + destruct (IH ds k d' (off + pad off (att_align c) + 4 + blen bs) L1' L2' S) as (x & z & E1 & E2).
      exists (zeros (pad off (att_align c)) ++ hdr4 (blen bs + 4) 0 ++ bs ++ x), z. rewrite E1, E2, <- !app_assoc. split; reflexivity.
    + destruct (IH ds k d' (off + pad off (att_align c) + 4 + blen bs) L1' L2' S) as (x & z & E1 & E2).
      exists (zeros (pad off (att_align c)) ++ hdr4 (blen bs + 4) 2 ++ bs ++ x), z. rewrite E1, E2, <- !app_assoc. split; reflexivity.
    + destruct (IH ds k d' (off + 18) L1' L2' S) as (x & z & E1 & E2).
      exists ([x01; x12] ++ body ++ x), z. rewrite E1, E2, <- !app_assoc. split; reflexivity.
    + destruct (IH ds k d' (off + blen bs + 1) L1' L2' S) as (x & z & E1 & E2).
      exists (bs ++ [x00] ++ x), z. rewrite E1, E2, <- !app_assoc. split; reflexivity.
Qed.

Section VL.
Variable DecodeType : gslice -> Z -> res gval.
Variable decode : bytes -> Z -> gval.
Hypothesis DT_ok : forall s oid, DecodeType s oid = Ok (decode (vis s) oid).

(* the expectation changes at column j only *)
Lemma expected_row_upd : forall cols ds j d' k,
  k <> j -> nth_error (expected_row decode cols (upd j d' ds)) k = nth_error (expected_row decode cols ds) k.
Proof.
  induction cols as [|c cs IH]; intros ds j d' k N; [reflexivity|].
  destruct ds as [|d ds]; [destruct j; reflexivity|].
  destruct j as [|j']; destruct k as [|k']; cbn [upd expected_row nth_error]; try reflexivity; try congruence.
  apply IH. congruence.
Qed.

Theorem value_damage_local : forall cols ds j d' t t',
  fits_prefix cols ds -> fits_prefix cols (upd j d' ds) -> nums_ok cols 0 -> cols <> [] ->
  (j < length ds)%nat -> (j < length cols)%nat -> same_shape (nth j ds DNull) d' ->
  vis (t_data t) = fill 0 cols ds -> option_map vis (t_bitmap t) = bitmap_for ds ->
  vis (t_data t') = fill 0 cols (upd j d' ds) -> option_map vis (t_bitmap t') = option_map vis (t_bitmap t) ->
  (exists x z, vis (t_data t) = x ++ payload (nth j ds DNull) ++ z /\ vis (t_data t') = x ++ payload d' ++ z) /\
  exists r r', DecodeTuple DecodeType (Some t) cols = Ok (Some r) /\
               DecodeTuple DecodeType (Some t') cols = Ok (Some r') /\
               length r = length cols /\ length r' = length cols /\
               forall k, k <> j -> nth_error r' k = nth_error r k.
Proof.
  intros cols ds j d' t t' F F' N NE L1 L2 S D B D' B'.
  split.
  - rewrite D, D'. apply fill_upd; assumption.
  - exists (expected_row decode cols ds), (expected_row decode cols (upd j d' ds)).
    split; [apply (decode_tuple_ok DecodeType decode DT_ok); assumption|].
    split; [apply (decode_tuple_ok DecodeType decode DT_ok); try assumption; rewrite B', B; symmetry; apply bitmap_for_upd; assumption|].
    assert (EL : forall ds0, length (expected_row decode cols ds0) = length cols).
    { clear. induction cols as [|c cs IH]; intros [|d ds0]; cbn; auto. }
    split; [apply EL|]. split; [apply EL|].
    intros k Hk. apply expected_row_upd. exact Hk.
Qed.
End VL.

(* non-vacuity: int4, text (short header, 3 bytes), int8; the text payload "abc" is overwritten by "xyz" *)
Definition vl_cols : list Column :=
  [ {| c_name := [x61]; c_typid := 23; c_len := 4; c_num := 1; c_align := 105 |};
    {| c_name := [x62]; c_typid := 25; c_len := -1; c_num := 2; c_align := 105 |};
    {| c_name := [x63]; c_typid := 20; c_len := 8; c_num := 3; c_align := 100 |} ].
Definition vl_ds : list datum :=
  [ DFixed [x01; x02; x03; x04]; DShort [x61; x62; x63]; DFixed [x11; x12; x13; x14; x15; x16; x17; x18] ].

Ltac vfit :=
  unfold fits; split; [unfold wf_align, att_align; cbn; lia
                      | split; [unfold align_known, fallback_ok_oids; cbn; lia
                               | cbn; repeat split; try lia; repeat constructor; cbn; lia]].
Example vl_example :
  fits_prefix vl_cols vl_ds /\ fits_prefix vl_cols (upd 1 (DShort [x78; x79; x7a]) vl_ds) /\ nums_ok vl_cols 0 /\
  same_shape (nth 1 vl_ds DNull) (DShort [x78; x79; x7a]).
Proof.
  split; [|split; [|split]].
  - unfold vl_cols, vl_ds. repeat (apply fp_cons; [vfit|]). apply fp_nil.
  - unfold vl_cols, vl_ds. cbn [upd]. repeat (apply fp_cons; [vfit|]). apply fp_nil.
  - cbn. repeat split; auto.
  - reflexivity.
Qed.
