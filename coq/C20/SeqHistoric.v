(* The code as it was before the fix: commits (pgdump/sequence.go at the base of branch verif-C20),
   kept so that the four repaired defects stay machine-checked: each has a concrete witness on which the
   old code gives a result different from what the property demands. Not extracted, not used elsewhere. *)
Require Import PG.Base.Bytes PG.Base.GoSlice PG.C20.SeqModel PG.C20.SeqSpec PG.C20.SeqProofs PG.C20.ListingProofs.

(* old parseSequenceTuple: no size test; the layout is guessed from the first four bytes *)
Definition parseSequenceTuple_old (d : gslice) : res (serr + seqdata) :=
  if len d <? 8 then Ok (inl ESeqDataShort) else
  fv <- u32 d 0 ;;
  if (fv =? 20) || (fv =? 21) || (fv =? 23) then
    if len d <? 4 + 48 then Ok (inl ESeqModernShort) else
    st <- i64 d 4 ;; inc <- i64 d 12 ;; mx <- i64 d 20 ;; mn <- i64 d 28 ;; ca <- i64 d 36 ;;
    cy <- nz d 44 ;;
    if len d >=? 48 + 9 then
      lv <- i64 d 48 ;;
      ic <- (if len d >? 56 then nz d 56 else Ok false) ;;
      Ok (inr {| sd_last := lv; sd_start := st; sd_inc := inc; sd_max := mx; sd_min := mn; sd_cache := ca;
                 sd_cycled := cy; sd_called := ic |})
    else
      Ok (inr {| sd_last := 0; sd_start := st; sd_inc := inc; sd_max := mx; sd_min := mn; sd_cache := ca;
                 sd_cycled := cy; sd_called := false |})
  else
    if len d <? 57 then
      lv <- (if len d >=? 8 then i64 d 0 else Ok 0) ;;
      Ok (inr {| sd_last := lv; sd_start := 0; sd_inc := 0; sd_max := 0; sd_min := 0; sd_cache := 0;
                 sd_cycled := false; sd_called := false |})
    else
      lv <- i64 d 0 ;; st <- i64 d 8 ;; inc <- i64 d 16 ;; mx <- i64 d 24 ;; mn <- i64 d 32 ;; ca <- i64 d 40 ;;
      '(cy, off) <- (if len d >? 56 then c <- nz d 56 ;; Ok (c, 57) else Ok (false, 56)) ;;
      ic <- (if len d >? off then nz d off else Ok false) ;;
      Ok (inr {| sd_last := lv; sd_start := st; sd_inc := inc; sd_max := mx; sd_min := mn; sd_cache := ca;
                 sd_cycled := cy; sd_called := ic |}).

(* old ParseSequenceFile: 16-bit magic, special < PageSize-2, no second t_hoff test *)
Definition ParseSequenceFile_old (s : gslice) : res (serr + seqdata) :=
  if len s <? PageSize then Ok (inl ESeqFileSmall) else
  special <- u16 s 16 ;;
  if (special =? 0) || (special >=? PageSize - 2) then Ok (inl ESeqBadSpecial) else
  magic <- u16 s special ;;
  if negb (magic =? SequenceMagic) then Ok (inl ESeqNotSequence) else
  lower <- u16 s 12 ;;
  if lower <? headerSize + itemIDSize then Ok (inl ESeqNoItems) else
  itemPtr <- u32 s headerSize ;;
  let itemOffset := itemPtr mod 32768 in
  let itemLen := (itemPtr / 131072) mod 32768 in
  if (itemOffset =? 0) || (itemLen =? 0) || (itemOffset + itemLen >? PageSize)
  then Ok (inl ESeqBadItem) else
  tupleData <- slice s itemOffset (itemOffset + itemLen) ;;
  if len tupleData <? 23 then Ok (inl ESeqTupleSmall) else
  h <- idx tupleData 22 ;;
  let hoff := if (h <? 23) || (h >? len tupleData) then 24 else h in
  seqData <- slice_from tupleData hoff ;;
  parseSequenceTuple_old seqData.

Definition IsSequenceFile_old (s : gslice) : res bool :=
  if len s <? PageSize then Ok false else
  special <- u16 s 16 ;;
  if (special =? 0) || (special >=? PageSize - 2) then Ok false else
  magic <- u16 s special ;;
  Ok (magic =? SequenceMagic).

(* D61a: is_called is never read in the PG10+ path *)
Lemma iscalled_refuted :
  exists q, wf_seq q /\
    ParseSequenceFile_old (exact (enc_seq q)) <> Ok (inr (pg10_data q)) /\
    ParseSequenceFile_old (exact (enc_seq q)) = Ok (inr (pg10_data (ex_seq 5 false))).
Proof.
  exists (ex_seq 5 true). split; [apply ex_seq_wf; unfold int64_ok; lia|].
  assert (E : ParseSequenceFile_old (exact (enc_seq (ex_seq 5 true))) = Ok (inr (pg10_data (ex_seq 5 false))))
    by (vm_compute; reflexivity).
  rewrite E. split; [discriminate|reflexivity].
Qed.

(* D61b: last_value = 20 (low 32 bits look like the oid of int8) is rejected outright, so FindSequences
   drops the sequence *)
Lemma typeoid_refuted :
  exists q, wf_seq q /\ ParseSequenceFile_old (exact (enc_seq q)) = Ok (inl ESeqModernShort).
Proof.
  exists (ex_seq 20 true). split; [apply ex_seq_wf; unfold int64_ok; lia|]. vm_compute. reflexivity.
Qed.
Lemma typeoid_refuted_wide :
  exists q, wf_seq q /\ ParseSequenceFile_old (exact (enc_seq q)) = Ok (inl ESeqModernShort).
Proof.
  exists (ex_seq (7 * 2 ^ 32 + 23) false). split; [apply ex_seq_wf; unfold int64_ok; lia|]. vm_compute. reflexivity.
Qed.

(* the magic word compared on 16 bits only: a page whose special word is 0x00011717 was accepted *)
Definition page_magic_11717 : bytes :=
  zeros 16 ++ le_enc 2 8184 ++ zeros (8184 - 18) ++ le_enc 4 71447 ++ zeros 4.
Lemma magic16_refuted :
  ~ carries_seq_magic page_magic_11717 /\ IsSequenceFile_old (exact page_magic_11717) = Ok true /\
  IsSequenceFile (exact page_magic_11717) = Ok false.
Proof.
  split; [|split; vm_compute; reflexivity].
  unfold carries_seq_magic. intros (_ & H). cbv zeta in H. destruct H as (_ & _ & H).
  vm_compute in H. discriminate.
Qed.

(* a 23-byte item whose t_hoff byte is invalid made the old code slice [24:23]: run-time panic *)
Definition page_hoff_panic : bytes :=
  zeros 12 ++ le_enc 2 28 ++ le_enc 2 8100 ++ le_enc 2 8184 ++ zeros 6 ++
  le_enc 4 (8100 + 32768 + 131072 * 23) ++ zeros (8184 - 28) ++ le_enc 4 5911 ++ zeros 4.
Lemma hoff_panic_refuted :
  ParseSequenceFile_old (exact page_hoff_panic) = Panic /\
  ParseSequenceFile (exact page_hoff_panic) = Ok (inl ESeqTupleSmall).
Proof. split; vm_compute; reflexivity. Qed.

(* D40: the old FindSequences returned the entries in the order in which the Go map was visited *)
Definition FindSequences_old (fs : fsview) (dbName : bytes) : res (ferr + list seqentry) :=
  match fs_dbs fs with
  | None => Ok (inl EReadFailed)
  | Some dbs =>
    let dbOID := find_db dbs dbName in
    if dbOID =? 0 then Ok (inl EDbNotFound) else
    match fs_class fs dbOID with
    | None => Ok (inl EReadFailed)
    | Some tables => seqs <- collect fs dbOID tables ;; Ok (inr seqs)
    end
  end.
Definition two_entries : list (Z * tableinfo) :=
  [ (16400, {| ti_oid := 16400; ti_filenode := 16400; ti_name := ["a"]%byte; ti_kind := kindS |});
    (16390, {| ti_oid := 16390; ti_filenode := 16390; ti_name := ["b"]%byte; ti_kind := kindS |}) ].
Definition fs_order (es : list (Z * tableinfo)) : fsview :=
  {| fs_dbs := Some [(5, ["d"]%byte)]; fs_class := fun _ => Some es;
     fs_file := fun _ fn => Some (enc_seq (ex_seq fn true)) |}.
Lemma listing_order_refuted :
  FindSequences_old (fs_order two_entries) ["d"]%byte <> FindSequences_old (fs_order (rev two_entries)) ["d"]%byte /\
  FindSequences (fs_order two_entries) ["d"]%byte = FindSequences (fs_order (rev two_entries)) ["d"]%byte.
Proof.
  split.
  - assert (E : forall es, FindSequences_old (fs_order es) ["d"]%byte =
                           (seqs <- collect (fs_order es) 5 es ;; Ok (inr seqs))) by reflexivity.
    rewrite !E. vm_compute. discriminate.
  - vm_compute. reflexivity.
Qed.
