(* Model of pgdump/relmap.go: ParseRelMapFile, GetFilenode, GetOID. *)
Require Import PG.Base.Bytes PG.Base.GoSlice.

Inductive perr := ETooSmall | EBadMagic | EBadCount.
Record relmap := { rm_magic : Z; rm_num : Z; rm_mappings : list (Z * Z); rm_crc : Z }.

Definition RelMapMagic : Z := 5842711. (* 0x592717 *)
Definition RelMapMaxMappings : Z := 62.

(* for i := 0; i < n; i++ { if offset+8 > len(data) {break}; read two u32; offset += 8 } *)
Fixpoint read_maps (n : nat) (s : gslice) (off : Z) : res (list (Z * Z)) :=
  match n with
  | O => Ok []
  | S k => if off + 8 >? len s then Ok [] else
           o <- u32 s off ;; f <- u32 s (off + 4) ;; r <- read_maps k s (off + 8) ;; Ok ((o, f) :: r)
  end.

Definition ParseRelMapFile (s : gslice) : res (perr + relmap) :=
  if len s <? 512 then Ok (inl ETooSmall) else
  m <- u32 s 0 ;;
  if negb (m =? RelMapMagic) then Ok (inl EBadMagic) else
  c <- u32 s 4 ;;
  let n := sint32 c in
  if (n <? 0) || (n >? RelMapMaxMappings) then Ok (inl EBadCount) else
  ms <- read_maps (Z.to_nat n) s 8 ;;
  cr <- (if len s >=? 8 + RelMapMaxMappings * 8 + 4 then u32 s (8 + RelMapMaxMappings * 8) else Ok 0) ;;
  Ok (inr {| rm_magic := m; rm_num := n; rm_mappings := ms; rm_crc := cr |}).

Fixpoint GetFilenode (ms : list (Z * Z)) (oid : Z) : Z :=
  match ms with [] => 0 | (o, f) :: r => if o =? oid then f else GetFilenode r oid end.
Fixpoint GetOID (ms : list (Z * Z)) (fn : Z) : Z :=
  match ms with [] => 0 | (o, f) :: r => if f =? fn then o else GetOID r fn end.
