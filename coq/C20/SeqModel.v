(* Model of pgdump/sequence.go (worktree state after the four fix: commits):
   ParseSequenceFile, parseSequenceTuple, IsSequenceFile, FindSequences, ScanAllSequences.
   One definition per Go function, same name; every index/slice/read is partial (GoSlice.v). *)
Require Import PG.Base.Bytes PG.Base.GoSlice.

Definition PageSize : Z := 8192.        (* page.go:4 *)
Definition headerSize : Z := 24.        (* page.go:5 *)
Definition itemIDSize : Z := 4.         (* page.go:6 *)
Definition SequenceMagic : Z := 5911.   (* 0x1717, sequence.go:15 *)

(* the fmt.Errorf sites, in source order *)
Inductive serr :=
| ESeqFileSmall      (* sequence.go:36  "sequence file too small" *)
| ESeqBadSpecial     (* sequence.go:43  "invalid special pointer" *)
| ESeqNotSequence    (* sequence.go:49  "not a sequence file" *)
| ESeqNoItems        (* sequence.go:56  "no items on page" *)
| ESeqBadItem        (* sequence.go:65  "invalid item pointer" *)
| ESeqTupleSmall     (* sequence.go:73 and :84 "tuple too small" *)
| ESeqDataShort      (* sequence.go:104 "sequence data too short" *)
| ESeqModernShort.   (* sequence.go:133 "sequence data too short for modern format" *)

(* SequenceData without Name/OID/Filenode (set by FindSequences) *)
Record seqdata := { sd_last : Z; sd_start : Z; sd_inc : Z; sd_max : Z; sd_min : Z; sd_cache : Z;
                    sd_cycled : bool; sd_called : bool }.

(* data[i] != 0 *)
Definition nz (s : gslice) (i : Z) : res bool := b <- idx s i ;; Ok (negb (b =? 0)).

(* sequence.go:97-209 *)
Definition parseSequenceTuple (d : gslice) : res (serr + seqdata) :=
  if len d <? 8 then Ok (inl ESeqDataShort) else                                   (* :103 *)
  if len d <? 52 then                                                              (* :111 PG10+ runtime layout *)
    lv <- i64 d 0 ;;                                                               (* :112 data[0:8], len >= 8 *)
    ic <- (if len d >=? 17 then nz d 16 else Ok false) ;;                          (* :113-115 *)
    Ok (inr {| sd_last := lv; sd_start := 0; sd_inc := 0; sd_max := 0; sd_min := 0; sd_cache := 0;
               sd_cycled := false; sd_called := ic |})
  else
  fv <- u32 d 0 ;;                                                                 (* :126 data[0:4] *)
  if (fv =? 20) || (fv =? 21) || (fv =? 23) then                                   (* :128 *)
    if len d <? 4 + 48 then Ok (inl ESeqModernShort) else                          (* :132 *)
    st <- i64 d 4 ;; inc <- i64 d 12 ;; mx <- i64 d 20 ;; mn <- i64 d 28 ;; ca <- i64 d 36 ;;
    cy <- nz d 44 ;;                                                               (* :151 *)
    (* offset = (45 + 7) &^ 7 = 48 *)
    if len d >=? 48 + 9 then                                                       (* :157 *)
      lv <- i64 d 48 ;;
      ic <- (if len d >? 56 then nz d 56 else Ok false) ;;                         (* :161 *)
      Ok (inr {| sd_last := lv; sd_start := st; sd_inc := inc; sd_max := mx; sd_min := mn; sd_cache := ca;
                 sd_cycled := cy; sd_called := ic |})
    else
      Ok (inr {| sd_last := 0; sd_start := st; sd_inc := inc; sd_max := mx; sd_min := mn; sd_cache := ca;
                 sd_cycled := cy; sd_called := false |})
  else
    if len d <? 57 then                                                            (* :170 *)
      lv <- (if len d >=? 8 then i64 d 0 else Ok 0) ;;                             (* :172 *)
      Ok (inr {| sd_last := lv; sd_start := 0; sd_inc := 0; sd_max := 0; sd_min := 0; sd_cache := 0;
                 sd_cycled := false; sd_called := false |})
    else
      lv <- i64 d 0 ;; st <- i64 d 8 ;; inc <- i64 d 16 ;; mx <- i64 d 24 ;; mn <- i64 d 32 ;; ca <- i64 d 40 ;;
      (* offset = 56 after skipping log_cnt *)
      '(cy, off) <- (if len d >? 56 then c <- nz d 56 ;; Ok (c, 57) else Ok (false, 56)) ;;   (* :199-202 *)
      ic <- (if len d >? off then nz d off else Ok false) ;;                       (* :203-205 *)
      Ok (inr {| sd_last := lv; sd_start := st; sd_inc := inc; sd_max := mx; sd_min := mn; sd_cache := ca;
                 sd_cycled := cy; sd_called := ic |}).

(* sequence.go:34-94 *)
Definition ParseSequenceFile (s : gslice) : res (serr + seqdata) :=
  if len s <? PageSize then Ok (inl ESeqFileSmall) else                            (* :35 *)
  special <- u16 s 16 ;;                                                           (* :41 data[16:18] *)
  if (special =? 0) || (special >? PageSize - 4) then Ok (inl ESeqBadSpecial) else (* :42 *)
  magic <- u32 s special ;;                                                        (* :47 data[special:] *)
  if negb (magic =? SequenceMagic) then Ok (inl ESeqNotSequence) else              (* :48 *)
  lower <- u16 s 12 ;;                                                             (* :54 *)
  if lower <? headerSize + itemIDSize then Ok (inl ESeqNoItems) else               (* :55 *)
  itemPtr <- u32 s headerSize ;;                                                   (* :60 *)
  let itemOffset := itemPtr mod 32768 in                                           (* :61  & 0x7FFF *)
  let itemLen := (itemPtr / 131072) mod 32768 in                                   (* :62  (>>17) & 0x7FFF *)
  if (itemOffset =? 0) || (itemLen =? 0) || (itemOffset + itemLen >? PageSize)
  then Ok (inl ESeqBadItem) else                                                   (* :64 *)
  tupleData <- slice s itemOffset (itemOffset + itemLen) ;;                        (* :69 *)
  if len tupleData <? 23 then Ok (inl ESeqTupleSmall) else                         (* :72 *)
  h <- idx tupleData 22 ;;                                                         (* :79 *)
  let hoff := if (h <? 23) || (h >? len tupleData) then 24 else h in               (* :80-82 *)
  if hoff >? len tupleData then Ok (inl ESeqTupleSmall) else                       (* :83 *)
  seqData <- slice_from tupleData hoff ;;                                          (* :88 *)
  parseSequenceTuple seqData.                                                      (* :90 *)

(* sequence.go:212-224 *)
Definition IsSequenceFile (s : gslice) : res bool :=
  if len s <? PageSize then Ok false else
  special <- u16 s 16 ;;
  if (special =? 0) || (special >? PageSize - 4) then Ok false else
  magic <- u32 s special ;;
  Ok (magic =? SequenceMagic).

(* ------------------------------------------------------------------------------------------ *)
(* FindSequences / ScanAllSequences.  The file system is data:
     fs_dbs    what ParsePGDatabase(ReadFile(global/1262)) returns (None: ReadFile failed);
     fs_class  for a database oid, the (filenode, TableInfo) pairs of ParsePGClass(ReadFile(base/<db>/1259))
               in the order in which THIS run's `range tables` visits the Go map (an arbitrary
               permutation, never chosen by the model);
     fs_file   ReadFile(base/<db>/<filenode>).
   ParsePGDatabase / ParsePGClass themselves (heap scan, catalog rows) belong to C01/C02. *)
Record tableinfo := { ti_oid : Z; ti_filenode : Z; ti_name : bytes; ti_kind : bytes }.
Record seqentry := { se_name : bytes; se_oid : Z; se_filenode : Z; se_data : seqdata }.
Record fsview := { fs_dbs : option (list (Z * bytes));
                   fs_class : Z -> option (list (Z * tableinfo));
                   fs_file : Z -> Z -> option bytes }.

Definition beq (a b : bytes) : bool := if list_eq_dec Byte.byte_eq_dec a b then true else false.
Definition kindS : bytes := ["S"]%byte.
Definition templatePrefix : bytes := ["t"; "e"; "m"; "p"; "l"; "a"; "t"; "e"]%byte.
(* strings.HasPrefix *)
Fixpoint has_prefix (s p : bytes) : bool :=
  match p, s with
  | [], _ => true
  | _ :: _, [] => false
  | y :: p', x :: s' => if Byte.byte_eq_dec x y then has_prefix s' p' else false
  end.

(* sequence.go:235-240: first database with that name, 0 if none *)
Fixpoint find_db (dbs : list (Z * bytes)) (name : bytes) : Z :=
  match dbs with [] => 0 | (oid, n) :: r => if beq n name then oid else find_db r name end.

(* the body of  for filenode, info := range tables  (sequence.go:256-278) *)
Fixpoint collect (fs : fsview) (db : Z) (tables : list (Z * tableinfo)) : res (list seqentry) :=
  match tables with
  | [] => Ok []
  | (fn, info) :: r =>
    if negb (beq (ti_kind info) kindS) then collect fs db r else                   (* :258 *)
    match fs_file fs db fn with
    | None => collect fs db r                                                      (* :265 *)
    | Some data =>
      p <- ParseSequenceFile (exact data) ;;                                       (* :269 *)
      match p with
      | inl _ => collect fs db r                                                   (* :270 *)
      | inr sd => rest <- collect fs db r ;;
                  Ok ({| se_name := ti_name info; se_oid := ti_oid info; se_filenode := fn; se_data := sd |} :: rest)
      end
    end
  end.

(* sort.Slice(sequences, less = Filenode <) on distinct keys (sequence.go:281): insertion sort *)
Fixpoint insert_fn (a : seqentry) (l : list seqentry) : list seqentry :=
  match l with
  | [] => [a]
  | x :: r => if se_filenode a <=? se_filenode x then a :: x :: r else x :: insert_fn a r
  end.
Fixpoint sort_fn (l : list seqentry) : list seqentry :=
  match l with [] => [] | a :: r => insert_fn a (sort_fn r) end.

Inductive ferr := EReadFailed | EDbNotFound.

(* sequence.go:227-286 *)
Definition FindSequences (fs : fsview) (dbName : bytes) : res (ferr + list seqentry) :=
  match fs_dbs fs with
  | None => Ok (inl EReadFailed)                                                   (* :230 *)
  | Some dbs =>
    let dbOID := find_db dbs dbName in
    if dbOID =? 0 then Ok (inl EDbNotFound) else                                   (* :241 *)
    match fs_class fs dbOID with
    | None => Ok (inl EReadFailed)                                                 (* :249 *)
    | Some tables => seqs <- collect fs dbOID tables ;; Ok (inr (sort_fn seqs))
    end
  end.

(* sequence.go:289-313; the result map is an association list in insertion order (last write wins) *)
Fixpoint scan_dbs (fs : fsview) (dbs : list (Z * bytes)) : res (list (bytes * list seqentry)) :=
  match dbs with
  | [] => Ok []
  | (_, name) :: r =>
    if has_prefix name templatePrefix then scan_dbs fs r else                      (* :298 *)
    f <- FindSequences fs name ;;                                                  (* :302 *)
    rest <- scan_dbs fs r ;;
    match f with
    | inl _ => Ok rest                                                             (* :303 *)
    | inr [] => Ok rest                                                            (* :307 len(seqs) > 0 *)
    | inr (x :: l) => Ok ((name, x :: l) :: rest)
    end
  end.
Definition ScanAllSequences (fs : fsview) : res (option (list (bytes * list seqentry))) :=
  match fs_dbs fs with
  | None => Ok None                                                                (* :293 *)
  | Some dbs => r <- scan_dbs fs dbs ;; Ok (Some r)
  end.
