(* Spec: PostgreSQL's RelMapFile image (relmapper.c):
   int32 magic = 0x592717; int32 num_mappings; RelMapping mappings[62] (Oid mapoid; Oid mapfilenode);
   pg_crc32c crc; padding to 512 bytes. *)
Require Import PG.Base.Bytes.

Record relmap_img := { sp_magic : Z; sp_count : Z; sp_maps : list (Z * Z); sp_slack : bytes; sp_crc : Z; sp_pad : bytes }.
(* sp_maps: the sp_count used entries; sp_slack: the bytes of the unused entries (any content);
   sp_pad: everything after the crc (>= 4 bytes so that the file has >= 512). *)

Definition enc_map (p : Z * Z) : bytes := le_enc 4 (fst p) ++ le_enc 4 (snd p).
Definition enc_maps (ms : list (Z * Z)) : bytes := concat (map enc_map ms).
Definition enc_relmap (r : relmap_img) : bytes :=
  le_enc 4 (sp_magic r) ++ le_enc 4 (wrap 32 (sp_count r)) ++ enc_maps (sp_maps r) ++ sp_slack r ++ le_enc 4 (sp_crc r) ++ sp_pad r.

Definition u32_ok (z : Z) : Prop := 0 <= z < 2 ^ 32.
Definition wf_maps (ms : list (Z * Z)) : Prop := Forall (fun p => u32_ok (fst p) /\ u32_ok (snd p)) ms.
(* A well-formed image: count = number of used mappings, 0..62; slack fills up to 62 entries. *)
Definition wf_relmap (r : relmap_img) : Prop :=
  wf_maps (sp_maps r) /\ sp_count r = Z.of_nat (length (sp_maps r)) /\ sp_count r <= 62 /\
  blen (sp_slack r) = 8 * (62 - sp_count r) /\ u32_ok (sp_crc r) /\ u32_ok (sp_magic r) /\ 4 <= blen (sp_pad r).

(* first stored match or 0 *)
Definition first_filenode (ms : list (Z * Z)) (oid : Z) : Z :=
  match find (fun p => fst p =? oid) ms with Some p => snd p | None => 0 end.
Definition first_oid (ms : list (Z * Z)) (fn : Z) : Z :=
  match find (fun p => snd p =? fn) ms with Some p => fst p | None => 0 end.
