(* Model of the file-system plumbing of pgdump/relmap.go: ReadGlobalRelMap, ReadDatabaseRelMap,
   ReadAllRelMaps, GetCatalogName, GetEnhancedMappings.  The file system is data:
     rf_global  ReadFile(global/pg_filenode.map)            (None: ReadFile failed)
     rf_dbs     ParsePGDatabase(ReadFile(global/1262))      (None: ReadFile failed)
     rf_dbmap   ReadFile(base/<oid>/pg_filenode.map) *)
Require Import PG.Base.Bytes PG.Base.GoSlice PG.C20.RelmapModel.

Record rmfs := { rf_global : option bytes; rf_dbs : option (list (Z * bytes)); rf_dbmap : Z -> option bytes }.
Inductive rmpath := PathGlobal | PathDb (oid : Z).     (* <dataDir>/global/… | <dataDir>/base/<oid>/… *)
Record rmfile := { rmf_map : relmap; rmf_global : bool; rmf_path : rmpath }.
Inductive rmerr := ERmRead | ERmParse (e : perr).

(* relmap.go:86-101 *)
Definition ReadGlobalRelMap (fs : rmfs) : res (rmerr + rmfile) :=
  match rf_global fs with
  | None => Ok (inl ERmRead)
  | Some data =>
    p <- ParseRelMapFile (exact data) ;;
    match p with
    | inl e => Ok (inl (ERmParse e))
    | inr rm => Ok (inr {| rmf_map := rm; rmf_global := true; rmf_path := PathGlobal |})
    end
  end.
(* relmap.go:104-119 *)
Definition ReadDatabaseRelMap (fs : rmfs) (dbOID : Z) : res (rmerr + rmfile) :=
  match rf_dbmap fs dbOID with
  | None => Ok (inl ERmRead)
  | Some data =>
    p <- ParseRelMapFile (exact data) ;;
    match p with
    | inl e => Ok (inl (ERmParse e))
    | inr rm => Ok (inr {| rmf_map := rm; rmf_global := false; rmf_path := PathDb dbOID |})
    end
  end.
(* relmap.go:164-170 *)
Fixpoint read_db_maps (fs : rmfs) (dbs : list (Z * bytes)) : res (list rmfile) :=
  match dbs with
  | [] => Ok []
  | (oid, _) :: r =>
    m <- ReadDatabaseRelMap fs oid ;;
    rest <- read_db_maps fs r ;;
    match m with inl _ => Ok rest | inr f => Ok (f :: rest) end
  end.
(* relmap.go:148-173 *)
Definition ReadAllRelMaps (fs : rmfs) : res (rmerr + (rmfile * list rmfile)) :=
  g <- ReadGlobalRelMap fs ;;
  match g with
  | inl e => Ok (inl e)                                         (* :153 *)
  | inr gm =>
    match rf_dbs fs with
    | None => Ok (inr (gm, []))                                 (* :161 *)
    | Some dbs => l <- read_db_maps fs dbs ;; Ok (inr (gm, l))
    end
  end.

(* relmap.go:176-200: the tool's table of well-known catalog oids *)
Definition GetCatalogName (oid : Z) : bytes :=
  if oid =? 1247 then ["p"; "g"; "_"; "t"; "y"; "p"; "e"]%byte else
  if oid =? 1249 then ["p"; "g"; "_"; "a"; "t"; "t"; "r"; "i"; "b"; "u"; "t"; "e"]%byte else
  if oid =? 1255 then ["p"; "g"; "_"; "p"; "r"; "o"; "c"]%byte else
  if oid =? 1259 then ["p"; "g"; "_"; "c"; "l"; "a"; "s"; "s"]%byte else
  if oid =? 1260 then ["p"; "g"; "_"; "a"; "u"; "t"; "h"; "i"; "d"]%byte else
  if oid =? 1261 then ["p"; "g"; "_"; "a"; "u"; "t"; "h"; "_"; "m"; "e"; "m"; "b"; "e"; "r"; "s"]%byte else
  if oid =? 1262 then ["p"; "g"; "_"; "d"; "a"; "t"; "a"; "b"; "a"; "s"; "e"]%byte else
  if oid =? 2396 then ["p"; "g"; "_"; "s"; "h"; "d"; "e"; "p"; "e"; "n"; "d"]%byte else
  if oid =? 2964 then ["p"; "g"; "_"; "d"; "b"; "_"; "r"; "o"; "l"; "e"; "_"; "s"; "e"; "t"; "t"; "i"; "n"; "g"]%byte else
  if oid =? 3592 then ["p"; "g"; "_"; "s"; "h"; "s"; "e"; "c"; "l"; "a"; "b"; "e"; "l"]%byte else
  if oid =? 6000 then ["p"; "g"; "_"; "r"; "e"; "p"; "l"; "i"; "c"; "a"; "t"; "i"; "o"; "n"; "_"; "o"; "r"; "i"; "g"; "i"; "n"]%byte else
  if oid =? 6100 then ["p"; "g"; "_"; "s"; "u"; "b"; "s"; "c"; "r"; "i"; "p"; "t"; "i"; "o"; "n"]%byte else
  if oid =? 1213 then ["p"; "g"; "_"; "t"; "a"; "b"; "l"; "e"; "s"; "p"; "a"; "c"; "e"]%byte else
  if oid =? 2847 then ["p"; "g"; "_"; "p"; "l"; "t"; "e"; "m"; "p"; "l"; "a"; "t"; "e"]%byte else
  if oid =? 3602 then ["p"; "g"; "_"; "t"; "r"; "a"; "n"; "s"; "f"; "o"; "r"; "m"]%byte else [].
(* relmap.go:210-220 *)
Definition GetEnhancedMappings (ms : list (Z * Z)) : list (Z * Z * bytes) :=
  map (fun m => (fst m, snd m, GetCatalogName (fst m))) ms.
