Require Import PG.Base.Bytes PG.Base.GoSlice PG.C20.SeqModel PG.C20.SeqSpec.

(* ---------- lengths ---------- *)
Lemma enc_seqdata_len q : blen (enc_seqdata q) = 17.
Proof. unfold enc_seqdata. bl. reflexivity. Qed.
#[export] Hint Rewrite enc_seqdata_len : blen.
Lemma enc_seqtuple_len q : blen (enc_seqtuple q) = blen (sq_thdr q) + 1 + blen (sq_hpad q) + 17.
Proof. unfold enc_seqtuple. bl. lia. Qed.
#[export] Hint Rewrite enc_seqtuple_len : blen.

Lemma bool_byte_z b : b2z (bool_byte b) = if b then 1 else 0.
Proof. destruct b; reflexivity. Qed.

Lemma sint64_wrap z : int64_ok z -> sint64 (wrap 64 z) = z.
Proof. unfold int64_ok, sint64. intros. apply sint_wrap; lia. Qed.
Lemma wrap64_range z : 0 <= wrap 64 z < 2 ^ (8 * Z.of_nat 8).
Proof. unfold wrap. change (2 ^ (8 * Z.of_nat 8)) with (2 ^ 64). apply Z.mod_pos_bound. lia. Qed.

(* ---------- the 17-byte PG10+ tuple body ---------- *)
Lemma parse_tuple_pg10 d q :
  vis d = enc_seqdata q -> int64_ok (sq_last q) ->
  parseSequenceTuple d =
  Ok (inr {| sd_last := sq_last q; sd_start := 0; sd_inc := 0; sd_max := 0; sd_min := 0; sd_cache := 0;
             sd_cycled := false; sd_called := sq_called q |}).
Proof.
  intros Hv Hl.
  assert (L : len d = 17) by (unfold len; rewrite Hv; bl; reflexivity).
  unfold parseSequenceTuple. rewrite L.
  change (17 <? 8) with false. change (17 <? 52) with true. change (17 >=? 17) with true. cbv iota.
  unfold i64, u64. rewrite (uN_sub 8 d 0 (wrap 64 (sq_last q))); try lia.
  2:{ rewrite Hv. unfold enc_seqdata. ssub. }
  2:{ apply wrap64_range. }
  cbn [bind]. rewrite sint64_wrap by assumption.
  unfold nz. rewrite idx_ok by lia. cbn [bind].
  rewrite byte_at_le_dec by (unfold len in L; lia).
  replace (sub (vis d) 16 (16 + 1)) with [bool_byte (sq_called q)].
  2:{ rewrite Hv. unfold enc_seqdata. symmetry. ssub. }
  cbn [le_dec]. rewrite bool_byte_z.
  destruct (sq_called q); reflexivity.
Qed.

(* ---------- the whole file ---------- *)
Lemma enc_seq_len q : wf_seq q -> blen (enc_seq q) = 8192 + blen (sq_more q).
Proof.
  intros (Hl & Hc & Hh & Hlo & Hu & Hs & Hsp & Hf & H0 & H18 & Hfr & Hth & Hpad & Hsl & Hsr).
  unfold enc_seq. bl. lia.
Qed.

Lemma parse_sequence_roundtrip q t :
  wf_seq q ->
  ParseSequenceFile {| vis := enc_seq q; tail := t |} =
  Ok (inr {| sd_last := sq_last q; sd_start := 0; sd_inc := 0; sd_max := 0; sd_min := 0; sd_cache := 0;
             sd_cycled := false; sd_called := sq_called q |}).
Proof.
  intros W. pose proof (enc_seq_len q W) as EL.
  destruct W as (Hl & Hc & Hh & Hlo & Hu & Hs & Hsp & Hf & H0 & H18 & Hfr & Hth & Hpad & Hsl & Hsr).
  set (s := {| vis := enc_seq q; tail := t |}).
  assert (L : len s = 8192 + blen (sq_more q)) by exact EL.
  pose proof (blen_nonneg (sq_more q)) as Hm.
  unfold ParseSequenceFile, PageSize, headerSize, itemIDSize.
  destruct (len s <? 8192) eqn:E; [lia|]. clear E.
  (* pd_special *)
  unfold u16. rewrite (uN_sub 2 s 16 (sq_special q)); try (cbn; lia).
  2:{ cbn [vis s]. unfold enc_seq. ssub. }
  cbn [bind].
  destruct ((sq_special q =? 0) || (sq_special q >? 8192 - 4)) eqn:E; [lia|]. clear E.
  (* magic *)
  unfold u32. rewrite (uN_sub 4 s (sq_special q) SEQ_MAGIC); try (unfold SEQ_MAGIC; cbn; lia).
  2:{ cbn [vis s]. unfold enc_seq. ssub. }
  cbn [bind]. change (SEQ_MAGIC =? SequenceMagic) with true. cbn [negb].
  (* pd_lower *)
  rewrite (uN_sub 2 s 12 (sq_lower q)); try (cbn; lia).
  2:{ cbn [vis s]. unfold enc_seq. ssub. }
  cbn [bind].
  destruct (sq_lower q <? 24 + 4) eqn:E; [lia|]. clear E.
  (* line pointer *)
  assert (LPr : 0 <= seq_lp q < 2 ^ 32) by (unfold seq_lp; lia).
  rewrite (uN_sub 4 s 24 (seq_lp q)); try (cbn; lia).
  2:{ cbn [vis s]. unfold enc_seq. ssub. }
  cbn [bind].
  assert (IO : seq_lp q mod 32768 = sq_upper q) by (unfold seq_lp; lia).
  assert (IL : (seq_lp q / 131072) mod 32768 = sq_hoff q + 17) by (unfold seq_lp; lia).
  rewrite IO, IL.
  destruct ((sq_upper q =? 0) || (sq_hoff q + 17 =? 0) || (sq_upper q + (sq_hoff q + 17) >? 8192)) eqn:E; [lia|]. clear E.
  (* the tuple slice *)
  destruct (slice_ok s (sq_upper q) (sq_upper q + (sq_hoff q + 17))) as [td Htd]; try lia.
  { pose proof (len_le_cap s). lia. }
  rewrite Htd. cbn [bind].
  pose proof (slice_len _ _ _ _ Htd) as Ltd.
  pose proof (slice_vis_within _ _ _ _ Htd ltac:(lia)) as Vtd.
  assert (Vt : vis td = enc_seqtuple q).
  { rewrite Vtd. cbn [vis s]. unfold enc_seq. ssub. }
  destruct (len td <? 23) eqn:E; [lia|]. clear E.
  rewrite idx_ok by lia. cbn [bind].
  assert (Hb : byte_at (vis td) 22 = sq_hoff q).
  { rewrite byte_at_le_dec by (unfold len in Ltd; lia).
    replace (sub (vis td) 22 (22 + 1)) with [z2b (sq_hoff q)].
    2:{ rewrite Vt. unfold enc_seqtuple. symmetry. ssub. }
    cbn [le_dec]. rewrite b2z_z2b. lia. }
  rewrite Hb.
  destruct ((sq_hoff q <? 23) || (sq_hoff q >? len td)) eqn:E; [lia|]. clear E.
  destruct (sq_hoff q >? len td) eqn:E; [lia|]. clear E.
  unfold slice_from.
  destruct ((0 <=? sq_hoff q) && (sq_hoff q <=? len td)) eqn:E; [|lia]. clear E.
  cbn [bind].
  apply parse_tuple_pg10; [|assumption].
  cbn [vis]. rewrite Vt, Ltd. unfold enc_seqtuple. ssub.
Qed.

(* ---------- IsSequenceFile: exact classification of ALL byte strings ---------- *)
Definition page_special (s : gslice) : Z := le_dec (sub (vis s) 16 18).

Lemma is_sequence_unfold s : 8192 <= len s ->
  IsSequenceFile s =
    if (page_special s =? 0) || (page_special s >? 8188) then Ok false
    else Ok (le_dec (sub (vis s) (page_special s) (page_special s + 4)) =? SequenceMagic).
Proof.
  intros L. unfold IsSequenceFile, PageSize, page_special, u16, u32.
  destruct (len s <? 8192) eqn:E; [lia|]. clear E.
  rewrite (uN_val 2 s 16) by lia. cbn [bind]. change (16 + Z.of_nat 2) with 18.
  change (8192 - 4) with 8188.
  set (sp := le_dec (sub (vis s) 16 18)).
  destruct ((sp =? 0) || (sp >? 8188)) eqn:E; [reflexivity|].
  assert (0 <= sp) by (pose proof (le_dec_range (sub (vis s) 16 18)); fold sp in H; lia).
  rewrite (uN_val 4 s sp) by lia. cbn [bind]. reflexivity.
Qed.

Lemma is_sequence_iff s : IsSequenceFile s = Ok true <-> carries_seq_magic (vis s).
Proof.
  unfold carries_seq_magic. fold (len s). 
  destruct (Z_lt_ge_dec (len s) 8192) as [L|L].
  - unfold IsSequenceFile, PageSize. destruct (len s <? 8192) eqn:E; [|lia].
    split; [discriminate|]. intros [? _]. lia.
  - rewrite is_sequence_unfold by lia. unfold page_special. cbv zeta.
    set (sp := le_dec (sub (vis s) 16 18)).
    assert (0 <= sp) by (pose proof (le_dec_range (sub (vis s) 16 18)); fold sp in H; lia).
    destruct ((sp =? 0) || (sp >? 8188)) eqn:E.
    + split; [discriminate|]. intros (_ & ? & ? & _). lia.
    + unfold SequenceMagic, SEQ_MAGIC. split.
      * intros [= Hm]. repeat split; lia.
      * intros (_ & _ & _ & Hm). rewrite Hm. reflexivity.
Qed.

Lemma is_sequence_total s : IsSequenceFile s = Ok true \/ IsSequenceFile s = Ok false.
Proof.
  destruct (Z_lt_ge_dec (len s) 8192) as [L|L].
  - right. unfold IsSequenceFile, PageSize. destruct (len s <? 8192) eqn:E; [reflexivity|lia].
  - rewrite is_sequence_unfold by lia.
    destruct (_ || _); [right; reflexivity|]. destruct (_ =? _); auto.
Qed.

Lemma is_sequence_classify s :
  (carries_seq_magic (vis s) -> IsSequenceFile s = Ok true) /\
  (~ carries_seq_magic (vis s) -> IsSequenceFile s = Ok false).
Proof.
  split.
  - apply is_sequence_iff.
  - intros N. destruct (is_sequence_total s) as [H|H]; [|exact H].
    exfalso. apply N. apply is_sequence_iff. exact H.
Qed.

(* every well-formed sequence file carries the magic *)
Lemma enc_seq_carries q : wf_seq q -> carries_seq_magic (enc_seq q).
Proof.
  intros W. pose proof (enc_seq_len q W) as EL.
  destruct W as (Hl & Hc & Hh & Hlo & Hu & Hs & Hsp & Hf & H0 & H18 & Hfr & Hth & Hpad & Hsl & Hsr).
  pose proof (blen_nonneg (sq_more q)) as Hm.
  unfold carries_seq_magic. split; [lia|].
  assert (E16 : sub (enc_seq q) 16 18 = le_enc 2 (sq_special q)) by (unfold enc_seq; ssub).
  rewrite E16. rewrite le_dec_enc by (cbn; lia). cbv zeta.
  assert (Em : sub (enc_seq q) (sq_special q) (sq_special q + 4) = le_enc 4 SEQ_MAGIC) by (unfold enc_seq; ssub).
  rewrite Em. rewrite le_dec_enc by (unfold SEQ_MAGIC; cbn; lia). repeat split; lia.
Qed.

(* ParseSequenceFile gets past its magic test exactly on the files IsSequenceFile accepts *)
Definition rejected_as_non_sequence (r : res (serr + seqdata)) : Prop :=
  r = Ok (inl ESeqFileSmall) \/ r = Ok (inl ESeqBadSpecial) \/ r = Ok (inl ESeqNotSequence).

Lemma parse_sequence_recognise s :
  (IsSequenceFile s = Ok false -> rejected_as_non_sequence (ParseSequenceFile s)) /\
  (IsSequenceFile s = Ok true -> ~ rejected_as_non_sequence (ParseSequenceFile s)).
Proof.
  unfold rejected_as_non_sequence, IsSequenceFile, ParseSequenceFile.
  destruct (len s <? PageSize); [split; [auto|discriminate]|].
  destruct (u16 s 16) as [sp|]; cbn [bind]; [|split; discriminate].
  destruct ((sp =? 0) || (sp >? PageSize - 4)); [split; [auto|discriminate]|].
  destruct (u32 s sp) as [m|]; cbn [bind]; [|split; discriminate].
  destruct (m =? SequenceMagic); cbn [negb].
  - split; [discriminate|]. intros _.
    destruct (u16 s 12) as [lo|]; cbn [bind]; [|intros [H|[H|H]]; discriminate].
    destruct (lo <? headerSize + itemIDSize); [intros [H|[H|H]]; discriminate|].
    destruct (u32 s headerSize) as [ip|]; cbn [bind]; [|intros [H|[H|H]]; discriminate].
    destruct (_ || _); [intros [H|[H|H]]; discriminate|].
    destruct (slice s _ _) as [td|]; cbn [bind]; [|intros [H|[H|H]]; discriminate].
    destruct (len td <? 23); [intros [H|[H|H]]; discriminate|].
    destruct (idx td 22) as [h|]; cbn [bind]; [|intros [H|[H|H]]; discriminate].
    destruct (_ >? len td); [intros [H|[H|H]]; discriminate|].
    destruct (slice_from td _) as [sd|]; cbn [bind]; [|intros [H|[H|H]]; discriminate].
    unfold parseSequenceTuple.
    destruct (len sd <? 8); [intros [H|[H|H]]; discriminate|].
    destruct (len sd <? 52).
    { destruct (i64 sd 0); cbn [bind]; [|intros [H|[H|H]]; discriminate].
      destruct (if len sd >=? 17 then nz sd 16 else Ok false); cbn [bind]; intros [H|[H|H]]; discriminate. }
    destruct (u32 sd 0); cbn [bind]; [|intros [H|[H|H]]; discriminate].
    destruct (_ || _).
    + destruct (len sd <? 4 + 48); [intros [H|[H|H]]; discriminate|].
      repeat (match goal with |- context [bind (i64 ?a ?b) _] => destruct (i64 a b); cbn [bind]; [|intros [H|[H|H]]; discriminate] end).
      destruct (nz sd 44); cbn [bind]; [|intros [H|[H|H]]; discriminate].
      destruct (len sd >=? 48 + 9); [|intros [H|[H|H]]; discriminate].
      destruct (i64 sd 48); cbn [bind]; [|intros [H|[H|H]]; discriminate].
      destruct (if len sd >? 56 then nz sd 56 else Ok false); cbn [bind]; intros [H|[H|H]]; discriminate.
    + destruct (len sd <? 57).
      { destruct (if len sd >=? 8 then i64 sd 0 else Ok 0); cbn [bind]; intros [H|[H|H]]; discriminate. }
      repeat (match goal with |- context [bind (i64 ?a ?b) _] => destruct (i64 a b); cbn [bind]; [|intros [H|[H|H]]; discriminate] end).
      destruct (if len sd >? 56 then _ else _) as [[cy off]|]; cbn [bind]; [|intros [H|[H|H]]; discriminate].
      destruct (if len sd >? off then nz sd off else Ok false); cbn [bind]; intros [H|[H|H]]; discriminate.
  - split; [auto|discriminate].
Qed.

(* ---------- no input makes the parsers panic ---------- *)
Lemma i64_ok s off : 0 <= off -> off + 8 <= len s -> exists v, i64 s off = Ok v.
Proof. intros. unfold i64, u64. rewrite (uN_val 8 s off) by lia. cbn [bind]. eauto. Qed.
Lemma u32_ok' s off : 0 <= off -> off + 4 <= len s -> exists v, u32 s off = Ok v.
Proof. intros. unfold u32. apply uN_ok; lia. Qed.
Lemma u16_ok' s off : 0 <= off -> off + 2 <= len s -> exists v, 0 <= v < 65536 /\ u16 s off = Ok v.
Proof.
  intros. unfold u16. destruct (uN_ok 2 s off) as [v Hv]; try lia. exists v. split; [|exact Hv].
  apply uN_range in Hv. cbn in Hv. lia.
Qed.
Lemma nz_ok s i : 0 <= i -> i < len s -> exists b, nz s i = Ok b.
Proof. intros. unfold nz. rewrite idx_ok by lia. cbn [bind]. eauto. Qed.

Ltac rd :=
  match goal with
  | |- context [bind (u32 ?s ?o) _] =>
      let v := fresh "w" in let H := fresh "R" in
      destruct (u32_ok' s o) as [v H]; [lia|lia|rewrite H; cbn [bind]; clear H]
  | |- context [bind (i64 ?s ?o) _] =>
      let v := fresh "v" in let H := fresh "R" in
      destruct (i64_ok s o) as [v H]; [lia|lia|rewrite H; cbn [bind]; clear H]
  | |- context [bind (nz ?s ?o) _] =>
      let v := fresh "b" in let H := fresh "R" in
      destruct (nz_ok s o) as [v H]; [lia|lia|rewrite H; cbn [bind]; clear H]
  end.

Lemma parse_tuple_no_panic d : parseSequenceTuple d <> Panic.
Proof.
  unfold parseSequenceTuple.
  destruct (len d <? 8) eqn:E8; [discriminate|].
  destruct (len d <? 52) eqn:E52.
  { rd. destruct (len d >=? 17) eqn:E17; [rd|cbn [bind]]; discriminate. }
  rd. destruct ((_ =? 20) || _ || _).
  - destruct (len d <? 4 + 48) eqn:E; [discriminate|].
    do 5 rd. rd.
    destruct (len d >=? 48 + 9) eqn:E57; [|discriminate].
    rd. destruct (len d >? 56) eqn:E56; [rd|cbn [bind]]; discriminate.
  - destruct (len d <? 57) eqn:E57.
    { destruct (len d >=? 8) eqn:E; [rd|cbn [bind]]; discriminate. }
    do 6 rd.
    destruct (len d >? 56) eqn:E56; [|lia].
    rd. destruct (len d >? 57) eqn:E58; [rd|cbn [bind]]; discriminate.
Qed.

Lemma parse_sequence_no_panic s : ParseSequenceFile s <> Panic.
Proof.
  unfold ParseSequenceFile, PageSize, headerSize, itemIDSize.
  destruct (len s <? 8192) eqn:EL; [discriminate|].
  destruct (u16_ok' s 16) as (sp & Rsp & ->); try lia. cbn [bind].
  destruct ((sp =? 0) || (sp >? 8192 - 4)) eqn:Esp; [discriminate|].
  rd. destruct (negb _); [discriminate|].
  destruct (u16_ok' s 12) as (lo & Rlo & ->); try lia. cbn [bind].
  destruct (lo <? 24 + 4); [discriminate|].
  rd. set (io := w0 mod 32768). set (il := (w0 / 131072) mod 32768).
  assert (0 <= io < 32768) by (apply Z.mod_pos_bound; lia).
  assert (0 <= il < 32768) by (apply Z.mod_pos_bound; lia).
  destruct ((io =? 0) || (il =? 0) || (io + il >? 8192)) eqn:Eit; [discriminate|].
  destruct (slice_ok s io (io + il)) as [td Htd]; try lia.
  { pose proof (len_le_cap s). lia. }
  rewrite Htd. cbn [bind]. pose proof (slice_len _ _ _ _ Htd) as Ltd.
  destruct (len td <? 23) eqn:E23; [discriminate|].
  rewrite idx_ok by lia. cbn [bind].
  set (h := byte_at (vis td) 22).
  set (hoff := if (h <? 23) || (h >? len td) then 24 else h).
  destruct (hoff >? len td) eqn:Eh; [discriminate|].
  assert (0 <= hoff) by (subst hoff; destruct ((h <? 23) || (h >? len td)) eqn:E; lia).
  unfold slice_from. destruct ((0 <=? hoff) && (hoff <=? len td)) eqn:E; [|lia].
  cbn [bind]. apply parse_tuple_no_panic.
Qed.

Lemma is_sequence_no_panic s : IsSequenceFile s <> Panic.
Proof. destruct (is_sequence_total s) as [-> | ->]; discriminate. Qed.

(* ---------- the result never depends on what lies beyond len (the capacity tail) ---------- *)
Lemma parse_tuple_vis d1 d2 : vis d1 = vis d2 -> parseSequenceTuple d1 = parseSequenceTuple d2.
Proof. destruct d1 as [v1 t1], d2 as [v2 t2]. cbn [vis]. intros ->. reflexivity. Qed.

Lemma parse_sequence_tail v t1 t2 :
  ParseSequenceFile {| vis := v; tail := t1 |} = ParseSequenceFile {| vis := v; tail := t2 |}.
Proof.
  set (s1 := {| vis := v; tail := t1 |}). set (s2 := {| vis := v; tail := t2 |}).
  assert (L : len s1 = len s2) by reflexivity.
  assert (U : forall n o, uN n s1 o = uN n s2 o) by reflexivity.
  unfold ParseSequenceFile, PageSize, headerSize, itemIDSize, u16, u32. rewrite L, !U.
  destruct (len s2 <? 8192) eqn:EL; [reflexivity|].
  destruct (uN 2 s2 16) as [sp|]; cbn [bind]; [|reflexivity].
  destruct ((sp =? 0) || (sp >? 8192 - 4)) eqn:Esp; [reflexivity|].
  rewrite U. destruct (uN 4 s2 sp) as [m|]; cbn [bind]; [|reflexivity].
  destruct (negb (m =? SequenceMagic)); [reflexivity|].
  destruct (uN 2 s2 12) as [lo|]; cbn [bind]; [|reflexivity].
  destruct (lo <? 24 + 4); [reflexivity|].
  destruct (uN 4 s2 24) as [w|] eqn:Hw; cbn [bind]; [|reflexivity].
  set (io := w mod 32768). set (il := (w / 131072) mod 32768).
  destruct ((io =? 0) || (il =? 0) || (io + il >? 8192)) eqn:Eit; [reflexivity|].
  assert (0 <= io < 32768) by (apply Z.mod_pos_bound; lia).
  assert (0 <= il < 32768) by (apply Z.mod_pos_bound; lia).
  destruct (slice_ok s1 io (io + il)) as [td1 H1]; try lia. { pose proof (len_le_cap s1). lia. }
  destruct (slice_ok s2 io (io + il)) as [td2 H2]; try lia. { pose proof (len_le_cap s2). lia. }
  rewrite H1, H2. cbn [bind].
  pose proof (slice_vis_within _ _ _ _ H1 ltac:(lia)) as V1.
  pose proof (slice_vis_within _ _ _ _ H2 ltac:(lia)) as V2.
  assert (V : vis td1 = vis td2) by (rewrite V1, V2; reflexivity).
  assert (Lt : len td1 = len td2) by (unfold len; rewrite V; reflexivity).
  rewrite Lt. destruct (len td2 <? 23); [reflexivity|].
  unfold idx. rewrite Lt, V. destruct ((0 <=? 22) && (22 <? len td2)); cbn [bind]; [|reflexivity].
  set (h := byte_at (vis td2) 22).
  set (hoff := if (h <? 23) || (h >? len td2) then 24 else h).
  destruct (hoff >? len td2); [reflexivity|].
  unfold slice_from. rewrite Lt. destruct ((0 <=? hoff) && (hoff <=? len td2)); cbn [bind]; [|reflexivity].
  apply parse_tuple_vis. cbn [vis]. rewrite V. reflexivity.
Qed.
