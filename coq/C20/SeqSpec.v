(* Spec: a PostgreSQL >= 10 sequence relation file (commands/sequence.c, bufpage.h, htup_details.h),
   little-endian, 8 KiB blocks.  Written from PostgreSQL's layout, not from the Go code.

   The relation is ONE page:
     PageHeaderData (24 bytes): pd_lsn 8 | pd_checksum 2 | pd_flags 2 | pd_lower 2 @12 | pd_upper 2 @14 |
                                pd_special 2 @16 | pd_pagesize_version 2 @18 | pd_prune_xid 4 @20
     one ItemIdData @24: lp_off:15 | lp_flags:2 | lp_len:15   (a uint32)
     the tuple at lp_off: HeapTupleHeaderData (23 bytes, t_hoff is byte 22), padding up to t_hoff,
       then FormData_pg_sequence_data = int64 last_value | int64 log_cnt | bool is_called   (17 bytes)
     special space at pd_special: sequence_magic { uint32 magic = 0x1717 }
   PostgreSQL itself writes pd_lower = 28, pd_upper = lp_off = 8136, lp_flags = 1, lp_len = 41, t_hoff = 24,
   pd_special = 8184; the spec lets all of these vary within what the page format allows, and lets every
   byte the format does not define (LSN, checksum, flags, xmin/xmax/ctid/infomasks, free space, the rest
   of the special space, anything after the first page) be arbitrary. *)
Require Import PG.Base.Bytes.

Record seqfile := {
  sq_last : Z;  sq_logcnt : Z;  sq_called : bool;       (* the stored state *)
  sq_hoff : Z;                                          (* t_hoff *)
  sq_lower : Z;  sq_upper : Z;  sq_special : Z;         (* pd_lower, pd_upper = lp_off, pd_special *)
  sq_lpflags : Z;                                       (* lp_flags *)
  sq_hdr0 : bytes;    (* page bytes 0..12  : pd_lsn, pd_checksum, pd_flags *)
  sq_hdr18 : bytes;   (* page bytes 18..24 : pd_pagesize_version, pd_prune_xid *)
  sq_free : bytes;    (* page bytes 28..pd_upper *)
  sq_thdr : bytes;    (* tuple bytes 0..22 : t_xmin, t_xmax, t_cid, t_ctid, t_infomask2, t_infomask *)
  sq_hpad : bytes;    (* tuple bytes 23..t_hoff *)
  sq_slack : bytes;   (* after the tuple, before the special space *)
  sq_srest : bytes;   (* special space after the magic word *)
  sq_more : bytes     (* whatever follows the first 8192 bytes *)
}.

Definition SEQ_MAGIC : Z := 5911.  (* 0x1717 *)
Definition bool_byte (b : bool) : byte := if b then x01 else x00.

(* FormData_pg_sequence_data *)
Definition enc_seqdata (q : seqfile) : bytes :=
  le_enc 8 (wrap 64 (sq_last q)) ++ le_enc 8 (wrap 64 (sq_logcnt q)) ++ [bool_byte (sq_called q)].
Definition enc_seqtuple (q : seqfile) : bytes :=
  sq_thdr q ++ [z2b (sq_hoff q)] ++ sq_hpad q ++ enc_seqdata q.
Definition seq_lp (q : seqfile) : Z := sq_upper q + 32768 * sq_lpflags q + 131072 * (sq_hoff q + 17).
Definition enc_seq (q : seqfile) : bytes :=
  sq_hdr0 q ++ le_enc 2 (sq_lower q) ++ le_enc 2 (sq_upper q) ++ le_enc 2 (sq_special q) ++ sq_hdr18 q ++
  le_enc 4 (seq_lp q) ++ sq_free q ++ enc_seqtuple q ++ sq_slack q ++
  le_enc 4 SEQ_MAGIC ++ sq_srest q ++ sq_more q.

Definition int64_ok (z : Z) : Prop := - 2 ^ 63 <= z < 2 ^ 63.
Definition wf_seq (q : seqfile) : Prop :=
  int64_ok (sq_last q) /\ int64_ok (sq_logcnt q) /\
  23 <= sq_hoff q <= 255 /\
  28 <= sq_lower q < 65536 /\
  28 <= sq_upper q /\ sq_upper q + sq_hoff q + 17 <= sq_special q /\ sq_special q + 4 <= 8192 /\
  0 <= sq_lpflags q <= 3 /\
  blen (sq_hdr0 q) = 12 /\ blen (sq_hdr18 q) = 6 /\ blen (sq_free q) = sq_upper q - 28 /\
  blen (sq_thdr q) = 22 /\ blen (sq_hpad q) = sq_hoff q - 23 /\
  blen (sq_slack q) = sq_special q - (sq_upper q + sq_hoff q + 17) /\
  blen (sq_srest q) = 8192 - sq_special q - 4.

(* what the tool must report *)
Definition expected_last (q : seqfile) : Z := sq_last q.
Definition expected_called (q : seqfile) : bool := sq_called q.

(* "its special space carries the sequence magic", for an arbitrary byte string:
   at least one page, pd_special points inside the page leaving room for the 4-byte word, and the
   word there is 0x1717. *)
Definition carries_seq_magic (bs : bytes) : Prop :=
  8192 <= blen bs /\
  let sp := le_dec (sub bs 16 18) in
  0 < sp /\ sp + 4 <= 8192 /\ le_dec (sub bs sp (sp + 4)) = SEQ_MAGIC.

(* ------------------------------------------------------------------------------------------ *)
(* A database as far as sequences are concerned: its relations, each with pg_class identity and, for
   relkind 'S', the state stored in its file. *)
Record rel := { r_oid : Z; r_filenode : Z; r_name : bytes; r_kind : bytes; r_seq : seqfile }.
Record dbase := { d_oid : Z; d_name : bytes; d_rels : list rel }.

Definition is_seq_kind (k : bytes) : bool :=
  match k with [c] => if Byte.byte_eq_dec c "S"%byte then true else false | _ => false end.

(* one line of the expected listing: name, oid, filenode, last_value, is_called *)
Definition listing_line := (bytes * Z * Z * Z * bool)%type.
Definition line_of (r : rel) : listing_line :=
  (r_name r, r_oid r, r_filenode r, sq_last (r_seq r), sq_called (r_seq r)).
Definition line_fn (l : listing_line) : Z := match l with (_, _, fn, _, _) => fn end.
Fixpoint insert_line (a : listing_line) (l : list listing_line) : list listing_line :=
  match l with
  | [] => [a]
  | x :: r => if line_fn a <=? line_fn x then a :: x :: r else x :: insert_line a r
  end.
Fixpoint sort_lines (l : list listing_line) : list listing_line :=
  match l with [] => [] | a :: r => insert_line a (sort_lines r) end.
(* every relation of kind 'S', once, with its own state, in filenode order *)
Definition expected_listing (d : dbase) : list listing_line :=
  sort_lines (map line_of (filter (fun r => is_seq_kind (r_kind r)) (d_rels d))).

Definition wf_db (d : dbase) : Prop :=
  d_oid d <> 0 /\ NoDup (map r_filenode (d_rels d)) /\
  Forall (fun r => is_seq_kind (r_kind r) = true -> wf_seq (r_seq r)) (d_rels d).

(* the cluster-wide listing: every database whose name does not start with "template" (the tool's
   convention for template databases, used by all its cluster-wide commands) and which has at least
   one sequence, with that database's listing *)
Fixpoint starts_with (s p : bytes) : bool :=
  match p, s with
  | [], _ => true
  | _ :: _, [] => false
  | y :: p', x :: s' => if Byte.byte_eq_dec x y then starts_with s' p' else false
  end.
Definition template_word : bytes :=
  ["t"; "e"; "m"; "p"; "l"; "a"; "t"; "e"]%byte.
Definition expected_scan (c : list dbase) : list (bytes * list listing_line) :=
  flat_map (fun d => if starts_with (d_name d) template_word then []
                     else match expected_listing d with [] => [] | l => [(d_name d, l)] end) c.
Definition wf_cluster (c : list dbase) : Prop :=
  Forall wf_db c /\ NoDup (map d_name c).
