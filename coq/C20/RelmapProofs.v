Require Import PG.Base.Bytes PG.Base.GoSlice PG.C20.RelmapModel PG.C20.RelmapSpec.

Lemma enc_maps_len ms : blen (enc_maps ms) = 8 * Z.of_nat (length ms).
Proof.
  induction ms as [|a ms IH]; [reflexivity|]. unfold enc_maps in *. cbn [map concat length].
  bl. rewrite IH. unfold enc_map. bl. lia.
Qed.
#[export] Hint Rewrite enc_maps_len : blen.

Lemma read_maps_at : forall ms s off,
  wf_maps ms -> 0 <= off ->
  sub (vis s) off (off + 8 * Z.of_nat (length ms)) = enc_maps ms ->
  off + 8 * Z.of_nat (length ms) <= len s ->
  read_maps (length ms) s off = Ok ms.
Proof.
  induction ms as [|[o f] ms IH]; intros s off Hwf Hoff Hsub Hlen; [reflexivity|].
  inversion Hwf as [|? ? [Ho Hf] Hwf']; subst. cbn [fst snd length read_maps] in *.
  unfold u32_ok in *.
  destruct (off + 8 >? len s) eqn:E; [lia|].
  assert (Hsplit : forall a b, 0 <= a -> a <= b -> b <= 8 * Z.of_nat (S (length ms)) ->
            sub (vis s) (off + a) (off + b) = sub (enc_maps ((o,f)::ms)) a b).
  { intros a b Ha Hab Hb. rewrite <- Hsub. rewrite sub_sub by lia. reflexivity. }
  unfold u32.
  rewrite (uN_sub 4 s off o); try lia.
  2:{ replace off with (off + 0) at 1 by lia. rewrite Hsplit by lia.
      unfold enc_maps; cbn [map concat]. unfold enc_map; cbn [fst snd]. ssub. }
  cbn [bind].
  rewrite (uN_sub 4 s (off+4) f); try lia.
  2:{ replace (off + 4 + Z.of_nat 4) with (off + 8) by lia. rewrite Hsplit by lia.
      unfold enc_maps; cbn [map concat]. unfold enc_map; cbn [fst snd]. ssub. }
  cbn [bind]. rewrite IH; auto; try lia.
  replace (off + 8 + 8 * Z.of_nat (length ms)) with (off + 8 * Z.of_nat (S (length ms))) by lia.
  rewrite Hsplit by lia. unfold enc_maps; cbn [map concat]. unfold enc_map at 1; cbn [fst snd].
  fold (enc_maps ms). ssub.
Qed.

Lemma parse_relmap_roundtrip r t :
  wf_relmap r -> sp_magic r = RelMapMagic ->
  ParseRelMapFile {| vis := enc_relmap r; tail := t |} =
  Ok (inr {| rm_magic := sp_magic r; rm_num := sp_count r; rm_mappings := sp_maps r; rm_crc := sp_crc r |}).
Proof.
  intros (Hm & Hc & H62 & Hs & Hcrc & Hmag & Hpad) Hmagic.
  unfold u32_ok in *.
  assert (Hc0 : 0 <= sp_count r) by lia.
  assert (L : len {| vis := enc_relmap r; tail := t |} = 508 + blen (sp_pad r)).
  { unfold len, enc_relmap. cbn [vis]. bl. lia. }
  unfold ParseRelMapFile. rewrite L.
  destruct (508 + blen (sp_pad r) <? 512) eqn:E; [lia|]. clear E.
  unfold u32 at 1. rewrite (uN_sub 4 _ 0 (sp_magic r)); try lia; cbn [vis].
  2:{ unfold enc_relmap. ssub. }
  cbn [bind]. rewrite Hmagic at 1. rewrite Z.eqb_refl. cbn [negb].
  assert (W : wrap 32 (sp_count r) = sp_count r) by (unfold wrap; rewrite Z.mod_small; lia).
  unfold u32 at 1. rewrite (uN_sub 4 _ 4 (sp_count r)); try lia; cbn [vis].
  2:{ unfold enc_relmap. rewrite W. ssub. }
  cbn [bind].
  assert (S32 : sint32 (sp_count r) = sp_count r).
  { unfold sint32, sint. destruct (sp_count r <? 2 ^ (32 - 1)) eqn:E; lia. }
  rewrite S32. unfold RelMapMaxMappings.
  destruct ((sp_count r <? 0) || (sp_count r >? 62)) eqn:E; [lia|]. clear E.
  rewrite Hc at 1. rewrite Nat2Z.id.
  rewrite read_maps_at; auto; try lia; cbn [vis].
  2:{ unfold enc_relmap. rewrite <- Hc. ssub. }
  cbn [bind]. change (8 + 62 * 8 + 4) with 508. change (8 + 62 * 8) with 504.
  destruct (508 + blen (sp_pad r) >=? 508) eqn:E; [|lia].
  unfold u32. rewrite (uN_sub 4 _ 504 (sp_crc r)); try lia; cbn [vis].
  2:{ unfold enc_relmap. ssub. }
  cbn [bind]. reflexivity.
Qed.

(* rejection: for ALL byte strings *)
Lemma parse_relmap_short s : len s < 512 -> ParseRelMapFile s = Ok (inl ETooSmall).
Proof. intros. unfold ParseRelMapFile. destruct (len s <? 512) eqn:E; [reflexivity|lia]. Qed.

Definition hdr_magic (s : gslice) : Z := le_dec (sub (vis s) 0 4).
Definition hdr_count (s : gslice) : Z := sint32 (le_dec (sub (vis s) 4 8)).

Lemma read_maps_no_panic : forall n s off, 0 <= off -> read_maps n s off <> Panic.
Proof.
  induction n; intros s off Hoff; cbn [read_maps]; [discriminate|].
  destruct (off + 8 >? len s) eqn:E; [discriminate|].
  destruct (uN_ok 4 s off) as [v Hv]; [lia|lia|]. unfold u32. rewrite Hv. cbn [bind].
  destruct (uN_ok 4 s (off+4)) as [w Hw]; [lia|lia|]. rewrite Hw. cbn [bind].
  specialize (IHn s (off+8)). destruct (read_maps n s (off+8)); [discriminate|].
  exfalso; apply IHn; [lia|reflexivity].
Qed.

Lemma parse_relmap_unfold s : 512 <= len s ->
  ParseRelMapFile s =
    if negb (hdr_magic s =? RelMapMagic) then Ok (inl EBadMagic) else
    if (hdr_count s <? 0) || (hdr_count s >? 62) then Ok (inl EBadCount) else
    ms <- read_maps (Z.to_nat (hdr_count s)) s 8 ;;
    Ok (inr {| rm_magic := hdr_magic s; rm_num := hdr_count s; rm_mappings := ms;
               rm_crc := le_dec (sub (vis s) 504 508) |}).
Proof.
  intros L. unfold ParseRelMapFile, hdr_magic, hdr_count, u32, RelMapMaxMappings.
  change (8 + 62 * 8 + 4) with 508. change (8 + 62 * 8) with 504.
  destruct (len s <? 512) eqn:E; [lia|]. clear E.
  rewrite (uN_val 4 s 0), (uN_val 4 s 4), (uN_val 4 s 504) by lia. cbn [bind].
  destruct (len s >=? 508) eqn:E3; [|lia]. cbn [bind].
  reflexivity.
Qed.

Lemma parse_relmap_classify s :
  512 <= len s ->
  (hdr_magic s <> RelMapMagic -> ParseRelMapFile s = Ok (inl EBadMagic)) /\
  (hdr_magic s = RelMapMagic -> (hdr_count s < 0 \/ hdr_count s > 62) -> ParseRelMapFile s = Ok (inl EBadCount)) /\
  (hdr_magic s = RelMapMagic -> 0 <= hdr_count s <= 62 ->
     exists rm, ParseRelMapFile s = Ok (inr rm) /\ rm_magic rm = RelMapMagic /\ rm_num rm = hdr_count s /\
                rm_crc rm = le_dec (sub (vis s) 504 508)).
Proof.
  intros L. rewrite parse_relmap_unfold by lia.
  set (m := hdr_magic s). set (c := hdr_count s).
  repeat split.
  - intros Hm. destruct (m =? RelMapMagic) eqn:E; [lia|]. reflexivity.
  - intros Hm Hc. destruct (m =? RelMapMagic) eqn:E; [|lia]. cbn [negb].
    destruct ((c <? 0) || (c >? 62)) eqn:E2; [reflexivity|lia].
  - intros Hm Hc. destruct (m =? RelMapMagic) eqn:E; [|lia]. cbn [negb].
    destruct ((c <? 0) || (c >? 62)) eqn:E2; [lia|].
    pose proof (read_maps_no_panic (Z.to_nat c) s 8 ltac:(lia)) as NP.
    destruct (read_maps (Z.to_nat c) s 8) as [ms|]; [|congruence]. cbn [bind].
    eexists. split; [reflexivity|]. cbn. auto.
Qed.

Theorem parse_relmap_no_panic s : ParseRelMapFile s <> Panic.
Proof.
  destruct (Z_lt_ge_dec (len s) 512) as [H|H].
  - rewrite parse_relmap_short by lia. discriminate.
  - destruct (parse_relmap_classify s ltac:(lia)) as (A & B & C).
    destruct (Z.eq_dec (hdr_magic s) RelMapMagic) as [Hm|Hm].
    + destruct (Z_lt_ge_dec (hdr_count s) 0); [rewrite B by (auto; lia); discriminate|].
      destruct (Z_gt_le_dec (hdr_count s) 62); [rewrite B by (auto; lia); discriminate|].
      destruct (C Hm ltac:(lia)) as (rm & -> & _). discriminate.
    + rewrite A by auto. discriminate.
Qed.

(* the result never depends on what lies beyond len (capacity tail) *)
Lemma read_maps_tail : forall n v t1 t2 off,
  read_maps n {| vis := v; tail := t1 |} off = read_maps n {| vis := v; tail := t2 |} off.
Proof. induction n; intros; cbn [read_maps]; [reflexivity|]. rewrite (IHn v t1 t2). reflexivity. Qed.
Lemma parse_relmap_tail v t1 t2 :
  ParseRelMapFile {| vis := v; tail := t1 |} = ParseRelMapFile {| vis := v; tail := t2 |}.
Proof.
  unfold ParseRelMapFile, u32, uN, len; cbn [vis].
  destruct (blen v <? 512); [reflexivity|].
  destruct (_ && _); [|reflexivity]. cbn [bind].
  destruct (negb _); [reflexivity|].
  destruct (_ && _); [|reflexivity]. cbn [bind].
  destruct (_ || _); [reflexivity|].
  rewrite (read_maps_tail _ v t1 t2). reflexivity.
Qed.

Lemma GetFilenode_first ms oid : GetFilenode ms oid = first_filenode ms oid.
Proof.
  unfold first_filenode. induction ms as [|[o f] ms IH]; [reflexivity|].
  cbn [GetFilenode find fst snd]. destruct (o =? oid); [reflexivity|exact IH].
Qed.
Lemma GetOID_first ms fn : GetOID ms fn = first_oid ms fn.
Proof.
  unfold first_oid. induction ms as [|[o f] ms IH]; [reflexivity|].
  cbn [GetOID find fst snd]. destruct (f =? fn); [reflexivity|exact IH].
Qed.

(* non-vacuity *)
Example relmap_example_wf :
  wf_relmap {| sp_magic := RelMapMagic; sp_count := 2; sp_maps := [(1259, 1259); (1249, 16385)];
               sp_slack := zeros 480; sp_crc := 3735928559; sp_pad := zeros 4 |}.
Proof.
  unfold wf_relmap, wf_maps, u32_ok. cbn [sp_maps sp_count sp_slack sp_crc sp_magic sp_pad length].
  unfold RelMapMagic. rewrite !zeros_len by lia.
  repeat split; try lia.
  repeat constructor; cbn [fst snd]; lia.
Qed.
