(* ReadGlobalRelMap / ReadDatabaseRelMap / ReadAllRelMaps / GetEnhancedMappings over a file-system view. *)
Require Import PG.Base.Bytes PG.Base.GoSlice PG.C20.RelmapModel PG.C20.RelmapSpec PG.C20.RelmapProofs PG.C20.RelmapFs.

Definition expected_relmap (r : relmap_img) : relmap :=
  {| rm_magic := sp_magic r; rm_num := sp_count r; rm_mappings := sp_maps r; rm_crc := sp_crc r |}.
Definition wf_img (r : relmap_img) : Prop := wf_relmap r /\ sp_magic r = RelMapMagic.

(* the cluster's map files: the global image, and per database (in pg_database order) an image or no file *)
Definition fs_holds_maps (fs : rmfs) (g : relmap_img) (dbs : list (Z * bytes)) (imgs : Z -> option relmap_img) : Prop :=
  rf_global fs = Some (enc_relmap g) /\ wf_img g /\ rf_dbs fs = Some dbs /\
  forall oid n, In (oid, n) dbs ->
    match imgs oid with
    | Some i => rf_dbmap fs oid = Some (enc_relmap i) /\ wf_img i
    | None => rf_dbmap fs oid = None
    end.

Definition expected_db_maps (dbs : list (Z * bytes)) (imgs : Z -> option relmap_img) : list rmfile :=
  flat_map (fun p => match imgs (fst p) with
                     | Some i => [{| rmf_map := expected_relmap i; rmf_global := false; rmf_path := PathDb (fst p) |}]
                     | None => []
                     end) dbs.

Lemma parse_exact_img i : wf_img i -> ParseRelMapFile (exact (enc_relmap i)) = Ok (inr (expected_relmap i)).
Proof. intros [W M]. unfold exact. apply parse_relmap_roundtrip; assumption. Qed.

Lemma read_global_ok fs g : rf_global fs = Some (enc_relmap g) -> wf_img g ->
  ReadGlobalRelMap fs = Ok (inr {| rmf_map := expected_relmap g; rmf_global := true; rmf_path := PathGlobal |}).
Proof. intros H W. unfold ReadGlobalRelMap. rewrite H, parse_exact_img by exact W. reflexivity. Qed.

Lemma read_database_ok fs oid i : rf_dbmap fs oid = Some (enc_relmap i) -> wf_img i ->
  ReadDatabaseRelMap fs oid = Ok (inr {| rmf_map := expected_relmap i; rmf_global := false; rmf_path := PathDb oid |}).
Proof. intros H W. unfold ReadDatabaseRelMap. rewrite H, parse_exact_img by exact W. reflexivity. Qed.

Lemma read_db_maps_ok fs dbs imgs :
  (forall oid n, In (oid, n) dbs ->
    match imgs oid with
    | Some i => rf_dbmap fs oid = Some (enc_relmap i) /\ wf_img i
    | None => rf_dbmap fs oid = None
    end) ->
  read_db_maps fs dbs = Ok (expected_db_maps dbs imgs).
Proof.
  induction dbs as [|[oid n] dbs IH]; intros H; [reflexivity|].
  cbn [read_db_maps]. unfold expected_db_maps. cbn [flat_map fst]. fold (expected_db_maps dbs imgs).
  specialize (H oid n (or_introl eq_refl)) as Ho.
  rewrite IH by (intros; eapply H; right; eassumption).
  destruct (imgs oid) as [i|].
  - destruct Ho as [Hf W]. rewrite (read_database_ok fs oid i Hf W). reflexivity.
  - unfold ReadDatabaseRelMap. rewrite Ho. reflexivity.
Qed.

Theorem read_all_relmaps_ok fs g dbs imgs :
  fs_holds_maps fs g dbs imgs ->
  ReadAllRelMaps fs =
  Ok (inr ({| rmf_map := expected_relmap g; rmf_global := true; rmf_path := PathGlobal |}, expected_db_maps dbs imgs)).
Proof.
  intros (Hg & Wg & Hd & Hm). unfold ReadAllRelMaps.
  rewrite (read_global_ok fs g Hg Wg). cbn [bind]. rewrite Hd, (read_db_maps_ok fs dbs imgs Hm). reflexivity.
Qed.

(* without a readable pg_database only the global map is reported; without a readable or acceptable
   global map nothing is *)
Lemma read_all_relmaps_no_dblist fs g :
  rf_global fs = Some (enc_relmap g) -> wf_img g -> rf_dbs fs = None ->
  ReadAllRelMaps fs = Ok (inr ({| rmf_map := expected_relmap g; rmf_global := true; rmf_path := PathGlobal |}, [])).
Proof. intros Hg Wg Hd. unfold ReadAllRelMaps. rewrite (read_global_ok fs g Hg Wg). cbn [bind]. rewrite Hd. reflexivity. Qed.
Lemma read_all_relmaps_no_global fs : rf_global fs = None -> ReadAllRelMaps fs = Ok (inl ERmRead).
Proof. intros H. unfold ReadAllRelMaps, ReadGlobalRelMap. rewrite H. reflexivity. Qed.

Lemma read_all_relmaps_no_panic fs : ReadAllRelMaps fs <> Panic.
Proof.
  assert (G : forall o, ReadDatabaseRelMap fs o <> Panic).
  { intros o. unfold ReadDatabaseRelMap. destruct (rf_dbmap fs o) as [d|]; [|discriminate].
    pose proof (parse_relmap_no_panic (exact d)). destruct (ParseRelMapFile (exact d)) as [[|]|]; cbn [bind]; congruence. }
  assert (L : forall dbs, read_db_maps fs dbs <> Panic).
  { induction dbs as [|[o n] dbs IH]; cbn [read_db_maps]; [discriminate|].
    specialize (G o). destruct (ReadDatabaseRelMap fs o) as [m|]; [|congruence]. cbn [bind].
    destruct (read_db_maps fs dbs); [|congruence]. cbn [bind]. destruct m; discriminate. }
  unfold ReadAllRelMaps, ReadGlobalRelMap. destruct (rf_global fs) as [d|]; [|discriminate].
  pose proof (parse_relmap_no_panic (exact d)). destruct (ParseRelMapFile (exact d)) as [[e|rm]|]; cbn [bind]; [discriminate| |congruence].
  destruct (rf_dbs fs) as [dbs|]; [|discriminate]. specialize (L dbs).
  destruct (read_db_maps fs dbs); [discriminate|congruence].
Qed.

(* GetEnhancedMappings keeps every mapping, in stored order, and only adds the name column *)
Lemma enhanced_keeps ms :
  map (fun e => (fst (fst e), snd (fst e))) (GetEnhancedMappings ms) = ms /\
  Forall (fun e => snd e = GetCatalogName (fst (fst e))) (GetEnhancedMappings ms).
Proof.
  unfold GetEnhancedMappings. split.
  - rewrite map_map. cbn [fst snd]. rewrite <- (map_id ms) at 2. apply map_ext. intros [o f]. reflexivity.
  - apply Forall_forall. intros e He. apply in_map_iff in He. destruct He as ([o f] & <- & _). reflexivity.
Qed.
