(* FindSequences / ScanAllSequences: every sequence relation once, with its own state, in an order that
   does not depend on the map-iteration order. *)
From Coq Require Import Permutation.
Require Import PG.Base.Bytes PG.Base.GoSlice PG.C20.SeqModel PG.C20.SeqSpec PG.C20.SeqProofs.

(* ---------- what it means for the file-system view to hold a database ---------- *)
Definition entry_of (r : rel) : Z * tableinfo :=
  (r_filenode r, {| ti_oid := r_oid r; ti_filenode := r_filenode r; ti_name := r_name r; ti_kind := r_kind r |}).
Definition db_row (d : dbase) : Z * bytes := (d_oid d, d_name d).

(* pg_class of the database lists exactly its relations, visited in SOME order; the file of every
   relation of kind 'S' is that relation's sequence image (files of other relations: anything or nothing) *)
Definition fs_holds_db (fs : fsview) (d : dbase) : Prop :=
  (exists es, fs_class fs (d_oid d) = Some es /\ Permutation es (map entry_of (d_rels d))) /\
  (forall r, In r (d_rels d) -> is_seq_kind (r_kind r) = true ->
             fs_file fs (d_oid d) (r_filenode r) = Some (enc_seq (r_seq r))).

(* the observable part of a reported entry *)
Definition line_of_entry (e : seqentry) : listing_line :=
  (se_name e, se_oid e, se_filenode e, sd_last (se_data e), sd_called (se_data e)).

(* ---------- small facts ---------- *)
Lemma beq_true a b : beq a b = true <-> a = b.
Proof. unfold beq. destruct (list_eq_dec Byte.byte_eq_dec a b); split; auto; discriminate. Qed.
Lemma beq_refl a : beq a a = true.
Proof. apply beq_true. reflexivity. Qed.

Lemma kind_agree k : beq k kindS = is_seq_kind k.
Proof.
  destruct (beq k kindS) eqn:E.
  - apply beq_true in E. subst. reflexivity.
  - destruct k as [|c [|c' k]]; try reflexivity.
    unfold is_seq_kind. destruct (Byte.byte_eq_dec c "S"%byte); [|reflexivity].
    subst. unfold kindS in E. rewrite beq_refl in E. discriminate.
Qed.

Lemma prefix_agree n : has_prefix n templatePrefix = starts_with n template_word.
Proof.
  unfold templatePrefix, template_word. generalize ["t"; "e"; "m"; "p"; "l"; "a"; "t"; "e"]%byte.
  intros p. revert n. induction p as [|y p IH]; intros [|x n]; cbn; auto.
  all: try (destruct (Byte.byte_eq_dec x y); auto).
Qed.

(* ---------- sort: insertion commutes on distinct keys, so the result is order-independent ---------- *)
Lemma insert_fn_comm a b l : se_filenode a <> se_filenode b ->
  insert_fn a (insert_fn b l) = insert_fn b (insert_fn a l).
Proof.
  intros N. induction l as [|x l IH]; cbn [insert_fn].
  - destruct (se_filenode a <=? se_filenode b) eqn:E1, (se_filenode b <=? se_filenode a) eqn:E2; try reflexivity; lia.
  - destruct (se_filenode b <=? se_filenode x) eqn:Eb, (se_filenode a <=? se_filenode x) eqn:Ea; cbn [insert_fn];
      rewrite ?Ea, ?Eb;
      destruct (se_filenode a <=? se_filenode b) eqn:E1, (se_filenode b <=? se_filenode a) eqn:E2;
      try reflexivity; try lia.
    all: rewrite IH; reflexivity.
Qed.

Lemma insert_fn_perm a l : Permutation (insert_fn a l) (a :: l).
Proof.
  induction l as [|x l IH]; cbn [insert_fn]; [apply Permutation_refl|].
  destruct (_ <=? _); [apply Permutation_refl|].
  eapply perm_trans; [apply perm_skip, IH|apply perm_swap].
Qed.
Lemma sort_fn_perm l : Permutation (sort_fn l) l.
Proof.
  induction l as [|a l IH]; cbn [sort_fn]; [constructor|].
  eapply perm_trans; [apply insert_fn_perm|]. apply perm_skip, IH.
Qed.

Lemma sort_fn_order_independent l1 l2 :
  Permutation l1 l2 -> NoDup (map se_filenode l1) -> sort_fn l1 = sort_fn l2.
Proof.
  induction 1 as [| x l l' P IH | x y l | l l' l'' P1 IH1 P2 IH2]; intros ND.
  - reflexivity.
  - cbn [sort_fn]. cbn [map] in ND. inversion ND; subst. rewrite IH; auto.
  - cbn [sort_fn]. cbn [map] in ND. inversion ND as [|? ? Hy ND']; subst.
    apply insert_fn_comm. intros E. apply Hy. left. symmetry. exact E.
  - rewrite IH1 by assumption. apply IH2.
    eapply Permutation_NoDup; [apply Permutation_map; exact P1|exact ND].
Qed.

(* the sorted result is strictly increasing in filenode when the keys are distinct *)
Lemma insert_line_map a l :
  map line_of_entry (insert_fn a l) = insert_line (line_of_entry a) (map line_of_entry l).
Proof.
  induction l as [|x l IH]; [reflexivity|]. cbn [insert_fn map insert_line].
  change (line_fn (line_of_entry a)) with (se_filenode a).
  change (line_fn (line_of_entry x)) with (se_filenode x).
  destruct (se_filenode a <=? se_filenode x); cbn [map]; [reflexivity|]. rewrite IH. reflexivity.
Qed.
Lemma sort_lines_map l : map line_of_entry (sort_fn l) = sort_lines (map line_of_entry l).
Proof.
  induction l as [|a l IH]; [reflexivity|]. cbn [sort_fn map sort_lines].
  rewrite insert_line_map, IH. reflexivity.
Qed.

(* ---------- the loop over pg_class entries ---------- *)
(* what one entry contributes (ParseSequenceFile never panics, so this is a pure function) *)
Definition contrib (fs : fsview) (db : Z) (e : Z * tableinfo) : list seqentry :=
  let '(fn, info) := e in
  if negb (beq (ti_kind info) kindS) then [] else
  match fs_file fs db fn with
  | None => []
  | Some data =>
    match ParseSequenceFile (exact data) with
    | Ok (inr sd) => [{| se_name := ti_name info; se_oid := ti_oid info; se_filenode := fn; se_data := sd |}]
    | _ => []
    end
  end.

Lemma collect_flat_map fs db es : collect fs db es = Ok (flat_map (contrib fs db) es).
Proof.
  induction es as [|[fn info] es IH]; [reflexivity|].
  cbn [collect flat_map contrib].
  destruct (negb (beq (ti_kind info) kindS)); [exact IH|].
  destruct (fs_file fs db fn) as [data|]; [|exact IH].
  pose proof (parse_sequence_no_panic (exact data)) as NP.
  destruct (ParseSequenceFile (exact data)) as [[e|sd]|]; [| |congruence]; cbn [bind].
  - exact IH.
  - rewrite IH. reflexivity.
Qed.

Definition pg10_data (q : seqfile) : seqdata :=
  {| sd_last := sq_last q; sd_start := 0; sd_inc := 0; sd_max := 0; sd_min := 0; sd_cache := 0;
     sd_cycled := false; sd_called := sq_called q |}.
Definition entry_seq (r : rel) : seqentry :=
  {| se_name := r_name r; se_oid := r_oid r; se_filenode := r_filenode r; se_data := pg10_data (r_seq r) |}.
Definition is_seq_rel (r : rel) : bool := is_seq_kind (r_kind r).

Lemma contrib_rels fs db rels :
  (forall r, In r rels -> is_seq_rel r = true ->
             fs_file fs db (r_filenode r) = Some (enc_seq (r_seq r)) /\ wf_seq (r_seq r)) ->
  flat_map (contrib fs db) (map entry_of rels) = map entry_seq (filter is_seq_rel rels).
Proof.
  induction rels as [|r rels IH]; intros H; [reflexivity|].
  cbn [map flat_map filter]. rewrite IH by (intros; apply H; [right|]; assumption).
  unfold contrib at 1, entry_of at 1. cbn [ti_kind ti_name ti_oid].
  rewrite kind_agree. fold (is_seq_rel r).
  destruct (is_seq_rel r) eqn:E; cbn [negb]; [|reflexivity].
  destruct (H r (or_introl eq_refl) E) as [Hf W]. rewrite Hf.
  unfold exact. rewrite parse_sequence_roundtrip by exact W. reflexivity.
Qed.

Lemma nodup_map_filter {A B} (f : A -> B) (p : A -> bool) l : NoDup (map f l) -> NoDup (map f (filter p l)).
Proof.
  induction l as [|a l IH]; intros ND; [constructor|]. cbn [map filter] in *.
  inversion ND as [|? ? Hn ND']; subst. destruct (p a); [|auto].
  cbn [map]. constructor; [|auto]. intros Hin. apply Hn.
  apply in_map_iff in Hin. destruct Hin as (x & Hx & Hin). apply filter_In in Hin.
  apply in_map_iff. exists x. tauto.
Qed.

(* ---------- finding the database ---------- *)
Lemma find_db_unique c d :
  NoDup (map d_name c) -> In d c -> find_db (map db_row c) (d_name d) = d_oid d.
Proof.
  induction c as [|d' c IH]; intros ND Hin; [destruct Hin|].
  cbn [map find_db db_row]. cbn [map] in ND. inversion ND as [|? ? Hn ND']; subst.
  destruct (beq (d_name d') (d_name d)) eqn:E.
  - apply beq_true in E. destruct Hin as [->|Hin]; [reflexivity|].
    exfalso. apply Hn. rewrite E. apply in_map. exact Hin.
  - destruct Hin as [->|Hin]; [rewrite beq_refl in E; discriminate|]. apply IH; assumption.
Qed.

(* ---------- FindSequences ---------- *)
Lemma find_sequences_exact fs c d :
  wf_cluster c -> In d c -> fs_dbs fs = Some (map db_row c) -> fs_holds_db fs d ->
  FindSequences fs (d_name d) = Ok (inr (sort_fn (map entry_seq (filter is_seq_rel (d_rels d))))).
Proof.
  intros [WF ND] Hin Hdbs [(es & Hes & P) Hfiles].
  pose proof (proj1 (Forall_forall _ _) WF d Hin) as (Hoid & NDf & Wseq).
  unfold FindSequences. rewrite Hdbs, find_db_unique by assumption.
  destruct (d_oid d =? 0) eqn:E; [lia|]. rewrite Hes.
  rewrite collect_flat_map. cbn [bind]. do 2 f_equal.
  assert (C : flat_map (contrib fs (d_oid d)) (map entry_of (d_rels d)) =
              map entry_seq (filter is_seq_rel (d_rels d))).
  { apply contrib_rels. intros r Hr Hs. split; [apply Hfiles; assumption|].
    exact (proj1 (Forall_forall _ _) Wseq r Hr Hs). }
  rewrite <- C. symmetry. apply sort_fn_order_independent.
  - apply Permutation_sym. apply Permutation_flat_map. exact P.
  - rewrite C. rewrite map_map. change (fun x => se_filenode (entry_seq x)) with r_filenode.
    apply nodup_map_filter. exact NDf.
Qed.

Lemma expected_listing_map d :
  map line_of_entry (sort_fn (map entry_seq (filter is_seq_rel (d_rels d)))) = expected_listing d.
Proof.
  rewrite sort_lines_map, map_map. unfold expected_listing. reflexivity.
Qed.

Theorem find_sequences_listing fs c d :
  wf_cluster c -> In d c -> fs_dbs fs = Some (map db_row c) -> fs_holds_db fs d ->
  exists l, FindSequences fs (d_name d) = Ok (inr l) /\ map line_of_entry l = expected_listing d.
Proof.
  intros. eexists. split; [eapply find_sequences_exact; eassumption|apply expected_listing_map].
Qed.

(* a name that no database carries is reported as such *)
Lemma find_db_absent c n : ~ In n (map d_name c) -> find_db (map db_row c) n = 0.
Proof.
  induction c as [|d c IH]; intros H; [reflexivity|]. cbn [map find_db db_row].
  destruct (beq (d_name d) n) eqn:E.
  - apply beq_true in E. exfalso. apply H. left. exact E.
  - apply IH. intros Hin. apply H. right. exact Hin.
Qed.
Lemma find_sequences_unknown fs c n :
  fs_dbs fs = Some (map db_row c) -> ~ In n (map d_name c) -> FindSequences fs n = Ok (inl EDbNotFound).
Proof. intros H N. unfold FindSequences. rewrite H, find_db_absent by exact N. reflexivity. Qed.

(* ---------- ScanAllSequences ---------- *)
Definition scan_obs (m : list (bytes * list seqentry)) : list (bytes * list listing_line) :=
  map (fun p => (fst p, map line_of_entry (snd p))) m.

Lemma scan_dbs_listing fs c c' :
  wf_cluster c -> fs_dbs fs = Some (map db_row c) -> (forall d, In d c -> fs_holds_db fs d) ->
  (forall d, In d c' -> In d c) ->
  exists m, scan_dbs fs (map db_row c') = Ok m /\ scan_obs m = expected_scan c'.
Proof.
  intros W Hdbs Hall. induction c' as [|d c' IH]; intros Sub.
  - exists []. split; reflexivity.
  - destruct IH as (m & Hm & Hobs); [intros; apply Sub; right; assumption|].
    cbn [map scan_dbs db_row]. unfold expected_scan. cbn [flat_map]. fold (expected_scan c').
    rewrite prefix_agree.
    destruct (starts_with (d_name d) template_word); [exists m; split; assumption|].
    assert (Hd : In d c) by (apply Sub; left; reflexivity).
    rewrite (find_sequences_exact fs c d W Hd Hdbs (Hall d Hd)). cbn [bind]. rewrite Hm. cbn [bind].
    rewrite <- expected_listing_map.
    destruct (sort_fn (map entry_seq (filter is_seq_rel (d_rels d)))) as [|x l].
    + exists m. split; [reflexivity|exact Hobs].
    + eexists. split; [reflexivity|]. cbn [scan_obs map fst snd app]. f_equal. exact Hobs.
Qed.

Theorem scan_all_listing fs c :
  wf_cluster c -> fs_dbs fs = Some (map db_row c) -> (forall d, In d c -> fs_holds_db fs d) ->
  exists m, ScanAllSequences fs = Ok (Some m) /\ scan_obs m = expected_scan c.
Proof.
  intros W Hdbs Hall. destruct (scan_dbs_listing fs c c W Hdbs Hall (fun d H => H)) as (m & Hm & Ho).
  exists m. unfold ScanAllSequences. rewrite Hdbs, Hm. cbn [bind]. auto.
Qed.

(* every sequence relation appears exactly once in the expected listing (and nothing else does) *)
Lemma insert_line_perm a l : Permutation (insert_line a l) (a :: l).
Proof.
  induction l as [|x l IH]; cbn [insert_line]; [apply Permutation_refl|].
  destruct (_ <=? _); [apply Permutation_refl|].
  eapply perm_trans; [apply perm_skip, IH|apply perm_swap].
Qed.
Lemma sort_lines_perm l : Permutation (sort_lines l) l.
Proof.
  induction l as [|a l IH]; cbn [sort_lines]; [constructor|].
  eapply perm_trans; [apply insert_line_perm|]. apply perm_skip, IH.
Qed.
Lemma expected_listing_complete d :
  Permutation (expected_listing d) (map line_of (filter (fun r => is_seq_kind (r_kind r)) (d_rels d))).
Proof. apply sort_lines_perm. Qed.

(* non-vacuity: a database with two sequences among a table satisfies the hypotheses *)
Definition ex_seq (last : Z) (called : bool) : seqfile :=
  {| sq_last := last; sq_logcnt := 32; sq_called := called; sq_hoff := 24; sq_lower := 28; sq_upper := 8136;
     sq_special := 8184; sq_lpflags := 1; sq_hdr0 := zeros 12; sq_hdr18 := zeros 6; sq_free := zeros 8108;
     sq_thdr := zeros 22; sq_hpad := zeros 1; sq_slack := zeros 7; sq_srest := zeros 4; sq_more := [] |}.
Lemma ex_seq_wf last called : int64_ok last -> wf_seq (ex_seq last called).
Proof.
  intros H. unfold wf_seq, ex_seq, int64_ok in *. cbn [sq_last sq_logcnt sq_called sq_hoff sq_lower sq_upper sq_special
    sq_lpflags sq_hdr0 sq_hdr18 sq_free sq_thdr sq_hpad sq_slack sq_srest sq_more].
  rewrite !zeros_len by lia. repeat split; lia.
Qed.

Definition ex_rels : list rel :=
  [ {| r_oid := 16400; r_filenode := 16400; r_name := ["a"]%byte; r_kind := ["S"]%byte; r_seq := ex_seq 7 true |};
    {| r_oid := 16384; r_filenode := 16384; r_name := ["t"]%byte; r_kind := ["r"]%byte; r_seq := ex_seq 0 false |};
    {| r_oid := 16391; r_filenode := 16390; r_name := ["b"]%byte; r_kind := ["S"]%byte; r_seq := ex_seq 20 false |} ].
Definition ex_db : dbase := {| d_oid := 5; d_name := ["d"]%byte; d_rels := ex_rels |}.
Definition ex_fs : fsview :=
  {| fs_dbs := Some [db_row ex_db];
     fs_class := fun _ => Some (rev (map entry_of ex_rels));
     fs_file := fun _ fn => if fn =? 16400 then Some (enc_seq (ex_seq 7 true))
                            else if fn =? 16390 then Some (enc_seq (ex_seq 20 false)) else None |}.
Example listing_example :
  wf_cluster [ex_db] /\ fs_holds_db ex_fs ex_db /\ fs_dbs ex_fs = Some (map db_row [ex_db]) /\
  expected_listing ex_db = [ (["b"]%byte, 16391, 16390, 20, false); (["a"]%byte, 16400, 16400, 7, true) ].
Proof.
  split; [|split; [|split; reflexivity]].
  - split; [|repeat constructor; intros []].
    repeat constructor; cbn; try lia.
  - split.
    + eexists. split; [reflexivity|]. apply Permutation_sym, Permutation_rev.
    + intros r [<-|[<-|[<-|[]]]] H; try reflexivity. discriminate.
Qed.
