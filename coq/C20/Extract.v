Require Import PG.C20.RelmapModel PG.C20.RelmapSpec PG.C20.RelmapFs PG.C20.SeqModel PG.C20.SeqSpec.
Require Extraction. Require ExtrOcamlBasic.
Extraction "model.ml" ParseRelMapFile enc_relmap GetFilenode GetOID first_filenode first_oid ReadGlobalRelMap ReadDatabaseRelMap ReadAllRelMaps GetCatalogName GetEnhancedMappings parseSequenceTuple ParseSequenceFile IsSequenceFile FindSequences ScanAllSequences enc_seq enc_seqdata expected_last expected_called expected_listing expected_scan.
