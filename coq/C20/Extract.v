Require Import PG.C20.RelmapModel PG.C20.RelmapSpec.
Require Extraction. Require ExtrOcamlBasic.
Extraction "model.ml" ParseRelMapFile enc_relmap GetFilenode GetOID first_filenode first_oid.
