(* C13/Spec.v — specification side of C13, written independently of the Go code:
   (1) a lexer for the subset of PostgreSQL's scan.l that an export can reach (it FAILS on anything
       else, so "lexes to these tokens" also says that nothing outside the subset was produced);
   (2) an RFC 4180 CSV reader;  (3) an RFC 8259 JSON reader;
   (4) the expected token streams / records / JSON values of a dump.  No proofs here. *)
From Coq Require Import Strings.String.
Require Import PG.Base.Bytes PG.Base.Value PG.C13.Lib.
Import List ListNotations.
#[local] Open Scope list_scope.

(* ====================================================================== 1. SQL lexer *)
Inductive token :=
| TComment (text : bytes)   (* "--" comment, text after the two dashes up to the line end *)
| TIdent (name : bytes)     (* identifier, after down-casing (bare) or un-doubling (quoted) *)
| TKeyword (w : bytes)      (* bare word that the grammar does not accept as a column/table name *)
| TString (s : bytes)       (* string constant, decoded *)
| TInt (z : Z)              (* integer constant *)
| TNum (text : bytes)       (* numeric constant with fraction and/or exponent *)
| TPunct (c : byte).        (* one of , ( ) [ ] ; and the sign - in front of a number *)

(* scan.l: space [ \t\n\r\f\v], newline [\n\r] *)
Definition is_space (c : byte) : bool := beq c " "%byte || in_range 9 13 c.
Definition is_newline (c : byte) : bool := beq c x0a || beq c x0d.
(* ident_start [A-Za-z\200-\377_], ident_cont [A-Za-z\200-\377_0-9\$] *)
Definition is_ident_start (c : byte) : bool := is_lower c || is_upper c || beq c "_"%byte || (128 <=? b2z c).
Definition is_ident_cont (c : byte) : bool := is_ident_start c || is_digit c || beq c "$"%byte.
(* dolq_start = ident_start, dolq_cont = ident_cont without $ *)
Definition is_dolq_cont (c : byte) : bool := is_ident_start c || is_digit c.
Definition is_self (c : byte) : bool :=
  beq c ","%byte || beq c "("%byte || beq c ")"%byte || beq c "["%byte || beq c "]"%byte || beq c ";"%byte.

(* PostgreSQL 16 kwlist.h: RESERVED_KEYWORD and TYPE_FUNC_NAME_KEYWORD — the words that are not
   accepted as ColId (column / table name) when written bare. *)
Definition pg_keywords : list bytes := Eval compute in map B [
  "all"; "analyse"; "analyze"; "and"; "any"; "array"; "as"; "asc"; "asymmetric"; "both"; "case";
  "cast"; "check"; "collate"; "column"; "constraint"; "create"; "current_catalog"; "current_date";
  "current_role"; "current_time"; "current_timestamp"; "current_user"; "default"; "deferrable";
  "desc"; "distinct"; "do"; "else"; "end"; "except"; "false"; "fetch"; "for"; "foreign"; "from";
  "grant"; "group"; "having"; "in"; "initially"; "intersect"; "into"; "lateral"; "leading";
  "limit"; "localtime"; "localtimestamp"; "not"; "null"; "offset"; "on"; "only"; "or"; "order";
  "placing"; "primary"; "references"; "returning"; "select"; "session_user"; "some"; "symmetric";
  "system_user"; "table"; "then"; "to"; "trailing"; "true"; "union"; "unique"; "user"; "using";
  "variadic"; "when"; "where"; "window"; "with";
  "authorization"; "binary"; "collation"; "concurrently"; "cross"; "current_schema"; "freeze";
  "full"; "ilike"; "inner"; "is"; "isnull"; "join"; "left"; "like"; "natural"; "notnull"; "outer";
  "overlaps"; "right"; "similar"; "tablesample"; "verbose" ]%blit.
Definition is_keyword (w : bytes) : bool := existsb (bytes_eqb w) pg_keywords.
(* an unquoted word: ASCII down-casing (downcase_identifier in a UTF-8 database), then the keyword
   lookup.  (Truncation to NAMEDATALEN-1 = 63 bytes is not modelled: stored names are <= 63 bytes.) *)
Definition word_token (w : bytes) : token :=
  let lw := map ascii_lower w in if is_keyword lw then TKeyword lw else TIdent lw.

(* xd state: after the opening double quote; "" is an escaped quote *)
Fixpoint scan_dq (t : bytes) : option (bytes * bytes) :=
  match t with
  | [] => None
  | c :: r =>
    if beq c """"%byte then
      match r with
      | c2 :: r2 => if beq c2 """"%byte
                    then match scan_dq r2 with Some (s, rest) => Some (""""%byte :: s, rest) | None => None end
                    else Some ([], r)
      | [] => Some ([], r)
      end
    else match scan_dq r with Some (s, rest) => Some (c :: s, rest) | None => None end
  end.

(* xq/xqs states with standard_conforming_strings = on (backslash is an ordinary character):
   after a closing quote, another quote right away is an escaped quote, and white space that
   contains a newline followed by a quote continues the constant ({quotecontinue}).  A '-' met
   while looking for the continuation could start a comment inside it: unsupported, fail. *)
Inductive sqstate := SqIn | SqClosed | SqWs (nl : bool) (close_rest : bytes).
Fixpoint scan_sq (st : sqstate) (t : bytes) : option (bytes * bytes) :=
  match t with
  | [] => match st with SqIn => None | SqClosed => Some ([], []) | SqWs _ cr => Some ([], cr) end
  | c :: r =>
    match st with
    | SqIn => if beq c "'"%byte then scan_sq SqClosed r
              else match scan_sq SqIn r with Some (s, rest) => Some (c :: s, rest) | None => None end
    | SqClosed =>
      if beq c "'"%byte
      then match scan_sq SqIn r with Some (s, rest) => Some ("'"%byte :: s, rest) | None => None end
      else if is_space c then scan_sq (SqWs (is_newline c) t) r
      else if beq c "-"%byte then None
      else Some ([], t)
    | SqWs nl cr =>
      if is_space c then scan_sq (SqWs (nl || is_newline c) cr) r
      else if beq c "'"%byte then (if nl then scan_sq SqIn r else Some ([], cr))
      else if beq c "-"%byte then None
      else Some ([], cr)
    end
  end.

(* xdolq state: the body ends at the first place where the opening delimiter occurs again.
   (scan.l reaches the same position: it consumes non-$ runs, and at a $ either matches the whole
   delimiter or skips "$" + identifier characters, which cannot hide a later $.) *)
Fixpoint scan_dolq (tag t : bytes) : option (bytes * bytes) :=
  if prefix tag t then Some ([], skipn (length tag) t)
  else match t with
       | [] => None
       | c :: r => match scan_dolq tag r with Some (s, rest) => Some (c :: s, rest) | None => None end
       end.

(* numbers: decinteger | decinteger.decinteger? | real with exponent; anything that scan.l would
   call trailing junk (identifier character, second dot) fails *)
Definition lex_number (t : bytes) : option (token * bytes) :=
  let '(ip, r1) := span is_digit t in
  let '(frac, r2) := match r1 with
                     | c :: r => if beq c "."%byte then let '(fp, r') := span is_digit r in (Some fp, r') else (None, r1)
                     | [] => (None, r1)
                     end in
  let '(ex, r3) := match r2 with
                   | c :: r => if beq c "e"%byte || beq c "E"%byte then
                       let '(sg, r') := match r with
                                        | s :: r'' => if beq s "+"%byte || beq s "-"%byte then ([s], r'') else ([], r)
                                        | [] => ([], r) end in
                       let '(ed, r'') := span is_digit r' in (Some (c :: sg ++ ed, is_nil ed), r'')
                     else (None, r2)
                   | [] => (None, r2)
                   end in
  let junk := match r3 with c :: _ => is_ident_start c || beq c "."%byte | [] => false end in
  let bad_exp := match ex with Some (_, true) => true | _ => false end in
  if is_nil ip || junk || bad_exp then None else
  match frac, ex with
  | None, None => Some (TInt (undec ip), r3)
  | _, _ => Some (TNum (ip ++ match frac with Some fp => "."%byte :: fp | None => [] end
                           ++ match ex with Some (e, _) => e | None => [] end), r3)
  end.

(* one token; [t] starts at a non-space character *)
Definition lex_tok (t : bytes) : option (token * bytes) :=
  match t with
  | [] => None
  | c :: r =>
    if beq c "-"%byte then
      match r with
      | d :: r' => if beq d "-"%byte then let '(body, rest) := span (fun x => negb (is_newline x)) r' in Some (TComment body, rest)
                   else if is_digit d then Some (TPunct c, r) else None
      | [] => None
      end
    else if beq c """"%byte then
      match scan_dq r with
      | Some (name, rest) => if is_nil name then None else Some (TIdent name, rest)   (* zero-length delimited identifier *)
      | None => None
      end
    else if beq c "'"%byte then
      match scan_sq SqIn r with Some (s, rest) => Some (TString s, rest) | None => None end
    else if beq c "$"%byte then
      let '(body, r1) := span is_dolq_cont r in
      match r1 with
      | c1 :: r2 =>
        if beq c1 "$"%byte && (match body with [] => true | b0 :: _ => is_ident_start b0 end)
        then match scan_dolq ("$"%byte :: body ++ ["$"%byte]) r2 with
             | Some (s, rest) => Some (TString s, rest) | None => None end
        else None
      | [] => None
      end
    else if is_digit c then lex_number t
    else if is_ident_start c then
      let '(w, r1) := span is_ident_cont t in
      match r1 with
      | q :: _ => if beq q "'"%byte then None (* b'..' x'..' n'..' e'..' prefixes *) else Some (word_token w, r1)
      | [] => Some (word_token w, r1)
      end
    else if is_self c then Some (TPunct c, r)
    else None
  end.

Definition skip_ws (t : bytes) : bytes := dropwhile is_space t.

(* the token sequence of a text, as a relation (the graph of the lexer) ... *)
Inductive Lexes : bytes -> list token -> Prop :=
| Lexes_nil : forall t, skip_ws t = [] -> Lexes t []
| Lexes_cons : forall t tok r toks, lex_tok (skip_ws t) = Some (tok, r) -> Lexes r toks -> Lexes t (tok :: toks).
(* ... and as a function on fuel (every token consumes at least one byte) *)
Fixpoint lex (fuel : nat) (t : bytes) : option (list token) :=
  match fuel with
  | O => None
  | S f => match skip_ws t with
           | [] => Some []
           | t' => match lex_tok t' with
                   | Some (tok, r) => match lex f r with Some l => Some (tok :: l) | None => None end
                   | None => None
                   end
           end
  end.
Definition lex_all (t : bytes) : option (list token) := lex (S (length t)) t.

(* inverse of the escaping used for names inside comments: \\ \n \r *)
Fixpoint comment_unescape (t : bytes) : bytes :=
  match t with
  | [] => []
  | c :: r =>
    if beq c "\"%byte then
      match r with
      | d :: r' => (if beq d "n"%byte then x0a else if beq d "r"%byte then x0d else d) :: comment_unescape r'
      | [] => [c]
      end
    else c :: comment_unescape r
  end.

(* ====================================================================== 2. CSV reader (RFC 4180) *)
(* Records end at LF or CRLF; a field is either unquoted (no quote, comma, CR, LF inside) or quoted
   with "" for a quote; every line is a record (an empty line is a record with one empty field — see
   csv_read_skip below for readers that skip empty lines);
   a last record without line end is accepted.  [None] = not well-formed. *)
Inductive csvstate := CsvStart | CsvUnq | CsvQ | CsvQQ.
(* cur: current field reversed; rec: fields of the current record, reversed *)
Fixpoint csv_go (st : csvstate) (cur : bytes) (rec : list bytes) (t : bytes) : option (list (list bytes)) :=
  match t with
  | [] => match st with
          | CsvStart => match rec with [] => Some [] | _ => Some [rev (rev cur :: rec)] end
          | CsvUnq | CsvQQ => Some [rev (rev cur :: rec)]
          | CsvQ => None
          end
  | c :: r =>
    match st with
    | CsvStart | CsvUnq =>
      if beq c ","%byte then csv_go CsvStart [] (rev cur :: rec) r
      else if beq c x0a then match csv_go CsvStart [] [] r with Some l => Some (rev (rev cur :: rec) :: l) | None => None end
      else if beq c x0d then
        match r with
        | c2 :: r2 => if beq c2 x0a
                      then match csv_go CsvStart [] [] r2 with Some l => Some (rev (rev cur :: rec) :: l) | None => None end
                      else None
        | [] => None
        end
      else if beq c """"%byte then (match st with CsvStart => csv_go CsvQ [] rec r | _ => None end)
      else csv_go CsvUnq (c :: cur) rec r
    | CsvQ => if beq c """"%byte then csv_go CsvQQ cur rec r else csv_go CsvQ (c :: cur) rec r
    | CsvQQ =>
      if beq c """"%byte then csv_go CsvQ (c :: cur) rec r
      else if beq c ","%byte then csv_go CsvStart [] (rev cur :: rec) r
      else if beq c x0a then match csv_go CsvStart [] [] r with Some l => Some (rev (rev cur :: rec) :: l) | None => None end
      else if beq c x0d then
        match r with
        | c2 :: r2 => if beq c2 x0a
                      then match csv_go CsvStart [] [] r2 with Some l => Some (rev (rev cur :: rec) :: l) | None => None end
                      else None
        | [] => None
        end
      else None
    end
  end.
Definition csv_read (t : bytes) : option (list (list bytes)) := csv_go CsvStart [] [] t.

(* Readers that SKIP empty lines (Go's encoding/csv Reader, and most "standard" readers, do not
   return a record for an empty line).  An empty line is a line end (LF or CRLF) met where a record
   would begin, i.e. outside a quoted field: line ends inside a quoted field belong to the field and
   are kept by those readers.  [inq]: inside a quoted field (a doubled quote leaves and re-enters);
   [fresh]: at the beginning of a line that is not inside a quoted field.
   [csv_blank inq fresh t] = the text has such an empty line;
   [csv_drop_blank inq fresh t] = the text without its empty lines;
   [csv_read_skip] = the RFC 4180 reader above applied after the empty lines have been dropped. *)
Fixpoint csv_blank (inq fresh : bool) (t : bytes) : bool :=
  match t with
  | [] => false
  | c :: r =>
    if inq then csv_blank (negb (beq c """"%byte)) false r
    else if beq c x0a then fresh || csv_blank false true r
    else if beq c x0d then
      (fresh && match r with c2 :: _ => beq c2 x0a | [] => false end) || csv_blank false false r
    else if beq c """"%byte then csv_blank true false r
    else csv_blank false false r
  end.
Fixpoint csv_drop_blank (inq fresh : bool) (t : bytes) : bytes :=
  match t with
  | [] => []
  | c :: r =>
    if inq then c :: csv_drop_blank (negb (beq c """"%byte)) false r
    else if beq c x0a then (if fresh then csv_drop_blank false true r else c :: csv_drop_blank false true r)
    else if beq c x0d then
      match r with
      | c2 :: r2 => if fresh && beq c2 x0a then csv_drop_blank false true r2
                    else c :: csv_drop_blank false false r
      | [] => [c]
      end
    else if beq c """"%byte then c :: csv_drop_blank true false r
    else c :: csv_drop_blank false false r
  end.
Definition csv_no_blank_line (t : bytes) : Prop := csv_blank false true t = false.
Definition csv_read_skip (t : bytes) : option (list (list bytes)) := csv_read (csv_drop_blank false true t).

(* ====================================================================== 3. JSON reader (RFC 8259) *)
Inductive json :=
| JNull | JBool (b : bool) | JNum (text : bytes) | JStr (s : bytes)
| JArr (l : list json) | JObj (m : list (bytes * json)).

Definition is_json_ws (c : byte) : bool := beq c " "%byte || beq c x09 || beq c x0a || beq c x0d.
Definition json_skip (t : bytes) : bytes := dropwhile is_json_ws t.

(* number = optional minus, 0 or a digit string without leading zero, optional fraction
   (dot, digits), optional exponent (e or E, optional sign, digits) *)
Definition json_exp_ok (r : bytes) : bool :=
  match r with
  | [] => true
  | c :: r1 => (beq c "e"%byte || beq c "E"%byte) &&
               let r2 := match r1 with s :: r' => if beq s "+"%byte || beq s "-"%byte then r' else r1 | [] => r1 end in
               negb (is_nil r2) && forallb is_digit r2
  end.
Definition json_num_ok (t : bytes) : bool :=
  let t1 := match t with c :: r => if beq c "-"%byte then r else t | [] => t end in
  let '(ip, r1) := span is_digit t1 in
  negb (is_nil ip) && (match ip with c :: _ :: _ => negb (beq c "0"%byte) | _ => true end) &&
  match r1 with
  | c :: r => if beq c "."%byte then let '(fp, r2) := span is_digit r in negb (is_nil fp) && json_exp_ok r2
              else json_exp_ok r1
  | [] => true
  end.
Definition is_json_numchar (c : byte) : bool :=
  is_digit c || beq c "-"%byte || beq c "+"%byte || beq c "."%byte || beq c "e"%byte || beq c "E"%byte.

Definition hexval (c : byte) : option Z :=
  if is_digit c then Some (b2z c - 48)
  else if in_range 97 102 c then Some (b2z c - 87)
  else if in_range 65 70 c then Some (b2z c - 55) else None.
(* UTF-8 encoding of a BMP code point that is not a surrogate *)
Definition utf8_enc (cp : Z) : option bytes :=
  if cp <? 128 then Some [z2b cp]
  else if cp <? 2048 then Some [z2b (192 + cp / 64); z2b (128 + cp mod 64)]
  else if (55296 <=? cp) && (cp <=? 57343) then None   (* surrogate pairs: not needed, unsupported *)
  else Some [z2b (224 + cp / 4096); z2b (128 + (cp / 64) mod 64); z2b (128 + cp mod 64)].

(* after the opening quote.  A raw control character (< 0x20) is not allowed in a JSON string. *)
Fixpoint json_string (t : bytes) : option (bytes * bytes) :=
  match t with
  | [] => None
  | c :: r =>
    if beq c """"%byte then Some ([], r)
    else if b2z c <? 32 then None
    else if beq c "\"%byte then
      match r with
      | e :: r1 =>
        if beq e "u"%byte then
          match r1 with
          | h1 :: h2 :: h3 :: h4 :: r2 =>
            match hexval h1, hexval h2, hexval h3, hexval h4 with
            | Some a, Some b, Some c', Some d =>
              match utf8_enc (((a * 16 + b) * 16 + c') * 16 + d), json_string r2 with
              | Some u, Some (s, rest) => Some (u ++ s, rest)
              | _, _ => None
              end
            | _, _, _, _ => None
            end
          | _ => None
          end
        else
          let oc := if beq e """"%byte then Some e else if beq e "\"%byte then Some e else if beq e "/"%byte then Some e
                    else if beq e "b"%byte then Some x08 else if beq e "f"%byte then Some x0c
                    else if beq e "n"%byte then Some x0a else if beq e "r"%byte then Some x0d
                    else if beq e "t"%byte then Some x09 else None in
          match oc, json_string r1 with
          | Some x, Some (s, rest) => Some (x :: s, rest)
          | _, _ => None
          end
      | [] => None
      end
    else match json_string r with Some (s, rest) => Some (c :: s, rest) | None => None end
  end.

(* value / array elements / object members, on fuel (nesting + length) *)
Fixpoint json_value (fuel : nat) (t : bytes) : option (json * bytes) :=
  match fuel with
  | O => None
  | S f =>
    match json_skip t with
    | [] => None
    | c :: r =>
      if beq c """"%byte then match json_string r with Some (s, rest) => Some (JStr s, rest) | None => None end
      else if beq c "{"%byte then
        match json_skip r with
        | c2 :: r2 => if beq c2 "}"%byte then Some (JObj [], r2)
                      else match json_members f (c2 :: r2) with Some (m, rest) => Some (JObj m, rest) | None => None end
        | [] => None
        end
      else if beq c "["%byte then
        match json_skip r with
        | c2 :: r2 => if beq c2 "]"%byte then Some (JArr [], r2)
                      else match json_elements f (c2 :: r2) with Some (l, rest) => Some (JArr l, rest) | None => None end
        | [] => None
        end
      else if prefix (B "null") (c :: r) then Some (JNull, skipn 4 (c :: r))
      else if prefix (B "true") (c :: r) then Some (JBool true, skipn 4 (c :: r))
      else if prefix (B "false") (c :: r) then Some (JBool false, skipn 5 (c :: r))
      else let '(nt, rest) := span is_json_numchar (c :: r) in
           if json_num_ok nt then Some (JNum nt, rest) else None
    end
  end
with json_elements (fuel : nat) (t : bytes) : option (list json * bytes) :=
  match fuel with
  | O => None
  | S f =>
    match json_value f t with
    | Some (v, r) =>
      match json_skip r with
      | c :: r1 => if beq c ","%byte then match json_elements f r1 with Some (l, rest) => Some (v :: l, rest) | None => None end
                   else if beq c "]"%byte then Some ([v], r1) else None
      | [] => None
      end
    | None => None
    end
  end
with json_members (fuel : nat) (t : bytes) : option (list (bytes * json) * bytes) :=
  match fuel with
  | O => None
  | S f =>
    match json_skip t with
    | c :: r =>
      if beq c """"%byte then
        match json_string r with
        | Some (k, r1) =>
          match json_skip r1 with
          | c1 :: r2 =>
            if beq c1 ":"%byte then
              match json_value f r2 with
              | Some (v, r3) =>
                match json_skip r3 with
                | c3 :: r4 => if beq c3 ","%byte then match json_members f r4 with Some (m, rest) => Some ((k, v) :: m, rest) | None => None end
                              else if beq c3 "}"%byte then Some ([(k, v)], r4) else None
                | [] => None
                end
              | None => None
              end
            else None
          | [] => None
          end
        | None => None
        end
      else None
    | [] => None
    end
  end.
(* a complete document: one value, then only white space *)
Definition json_read_fuel (fuel : nat) (t : bytes) : option json :=
  match json_value fuel t with
  | Some (v, rest) => if is_nil (json_skip rest) then Some v else None
  | None => None
  end.
Definition json_read (t : bytes) : option json := json_read_fuel (S (length t)) t.

(* ====================================================================== 4. expectations *)
Require Import PG.C13.Model.   (* only for the dump record types, the float classes, the type-name
                                  template pgTypeToSQL and %v of []byte *)

Fixpoint tjoin (sep : list token) (l : list (list token)) : list token :=
  match l with
  | [] => []
  | [x] => x
  | x :: r => x ++ sep ++ tjoin sep r
  end.
(* words of a text separated by single spaces *)
Fixpoint words_acc (cur : bytes) (t : bytes) : list bytes :=
  match t with
  | [] => [rev cur]
  | c :: r => if beq c " "%byte then rev cur :: words_acc [] r else words_acc (c :: cur) r
  end.
Definition words (t : bytes) : list bytes := words_acc [] t.
Definition kw (s : blit) : token := word_token (B s).
Arguments kw s%blit.
Definition comma : list token := [TPunct ","%byte].

(* how a name is written inside a one-line comment so that it can be read back ([comment_unescape]) *)
Definition cesc (s : bytes) : bytes :=
  flat_map (fun c => if beq c "\"%byte then B "\\" else if beq c x0a then B "\n" else if beq c x0d then B "\r" else [c]) s.

Section Expect.
  Variable show_f64 : Z -> bytes.
  Variable show_f32 : Z -> bytes.
  Variable json_marshal : gval -> bytes.
  (* the text chosen for a JSON object; C13_json says what reading it back gives *)
  Variable json_text : list (bytes * gval) -> bytes.

  (* the tokens of a numeric text  -?digits[.digits][e[+-]digits] *)
  Definition num_tokens (t : bytes) : list token :=
    let '(sg, body) := match t with c :: r => if beq c "-"%byte then ([TPunct c], r) else ([], t) | [] => ([], t) end in
    sg ++ [if forallb is_digit body then TInt (undec body) else TNum body].
  Definition int_tokens (z : Z) : list token := if z <? 0 then [TPunct "-"%byte; TInt (- z)] else [TInt z].
  Definition float_tokens (c : fclass) (text : bytes) : list token :=
    match c with
    | FFinite => num_tokens text
    | FNaN => [TString (B "NaN")] | FPosInf => [TString (B "Infinity")] | FNegInf => [TString (B "-Infinity")]
    end.

  (* the JSON value a Go value stands for (what mapToJSON must denote) *)
  Definition float_json (c : fclass) (text : bytes) : json :=
    match c with
    | FFinite => JNum text
    | FNaN => JStr (B "NaN") | FPosInf => JStr (B "Infinity") | FNegInf => JStr (B "-Infinity")
    end.
  Fixpoint to_json (v : gval) : json :=
    match v with
    | VNil => JNull
    | VBool b => JBool b
    | VInt z | VI16 z | VI32 z | VI64 z | VU32 z => JNum (dec z)
    | VF32 b => float_json (f32_class b) (show_f32 b)
    | VF64 b => float_json (f64_class b) (show_f64 b)
    | VStr s => JStr s
    | VMap m => JObj (map_entries (map (fun kv => (fst kv, to_json (snd kv))) m))
    | VList l => JArr (map to_json l)
    | VListNil => JArr []
    | VU16 z | VU64 z => JStr (dec z)          (* values of other Go types are exported as their text *)
    | VBytes s => JStr (show_bytes s)
    end.
  Definition map_json (m : list (bytes * gval)) : json := to_json (VMap m).

  (* tokens of one SQL value: NULL, TRUE/FALSE, an optionally signed number, one string constant,
     ARRAY [ v , v ... ] recursively, a JSON object as one string constant *)
  Fixpoint value_tokens (v : gval) : list token :=
    match v with
    | VNil => [kw "NULL"]
    | VBool b => [if b then kw "TRUE" else kw "FALSE"]
    | VInt z | VI16 z | VI32 z | VI64 z | VU32 z => int_tokens z
    | VF32 b => float_tokens (f32_class b) (show_f32 b)
    | VF64 b => float_tokens (f64_class b) (show_f64 b)
    | VStr s => [TString s]
    | VList l => kw "ARRAY" :: TPunct "["%byte :: tjoin comma (map value_tokens l) ++ [TPunct "]"%byte]
    | VListNil => [kw "ARRAY"; TPunct "["%byte; TPunct "]"%byte]
    | VMap m => [TString (json_text m)]
    | VU16 z | VU64 z => [TString (dec z)]
    | VBytes s => [TString (show_bytes s)]
    end.

  Definition cell_tokens (r : row) (c : column) : list token :=
    match map_get r (c_name c) with
    | None | Some VNil => [kw "NULL"]
    | Some v => value_tokens v
    end.
  Definition type_tokens (c : column) : list token := map word_token (words (pgTypeToSQL (c_type c) (c_typid c))).
  Definition coldef_tokens (c : column) : list token := TIdent (c_name c) :: type_tokens c.
  Definition row_tokens (cols : list column) (r : row) : list token :=
    TPunct "("%byte :: tjoin comma (map (cell_tokens r) cols) ++ [TPunct ")"%byte].

  (* one table: a comment, CREATE TABLE IF NOT EXISTS name ( coldefs ) ; and, when there are rows,
     INSERT INTO name ( columns ) VALUES ( row ) , ( row ) ... ; — the shape is fixed by the template,
     every stored name is one TIdent, every stored value the tokens of [value_tokens] *)
  Definition table_tokens (t : table) : list token :=
    [TComment (B " Table: " ++ cesc (t_name t) ++ B " (" ++ dec (t_rowcount t) ++ B " rows)");
     kw "CREATE"; kw "TABLE"; kw "IF"; kw "NOT"; kw "EXISTS"; TIdent (t_name t); TPunct "("%byte]
    ++ tjoin comma (map coldef_tokens (t_cols t))
    ++ [TPunct ")"%byte; TPunct ";"%byte]
    ++ match t_rows t with
       | [] => []
       | _ => [kw "INSERT"; kw "INTO"; TIdent (t_name t); TPunct "("%byte]
              ++ tjoin comma (map (fun c => [TIdent (c_name c)]) (t_cols t))
              ++ [TPunct ")"%byte; kw "VALUES"]
              ++ tjoin comma (map (row_tokens (t_cols t)) (t_rows t)) ++ [TPunct ";"%byte]
       end.
  Definition database_tokens (d : database) : list token := concat (map table_tokens (d_tables d)).
  Definition dump_tokens (now : bytes) (dbs : list database) : list token :=
    [TComment (B " PostgreSQL dump generated by pgread"); TComment (B " Generated at: " ++ now)]
    ++ concat (map (fun d => [TComment (B " Database: " ++ cesc (d_name d) ++ B " (OID: " ++ dec (d_oid d) ++ B ")");
                              TComment (B " \connect " ++ cesc (d_name d))] ++ database_tokens d) dbs).

  (* CSV: the text of a cell, and the records a table's export must read back as *)
  Definition csv_text (v : gval) : bytes :=
    match v with
    | VNil => []
    | VBool b => if b then B "true" else B "false"
    | VInt z | VI16 z | VI32 z | VI64 z | VU32 z | VU16 z | VU64 z => dec z
    | VF32 b => show_f32 b
    | VF64 b => show_f64 b
    | VStr s | VBytes s => s
    | VList _ | VListNil | VMap _ => json_marshal v
    end.
  Definition csv_cell_text (r : row) (c : column) : bytes :=
    match map_get r (c_name c) with None => [] | Some v => csv_text v end.
  Definition csv_records (t : table) : list (list bytes) :=
    map c_name (t_cols t) :: map (fun r => map (csv_cell_text r) (t_cols t)) (t_rows t).
End Expect.

(* ====================================================================== 5. well-formed dumps *)
(* Names are non-empty (PostgreSQL has no empty identifier; "" would be a zero-length delimited
   identifier) and a column's type name is what the tool's own TypeName() table yields: empty,
   "oid:<typid>", or a plain lower-case word. *)
Definition type_name_ok (c : column) : Prop :=
  c_type c = [] \/ c_type c = B "oid:" ++ dec (c_typid c) \/ isSafeIdent (c_type c) = true.
Definition wf_col (c : column) : Prop := c_name c <> [] /\ type_name_ok c.
Definition wf_table (t : table) : Prop := t_name t <> [] /\ Forall wf_col (t_cols t).
Definition wf_database (d : database) : Prop := Forall wf_table (d_tables d).
Definition no_newline (s : bytes) : Prop := forallb (fun c => negb (is_newline c)) s = true.
