(* C13/Lib.v — byte-string helpers shared by the C13 model and specification:
   character classes, span/join, strings.Contains, decimal rendering.  No proofs here. *)
Require Import PG.Base.Bytes.

(* byte-string literals: B "abc" is the list of the three bytes (parsed directly to a byte list,
   so that no Coq [string] appears in the extracted code) *)
Inductive blit := BLit (l : list byte).
Definition blit_parse (l : list byte) : blit := BLit l.
Definition blit_print (b : blit) : list byte := match b with BLit l => l end.
Declare Scope blit_scope.
Delimit Scope blit_scope with blit.
String Notation blit blit_parse blit_print : blit_scope.
Definition B (s : blit) : bytes := match s with BLit l => l end.
Arguments B s%blit.

Definition beq (a b : byte) : bool := Byte.eqb a b.
Fixpoint bytes_eqb (a b : bytes) : bool :=
  match a, b with
  | [], [] => true
  | x :: a', y :: b' => beq x y && bytes_eqb a' b'
  | _, _ => false
  end.
Definition is_nil (a : bytes) : bool := match a with [] => true | _ => false end.

(* p is a prefix of t *)
Fixpoint prefix (p t : bytes) : bool :=
  match p, t with
  | [], _ => true
  | x :: p', y :: t' => beq x y && prefix p' t'
  | _ :: _, [] => false
  end.
(* strings.Contains(t, pat) *)
Fixpoint contains (t pat : bytes) : bool :=
  prefix pat t || match t with [] => false | _ :: t' => contains t' pat end.

Fixpoint span (p : byte -> bool) (t : bytes) : bytes * bytes :=
  match t with
  | [] => ([], [])
  | c :: r => if p c then let '(a, b) := span p r in (c :: a, b) else ([], t)
  end.
Fixpoint dropwhile (p : byte -> bool) (t : bytes) : bytes :=
  match t with [] => [] | c :: r => if p c then dropwhile p r else t end.

(* strings.Join *)
Fixpoint join (sep : bytes) (l : list bytes) : bytes :=
  match l with
  | [] => []
  | [x] => x
  | x :: r => x ++ sep ++ join sep r
  end.

(* character classes (ASCII) *)
Definition in_range (lo hi : Z) (c : byte) : bool := (lo <=? b2z c) && (b2z c <=? hi).
Definition is_digit (c : byte) : bool := in_range 48 57 c.
Definition is_lower (c : byte) : bool := in_range 97 122 c.
Definition is_upper (c : byte) : bool := in_range 65 90 c.
Definition ascii_lower (c : byte) : byte := if is_upper c then z2b (b2z c + 32) else c.
Definition ascii_upper (c : byte) : byte := if is_lower c then z2b (b2z c - 32) else c.

(* fmt %d *)
Definition digit (d : Z) : byte := z2b (48 + d).
Fixpoint dec_fuel (fuel : nat) (n : Z) (acc : bytes) : bytes :=
  match fuel with
  | O => acc
  | S f => let acc' := digit (n mod 10) :: acc in
           if n <? 10 then acc' else dec_fuel f (n / 10) acc'
  end.
(* n >= 0; a number has at most log2 n + 1 decimal digits *)
Definition dec_nat (n : Z) : bytes := dec_fuel (S (Z.to_nat (Z.log2 n))) n [].
Definition dec (z : Z) : bytes := if z <? 0 then "-"%byte :: dec_nat (- z) else dec_nat z.

(* value of a digit string *)
Definition undec (t : bytes) : Z := fold_left (fun acc c => acc * 10 + (b2z c - 48)) t 0.

(* lexicographic order on bytes (Go string <) *)
Fixpoint bytes_ltb (a b : bytes) : bool :=
  match a, b with
  | [], [] => false
  | [], _ :: _ => true
  | _ :: _, [] => false
  | x :: a', y :: b' => if b2z x <? b2z y then true else if b2z y <? b2z x then false else bytes_ltb a' b'
  end.

(* hex digit, lower case *)
Definition hexdigit (d : Z) : byte := if d <? 10 then z2b (48 + d) else z2b (87 + d).

(* Go map semantics on an association list in insertion order: the last binding of a key wins;
   [sort_kv] is sort.Strings on the (distinct) keys, carrying the values along. *)
Section MapEntries.
  Context {A : Type}.
  Definition dedup_last (l : list (bytes * A)) : list (bytes * A) :=
    fold_right (fun kv acc => if existsb (fun x => bytes_eqb (fst x) (fst kv)) acc then acc else kv :: acc) [] l.
  Fixpoint insert_kv (kv : bytes * A) (l : list (bytes * A)) : list (bytes * A) :=
    match l with
    | [] => [kv]
    | x :: r => if bytes_ltb (fst x) (fst kv) then x :: insert_kv kv r else kv :: l
    end.
  Definition sort_kv (l : list (bytes * A)) : list (bytes * A) := fold_right insert_kv [] l.
  Definition map_entries (l : list (bytes * A)) : list (bytes * A) := sort_kv (dedup_last l).
  (* m[k] *)
  Definition map_get (l : list (bytes * A)) (k : bytes) : option A :=
    match find (fun x => bytes_eqb (fst x) k) (rev l) with Some x => Some (snd x) | None => None end.
End MapEntries.
