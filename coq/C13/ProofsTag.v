(* C13/ProofsTag.v — the dollar-quote tag search of quoteLiteral never runs out of fuel.

   The candidates $str$, $str0$, $str1$, … are pairwise distinct and none is a prefix of another
   (digits contain no '$'), so two different candidates cannot occur at the same position of s1;
   if m candidates all occur in s1 then m <= length s1 (pigeonhole).  With fuel S (length s1) an
   out-of-fuel run would need length s1 + 2 occurring candidates. *)
From Coq Require Import Strings.String.
Require Import PG.Base.Bytes PG.Base.Value PG.C13.Lib PG.C13.Model PG.C13.Spec PG.C13.ProofsLex.
Import List ListNotations.
#[local] Open Scope list_scope.

(* ---------- occurrence position of a pattern ---------- *)
Fixpoint find_pos (pat t : bytes) : nat :=
  if prefix pat t then O else match t with [] => O | _ :: t' => S (find_pos pat t') end.

Lemma prefix_nil_r p : prefix p [] = true -> p = [].
Proof. destruct p; [reflexivity|discriminate]. Qed.

Lemma find_pos_spec pat : pat <> [] -> forall t, contains t pat = true ->
  (find_pos pat t < length t)%nat /\ prefix pat (skipn (find_pos pat t) t) = true.
Proof.
  intros Hne. induction t as [|c t IH]; intros H.
  - cbn [contains] in H. rewrite orb_false_r in H. apply prefix_nil_r in H. contradiction.
  - cbn [contains] in H. cbn [find_pos]. destruct (prefix pat (c :: t)) eqn:E.
    + cbn [skipn length]. split; [lia|exact E].
    + cbn [orb] in H. destruct (IH H) as [H1 H2]. cbn [skipn length]. split; [lia|exact H2].
Qed.

(* ---------- prefixes ---------- *)
Lemma prefix_both a : forall b u, prefix a u = true -> prefix b u = true ->
  prefix a b = true \/ prefix b a = true.
Proof.
  induction a as [|x a IH]; intros b u Ha Hb.
  - left. reflexivity.
  - destruct b as [|y b]; [right; reflexivity|].
    destruct u as [|z u]; [discriminate Ha|].
    cbn [prefix] in *. apply andb_true_iff in Ha. apply andb_true_iff in Hb.
    destruct Ha as [Ha1 Ha2]. destruct Hb as [Hb1 Hb2].
    apply beq_eq in Ha1. apply beq_eq in Hb1. subst x y. rewrite beq_refl. cbn [andb].
    exact (IH b u Ha2 Hb2).
Qed.

Lemma prefix_app_cancel p a b : prefix (p ++ a) (p ++ b) = prefix a b.
Proof. induction p as [|x p IH]; cbn [app prefix]; [reflexivity|]. rewrite beq_refl. cbn [andb]. exact IH. Qed.

(* two $-terminated $-free bodies, one a prefix of the other, are equal *)
Lemma prefix_dollar_eq ds : forall ds', nodollar ds -> nodollar ds' ->
  prefix (ds ++ ["$"%byte]) (ds' ++ ["$"%byte]) = true -> ds = ds'.
Proof.
  unfold nodollar. induction ds as [|d ds IH]; intros [|d' ds'] H1 H2 Hp.
  - reflexivity.
  - cbn [app prefix] in Hp. apply andb_true_iff in Hp. destruct Hp as [Hp _].
    cbn [forallb] in H2. apply andb_true_iff in H2. destruct H2 as [H2 _].
    rewrite beq_sym in Hp. rewrite Hp in H2. cbn [negb] in H2. discriminate H2.
  - cbn [app prefix] in Hp. apply andb_true_iff in Hp. destruct Hp as [Hp _].
    cbn [forallb] in H1. apply andb_true_iff in H1. destruct H1 as [H1 _].
    rewrite Hp in H1. cbn [negb] in H1. discriminate H1.
  - cbn [app prefix] in Hp. apply andb_true_iff in Hp. destruct Hp as [Hp1 Hp2].
    apply beq_eq in Hp1. subst d'.
    cbn [forallb] in H1, H2. apply andb_true_iff in H1. apply andb_true_iff in H2.
    destruct H1 as [_ H1]. destruct H2 as [_ H2].
    f_equal. apply IH; assumption.
Qed.

Lemma digits_nodollar ds : forallb is_digit ds = true -> nodollar ds.
Proof.
  unfold nodollar. intros H. apply forallb_forall. intros c Hc.
  rewrite forallb_forall in H. apply digit_dolq, H, Hc.
Qed.

(* ---------- pigeonhole ---------- *)
Lemma NoDup_map_on {A B} (f : A -> B) l : NoDup l ->
  (forall x y, In x l -> In y l -> f x = f y -> x = y) -> NoDup (map f l).
Proof.
  induction 1 as [|a l Hna Hnd IH]; intros Hinj; cbn [map]; constructor.
  - intros Hin. apply in_map_iff in Hin. destruct Hin as (y & Hy & Hyl).
    assert (Hya : y = a) by (apply Hinj; [right; exact Hyl|left; reflexivity|exact Hy]).
    subst y. contradiction.
  - apply IH. intros x y Hx Hy. apply Hinj; right; assumption.
Qed.

Lemma pigeon (f : nat -> nat) m n : (forall j, (j < m)%nat -> (f j < n)%nat) ->
  (forall j j', (j < m)%nat -> (j' < m)%nat -> f j = f j' -> j = j') -> (m <= n)%nat.
Proof.
  intros Hr Hi.
  assert (Hnd : NoDup (map f (seq 0 m))).
  { apply NoDup_map_on; [apply seq_NoDup|]. intros x y Hx Hy.
    apply in_seq in Hx. apply in_seq in Hy. apply Hi; lia. }
  assert (Hinc : incl (map f (seq 0 m)) (seq 0 n)).
  { intros y Hy. apply in_map_iff in Hy. destruct Hy as (x & Hxy & Hx). subst y.
    apply in_seq in Hx. apply in_seq. specialize (Hr x). lia. }
  pose proof (NoDup_incl_length Hnd Hinc) as H. rewrite map_length, !seq_length in H. exact H.
Qed.

(* ---------- the candidates ---------- *)
Definition digs (k : nat) : bytes := match k with O => [] | S j => dec (Z.of_nat j) end.
Definition cand (k : nat) : bytes := match k with O => tag0 | S j => tag_n (Z.of_nat j) end.

Lemma cand_eq k : cand k = B "$str" ++ digs k ++ B "$".
Proof. destruct k; reflexivity. Qed.

Lemma cand_nonempty k : cand k <> [].
Proof. rewrite cand_eq. discriminate. Qed.

(* out of fuel means that fuel+1 consecutive candidates all occur *)
Lemma find_tag_none s1 fuel : forall k, find_tag fuel (Z.of_nat k) (cand k) s1 = None ->
  forall j, (k <= j <= k + fuel)%nat -> contains s1 (cand j) = true.
Proof.
  induction fuel as [|f IH]; intros k H j Hj; cbn [find_tag] in H.
  - destruct (contains s1 (cand k)) eqn:E; [|discriminate H]. replace j with k by lia. exact E.
  - destruct (contains s1 (cand k)) eqn:E; [|discriminate H].
    destruct (Nat.eq_dec j k) as [->|Hne]; [exact E|].
    apply (IH (S k)); [|lia].
    replace (Z.of_nat (S k)) with (Z.of_nat k + 1) by lia. exact H.
Qed.

Section Tag.
  Hypothesis dec_inj : forall a b, dec a = dec b -> a = b.
  Hypothesis dec_digits : forall n, 0 <= n -> forallb is_digit (dec n) = true.
  Hypothesis dec_nonempty : forall z, dec z <> [].

  Lemma digs_digits k : forallb is_digit (digs k) = true.
  Proof. destruct k as [|j]; [reflexivity|]. cbn [digs]. apply dec_digits. lia. Qed.

  Lemma digs_inj j j' : digs j = digs j' -> j = j'.
  Proof.
    destruct j as [|j], j' as [|j']; cbn [digs]; intros H.
    - reflexivity.
    - symmetry in H. apply dec_nonempty in H. contradiction.
    - apply dec_nonempty in H. contradiction.
    - apply dec_inj in H. lia.
  Qed.

  (* no candidate is a prefix of another one *)
  Lemma cand_prefix_inj j j' : prefix (cand j) (cand j') = true -> j = j'.
  Proof.
    intros H. rewrite !cand_eq, prefix_app_cancel in H.
    change (B "$") with ["$"%byte] in H.
    apply digs_inj. apply prefix_dollar_eq; [apply digits_nodollar, digs_digits ..|exact H].
  Qed.

  Theorem find_tag_enough : forall s1, find_tag (S (length s1)) 0 tag0 s1 <> None.
  Proof.
    intros s1 H.
    pose proof (find_tag_none s1 (S (length s1)) 0%nat H) as Hc.
    assert (Hle : (S (length s1) <= length s1)%nat).
    { apply (pigeon (fun j => find_pos (cand j) s1)).
      - intros j Hj.
        destruct (find_pos_spec (cand j) (cand_nonempty j) s1 (Hc j ltac:(lia))) as [P _]. exact P.
      - intros j j' Hj Hj' He. cbv beta in He.
        destruct (find_pos_spec (cand j) (cand_nonempty j) s1 (Hc j ltac:(lia))) as [_ P1].
        destruct (find_pos_spec (cand j') (cand_nonempty j') s1 (Hc j' ltac:(lia))) as [_ P2].
        rewrite He in P1.
        destruct (prefix_both _ _ _ P1 P2) as [P|P].
        + apply cand_prefix_inj. exact P.
        + symmetry. apply cand_prefix_inj. exact P. }
    lia.
  Qed.

  Theorem quoteLiteral_nonempty : forall s, quoteLiteral s <> [].
  Proof.
    intros s. unfold quoteLiteral.
    destruct (contains s ["'"%byte] && contains s ["\"%byte]); [|discriminate].
    replace (S (S (length s))) with (S (length (s ++ ["$"%byte])))
      by (rewrite app_length; cbn [length]; lia).
    destruct (find_tag _ 0 tag0 (s ++ ["$"%byte])) as [tag|] eqn:E.
    - destruct (find_tag_some dec_digits _ _ _ _ _ (Z.le_refl 0) tag0_form E) as [(ds & _ & ->) _].
      discriminate.
    - exfalso. exact (find_tag_enough _ E).
  Qed.
End Tag.
