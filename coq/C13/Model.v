(* C13/Model.v — Gallina model of pgdump/sql.go and pgdump/csv.go (worktree verif-C13, after the
   fix: commits for D44 D45 D46 D47 D39 D48, and verif-C13b: lone empty CSV field written as "").  Go strings are [bytes].  No proofs here. *)
From Coq Require Import Strings.String.
Require Import PG.Base.Bytes PG.Base.Value PG.C13.Lib.
Import List ListNotations.
#[local] Open Scope list_scope.

(* ---------- dump structures (pgdump.go) ---------- *)
Record column := { c_name : bytes; c_type : bytes; c_typid : Z }.
Record table := { t_name : bytes; t_cols : list column; t_rows : list row; t_rowcount : Z }.
Record database := { d_name : bytes; d_oid : Z; d_tables : list table }.

(* strings.ReplaceAll(s, q, qq) for a one-byte q *)
Definition double_char (q : byte) (s : bytes) : bytes :=
  flat_map (fun c => if beq c q then [q; q] else [c]) s.

(* sql.go commentSafe: strings.NewReplacer("\\","\\\\","\n","\\n","\r","\\r") *)
Definition comment_escape_char (c : byte) : bytes :=
  if beq c "\"%byte then ["\"%byte; "\"%byte]
  else if beq c x0a then ["\"%byte; "n"%byte]
  else if beq c x0d then ["\"%byte; "r"%byte]
  else [c].
Definition commentSafe (s : bytes) : bytes := flat_map comment_escape_char s.

(* sql.go isReservedWord: the keys of the map literal *)
Definition reserved_words : list bytes := Eval compute in map B [
  "all"; "analyse"; "analyze"; "and"; "any"; "array"; "as"; "asc"; "asymmetric"; "both";
  "case"; "cast"; "check"; "collate"; "column"; "constraint"; "create"; "current_catalog";
  "current_date"; "current_role"; "current_time"; "current_timestamp"; "current_user";
  "default"; "deferrable"; "desc"; "distinct"; "do"; "else"; "end"; "except"; "false";
  "fetch"; "for"; "foreign"; "from"; "grant"; "group"; "having"; "in"; "initially";
  "intersect"; "into"; "lateral"; "leading"; "limit"; "localtime"; "localtimestamp"; "not";
  "null"; "offset"; "on"; "only"; "or"; "order"; "placing"; "primary"; "references";
  "returning"; "select"; "session_user"; "some"; "symmetric"; "table"; "then"; "to";
  "trailing"; "true"; "union"; "unique"; "user"; "using"; "variadic"; "when"; "where";
  "window"; "with"; "system_user";
  "authorization"; "binary"; "collation"; "concurrently"; "cross"; "current_schema"; "freeze";
  "full"; "ilike"; "inner"; "is"; "isnull"; "join"; "left"; "like"; "natural"; "notnull";
  "outer"; "overlaps"; "right"; "similar"; "tablesample"; "verbose";
  "between"; "bigint"; "bit"; "boolean"; "char"; "character"; "coalesce"; "dec"; "decimal";
  "exists"; "extract"; "float"; "greatest"; "grouping"; "inout"; "int"; "integer"; "interval";
  "json"; "json_array"; "json_arrayagg"; "json_exists"; "json_object"; "json_objectagg";
  "json_query"; "json_scalar"; "json_serialize"; "json_table"; "json_value"; "least";
  "merge_action"; "national"; "nchar"; "none"; "normalize"; "nullif"; "numeric"; "out";
  "overlay"; "position"; "precision"; "real"; "row"; "setof"; "smallint"; "substring"; "time";
  "timestamp"; "treat"; "trim"; "values"; "varchar"; "xmlattributes"; "xmlconcat";
  "xmlelement"; "xmlexists"; "xmlforest"; "xmlnamespaces"; "xmlparse"; "xmlpi"; "xmlroot";
  "xmlserialize"; "xmltable" ]%blit.
(* reserved[strings.ToLower(word)]  (ToLower is modelled on ASCII; quoteIdent only asks for
   words that isSafeIdent accepted, which are ASCII lower case already) *)
Definition isReservedWord (word : bytes) : bool :=
  existsb (bytes_eqb (map ascii_lower word)) reserved_words.

(* sql.go isSafeIdent: [a-z_][a-z0-9_]* *)
Definition safe_first (c : byte) : bool := is_lower c || beq c "_"%byte.
Definition safe_rest (c : byte) : bool := safe_first c || is_digit c.
Definition isSafeIdent (name : bytes) : bool :=
  match name with [] => false | c :: r => safe_first c && forallb safe_rest r end.

(* sql.go quoteIdent *)
Definition quoteIdent (name : bytes) : bytes :=
  if negb (isSafeIdent name) || isReservedWord name
  then """"%byte :: double_char """"%byte name ++ [""""%byte]
  else name.

(* sql.go quoteLiteral.  The tag loop
     tag := "$str$"; for i := 0; strings.Contains(s+"$", tag); i++ { tag = Sprintf("$str%d$", i) }
   runs on fuel; out of fuel is [None] and quoteLiteral then returns the empty string, which no
   normal run returns (C13_literal shows that fuel |s|+2 is always enough). *)
Definition tag0 : bytes := Eval compute in B "$str$".
Definition tag_n (i : Z) : bytes := B "$str" ++ dec i ++ B "$".
Fixpoint find_tag (fuel : nat) (i : Z) (tag : bytes) (s1 : bytes) : option bytes :=
  if contains s1 tag
  then match fuel with O => None | S f => find_tag f (i + 1) (tag_n i) s1 end
  else Some tag.
Definition quoteLiteral (s : bytes) : bytes :=
  if contains s ["'"%byte] && contains s ["\"%byte]
  then match find_tag (S (S (length s))) 0 tag0 (s ++ ["$"%byte]) with
       | Some tag => tag ++ s ++ tag
       | None => []
       end
  else "'"%byte :: double_char "'"%byte s ++ ["'"%byte].

(* float classes from the IEEE bit pattern (math.IsNaN / math.IsInf) *)
Inductive fclass := FFinite | FNaN | FPosInf | FNegInf.
Definition f64_class (bits : Z) : fclass :=
  if (bits / 2 ^ 52) mod 2048 =? 2047
  then if bits mod 2 ^ 52 =? 0 then (if (bits / 2 ^ 63) mod 2 =? 0 then FPosInf else FNegInf) else FNaN
  else FFinite.
Definition f32_class (bits : Z) : fclass :=
  if (bits / 2 ^ 23) mod 256 =? 255
  then if bits mod 2 ^ 23 =? 0 then (if (bits / 2 ^ 31) mod 2 =? 0 then FPosInf else FNegInf) else FNaN
  else FFinite.

(* sql.go sqlFloat *)
Definition sqlFloat (c : fclass) (text : bytes) : bytes :=
  match c with
  | FNaN => B "'NaN'" | FPosInf => B "'Infinity'" | FNegInf => B "'-Infinity'" | FFinite => text
  end.
(* sql.go writeJSONFloat *)
Definition writeJSONFloat (c : fclass) (text : bytes) : bytes :=
  match c with
  | FNaN => B """NaN""" | FPosInf => B """Infinity""" | FNegInf => B """-Infinity""" | FFinite => text
  end.

(* sql.go writeJSONString *)
Definition json_escape_char (c : byte) : bytes :=
  if beq c """"%byte || beq c "\"%byte then ["\"%byte; c]
  else if b2z c <? 32 then B "\u00" ++ [hexdigit (b2z c / 16); hexdigit (b2z c mod 16)]
  else [c].
Definition writeJSONString (s : bytes) : bytes := """"%byte :: flat_map json_escape_char s ++ [""""%byte].

(* fmt.Sprintf("%v", []byte) = "[1 2 3]" *)
Definition show_bytes (s : bytes) : bytes := B "[" ++ join (B " ") (map (fun c => dec (b2z c)) s) ++ B "]".

(* the body of mapToJSON once keys and rendered values are known *)
Definition json_member (kv : bytes * bytes) : bytes := writeJSONString (fst kv) ++ ":"%byte :: snd kv.
Definition mapToJSON_body (kvs : list (bytes * bytes)) : bytes :=
  "{"%byte :: join (B ",") (map json_member (map_entries kvs)) ++ ["}"%byte].

(* sql.go pgTypeToSQL: the switch as a table *)
Definition sql_types : list (Z * bytes) := Eval compute in map (fun p => (fst p, B (snd p))) [
  (16, "BOOLEAN"); (21, "SMALLINT"); (23, "INTEGER"); (20, "BIGINT"); (700, "REAL");
  (701, "DOUBLE PRECISION"); (1700, "NUMERIC"); (790, "MONEY"); (25, "TEXT"); (1043, "VARCHAR");
  (1042, "CHAR"); (18, "CHAR"); (17, "BYTEA"); (1082, "DATE"); (1083, "TIME");
  (1266, "TIME WITH TIME ZONE"); (1114, "TIMESTAMP"); (1184, "TIMESTAMP WITH TIME ZONE");
  (1186, "INTERVAL"); (869, "INET"); (650, "CIDR"); (829, "MACADDR"); (774, "MACADDR8");
  (2950, "UUID"); (114, "JSON"); (3802, "JSONB"); (142, "XML"); (600, "POINT"); (628, "LINE");
  (601, "LSEG"); (603, "BOX"); (718, "CIRCLE"); (602, "PATH"); (604, "POLYGON");
  (3904, "INT4RANGE"); (3926, "INT8RANGE"); (3906, "NUMRANGE"); (3912, "DATERANGE");
  (3908, "TSRANGE"); (3910, "TSTZRANGE"); (1560, "BIT"); (1562, "BIT VARYING");
  (3614, "TSVECTOR"); (3615, "TSQUERY") ]%blit.
Fixpoint assocZ (k : Z) (l : list (Z * bytes)) : option bytes :=
  match l with [] => None | (k', v) :: r => if k =? k' then Some v else assocZ k r end.
(* default branch: strings.ToUpper(typeName) is modelled on ASCII (type names come from the tool's
   own typeNames table) *)
Definition pgTypeToSQL (typeName : bytes) (typID : Z) : bytes :=
  match assocZ typID sql_types with
  | Some s => s
  | None => if negb (is_nil typeName) && negb (bytes_eqb typeName (B "oid:" ++ dec typID))
            then map ascii_upper typeName else B "TEXT"
  end.

(* encoding/csv Writer.fieldNeedsQuotes (Comma = ',') *)
Definition zpre (l : list Z) (f : bytes) : bool := prefix (map z2b l) f.
(* unicode.IsSpace(first rune of f) *)
Definition first_rune_is_space (f : bytes) : bool :=
  match f with
  | [] => false
  | c :: _ =>
    if b2z c <? 128 then in_range 9 13 c || beq c " "%byte
    else zpre [194; 133] f || zpre [194; 160] f || zpre [225; 154; 128] f
         || match f with
            | _ :: c1 :: c2 :: _ =>
              zpre [226; 128] f && (in_range 128 138 c2 || (b2z c2 =? 168) || (b2z c2 =? 169) || (b2z c2 =? 175))
            | _ => false
            end
         || zpre [226; 129; 159] f || zpre [227; 128; 128] f
  end.
Definition csv_special (c : byte) : bool := beq c x0a || beq c x0d || beq c """"%byte || beq c ","%byte.
Definition fieldNeedsQuotes (f : bytes) : bool :=
  if is_nil f then false
  else if bytes_eqb f (B "\.") then true
  else if existsb csv_special f then true
  else first_rune_is_space f.
(* csv.Writer.Write of one field / one record (UseCRLF = false) *)
Definition csv_field (f : bytes) : bytes :=
  if fieldNeedsQuotes f then """"%byte :: double_char """"%byte f ++ [""""%byte] else f.
Definition csv_record (r : list bytes) : bytes := join (B ",") (map csv_field r) ++ [x0a].
(* csv.go writeCSVRecord (fix: lone empty field): a record that consists of exactly one empty field
   is written as the two characters "" and the line end (csv.Writer would write an empty line, which
   standard readers skip); every other record goes through csv.Writer.Write.  The Flush before the
   direct write keeps the output in order, so the text is the concatenation. *)
Definition lone_empty (r : list bytes) : bool :=
  match r with [f] => is_nil f | _ => false end.
Definition writeCSVRecord (r : list bytes) : bytes :=
  if lone_empty r then [""""%byte; """"%byte; x0a] else csv_record r.

Section WithOracles.
  (* fmt.Sprintf("%v", float64/float32) given the IEEE bits, and encoding/json.Marshal: not logic *)
  Variable show_f64 : Z -> bytes.
  Variable show_f32 : Z -> bytes.
  Variable json_marshal : gval -> bytes.

  (* sql.go writeJSONValue / mapToJSON (mutually recursive in Go; the map case renders the values
     first and then orders the members, which is the same thing as ordering the keys first) *)
  Fixpoint writeJSONValue (v : gval) : bytes :=
    match v with
    | VNil => B "null"
    | VBool b => if b then B "true" else B "false"
    | VInt z | VI16 z | VI32 z | VI64 z | VU32 z => dec z
    | VF32 b => writeJSONFloat (f32_class b) (show_f32 b)
    | VF64 b => writeJSONFloat (f64_class b) (show_f64 b)
    | VStr s => writeJSONString s
    | VMap m => mapToJSON_body (map (fun kv => (fst kv, writeJSONValue (snd kv))) m)
    | VList l => "["%byte :: join (B ",") (map writeJSONValue l) ++ ["]"%byte]
    | VListNil => B "[]"
    | VU16 z | VU64 z => writeJSONString (dec z)
    | VBytes s => writeJSONString (show_bytes s)
    end.
  Definition mapToJSON (m : list (bytes * gval)) : bytes :=
    mapToJSON_body (map (fun kv => (fst kv, writeJSONValue (snd kv))) m).

  (* sql.go formatSQLValue (typID is unused by the Go code) *)
  Fixpoint formatSQLValue (v : gval) : bytes :=
    match v with
    | VNil => B "NULL"
    | VBool b => if b then B "TRUE" else B "FALSE"
    | VInt z | VI16 z | VI32 z | VI64 z | VU32 z => dec z
    | VF32 b => sqlFloat (f32_class b) (show_f32 b)
    | VF64 b => sqlFloat (f64_class b) (show_f64 b)
    | VStr s => quoteLiteral s
    | VList l => B "ARRAY[" ++ join (B ", ") (map formatSQLValue l) ++ B "]"
    | VListNil => B "ARRAY[]"
    | VMap m => quoteLiteral (mapToJSON m)
    | VU16 z | VU64 z => quoteLiteral (dec z)
    | VBytes s => quoteLiteral (show_bytes s)
    end.

  (* ---- ToSQL ---- *)
  Definition sql_cell (r : row) (c : column) : bytes :=
    match map_get r (c_name c) with
    | None | Some VNil => B "NULL"
    | Some v => formatSQLValue v
    end.
  Fixpoint coldefs (cols : list column) : bytes :=
    match cols with
    | [] => []
    | c :: r => B "    " ++ quoteIdent (c_name c) ++ B " " ++ pgTypeToSQL (c_type c) (c_typid c)
                ++ (match r with [] => [] | _ => B "," end) ++ [x0a] ++ coldefs r
    end.
  Fixpoint rows_sql (cols : list column) (rows : list row) : bytes :=
    match rows with
    | [] => []
    | r :: rest => B "    (" ++ join (B ", ") (map (sql_cell r) cols) ++ B ")"
                   ++ (match rest with [] => B ";" | _ => B "," end) ++ [x0a] ++ rows_sql cols rest
    end.
  (* TableDump.ToSQL *)
  Definition TableToSQL (t : table) : bytes :=
    B "-- Table: " ++ commentSafe (t_name t) ++ B " (" ++ dec (t_rowcount t) ++ B " rows)" ++ [x0a]
    ++ B "CREATE TABLE IF NOT EXISTS " ++ quoteIdent (t_name t) ++ B " (" ++ [x0a]
    ++ coldefs (t_cols t)
    ++ B ");" ++ [x0a] ++ [x0a]
    ++ match t_rows t with
       | [] => []
       | _ => B "INSERT INTO " ++ quoteIdent (t_name t) ++ B " ("
              ++ join (B ", ") (map (fun c => quoteIdent (c_name c)) (t_cols t)) ++ B ") VALUES" ++ [x0a]
              ++ rows_sql (t_cols t) (t_rows t)
       end.
  (* DatabaseDump.ToSQL *)
  Definition DatabaseToSQL (d : database) : bytes :=
    concat (map (fun t => TableToSQL t ++ [x0a]) (d_tables d)).
  (* DumpResult.ToSQL; [now] is time.Now().Format(time.RFC3339) *)
  Definition db_header (d : database) : bytes :=
    B "-- Database: " ++ commentSafe (d_name d) ++ B " (OID: " ++ dec (d_oid d) ++ B ")" ++ [x0a]
    ++ B "-- \connect " ++ commentSafe (d_name d) ++ [x0a] ++ [x0a].
  Definition DumpToSQL (now : bytes) (dbs : list database) : bytes :=
    B "-- PostgreSQL dump generated by pgread" ++ [x0a]
    ++ B "-- Generated at: " ++ now ++ [x0a] ++ [x0a]
    ++ concat (map (fun d => db_header d ++ DatabaseToSQL d) dbs).

  (* ---- csv.go ---- *)
  Definition formatCSVValue (v : gval) : bytes :=
    match v with
    | VNil => []
    | VBool b => if b then B "true" else B "false"
    | VInt z | VI16 z | VI32 z | VI64 z | VU32 z => dec z
    | VF32 b => show_f32 b
    | VF64 b => show_f64 b
    | VStr s => s
    | VBytes s => s
    | VList _ | VListNil | VMap _ => json_marshal v
    | VU16 z | VU64 z => dec z
    end.
  Definition csv_cell (r : row) (c : column) : bytes :=
    match map_get r (c_name c) with
    | None | Some VNil => []
    | Some v => formatCSVValue v
    end.
  (* TableDump.ToCSV *)
  Definition TableToCSV (t : table) : bytes :=
    match t_cols t with
    | [] => []
    | _ => writeCSVRecord (map c_name (t_cols t))
           ++ concat (map (fun r => writeCSVRecord (map (csv_cell r) (t_cols t))) (t_rows t))
    end.
  (* DatabaseDump.ToCSV *)
  Definition csv_section (dbname : bytes) (t : table) : bytes :=
    B "# Database: " ++ commentSafe dbname ++ B ", Table: " ++ commentSafe (t_name t) ++ [x0a]
    ++ TableToCSV t ++ [x0a].
  Definition DatabaseToCSV (d : database) : bytes := concat (map (csv_section (d_name d)) (d_tables d)).
  (* DumpResult.ToCSV *)
  Definition DumpToCSV (dbs : list database) : bytes := concat (map DatabaseToCSV dbs).
End WithOracles.
