(* C13/Historic.v — the behaviour of sql.go / csv.go BEFORE the fix: commits (D44 D45 D46 D48, and the
   lone empty CSV field), kept as small models so that the findings stay machine-checked (witnesses
   by vm_compute). *)
From Coq Require Import Strings.String.
Require Import PG.Base.Bytes PG.Base.Value PG.C13.Lib PG.C13.Model PG.C13.Spec.
Import List ListNotations.
#[local] Open Scope list_scope.

(* D46: the tag was tested with strings.Contains(s, tag) only *)
Definition old_quoteLiteral (s : bytes) : bytes :=
  if contains s ["'"%byte] && contains s ["\"%byte]
  then match find_tag (S (S (length s))) 0 tag0 s with Some tag => tag ++ s ++ tag | None => [] end
  else "'"%byte :: double_char "'"%byte s ++ ["'"%byte].
(* D45: quoting only on blank, tab, line feed, double quote, or a word of the short reserved list *)
Definition old_reserved : list bytes := firstn 77 reserved_words.
Definition old_quoteIdent (name : bytes) : bytes :=
  if existsb (fun c => beq c " "%byte || beq c x09 || beq c x0a || beq c """"%byte) name
     || existsb (bytes_eqb (map ascii_lower name)) old_reserved
  then """"%byte :: double_char """"%byte name ++ [""""%byte] else name.
(* D44: the name was printed raw into the comment *)
Definition old_table_comment (name : bytes) (n : Z) : bytes :=
  B "-- Table: " ++ name ++ B " (" ++ dec n ++ B " rows)" ++ [x0a].
(* D48: keys had only the double quote escaped *)
Definition old_json_key (k : bytes) : bytes :=
  """"%byte :: flat_map (fun c => if beq c """"%byte then B "\""" else [c]) k ++ [""""%byte].

Definition w_literal : bytes := B "'\ $str".
Lemma old_literal_refuted :
  lex_tok (old_quoteLiteral w_literal ++ B ")") <> Some (TString w_literal, B ")").
Proof. vm_compute. discriminate. Qed.
Lemma old_literal_text : old_quoteLiteral w_literal = B "$str$'\ $str$str$".
Proof. vm_compute. reflexivity. Qed.

Definition w_ident : bytes := B "x;DROP/**/TABLE/**/y".
Lemma old_ident_refuted :
  lex_tok (old_quoteIdent w_ident ++ B " (") <> Some (TIdent w_ident, B " (")
  /\ lex_tok (old_quoteIdent (B "Users") ++ B " (") = Some (TIdent (B "users"), B " (")
  /\ lex_tok (old_quoteIdent (B "left") ++ B " (") = Some (TKeyword (B "left"), B " (").
Proof. repeat split; vm_compute; try discriminate; reflexivity. Qed.

Definition w_comment : bytes := B "t" ++ [x0a] ++ B "DROP TABLE users;--".
Lemma old_comment_refuted :
  exists toks, lex_all (old_table_comment w_comment 0) = Some toks /\ (1 < length toks)%nat
  /\ In (TIdent (B "drop")) toks.
Proof. eexists. split; [vm_compute; reflexivity|]. split; [vm_compute; lia|]. vm_compute. tauto. Qed.

Lemma old_json_refuted :
  json_read (B "{" ++ old_json_key (B "a\") ++ B ":1}") = None.
Proof. vm_compute. reflexivity. Qed.

(* csv.go before "write a lone empty field as """: every record went through csv.Writer.Write, so a
   record of one empty field became an empty line.  One column, rows NULL / "" / "v": the RFC 4180
   reader (every line a record) still sees all rows, a reader that skips empty lines loses two. *)
Definition old_TableToCSV (t : table) : bytes :=
  match t_cols t with
  | [] => []
  | _ => csv_record (map c_name (t_cols t))
         ++ concat (map (fun r => csv_record (map (csv_cell (fun _ => []) (fun _ => []) (fun _ => []) r) (t_cols t))) (t_rows t))
  end.
Definition w_csv_table : table :=
  {| t_name := B "t"; t_cols := [ {| c_name := B "c"; c_type := B "text"; c_typid := 25 |} ];
     t_rows := [ [ (B "c", VNil) ]; [ (B "c", VStr []) ]; [ (B "c", VStr (B "v")) ] ]; t_rowcount := 3 |}.
Lemma old_csv_blank_refuted :
  old_TableToCSV w_csv_table = B "c" ++ [x0a; x0a; x0a] ++ B "v" ++ [x0a]
  /\ csv_blank false true (old_TableToCSV w_csv_table) = true
  /\ csv_read (old_TableToCSV w_csv_table) = Some [ [B "c"]; [[]]; [[]]; [B "v"] ]
  /\ csv_read_skip (old_TableToCSV w_csv_table) = Some [ [B "c"]; [B "v"] ]
  /\ csv_read_skip (old_TableToCSV w_csv_table)
     <> Some (csv_records (fun _ => []) (fun _ => []) (fun _ => []) w_csv_table).
Proof. repeat split; vm_compute; try reflexivity; intros H; discriminate H. Qed.
