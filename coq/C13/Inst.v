(* C13/Inst.v — instantiation of the model's oracles for extraction (AGENT_GUIDE §10).
   fmt's %v of a float and encoding/json.Marshal are Section variables of the model; here they
   become placeholder tokens  NUL 'F' <16 hex digits of the bits> NUL,  NUL 'G' <8 hex digits> NUL,
   NUL 'J' <canonical value text> NUL  which the Go harness replaces (in S and M) by the real
   fmt.Sprintf("%v", x) / json.Marshal(v) before comparing.  No proofs here. *)
From Coq Require Import Strings.String.
Require Import PG.Base.Bytes PG.Base.Value PG.C13.Lib PG.C13.Model PG.C13.Spec.
Import List ListNotations.
#[local] Open Scope list_scope.

Fixpoint hex_fixed (n : nat) (z : Z) (acc : bytes) : bytes :=
  match n with O => acc | S k => hex_fixed k (z / 16) (hexdigit (z mod 16) :: acc) end.
Definition hex_of (s : bytes) : bytes := flat_map (fun c => [hexdigit (b2z c / 16); hexdigit (b2z c mod 16)]) s.

(* canonical text of a value: the syntax of driver/common/value.ml (maps in insertion order) *)
Fixpoint canon_gval (v : gval) : bytes :=
  match v with
  | VNil => B "nil"
  | VBool b => if b then B "b:true" else B "b:false"
  | VI16 z => B "i16:" ++ dec z | VI32 z => B "i32:" ++ dec z | VI64 z => B "i64:" ++ dec z
  | VInt z => B "int:" ++ dec z
  | VU16 z => B "u16:" ++ dec z | VU32 z => B "u32:" ++ dec z | VU64 z => B "u64:" ++ dec z
  | VF32 b => B "f32:" ++ hex_fixed 8 b [] | VF64 b => B "f64:" ++ hex_fixed 16 b []
  | VStr s => B "s:" ++ hex_of s
  | VBytes s => B "y:" ++ hex_of s
  | VList l => B "l[" ++ join (B ",") (map canon_gval l) ++ B "]"
  | VListNil => B "lnil"
  | VMap m => B "m{" ++ join (B ",") (map (fun kv => hex_of (fst kv) ++ ":"%byte :: canon_gval (snd kv)) m) ++ B "}"
  end.

Definition ph_f64 (bits : Z) : bytes := x00 :: "F"%byte :: hex_fixed 16 bits [] ++ [x00].
Definition ph_f32 (bits : Z) : bytes := x00 :: "G"%byte :: hex_fixed 8 bits [] ++ [x00].
Definition ph_json (v : gval) : bytes := x00 :: "J"%byte :: canon_gval v ++ [x00].

(* model *)
Definition x_writeJSONValue := writeJSONValue ph_f64 ph_f32.
Definition x_mapToJSON := mapToJSON ph_f64 ph_f32.
Definition x_formatSQLValue := formatSQLValue ph_f64 ph_f32.
Definition x_TableToSQL := TableToSQL ph_f64 ph_f32.
Definition x_DatabaseToSQL := DatabaseToSQL ph_f64 ph_f32.
Definition x_DumpToSQL := DumpToSQL ph_f64 ph_f32.
Definition x_formatCSVValue := formatCSVValue ph_f64 ph_f32 ph_json.
Definition x_TableToCSV := TableToCSV ph_f64 ph_f32 ph_json.
Definition x_DatabaseToCSV := DatabaseToCSV ph_f64 ph_f32 ph_json.
Definition x_DumpToCSV := DumpToCSV ph_f64 ph_f32 ph_json.
(* spec *)
Definition x_to_json := to_json ph_f64 ph_f32.
Definition x_map_json := map_json ph_f64 ph_f32.
Definition x_value_tokens := value_tokens ph_f64 ph_f32 x_mapToJSON.
Definition x_table_tokens := table_tokens ph_f64 ph_f32 x_mapToJSON.
Definition x_database_tokens := database_tokens ph_f64 ph_f32 x_mapToJSON.
Definition x_dump_tokens := dump_tokens ph_f64 ph_f32 x_mapToJSON.
Definition x_csv_records := csv_records ph_f64 ph_f32 ph_json.
Definition x_csv_section_header (dbname tname : bytes) : bytes :=
  B "# Database: " ++ cesc dbname ++ B ", Table: " ++ cesc tname.
