(* C13/ProofsFuel.v — the relational SQL lexer [Lexes] and the executable one on fuel [lex] /
   [lex_all] (which the test harness runs) agree: every token consumes at least one byte, so
   fuel [S (length t)] always suffices. *)
From Coq Require Import Strings.String.
Require Import PG.Base.Bytes PG.Base.Value PG.C13.Lib PG.C13.Model PG.C13.Spec PG.C13.ProofsNum PG.C13.ProofsLex.
Import List ListNotations.
#[local] Open Scope list_scope.

(* ====================================================================== A. the scanners do not grow *)
Lemma span_length : forall p t a b, span p t = (a, b) -> (length t = length a + length b)%nat.
Proof.
  intros p t a b H. destruct (span_spec p t a b H) as (E & _). subst t. apply app_length.
Qed.

Lemma span_rest_le : forall p t a b, span p t = (a, b) -> (length b <= length t)%nat.
Proof. intros p t a b H. pose proof (span_length p t a b H). lia. Qed.

(* the head satisfies p: the rest is strictly shorter *)
Lemma span_rest_lt : forall p c t a b, p c = true -> span p (c :: t) = (a, b) -> (length b < length (c :: t))%nat.
Proof.
  intros p c t a b Hc H. cbn [span] in H. rewrite Hc in H.
  destruct (span p t) as [a' b'] eqn:Hs. inversion H; subst.
  pose proof (span_rest_le p t a' b Hs). cbn [length]. lia.
Qed.

Lemma dropwhile_le : forall p t, (length (dropwhile p t) <= length t)%nat.
Proof.
  intros p t. induction t as [|c t IH]; cbn [dropwhile length]; [lia|].
  destruct (p c); cbn [length]; lia.
Qed.

Lemma skip_ws_le : forall t, (length (skip_ws t) <= length t)%nat.
Proof. intros t. apply dropwhile_le. Qed.

(* scan_dq consumes at least the closing quote *)
Lemma scan_dq_shrinks : forall n t s r, (length t <= n)%nat ->
  scan_dq t = Some (s, r) -> (length r < length t)%nat.
Proof.
  induction n as [|n IH]; intros t s r Hn H.
  - destruct t as [|c t]; [discriminate H|]. cbn [length] in Hn. lia.
  - destruct t as [|c t]; [discriminate H|]. cbn [scan_dq] in H. cbn [length] in Hn |- *.
    destruct (beq c """"%byte) eqn:Ec.
    + destruct t as [|c2 t2].
      * inversion H; subst. cbn [length]. lia.
      * destruct (beq c2 """"%byte) eqn:Ec2.
        -- destruct (scan_dq t2) as [[s' rest]|] eqn:Es; [|discriminate H].
           inversion H; subst.
           assert (length r < length t2)%nat by (apply (IH t2 s' r); [cbn [length] in Hn; lia | exact Es]).
           cbn [length]. lia.
        -- inversion H; subst. lia.
    + destruct (scan_dq t) as [[s' rest]|] eqn:Es; [|discriminate H].
      inversion H; subst.
      assert (length r < length t)%nat by (apply (IH t s' r); [lia | exact Es]).
      lia.
Qed.

(* scan_sq, generalised over the three states *)
Definition sq_bound (st : sqstate) (t r : bytes) : Prop :=
  match st with
  | SqIn => (length r < length t)%nat
  | SqClosed => (length r <= length t)%nat
  | SqWs _ cr => (length r <= Nat.max (length cr) (length t))%nat
  end.

Lemma scan_sq_bound : forall t st s r, scan_sq st t = Some (s, r) -> sq_bound st t r.
Proof.
  induction t as [|c t IH]; intros st s r H.
  - destruct st as [| |nl cr]; cbn [scan_sq] in H; unfold sq_bound.
    + discriminate H.
    + inversion H; subst. cbn [length]. lia.
    + inversion H; subst. lia.
  - destruct st as [| |nl cr]; cbn [scan_sq] in H; unfold sq_bound; cbn [length].
    + (* SqIn *)
      destruct (beq c "'"%byte) eqn:Eq.
      * apply IH in H. unfold sq_bound in H. lia.
      * destruct (scan_sq SqIn t) as [[s' rest]|] eqn:Es; [|discriminate H].
        inversion H; subst. apply IH in Es. unfold sq_bound in Es. lia.
    + (* SqClosed *)
      destruct (beq c "'"%byte) eqn:Eq.
      * destruct (scan_sq SqIn t) as [[s' rest]|] eqn:Es; [|discriminate H].
        inversion H; subst. apply IH in Es. unfold sq_bound in Es. lia.
      * destruct (is_space c) eqn:Esp.
        -- apply IH in H. unfold sq_bound in H. cbn [length] in H. lia.
        -- destruct (beq c "-"%byte) eqn:Em; [discriminate H|].
           inversion H; subst. cbn [length]. lia.
    + (* SqWs *)
      destruct (is_space c) eqn:Esp.
      * apply IH in H. unfold sq_bound in H. lia.
      * destruct (beq c "'"%byte) eqn:Eq.
        -- destruct nl.
           ++ apply IH in H. unfold sq_bound in H. lia.
           ++ inversion H; subst. lia.
        -- destruct (beq c "-"%byte) eqn:Em; [discriminate H|].
           inversion H; subst. lia.
Qed.

Lemma scan_sq_in_shrinks : forall t s r, scan_sq SqIn t = Some (s, r) -> (length r < length t)%nat.
Proof. intros t s r H. exact (scan_sq_bound t SqIn s r H). Qed.

Lemma scan_dolq_le : forall tag t s r, scan_dolq tag t = Some (s, r) -> (length r <= length t)%nat.
Proof.
  intros tag t. induction t as [|c t IH]; intros s r H; rewrite scan_dolq_unfold in H.
  - destruct (prefix tag []) eqn:Ep; [|discriminate H].
    inversion H; subst. rewrite skipn_length. lia.
  - destruct (prefix tag (c :: t)) eqn:Ep.
    + inversion H; subst. rewrite skipn_length. lia.
    + destruct (scan_dolq tag t) as [[s' rest]|] eqn:Es; [|discriminate H].
      inversion H; subst. specialize (IH _ _ eq_refl). cbn [length]. lia.
Qed.

(* lex_number, stage by stage *)
Lemma lex_frac_le : forall r1 frac r2, lex_frac r1 = (frac, r2) -> (length r2 <= length r1)%nat.
Proof.
  intros r1 frac r2 H. unfold lex_frac in H. destruct r1 as [|c r].
  - inversion H; subst. lia.
  - destruct (beq c "."%byte) eqn:Ec.
    + destruct (span is_digit r) as [fp r'] eqn:Es. inversion H; subst.
      apply span_rest_le in Es. cbn [length]. lia.
    + inversion H; subst. lia.
Qed.

Lemma lex_exp_le : forall r2 ex r3, lex_exp r2 = (ex, r3) -> (length r3 <= length r2)%nat.
Proof.
  intros r2 ex r3 H. unfold lex_exp in H. destruct r2 as [|c r].
  - inversion H; subst. lia.
  - destruct (beq c "e"%byte || beq c "E"%byte) eqn:Ec.
    + destruct r as [|s r''].
      * destruct (span is_digit []) as [ed rr] eqn:Es. inversion H; subst.
        apply span_rest_le in Es. cbn [length] in *. lia.
      * destruct (beq s "+"%byte || beq s "-"%byte) eqn:Esg.
        -- destruct (span is_digit r'') as [ed rr] eqn:Es. inversion H; subst.
           apply span_rest_le in Es. cbn [length]. lia.
        -- destruct (span is_digit (s :: r'')) as [ed rr] eqn:Es. inversion H; subst.
           apply span_rest_le in Es. cbn [length] in *. lia.
    + inversion H; subst. lia.
Qed.

Lemma lex_fin_some : forall ip frac ex r3 tok r,
  lex_fin ip frac ex r3 = Some (tok, r) -> r = r3 /\ ip <> [].
Proof.
  intros ip frac ex r3 tok r H. unfold lex_fin in H.
  destruct ip as [|d ip].
  - cbn [is_nil orb] in H. discriminate H.
  - split; [|discriminate].
    destruct (is_nil (d :: ip) || match r3 with [] => false | c :: _ => is_ident_start c || beq c "."%byte end
              || match ex with Some (_, true) => true | _ => false end); [discriminate H|].
    destruct frac as [fp|]; destruct ex as [[e b]|]; inversion H; reflexivity.
Qed.

Lemma lex_number_shrinks : forall t tok r, lex_number t = Some (tok, r) -> (length r < length t)%nat.
Proof.
  intros t tok r H. rewrite lex_number_unfold in H.
  destruct (span is_digit t) as [ip r1] eqn:E1.
  destruct (lex_frac r1) as [frac r2] eqn:E2.
  destruct (lex_exp r2) as [ex r3] eqn:E3.
  apply lex_fin_some in H. destruct H as [-> Hip].
  apply span_length in E1. apply lex_frac_le in E2. apply lex_exp_le in E3.
  destruct ip as [|d ip]; [congruence|]. cbn [length] in E1. lia.
Qed.

(* ====================================================================== B. every token consumes a byte *)
Lemma ident_start_cont : forall c, is_ident_start c = true -> is_ident_cont c = true.
Proof. intros c H. unfold is_ident_cont. rewrite H. reflexivity. Qed.

Theorem lex_tok_shrinks : forall t tok r, lex_tok t = Some (tok, r) -> (length r < length t)%nat.
Proof.
  intros t tok r H. destruct t as [|c t]; [discriminate H|].
  unfold lex_tok in H.
  destruct (beq c "-"%byte) eqn:Eminus.
  { (* comment, or sign of a number *)
    destruct t as [|d t']; [discriminate H|].
    destruct (beq d "-"%byte) eqn:Ed.
    - destruct (span (fun x => negb (is_newline x)) t') as [body rest] eqn:Es.
      inversion H; subst. apply span_rest_le in Es. cbn [length]. lia.
    - destruct (is_digit d) eqn:Edig; [|discriminate H].
      inversion H; subst. cbn [length]. lia. }
  destruct (beq c """"%byte) eqn:Edq.
  { (* delimited identifier *)
    destruct (scan_dq t) as [[name rest]|] eqn:Es; [|discriminate H].
    destruct (is_nil name); [discriminate H|].
    inversion H; subst. apply (scan_dq_shrinks (length t)) in Es; [|lia]. cbn [length]. lia. }
  destruct (beq c "'"%byte) eqn:Esq.
  { (* string constant *)
    destruct (scan_sq SqIn t) as [[s rest]|] eqn:Es; [|discriminate H].
    inversion H; subst. apply scan_sq_in_shrinks in Es. cbn [length]. lia. }
  destruct (beq c "$"%byte) eqn:Edol.
  { (* dollar-quoted string *)
    destruct (span is_dolq_cont t) as [body r1] eqn:Es.
    destruct r1 as [|c1 r2]; [discriminate H|].
    destruct (beq c1 "$"%byte && match body with [] => true | b0 :: _ => is_ident_start b0 end);
      [|discriminate H].
    destruct (scan_dolq ("$"%byte :: body ++ ["$"%byte]) r2) as [[s rest]|] eqn:Ed; [|discriminate H].
    inversion H; subst. apply span_rest_le in Es. apply scan_dolq_le in Ed.
    cbn [length] in *. lia. }
  destruct (is_digit c) eqn:Edig.
  { apply lex_number_shrinks in H. exact H. }
  destruct (is_ident_start c) eqn:Eid.
  { (* bare word *)
    destruct (span is_ident_cont (c :: t)) as [w r1] eqn:Es.
    apply span_rest_lt in Es; [|apply ident_start_cont; exact Eid].
    destruct r1 as [|q r1'].
    - inversion H; subst. exact Es.
    - destruct (beq q "'"%byte); [discriminate H|]. inversion H; subst. exact Es. }
  destruct (is_self c) eqn:Eself; [|discriminate H].
  inversion H; subst. cbn [length]. lia.
Qed.

(* ====================================================================== C. Lexes <-> lex *)
Lemma lex_S : forall f t,
  lex (S f) t = match skip_ws t with
                | [] => Some []
                | t' => match lex_tok t' with
                        | Some (tok, r) => match lex f r with Some l => Some (tok :: l) | None => None end
                        | None => None
                        end
                end.
Proof. reflexivity. Qed.

Theorem Lexes_lex : forall t toks, Lexes t toks -> forall fuel, (length t < fuel)%nat -> lex fuel t = Some toks.
Proof.
  intros t toks HL. induction HL as [t Hnil | t tok r toks Htok HL IH]; intros fuel Hf.
  - destruct fuel as [|f]; [lia|]. rewrite lex_S, Hnil. reflexivity.
  - destruct fuel as [|f]; [lia|]. rewrite lex_S.
    pose proof (lex_tok_shrinks _ _ _ Htok) as Hsh.
    pose proof (skip_ws_le t) as Hws.
    destruct (skip_ws t) as [|b l] eqn:E.
    + discriminate Htok.
    + rewrite Htok. rewrite (IH f) by lia. reflexivity.
Qed.

Theorem Lexes_lex_all : forall t toks, Lexes t toks -> lex_all t = Some toks.
Proof. intros t toks HL. unfold lex_all. apply (Lexes_lex t toks HL). lia. Qed.

Theorem lex_Lexes : forall fuel t toks, lex fuel t = Some toks -> Lexes t toks.
Proof.
  induction fuel as [|f IH]; intros t toks H.
  - discriminate H.
  - rewrite lex_S in H. destruct (skip_ws t) as [|b l] eqn:E.
    + inversion H; subst. apply Lexes_nil. exact E.
    + destruct (lex_tok (b :: l)) as [[tok r]|] eqn:Et; [|discriminate H].
      destruct (lex f r) as [l'|] eqn:El; [|discriminate H].
      inversion H; subst. apply Lexes_cons with (r := r).
      * rewrite E. exact Et.
      * apply IH. exact El.
Qed.

Theorem lex_all_iff : forall t toks, lex_all t = Some toks <-> Lexes t toks.
Proof.
  intros t toks. split.
  - unfold lex_all. apply lex_Lexes.
  - apply Lexes_lex_all.
Qed.

(* the relation is functional, and the executable lexer is fuel-monotone *)
Corollary Lexes_fun : forall t a b, Lexes t a -> Lexes t b -> a = b.
Proof.
  intros t a b Ha Hb. apply Lexes_lex_all in Ha. apply Lexes_lex_all in Hb. congruence.
Qed.

Corollary lex_fuel_enough : forall fuel t toks, lex fuel t = Some toks -> lex_all t = Some toks.
Proof. intros fuel t toks H. apply Lexes_lex_all. exact (lex_Lexes fuel t toks H). Qed.
