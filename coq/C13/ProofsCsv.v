(* C13/ProofsCsv.v — the CSV writer model (encoding/csv as used by csv.go) is inverted by the
   RFC 4180 reader of the specification, for all field contents; structure of the CSV exports. *)
From Coq Require Import Strings.String.
Require Import PG.Base.Bytes PG.Base.Value PG.C13.Lib PG.C13.Model PG.C13.Spec.
Import List ListNotations.
#[local] Open Scope list_scope.

(* ====================================================================== bytes equality *)
Lemma beq_true (c d : byte) : beq c d = true -> c = d.
Proof. unfold beq. apply Byte.byte_dec_bl. Qed.

Lemma beq_refl (c : byte) : beq c c = true.
Proof. unfold beq. apply Byte.byte_dec_lb. reflexivity. Qed.

(* ====================================================================== reader steps *)
Definition qt : byte := """"%byte.
Definition cm : byte := ","%byte.

Lemma csv_special_false (c : byte) :
  csv_special c = false ->
  beq c x0a = false /\ beq c x0d = false /\ beq c qt = false /\ beq c cm = false.
Proof.
  unfold csv_special, qt, cm. intros H.
  apply orb_false_iff in H. destruct H as [H Hcm].
  apply orb_false_iff in H. destruct H as [H Hqt].
  apply orb_false_iff in H. destruct H as [Hlf Hcr].
  repeat split; assumption.
Qed.

(* a plain byte read at the start of a field or inside an unquoted field *)
Lemma step_start_plain (c : byte) (cur : bytes) (rec : list bytes) (r : bytes) :
  csv_special c = false ->
  csv_go CsvStart cur rec (c :: r) = csv_go CsvUnq (c :: cur) rec r.
Proof.
  intros H. apply csv_special_false in H. destruct H as (Hlf & Hcr & Hqt & Hcm).
  unfold qt, cm in *. cbn [csv_go]. rewrite Hcm, Hlf, Hcr, Hqt. reflexivity.
Qed.

Lemma step_unq_plain (c : byte) (cur : bytes) (rec : list bytes) (r : bytes) :
  csv_special c = false ->
  csv_go CsvUnq cur rec (c :: r) = csv_go CsvUnq (c :: cur) rec r.
Proof.
  intros H. apply csv_special_false in H. destruct H as (Hlf & Hcr & Hqt & Hcm).
  unfold qt, cm in *. cbn [csv_go]. rewrite Hcm, Hlf, Hcr, Hqt. reflexivity.
Qed.

Lemma step_start_quote (cur : bytes) (rec : list bytes) (r : bytes) :
  csv_go CsvStart cur rec (qt :: r) = csv_go CsvQ [] rec r.
Proof. reflexivity. Qed.

Lemma step_q_quote (cur : bytes) (rec : list bytes) (r : bytes) :
  csv_go CsvQ cur rec (qt :: r) = csv_go CsvQQ cur rec r.
Proof. reflexivity. Qed.

Lemma step_qq_quote (cur : bytes) (rec : list bytes) (r : bytes) :
  csv_go CsvQQ cur rec (qt :: r) = csv_go CsvQ (qt :: cur) rec r.
Proof. reflexivity. Qed.

Lemma step_q_other (c : byte) (cur : bytes) (rec : list bytes) (r : bytes) :
  beq c qt = false ->
  csv_go CsvQ cur rec (c :: r) = csv_go CsvQ (c :: cur) rec r.
Proof. intros H. unfold qt in H. cbn [csv_go]. rewrite H. reflexivity. Qed.

(* what the reader does at a field separator [s] (comma or LF) once the field [rev cur] is complete *)
Definition is_sep (s : byte) : Prop := s = cm \/ s = x0a.
Definition csv_after (cur : bytes) (rec : list bytes) (s : byte) (k : bytes) : option (list (list bytes)) :=
  if beq s cm then csv_go CsvStart [] (rev cur :: rec) k
  else match csv_go CsvStart [] [] k with
       | Some l => Some (rev (rev cur :: rec) :: l)
       | None => None
       end.

Lemma sep_start (s : byte) (cur : bytes) (rec : list bytes) (k : bytes) :
  is_sep s -> csv_go CsvStart cur rec (s :: k) = csv_after cur rec s k.
Proof. intros [H | H]; subst s; reflexivity. Qed.

Lemma sep_unq (s : byte) (cur : bytes) (rec : list bytes) (k : bytes) :
  is_sep s -> csv_go CsvUnq cur rec (s :: k) = csv_after cur rec s k.
Proof. intros [H | H]; subst s; reflexivity. Qed.

Lemma sep_qq (s : byte) (cur : bytes) (rec : list bytes) (k : bytes) :
  is_sep s -> csv_go CsvQQ cur rec (s :: k) = csv_after cur rec s k.
Proof. intros [H | H]; subst s; reflexivity. Qed.

(* ====================================================================== one field *)
(* unquoted: the reader walks over plain bytes *)
Lemma unq_walk (f : bytes) : forall (cur : bytes) (rec : list bytes) (k : bytes),
  existsb csv_special f = false ->
  csv_go CsvUnq cur rec (f ++ k) = csv_go CsvUnq (rev f ++ cur) rec k.
Proof.
  induction f as [| c f IH]; intros cur rec k H.
  - reflexivity.
  - cbn [existsb] in H. apply orb_false_iff in H. destruct H as [Hc Hf].
    cbn [app rev]. rewrite step_unq_plain by exact Hc.
    rewrite IH by exact Hf. rewrite <- app_assoc. reflexivity.
Qed.

Lemma unq_field (f : bytes) (rec : list bytes) (s : byte) (k : bytes) :
  is_sep s -> existsb csv_special f = false ->
  csv_go CsvStart [] rec (f ++ s :: k) = csv_after (rev f) rec s k.
Proof.
  intros Hs H. destruct f as [| c f].
  - cbn [app rev]. apply sep_start. exact Hs.
  - cbn [existsb] in H. apply orb_false_iff in H. destruct H as [Hc Hf].
    cbn [app]. rewrite step_start_plain by exact Hc.
    rewrite unq_walk by exact Hf. rewrite sep_unq by exact Hs.
    cbn [rev]. reflexivity.
Qed.

(* quoted: every byte of the field comes back, a doubled quote as one quote *)
Lemma q_walk (f : bytes) : forall (cur : bytes) (rec : list bytes) (k : bytes),
  csv_go CsvQ cur rec (double_char qt f ++ qt :: k) = csv_go CsvQQ (rev f ++ cur) rec k.
Proof.
  induction f as [| c f IH]; intros cur rec k.
  - cbn [double_char flat_map app rev]. apply step_q_quote.
  - unfold double_char in *. cbn [flat_map rev]. rewrite <- !app_assoc.
    destruct (beq c qt) eqn:E.
    + apply beq_true in E. subst c. cbn [app].
      rewrite step_q_quote, step_qq_quote. apply IH.
    + cbn [app]. rewrite step_q_other by exact E. apply IH.
Qed.

Lemma q_field (f : bytes) (rec : list bytes) (s : byte) (k : bytes) :
  is_sep s ->
  csv_go CsvStart [] rec ((qt :: double_char qt f ++ [qt]) ++ s :: k) = csv_after (rev f) rec s k.
Proof.
  intros Hs. cbn [app]. rewrite <- app_assoc. cbn [app].
  rewrite step_start_quote, q_walk, sep_qq by exact Hs.
  rewrite app_nil_r. reflexivity.
Qed.

Lemma noquotes_plain (f : bytes) : fieldNeedsQuotes f = false -> existsb csv_special f = false.
Proof.
  unfold fieldNeedsQuotes. destruct f as [| c f].
  - reflexivity.
  - cbn [is_nil]. destruct (bytes_eqb (c :: f) (B "\.")).
    + discriminate.
    + destruct (existsb csv_special (c :: f)).
      * discriminate.
      * reflexivity.
Qed.

Lemma field_read (f : bytes) (rec : list bytes) (s : byte) (k : bytes) :
  is_sep s ->
  csv_go CsvStart [] rec (csv_field f ++ s :: k) = csv_after (rev f) rec s k.
Proof.
  intros Hs. unfold csv_field. destruct (fieldNeedsQuotes f) eqn:E.
  - apply q_field. exact Hs.
  - apply unq_field. exact Hs. apply noquotes_plain. exact E.
Qed.

(* the two forms suggested for use *)
Lemma field_comma (f : bytes) (rec : list bytes) (k : bytes) :
  csv_go CsvStart [] rec (csv_field f ++ cm :: k) = csv_go CsvStart [] (f :: rec) k.
Proof.
  rewrite field_read by (left; reflexivity).
  unfold csv_after. rewrite beq_refl, rev_involutive. reflexivity.
Qed.

Lemma field_lf (f : bytes) (rec : list bytes) (k : bytes) :
  csv_go CsvStart [] rec (csv_field f ++ x0a :: k) =
  match csv_go CsvStart [] [] k with Some l => Some (rev (f :: rec) :: l) | None => None end.
Proof.
  rewrite field_read by (right; reflexivity).
  unfold csv_after. rewrite rev_involutive. reflexivity.
Qed.

(* ====================================================================== one record *)
Lemma record_read (fs : list bytes) : forall (f : bytes) (rec : list bytes) (k : bytes),
  csv_go CsvStart [] rec (join (B ",") (map csv_field (f :: fs)) ++ x0a :: k) =
  match csv_go CsvStart [] [] k with
  | Some l => Some (rev (rev (f :: fs) ++ rec) :: l)
  | None => None
  end.
Proof.
  induction fs as [| g fs IH]; intros f rec k.
  - cbn [map join rev app]. apply field_lf.
  - change (join (B ",") (map csv_field (f :: g :: fs)))
      with (csv_field f ++ B "," ++ join (B ",") (map csv_field (g :: fs))).
    rewrite <- !app_assoc. change (B "," ++ ?x) with (cm :: x).
    rewrite field_comma. rewrite IH.
    destruct (csv_go CsvStart [] [] k) as [l |]; [| reflexivity].
    cbn [rev]. rewrite <- !app_assoc. reflexivity.
Qed.

Lemma csv_record_read (r : list bytes) (k : bytes) :
  r <> [] ->
  csv_go CsvStart [] [] (csv_record r ++ k) =
  match csv_go CsvStart [] [] k with Some l => Some (r :: l) | None => None end.
Proof.
  intros Hr. destruct r as [| f fs]; [congruence |].
  unfold csv_record. rewrite <- app_assoc. cbn [app].
  rewrite record_read. rewrite app_nil_r, rev_involutive. reflexivity.
Qed.

(* ====================================================================== 1. all records *)
Theorem csv_roundtrip : forall recs : list (list bytes),
  Forall (fun r => r <> []) recs -> csv_read (concat (map csv_record recs)) = Some recs.
Proof.
  unfold csv_read. induction recs as [| r recs IH]; intros H.
  - reflexivity.
  - inversion H as [| ? ? Hr Hrest]; subst.
    cbn [map concat]. rewrite csv_record_read by exact Hr.
    rewrite IH by exact Hrest. reflexivity.
Qed.

(* fields with a quote, a comma, CR, LF, a leading space, "\." and the empty field; a record made
   of the single empty field (an empty line) *)
Definition ex_recs : list (list bytes) :=
  [ [B "a""b"; B "x,y"; [x0d]; [x0a]; B " lead"; B "\."; []; B "plain"];
    [[]];
    [[]; B """"; []];
    [[x0d; x0a; ","%byte; """"%byte; """"%byte]] ].

Example csv_roundtrip_ex_text :
  concat (map csv_record ex_recs) =
  B """a""""b"",""x,y"",""" ++ [x0d] ++ B """,""" ++ [x0a] ++ B ""","" lead"",""\."",,plain" ++ [x0a]
  ++ [x0a]
  ++ B ","""""""","  ++ [x0a]
  ++ B """" ++ [x0d; x0a] ++ B ",""""""""""" ++ [x0a].
Proof. vm_compute. reflexivity. Qed.

Example csv_roundtrip_ex : csv_read (concat (map csv_record ex_recs)) = Some ex_recs.
Proof. vm_compute. reflexivity. Qed.

Example csv_roundtrip_ex_hyp : Forall (fun r : list bytes => r <> []) ex_recs.
Proof. unfold ex_recs. repeat constructor; discriminate. Qed.

Example csv_roundtrip_ex' : csv_read (concat (map csv_record ex_recs)) = Some ex_recs.
Proof. apply csv_roundtrip. exact csv_roundtrip_ex_hyp. Qed.

(* ====================================================================== 2. cell text *)
Theorem formatCSVValue_text : forall sf64 sf32 jm v,
  formatCSVValue sf64 sf32 jm v = csv_text sf64 sf32 jm v.
Proof. intros sf64 sf32 jm v. destruct v; reflexivity. Qed.

Theorem csv_cell_text_eq : forall sf64 sf32 jm r c,
  csv_cell sf64 sf32 jm r c = csv_cell_text sf64 sf32 jm r c.
Proof.
  intros sf64 sf32 jm r c. unfold csv_cell, csv_cell_text.
  destruct (map_get r (c_name c)) as [v |]; [| reflexivity].
  destruct v; reflexivity.
Qed.

(* ====================================================================== 3. one table *)
Lemma table_body_records : forall sf64 sf32 jm (cols : list column) (rows : list row),
  csv_record (map c_name cols)
  ++ concat (map (fun r => csv_record (map (csv_cell sf64 sf32 jm r) cols)) rows)
  = concat (map csv_record (map c_name cols :: map (fun r => map (csv_cell_text sf64 sf32 jm r) cols) rows)).
Proof.
  intros sf64 sf32 jm cols rows. cbn [map concat]. f_equal. f_equal.
  rewrite map_map. apply map_ext. intros r.
  f_equal. apply map_ext. intros c0. apply csv_cell_text_eq.
Qed.

Lemma TableToCSV_records : forall sf64 sf32 jm (t : table), t_cols t <> [] ->
  TableToCSV sf64 sf32 jm t = concat (map csv_record (csv_records sf64 sf32 jm t)).
Proof.
  intros sf64 sf32 jm t Hc. unfold TableToCSV, csv_records.
  rewrite <- table_body_records.
  destruct (t_cols t) as [| c cs]; [congruence | reflexivity].
Qed.

Lemma csv_records_nonempty : forall sf64 sf32 jm (t : table), t_cols t <> [] ->
  Forall (fun r => r <> []) (csv_records sf64 sf32 jm t).
Proof.
  intros sf64 sf32 jm t Hc. unfold csv_records.
  destruct (t_cols t) as [| c cs]; [congruence |].
  constructor.
  - discriminate.
  - apply Forall_forall. intros r Hr. apply in_map_iff in Hr.
    destruct Hr as (x & Hx & _). subst r. discriminate.
Qed.

Theorem TableToCSV_reads : forall sf64 sf32 jm (t : table), t_cols t <> [] ->
  csv_read (TableToCSV sf64 sf32 jm t) = Some (csv_records sf64 sf32 jm t).
Proof.
  intros sf64 sf32 jm t Hc. rewrite TableToCSV_records by exact Hc.
  apply csv_roundtrip. apply csv_records_nonempty. exact Hc.
Qed.

Definition ex_table : table :=
  {| t_name := B "t";
     t_cols := [ {| c_name := B "id"; c_type := B "int4"; c_typid := 23 |};
                 {| c_name := B "a,""b"; c_type := B "text"; c_typid := 25 |};
                 {| c_name := B " n"; c_type := B "text"; c_typid := 25 |} ];
     t_rows := [ [ (B "id", VI32 (-7)); (B "a,""b", VStr (B "x" ++ [x0d; x0a] ++ B "y")); (B " n", VNil) ];
                 [ (B "id", VNil); (B " n", VStr (B "\.")) ];
                 [ (B "a,""b", VBytes (B " s")); (B "id", VBool true); (B "id", VU64 18446744073709551615) ] ];
     t_rowcount := 3 |}.

Example TableToCSV_reads_ex :
  csv_read (TableToCSV (fun _ => B "f64") (fun _ => B "f32") (fun _ => B "[1,2]") ex_table)
  = Some [ [B "id"; B "a,""b"; B " n"];
           [B "-7"; B "x" ++ [x0d; x0a] ++ B "y"; []];
           [[]; []; B "\."];
           [B "18446744073709551615"; B " s"; []] ].
Proof. vm_compute. reflexivity. Qed.

Example TableToCSV_reads_ex' : forall sf64 sf32 jm,
  csv_read (TableToCSV sf64 sf32 jm ex_table) = Some (csv_records sf64 sf32 jm ex_table).
Proof. intros. apply TableToCSV_reads. discriminate. Qed.

(* ====================================================================== 4. comment escaping *)
Theorem cesc_eq : forall s, commentSafe s = cesc s.
Proof.
  intros s. unfold commentSafe, cesc. apply flat_map_ext. intros c. reflexivity.
Qed.

Lemma comment_escape_char_no_newline (c : byte) :
  forallb (fun x => negb (is_newline x)) (comment_escape_char c) = true.
Proof.
  unfold comment_escape_char.
  destruct (beq c "\"%byte); [reflexivity |].
  destruct (beq c x0a) eqn:Elf; [reflexivity |].
  destruct (beq c x0d) eqn:Ecr; [reflexivity |].
  cbn [forallb]. unfold is_newline. rewrite Elf, Ecr. reflexivity.
Qed.

Theorem cesc_no_newline : forall s, forallb (fun c => negb (is_newline c)) (cesc s) = true.
Proof.
  intros s. rewrite <- cesc_eq. unfold commentSafe.
  induction s as [| c s IH].
  - reflexivity.
  - cbn [flat_map]. rewrite forallb_app, comment_escape_char_no_newline, IH. reflexivity.
Qed.

(* ====================================================================== 5. sections *)
Theorem DatabaseToCSV_sections : forall sf64 sf32 jm (d : database),
  DatabaseToCSV sf64 sf32 jm d =
    concat (map (fun t => (B "# Database: " ++ cesc (d_name d) ++ B ", Table: " ++ cesc (t_name t)) ++ [x0a]
                           ++ TableToCSV sf64 sf32 jm t ++ [x0a]) (d_tables d))
  /\ forall t, forallb (fun c => negb (is_newline c))
                 (B "# Database: " ++ cesc (d_name d) ++ B ", Table: " ++ cesc (t_name t)) = true.
Proof.
  intros sf64 sf32 jm d. split.
  - unfold DatabaseToCSV. f_equal. apply map_ext. intros t.
    unfold csv_section. rewrite !cesc_eq. rewrite <- !app_assoc. reflexivity.
  - intros t. rewrite !forallb_app, !cesc_no_newline. reflexivity.
Qed.

Theorem DumpToCSV_concat : forall sf64 sf32 jm dbs,
  DumpToCSV sf64 sf32 jm dbs = concat (map (DatabaseToCSV sf64 sf32 jm) dbs).
Proof. reflexivity. Qed.
