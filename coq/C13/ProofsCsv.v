(* C13/ProofsCsv.v — the CSV writer model (encoding/csv as used by csv.go, and csv.go's own
   writeCSVRecord) is inverted by the RFC 4180 reader of the specification, for all field contents;
   no line of an export is empty, so readers that skip empty lines read the same records;
   structure of the CSV exports. *)
From Coq Require Import Strings.String.
Require Import PG.Base.Bytes PG.Base.Value PG.C13.Lib PG.C13.Model PG.C13.Spec.
Import List ListNotations.
#[local] Open Scope list_scope.

(* ====================================================================== bytes equality *)
Lemma beq_true (c d : byte) : beq c d = true -> c = d.
Proof. unfold beq. apply Byte.byte_dec_bl. Qed.

Lemma beq_refl (c : byte) : beq c c = true.
Proof. unfold beq. apply Byte.byte_dec_lb. reflexivity. Qed.

(* ====================================================================== reader steps *)
Definition qt : byte := """"%byte.
Definition cm : byte := ","%byte.

Lemma csv_special_false (c : byte) :
  csv_special c = false ->
  beq c x0a = false /\ beq c x0d = false /\ beq c qt = false /\ beq c cm = false.
Proof.
  unfold csv_special, qt, cm. intros H.
  apply orb_false_iff in H. destruct H as [H Hcm].
  apply orb_false_iff in H. destruct H as [H Hqt].
  apply orb_false_iff in H. destruct H as [Hlf Hcr].
  repeat split; assumption.
Qed.

(* a plain byte read at the start of a field or inside an unquoted field *)
Lemma step_start_plain (c : byte) (cur : bytes) (rec : list bytes) (r : bytes) :
  csv_special c = false ->
  csv_go CsvStart cur rec (c :: r) = csv_go CsvUnq (c :: cur) rec r.
Proof.
  intros H. apply csv_special_false in H. destruct H as (Hlf & Hcr & Hqt & Hcm).
  unfold qt, cm in *. cbn [csv_go]. rewrite Hcm, Hlf, Hcr, Hqt. reflexivity.
Qed.

Lemma step_unq_plain (c : byte) (cur : bytes) (rec : list bytes) (r : bytes) :
  csv_special c = false ->
  csv_go CsvUnq cur rec (c :: r) = csv_go CsvUnq (c :: cur) rec r.
Proof.
  intros H. apply csv_special_false in H. destruct H as (Hlf & Hcr & Hqt & Hcm).
  unfold qt, cm in *. cbn [csv_go]. rewrite Hcm, Hlf, Hcr, Hqt. reflexivity.
Qed.

Lemma step_start_quote (cur : bytes) (rec : list bytes) (r : bytes) :
  csv_go CsvStart cur rec (qt :: r) = csv_go CsvQ [] rec r.
Proof. reflexivity. Qed.

Lemma step_q_quote (cur : bytes) (rec : list bytes) (r : bytes) :
  csv_go CsvQ cur rec (qt :: r) = csv_go CsvQQ cur rec r.
Proof. reflexivity. Qed.

Lemma step_qq_quote (cur : bytes) (rec : list bytes) (r : bytes) :
  csv_go CsvQQ cur rec (qt :: r) = csv_go CsvQ (qt :: cur) rec r.
Proof. reflexivity. Qed.

Lemma step_q_other (c : byte) (cur : bytes) (rec : list bytes) (r : bytes) :
  beq c qt = false ->
  csv_go CsvQ cur rec (c :: r) = csv_go CsvQ (c :: cur) rec r.
Proof. intros H. unfold qt in H. cbn [csv_go]. rewrite H. reflexivity. Qed.

(* what the reader does at a field separator [s] (comma or LF) once the field [rev cur] is complete *)
Definition is_sep (s : byte) : Prop := s = cm \/ s = x0a.
Definition csv_after (cur : bytes) (rec : list bytes) (s : byte) (k : bytes) : option (list (list bytes)) :=
  if beq s cm then csv_go CsvStart [] (rev cur :: rec) k
  else match csv_go CsvStart [] [] k with
       | Some l => Some (rev (rev cur :: rec) :: l)
       | None => None
       end.

Lemma sep_start (s : byte) (cur : bytes) (rec : list bytes) (k : bytes) :
  is_sep s -> csv_go CsvStart cur rec (s :: k) = csv_after cur rec s k.
Proof. intros [H | H]; subst s; reflexivity. Qed.

Lemma sep_unq (s : byte) (cur : bytes) (rec : list bytes) (k : bytes) :
  is_sep s -> csv_go CsvUnq cur rec (s :: k) = csv_after cur rec s k.
Proof. intros [H | H]; subst s; reflexivity. Qed.

Lemma sep_qq (s : byte) (cur : bytes) (rec : list bytes) (k : bytes) :
  is_sep s -> csv_go CsvQQ cur rec (s :: k) = csv_after cur rec s k.
Proof. intros [H | H]; subst s; reflexivity. Qed.

(* ====================================================================== one field *)
(* unquoted: the reader walks over plain bytes *)
Lemma unq_walk (f : bytes) : forall (cur : bytes) (rec : list bytes) (k : bytes),
  existsb csv_special f = false ->
  csv_go CsvUnq cur rec (f ++ k) = csv_go CsvUnq (rev f ++ cur) rec k.
Proof.
  induction f as [| c f IH]; intros cur rec k H.
  - reflexivity.
  - cbn [existsb] in H. apply orb_false_iff in H. destruct H as [Hc Hf].
    cbn [app rev]. rewrite step_unq_plain by exact Hc.
    rewrite IH by exact Hf. rewrite <- app_assoc. reflexivity.
Qed.

Lemma unq_field (f : bytes) (rec : list bytes) (s : byte) (k : bytes) :
  is_sep s -> existsb csv_special f = false ->
  csv_go CsvStart [] rec (f ++ s :: k) = csv_after (rev f) rec s k.
Proof.
  intros Hs H. destruct f as [| c f].
  - cbn [app rev]. apply sep_start. exact Hs.
  - cbn [existsb] in H. apply orb_false_iff in H. destruct H as [Hc Hf].
    cbn [app]. rewrite step_start_plain by exact Hc.
    rewrite unq_walk by exact Hf. rewrite sep_unq by exact Hs.
    cbn [rev]. reflexivity.
Qed.

(* quoted: every byte of the field comes back, a doubled quote as one quote *)
Lemma q_walk (f : bytes) : forall (cur : bytes) (rec : list bytes) (k : bytes),
  csv_go CsvQ cur rec (double_char qt f ++ qt :: k) = csv_go CsvQQ (rev f ++ cur) rec k.
Proof.
  induction f as [| c f IH]; intros cur rec k.
  - cbn [double_char flat_map app rev]. apply step_q_quote.
  - unfold double_char in *. cbn [flat_map rev]. rewrite <- !app_assoc.
    destruct (beq c qt) eqn:E.
    + apply beq_true in E. subst c. cbn [app].
      rewrite step_q_quote, step_qq_quote. apply IH.
    + cbn [app]. rewrite step_q_other by exact E. apply IH.
Qed.

Lemma q_field (f : bytes) (rec : list bytes) (s : byte) (k : bytes) :
  is_sep s ->
  csv_go CsvStart [] rec ((qt :: double_char qt f ++ [qt]) ++ s :: k) = csv_after (rev f) rec s k.
Proof.
  intros Hs. cbn [app]. rewrite <- app_assoc. cbn [app].
  rewrite step_start_quote, q_walk, sep_qq by exact Hs.
  rewrite app_nil_r. reflexivity.
Qed.

Lemma noquotes_plain (f : bytes) : fieldNeedsQuotes f = false -> existsb csv_special f = false.
Proof.
  unfold fieldNeedsQuotes. destruct f as [| c f].
  - reflexivity.
  - cbn [is_nil]. destruct (bytes_eqb (c :: f) (B "\.")).
    + discriminate.
    + destruct (existsb csv_special (c :: f)).
      * discriminate.
      * reflexivity.
Qed.

Lemma field_read (f : bytes) (rec : list bytes) (s : byte) (k : bytes) :
  is_sep s ->
  csv_go CsvStart [] rec (csv_field f ++ s :: k) = csv_after (rev f) rec s k.
Proof.
  intros Hs. unfold csv_field. destruct (fieldNeedsQuotes f) eqn:E.
  - apply q_field. exact Hs.
  - apply unq_field. exact Hs. apply noquotes_plain. exact E.
Qed.

(* the two forms suggested for use *)
Lemma field_comma (f : bytes) (rec : list bytes) (k : bytes) :
  csv_go CsvStart [] rec (csv_field f ++ cm :: k) = csv_go CsvStart [] (f :: rec) k.
Proof.
  rewrite field_read by (left; reflexivity).
  unfold csv_after. rewrite beq_refl, rev_involutive. reflexivity.
Qed.

Lemma field_lf (f : bytes) (rec : list bytes) (k : bytes) :
  csv_go CsvStart [] rec (csv_field f ++ x0a :: k) =
  match csv_go CsvStart [] [] k with Some l => Some (rev (f :: rec) :: l) | None => None end.
Proof.
  rewrite field_read by (right; reflexivity).
  unfold csv_after. rewrite rev_involutive. reflexivity.
Qed.

(* ====================================================================== one record *)
Lemma record_read (fs : list bytes) : forall (f : bytes) (rec : list bytes) (k : bytes),
  csv_go CsvStart [] rec (join (B ",") (map csv_field (f :: fs)) ++ x0a :: k) =
  match csv_go CsvStart [] [] k with
  | Some l => Some (rev (rev (f :: fs) ++ rec) :: l)
  | None => None
  end.
Proof.
  induction fs as [| g fs IH]; intros f rec k.
  - cbn [map join rev app]. apply field_lf.
  - change (join (B ",") (map csv_field (f :: g :: fs)))
      with (csv_field f ++ B "," ++ join (B ",") (map csv_field (g :: fs))).
    rewrite <- !app_assoc. change (B "," ++ ?x) with (cm :: x).
    rewrite field_comma. rewrite IH.
    destruct (csv_go CsvStart [] [] k) as [l |]; [| reflexivity].
    cbn [rev]. rewrite <- !app_assoc. reflexivity.
Qed.

Lemma csv_record_read (r : list bytes) (k : bytes) :
  r <> [] ->
  csv_go CsvStart [] [] (csv_record r ++ k) =
  match csv_go CsvStart [] [] k with Some l => Some (r :: l) | None => None end.
Proof.
  intros Hr. destruct r as [| f fs]; [congruence |].
  unfold csv_record. rewrite <- app_assoc. cbn [app].
  rewrite record_read. rewrite app_nil_r, rev_involutive. reflexivity.
Qed.

(* ====================================================================== 1. all records *)
Theorem csv_roundtrip : forall recs : list (list bytes),
  Forall (fun r => r <> []) recs -> csv_read (concat (map csv_record recs)) = Some recs.
Proof.
  unfold csv_read. induction recs as [| r recs IH]; intros H.
  - reflexivity.
  - inversion H as [| ? ? Hr Hrest]; subst.
    cbn [map concat]. rewrite csv_record_read by exact Hr.
    rewrite IH by exact Hrest. reflexivity.
Qed.

(* fields with a quote, a comma, CR, LF, a leading space, "\." and the empty field; a record made
   of the single empty field (an empty line) *)
Definition ex_recs : list (list bytes) :=
  [ [B "a""b"; B "x,y"; [x0d]; [x0a]; B " lead"; B "\."; []; B "plain"];
    [[]];
    [[]; B """"; []];
    [[x0d; x0a; ","%byte; """"%byte; """"%byte]] ].

Example csv_roundtrip_ex_text :
  concat (map csv_record ex_recs) =
  B """a""""b"",""x,y"",""" ++ [x0d] ++ B """,""" ++ [x0a] ++ B ""","" lead"",""\."",,plain" ++ [x0a]
  ++ [x0a]
  ++ B ","""""""","  ++ [x0a]
  ++ B """" ++ [x0d; x0a] ++ B ",""""""""""" ++ [x0a].
Proof. vm_compute. reflexivity. Qed.

Example csv_roundtrip_ex : csv_read (concat (map csv_record ex_recs)) = Some ex_recs.
Proof. vm_compute. reflexivity. Qed.

Example csv_roundtrip_ex_hyp : Forall (fun r : list bytes => r <> []) ex_recs.
Proof. unfold ex_recs. repeat constructor; discriminate. Qed.

Example csv_roundtrip_ex' : csv_read (concat (map csv_record ex_recs)) = Some ex_recs.
Proof. apply csv_roundtrip. exact csv_roundtrip_ex_hyp. Qed.

(* ====================================================================== 1b. csv.go writeCSVRecord *)
Lemma lone_empty_eq (r : list bytes) : lone_empty r = true -> r = [[]].
Proof.
  destruct r as [| f [| g r]]; cbn [lone_empty]; intros H; try discriminate H.
  destruct f; [reflexivity | discriminate H].
Qed.

Lemma lone_line_read (k : bytes) :
  csv_go CsvStart [] [] ([qt; qt; x0a] ++ k) =
  match csv_go CsvStart [] [] k with Some l => Some ([[]] :: l) | None => None end.
Proof. reflexivity. Qed.

Lemma writeCSVRecord_read (r : list bytes) (k : bytes) :
  r <> [] ->
  csv_go CsvStart [] [] (writeCSVRecord r ++ k) =
  match csv_go CsvStart [] [] k with Some l => Some (r :: l) | None => None end.
Proof.
  intros Hr. unfold writeCSVRecord. destruct (lone_empty r) eqn:E.
  - apply lone_empty_eq in E. subst r. apply lone_line_read.
  - apply csv_record_read. exact Hr.
Qed.

Theorem csv_lines_roundtrip : forall recs : list (list bytes),
  Forall (fun r => r <> []) recs -> csv_read (concat (map writeCSVRecord recs)) = Some recs.
Proof.
  unfold csv_read. induction recs as [| r recs IH]; intros H.
  - reflexivity.
  - inversion H as [| ? ? Hr Hrest]; subst.
    cbn [map concat]. rewrite writeCSVRecord_read by exact Hr.
    rewrite IH by exact Hrest. reflexivity.
Qed.

(* ---------------------------------------------------------------------- no empty line *)
(* the scanner over a byte that is no line end and no quote *)
Lemma blank_plain (c : byte) (fr : bool) (r : bytes) :
  beq c x0a = false -> beq c x0d = false -> beq c qt = false ->
  csv_blank false fr (c :: r) = csv_blank false false r.
Proof.
  intros H1 H2 H3. unfold qt in H3. cbn [csv_blank]. rewrite H1, H2, H3. reflexivity.
Qed.

Lemma blank_special_plain (c : byte) (fr : bool) (r : bytes) :
  csv_special c = false -> csv_blank false fr (c :: r) = csv_blank false false r.
Proof.
  intros H. apply csv_special_false in H. destruct H as (Hlf & Hcr & Hqt & _).
  apply blank_plain; assumption.
Qed.

Lemma blank_unq_walk (f : bytes) : forall (k : bytes),
  existsb csv_special f = false -> csv_blank false false (f ++ k) = csv_blank false false k.
Proof.
  induction f as [| c f IH]; intros k H.
  - reflexivity.
  - cbn [existsb] in H. apply orb_false_iff in H. destruct H as [Hc Hf].
    cbn [app]. rewrite blank_special_plain by exact Hc. apply IH. exact Hf.
Qed.

Lemma blank_q_walk (f : bytes) : forall (fr : bool) (k : bytes),
  csv_blank true fr (double_char qt f ++ qt :: k) = csv_blank false false k.
Proof.
  induction f as [| c f IH]; intros fr k.
  - reflexivity.
  - unfold double_char in *. cbn [flat_map]. rewrite <- !app_assoc.
    destruct (beq c qt) eqn:E.
    + apply beq_true in E. subst c. cbn [app].
      change (csv_blank true fr (qt :: qt :: flat_map (fun c => if beq c qt then [qt; qt] else [c]) f ++ qt :: k))
        with (csv_blank true false (flat_map (fun c => if beq c qt then [qt; qt] else [c]) f ++ qt :: k)).
      apply IH.
    + cbn [app]. cbn [csv_blank]. unfold qt in E. rewrite E. cbn [negb]. apply IH.
Qed.

Lemma needsQuotes_nonempty (f : bytes) : fieldNeedsQuotes f = true -> is_nil f = false.
Proof. destruct f; [intros H; discriminate H | reflexivity]. Qed.

(* after a field the scanner is still at the beginning of the line only if the field wrote nothing *)
Lemma blank_field (f : bytes) (fr : bool) (k : bytes) :
  csv_blank false fr (csv_field f ++ k) = csv_blank false (fr && is_nil f) k.
Proof.
  unfold csv_field. destruct (fieldNeedsQuotes f) eqn:E.
  - rewrite (needsQuotes_nonempty f E), andb_false_r.
    cbn [app]. rewrite <- app_assoc. cbn [app].
    change (csv_blank false fr (""""%byte :: double_char """"%byte f ++ """"%byte :: k))
      with (csv_blank true false (double_char qt f ++ qt :: k)).
    apply blank_q_walk.
  - apply noquotes_plain in E. destruct f as [| c f].
    + cbn [app is_nil]. rewrite andb_true_r. reflexivity.
    + cbn [existsb] in E. apply orb_false_iff in E. destruct E as [Hc Hf].
      cbn [app is_nil]. rewrite andb_false_r.
      rewrite blank_special_plain by exact Hc. apply blank_unq_walk. exact Hf.
Qed.

Lemma blank_lf (fr : bool) (k : bytes) :
  csv_blank false fr (x0a :: k) = fr || csv_blank false true k.
Proof. reflexivity. Qed.

Lemma blank_comma (fr : bool) (k : bytes) :
  csv_blank false fr (cm :: k) = csv_blank false false k.
Proof. reflexivity. Qed.

(* one line written by csv.Writer: it is empty exactly when the record is the lone empty field *)
Lemma blank_record (fs : list bytes) : forall (f : bytes) (fr : bool) (k : bytes),
  csv_blank false fr (join (B ",") (map csv_field (f :: fs)) ++ x0a :: k) =
  (fr && lone_empty (f :: fs)) || csv_blank false true k.
Proof.
  induction fs as [| g fs IH]; intros f fr k.
  - cbn [map join lone_empty]. rewrite blank_field. apply blank_lf.
  - change (join (B ",") (map csv_field (f :: g :: fs)))
      with (csv_field f ++ B "," ++ join (B ",") (map csv_field (g :: fs))).
    rewrite <- !app_assoc. change (B "," ++ ?x) with (cm :: x).
    rewrite blank_field, blank_comma, IH.
    cbn [lone_empty andb]. rewrite andb_false_r. reflexivity.
Qed.

Lemma blank_lone_line (k : bytes) :
  csv_blank false true ([qt; qt; x0a] ++ k) = csv_blank false true k.
Proof. reflexivity. Qed.

Lemma writeCSVRecord_blank (r : list bytes) (k : bytes) :
  r <> [] -> csv_blank false true (writeCSVRecord r ++ k) = csv_blank false true k.
Proof.
  intros Hr. unfold writeCSVRecord. destruct (lone_empty r) eqn:E.
  - apply blank_lone_line.
  - destruct r as [| f fs]; [congruence |].
    unfold csv_record. rewrite <- app_assoc. cbn [app].
    rewrite blank_record, E. reflexivity.
Qed.

Theorem csv_lines_no_blank : forall recs : list (list bytes),
  Forall (fun r => r <> []) recs -> csv_no_blank_line (concat (map writeCSVRecord recs)).
Proof.
  unfold csv_no_blank_line. induction recs as [| r recs IH]; intros H.
  - reflexivity.
  - inversion H as [| ? ? Hr Hrest]; subst.
    cbn [map concat]. rewrite writeCSVRecord_blank by exact Hr. apply IH. exact Hrest.
Qed.

(* ---------------------------------------------------------------------- readers that skip empty lines *)
(* for EVERY text: where there is no empty line there is nothing to drop *)
Lemma drop_blank_id (t : bytes) : forall (inq fr : bool),
  csv_blank inq fr t = false -> csv_drop_blank inq fr t = t.
Proof.
  induction t as [| c r IH]; intros inq fr H.
  - reflexivity.
  - cbn [csv_blank] in H. cbn [csv_drop_blank]. destruct inq.
    + f_equal. apply IH. exact H.
    + destruct (beq c x0a) eqn:E1.
      * apply orb_false_iff in H. destruct H as [Hf Hb]. subst fr. f_equal. apply IH. exact Hb.
      * destruct (beq c x0d) eqn:E2.
        -- apply orb_false_iff in H. destruct H as [Hf Hb].
           destruct r as [| c2 r2]; [reflexivity |].
           rewrite Hf. f_equal. apply IH. exact Hb.
        -- destruct (beq c """"%byte); f_equal; apply IH; exact H.
Qed.

Theorem csv_skip_agrees : forall t : bytes, csv_no_blank_line t -> csv_read_skip t = csv_read t.
Proof.
  intros t H. unfold csv_read_skip. rewrite (drop_blank_id t false true H). reflexivity.
Qed.

Theorem csv_lines_skip_roundtrip : forall recs : list (list bytes),
  Forall (fun r => r <> []) recs -> csv_read_skip (concat (map writeCSVRecord recs)) = Some recs.
Proof.
  intros recs H. rewrite csv_skip_agrees by (apply csv_lines_no_blank; exact H).
  apply csv_lines_roundtrip. exact H.
Qed.

(* the records of ex_recs again: the lone empty field now has a line of its own that is not empty;
   blank lines INSIDE a quoted field stay where they are *)
Definition ex_recs2 : list (list bytes) := ex_recs ++ [ [B "a" ++ [x0a; x0a] ++ B "b"]; [[]]; [[x0a]] ].
Example csv_lines_ex_text :
  concat (map writeCSVRecord [ [B "h"]; [[]]; [B "a" ++ [x0a; x0a] ++ B "b"]; [[]; []] ]) =
  B "h" ++ [x0a] ++ B """""" ++ [x0a] ++ B """a" ++ [x0a; x0a] ++ B "b""" ++ [x0a] ++ B "," ++ [x0a].
Proof. vm_compute. reflexivity. Qed.
Example csv_lines_skip_ex : csv_read_skip (concat (map writeCSVRecord ex_recs2)) = Some ex_recs2.
Proof. vm_compute. reflexivity. Qed.
(* csv.Writer alone: the reader that skips empty lines loses the record *)
Example csv_record_skip_loses :
  csv_read_skip (concat (map csv_record [ [B "h"]; [[]]; [B "x"] ])) = Some [ [B "h"]; [B "x"] ].
Proof. vm_compute. reflexivity. Qed.

(* ====================================================================== 2. cell text *)
Theorem formatCSVValue_text : forall sf64 sf32 jm v,
  formatCSVValue sf64 sf32 jm v = csv_text sf64 sf32 jm v.
Proof. intros sf64 sf32 jm v. destruct v; reflexivity. Qed.

Theorem csv_cell_text_eq : forall sf64 sf32 jm r c,
  csv_cell sf64 sf32 jm r c = csv_cell_text sf64 sf32 jm r c.
Proof.
  intros sf64 sf32 jm r c. unfold csv_cell, csv_cell_text.
  destruct (map_get r (c_name c)) as [v |]; [| reflexivity].
  destruct v; reflexivity.
Qed.

(* ====================================================================== 3. one table *)
Lemma table_body_records : forall sf64 sf32 jm (cols : list column) (rows : list row),
  writeCSVRecord (map c_name cols)
  ++ concat (map (fun r => writeCSVRecord (map (csv_cell sf64 sf32 jm r) cols)) rows)
  = concat (map writeCSVRecord (map c_name cols :: map (fun r => map (csv_cell_text sf64 sf32 jm r) cols) rows)).
Proof.
  intros sf64 sf32 jm cols rows. cbn [map concat]. f_equal. f_equal.
  rewrite map_map. apply map_ext. intros r.
  f_equal. apply map_ext. intros c0. apply csv_cell_text_eq.
Qed.

Lemma TableToCSV_records : forall sf64 sf32 jm (t : table), t_cols t <> [] ->
  TableToCSV sf64 sf32 jm t = concat (map writeCSVRecord (csv_records sf64 sf32 jm t)).
Proof.
  intros sf64 sf32 jm t Hc. unfold TableToCSV, csv_records.
  rewrite <- table_body_records.
  destruct (t_cols t) as [| c cs]; [congruence | reflexivity].
Qed.

Lemma csv_records_nonempty : forall sf64 sf32 jm (t : table), t_cols t <> [] ->
  Forall (fun r => r <> []) (csv_records sf64 sf32 jm t).
Proof.
  intros sf64 sf32 jm t Hc. unfold csv_records.
  destruct (t_cols t) as [| c cs]; [congruence |].
  constructor.
  - discriminate.
  - apply Forall_forall. intros r Hr. apply in_map_iff in Hr.
    destruct Hr as (x & Hx & _). subst r. discriminate.
Qed.

Theorem TableToCSV_reads : forall sf64 sf32 jm (t : table), t_cols t <> [] ->
  csv_read (TableToCSV sf64 sf32 jm t) = Some (csv_records sf64 sf32 jm t).
Proof.
  intros sf64 sf32 jm t Hc. rewrite TableToCSV_records by exact Hc.
  apply csv_lines_roundtrip. apply csv_records_nonempty. exact Hc.
Qed.

(* no line of a table's export (outside quoted fields) is empty ... *)
Theorem TableToCSV_no_blank_line : forall sf64 sf32 jm (t : table), t_cols t <> [] ->
  csv_no_blank_line (TableToCSV sf64 sf32 jm t).
Proof.
  intros sf64 sf32 jm t Hc. rewrite TableToCSV_records by exact Hc.
  apply csv_lines_no_blank. apply csv_records_nonempty. exact Hc.
Qed.

(* ... so a reader that skips empty lines reads the same records as the RFC 4180 reader *)
Theorem TableToCSV_skip_reads : forall sf64 sf32 jm (t : table), t_cols t <> [] ->
  csv_read_skip (TableToCSV sf64 sf32 jm t) = csv_read (TableToCSV sf64 sf32 jm t)
  /\ csv_read_skip (TableToCSV sf64 sf32 jm t) = Some (csv_records sf64 sf32 jm t).
Proof.
  intros sf64 sf32 jm t Hc.
  assert (E : csv_read_skip (TableToCSV sf64 sf32 jm t) = csv_read (TableToCSV sf64 sf32 jm t))
    by (apply csv_skip_agrees; apply TableToCSV_no_blank_line; exact Hc).
  split; [exact E |]. rewrite E. apply TableToCSV_reads. exact Hc.
Qed.

Definition ex_table : table :=
  {| t_name := B "t";
     t_cols := [ {| c_name := B "id"; c_type := B "int4"; c_typid := 23 |};
                 {| c_name := B "a,""b"; c_type := B "text"; c_typid := 25 |};
                 {| c_name := B " n"; c_type := B "text"; c_typid := 25 |} ];
     t_rows := [ [ (B "id", VI32 (-7)); (B "a,""b", VStr (B "x" ++ [x0d; x0a] ++ B "y")); (B " n", VNil) ];
                 [ (B "id", VNil); (B " n", VStr (B "\.")) ];
                 [ (B "a,""b", VBytes (B " s")); (B "id", VBool true); (B "id", VU64 18446744073709551615) ] ];
     t_rowcount := 3 |}.

Example TableToCSV_reads_ex :
  csv_read (TableToCSV (fun _ => B "f64") (fun _ => B "f32") (fun _ => B "[1,2]") ex_table)
  = Some [ [B "id"; B "a,""b"; B " n"];
           [B "-7"; B "x" ++ [x0d; x0a] ++ B "y"; []];
           [[]; []; B "\."];
           [B "18446744073709551615"; B " s"; []] ].
Proof. vm_compute. reflexivity. Qed.

(* a single column: NULL, the empty string, a missing cell and a value; and an empty column name *)
Definition ex_table1 (name : bytes) : table :=
  {| t_name := B "t";
     t_cols := [ {| c_name := name; c_type := B "text"; c_typid := 25 |} ];
     t_rows := [ [ (name, VNil) ]; [ (name, VStr []) ]; []; [ (name, VStr (B "v")) ]; [ (name, VStr [x0a]) ] ];
     t_rowcount := 5 |}.
Example TableToCSV_single_ex :
  TableToCSV (fun _ => []) (fun _ => []) (fun _ => []) (ex_table1 (B "c"))
  = B "c" ++ [x0a] ++ B """""" ++ [x0a] ++ B """""" ++ [x0a] ++ B """""" ++ [x0a] ++ B "v" ++ [x0a]
    ++ B """" ++ [x0a] ++ B """" ++ [x0a]
  /\ TableToCSV (fun _ => []) (fun _ => []) (fun _ => []) (ex_table1 [])
  = B """""" ++ [x0a] ++ B """""" ++ [x0a] ++ B """""" ++ [x0a] ++ B """""" ++ [x0a] ++ B "v" ++ [x0a]
    ++ B """" ++ [x0a] ++ B """" ++ [x0a].
Proof. split; vm_compute; reflexivity. Qed.
Example TableToCSV_skip_reads_ex :
  csv_read_skip (TableToCSV (fun _ => []) (fun _ => []) (fun _ => []) (ex_table1 []))
  = Some [ [[]]; [[]]; [[]]; [[]]; [B "v"]; [[x0a]] ].
Proof. vm_compute. reflexivity. Qed.

Example TableToCSV_reads_ex' : forall sf64 sf32 jm,
  csv_read (TableToCSV sf64 sf32 jm ex_table) = Some (csv_records sf64 sf32 jm ex_table).
Proof. intros. apply TableToCSV_reads. discriminate. Qed.

(* ====================================================================== 4. comment escaping *)
Theorem cesc_eq : forall s, commentSafe s = cesc s.
Proof.
  intros s. unfold commentSafe, cesc. apply flat_map_ext. intros c. reflexivity.
Qed.

Lemma comment_escape_char_no_newline (c : byte) :
  forallb (fun x => negb (is_newline x)) (comment_escape_char c) = true.
Proof.
  unfold comment_escape_char.
  destruct (beq c "\"%byte); [reflexivity |].
  destruct (beq c x0a) eqn:Elf; [reflexivity |].
  destruct (beq c x0d) eqn:Ecr; [reflexivity |].
  cbn [forallb]. unfold is_newline. rewrite Elf, Ecr. reflexivity.
Qed.

Theorem cesc_no_newline : forall s, forallb (fun c => negb (is_newline c)) (cesc s) = true.
Proof.
  intros s. rewrite <- cesc_eq. unfold commentSafe.
  induction s as [| c s IH].
  - reflexivity.
  - cbn [flat_map]. rewrite forallb_app, comment_escape_char_no_newline, IH. reflexivity.
Qed.

(* ====================================================================== 5. sections *)
Theorem DatabaseToCSV_sections : forall sf64 sf32 jm (d : database),
  DatabaseToCSV sf64 sf32 jm d =
    concat (map (fun t => (B "# Database: " ++ cesc (d_name d) ++ B ", Table: " ++ cesc (t_name t)) ++ [x0a]
                           ++ TableToCSV sf64 sf32 jm t ++ [x0a]) (d_tables d))
  /\ forall t, forallb (fun c => negb (is_newline c))
                 (B "# Database: " ++ cesc (d_name d) ++ B ", Table: " ++ cesc (t_name t)) = true.
Proof.
  intros sf64 sf32 jm d. split.
  - unfold DatabaseToCSV. f_equal. apply map_ext. intros t.
    unfold csv_section. rewrite !cesc_eq. rewrite <- !app_assoc. reflexivity.
  - intros t. rewrite !forallb_app, !cesc_no_newline. reflexivity.
Qed.

Theorem DumpToCSV_concat : forall sf64 sf32 jm dbs,
  DumpToCSV sf64 sf32 jm dbs = concat (map (DatabaseToCSV sf64 sf32 jm) dbs).
Proof. reflexivity. Qed.
