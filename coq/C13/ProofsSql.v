(* C13/ProofsSql.v — identifiers, comments, values and whole statements lex to the expected tokens. *)
From Coq Require Import Strings.String.
Require Import PG.Base.Bytes PG.Base.Value PG.C13.Lib PG.C13.Model PG.C13.Spec PG.C13.ProofsNum PG.C13.ProofsLex PG.C13.ProofsTag.
Import List ListNotations.
#[local] Open Scope list_scope.

(* ====================================================================== identifiers *)
Definition dq_bnd (rest : bytes) : Prop := match rest with [] => True | c :: _ => c <> """"%byte end.

Lemma scan_dq_doubled n : forall rest, dq_bnd rest ->
  scan_dq (double_char """"%byte n ++ """"%byte :: rest) = Some (n, rest).
Proof.
  induction n as [|a n IH]; intros rest Hb.
  - cbn [double_char flat_map app scan_dq]. rewrite ?beq_refl.
    destruct rest as [|c r]; [reflexivity|]. cbn in Hb. rewrite (beq_neq _ _ Hb). reflexivity.
  - unfold double_char in *. cbn [flat_map]. destruct (beq a """"%byte) eqn:E.
    + apply beq_eq in E. subst a. cbn [app scan_dq]. rewrite ?beq_refl.
      rewrite (IH rest Hb). reflexivity.
    + cbn [app scan_dq]. rewrite E. rewrite (IH rest Hb). reflexivity.
Qed.

Lemma lex_tok_dq n rest : n <> [] -> dq_bnd rest ->
  lex_tok (""""%byte :: double_char """"%byte n ++ """"%byte :: rest) = Some (TIdent n, rest).
Proof.
  intros Hn Hb. unfold lex_tok.
  change (beq """"%byte "-"%byte) with false. change (beq """"%byte """"%byte) with true. cbv iota.
  rewrite (scan_dq_doubled n rest Hb). destruct n; [contradiction|reflexivity].
Qed.

(* what may follow a bare word *)
Definition word_bnd (rest : bytes) : Prop :=
  match rest with [] => True | c :: _ => is_ident_cont c = false /\ c <> "'"%byte end.

Lemma safe_first_facts c : safe_first c = true ->
  beq c "-"%byte = false /\ beq c """"%byte = false /\ beq c "'"%byte = false /\ beq c "$"%byte = false /\
  is_digit c = false /\ is_ident_start c = true.
Proof. destruct c; intros H; try discriminate H; repeat split; reflexivity. Qed.
Lemma safe_rest_facts c : safe_rest c = true -> is_ident_cont c = true /\ ascii_lower c = c.
Proof. destruct c; intros H; try discriminate H; split; reflexivity. Qed.
Lemma safe_first_rest c : safe_first c = true -> safe_rest c = true.
Proof. unfold safe_rest. intros ->. reflexivity. Qed.

Lemma isSafeIdent_all n : isSafeIdent n = true -> forallb safe_rest n = true /\ n <> [].
Proof.
  destruct n as [|c r]; [discriminate|]. cbn [isSafeIdent forallb]. intros H.
  apply andb_true_iff in H. destruct H as [H1 H2]. rewrite (safe_first_rest _ H1), H2. split; [reflexivity|discriminate].
Qed.

(* every word the lexer treats as a keyword is in the Go list *)
Lemma keywords_included : forallb (fun w => existsb (bytes_eqb w) reserved_words) pg_keywords = true.
Proof. vm_compute. reflexivity. Qed.
Lemma existsb_eqb_In w l : existsb (bytes_eqb w) l = true <-> In w l.
Proof.
  rewrite existsb_exists. split.
  - intros (x & Hx & E). apply bytes_eqb_eq in E. subst. exact Hx.
  - intros H. exists w. split; [exact H|apply bytes_eqb_refl].
Qed.
Lemma not_reserved_not_keyword w : existsb (bytes_eqb w) reserved_words = false -> is_keyword w = false.
Proof.
  intros H. unfold is_keyword. destruct (existsb (bytes_eqb w) pg_keywords) eqn:E; [|reflexivity].
  apply existsb_eqb_In in E. pose proof keywords_included as K. rewrite forallb_forall in K.
  rewrite (K w E) in H. discriminate.
Qed.

Lemma lex_tok_word w rest : w <> [] -> (match w with c :: _ => safe_first c = true \/
    (beq c "-"%byte = false /\ beq c """"%byte = false /\ beq c "'"%byte = false /\ beq c "$"%byte = false /\
     is_digit c = false /\ is_ident_start c = true) | [] => True end) ->
  forallb is_ident_cont w = true -> word_bnd rest ->
  lex_tok (w ++ rest) = Some (word_token w, rest).
Proof.
  intros Hw Hc Hall Hb. destruct w as [|c r]; [contradiction|].
  assert (F : beq c "-"%byte = false /\ beq c """"%byte = false /\ beq c "'"%byte = false /\ beq c "$"%byte = false /\
     is_digit c = false /\ is_ident_start c = true).
  { destruct Hc as [Hc|Hc]; [apply safe_first_facts, Hc|exact Hc]. }
  destruct F as (F1 & F2 & F3 & F4 & F5 & F6).
  cbn [app]. unfold lex_tok. rewrite F1, F2, F3, F4, F5, F6.
  change (c :: r ++ rest) with ((c :: r) ++ rest).
  rewrite (span_app is_ident_cont (c :: r) rest Hall).
  2:{ destruct rest; [exact I|apply Hb]. }
  destruct rest as [|q rest']; [reflexivity|].
  destruct Hb as [_ Hq]. rewrite (beq_neq _ _ Hq). reflexivity.
Qed.

Lemma map_lower_safe n : forallb safe_rest n = true -> map ascii_lower n = n.
Proof.
  induction n as [|c r IH]; [reflexivity|]. cbn [forallb map]. intros H.
  apply andb_true_iff in H. destruct H as [H1 H2].
  rewrite (proj2 (safe_rest_facts c H1)), (IH H2). reflexivity.
Qed.
Lemma forallb_impl {A} (p q : A -> bool) l : (forall x, p x = true -> q x = true) -> forallb p l = true -> forallb q l = true.
Proof. intros H. induction l; cbn; auto. intros E. apply andb_true_iff in E. destruct E. rewrite H, IHl; auto. Qed.

(* what may follow an identifier written by quoteIdent *)
Definition id_bnd (rest : bytes) : Prop :=
  match rest with [] => True | c :: _ => is_ident_cont c = false /\ c <> "'"%byte /\ c <> """"%byte end.

Theorem quoteIdent_lex n rest : n <> [] -> id_bnd rest ->
  lex_tok (quoteIdent n ++ rest) = Some (TIdent n, rest).
Proof.
  intros Hn Hb. unfold quoteIdent.
  destruct (isSafeIdent n) eqn:Es; cbn [negb orb].
  - destruct (isReservedWord n) eqn:Er.
    + cbn [app]. rewrite <- app_assoc. cbn [app]. apply lex_tok_dq; [exact Hn|].
      destruct rest; [exact I|apply Hb].
    + destruct (isSafeIdent_all n Es) as [Hall _].
      rewrite lex_tok_word.
      * unfold word_token. rewrite (map_lower_safe n Hall).
        unfold isReservedWord in Er. rewrite (map_lower_safe n Hall) in Er.
        rewrite (not_reserved_not_keyword n Er). reflexivity.
      * exact Hn.
      * destruct n as [|c r]; [exact I|]. left. cbn [isSafeIdent] in Es. apply andb_true_iff in Es. apply Es.
      * apply (forallb_impl safe_rest); [|exact Hall]. intros x Hx. apply safe_rest_facts, Hx.
      * destruct rest; [exact I|]. destruct Hb as (H1 & H2 & _). split; assumption.
  - cbn [app]. rewrite <- app_assoc. cbn [app]. apply lex_tok_dq; [exact Hn|].
    destruct rest; [exact I|apply Hb].
Qed.

(* ====================================================================== comments *)
Lemma cesc_char_no_newline c :
  forallb (fun x => negb (is_newline x))
    (if beq c "\"%byte then B "\\" else if beq c x0a then B "\n" else if beq c x0d then B "\r" else [c]) = true.
Proof. destruct c; reflexivity. Qed.
Lemma cesc_no_nl s : forallb (fun c => negb (is_newline c)) (cesc s) = true.
Proof. unfold cesc. apply forallb_flat_map. intros x. apply cesc_char_no_newline. Qed.
Lemma commentSafe_cesc s : commentSafe s = cesc s.
Proof. unfold commentSafe, cesc. induction s as [|c s IH]; [reflexivity|]. cbn [flat_map]. rewrite IH. f_equal. Qed.

Lemma cesc_cons c s : cesc (c :: s) =
  (if beq c "\"%byte then B "\\" else if beq c x0a then B "\n" else if beq c x0d then B "\r" else [c]) ++ cesc s.
Proof. reflexivity. Qed.
Lemma comment_unescape_cesc s : comment_unescape (cesc s) = s.
Proof.
  induction s as [|c s IH]; [reflexivity|]. rewrite cesc_cons.
  destruct (beq c "\"%byte) eqn:E1.
  { apply beq_eq in E1. subst c. cbn [B app comment_unescape]. rewrite IH. reflexivity. }
  destruct (beq c x0a) eqn:E2.
  { apply beq_eq in E2. subst c. cbn [B app comment_unescape]. rewrite IH. reflexivity. }
  destruct (beq c x0d) eqn:E3.
  { apply beq_eq in E3. subst c. cbn [B app comment_unescape]. rewrite IH. reflexivity. }
  cbn [app comment_unescape]. rewrite E1, IH. reflexivity.
Qed.

Lemma lex_tok_comment body rest : forallb (fun c => negb (is_newline c)) body = true ->
  lex_tok ("-"%byte :: "-"%byte :: body ++ x0a :: rest) = Some (TComment body, x0a :: rest).
Proof.
  intros Hb. unfold lex_tok. change (beq "-"%byte "-"%byte) with true. cbv iota.
  rewrite (span_app _ body (x0a :: rest) Hb) by reflexivity. reflexivity.
Qed.

(* ====================================================================== composing tokens *)
Lemma skip_ws_app ws rest : forallb is_space ws = true -> skip_ws (ws ++ rest) = skip_ws rest.
Proof.
  induction ws as [|c ws IH]; [reflexivity|]. cbn [forallb]. intros H. apply andb_true_iff in H.
  destruct H as [H1 H2]. cbn [app]. unfold skip_ws in *. cbn [dropwhile]. rewrite H1. apply IH, H2.
Qed.
Lemma Lexes_ws ws rest T : forallb is_space ws = true -> Lexes rest T -> Lexes (ws ++ rest) T.
Proof.
  intros Hw H. inversion H as [t E|t tok r toks E Hr]; subst.
  - apply Lexes_nil. rewrite skip_ws_app; assumption.
  - eapply Lexes_cons; [|exact Hr]. rewrite skip_ws_app; assumption.
Qed.
Lemma Lexes_ws1 c rest T : is_space c = true -> Lexes rest T -> Lexes (c :: rest) T.
Proof. intros Hc H. apply (Lexes_ws [c] rest T); [cbn; rewrite Hc; reflexivity|exact H]. Qed.
Lemma skip_ws_nonspace c r : is_space c = false -> skip_ws (c :: r) = c :: r.
Proof. intros H. unfold skip_ws. cbn [dropwhile]. rewrite H. reflexivity. Qed.
Lemma Lexes_tok c t tok r T : is_space c = false -> lex_tok (c :: t) = Some (tok, r) -> Lexes r T -> Lexes (c :: t) (tok :: T).
Proof. intros Hc Hl Hr. eapply Lexes_cons; [|exact Hr]. rewrite skip_ws_nonspace by exact Hc. exact Hl. Qed.

(* one step on a text whose next token is determined by concrete leading characters *)
Ltac lex_step :=
  eapply Lexes_cons;
  [ match goal with |- ?l = _ => let v := eval cbv in l in change l with v end; reflexivity | ].
Ltac lex_ws := apply Lexes_ws1; [reflexivity|].

(* constant pieces of the templates; the tail Y is a variable so that evaluation stays small *)
Lemma c_comma_sp Y T : Lexes Y T -> Lexes (","%byte :: " "%byte :: Y) (TPunct ","%byte :: T).
Proof. intros H. lex_step. lex_ws. exact H. Qed.
Lemma c_comma_nl Y T : Lexes Y T -> Lexes (","%byte :: x0a :: Y) (TPunct ","%byte :: T).
Proof. intros H. lex_step. lex_ws. exact H. Qed.
Lemma c_array Y T : Lexes Y T -> Lexes (B "ARRAY[" ++ Y) (kw "ARRAY" :: TPunct "["%byte :: T).
Proof. intros H. cbn [B app]. do 2 lex_step. exact H. Qed.
Lemma c_rbracket Y T : Lexes Y T -> Lexes ("]"%byte :: Y) (TPunct "]"%byte :: T).
Proof. intros H. lex_step. exact H. Qed.

Lemma ident_start_not_space c : is_ident_start c = true -> is_space c = false.
Proof. destruct c; intros H; try discriminate H; reflexivity. Qed.
Lemma digit_not_space c : is_digit c = true -> is_space c = false.
Proof. destruct c; intros H; try discriminate H; reflexivity. Qed.

(* boundaries *)
Definition vbnd (rest : bytes) : Prop :=
  match rest with [] => True | c :: _ => c = ","%byte \/ c = ")"%byte \/ c = "]"%byte end.
Definition ibnd (rest : bytes) : Prop :=
  match rest with [] => True | c :: _ => c = " "%byte \/ c = ","%byte \/ c = ")"%byte \/ c = x0a end.
Lemma vbnd_lit rest : vbnd rest -> lit_bnd rest.
Proof. destruct rest as [|c r]; [auto|]. intros [ -> | [ -> | -> ] ]; repeat split; try discriminate; reflexivity. Qed.
Lemma vbnd_num rest : vbnd rest -> num_bnd rest.
Proof. destruct rest as [|c r]; [auto|]. intros [ -> | [ -> | -> ] ]; repeat split; try discriminate; reflexivity. Qed.
Lemma vbnd_word rest : vbnd rest -> word_bnd rest.
Proof. destruct rest as [|c r]; [auto|]. intros [ -> | [ -> | -> ] ]; repeat split; try discriminate; reflexivity. Qed.
Lemma ibnd_word rest : ibnd rest -> word_bnd rest.
Proof. destruct rest as [|c r]; [auto|]. intros [ -> | [ -> | [ -> | -> ] ] ]; repeat split; try discriminate; reflexivity. Qed.
Lemma ibnd_id rest : ibnd rest -> id_bnd rest.
Proof. destruct rest as [|c r]; [auto|]. intros [ -> | [ -> | [ -> | -> ] ] ]; repeat split; try discriminate; reflexivity. Qed.

(* a bare word made of identifier characters *)
Definition word_ok (w : bytes) : Prop :=
  (exists c r, w = c :: r /\ is_ident_start c = true /\ is_digit c = false /\ beq c "$"%byte = false) /\
  forallb is_ident_cont w = true.
Lemma ident_start_facts c : is_ident_start c = true ->
  beq c "-"%byte = false /\ beq c """"%byte = false /\ beq c "'"%byte = false.
Proof. destruct c; intros H; try discriminate H; repeat split; reflexivity. Qed.
Lemma word_seg w rest T : word_ok w -> word_bnd rest -> Lexes rest T -> Lexes (w ++ rest) (word_token w :: T).
Proof.
  intros [(c & r & -> & H1 & H2 & H3) Hall] Hb HT.
  destruct (ident_start_facts c H1) as (F1 & F2 & F3).
  cbn [app]. apply Lexes_tok with (r := rest); [apply ident_start_not_space, H1| |exact HT].
  change (c :: r ++ rest) with ((c :: r) ++ rest). apply lex_tok_word; [discriminate| |exact Hall|exact Hb].
  right. repeat split; assumption.
Qed.
Lemma lex_tok_nonspace c t x : lex_tok (c :: t) = Some x -> is_space c = false.
Proof. destruct c; try reflexivity; intros H; cbn in H; discriminate H. Qed.
Lemma Lexes_tok' t tok r T : lex_tok t = Some (tok, r) -> Lexes r T -> Lexes t (tok :: T).
Proof.
  intros H HT. destruct t as [|c t]; [discriminate H|].
  apply Lexes_tok with (r := r); [apply (lex_tok_nonspace c t _ H)|exact H|exact HT].
Qed.
Lemma ident_seg n rest T : n <> [] -> id_bnd rest -> Lexes rest T -> Lexes (quoteIdent n ++ rest) (TIdent n :: T).
Proof. intros Hn Hb HT. apply Lexes_tok' with (r := rest); [apply quoteIdent_lex; assumption|exact HT]. Qed.

(* join with ", " *)
Lemma join_seg {A} (fmt : A -> bytes) (toks : A -> list token) (bnd : bytes -> Prop) :
  (forall X, bnd (","%byte :: X)) ->
  forall l, Forall (fun x => forall rest T, bnd rest -> Lexes rest T -> Lexes (fmt x ++ rest) (toks x ++ T)) l ->
  forall rest T, bnd rest -> Lexes rest T ->
  Lexes (join (B ", ") (map fmt l) ++ rest) (tjoin comma (map toks l) ++ T).
Proof.
  intros Hcomma l Hl. induction Hl as [|x l Hx Hl IH]; intros rest T Hb HT.
  - exact HT.
  - destruct l as [|y l'].
    + cbn [map join tjoin]. apply Hx; assumption.
    + change (join (B ", ") (map fmt (x :: y :: l')))
        with (fmt x ++ B ", " ++ join (B ", ") (map fmt (y :: l'))).
      change (tjoin comma (map toks (x :: y :: l')))
        with (toks x ++ comma ++ tjoin comma (map toks (y :: l'))).
      rewrite <- !app_assoc. apply Hx; [apply Hcomma|].
      cbn [B app comma]. apply c_comma_sp. apply IH; assumption.
Qed.

(* induction on values through lists *)
Lemma gval_list_ind (P : gval -> Prop) :
  (forall v, (forall l, v <> VList l) -> P v) -> (forall l, Forall P l -> P (VList l)) -> forall v, P v.
Proof.
  intros Hs Hl. fix IH 1. intros v.
  destruct v; try (apply Hs; intros; discriminate).
  apply Hl. induction l as [|a l IHl]; constructor; [apply IH|exact IHl].
Qed.

Lemma dec_digits_nonneg n : 0 <= n -> forallb is_digit (dec n) = true.
Proof. intros H. rewrite dec_nonneg by exact H. apply dec_nat_digits, H. Qed.
Lemma quoteLiteral_ne s : quoteLiteral s <> [].
Proof. apply (quoteLiteral_nonempty dec_inj dec_digits_nonneg dec_nonempty). Qed.

(* C13_literal: every byte string becomes exactly one string constant that decodes to it *)
Theorem quoteLiteral_lex s rest : lit_bnd rest -> lex_tok (quoteLiteral s ++ rest) = Some (TString s, rest).
Proof. intros Hb. apply (quoteLiteral_lex_partial dec_digits_nonneg); [exact Hb|apply quoteLiteral_ne]. Qed.

Lemma literal_seg s rest T : vbnd rest -> Lexes rest T -> Lexes (quoteLiteral s ++ rest) (TString s :: T).
Proof. intros Hb HT. apply Lexes_tok' with (r := rest); [apply quoteLiteral_lex, vbnd_lit, Hb|exact HT]. Qed.

  Lemma int_seg z rest T : vbnd rest -> Lexes rest T -> Lexes (dec z ++ rest) (int_tokens z ++ T).
  Proof.
    intros Hb HT. unfold int_tokens. destruct (z <? 0) eqn:E.
    - rewrite dec_neg by lia. destruct (dec_nat_head_digit (- z) ltac:(lia)) as (d & r & Ed & Hd).
      rewrite Ed. cbn [app]. apply Lexes_tok' with (r := d :: r ++ rest); [apply lex_tok_neg, Hd|].
      apply Lexes_tok' with (r := rest); [|exact HT].
      rewrite lex_tok_digit by exact Hd. change (d :: r ++ rest) with ((d :: r) ++ rest). rewrite <- Ed.
      apply lex_number_int; [lia|apply vbnd_num, Hb].
    - rewrite dec_nonneg by lia. destruct (dec_nat_head_digit z ltac:(lia)) as (d & r & Ed & Hd).
      cbn [app]. apply Lexes_tok' with (r := rest); [|exact HT].
      rewrite Ed. cbn [app]. rewrite lex_tok_digit by exact Hd. change (d :: r ++ rest) with ((d :: r) ++ rest). rewrite <- Ed.
      apply lex_number_int; [lia|apply vbnd_num, Hb].
  Qed.

(* ====================================================================== values *)
Section Values2.
  Variable show_f64 show_f32 : Z -> bytes.
  Hypothesis Hf64 : forall b, f64_class b = FFinite -> json_num_ok (show_f64 b) = true.
  Hypothesis Hf32 : forall b, f32_class b = FFinite -> json_num_ok (show_f32 b) = true.

  Local Notation fmt := (formatSQLValue show_f64 show_f32).
  Local Notation jtext := (mapToJSON show_f64 show_f32).
  Local Notation vtoks := (value_tokens show_f64 show_f32 jtext).

  Lemma num_seg t rest T : json_num_ok t = true -> vbnd rest -> Lexes rest T -> Lexes (t ++ rest) (num_tokens t ++ T).
  Proof.
    intros Hok Hb HT. destruct (json_num_shape t Hok) as (body & Ht & Hbody & d & r & Eb & Hd).
    subst body. destruct Ht as [-> | ->].
    - unfold num_tokens. rewrite (digit_not_minus d Hd). cbn [app]. apply Lexes_tok' with (r := rest); [|exact HT].
      rewrite lex_tok_digit by exact Hd. change (d :: r ++ rest) with ((d :: r) ++ rest).
      apply lex_number_json; [exact Hbody|eauto|apply vbnd_num, Hb].
    - unfold num_tokens. change (beq "-"%byte "-"%byte) with true. cbv iota. cbn [app].
      apply Lexes_tok' with (r := d :: r ++ rest); [apply lex_tok_neg, Hd|].
      apply Lexes_tok' with (r := rest); [|exact HT].
      rewrite lex_tok_digit by exact Hd. change (d :: r ++ rest) with ((d :: r) ++ rest).
      apply lex_number_json; [exact Hbody|eauto|apply vbnd_num, Hb].
  Qed.

  Lemma const_lit_seg s rest T : vbnd rest -> Lexes rest T ->
    Lexes ("'"%byte :: double_char "'"%byte s ++ "'"%byte :: rest) (TString s :: T).
  Proof. intros Hb HT. apply Lexes_tok' with (r := rest); [apply lex_tok_sq, vbnd_lit, Hb|exact HT]. Qed.

  Lemma float_seg c text rest T : (c = FFinite -> json_num_ok text = true) -> vbnd rest -> Lexes rest T ->
    Lexes (sqlFloat c text ++ rest) (float_tokens c text ++ T).
  Proof.
    intros Hc Hb HT. destruct c; cbn [sqlFloat float_tokens].
    - apply num_seg; auto.
    - apply (const_lit_seg (B "NaN")); assumption.
    - apply (const_lit_seg (B "Infinity")); assumption.
    - apply (const_lit_seg (B "-Infinity")); assumption.
  Qed.

  Lemma kw_seg (w : bytes) rest T : word_ok w -> vbnd rest -> Lexes rest T -> Lexes (w ++ rest) (word_token w :: T).
  Proof. intros Hw Hb HT. apply word_seg; [exact Hw|apply vbnd_word, Hb|exact HT]. Qed.
  Ltac word_ok_const := split; [do 2 eexists; split; [reflexivity|repeat split; reflexivity]|reflexivity].

  Lemma fmt_list l : fmt (VList l) = B "ARRAY[" ++ join (B ", ") (map fmt l) ++ B "]".
  Proof. reflexivity. Qed.
  Lemma vtoks_list l : vtoks (VList l) = kw "ARRAY" :: TPunct "["%byte :: tjoin comma (map vtoks l) ++ [TPunct "]"%byte].
  Proof. reflexivity. Qed.

  Definition value_P (v : gval) : Prop :=
    forall rest T, vbnd rest -> Lexes rest T -> Lexes (fmt v ++ rest) (vtoks v ++ T).

  Lemma value_seg : forall v, value_P v.
  Proof.
    apply gval_list_ind.
    - intros v Hv rest T Hb HT. destruct v; cbn [formatSQLValue value_tokens].
      + apply (kw_seg (B "NULL")); [word_ok_const|assumption|assumption].
      + destruct b; [apply (kw_seg (B "TRUE"))|apply (kw_seg (B "FALSE"))]; try word_ok_const; assumption.
      + apply int_seg; assumption.
      + apply int_seg; assumption.
      + apply int_seg; assumption.
      + apply int_seg; assumption.
      + apply literal_seg; assumption.
      + apply int_seg; assumption.
      + apply literal_seg; assumption.
      + apply float_seg; auto.
      + apply float_seg; auto.
      + apply literal_seg; assumption.
      + apply literal_seg; assumption.
      + exfalso. apply (Hv l). reflexivity.
      + apply (c_array ("]"%byte :: rest)). apply c_rbracket. exact HT.
      + apply literal_seg; assumption.
    - intros l Hl rest T Hb HT. rewrite fmt_list, vtoks_list.
      cbn [app]. rewrite <- !app_assoc. cbn [app].
      apply c_array.
      apply (join_seg fmt vtoks vbnd); [intros; left; reflexivity|exact Hl|right; right; reflexivity|].
      apply c_rbracket. exact HT.
  Qed.
End Values2.

(* ====================================================================== type names *)
Definition nospace (w : bytes) : Prop := forallb (fun c => negb (beq c " "%byte)) w = true.
Definition word_okb (w : bytes) : bool :=
  match w with
  | [] => false
  | c :: _ => is_ident_start c && negb (is_digit c) && negb (beq c "$"%byte)
  end && forallb is_ident_cont w && forallb (fun c => negb (beq c " "%byte)) w.
Lemma word_okb_ok w : word_okb w = true -> word_ok w /\ nospace w.
Proof.
  unfold word_okb. intros H. apply andb_true_iff in H. destruct H as [H H3].
  apply andb_true_iff in H. destruct H as [H1 H2]. destruct w as [|c r]; [discriminate|].
  apply andb_true_iff in H1. destruct H1 as [H1 H1c]. apply andb_true_iff in H1. destruct H1 as [H1a H1b].
  split; [split; [|exact H2]|exact H3]. exists c, r. repeat split; auto.
  - apply negb_true_iff, H1b.
  - apply negb_true_iff, H1c.
Qed.

Lemma words_acc_nospace w : forall cur tail, nospace w -> words_acc cur (w ++ tail) = words_acc (rev w ++ cur) tail.
Proof.
  unfold nospace. induction w as [|c w IH]; intros cur tail H; [reflexivity|].
  cbn [forallb] in H. apply andb_true_iff in H. destruct H as [H1 H2]. apply negb_true_iff in H1.
  cbn [app words_acc]. rewrite H1. rewrite IH by exact H2. cbn [rev]. rewrite <- app_assoc. reflexivity.
Qed.
Lemma words_join ws : ws <> [] -> Forall nospace ws -> words (join (B " ") ws) = ws.
Proof.
  intros Hne Hall. unfold words. induction Hall as [|w ws Hw Hall IH]; [contradiction|].
  destruct ws as [|w2 ws'].
  - cbn [join]. rewrite <- (app_nil_r w) at 1. rewrite words_acc_nospace by exact Hw.
    cbn [words_acc]. rewrite app_nil_r, rev_involutive. reflexivity.
  - change (join (B " ") (w :: w2 :: ws')) with (w ++ " "%byte :: join (B " ") (w2 :: ws')).
    rewrite words_acc_nospace by exact Hw. cbn [words_acc]. change (beq " "%byte " "%byte) with true. cbv iota.
    rewrite app_nil_r, rev_involutive. f_equal. apply IH. discriminate.
Qed.
Lemma words_seg ws : ws <> [] -> Forall word_ok ws -> forall rest T, word_bnd rest -> Lexes rest T ->
  Lexes (join (B " ") ws ++ rest) (map word_token ws ++ T).
Proof.
  intros Hne Hall. induction Hall as [|w ws Hw Hall IH]; [contradiction|]. intros rest T Hb HT.
  destruct ws as [|w2 ws'].
  - cbn [join map app]. apply word_seg; assumption.
  - change (join (B " ") (w :: w2 :: ws')) with (w ++ " "%byte :: join (B " ") (w2 :: ws')).
    rewrite <- app_assoc. cbn [map app]. apply word_seg; [exact Hw|split; [reflexivity|discriminate]|].
    cbn [app]. lex_ws. apply IH; [discriminate|assumption|assumption].
Qed.

(* a type text = words separated by single blanks *)
Definition tt_ok (s : bytes) : Prop :=
  exists ws, ws <> [] /\ Forall word_ok ws /\ Forall nospace ws /\ s = join (B " ") ws.
Definition tt_okb (s : bytes) : bool :=
  match words s with [] => false | _ => true end && bytes_eqb s (join (B " ") (words s)) && forallb word_okb (words s).
Lemma tt_okb_ok s : tt_okb s = true -> tt_ok s.
Proof.
  unfold tt_okb. intros H. apply andb_true_iff in H. destruct H as [H H3]. apply andb_true_iff in H. destruct H as [H1 H2].
  exists (words s). apply bytes_eqb_eq in H2. rewrite forallb_forall in H3.
  repeat split.
  - destruct (words s); [discriminate|discriminate].
  - apply Forall_forall. intros w Hw. apply word_okb_ok, H3, Hw.
  - apply Forall_forall. intros w Hw. apply word_okb_ok, H3, Hw.
  - exact H2.
Qed.
Lemma sql_types_ok : forallb (fun p => tt_okb (snd p)) sql_types = true.
Proof. vm_compute. reflexivity. Qed.
Lemma assocZ_In k l v : assocZ k l = Some v -> In (k, v) l.
Proof.
  induction l as [|[k' v'] l IH]; [discriminate|]. cbn [assocZ]. destruct (k =? k') eqn:E.
  - intros [= ->]. left. f_equal. lia.
  - intros H. right. apply IH, H.
Qed.

Lemma upper_first c : safe_first c = true ->
  is_ident_start (ascii_upper c) = true /\ is_digit (ascii_upper c) = false /\ beq (ascii_upper c) "$"%byte = false.
Proof. destruct c; intros H; try discriminate H; repeat split; reflexivity. Qed.
Lemma upper_rest c : safe_rest c = true ->
  is_ident_cont (ascii_upper c) = true /\ negb (beq (ascii_upper c) " "%byte) = true.
Proof. destruct c; intros H; try discriminate H; split; reflexivity. Qed.
Lemma forallb_map {A B} (p : B -> bool) (f : A -> B) l : forallb p (map f l) = forallb (fun x => p (f x)) l.
Proof. induction l; cbn; auto. rewrite IHl. reflexivity. Qed.

Lemma upper_safe_tt n : isSafeIdent n = true -> tt_ok (map ascii_upper n).
Proof.
  intros H. destruct (isSafeIdent_all n H) as [Hall Hne].
  exists [map ascii_upper n]. split; [discriminate|]. repeat split.
  - constructor; [|constructor]. split.
    + destruct n as [|c r]; [contradiction|]. cbn [isSafeIdent] in H. apply andb_true_iff in H. destruct H as [H _].
      exists (ascii_upper c), (map ascii_upper r). split; [reflexivity|]. apply upper_first, H.
    + rewrite forallb_map. apply (forallb_impl safe_rest); [|exact Hall]. intros x Hx. apply upper_rest, Hx.
  - constructor; [|constructor]. unfold nospace. rewrite forallb_map.
    apply (forallb_impl safe_rest); [|exact Hall]. intros x Hx. apply upper_rest, Hx.
Qed.

Lemma pgTypeToSQL_tt c : type_name_ok c -> tt_ok (pgTypeToSQL (c_type c) (c_typid c)).
Proof.
  intros Hc. unfold pgTypeToSQL. destruct (assocZ (c_typid c) sql_types) as [s|] eqn:E.
  - apply assocZ_In in E. pose proof sql_types_ok as K. rewrite forallb_forall in K.
    apply tt_okb_ok. apply (K _ E).
  - destruct Hc as [Hc|[Hc|Hc]].
    + rewrite Hc. cbn [is_nil negb andb]. apply tt_okb_ok. reflexivity.
    + rewrite Hc. rewrite bytes_eqb_refl. rewrite andb_false_r. apply tt_okb_ok. reflexivity.
    + destruct (negb (is_nil (c_type c)) && negb (bytes_eqb (c_type c) (B "oid:" ++ dec (c_typid c)))).
      * apply upper_safe_tt, Hc.
      * apply tt_okb_ok. reflexivity.
Qed.

Lemma type_seg c rest T : type_name_ok c -> word_bnd rest -> Lexes rest T ->
  Lexes (pgTypeToSQL (c_type c) (c_typid c) ++ rest) (map word_token (words (pgTypeToSQL (c_type c) (c_typid c))) ++ T).
Proof.
  intros Hc Hb HT. destruct (pgTypeToSQL_tt c Hc) as (ws & Hne & Hw & Hn & ->).
  rewrite words_join by assumption. apply words_seg; assumption.
Qed.

(* ====================================================================== statements *)
Lemma dec_no_nl z : no_newline (dec z).
Proof.
  unfold no_newline. apply (forallb_impl (fun c => is_digit c || beq c "-"%byte)); [|apply dec_no_special].
  intros c. destruct c; intros H; try discriminate H; reflexivity.
Qed.
Lemma no_newline_app a b : no_newline a -> no_newline b -> no_newline (a ++ b).
Proof. unfold no_newline. intros Ha Hb. rewrite forallb_app, Ha, Hb. reflexivity. Qed.

Lemma comment_seg body X T : no_newline body -> Lexes X T ->
  Lexes ("-"%byte :: "-"%byte :: body ++ x0a :: X) (TComment body :: T).
Proof.
  intros Hb HT. apply Lexes_tok' with (r := x0a :: X); [apply lex_tok_comment, Hb|].
  apply Lexes_ws1; [reflexivity|exact HT].
Qed.

Lemma c_create Y T : Lexes Y T ->
  Lexes (B "CREATE TABLE IF NOT EXISTS " ++ Y) (kw "CREATE" :: kw "TABLE" :: kw "IF" :: kw "NOT" :: kw "EXISTS" :: T).
Proof. intros H. cbn [B app]. do 5 lex_step. lex_ws. exact H. Qed.
Lemma c_open Y T : Lexes Y T -> Lexes (B " (" ++ [x0a] ++ Y) (TPunct "("%byte :: T).
Proof. intros H. cbn [B app]. lex_step. lex_ws. exact H. Qed.
Lemma c_close Y T : Lexes Y T -> Lexes (B ");" ++ [x0a] ++ [x0a] ++ Y) (TPunct ")"%byte :: TPunct ";"%byte :: T).
Proof. intros H. cbn [B app]. do 2 lex_step. do 2 lex_ws. exact H. Qed.
Lemma c_insert Y T : Lexes Y T -> Lexes (B "INSERT INTO " ++ Y) (kw "INSERT" :: kw "INTO" :: T).
Proof. intros H. cbn [B app]. do 2 lex_step. lex_ws. exact H. Qed.
Lemma c_open2 Y T : Lexes Y T -> Lexes (B " (" ++ Y) (TPunct "("%byte :: T).
Proof. intros H. cbn [B app]. lex_step. exact H. Qed.
Lemma c_values Y T : Lexes Y T -> Lexes (B ") VALUES" ++ [x0a] ++ Y) (TPunct ")"%byte :: kw "VALUES" :: T).
Proof. intros H. cbn [B app]. do 2 lex_step. lex_ws. exact H. Qed.
Lemma c_rowopen Y T : Lexes Y T -> Lexes (B "    (" ++ Y) (TPunct "("%byte :: T).
Proof. intros H. cbn [B app]. lex_step. exact H. Qed.
Lemma c_rowclose (last : bool) Y T : Lexes Y T ->
  Lexes (B ")" ++ (if last then B ";" else B ",") ++ [x0a] ++ Y) (TPunct ")"%byte :: TPunct (if last then ";"%byte else ","%byte) :: T).
Proof. intros H. destruct last; cbn [B app]; do 2 lex_step; lex_ws; exact H. Qed.

Section Statements.
  Variable show_f64 show_f32 : Z -> bytes.
  Hypothesis Hf64 : forall b, f64_class b = FFinite -> json_num_ok (show_f64 b) = true.
  Hypothesis Hf32 : forall b, f32_class b = FFinite -> json_num_ok (show_f32 b) = true.

  Local Notation jtext := (mapToJSON show_f64 show_f32).
  Local Notation vtoks := (value_tokens show_f64 show_f32 jtext).
  Local Notation ctoks := (cell_tokens show_f64 show_f32 jtext).
  Local Notation cell := (sql_cell show_f64 show_f32).

  Lemma cell_seg r c rest T : vbnd rest -> Lexes rest T -> Lexes (cell r c ++ rest) (ctoks r c ++ T).
  Proof.
    intros Hb HT. unfold sql_cell, cell_tokens. destruct (map_get r (c_name c)) as [v|].
    - destruct v; try (apply (value_seg show_f64 show_f32 Hf64 Hf32); assumption).
      apply (value_seg show_f64 show_f32 Hf64 Hf32 VNil); assumption.
    - apply (value_seg show_f64 show_f32 Hf64 Hf32 VNil); assumption.
  Qed.

  Lemma coldefs_seg cols : Forall wf_col cols -> forall Y T, Lexes Y T ->
    Lexes (coldefs cols ++ Y) (tjoin comma (map (coldef_tokens) cols) ++ T).
  Proof.
    intros Hwf. induction Hwf as [|c cols [Hn Ht] Hwf IH]; intros Y T HT; [exact HT|].
    cbn [coldefs]. rewrite <- !app_assoc.
    apply (Lexes_ws (B "    ")); [reflexivity|].
    destruct cols as [|c2 cols'].
    - cbn [map tjoin coldef_tokens app]. unfold coldef_tokens, type_tokens.
      apply ident_seg; [exact Hn|split; [reflexivity|split; discriminate]|].
      cbn [B app]. lex_ws. cbn [app]. apply type_seg; [exact Ht|split; [reflexivity|discriminate]|].
      apply Lexes_ws1; [reflexivity|]. apply (IH Y T HT).
    - change (tjoin comma (map coldef_tokens (c :: c2 :: cols')))
        with (coldef_tokens c ++ comma ++ tjoin comma (map coldef_tokens (c2 :: cols'))).
      rewrite <- !app_assoc. unfold coldef_tokens at 1, type_tokens at 1. cbn [app].
      apply ident_seg; [exact Hn|split; [reflexivity|split; discriminate]|].
      cbn [B app]. lex_ws. apply type_seg; [exact Ht|split; [reflexivity|discriminate]|].
      cbn [comma app]. apply c_comma_nl. apply (IH Y T HT).
  Qed.

  Lemma rows_seg cols rows : forall Y T, Lexes Y T ->
    Lexes (rows_sql show_f64 show_f32 cols rows ++ Y)
          (match rows with [] => [] | _ => tjoin comma (map (row_tokens show_f64 show_f32 jtext cols) rows) ++ [TPunct ";"%byte] end ++ T).
  Proof.
    induction rows as [|r rows IH]; intros Y T HT; [exact HT|].
    assert (Hcells : forall X T', vbnd X -> Lexes X T' ->
              Lexes (join (B ", ") (map (cell r) cols) ++ X) (tjoin comma (map (ctoks r) cols) ++ T')).
    { intros X T' HX HT'. apply (join_seg (cell r) (ctoks r) vbnd); [intros; left; reflexivity| |exact HX|exact HT'].
      apply Forall_forall. intros c _ rest0 T0. apply cell_seg. }
    destruct rows as [|r2 rows'].
    - cbn [rows_sql map tjoin]. unfold row_tokens. rewrite <- !app_assoc. cbn [app]. rewrite <- !app_assoc. cbn [app].
      apply c_rowopen. apply Hcells; [right; left; reflexivity|].
      apply (c_rowclose true). exact HT.
    - change (tjoin comma (map (row_tokens show_f64 show_f32 jtext cols) (r :: r2 :: rows')))
        with (row_tokens show_f64 show_f32 jtext cols r ++ comma ++ tjoin comma (map (row_tokens show_f64 show_f32 jtext cols) (r2 :: rows'))).
      remember (r2 :: rows') as rs eqn:Ers.
      cbn [rows_sql]. unfold row_tokens at 1. rewrite <- !app_assoc. cbn [app]. rewrite <- !app_assoc. cbn [app].
      apply c_rowopen. apply Hcells; [right; left; reflexivity|].
      subst rs. apply (c_rowclose false). cbn [comma app].
      specialize (IH Y T HT). cbn iota in IH. rewrite <- !app_assoc in IH. exact IH.
  Qed.

  Lemma colnames_seg cols : Forall wf_col cols -> forall X T, ibnd X -> Lexes X T ->
    Lexes (join (B ", ") (map (fun c => quoteIdent (c_name c)) cols) ++ X) (tjoin comma (map (fun c => [TIdent (c_name c)]) cols) ++ T).
  Proof.
    intros Hwf X T HX HT.
    apply (join_seg (fun c => quoteIdent (c_name c)) (fun c => [TIdent (c_name c)]) ibnd);
      [intros; right; left; reflexivity| |exact HX|exact HT].
    apply Forall_forall. intros c Hc rest0 T0 Hb0 HT0. rewrite Forall_forall in Hwf.
    cbn [app]. apply ident_seg; [apply (Hwf c Hc)|apply ibnd_id, Hb0|exact HT0].
  Qed.

  Theorem table_seg t : wf_table t -> forall Y T, Lexes Y T ->
    Lexes (TableToSQL show_f64 show_f32 t ++ Y) (table_tokens show_f64 show_f32 jtext t ++ T).
  Proof.
    intros [Hn Hcols] Y T HT. unfold TableToSQL, table_tokens.
    rewrite commentSafe_cesc. rewrite <- !app_assoc. cbn [app].
    (* comment line *)
    match goal with |- Lexes (B "-- Table: " ++ ?a ++ ?b ++ ?c ++ ?d ++ x0a :: ?rest) _ =>
      replace (B "-- Table: " ++ a ++ b ++ c ++ d ++ x0a :: rest)
        with ("-"%byte :: "-"%byte :: (B " Table: " ++ a ++ b ++ c ++ d) ++ x0a :: rest)
        by (rewrite <- !app_assoc; reflexivity) end.
    apply comment_seg.
    { repeat apply no_newline_app; try reflexivity; [apply cesc_no_nl|apply dec_no_nl]. }
    apply c_create. apply ident_seg; [exact Hn|split; [reflexivity|split; discriminate]|].
    apply c_open. apply coldefs_seg; [exact Hcols|]. apply c_close.
    destruct (t_rows t) as [|r rows] eqn:Er.
    - cbn [app]. exact HT.
    - cbn [app]. rewrite <- ?app_assoc. cbn [app]. rewrite <- ?app_assoc. cbn [app].
      apply c_insert.
      apply ident_seg; [exact Hn|split; [reflexivity|split; discriminate]|].
      apply c_open2.
      apply colnames_seg; [exact Hcols|right; right; left; reflexivity|].
      apply c_values.
      pose proof (rows_seg (t_cols t) (r :: rows) Y T HT) as H.
      cbn iota in H. rewrite <- ?app_assoc in H. cbn [app] in H. exact H.
  Qed.
End Statements.

Section Dumps.
  Variable show_f64 show_f32 : Z -> bytes.
  Hypothesis Hf64 : forall b, f64_class b = FFinite -> json_num_ok (show_f64 b) = true.
  Hypothesis Hf32 : forall b, f32_class b = FFinite -> json_num_ok (show_f32 b) = true.
  Local Notation jtext := (mapToJSON show_f64 show_f32).

  Lemma database_seg d : wf_database d -> forall Y T, Lexes Y T ->
    Lexes (DatabaseToSQL show_f64 show_f32 d ++ Y) (database_tokens show_f64 show_f32 jtext d ++ T).
  Proof.
    unfold wf_database, DatabaseToSQL, database_tokens. intros Hwf.
    induction Hwf as [|t ts Ht Hwf IH]; intros Y T HT; [exact HT|].
    cbn [map concat]. rewrite <- !app_assoc.
    apply (table_seg show_f64 show_f32 Hf64 Hf32 t Ht). cbn [app]. apply Lexes_ws1; [reflexivity|].
    apply IH, HT.
  Qed.

  Lemma db_header_seg d Y T : Lexes Y T ->
    Lexes (db_header d ++ Y)
          (TComment (B " Database: " ++ cesc (d_name d) ++ B " (OID: " ++ dec (d_oid d) ++ B ")")
           :: TComment (B " \connect " ++ cesc (d_name d)) :: T).
  Proof.
    intros HT. unfold db_header. rewrite !commentSafe_cesc. rewrite <- !app_assoc. cbn [app].
    match goal with |- Lexes (B "-- Database: " ++ ?a ++ ?b ++ ?c ++ ?d ++ x0a :: ?rest) _ =>
      replace (B "-- Database: " ++ a ++ b ++ c ++ d ++ x0a :: rest)
        with ("-"%byte :: "-"%byte :: (B " Database: " ++ a ++ b ++ c ++ d) ++ x0a :: rest)
        by (rewrite <- !app_assoc; reflexivity) end.
    apply comment_seg.
    { repeat apply no_newline_app; try reflexivity; [apply cesc_no_nl|apply dec_no_nl]. }
    match goal with |- Lexes (B "-- \connect " ++ ?a ++ x0a :: ?rest) _ =>
      change (B "-- \connect " ++ a ++ x0a :: rest)
        with ("-"%byte :: "-"%byte :: (B " \connect " ++ a) ++ x0a :: rest) end.
    apply comment_seg.
    { apply no_newline_app; [reflexivity|apply cesc_no_nl]. }
    apply Lexes_ws1; [reflexivity|exact HT].
  Qed.

  Lemma dbs_seg dbs : Forall wf_database dbs -> forall Y T, Lexes Y T ->
    Lexes (concat (map (fun d => db_header d ++ DatabaseToSQL show_f64 show_f32 d) dbs) ++ Y)
          (concat (map (fun d => [TComment (B " Database: " ++ cesc (d_name d) ++ B " (OID: " ++ dec (d_oid d) ++ B ")");
                                  TComment (B " \connect " ++ cesc (d_name d))] ++ database_tokens show_f64 show_f32 jtext d) dbs) ++ T).
  Proof.
    intros Hwf. induction Hwf as [|d ds Hd Hwf IH]; intros Y T HT; [exact HT|].
    cbn [map concat]. rewrite <- !app_assoc. cbn [app].
    apply (db_header_seg d). apply (database_seg d Hd). apply IH, HT.
  Qed.

  Theorem dump_lexes now dbs : no_newline now -> Forall wf_database dbs ->
    Lexes (DumpToSQL show_f64 show_f32 now dbs) (dump_tokens show_f64 show_f32 jtext now dbs).
  Proof.
    intros Hnow Hwf. unfold DumpToSQL, dump_tokens. rewrite <- ?app_assoc. cbn [app].
    match goal with |- Lexes (B "-- PostgreSQL dump generated by pgread" ++ x0a :: ?rest) _ =>
      change (B "-- PostgreSQL dump generated by pgread" ++ x0a :: rest)
        with ("-"%byte :: "-"%byte :: B " PostgreSQL dump generated by pgread" ++ x0a :: rest) end.
    apply comment_seg; [reflexivity|].
    match goal with |- Lexes (B "-- Generated at: " ++ ?a ++ x0a :: ?rest) _ =>
      change (B "-- Generated at: " ++ a ++ x0a :: rest)
        with ("-"%byte :: "-"%byte :: (B " Generated at: " ++ a) ++ x0a :: rest) end.
    apply comment_seg; [apply no_newline_app; [reflexivity|exact Hnow]|].
    apply Lexes_ws1; [reflexivity|].
    pose proof (dbs_seg dbs Hwf [] [] (Lexes_nil [] eq_refl)) as H.
    rewrite !app_nil_r in H. exact H.
  Qed.

  Theorem table_lexes t : wf_table t ->
    Lexes (TableToSQL show_f64 show_f32 t) (table_tokens show_f64 show_f32 jtext t).
  Proof.
    intros Hwf. pose proof (table_seg show_f64 show_f32 Hf64 Hf32 t Hwf [] [] (Lexes_nil [] eq_refl)) as H.
    rewrite !app_nil_r in H. exact H.
  Qed.
  Theorem database_lexes d : wf_database d ->
    Lexes (DatabaseToSQL show_f64 show_f32 d) (database_tokens show_f64 show_f32 jtext d).
  Proof.
    intros Hwf. pose proof (database_seg d Hwf [] [] (Lexes_nil [] eq_refl)) as H.
    rewrite !app_nil_r in H. exact H.
  Qed.
  Theorem value_lexes v :
    Lexes (formatSQLValue show_f64 show_f32 v) (value_tokens show_f64 show_f32 jtext v).
  Proof.
    pose proof (value_seg show_f64 show_f32 Hf64 Hf32 v [] [] I (Lexes_nil [] eq_refl)) as H.
    rewrite !app_nil_r in H. exact H.
  Qed.
End Dumps.

(* the relation is the graph of a function: a text has at most one token sequence *)
Lemma Lexes_unique t a : Lexes t a -> forall b, Lexes t b -> a = b.
Proof.
  induction 1 as [t E|t tok r toks E Hr IH]; intros b Hb; inversion Hb as [t' E'|t' tok' r' toks' E' Hr']; subst.
  - reflexivity.
  - rewrite E in E'. discriminate E'.
  - rewrite E' in E. discriminate E.
  - rewrite E in E'. injection E' as <- <-. f_equal. apply IH, Hr'.
Qed.
