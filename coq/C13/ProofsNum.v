(* C13/ProofsNum.v — facts about decimal rendering (Lib.dec, dec_nat, dec_fuel, undec) and about
   number tokens (Spec.lex_number, lex_tok, json_num_ok) used by the other C13 proofs.
   All statements hold for ALL integers (no size bound). *)
From Coq Require Import Strings.String.
Require Import PG.Base.Bytes PG.Base.Value PG.C13.Lib PG.C13.Model PG.C13.Spec.
Import List ListNotations.
#[local] Open Scope list_scope.

(* ====================================================================== B. span *)
Lemma span_app : forall p a rest,
  forallb p a = true ->
  (match rest with [] => True | c :: _ => p c = false end) ->
  span p (a ++ rest) = (a, rest).
Proof.
  intros p a rest. induction a as [|x a IH]; cbn [app forallb span]; intros Ha Hr.
  - destruct rest as [|c r]; [reflexivity|]. cbn [span]. rewrite Hr. reflexivity.
  - apply andb_true_iff in Ha as [Hx Ha]. rewrite Hx, (IH Ha Hr). reflexivity.
Qed.

Lemma span_spec : forall p t a b, span p t = (a, b) ->
  t = a ++ b /\ forallb p a = true /\ match b with [] => True | c :: _ => p c = false end.
Proof.
  intros p t. induction t as [|c t IH]; cbn [span]; intros a b H.
  - inversion H; subst. cbn. auto.
  - destruct (p c) eqn:Hc.
    + destruct (span p t) as [a' b'] eqn:Hs. inversion H; subst.
      destruct (IH _ _ eq_refl) as (E & Fa & Fb). subst t.
      cbn [app forallb]. rewrite Hc, Fa. auto.
    + inversion H; subst. cbn [app forallb]. auto.
Qed.

Lemma span_all : forall p a, forallb p a = true -> span p a = (a, []).
Proof.
  intros p a H. rewrite <- (app_nil_r a) at 1. apply span_app; [exact H|exact I].
Qed.

Lemma forallb_impl : forall (p q : byte -> bool) l,
  (forall c, p c = true -> q c = true) -> forallb p l = true -> forallb q l = true.
Proof.
  intros p q l Hpq. induction l as [|x l IH]; cbn [forallb]; [auto|].
  intros H. apply andb_true_iff in H as [Hx Hl]. rewrite (Hpq _ Hx), (IH Hl). reflexivity.
Qed.

(* ====================================================================== single-byte facts *)
Lemma is_digit_iff : forall c, is_digit c = true <-> 48 <= b2z c <= 57.
Proof. intros c. unfold is_digit, in_range. lia. Qed.

Lemma beq_refl : forall c, beq c c = true.
Proof. intros c. unfold beq. apply Byte.byte_dec_lb. reflexivity. Qed.

Lemma beq_true : forall a b, beq a b = true -> a = b.
Proof. intros a b. unfold beq. apply Byte.byte_dec_bl. Qed.

Lemma beq_false_b2z : forall a b, b2z a <> b2z b -> beq a b = false.
Proof.
  intros a b H. destruct (beq a b) eqn:E; [|reflexivity].
  apply beq_true in E. subst. contradiction.
Qed.

Lemma beq_false_neq : forall a b, a <> b -> beq a b = false.
Proof.
  intros a b H. destruct (beq a b) eqn:E; [|reflexivity].
  apply beq_true in E. contradiction.
Qed.

(* a digit is different from any byte outside 48..57 *)
Lemma digit_beq_false : forall d c, is_digit d = true -> is_digit c = false -> beq d c = false.
Proof.
  intros d c Hd Hc. apply beq_false_b2z. intros E.
  unfold is_digit, in_range in *. rewrite E in Hd. congruence.
Qed.

Lemma digit_not_ident_start : forall d, is_digit d = true -> is_ident_start d = false.
Proof.
  intros d Hd. apply is_digit_iff in Hd.
  unfold is_ident_start, is_lower, is_upper, in_range.
  rewrite (beq_false_b2z d "_"%byte) by (change (b2z "_"%byte) with 95; lia).
  lia.
Qed.

Lemma b2z_digit : forall d, 0 <= d < 10 -> b2z (digit d) = 48 + d.
Proof. intros d Hd. unfold digit. rewrite b2z_z2b. lia. Qed.

Lemma is_digit_digit : forall d, 0 <= d < 10 -> is_digit (digit d) = true.
Proof. intros d Hd. apply is_digit_iff. rewrite b2z_digit by lia. lia. Qed.

(* ====================================================================== A. decimal rendering *)
Lemma dec_fuel_S : forall f n acc,
  dec_fuel (S f) n acc =
  if n <? 10 then digit (n mod 10) :: acc else dec_fuel f (n / 10) (digit (n mod 10) :: acc).
Proof. reflexivity. Qed.

Lemma dec_fuel_digits : forall fuel n acc, 0 <= n ->
  forallb is_digit acc = true -> forallb is_digit (dec_fuel fuel n acc) = true.
Proof.
  induction fuel as [|f IH]; intros n acc Hn Hacc; [exact Hacc|].
  rewrite dec_fuel_S.
  assert (Hacc' : forallb is_digit (digit (n mod 10) :: acc) = true).
  { cbn [forallb]. rewrite is_digit_digit by lia. exact Hacc. }
  destruct (n <? 10); [exact Hacc'|]. apply IH; [lia|exact Hacc'].
Qed.

Lemma dec_fuel_suffix : forall fuel n acc, exists pre, dec_fuel fuel n acc = pre ++ acc.
Proof.
  induction fuel as [|f IH]; intros n acc.
  - exists []. reflexivity.
  - rewrite dec_fuel_S. destruct (n <? 10).
    + exists [digit (n mod 10)]. reflexivity.
    + destruct (IH (n / 10) (digit (n mod 10) :: acc)) as [pre E]. rewrite E.
      exists (pre ++ [digit (n mod 10)]). rewrite <- app_assoc. reflexivity.
Qed.

Lemma dec_nat_digits : forall n, 0 <= n -> forallb is_digit (dec_nat n) = true.
Proof. intros n Hn. unfold dec_nat. apply dec_fuel_digits; [exact Hn|reflexivity]. Qed.

Lemma dec_nat_nonempty : forall n, dec_nat n <> [].
Proof.
  intros n. unfold dec_nat. rewrite dec_fuel_S. destruct (n <? 10); [discriminate|].
  destruct (dec_fuel_suffix (Z.to_nat (Z.log2 n)) (n / 10) [digit (n mod 10)]) as [pre E].
  rewrite E. destruct pre; discriminate.
Qed.

(* ---------------------------------------------------------------- undec *)
Lemma undec_fold : forall t a,
  fold_left (fun acc c => acc * 10 + (b2z c - 48)) t a = a * 10 ^ blen t + undec t.
Proof.
  unfold undec. induction t as [|c t IH]; intros a.
  - cbn [fold_left]. change (blen []) with 0. lia.
  - cbn [fold_left]. rewrite IH. rewrite (IH (0 * 10 + (b2z c - 48))).
    rewrite blen_cons. rewrite Z.pow_add_r by (pose proof (blen_nonneg t); lia).
    ring.
Qed.

Lemma undec_nil : undec [] = 0.
Proof. reflexivity. Qed.

Lemma undec_cons : forall c t, undec (c :: t) = (b2z c - 48) * 10 ^ blen t + undec t.
Proof. intros c t. unfold undec at 1. cbn [fold_left]. rewrite undec_fold. reflexivity. Qed.

Lemma undec_fuel : forall fuel n acc, 0 <= n < 10 ^ Z.of_nat fuel ->
  undec (dec_fuel fuel n acc) = n * 10 ^ blen acc + undec acc.
Proof.
  induction fuel as [|f IH]; intros n acc Hn.
  - cbn [dec_fuel]. change (10 ^ Z.of_nat 0) with 1 in Hn. assert (n = 0) by lia. subst n. lia.
  - rewrite dec_fuel_S.
    assert (Hpow : 10 ^ Z.of_nat (S f) = 10 * 10 ^ Z.of_nat f).
    { rewrite Nat2Z.inj_succ, Z.pow_succ_r by lia. reflexivity. }
    assert (Hd : undec (digit (n mod 10) :: acc) = (n mod 10) * 10 ^ blen acc + undec acc).
    { rewrite undec_cons, b2z_digit by lia. f_equal. f_equal. lia. }
    destruct (n <? 10) eqn:E.
    + rewrite Hd. rewrite Z.mod_small by lia. reflexivity.
    + rewrite IH by lia. rewrite Hd, blen_cons.
      rewrite Z.pow_add_r by (pose proof (blen_nonneg acc); lia).
      assert (En : n = 10 * (n / 10) + n mod 10) by lia.
      remember (n / 10) as q. remember (n mod 10) as r. clear Heqq Heqr Hn Hd E IH.
      subst n. ring.
Qed.

Lemma dec_nat_fuel_ok : forall n, 0 <= n -> n < 10 ^ Z.of_nat (S (Z.to_nat (Z.log2 n))).
Proof.
  intros n Hn.
  pose proof (Z.log2_nonneg n) as Hl.
  rewrite Nat2Z.inj_succ, Z2Nat.id by lia.
  assert (H2 : n < 2 ^ Z.succ (Z.log2 n)).
  { destruct (Z.eq_dec n 0) as [->|Hnz].
    - reflexivity.
    - apply Z.log2_spec. lia. }
  assert (H10 : 2 ^ Z.succ (Z.log2 n) <= 10 ^ Z.succ (Z.log2 n)).
  { apply Z.pow_le_mono_l. lia. }
  lia.
Qed.

Lemma undec_dec_nat : forall n, 0 <= n -> undec (dec_nat n) = n.
Proof.
  intros n Hn. unfold dec_nat. rewrite undec_fuel.
  - change (blen []) with 0. rewrite undec_nil. lia.
  - split; [exact Hn|]. apply dec_nat_fuel_ok. exact Hn.
Qed.

(* ---------------------------------------------------------------- no leading zero *)
Lemma dec_fuel_head : forall fuel n acc, 0 < n < 10 ^ Z.of_nat fuel ->
  exists d r, dec_fuel fuel n acc = d :: r /\ d <> "0"%byte.
Proof.
  induction fuel as [|f IH]; intros n acc Hn.
  - change (10 ^ Z.of_nat 0) with 1 in Hn. lia.
  - rewrite dec_fuel_S.
    assert (Hpow : 10 ^ Z.of_nat (S f) = 10 * 10 ^ Z.of_nat f).
    { rewrite Nat2Z.inj_succ, Z.pow_succ_r by lia. reflexivity. }
    destruct (n <? 10) eqn:E.
    + exists (digit (n mod 10)), acc. split; [reflexivity|].
      intros Habs. apply (f_equal b2z) in Habs. rewrite b2z_digit in Habs by lia.
      change (b2z "0"%byte) with 48 in Habs. lia.
    + apply IH. lia.
Qed.

Lemma dec_nat_no_leading_zero : forall n, 0 <= n ->
  match dec_nat n with c :: _ :: _ => c <> "0"%byte | _ => True end.
Proof.
  intros n Hn. destruct (Z.eq_dec n 0) as [->|Hnz].
  - vm_compute. exact I.
  - unfold dec_nat.
    destruct (dec_fuel_head (S (Z.to_nat (Z.log2 n))) n []) as (d & r & E & Hd).
    { split; [lia|]. apply dec_nat_fuel_ok. exact Hn. }
    rewrite E. destruct r; [exact I|exact Hd].
Qed.

(* ---------------------------------------------------------------- dec *)
Lemma dec_neg : forall z, z < 0 -> dec z = "-"%byte :: dec_nat (- z).
Proof. intros z Hz. unfold dec. destruct (z <? 0) eqn:E; [reflexivity|lia]. Qed.

Lemma dec_nonneg : forall z, 0 <= z -> dec z = dec_nat z.
Proof. intros z Hz. unfold dec. destruct (z <? 0) eqn:E; [lia|reflexivity]. Qed.

Lemma dec_nat_head_digit : forall n, 0 <= n ->
  exists d r, dec_nat n = d :: r /\ is_digit d = true.
Proof.
  intros n Hn. pose proof (dec_nat_digits n Hn) as Hd. pose proof (dec_nat_nonempty n) as Hne.
  destruct (dec_nat n) as [|d r]; [contradiction|].
  cbn [forallb] in Hd. apply andb_true_iff in Hd as [Hd _]. eauto.
Qed.

Lemma dec_inj : forall a b, dec a = dec b -> a = b.
Proof.
  intros a b H.
  destruct (Z.ltb_spec a 0) as [Ha|Ha]; destruct (Z.ltb_spec b 0) as [Hb|Hb].
  - rewrite (dec_neg a Ha), (dec_neg b Hb) in H. inversion H as [H1].
    apply (f_equal undec) in H1. rewrite !undec_dec_nat in H1 by lia. lia.
  - rewrite (dec_neg a Ha), (dec_nonneg b Hb) in H.
    destruct (dec_nat_head_digit b Hb) as (d & r & E & Hd). rewrite E in H.
    inversion H; subst d. vm_compute in Hd. discriminate.
  - rewrite (dec_nonneg a Ha), (dec_neg b Hb) in H.
    destruct (dec_nat_head_digit a Ha) as (d & r & E & Hd). rewrite E in H.
    inversion H; subst d. vm_compute in Hd. discriminate.
  - rewrite (dec_nonneg a Ha), (dec_nonneg b Hb) in H.
    apply (f_equal undec) in H. rewrite !undec_dec_nat in H by lia. exact H.
Qed.

Lemma dec_no_special : forall z, forallb (fun c => is_digit c || beq c "-"%byte) (dec z) = true.
Proof.
  intros z.
  assert (W : forall c, is_digit c = true -> is_digit c || beq c "-"%byte = true).
  { intros c Hc. rewrite Hc. reflexivity. }
  destruct (Z.ltb_spec z 0) as [Hz|Hz].
  - rewrite (dec_neg z Hz). cbn [forallb]. rewrite beq_refl, orb_true_r. cbn [andb].
    apply (forallb_impl is_digit); [exact W|]. apply dec_nat_digits. lia.
  - rewrite (dec_nonneg z Hz). apply (forallb_impl is_digit); [exact W|].
    apply dec_nat_digits. exact Hz.
Qed.

Lemma dec_nonempty : forall z, dec z <> [].
Proof.
  intros z. unfold dec. destruct (z <? 0); [discriminate|apply dec_nat_nonempty].
Qed.

(* ---------------------------------------------------------------- json_num_ok, staged *)
Definition json_body (t1 : bytes) : bool :=
  let '(ip, r1) := span is_digit t1 in
  negb (is_nil ip) && (match ip with c :: _ :: _ => negb (beq c "0"%byte) | _ => true end) &&
  match r1 with
  | c :: r => if beq c "."%byte then let '(fp, r2) := span is_digit r in negb (is_nil fp) && json_exp_ok r2
              else json_exp_ok r1
  | [] => true
  end.

Lemma json_num_ok_eq : forall t,
  json_num_ok t = json_body (match t with c :: r => if beq c "-"%byte then r else t | [] => t end).
Proof. reflexivity. Qed.

Lemma digit_not_minus : forall d, is_digit d = true -> beq d "-"%byte = false.
Proof. intros d Hd. apply digit_beq_false; [exact Hd|reflexivity]. Qed.

Lemma json_num_ok_digit_head : forall d r, is_digit d = true ->
  json_num_ok (d :: r) = json_body (d :: r).
Proof. intros d r Hd. rewrite json_num_ok_eq, (digit_not_minus d Hd). reflexivity. Qed.

Lemma json_body_head : forall t, json_body t = true -> exists d r, t = d :: r /\ is_digit d = true.
Proof.
  intros t H. unfold json_body in H.
  destruct (span is_digit t) as [ip r1] eqn:Hs.
  apply span_spec in Hs as (E & Hip & _).
  destruct ip as [|d ip']; [discriminate H|].
  cbn [forallb] in Hip. apply andb_true_iff in Hip as [Hd _].
  subst t. exists d, (ip' ++ r1). auto.
Qed.

Lemma json_body_digits : forall ip, ip <> [] -> forallb is_digit ip = true ->
  (match ip with c :: _ :: _ => c <> "0"%byte | _ => True end) -> json_body ip = true.
Proof.
  intros ip Hne Hd Hz. unfold json_body. rewrite (span_all _ _ Hd).
  destruct ip as [|c [|c' ip']]; [contradiction|reflexivity|].
  rewrite (beq_false_neq _ _ Hz). reflexivity.
Qed.

Lemma dec_json_num_ok : forall z, json_num_ok (dec z) = true.
Proof.
  intros z.
  assert (Hb : forall n, 0 <= n -> json_body (dec_nat n) = true).
  { intros n Hn. apply json_body_digits.
    - apply dec_nat_nonempty.
    - apply dec_nat_digits; exact Hn.
    - apply dec_nat_no_leading_zero; exact Hn. }
  destruct (Z.ltb_spec z 0) as [Hz|Hz].
  - rewrite (dec_neg z Hz), json_num_ok_eq. rewrite beq_refl. apply Hb. lia.
  - rewrite (dec_nonneg z Hz).
    destruct (dec_nat_head_digit z Hz) as (d & r & E & Hd).
    rewrite E, (json_num_ok_digit_head d r Hd), <- E. apply Hb. exact Hz.
Qed.

(* ====================================================================== C. lexing numbers *)
Definition num_bnd (rest : bytes) : Prop :=
  match rest with
  | [] => True
  | c :: _ => is_ident_start c = false /\ is_digit c = false /\ c <> "."%byte
  end.

(* the three stages of lex_number, named *)
Definition lex_frac (r1 : bytes) : option bytes * bytes :=
  match r1 with
  | c :: r => if beq c "."%byte then let '(fp, r') := span is_digit r in (Some fp, r') else (None, r1)
  | [] => (None, r1)
  end.
Definition lex_exp (r2 : bytes) : option (bytes * bool) * bytes :=
  match r2 with
  | c :: r => if beq c "e"%byte || beq c "E"%byte then
      let '(sg, r') := match r with
                       | s :: r'' => if beq s "+"%byte || beq s "-"%byte then ([s], r'') else ([], r)
                       | [] => ([], r) end in
      let '(ed, r'') := span is_digit r' in (Some (c :: sg ++ ed, is_nil ed), r'')
    else (None, r2)
  | [] => (None, r2)
  end.
Definition lex_fin (ip : bytes) (frac : option bytes) (ex : option (bytes * bool)) (r3 : bytes)
  : option (token * bytes) :=
  let junk := match r3 with c :: _ => is_ident_start c || beq c "."%byte | [] => false end in
  let bad_exp := match ex with Some (_, true) => true | _ => false end in
  if is_nil ip || junk || bad_exp then None else
  match frac, ex with
  | None, None => Some (TInt (undec ip), r3)
  | _, _ => Some (TNum (ip ++ match frac with Some fp => "."%byte :: fp | None => [] end
                           ++ match ex with Some (e, _) => e | None => [] end), r3)
  end.

Lemma lex_number_unfold : forall t,
  lex_number t =
  let '(ip, r1) := span is_digit t in
  let '(frac, r2) := lex_frac r1 in
  let '(ex, r3) := lex_exp r2 in
  lex_fin ip frac ex r3.
Proof. reflexivity. Qed.

Definition hd_ok (p : byte -> bool) (x : bytes) : Prop :=
  match x with [] => True | c :: _ => p c = false end.

Lemma is_exp_marker : forall c, beq c "e"%byte || beq c "E"%byte = true ->
  is_digit c = false /\ beq c "."%byte = false /\ is_ident_start c = true.
Proof.
  intros c H. apply orb_true_iff in H as [H|H]; apply beq_true in H; subst c;
    vm_compute; auto.
Qed.

Lemma not_ident_start_not_exp : forall c, is_ident_start c = false ->
  beq c "e"%byte || beq c "E"%byte = false.
Proof.
  intros c H. destruct (beq c "e"%byte || beq c "E"%byte) eqn:E; [|reflexivity].
  apply is_exp_marker in E as (_ & _ & E). congruence.
Qed.

Lemma is_sign : forall s, beq s "+"%byte || beq s "-"%byte = true -> is_digit s = false.
Proof.
  intros s H. apply orb_true_iff in H as [H|H]; apply beq_true in H; subst s; reflexivity.
Qed.

Lemma digit_not_sign : forall d, is_digit d = true -> beq d "+"%byte || beq d "-"%byte = false.
Proof.
  intros d Hd. destruct (beq d "+"%byte || beq d "-"%byte) eqn:E; [|reflexivity].
  apply is_sign in E. congruence.
Qed.

Lemma num_bnd_digit : forall rest, num_bnd rest -> hd_ok is_digit rest.
Proof. intros [|c r]; cbn; [auto|]. intros (_ & H & _). exact H. Qed.

Lemma lex_frac_bnd : forall rest, num_bnd rest -> lex_frac rest = (None, rest).
Proof.
  intros [|c r] H; [reflexivity|]. destruct H as (_ & _ & H).
  unfold lex_frac. rewrite (beq_false_neq _ _ H). reflexivity.
Qed.

Lemma lex_exp_bnd : forall rest, num_bnd rest -> lex_exp rest = (None, rest).
Proof.
  intros [|c r] H; [reflexivity|]. destruct H as (H & _ & _).
  unfold lex_exp. rewrite (not_ident_start_not_exp _ H). reflexivity.
Qed.

Lemma lex_fin_bnd : forall ip frac ex rest, ip <> [] -> num_bnd rest ->
  match ex with Some (_, true) => False | _ => True end ->
  lex_fin ip frac ex rest =
  match frac, ex with
  | None, None => Some (TInt (undec ip), rest)
  | _, _ => Some (TNum (ip ++ match frac with Some fp => "."%byte :: fp | None => [] end
                           ++ match ex with Some (e, _) => e | None => [] end), rest)
  end.
Proof.
  intros ip frac ex rest Hip Hb Hex. unfold lex_fin.
  assert (J : match rest with c :: _ => is_ident_start c || beq c "."%byte | [] => false end = false).
  { destruct rest as [|c r]; [reflexivity|]. destruct Hb as (H1 & _ & H3).
    rewrite H1, (beq_false_neq _ _ H3). reflexivity. }
  rewrite J. destruct ip as [|i ip']; [contradiction|]. cbn [is_nil orb].
  destruct ex as [[e [|]]|]; [contradiction| |]; reflexivity.
Qed.

Lemma lex_number_digits : forall ip rest, ip <> [] -> forallb is_digit ip = true -> num_bnd rest ->
  lex_number (ip ++ rest) = Some (TInt (undec ip), rest).
Proof.
  intros ip rest Hne Hd Hb. rewrite lex_number_unfold.
  rewrite (span_app is_digit ip rest Hd (num_bnd_digit _ Hb)).
  rewrite (lex_frac_bnd _ Hb), (lex_exp_bnd _ Hb).
  rewrite (lex_fin_bnd ip None None rest Hne Hb I). reflexivity.
Qed.

Lemma lex_number_int : forall n rest, 0 <= n -> num_bnd rest ->
  lex_number (dec_nat n ++ rest) = Some (TInt n, rest).
Proof.
  intros n rest Hn Hb.
  rewrite (lex_number_digits _ _ (dec_nat_nonempty n) (dec_nat_digits n Hn) Hb).
  rewrite (undec_dec_nat n Hn). reflexivity.
Qed.

(* ---------------------------------------------------------------- shape of a JSON number *)
(* exponent part: empty, or marker, optional sign, non-empty digits *)
Definition exp_shape (x : bytes) : Prop :=
  x = [] \/
  exists c sg ed, x = c :: sg ++ ed /\ beq c "e"%byte || beq c "E"%byte = true /\
    (sg = [] \/ exists s, sg = [s] /\ beq s "+"%byte || beq s "-"%byte = true) /\
    ed <> [] /\ forallb is_digit ed = true.
(* fraction part: empty, or dot and non-empty digits *)
Definition frac_shape (x : bytes) : Prop :=
  x = [] \/ exists fp, x = "."%byte :: fp /\ fp <> [] /\ forallb is_digit fp = true.

Lemma json_exp_shape : forall x, json_exp_ok x = true -> exp_shape x.
Proof.
  intros [|c r1] H; [left; reflexivity|right].
  cbn [json_exp_ok] in H. apply andb_true_iff in H as [Hc H].
  destruct r1 as [|s r']; [discriminate H|].
  destruct (beq s "+"%byte || beq s "-"%byte) eqn:Hs.
  - apply andb_true_iff in H as [Hn Hd].
    exists c, [s], r'. repeat split; auto.
    + right. exists s. auto.
    + intros ->. discriminate Hn.
  - apply andb_true_iff in H as [_ Hd].
    exists c, [], (s :: r'). repeat split; auto. discriminate.
Qed.

Lemma json_body_shape : forall body, json_body body = true ->
  exists ip fr ex, body = ip ++ fr ++ ex /\ ip <> [] /\ forallb is_digit ip = true /\
                   frac_shape fr /\ exp_shape ex.
Proof.
  intros body H. unfold json_body in H.
  destruct (span is_digit body) as [ip r1] eqn:Hs.
  apply span_spec in Hs as (E & Hip & _).
  apply andb_true_iff in H as [H H3]. apply andb_true_iff in H as [H1 _].
  assert (Hne : ip <> []) by (intros ->; discriminate H1).
  destruct r1 as [|c r].
  - exists ip, [], []. repeat split; auto; left; reflexivity.
  - destruct (beq c "."%byte) eqn:Hc.
    + apply beq_true in Hc. subst c.
      destruct (span is_digit r) as [fp r2] eqn:Hs2.
      apply span_spec in Hs2 as (E2 & Hfp & _).
      apply andb_true_iff in H3 as [Hn He].
      exists ip, ("."%byte :: fp), r2. subst r. repeat split; auto.
      * right. exists fp. repeat split; auto. intros ->. discriminate Hn.
      * apply json_exp_shape. exact He.
    + exists ip, [], (c :: r). repeat split; auto.
      * left; reflexivity.
      * apply json_exp_shape. exact H3.
Qed.

Lemma json_num_shape : forall t, json_num_ok t = true ->
  exists body, (t = body \/ t = "-"%byte :: body) /\ json_num_ok body = true /\
               exists d r, body = d :: r /\ is_digit d = true.
Proof.
  intros t H. rewrite json_num_ok_eq in H.
  destruct t as [|c r].
  - discriminate H.
  - destruct (beq c "-"%byte) eqn:Hc.
    + apply beq_true in Hc. subst c.
      destruct (json_body_head _ H) as (d & r' & E & Hd).
      exists r. split; [right; reflexivity|]. split; [|eauto].
      subst r. rewrite (json_num_ok_digit_head d r' Hd). exact H.
    + destruct (json_body_head _ H) as (d & r' & E & Hd).
      exists (c :: r). split; [left; reflexivity|]. split; [|eauto].
      rewrite E, (json_num_ok_digit_head d r' Hd), <- E. exact H.
Qed.

(* ---------------------------------------------------------------- 9. characters of a JSON number *)
Lemma digits_numchars : forall l, forallb is_digit l = true -> forallb is_json_numchar l = true.
Proof.
  intros l. apply forallb_impl. intros c Hc. unfold is_json_numchar. rewrite Hc. reflexivity.
Qed.

Lemma frac_shape_chars : forall x, frac_shape x -> forallb is_json_numchar x = true.
Proof.
  intros x [->|(fp & -> & _ & Hd)]; [reflexivity|].
  cbn [forallb]. rewrite (digits_numchars _ Hd). reflexivity.
Qed.

Lemma exp_shape_chars : forall x, exp_shape x -> forallb is_json_numchar x = true.
Proof.
  intros x [->|(c & sg & ed & -> & Hc & Hsg & _ & Hd)]; [reflexivity|].
  cbn [forallb]. rewrite forallb_app, (digits_numchars _ Hd), andb_true_r.
  apply andb_true_iff. split.
  - unfold is_json_numchar. apply orb_true_iff in Hc as [Hc|Hc]; rewrite Hc;
      rewrite ?orb_true_r; reflexivity.
  - destruct Hsg as [->|(s & -> & Hs)]; [reflexivity|].
    cbn [forallb]. rewrite andb_true_r. unfold is_json_numchar.
    apply orb_true_iff in Hs as [Hs|Hs]; rewrite Hs; rewrite ?orb_true_r; reflexivity.
Qed.

Lemma json_body_chars : forall body, json_body body = true -> forallb is_json_numchar body = true.
Proof.
  intros body H. destruct (json_body_shape _ H) as (ip & fr & ex & -> & _ & Hip & Hfr & Hex).
  rewrite !forallb_app, (digits_numchars _ Hip), (frac_shape_chars _ Hfr), (exp_shape_chars _ Hex).
  reflexivity.
Qed.

Lemma json_num_ok_chars : forall t, json_num_ok t = true -> forallb is_json_numchar t = true.
Proof.
  intros t H. destruct (json_num_shape t H) as (body & Ht & Hb & d & r & E & Hd).
  assert (Hc : forallb is_json_numchar body = true).
  { apply json_body_chars. rewrite E, <- (json_num_ok_digit_head d r Hd), <- E. exact Hb. }
  destruct Ht as [->| ->]; [exact Hc|]. cbn [forallb]. rewrite Hc. reflexivity.
Qed.

(* ---------------------------------------------------------------- 11. lexing a JSON number body *)
Lemma exp_shape_hd : forall ex, exp_shape ex -> ex <> [] ->
  exists c r, ex = c :: r /\ is_digit c = false /\ beq c "."%byte = false.
Proof.
  intros ex [->|(c & sg & ed & -> & Hc & _)] Hne; [contradiction|].
  apply is_exp_marker in Hc as (H1 & H2 & _). eauto.
Qed.

(* what follows the integer part / the fraction digits does not start with a digit *)
Lemma tail_hd_digit : forall ex rest, exp_shape ex -> num_bnd rest -> hd_ok is_digit (ex ++ rest).
Proof.
  intros ex rest Hex Hb. destruct ex as [|c r] eqn:E.
  - apply num_bnd_digit. exact Hb.
  - destruct (exp_shape_hd (c :: r) Hex) as (c' & r' & E' & H1 & _); [discriminate|].
    inversion E'; subst. exact H1.
Qed.

Lemma lex_frac_some : forall fp x, forallb is_digit fp = true -> hd_ok is_digit x ->
  lex_frac ("."%byte :: fp ++ x) = (Some fp, x).
Proof.
  intros fp x Hfp Hx. unfold lex_frac. rewrite beq_refl.
  rewrite (span_app is_digit fp x Hfp Hx). reflexivity.
Qed.

Lemma lex_frac_exp : forall ex rest, exp_shape ex -> num_bnd rest ->
  lex_frac (ex ++ rest) = (None, ex ++ rest).
Proof.
  intros ex rest Hex Hb. destruct ex as [|c r] eqn:E.
  - apply lex_frac_bnd. exact Hb.
  - destruct (exp_shape_hd (c :: r) Hex) as (c' & r' & E' & _ & H2); [discriminate|].
    inversion E'; subst. cbn [app]. unfold lex_frac. rewrite H2. reflexivity.
Qed.

Lemma lex_exp_some : forall ex rest, exp_shape ex -> ex <> [] -> num_bnd rest ->
  lex_exp (ex ++ rest) = (Some (ex, false), rest).
Proof.
  intros ex rest [->|(c & sg & ed & -> & Hc & Hsg & Hne & Hd)] Hex Hb; [contradiction|].
  pose proof (num_bnd_digit _ Hb) as Hr.
  cbn [app]. unfold lex_exp. rewrite Hc.
  destruct Hsg as [->|(s & -> & Hs)].
  - cbn [app]. destruct ed as [|d ed']; [contradiction|].
    cbn [forallb] in Hd. pose proof Hd as Hd'. apply andb_true_iff in Hd' as [Hd0 _].
    cbn [app]. rewrite (digit_not_sign d Hd0).
    change (d :: ed' ++ rest) with ((d :: ed') ++ rest).
    rewrite (span_app is_digit (d :: ed') rest Hd Hr). reflexivity.
  - cbn [app]. rewrite Hs. rewrite (span_app is_digit ed rest Hd Hr).
    destruct ed; [contradiction|]. reflexivity.
Qed.

Lemma forallb_digit_frac : forall ip fr ex, frac_shape fr -> fr <> [] ->
  forallb is_digit (ip ++ fr ++ ex) = false.
Proof.
  intros ip fr ex [->|(fp & -> & _)] Hne; [contradiction|].
  rewrite forallb_app. cbn [app forallb].
  change (is_digit "."%byte) with false. cbn [andb]. apply andb_false_r.
Qed.

Lemma forallb_digit_exp : forall ip fr ex, exp_shape ex -> ex <> [] ->
  forallb is_digit (ip ++ fr ++ ex) = false.
Proof.
  intros ip fr ex Hex Hne. destruct (exp_shape_hd ex Hex Hne) as (c & r & -> & Hc & _).
  rewrite !forallb_app. cbn [forallb]. rewrite Hc. cbn [andb]. rewrite !andb_false_r. reflexivity.
Qed.

Lemma lex_number_body : forall body rest, json_body body = true -> num_bnd rest ->
  lex_number (body ++ rest) =
  Some ((if forallb is_digit body then TInt (undec body) else TNum body), rest).
Proof.
  intros body rest H Hb.
  destruct (json_body_shape _ H) as (ip & fr & ex & -> & Hne & Hip & Hfr & Hex).
  rewrite lex_number_unfold. rewrite <- !app_assoc.
  assert (Hexr : hd_ok is_digit (ex ++ rest)) by (apply tail_hd_digit; assumption).
  (* the exponent stage and the result, common to both fraction cases *)
  assert (Hfin : forall frac,
            (let '(ex0, r3) := lex_exp (ex ++ rest) in lex_fin ip frac ex0 r3) =
            match frac, ex with
            | None, [] => Some (TInt (undec ip), rest)
            | _, _ => Some (TNum (ip ++ match frac with Some fp => "."%byte :: fp | None => [] end
                                     ++ ex), rest)
            end).
  { intros frac. destruct ex as [|c r] eqn:E.
    - cbn [app]. rewrite (lex_exp_bnd _ Hb). rewrite (lex_fin_bnd ip frac None rest Hne Hb I).
      destruct frac; reflexivity.
    - rewrite (lex_exp_some (c :: r) rest Hex ltac:(discriminate) Hb).
      rewrite lex_fin_bnd; [|exact Hne|exact Hb|exact I].
      destruct frac; reflexivity. }
  destruct Hfr as [->|(fp & -> & Hfpne & Hfp)].
  - (* no fraction *)
    cbn [app]. rewrite (span_app is_digit ip (ex ++ rest) Hip Hexr).
    rewrite (lex_frac_exp ex rest Hex Hb). rewrite (Hfin None).
    destruct ex as [|c r] eqn:E.
    + rewrite app_nil_r, Hip. reflexivity.
    + pose proof (forallb_digit_exp ip [] (c :: r) Hex ltac:(discriminate)) as F.
      cbn [app] in F. rewrite F. reflexivity.
  - (* fraction *)
    rewrite (forallb_digit_frac ip ("."%byte :: fp) ex
               (or_intror (ex_intro _ fp (conj eq_refl (conj Hfpne Hfp)))) ltac:(discriminate)).
    cbn [app]. rewrite (span_app is_digit ip ("."%byte :: fp ++ ex ++ rest) Hip eq_refl).
    rewrite (lex_frac_some fp (ex ++ rest) Hfp Hexr). rewrite (Hfin (Some fp)).
    destruct ex; reflexivity.
Qed.

Lemma lex_number_json : forall body rest, json_num_ok body = true ->
  (exists d r, body = d :: r /\ is_digit d = true) -> num_bnd rest ->
  lex_number (body ++ rest) =
  Some ((if forallb is_digit body then TInt (undec body) else TNum body), rest).
Proof.
  intros body rest H (d & r & E & Hd) Hb. apply lex_number_body; [|exact Hb].
  rewrite E, <- (json_num_ok_digit_head d r Hd), <- E. exact H.
Qed.

(* ---------------------------------------------------------------- 12, 13. lex_tok on numbers *)
Lemma lex_tok_neg : forall d r, is_digit d = true ->
  lex_tok ("-"%byte :: d :: r) = Some (TPunct "-"%byte, d :: r).
Proof.
  intros d r Hd. unfold lex_tok.
  change (beq "-"%byte "-"%byte) with true. cbv iota.
  rewrite (digit_not_minus d Hd), Hd. reflexivity.
Qed.

Lemma lex_tok_digit : forall d r, is_digit d = true -> lex_tok (d :: r) = lex_number (d :: r).
Proof.
  intros d r Hd. unfold lex_tok.
  rewrite (digit_beq_false d "-"%byte Hd eq_refl).
  rewrite (digit_beq_false d """"%byte Hd eq_refl).
  rewrite (digit_beq_false d "'"%byte Hd eq_refl).
  rewrite (digit_beq_false d "$"%byte Hd eq_refl).
  rewrite Hd. reflexivity.
Qed.

(* ---------------------------------------------------------------- sanity examples (non-vacuity) *)
Example num_bnd_ex : num_bnd (B ", 2)") /\ num_bnd [] /\ num_bnd (B ")").
Proof. vm_compute. repeat split; discriminate. Qed.
Example dec_ex : dec (-1203) = B "-1203" /\ dec 0 = B "0" /\ undec (B "00120") = 120.
Proof. vm_compute. auto. Qed.
Example lex_number_json_ex :
  json_num_ok (B "12.50e-3") = true /\
  lex_number (B "12.50e-3" ++ B ", x") = Some (TNum (B "12.50e-3"), B ", x") /\
  lex_number (B "120" ++ B ")") = Some (TInt 120, B ")").
Proof. vm_compute. auto. Qed.
